import AllfedModel.Model.PhysSpec
import AllfedModel.Model.Report
import AllfedModel.Model.Handoff
/-
Property C02, completeness: what a *physically feasible allocation* is, written from the supplies
(stocks, monthly production, slaughter, growth, charge, intake limits) and the decision quantities
only — no stock-keeping variables, no percent-fed variables, no objective variable.
`Props/C02.lean` shows that the feasible points of `buildLP i .toHumans` are exactly these
allocations (with the stock variables reconstructed as running differences), and that the LP's
objective values are exactly the worst-month percentages they achieve.
-/
namespace Allfed.AllocSpec
open Allfed.LP Allfed.AllocLP Allfed.PhysSpec Allfed.Report

/-- the decision quantities of an allocation, month by month (billion kcals; seaweed in wet
    tonnes and km²) -/
structure Alloc (α : Type) where
  sfHumans : Nat → α
  sfFeed : Nat → α
  sfBiofuel : Nat → α
  cropHumans : Nat → α
  cropFeed : Nat → α
  cropBiofuel : Nat → α
  scpHumans : Nat → α
  scpFeed : Nat → α
  scpBiofuel : Nat → α
  csHumans : Nat → α
  csFeed : Nat → α
  csBiofuel : Nat → α
  meatEaten : Nat → α
  swHumans : Nat → α
  swFeed : Nat → α
  swBiofuel : Nat → α
  swWet : Nat → α
  usedArea : Nat → α

section
variable {α : Type} [Add α] [Sub α] [Mul α] [Div α] [Neg α] [LE α] [LT α]
  [DecidableLE α] [DecidableLT α] [OfNat α 0] [OfNat α 1] [OfScientific α]

/-- an allocation read as an assignment of the LP's variables (stock-keeping, percent-fed and
    objective variables: 0); lets the supply-side quantities of `PhysSpec` (`storedUse`, `cropUse`,
    `meatUse`, `feedTotal`, `seaweedLedger`, …) be evaluated at an allocation — they read decision
    variables only -/
def Alloc.toVar (a : Alloc α) : Var → α
  | .mv .sfHumans m => a.sfHumans m
  | .mv .sfFeed m => a.sfFeed m
  | .mv .sfBiofuel m => a.sfBiofuel m
  | .mv .cropHumans m => a.cropHumans m
  | .mv .cropFeed m => a.cropFeed m
  | .mv .cropBiofuel m => a.cropBiofuel m
  | .mv .scpHumans m => a.scpHumans m
  | .mv .scpFeed m => a.scpFeed m
  | .mv .scpBiofuel m => a.scpBiofuel m
  | .mv .csHumans m => a.csHumans m
  | .mv .csFeed m => a.csFeed m
  | .mv .csBiofuel m => a.csBiofuel m
  | .mv .meatEaten m => a.meatEaten m
  | .mv .swHumans m => a.swHumans m
  | .mv .swFeed m => a.swFeed m
  | .mv .swBiofuel m => a.swBiofuel m
  | .mv .swWet m => a.swWet m
  | .mv .usedArea m => a.usedArea m
  | _ => 0

/-- the allocation a point of the LP contains -/
def allocOf (x : Var → α) : Alloc α :=
  { sfHumans := fun m => x (.mv .sfHumans m),
    sfFeed := fun m => x (.mv .sfFeed m),
    sfBiofuel := fun m => x (.mv .sfBiofuel m),
    cropHumans := fun m => x (.mv .cropHumans m),
    cropFeed := fun m => x (.mv .cropFeed m),
    cropBiofuel := fun m => x (.mv .cropBiofuel m),
    scpHumans := fun m => x (.mv .scpHumans m),
    scpFeed := fun m => x (.mv .scpFeed m),
    scpBiofuel := fun m => x (.mv .scpBiofuel m),
    csHumans := fun m => x (.mv .csHumans m),
    csFeed := fun m => x (.mv .csFeed m),
    csBiofuel := fun m => x (.mv .csBiofuel m),
    meatEaten := fun m => x (.mv .meatEaten m),
    swHumans := fun m => x (.mv .swHumans m),
    swFeed := fun m => x (.mv .swFeed m),
    swBiofuel := fun m => x (.mv .swBiofuel m),
    swWet := fun m => x (.mv .swWet m),
    usedArea := fun m => x (.mv .usedArea m) }

/-- what people are given in month `m` (billion kcals): allocations to humans of the resources that
    are switched on, plus milk, greenhouse crops and fish -/
def given (i : Inp α) (a : Alloc α) (m : Nat) : α :=
  X a.toVar i.addStored .sfHumans m + X a.toVar i.addOutdoor .cropHumans m
    + X a.toVar i.addSeaweed .swHumans m * i.seaweedKcals + at' i.milk m + X a.toVar i.addMeat .meatEaten m
    + X a.toVar i.addCs .csHumans m + X a.toVar i.addScp .scpHumans m + at' i.greenhouse m + at' i.fish m

/-- percent of the monthly need people are given in month `m` -/
def pct (i : Inp α) (a : Alloc α) (m : Nat) : α := given i a m / i.billionKcalsNeeded * 100.0

/-- intake caps of one resilient food in month `m`: at most `limH` % of the need of the full
    population and of the population actually fed; at most `limF` % of the feed charge and `limB` %
    of the biofuel charge -/
def IntakeOK (i : Inp α) (a : Alloc α) (on : Bool) (ratio : α) (vH vF vB : Nat → α)
    (limH limF limB : α) (m : Nat) : Prop :=
  on = true →
    (vH m * ratio ≤ limH / 100.0 * (i.pop * i.kcalsMonthly / 1e9) ∧
     vH m * ratio ≤ limH / 100.0 * (pct i a m * i.billionKcalsNeeded / 100.0)) ∧
    vF m * ratio ≤ limF / 100.0 * at' i.feed m ∧
    vB m * ratio ≤ limB / 100.0 * at' i.biofuel m

/-- a physically feasible allocation of a human-maximising round -/
structure PhysFeasible (i : Inp α) (a : Alloc α) : Prop where
  /-- no quantity is negative -/
  nonneg : ∀ k m, 0 ≤ a.toVar (.mv k m)
  /-- stored food: never more drawn than the stock; where food can be stored between years the
      stock is used up by the last month; where it cannot, nothing is drawn after month 12 -/
  stored : i.addStored = true →
    (∀ m, m < i.nmonths → (i.storeBetweenYears = true ∨ m ≤ 12) →
        cum (storedUse i a.toVar) m ≤ i.storedInitial) ∧
    (i.storeBetweenYears = true → cum (storedUse i a.toVar) (i.nmonths - 1) = i.storedInitial) ∧
    (i.storeBetweenYears = false → ∀ m, m < i.nmonths → 12 < m →
        a.sfHumans m = 0 ∧ a.sfFeed m = 0 ∧ a.sfBiofuel m = 0)
  /-- crops: never more used than harvested so far; everything used by the last month -/
  crops : i.addOutdoor = true →
    (∀ m, m < i.nmonths → cum (cropUse i a.toVar) m ≤ cum (at' i.cropProd) m) ∧
    cum (cropUse i a.toVar) (i.nmonths - 1) = cum (at' i.cropProd) (i.nmonths - 1)
  /-- meat that can be stored: eaten so far within the horizon's total and the running slaughter total -/
  meatStored : i.addMeat = true → i.storeBetweenYears = true → ∀ m, m < i.nmonths →
    cum (meatUse i a.toVar) m ≤ i.meatSummed ∧ cum (meatUse i a.toVar) m ≤ at' i.maxCulled m
  /-- meat that cannot be stored: within the month's slaughter -/
  meatFresh : i.addMeat = true → i.storeBetweenYears = false → ∀ m, m < i.nmonths →
    meatUse i a.toVar m ≤ at' i.slaughtered m
  scp : i.addScp = true → ∀ m, m < i.nmonths → scpUse i a.toVar m ≤ at' i.scp m
  cs : i.addCs = true → ∀ m, m < i.nmonths → csUse i a.toVar m ≤ at' i.cs m
  /-- seaweed: biomass and farm area within their bounds; month 0 starts from the initial farm and
      harvests nothing; afterwards the growth–harvest ledger -/
  seaweed : i.addSeaweed = true → ∀ m, m < i.nmonths →
    (i.initialSeaweed ≤ a.swWet m ∧ a.swWet m ≤ i.maxDensity * at' i.builtArea m ∧
      i.initialBuiltArea ≤ a.usedArea m ∧ a.usedArea m ≤ at' i.builtArea m) ∧
    (if m = 0 then
        a.swWet m = i.initialSeaweed ∧ a.usedArea m = i.initialBuiltArea ∧
        a.swHumans 0 = 0 ∧ a.swFeed 0 = 0 ∧ a.swBiofuel 0 = 0
     else a.swWet m = seaweedLedger i a.toVar m)
  /-- feed and biofuel drawn from human-edible food equal the charge -/
  charge : anyFeedVar i = true → ∀ m, m < i.nmonths →
    feedTotal i a.toVar m = at' i.feed m ∧ biofuelTotal i a.toVar m = at' i.biofuel m
  /-- the percent fed is a non-negative number -/
  pctNonneg : ∀ m, m < i.nmonths → 0 ≤ pct i a m
  intakeSeaweed : ∀ m, m < i.nmonths →
    IntakeOK i a i.addSeaweed i.seaweedKcals a.swHumans a.swFeed a.swBiofuel i.limSwH i.limSwF i.limSwB m
  intakeScp : ∀ m, m < i.nmonths →
    IntakeOK i a i.addScp 1 a.scpHumans a.scpFeed a.scpBiofuel i.limScpH i.limScpF i.limScpB m
  intakeCs : ∀ m, m < i.nmonths →
    IntakeOK i a i.addCs 1 a.csHumans a.csFeed a.csBiofuel i.limCsH i.limCsF i.limCsB m

/-- the worst month of an allocation: the number the model reports as percent fed -/
def worstMonth (i : Inp α) (a : Alloc α) : α := minOver (pct i a) i.nmonths

/-! ### the feed-maximising round -/

/-- `v` is pinned inside the tolerance band around `minCons` (`±0.01 %` for fewer than 10 million
    people, `±0.001 %` otherwise): people keep what the human-maximising round gave them -/
def Pinned (i : Inp α) (v minCons : α) : Prop :=
  (if i.pop < 1e7 then 0.9999 * minCons else 0.99999 * minCons) ≤ v ∧
  v ≤ (if i.pop < 1e7 then 1.0001 * minCons else 1.00001 * minCons)

/-- `v` is at least the lower end of the tolerance band around `minCons`: seaweed after the repair
    of the round-2 infeasibility (what has grown must be harvested, so people may eat more) -/
def PinnedLower (i : Inp α) (v minCons : α) : Prop :=
  (if i.pop < 1e7 then 0.9999 * minCons else 0.99999 * minCons) ≤ v

/-- feed and biofuel share caps of one resilient food in month `m` -/
def ShareOK (i : Inp α) (on : Bool) (ratio : α) (vF vB : Nat → α) (limF limB : α) (m : Nat) : Prop :=
  on = true →
    vF m * ratio ≤ limF / 100.0 * at' i.feed m ∧
    vB m * ratio ≤ limB / 100.0 * at' i.biofuel m

/-- the weighted total of human-edible food turned into feed and biofuel (feed counts twice) -/
def feedValue (i : Inp α) (a : Alloc α) : α :=
  2.0 / 3.0 * (List.range i.nmonths).foldl (fun acc m => acc + feedTotal i a.toVar m) 0
    + (List.range i.nmonths).foldl (fun acc m => acc + biofuelTotal i a.toVar m) 0 / 3.0

/-- a physically feasible allocation of the feed-maximising round: the supply clauses of
    `PhysFeasible` without the obligation to use stocks up; feed and biofuel within their
    ceilings and never rising; human consumption pinned to the result of the human round -/
structure PhysFeasibleFeed (i : Inp α) (a : Alloc α) : Prop where
  nonneg : ∀ k m, 0 ≤ a.toVar (.mv k m)
  stored : i.addStored = true →
    (∀ m, m < i.nmonths → (i.storeBetweenYears = true ∨ m ≤ 12) →
        cum (storedUse i a.toVar) m ≤ i.storedInitial) ∧
    (i.storeBetweenYears = false → ∀ m, m < i.nmonths → 12 < m →
        a.sfHumans m = 0 ∧ a.sfFeed m = 0 ∧ a.sfBiofuel m = 0)
  crops : i.addOutdoor = true →
    ∀ m, m < i.nmonths → cum (cropUse i a.toVar) m ≤ cum (at' i.cropProd) m
  meatStored : i.addMeat = true → i.storeBetweenYears = true → ∀ m, m < i.nmonths →
    cum (meatUse i a.toVar) m ≤ i.meatSummed ∧ cum (meatUse i a.toVar) m ≤ at' i.maxCulled m
  meatFresh : i.addMeat = true → i.storeBetweenYears = false → ∀ m, m < i.nmonths →
    meatUse i a.toVar m ≤ at' i.slaughtered m
  scp : i.addScp = true → ∀ m, m < i.nmonths → scpUse i a.toVar m ≤ at' i.scp m
  cs : i.addCs = true → ∀ m, m < i.nmonths → csUse i a.toVar m ≤ at' i.cs m
  seaweed : i.addSeaweed = true → ∀ m, m < i.nmonths →
    (i.initialSeaweed ≤ a.swWet m ∧ a.swWet m ≤ i.maxDensity * at' i.builtArea m ∧
      i.initialBuiltArea ≤ a.usedArea m ∧ a.usedArea m ≤ at' i.builtArea m) ∧
    (if m = 0 then
        a.swWet m = i.initialSeaweed ∧ a.usedArea m = i.initialBuiltArea ∧
        a.swHumans 0 = 0 ∧ a.swFeed 0 = 0 ∧ a.swBiofuel 0 = 0
     else a.swWet m = seaweedLedger i a.toVar m)
  /-- feed and biofuel within the ceilings, and never more than the month before -/
  ceilings : anyFeedVar i = true → ∀ m, m < i.nmonths →
    (feedTotal i a.toVar m ≤ at' i.maxFeed m ∧ biofuelTotal i a.toVar m ≤ at' i.maxBiofuel m) ∧
    (0 < m → feedTotal i a.toVar m ≤ feedTotal i a.toVar (m - 1) ∧
             biofuelTotal i a.toVar m ≤ biofuelTotal i a.toVar (m - 1))
  /-- people keep their share of each of the six foods (seaweed: at least their share) -/
  pinSeaweed : i.addSeaweed = true → ∀ m, m < i.nmonths →
    PinnedLower i (a.swHumans m * i.seaweedKcals) (at' i.minSeaweed m)
  pinCrops : i.addOutdoor = true → ∀ m, m < i.nmonths → Pinned i (a.cropHumans m) (at' i.minCrops m)
  pinStored : i.addStored = true → ∀ m, m < i.nmonths → Pinned i (a.sfHumans m) (at' i.minStored m)
  pinMeat : i.addMeat = true → ∀ m, m < i.nmonths → Pinned i (a.meatEaten m) (at' i.minMeat m)
  pinScp : i.addScp = true → ∀ m, m < i.nmonths → Pinned i (a.scpHumans m) (at' i.minScp m)
  pinCs : i.addCs = true → ∀ m, m < i.nmonths → Pinned i (a.csHumans m) (at' i.minCs m)
  shareSeaweed : ∀ m, m < i.nmonths →
    ShareOK i i.addSeaweed i.seaweedKcals a.swFeed a.swBiofuel i.limSwF i.limSwB m
  shareScp : ∀ m, m < i.nmonths → ShareOK i i.addScp 1 a.scpFeed a.scpBiofuel i.limScpF i.limScpB m
  shareCs : ∀ m, m < i.nmonths → ShareOK i i.addCs 1 a.csFeed a.csBiofuel i.limCsF i.limCsB m
  /-- the weighted total is a non-negative number -/
  valueNonneg : 0 ≤ feedValue i a

/-- the minimum-consumption series of the feed-maximising round lie between 0 and what the point
    `x` of the human-maximising round gives people of each food (seaweed in kcals); only the months
    of the horizon and the resources that are switched on matter -/
structure PinsWithin (i : Inp α) (x : Var → α) : Prop where
  seaweed : i.addSeaweed = true → ∀ m, m < i.nmonths →
    0 ≤ at' i.minSeaweed m ∧ at' i.minSeaweed m ≤ x (.mv .swHumans m) * i.seaweedKcals
  crops : i.addOutdoor = true → ∀ m, m < i.nmonths →
    0 ≤ at' i.minCrops m ∧ at' i.minCrops m ≤ x (.mv .cropHumans m)
  stored : i.addStored = true → ∀ m, m < i.nmonths →
    0 ≤ at' i.minStored m ∧ at' i.minStored m ≤ x (.mv .sfHumans m)
  meat : i.addMeat = true → ∀ m, m < i.nmonths →
    0 ≤ at' i.minMeat m ∧ at' i.minMeat m ≤ x (.mv .meatEaten m)
  scp : i.addScp = true → ∀ m, m < i.nmonths →
    0 ≤ at' i.minScp m ∧ at' i.minScp m ≤ x (.mv .scpHumans m)
  cs : i.addCs = true → ∀ m, m < i.nmonths →
    0 ≤ at' i.minCs m ∧ at' i.minCs m ≤ x (.mv .csHumans m)

/-! ### the hand-off from the human-maximising to the feed-maximising round -/

/-- what people are given in month `m` at the point `x`, food by food in the priority order of
    `calculate_human_consumption_for_min_needs` (fish, meat, dairy, greenhouse, outdoor crops, stored
    food, SCP, cellulosic sugar, seaweed), in the unit of the hand-off: `u` units per billion kcals
    (the code works in kcals per person per day; `u` is its conversion factor) -/
def humanRow (i : Inp α) (x : Var → α) (u : α) (m : Nat) : List α :=
  [ u * at' i.fish m, u * X x i.addMeat .meatEaten m, u * at' i.milk m, u * at' i.greenhouse m,
    u * X x i.addOutdoor .cropHumans m, u * X x i.addStored .sfHumans m, u * X x i.addScp .scpHumans m,
    u * X x i.addCs .csHumans m, u * (X x i.addSeaweed .swHumans m * i.seaweedKcals) ]

/-- the table handed to `Handoff.minNeeds`: one row per month of the horizon -/
def round1Rows (i : Inp α) (x : Var → α) (u : α) : List (List α) :=
  (List.range i.nmonths).map (humanRow i x u)

/-- entry `k` of month `m` of the hand-off's result for the ceiling `cap` -/
def handoffEntry (i : Inp α) (x : Var → α) (u cap : α) (m k : Nat) : α :=
  ((Handoff.minNeeds cap (round1Rows i x u)).getD m []).getD k 0

/-- the six minimum-consumption series of `i` are (in the hand-off's unit) the components of what
    `Handoff.minNeeds` returns for the consumption of `x`; months of the horizon, resources that
    are switched on.  Checked per instance by the harness (it is how the pipeline builds round 2). -/
structure MinsFromHandoff (i : Inp α) (x : Var → α) (u cap : α) : Prop where
  meat : i.addMeat = true → ∀ m, m < i.nmonths → u * at' i.minMeat m = handoffEntry i x u cap m 1
  crops : i.addOutdoor = true → ∀ m, m < i.nmonths → u * at' i.minCrops m = handoffEntry i x u cap m 4
  stored : i.addStored = true → ∀ m, m < i.nmonths → u * at' i.minStored m = handoffEntry i x u cap m 5
  scp : i.addScp = true → ∀ m, m < i.nmonths → u * at' i.minScp m = handoffEntry i x u cap m 6
  cs : i.addCs = true → ∀ m, m < i.nmonths → u * at' i.minCs m = handoffEntry i x u cap m 7
  seaweed : i.addSeaweed = true → ∀ m, m < i.nmonths → u * at' i.minSeaweed m = handoffEntry i x u cap m 8

end
end Allfed.AllocSpec
