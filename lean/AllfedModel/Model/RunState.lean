/-
Process-wide state shared between runs (property C14): the class attribute `Food.conversions`
(a `UnitConversions` object holding the nutrition settings), written by
`UnitConversions.set_nutrition_requirements` and read by `Food.get_conversions`.
A run is its sequence of write/read events; `exec` threads the global cell through a history.
-/
namespace Allfed.RunState

inductive Ev (σ : Type)
  | write (s : σ)
  | read
  deriving Repr

/-- run the events of one run from global state `g`; returns the new global state and what each
    read observed -/
def exec {σ : Type} : Option σ → List (Ev σ) → Option σ × List (Option σ)
  | g, [] => (g, [])
  | _, .write s :: t => exec (some s) t
  | g, .read :: t => let r := exec g t; (r.1, g :: r.2)

/-- a whole history: runs one after the other in one process; the observations of every run -/
def execHistory {σ : Type} : Option σ → List (List (Ev σ)) → List (List (Option σ))
  | _, [] => []
  | g, r :: rs => let e := exec g r; e.2 :: execHistory e.1 rs

/-- the shape every pipeline run must have: it establishes its own settings before reading any -/
def startsWithWrite {σ : Type} : List (Ev σ) → Bool
  | .write _ :: _ => true
  | _ => false

end Allfed.RunState
