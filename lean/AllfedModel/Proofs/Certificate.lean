import AllfedModel.Model.Certificate
import AllfedModel.Proofs.LP
/-!
# Optimality certificates (property C02)

Soundness of the objective rows, of the certificate checker `dualBound` (weak duality with
residual absorption) and of the variable bounds `ubOf`, on top of `Proofs/LP.lean`.
-/
namespace Allfed.Proofs.Certificate
open Allfed Allfed.LP Allfed.AllocLP Allfed.PhysSpec Allfed.Certificate Allfed.Proofs.LP

set_option linter.unusedSectionVars false
set_option linter.unusedVariables false

variable {K : Type} [Field K] [LinearOrder K] [IsStrictOrderedRing K]

/-! ## soundness of the objective -/

theorem objective_le_every_month (i : Inp K) (x : Var → K) (h : Feasible (buildLP i .toHumans) x)
    (m : Nat) (hm : m < i.nmonths) : x .objective ≤ x (.mv .consumedKcals m) :=
  objective_le_month h hm

theorem consumed_is_percent_of_need (i : Inp K) (x : Var → K) (h : Feasible (buildLP i .toHumans) x)
    (m : Nat) (hm : m < i.nmonths) :
    x (.mv .consumedKcals m) =
      (X x i.addStored .sfHumans m + X x i.addOutdoor .cropHumans m
        + X x i.addSeaweed .swHumans m * i.seaweedKcals
        + at' i.milk m + X x i.addMeat .meatEaten m + X x i.addCs .csHumans m
        + X x i.addScp .scpHumans m + at' i.greenhouse m + at' i.fish m)
        / i.billionKcalsNeeded * 100 := by
  rw [kcals_fed h hm, eval_humanSum]

/-- the two running totals of `totalNonhuman`, evaluated -/
theorem eval_totalNonhuman_fold (i : Inp K) (x : Var → K) (l : List Nat) (a b : Aff K) :
    Aff.eval x (l.foldl (fun acc m => (acc.1 + feedSum i m, acc.2 + biofuelSum i m)) (a, b)).1 =
      l.foldl (fun acc m => acc + feedTotal i x m) (Aff.eval x a) ∧
    Aff.eval x (l.foldl (fun acc m => (acc.1 + feedSum i m, acc.2 + biofuelSum i m)) (a, b)).2 =
      l.foldl (fun acc m => acc + biofuelTotal i x m) (Aff.eval x b) := by
  induction l generalizing a b with
  | nil => exact ⟨rfl, rfl⟩
  | cons m t ih =>
    simp only [List.foldl_cons]
    have := ih (a + feedSum i m) (b + biofuelSum i m)
    rw [eval_add, eval_add, eval_feedSum, eval_biofuelSum] at this
    exact this

theorem eval_nonhumanObjective (i : Inp K) (x : Var → K) :
    Aff.eval x (nonhumanObjective i) =
      2 / 3 * (List.range i.nmonths).foldl (fun acc m => acc + feedTotal i x m) 0
        + (List.range i.nmonths).foldl (fun acc m => acc + biofuelTotal i x m) 0 / 3 := by
  unfold nonhumanObjective totalNonhuman
  obtain ⟨h1, h2⟩ := eval_totalNonhuman_fold i x (List.range i.nmonths) (Aff.k 0) (Aff.k 0)
  rw [eval_k] at h1 h2
  simp only [eval_add, eval_smul, eval_divr, h1, h2]
  norm_num

theorem objective_le_weighted_total (i : Inp K) (x : Var → K)
    (h : Feasible (buildLP i .toAnimals) x) :
    x .objective ≤ 2 / 3 * (List.range i.nmonths).foldl (fun acc m => acc + feedTotal i x m) 0
                  + (List.range i.nmonths).foldl (fun acc m => acc + biofuelTotal i x m) 0 / 3 := by
  rw [← eval_nonhumanObjective]
  exact objective_le_nonhuman h

/-! ## the checker -/

theorem sumTerms_perm (x : Var → K) {l₁ l₂ : List (Var × K)} (h : l₁.Perm l₂) :
    Aff.sumTerms x l₁ = Aff.sumTerms x l₂ := by
  induction h with
  | nil => rfl
  | cons p _ ih => obtain ⟨v, c⟩ := p; simp only [sumTerms_cons, ih]
  | swap p q l =>
    obtain ⟨v, c⟩ := p; obtain ⟨w, d⟩ := q
    simp only [sumTerms_cons]; ring
  | trans _ _ ih1 ih2 => rw [ih1, ih2]

theorem mergeAdj_eval (x : Var → K) (l : List (Var × K)) :
    Aff.sumTerms x (mergeAdj l) = Aff.sumTerms x l := by
  fun_induction mergeAdj l with
  | case1 => rfl
  | case2 p => rfl
  | case3 p q t heq ih =>
    obtain ⟨v, c⟩ := p; obtain ⟨w, d⟩ := q
    simp only at heq
    subst heq
    rw [ih]
    simp only [sumTerms_cons]; ring
  | case4 p q t hne ih =>
    obtain ⟨v, c⟩ := p
    simp only [sumTerms_cons, ih]

theorem normalise_eval (x : Var → K) (l : List (Var × K)) :
    Aff.sumTerms x (normalise l) = Aff.sumTerms x l := by
  unfold normalise
  rw [mergeAdj_eval, sumTerms_perm x (List.mergeSort_perm l _)]

/-- a sign-correct multiple of a row that holds is non-positive -/
theorem signOK_mul_nonpos (x : Var → K) (r : Row K) (y : K) (hs : signOK r.rel y = true)
    (hr : r.holds x) : Aff.eval x (Aff.smul y r.normal) ≤ 0 := by
  obtain ⟨n, l, rel, rh⟩ := r
  rw [eval_smul]
  show y * Aff.eval x (l - rh) ≤ 0
  rw [eval_sub]
  cases rel
  · have hy : 0 ≤ y := of_decide_eq_true hs
    have : Aff.eval x l - Aff.eval x rh ≤ 0 := sub_nonpos.mpr hr
    exact mul_nonpos_of_nonneg_of_nonpos hy this
  · have : Aff.eval x l = Aff.eval x rh := hr
    rw [this, sub_self, mul_zero]
  · have hy : y ≤ 0 := of_decide_eq_true hs
    have : 0 ≤ Aff.eval x l - Aff.eval x rh := sub_nonneg.mpr hr
    exact mul_nonpos_of_nonpos_of_nonneg hy this

/-- weak duality: a sign-correct combination of rows that hold is non-positive -/
theorem combo_nonpos (x : Var → K) (rows : List (Row K)) (y : List K)
    (hs : allSignsOK rows y = true) (hr : ∀ r ∈ rows, r.holds x) :
    Aff.eval x (combo rows y) ≤ 0 := by
  induction rows generalizing y with
  | nil => simp only [combo, eval_k, le_refl]
  | cons r rs ih =>
    cases y with
    | nil => simp only [combo, eval_k, le_refl]
    | cons y ys =>
      simp only [allSignsOK, Bool.and_eq_true] at hs
      simp only [combo, eval_add]
      have h1 := signOK_mul_nonpos x r y hs.1 (hr r (List.mem_cons_self))
      have h2 := ih ys hs.2 (fun r' hr' => hr r' (List.mem_cons_of_mem _ hr'))
      linarith

/-- the residual terms are bounded by what `absorb` returns -/
theorem absorb_sound (x : Var → K) (ub : Var → Option K) (hx : ∀ v, 0 ≤ x v)
    (hub : ∀ v u, ub v = some u → x v ≤ u) (l : List (Var × K)) (s : K)
    (h : absorb ub l = some s) : Aff.sumTerms x l ≤ s := by
  induction l generalizing s with
  | nil =>
    simp only [absorb, Option.some.injEq] at h
    rw [sumTerms_nil, ← h]
  | cons p t ih =>
    obtain ⟨v, r⟩ := p
    rw [sumTerms_cons]
    unfold absorb at h
    cases hrest : absorb ub t with
    | none => rw [hrest] at h; simp only [reduceCtorEq] at h
    | some rest =>
      rw [hrest] at h
      have hr := ih rest hrest
      simp only at h
      by_cases hle : r ≤ 0
      · rw [if_pos hle, Option.some.injEq] at h
        have : r * x v ≤ 0 := mul_nonpos_of_nonpos_of_nonneg hle (hx v)
        linarith
      · rw [if_neg hle] at h
        cases hu : ub v with
        | none => rw [hu] at h; simp only [reduceCtorEq] at h
        | some u =>
          rw [hu] at h
          simp only [Option.some.injEq] at h
          have : r * x v ≤ r * u := mul_le_mul_of_nonneg_left (hub v u hu) (not_le.mp hle).le
          linarith

theorem dualBound_sound (rows : List (Row K)) (y : List K) (ub : Var → Option K) (b : K)
    (x : Var → K) (hx : Feasible rows x) (hub : ∀ v u, ub v = some u → x v ≤ u)
    (hb : dualBound rows y ub = some b) : x .objective ≤ b := by
  unfold dualBound at hb
  by_cases hs : allSignsOK rows y = true
  · simp only [hs, Bool.not_true, Bool.false_eq_true, if_false] at hb
    cases ha : absorb ub (normalise ((Var.objective, 1) :: (Aff.neg (combo rows y)).terms)) with
    | none => rw [ha] at hb; simp only [reduceCtorEq] at hb
    | some s =>
      rw [ha] at hb
      simp only [Option.some.injEq] at hb
      have h1 := absorb_sound x ub hx.2 hub _ s ha
      rw [normalise_eval, sumTerms_cons] at h1
      have h2 : Aff.sumTerms x (Aff.neg (combo rows y)).terms = -Aff.sumTerms x (combo rows y).terms :=
        sumTerms_map_neg x _
      have h3 := combo_nonpos x rows y hs hx.1
      rw [eval_def] at h3
      rw [h2] at h1
      rw [← hb]
      linarith
  · rw [Bool.not_eq_true] at hs
    simp only [hs, Bool.not_false, if_true, reduceCtorEq] at hb

end Allfed.Proofs.Certificate
