import AllfedModel.Model.AllocSpec
import AllfedModel.Model.Certificate
import AllfedModel.Proofs.LP
import AllfedModel.Proofs.Perturb
import AllfedModel.Proofs.Certificate
import AllfedModel.Proofs.Completeness
import AllfedModel.Proofs.Handoff
import Mathlib.Data.List.Forall2
/-!
# The feed-maximising round after a human-maximising round (property C16)

`round2_feasible_of_round1`: with seaweed pinned from below only, the feed-maximising LP has a
feasible point whenever the minimum-consumption series lie between 0 and what a feasible point of
the human-maximising LP gives people.  `round2_seaweed_pin_infeasible_before_fix`: with the former
upper pin on seaweed this fails on a small instance.
-/
namespace Allfed.Proofs.Round2
open Allfed Allfed.LP Allfed.AllocLP Allfed.PhysSpec Allfed.AllocSpec Allfed.Certificate
open Allfed.Proofs.LP Allfed.Proofs.Perturb Allfed.Proofs.Certificate Allfed.Proofs.Completeness

set_option linter.unusedSectionVars false
set_option linter.unusedVariables false
set_option linter.unusedSimpArgs false

variable {K : Type} [Field K] [LinearOrder K] [IsStrictOrderedRing K]

/-- the allocation of the feed round built from a point of the human round: people get exactly the
    minimum of every food except seaweed; the seaweed farm runs as before and everything harvested
    goes to people; nothing is fed to animals or turned into biofuel -/
def round2Alloc (i : Inp K) (x : Var → K) : Alloc K :=
  { sfHumans := fun m => if i.addStored = true ∧ m < i.nmonths then at' i.minStored m else 0
    sfFeed := fun _ => 0
    sfBiofuel := fun _ => 0
    cropHumans := fun m => if i.addOutdoor = true ∧ m < i.nmonths then at' i.minCrops m else 0
    cropFeed := fun _ => 0
    cropBiofuel := fun _ => 0
    scpHumans := fun m => if i.addScp = true ∧ m < i.nmonths then at' i.minScp m else 0
    scpFeed := fun _ => 0
    scpBiofuel := fun _ => 0
    csHumans := fun m => if i.addCs = true ∧ m < i.nmonths then at' i.minCs m else 0
    csFeed := fun _ => 0
    csBiofuel := fun _ => 0
    meatEaten := fun m => if i.addMeat = true ∧ m < i.nmonths then at' i.minMeat m else 0
    swHumans := fun m =>
      x (.mv .swHumans m) + (x (.mv .swFeed m) + x (.mv .swBiofuel m)) * keep i.wSeaweed
    swFeed := fun _ => 0
    swBiofuel := fun _ => 0
    swWet := fun m => x (.mv .swWet m)
    usedArea := fun m => x (.mv .usedArea m) }

section
variable {i : Inp K} {x : Var → K} {m : Nat}

theorem lt100 {w : K} (hw : w < 100.0) : w < 100 := by rwa [sci_100] at hw

theorem grossUp_mono {w u v : K} (hw : w < 100) (h : u ≤ v) : grossUp u w ≤ grossUp v w := by
  rw [grossUp_eq, grossUp_eq]
  exact div_le_div_of_nonneg_right h (keep_pos hw).le

theorem grossUp_nn {w v : K} (hw : w < 100) (hv : 0 ≤ v) : 0 ≤ grossUp v w := by
  rw [grossUp_eq]; exact div_nonneg hv (keep_pos hw).le

/-- a non-negative quantity equal to its minimum is inside the tolerance band -/
theorem pinned_self (i : Inp K) {c : K} (hc : 0 ≤ c) : Pinned i c c := by
  unfold Pinned
  have e1 : (0.9999 : K) = 9999 / 10000 := by norm_num
  have e2 : (0.99999 : K) = 99999 / 100000 := by norm_num
  have e3 : (1.0001 : K) = 10001 / 10000 := by norm_num
  have e4 : (1.00001 : K) = 100001 / 100000 := by norm_num
  rw [e1, e2, e3, e4]
  split_ifs <;> constructor <;> linarith

theorem pinnedLower_of_le (i : Inp K) {v c : K} (hc : 0 ≤ c) (hv : c ≤ v) : PinnedLower i v c := by
  unfold PinnedLower
  have e1 : (0.9999 : K) = 9999 / 10000 := by norm_num
  have e2 : (0.99999 : K) = 99999 / 100000 := by norm_num
  rw [e1, e2]
  split_ifs <;> linarith

theorem feedTotal_round2 (i : Inp K) (x : Var → K) (m : Nat) :
    feedTotal i (round2Alloc i x).toVar m = 0 := by
  show X (round2Alloc i x).toVar i.addStored .sfFeed m + X (round2Alloc i x).toVar i.addOutdoor .cropFeed m
    + X (round2Alloc i x).toVar i.addSeaweed .swFeed m * i.seaweedKcals
    + X (round2Alloc i x).toVar i.addCs .csFeed m + X (round2Alloc i x).toVar i.addScp .scpFeed m = 0
  have h : ∀ (on : Bool) (k : VK), (round2Alloc i x).toVar (.mv k m) = 0 →
      X (round2Alloc i x).toVar on k m = 0 := by
    intro on k hk
    unfold X; rw [hk]; exact ite_self 0
  rw [h _ .sfFeed rfl, h _ .cropFeed rfl, h _ .swFeed rfl, h _ .csFeed rfl, h _ .scpFeed rfl]
  ring

theorem biofuelTotal_round2 (i : Inp K) (x : Var → K) (m : Nat) :
    biofuelTotal i (round2Alloc i x).toVar m = 0 := by
  show X (round2Alloc i x).toVar i.addStored .sfBiofuel m
    + X (round2Alloc i x).toVar i.addOutdoor .cropBiofuel m
    + X (round2Alloc i x).toVar i.addSeaweed .swBiofuel m * i.seaweedKcals
    + X (round2Alloc i x).toVar i.addCs .csBiofuel m + X (round2Alloc i x).toVar i.addScp .scpBiofuel m = 0
  have h : ∀ (on : Bool) (k : VK), (round2Alloc i x).toVar (.mv k m) = 0 →
      X (round2Alloc i x).toVar on k m = 0 := by
    intro on k hk
    unfold X; rw [hk]; exact ite_self 0
  rw [h _ .sfBiofuel rfl, h _ .cropBiofuel rfl, h _ .swBiofuel rfl, h _ .csBiofuel rfl,
    h _ .scpBiofuel rfl]
  ring

theorem feedValue_round2 (i : Inp K) (x : Var → K) : feedValue i (round2Alloc i x) = 0 := by
  rw [feedValue_eq]
  unfold feedObjective
  rw [foldl_add_zero _ _ (fun m _ => feedTotal_round2 i x m),
    foldl_add_zero _ _ (fun m _ => biofuelTotal_round2 i x m)]
  norm_num

/-- the allocation built from a feasible point of the human round is physically feasible for the
    feed round -/
theorem physFeasibleFeed_round2 (hw : WellFormed i)
    (hceil : anyFeedVar i = true → ∀ m, m < i.nmonths → 0 ≤ at' i.maxFeed m ∧ 0 ≤ at' i.maxBiofuel m)
    (h : Feasible (buildLP i .toHumans) x) (hp : PinsWithin i x) :
    PhysFeasibleFeed i (round2Alloc i x) := by
  obtain ⟨⟨-, hS'⟩, ⟨-, hC'⟩, ⟨-, hM'⟩, ⟨-, hP'⟩, ⟨-, hZ'⟩, ⟨-, hW'⟩, -, -, -, -, hkc, -⟩ := hw
  have hS := lt100 hS'; have hC := lt100 hC'; have hM := lt100 hM'
  have hP := lt100 hP'; have hZ := lt100 hZ'; have hW := lt100 hW'
  have hs := feasible_toHumans_iff.mp h
  -- month-wise: the new draw of every resource is at most the old one
  have uS : i.addStored = true → ∀ k, k < i.nmonths →
      storedUse i (round2Alloc i x).toVar k ≤ storedUse i x k := by
    intro hon k hk
    show grossUp (if i.addStored = true ∧ k < i.nmonths then at' i.minStored k else 0) i.wStored
        + 0 + 0 ≤ grossUp (x (.mv .sfHumans k)) i.wStored + x (.mv .sfFeed k) + x (.mv .sfBiofuel k)
    rw [if_pos ⟨hon, hk⟩]
    have := grossUp_mono hS (hp.stored hon k hk).2
    have := h.2 (.mv .sfFeed k); have := h.2 (.mv .sfBiofuel k)
    linarith
  have uC : i.addOutdoor = true → ∀ k, k < i.nmonths →
      cropUse i (round2Alloc i x).toVar k ≤ cropUse i x k := by
    intro hon k hk
    show grossUp (if i.addOutdoor = true ∧ k < i.nmonths then at' i.minCrops k else 0) i.wCrop
        + 0 + 0 ≤ grossUp (x (.mv .cropHumans k)) i.wCrop + x (.mv .cropFeed k) + x (.mv .cropBiofuel k)
    rw [if_pos ⟨hon, hk⟩]
    have := grossUp_mono hC (hp.crops hon k hk).2
    have := h.2 (.mv .cropFeed k); have := h.2 (.mv .cropBiofuel k)
    linarith
  have uM : i.addMeat = true → ∀ k, k < i.nmonths →
      meatUse i (round2Alloc i x).toVar k ≤ meatUse i x k := by
    intro hon k hk
    show grossUp (if i.addMeat = true ∧ k < i.nmonths then at' i.minMeat k else 0) i.wMeat
        ≤ grossUp (x (.mv .meatEaten k)) i.wMeat
    rw [if_pos ⟨hon, hk⟩]
    exact grossUp_mono hM (hp.meat hon k hk).2
  have zero_le_share : ∀ (on : Bool) (ratio : K) (vH vF vB : VK) (limH limF limB : K) (m : Nat),
      0 ≤ ratio → IntakeSpec i x on ratio vH vF vB limH limF limB m →
      ShareOK i on ratio (fun _ => 0) (fun _ => 0) limF limB m := by
    intro on ratio vH vF vB limH limF limB m hr hi hon
    obtain ⟨-, h3, h4⟩ := hi hon
    have g3 := mul_nonneg (h.2 (.mv vF m)) hr
    have g4 := mul_nonneg (h.2 (.mv vB m)) hr
    simp only [zero_mul]
    exact ⟨le_trans g3 h3, le_trans g4 h4⟩
  refine ⟨?_, ?_, ?_, ?_, ?_, ?_, ?_, ?_, ?_, ?_, ?_, ?_, ?_, ?_, ?_, ?_, ?_, ?_, ?_⟩
  · -- non-negative
    intro k m
    cases k
    case sfHumans =>
      show 0 ≤ ite _ _ _
      split_ifs with hc
      · exact (hp.stored hc.1 m hc.2).1
      · exact le_rfl
    case cropHumans =>
      show 0 ≤ ite _ _ _
      split_ifs with hc
      · exact (hp.crops hc.1 m hc.2).1
      · exact le_rfl
    case scpHumans =>
      show 0 ≤ ite _ _ _
      split_ifs with hc
      · exact (hp.scp hc.1 m hc.2).1
      · exact le_rfl
    case csHumans =>
      show 0 ≤ ite _ _ _
      split_ifs with hc
      · exact (hp.cs hc.1 m hc.2).1
      · exact le_rfl
    case meatEaten =>
      show 0 ≤ ite _ _ _
      split_ifs with hc
      · exact (hp.meat hc.1 m hc.2).1
      · exact le_rfl
    case swHumans =>
      exact add_nonneg (h.2 _) (mul_nonneg (add_nonneg (h.2 _) (h.2 _)) (keep_pos hW).le)
    case swWet => exact h.2 _
    case usedArea => exact h.2 _
    all_goals exact le_rfl
  · -- stored food
    intro hon
    refine ⟨fun m hm _ => ?_, fun hsb m hm h12 => ?_⟩
    · exact le_trans (cum_le_cum _ _ m (fun k hk => uS hon k (by omega))) (stored_cumulative h hon hm)
    · obtain ⟨z1, -, -⟩ := stored_vars_zero h hon hsb hm h12
      obtain ⟨p0, p1⟩ := hp.stored hon m hm
      refine ⟨?_, rfl, rfl⟩
      show (if i.addStored = true ∧ m < i.nmonths then at' i.minStored m else 0) = 0
      rw [if_pos ⟨hon, hm⟩]
      rw [z1] at p1
      exact le_antisymm p1 p0
  · -- crops
    intro hon m hm
    exact le_trans (cum_le_cum _ _ m (fun k hk => uC hon k (by omega))) (crop_cumulative h hon hm)
  · -- meat with storage
    intro hon hsb m hm
    have hc := cum_le_cum _ _ m (fun k hk => uM hon k (by omega))
    exact ⟨le_trans hc (meat_total h hon hsb hm), le_trans hc (meat_cumulative_cap h hon hsb hm)⟩
  · intro hon hsb m hm
    exact le_trans (uM hon m hm) (meat_monthly h hon hsb hm)
  · -- SCP
    intro hon m hm
    have := scp_cap h hon hm
    show grossUp (if i.addScp = true ∧ m < i.nmonths then at' i.minScp m else 0) i.wScp + 0 + 0
      ≤ at' i.scp m
    rw [if_pos ⟨hon, hm⟩]
    have g := grossUp_mono hP (hp.scp hon m hm).2
    unfold scpUse at this
    have := h.2 (.mv .scpFeed m); have := h.2 (.mv .scpBiofuel m)
    linarith
  · -- sugar
    intro hon m hm
    have := cs_cap h hon hm
    show grossUp (if i.addCs = true ∧ m < i.nmonths then at' i.minCs m else 0) i.wCs + 0 + 0
      ≤ at' i.cs m
    rw [if_pos ⟨hon, hm⟩]
    have g := grossUp_mono hZ (hp.cs hon m hm).2
    unfold csUse at this
    have := h.2 (.mv .csFeed m); have := h.2 (.mv .csBiofuel m)
    linarith
  · -- seaweed: the farm runs as before, the whole harvest goes to people
    intro hon m hm
    obtain ⟨hb, hl⟩ := hs.seaweed hon m hm
    refine ⟨hb, ?_⟩
    by_cases hm0 : m = 0
    · subst hm0
      simp only [if_true] at hl ⊢
      obtain ⟨e1, e2, e3, e4, e5⟩ := hl
      refine ⟨e1, e2, ?_, rfl, rfl⟩
      show x (.mv .swHumans 0) + (x (.mv .swFeed 0) + x (.mv .swBiofuel 0)) * keep i.wSeaweed = 0
      rw [e3, e4, e5]; ring
    · simp only [hm0, if_false] at hl ⊢
      show x (.mv .swWet m) =
        x (.mv .swWet (m - 1)) * (1 + at' i.growth m / 100.0)
          - grossUp (x (.mv .swHumans m) + (x (.mv .swFeed m) + x (.mv .swBiofuel m)) * keep i.wSeaweed)
              i.wSeaweed - 0 - 0
          - (x (.mv .usedArea m) - x (.mv .usedArea (m - 1))) * i.minDensity * (i.harvestLoss / 100.0)
      rw [grossUp_add_keep hW, hl]
      unfold seaweedLedger
      generalize (1 + at' i.growth m / 100.0) = G
      generalize (i.harvestLoss / 100.0) = L
      ring
  · -- ceilings
    intro hany m hm
    rw [feedTotal_round2, biofuelTotal_round2, feedTotal_round2, biofuelTotal_round2]
    exact ⟨hceil hany m hm, fun _ => ⟨le_rfl, le_rfl⟩⟩
  · -- pins
    intro hon m hm
    obtain ⟨p0, p1⟩ := hp.seaweed hon m hm
    refine pinnedLower_of_le i p0 (le_trans p1 ?_)
    refine mul_le_mul_of_nonneg_right ?_ hkc
    exact le_add_of_nonneg_right (mul_nonneg (add_nonneg (h.2 _) (h.2 _)) (keep_pos hW).le)
  · intro hon m hm
    show Pinned i (if i.addOutdoor = true ∧ m < i.nmonths then at' i.minCrops m else 0) _
    rw [if_pos ⟨hon, hm⟩]; exact pinned_self i (hp.crops hon m hm).1
  · intro hon m hm
    show Pinned i (if i.addStored = true ∧ m < i.nmonths then at' i.minStored m else 0) _
    rw [if_pos ⟨hon, hm⟩]; exact pinned_self i (hp.stored hon m hm).1
  · intro hon m hm
    show Pinned i (if i.addMeat = true ∧ m < i.nmonths then at' i.minMeat m else 0) _
    rw [if_pos ⟨hon, hm⟩]; exact pinned_self i (hp.meat hon m hm).1
  · intro hon m hm
    show Pinned i (if i.addScp = true ∧ m < i.nmonths then at' i.minScp m else 0) _
    rw [if_pos ⟨hon, hm⟩]; exact pinned_self i (hp.scp hon m hm).1
  · intro hon m hm
    show Pinned i (if i.addCs = true ∧ m < i.nmonths then at' i.minCs m else 0) _
    rw [if_pos ⟨hon, hm⟩]; exact pinned_self i (hp.cs hon m hm).1
  · -- share caps: nothing is fed or burnt
    intro m hm
    exact zero_le_share _ _ _ _ _ _ _ _ m hkc (hs.general m hm).2.2.1
  · intro m hm
    exact zero_le_share _ _ _ _ _ _ _ _ m zero_le_one (hs.general m hm).2.2.2.1
  · intro m hm
    exact zero_le_share _ _ _ _ _ _ _ _ m zero_le_one (hs.general m hm).2.2.2.2
  · rw [feedValue_round2]

end

/-- after a feasible human-maximising round the feed-maximising round is feasible -/
theorem round2_feasible_of_round1 (i : Inp K) (x₁ : Var → K) (hw : WellFormed i)
    (hceil : anyFeedVar i = true → ∀ m, m < i.nmonths → 0 ≤ at' i.maxFeed m ∧ 0 ≤ at' i.maxBiofuel m)
    (h₁ : Feasible (buildLP i .toHumans) x₁) (hp : PinsWithin i x₁) :
    ∃ x, Feasible (buildLP i .toAnimals) x := by
  have hw' : i.wStored < 100 ∧ i.wCrop < 100 ∧ i.wMeat < 100 :=
    ⟨lt100 hw.1.2, lt100 hw.2.1.2, lt100 hw.2.2.1.2⟩
  obtain ⟨x, hx, -, -⟩ := complete_animals i _ hw' (physFeasibleFeed_round2 hw hceil h₁ hp)
  exact ⟨x, hx⟩

/-! ## the counter-example to the former formulation -/

/-- two months of seaweed farming: 1 t on 1 km² at the density ceiling, doubling in month 1; nothing
    may be fed to animals or burnt (no charge), so the month-1 harvest of at least 1 t goes to
    people; the minimum consumption handed to the feed round is half of that -/
def swInst : Inp ℚ :=
  { emptyInst with nmonths := 2, addSeaweed := true, pop := 100, kcalsMonthly := 1000000000,
                   seaweedKcals := 1, initialSeaweed := 1, maxDensity := 1, initialBuiltArea := 1,
                   builtArea := [1, 1], growth := [0, 100], limSwH := 100, minSeaweed := [0, 1 / 2] }

/-- the human round: harvest 1 t in month 1 and eat it -/
def swX : Var → ℚ
  | .mv .swWet m => [1, 1].getD m 0
  | .mv .usedArea m => [1, 1].getD m 0
  | .mv .swHumans m => [0, 1].getD m 0
  | .mv .consumedKcals m => [0, 1].getD m 0
  | _ => 0

theorem swX_rows : (buildLP swInst .toHumans).all (holdsB swX) = true := by decide +kernel

theorem swX_nonneg : ∀ v, 0 ≤ swX v := by
  intro v
  cases v with
  | mv k m =>
    cases k <;> first
      | exact le_rfl
      | exact getD_nonneg _ (by decide +kernel) m
  | objective => exact le_rfl
  | objectiveBest => exact le_rfl

theorem swX_feasible : Feasible (buildLP swInst .toHumans) swX :=
  ⟨rows_hold_of_all _ _ swX_rows, swX_nonneg⟩

theorem swInst_wellFormed : WellFormed swInst :=
  (wellFormedB_iff swInst).mp (by decide +kernel)

theorem swInst_pins : PinsWithin swInst swX where
  seaweed := by
    intro _ m hm
    have hm' : m < 2 := hm
    obtain rfl | rfl : m = 0 ∨ m = 1 := by omega
    · exact ⟨by decide +kernel, by decide +kernel⟩
    · exact ⟨by decide +kernel, by decide +kernel⟩
  crops := fun h => absurd h (by decide)
  stored := fun h => absurd h (by decide)
  meat := fun h => absurd h (by decide)
  scp := fun h => absurd h (by decide)
  cs := fun h => absurd h (by decide)

theorem swInst_ceilings : anyFeedVar swInst = true → ∀ m, m < swInst.nmonths →
    0 ≤ at' swInst.maxFeed m ∧ 0 ≤ at' swInst.maxBiofuel m :=
  fun _ m _ => ⟨getD_nonneg [] (by decide +kernel) m, getD_nonneg [] (by decide +kernel) m⟩

theorem swInst_infeasible_before : ∀ x, ¬ Feasible (buildLPBeforeSeaweedFix swInst .toAnimals) x := by
  intro x hx
  obtain ⟨hs, hu⟩ := feasible_toAnimals_before_iff.mp hx
  have hup := hu rfl 1 (by decide)
  have s1 := hs.seaweed rfl 1 (by decide)
  have s0 := hs.seaweed rfl 0 (by decide)
  have hle := s1.1.1.2.1
  have hl := s1.1.2
  have hl0 := s0.1.2
  rw [if_neg (by decide)] at hl
  rw [if_pos rfl] at hl0
  have w0 : x (.mv .swWet 0) = 1 := hl0.1
  obtain ⟨-, hshare, -, -⟩ := hs.general 1 (by decide)
  obtain ⟨sF, sB⟩ := hshare rfl
  have nF := hs.nonneg (.mv .swFeed 1)
  have nB := hs.nonneg (.mv .swBiofuel 1)
  unfold seaweedLedger grossUp at hl
  norm_num [swInst, emptyInst, at', w0] at hl hup hle sF sB
  linarith

/-- a well-formed two-month instance and a feasible point of its human-maximising round, minimum
    consumption within what that point ate, for which the feed-maximising LP with the former upper
    pin on seaweed has no feasible point — while today's LP has one -/
theorem round2_seaweed_pin_infeasible_before_fix :
    ∃ (i : Inp ℚ) (x₁ : Var → ℚ), WellFormed i ∧
      (anyFeedVar i = true → ∀ m, m < i.nmonths → 0 ≤ at' i.maxFeed m ∧ 0 ≤ at' i.maxBiofuel m) ∧
      Feasible (buildLP i .toHumans) x₁ ∧ PinsWithin i x₁ ∧
      (∀ x, ¬ Feasible (buildLPBeforeSeaweedFix i .toAnimals) x) ∧
      ∃ x, Feasible (buildLP i .toAnimals) x :=
  ⟨swInst, swX, swInst_wellFormed, swInst_ceilings, swX_feasible, swInst_pins,
    swInst_infeasible_before,
    round2_feasible_of_round1 swInst swX swInst_wellFormed swInst_ceilings swX_feasible swInst_pins⟩

/-! ## the chain C18 → C16: the minimum-consumption series the hand-off produces are within what
round 1 gave people -/

section Chain
open Allfed.Handoff

/-- the bridge from the `Forall₂` shape of the hand-off theorems to `getD` -/
theorem getD_le_of_forall₂ {a b : List K} (h : List.Forall₂ (· ≤ ·) a b) (k : Nat) :
    a.getD k 0 ≤ b.getD k 0 := by
  induction h generalizing k with
  | nil => exact le_rfl
  | cons hab _ ih =>
    cases k with
    | zero => exact hab
    | succ k => simpa using ih k

theorem getD_nonneg_of_forall {a : List K} (h : ∀ c ∈ a, 0 ≤ c) (k : Nat) : 0 ≤ a.getD k 0 := by
  by_cases hk : k < a.length
  · rw [List.getD_eq_getElem _ _ hk]; exact h _ (List.getElem_mem _)
  · rw [List.getD_eq_default _ _ (not_lt.mp hk)]

/-- month `m` of the hand-off's result is `fillMonth` of month `m` of its input -/
theorem handoffEntry_eq (i : Inp K) (x : Var → K) (u cap : K) (m k : Nat) (hm : m < i.nmonths) :
    handoffEntry i x u cap m k = (fillMonth cap (humanRow i x u m)).getD k 0 := by
  unfold handoffEntry minNeeds round1Rows
  have hrow : (List.map (fillMonth cap) (List.map (humanRow i x u) (List.range i.nmonths))).getD m []
      = fillMonth cap (humanRow i x u m) := by
    rw [List.map_map, List.getD_eq_getElem (d := ([] : List K)) _ (by simpa using hm)]
    simp only [List.getElem_map, List.getElem_range, Function.comp]
  rw [hrow]

/-- one entry of the hand-off: between 0 and the corresponding entry of its input -/
theorem handoffEntry_bounds (i : Inp K) (x : Var → K) (u cap : K) (m k : Nat) (hm : m < i.nmonths)
    (hcap : 0 ≤ cap) (hrow : ∀ f ∈ humanRow i x u m, 0 ≤ f) :
    0 ≤ handoffEntry i x u cap m k ∧ handoffEntry i x u cap m k ≤ (humanRow i x u m).getD k 0 := by
  rw [handoffEntry_eq i x u cap m k hm]
  exact ⟨getD_nonneg_of_forall (Proofs.fillMonth_nonneg cap _ hcap hrow) k,
    getD_le_of_forall₂ (Proofs.fillMonth_le cap _ hcap hrow) k⟩

/-- the list → `getD` bridge for one food: `u·min = entry k` and `entry k` of the input is
    `u·eaten` give `0 ≤ min ≤ eaten` -/
theorem pinsWithin_of_entry {u mn eaten e inp : K} (hu : 0 < u) (hmin : u * mn = e)
    (hinp : inp = u * eaten) (h0 : 0 ≤ e) (hle : e ≤ inp) : 0 ≤ mn ∧ mn ≤ eaten := by
  rw [← hmin] at h0 hle
  rw [hinp] at hle
  exact ⟨nonneg_of_mul_nonneg_right h0 hu, le_of_mul_le_mul_left hle hu⟩

theorem humanRow_nonneg (i : Inp K) (x : Var → K) (u : K) (m : Nat) (hu : 0 ≤ u)
    (hx : ∀ v, 0 ≤ x v) (hkc : 0 ≤ i.seaweedKcals)
    (hconst : 0 ≤ at' i.fish m ∧ 0 ≤ at' i.milk m ∧ 0 ≤ at' i.greenhouse m) :
    ∀ f ∈ humanRow i x u m, 0 ≤ f := by
  have hX : ∀ (on : Bool) (k : VK), 0 ≤ X x on k m := by
    intro on k; unfold X; split_ifs
    · exact hx _
    · exact le_rfl
  intro f hf
  unfold humanRow at hf
  simp only [List.mem_cons, List.not_mem_nil, or_false] at hf
  rcases hf with rfl | rfl | rfl | rfl | rfl | rfl | rfl | rfl | rfl
  · exact mul_nonneg hu hconst.1
  · exact mul_nonneg hu (hX _ _)
  · exact mul_nonneg hu hconst.2.1
  · exact mul_nonneg hu hconst.2.2
  · exact mul_nonneg hu (hX _ _)
  · exact mul_nonneg hu (hX _ _)
  · exact mul_nonneg hu (hX _ _)
  · exact mul_nonneg hu (hX _ _)
  · exact mul_nonneg hu (mul_nonneg (hX _ _) hkc)

/-- the minimum-consumption series the hand-off produces lie between 0 and what round 1 gave -/
theorem pinsWithin_of_handoff (i : Inp K) (x₁ : Var → K) (u cap : K) (hu : 0 < u) (hcap : 0 ≤ cap)
    (hx : ∀ v, 0 ≤ x₁ v) (hkc : 0 ≤ i.seaweedKcals)
    (hconst : ∀ m, m < i.nmonths → 0 ≤ at' i.fish m ∧ 0 ≤ at' i.milk m ∧ 0 ≤ at' i.greenhouse m)
    (hmins : MinsFromHandoff i x₁ u cap) : PinsWithin i x₁ := by
  have hb : ∀ m k, m < i.nmonths →
      0 ≤ handoffEntry i x₁ u cap m k ∧
      handoffEntry i x₁ u cap m k ≤ (humanRow i x₁ u m).getD k 0 :=
    fun m k hm => handoffEntry_bounds i x₁ u cap m k hm hcap
      (humanRow_nonneg i x₁ u m hu.le hx hkc (hconst m hm))
  have hX : ∀ {on : Bool} (k : VK) (m : Nat), on = true → X x₁ on k m = x₁ (.mv k m) := by
    intro on k m hon; unfold X; rw [if_pos hon]
  refine ⟨?_, ?_, ?_, ?_, ?_, ?_⟩
  · intro hon m hm
    refine pinsWithin_of_entry hu (hmins.seaweed hon m hm) ?_ (hb m 8 hm).1 (hb m 8 hm).2
    show u * (X x₁ i.addSeaweed .swHumans m * i.seaweedKcals) = _
    rw [hX _ _ hon]
  · intro hon m hm
    refine pinsWithin_of_entry hu (hmins.crops hon m hm) ?_ (hb m 4 hm).1 (hb m 4 hm).2
    show u * X x₁ i.addOutdoor .cropHumans m = _
    rw [hX _ _ hon]
  · intro hon m hm
    refine pinsWithin_of_entry hu (hmins.stored hon m hm) ?_ (hb m 5 hm).1 (hb m 5 hm).2
    show u * X x₁ i.addStored .sfHumans m = _
    rw [hX _ _ hon]
  · intro hon m hm
    refine pinsWithin_of_entry hu (hmins.meat hon m hm) ?_ (hb m 1 hm).1 (hb m 1 hm).2
    show u * X x₁ i.addMeat .meatEaten m = _
    rw [hX _ _ hon]
  · intro hon m hm
    refine pinsWithin_of_entry hu (hmins.scp hon m hm) ?_ (hb m 6 hm).1 (hb m 6 hm).2
    show u * X x₁ i.addScp .scpHumans m = _
    rw [hX _ _ hon]
  · intro hon m hm
    refine pinsWithin_of_entry hu (hmins.cs hon m hm) ?_ (hb m 7 hm).1 (hb m 7 hm).2
    show u * X x₁ i.addCs .csHumans m = _
    rw [hX _ _ hon]

/-- after a feasible human-maximising round and the hand-off, the feed-maximising round is feasible -/
theorem round2_feasible_after_handoff (i : Inp K) (x₁ : Var → K) (u cap : K) (hu : 0 < u)
    (hcap : 0 ≤ cap) (hw : WellFormed i)
    (hceil : anyFeedVar i = true → ∀ m, m < i.nmonths → 0 ≤ at' i.maxFeed m ∧ 0 ≤ at' i.maxBiofuel m)
    (hconst : ∀ m, m < i.nmonths → 0 ≤ at' i.fish m ∧ 0 ≤ at' i.milk m ∧ 0 ≤ at' i.greenhouse m)
    (h₁ : Feasible (buildLP i .toHumans) x₁) (hmins : MinsFromHandoff i x₁ u cap) :
    ∃ x, Feasible (buildLP i .toAnimals) x :=
  round2_feasible_of_round1 i x₁ hw hceil h₁
    (pinsWithin_of_handoff i x₁ u cap hu hcap h₁.2 hw.2.2.2.2.2.2.2.2.2.2.1 hconst hmins)

/-- the ceiling the code uses is non-negative -/
theorem dailyMax_nonneg (kd p1 T : K) (hkd : 0 ≤ kd) (hp : 0 ≤ p1) (hT : 0 ≤ T) :
    0 ≤ dailyMax kd p1 T := by
  rw [Proofs.dailyMax_eq_min]
  exact mul_nonneg hkd (div_nonneg (le_min hp hT) (by norm_num))

end Chain

end Allfed.Proofs.Round2
