import AllfedModel.Model.Certificate
import AllfedModel.Proofs.LP
import AllfedModel.Proofs.Perturb
import AllfedModel.Proofs.Certificate
/-!
# Completion of zero-charge human rounds (property C16)

Without seaweed, with no feed and no biofuel charged, `buildLP i .toHumans` always has a feasible
point (eat the stock in month 0 and every harvest in the month it appears) and its objective is
bounded by month 0's supply relative to need.
-/
namespace Allfed.Proofs.Completion
open Allfed Allfed.LP Allfed.AllocLP Allfed.PhysSpec Allfed.Certificate Allfed.Proofs.LP
open Allfed.Proofs.Perturb Allfed.Proofs.Certificate

set_option linter.unusedSectionVars false
set_option linter.unusedVariables false
set_option linter.unusedSimpArgs false

variable {K : Type} [Field K] [LinearOrder K] [IsStrictOrderedRing K]

/-- the allocation "eat the stock in month 0, every harvest in its month, nothing else", without
    the percent-fed variables -/
def eatBase (i : Inp K) : Var → K
  | .mv .sfStart m => if m = 0 then i.storedInitial else 0
  | .mv .sfHumans m => if m = 0 then i.storedInitial * keep i.wStored else 0
  | .mv .cropHumans m => if m < i.nmonths then at' i.cropProd m * keep i.wCrop else 0
  | .mv .cropConsumed m => if m < i.nmonths then at' i.cropProd m else 0
  | .mv .meatStart m => i.meatSummed
  | .mv .meatEnd m => i.meatSummed
  | _ => 0

/-- … with `Humans_Fed_Kcals_m` defined by the `Kcals_Fed_Month_m` equation; objective 0 -/
def eatAll (i : Inp K) : Var → K
  | .mv .consumedKcals m => humanTotal i (eatBase i) m / i.billionKcalsNeeded * 100
  | v => eatBase i v

section
variable {i : Inp K} {m : Nat}

theorem ea_sfStart : eatAll i (.mv .sfStart m) = if m = 0 then i.storedInitial else 0 := rfl
theorem ea_sfEnd : eatAll i (.mv .sfEnd m) = 0 := rfl
theorem ea_sfHumans : eatAll i (.mv .sfHumans m) = if m = 0 then i.storedInitial * keep i.wStored else 0 := rfl
theorem ea_sfFeed : eatAll i (.mv .sfFeed m) = 0 := rfl
theorem ea_sfBiofuel : eatAll i (.mv .sfBiofuel m) = 0 := rfl
theorem ea_scpHumans : eatAll i (.mv .scpHumans m) = 0 := rfl
theorem ea_scpFeed : eatAll i (.mv .scpFeed m) = 0 := rfl
theorem ea_scpBiofuel : eatAll i (.mv .scpBiofuel m) = 0 := rfl
theorem ea_csHumans : eatAll i (.mv .csHumans m) = 0 := rfl
theorem ea_csFeed : eatAll i (.mv .csFeed m) = 0 := rfl
theorem ea_csBiofuel : eatAll i (.mv .csBiofuel m) = 0 := rfl
theorem ea_meatStart : eatAll i (.mv .meatStart m) = i.meatSummed := rfl
theorem ea_meatEnd : eatAll i (.mv .meatEnd m) = i.meatSummed := rfl
theorem ea_meatEaten : eatAll i (.mv .meatEaten m) = 0 := rfl
theorem ea_cropStorage : eatAll i (.mv .cropStorage m) = 0 := rfl
theorem ea_cropConsumed : eatAll i (.mv .cropConsumed m) = if m < i.nmonths then at' i.cropProd m else 0 := rfl
theorem ea_cropHumans : eatAll i (.mv .cropHumans m) = if m < i.nmonths then at' i.cropProd m * keep i.wCrop else 0 := rfl
theorem ea_cropFeed : eatAll i (.mv .cropFeed m) = 0 := rfl
theorem ea_cropBiofuel : eatAll i (.mv .cropBiofuel m) = 0 := rfl
theorem ea_swWet : eatAll i (.mv .swWet m) = 0 := rfl
theorem ea_swHumans : eatAll i (.mv .swHumans m) = 0 := rfl
theorem ea_swFeed : eatAll i (.mv .swFeed m) = 0 := rfl
theorem ea_swBiofuel : eatAll i (.mv .swBiofuel m) = 0 := rfl
theorem ea_usedArea : eatAll i (.mv .usedArea m) = 0 := rfl
theorem ea_consumed :
    eatAll i (.mv .consumedKcals m) = humanTotal i (eatBase i) m / i.billionKcalsNeeded * 100 := rfl

theorem humanTotal_eatAll : humanTotal i (eatAll i) m = humanTotal i (eatBase i) m := rfl

theorem lt_100 {w : K} (hw : w < 100.0) : w < 100 := by rwa [sci_100] at hw

theorem grossUp_mul_keep {w : K} (hw : w < 100) (e : K) : grossUp (e * keep w) w = e := by
  have := grossUp_add_keep hw 0 e
  rwa [zero_add, grossUp_zero, zero_add] at this

theorem X_nonneg {x : Var → K} (hx : ∀ v, 0 ≤ x v) (on : Bool) (k : VK) (m : Nat) :
    0 ≤ X x on k m := by
  unfold X; split_ifs
  · exact hx _
  · exact le_rfl

theorem eatBase_nonneg (hS0 : 0 ≤ i.storedInitial) (hwS : i.wStored < 100) (hwC : i.wCrop < 100)
    (hprod : ∀ m, m < i.nmonths → 0 ≤ at' i.cropProd m) (hmeat : 0 ≤ i.meatSummed) :
    ∀ v, 0 ≤ eatBase i v := by
  intro v
  cases v with
  | mv k m =>
    cases k <;> first
      | exact le_rfl
      | exact hmeat
      | (show 0 ≤ ite _ _ _
         split_ifs with hc <;> first
           | exact le_rfl
           | exact hS0
           | exact mul_nonneg hS0 (keep_pos hwS).le
           | exact hprod m hc
           | exact mul_nonneg (hprod m hc) (keep_pos hwC).le)
  | objective => exact le_rfl
  | objectiveBest => exact le_rfl

end

theorem zero_charge_feasible_no_seaweed (i : Inp K) (noSeaweed : i.addSeaweed = false)
    (wf : WellFormed i) (need : 0 < i.billionKcalsNeeded)
    (feed0 : ∀ m, at' i.feed m = 0) (biofuel0 : ∀ m, at' i.biofuel m = 0)
    (supplies : (∀ m, 0 ≤ at' i.milk m) ∧ (∀ m, 0 ≤ at' i.greenhouse m) ∧ (∀ m, 0 ≤ at' i.fish m) ∧
      (∀ m, 0 ≤ at' i.scp m) ∧ (∀ m, 0 ≤ at' i.cs m) ∧ (∀ m, 0 ≤ at' i.slaughtered m) ∧
      (∀ m, 0 ≤ at' i.maxCulled m) ∧ 0 ≤ i.meatSummed)
    (limits : 0 ≤ i.limScpH ∧ 0 ≤ i.limCsH) (population : 0 ≤ i.pop ∧ 0 ≤ i.kcalsMonthly) :
    ∃ x, Feasible (buildLP i .toHumans) x := by
  obtain ⟨⟨-, hwS'⟩, ⟨-, hwC'⟩, -, -, -, -, hprod, hS0, -⟩ := wf
  have hwS := lt_100 hwS'
  have hwC := lt_100 hwC'
  obtain ⟨hmilk, hgh, hfish, hscp, hcs, hsl, hmc, hmeat⟩ := supplies
  have hbase := eatBase_nonneg (i := i) hS0 hwS hwC hprod hmeat
  have hT : ∀ m, 0 ≤ humanTotal i (eatBase i) m := by
    intro m
    unfold humanTotal
    have h1 := X_nonneg hbase i.addStored .sfHumans m
    have h2 := X_nonneg hbase i.addOutdoor .cropHumans m
    have h3 : X (eatBase i) i.addSeaweed .swHumans m * i.seaweedKcals = 0 := by
      unfold X; rw [noSeaweed]; simp only [Bool.false_eq_true, if_false, zero_mul]
    have h4 := X_nonneg hbase i.addMeat .meatEaten m
    have h5 := X_nonneg hbase i.addCs .csHumans m
    have h6 := X_nonneg hbase i.addScp .scpHumans m
    have := hmilk m
    have := hgh m
    have := hfish m
    linarith
  have hcons : ∀ m, 0 ≤ eatAll i (.mv .consumedKcals m) := fun m =>
    mul_nonneg (div_nonneg (hT m) need.le) (by norm_num)
  refine ⟨eatAll i, feasible_toHumans_iff.mpr ⟨?_, ?_, ?_, ?_, ?_, ?_, ?_, ?_, ?_⟩⟩
  · -- non-negative
    intro v
    cases v with
    | mv k m =>
      by_cases hk : k = .consumedKcals
      · subst hk; exact hcons m
      · have : eatAll i (.mv k m) = eatBase i (.mv k m) := by
          cases k <;> first | rfl | exact absurd rfl hk
        rw [this]; exact hbase _
    | objective => exact le_rfl
    | objectiveBest => exact le_rfl
  · intro hon
    rw [noSeaweed] at hon
    exact absurd hon (by decide)
  · -- crops: every harvest eaten in its month
    intro hon m hm
    unfold CropSpec
    simp only [ea_sfStart, ea_sfEnd, ea_sfHumans, ea_sfFeed, ea_sfBiofuel, ea_scpHumans, ea_scpFeed, ea_scpBiofuel, ea_csHumans, ea_csFeed, ea_csBiofuel, ea_meatStart, ea_meatEnd, ea_meatEaten, ea_cropStorage, ea_cropConsumed, ea_cropHumans, ea_cropFeed, ea_cropBiofuel, ea_swWet, ea_swHumans, ea_swFeed, ea_swBiofuel, ea_usedArea, hm, if_true, grossUp_mul_keep hwC, add_zero, sub_self]
    refine ⟨trivial, ?_⟩
    have hm1 : m - 1 < i.nmonths := by omega
    split_ifs
    all_goals simp only [hm1, if_true, add_zero, sub_self, and_self]
  · -- stored food: all of it eaten in month 0
    intro hon m hm
    unfold StoredSpec StoredEatenEq
    simp only [ea_sfStart, ea_sfEnd, ea_sfHumans, ea_sfFeed, ea_sfBiofuel, ea_scpHumans, ea_scpFeed, ea_scpBiofuel, ea_csHumans, ea_csFeed, ea_csBiofuel, ea_meatStart, ea_meatEnd, ea_meatEaten, ea_cropStorage, ea_cropConsumed, ea_cropHumans, ea_cropFeed, ea_cropBiofuel, ea_swWet, ea_swHumans, ea_swFeed, ea_swBiofuel, ea_usedArea]
    by_cases hm0 : m = 0
    · subst hm0
      simp only [if_true, grossUp_mul_keep hwS, sub_self, sub_zero]
      split_ifs <;> simp only [and_self]
    · have hm1 : ¬ (m - 1 = 0 ∧ False) := fun h => h.2
      simp only [hm0, if_false, grossUp_zero, sub_zero]
      split_ifs <;> simp only [and_self]
  · -- meat: none eaten
    intro hon m hm
    unfold MeatSpec meatUse
    simp only [ea_sfStart, ea_sfEnd, ea_sfHumans, ea_sfFeed, ea_sfBiofuel, ea_scpHumans, ea_scpFeed, ea_scpBiofuel, ea_csHumans, ea_csFeed, ea_csBiofuel, ea_meatStart, ea_meatEnd, ea_meatEaten, ea_cropStorage, ea_cropConsumed, ea_cropHumans, ea_cropFeed, ea_cropBiofuel, ea_swWet, ea_swHumans, ea_swFeed, ea_swBiofuel, ea_usedArea, grossUp_zero, sub_zero]
    split_ifs
    · exact ⟨trivial, trivial, by rw [sub_self]; exact hmc m⟩
    · exact ⟨trivial, trivial, by rw [sub_self]; exact hmc m⟩
    · exact hsl m
  · intro hon m hm
    unfold scpUse
    simp only [ea_sfStart, ea_sfEnd, ea_sfHumans, ea_sfFeed, ea_sfBiofuel, ea_scpHumans, ea_scpFeed, ea_scpBiofuel, ea_csHumans, ea_csFeed, ea_csBiofuel, ea_meatStart, ea_meatEnd, ea_meatEaten, ea_cropStorage, ea_cropConsumed, ea_cropHumans, ea_cropFeed, ea_cropBiofuel, ea_swWet, ea_swHumans, ea_swFeed, ea_swBiofuel, ea_usedArea, grossUp_zero, add_zero]
    exact hscp m
  · intro hon m hm
    unfold csUse
    simp only [ea_sfStart, ea_sfEnd, ea_sfHumans, ea_sfFeed, ea_sfBiofuel, ea_scpHumans, ea_scpFeed, ea_scpBiofuel, ea_csHumans, ea_csFeed, ea_csBiofuel, ea_meatStart, ea_meatEnd, ea_meatEaten, ea_cropStorage, ea_cropConsumed, ea_cropHumans, ea_cropFeed, ea_cropBiofuel, ea_swWet, ea_swHumans, ea_swFeed, ea_swBiofuel, ea_usedArea, grossUp_zero, add_zero]
    exact hcs m
  · -- feed and biofuel totals are 0, percent fed by definition, intake caps
    intro m hm
    have hneed : 0 ≤ i.pop * i.kcalsMonthly / 1e9 :=
      div_nonneg (mul_nonneg population.1 population.2) (by norm_num)
    have hc2 : 0 ≤ eatAll i (.mv .consumedKcals m) * i.billionKcalsNeeded / 100.0 :=
      div_nonneg (mul_nonneg (hcons m) need.le) (by norm_num)
    have hintake : ∀ (on : Bool) (vH vF vB : VK) (limH limF limB : K), 0 ≤ limH →
        eatAll i (.mv vH m) = 0 → eatAll i (.mv vF m) = 0 → eatAll i (.mv vB m) = 0 →
        IntakeSpec i (eatAll i) on 1 vH vF vB limH limF limB m := by
      intro on vH vF vB limH limF limB hl e1 e2 e3 _
      rw [e1, e2, e3, feed0, biofuel0]
      have hl' : 0 ≤ limH / 100.0 := div_nonneg hl (by norm_num)
      simp only [zero_mul, mul_zero, le_refl, and_self, and_true]
      exact ⟨mul_nonneg hl' hneed, mul_nonneg hl' hc2⟩
    refine ⟨?_, ?_, ?_, hintake _ _ _ _ _ _ _ limits.1 rfl rfl rfl,
      hintake _ _ _ _ _ _ _ limits.2 rfl rfl rfl⟩
    · intro _
      unfold feedTotal biofuelTotal X
      simp only [ea_sfStart, ea_sfEnd, ea_sfHumans, ea_sfFeed, ea_sfBiofuel, ea_scpHumans, ea_scpFeed, ea_scpBiofuel, ea_csHumans, ea_csFeed, ea_csBiofuel, ea_meatStart, ea_meatEnd, ea_meatEaten, ea_cropStorage, ea_cropConsumed, ea_cropHumans, ea_cropFeed, ea_cropBiofuel, ea_swWet, ea_swHumans, ea_swFeed, ea_swBiofuel, ea_usedArea, ite_self, zero_mul, add_zero, feed0, biofuel0, and_self]
    · rw [ea_consumed, humanTotal_eatAll, sci_100]
    · intro hon
      rw [noSeaweed] at hon
      exact absurd hon (by decide)
  · intro m hm
    exact hcons m

/-- boundedness: the objective never exceeds month 0's supply relative to need -/
theorem objective_bounded (i : Inp K) (months : 2 ≤ i.nmonths) (noSeaweed : i.addSeaweed = false)
    (wf : WellFormed i) (need : 0 < i.billionKcalsNeeded)
    (supplies : (∀ m, 0 ≤ at' i.milk m) ∧ (∀ m, 0 ≤ at' i.greenhouse m) ∧ (∀ m, 0 ≤ at' i.fish m) ∧
      (∀ m, 0 ≤ at' i.scp m) ∧ (∀ m, 0 ≤ at' i.cs m) ∧ (∀ m, 0 ≤ at' i.slaughtered m) ∧
      (∀ m, 0 ≤ at' i.maxCulled m) ∧ 0 ≤ i.meatSummed)
    (x : Var → K) (hx : Feasible (buildLP i .toHumans) x) :
    x .objective ≤
      (i.storedInitial + at' i.cropProd 0 + at' i.milk 0
        + (if i.storeBetweenYears then i.meatSummed else at' i.slaughtered 0)
        + at' i.cs 0 + at' i.scp 0 + at' i.greenhouse 0 + at' i.fish 0)
        / i.billionKcalsNeeded * 100 := by
  have hN : 0 < i.nmonths := by omega
  obtain ⟨⟨hS0w, hSw⟩, ⟨hC0w, hCw⟩, ⟨hM0w, hMw⟩, ⟨hP0w, hPw⟩, ⟨hZ0w, hZw⟩, -, hprod, hS0, -⟩ := wf
  obtain ⟨-, -, -, hscp, hcs, hsl, -, hmeat⟩ := supplies
  refine le_trans (objective_le_month hx hN) ?_
  rw [kcals_fed hx hN, eval_humanSum]
  refine mul_le_mul_of_nonneg_right (div_le_div_of_nonneg_right ?_ need.le) (by norm_num)
  have h1 : X x i.addStored .sfHumans 0 ≤ i.storedInitial := by
    unfold X; split_ifs with hon
    · exact (stored_parts_le hx hon hS0w hSw hN).1
    · exact hS0
  have h2 : X x i.addOutdoor .cropHumans 0 ≤ at' i.cropProd 0 := by
    unfold X; split_ifs with hon
    · have := (crop_vars_le hx hon hC0w hCw hN).2.2.1
      rwa [total_eq_cum, cum_zero] at this
    · exact hprod 0 hN
  have h3 : X x i.addSeaweed .swHumans 0 * i.seaweedKcals = 0 := by
    unfold X; rw [noSeaweed]; simp only [Bool.false_eq_true, if_false, zero_mul]
  have h4 : X x i.addMeat .meatEaten 0
      ≤ if i.storeBetweenYears then i.meatSummed else at' i.slaughtered 0 := by
    unfold X
    cases hs : i.storeBetweenYears
    · simp only [Bool.false_eq_true, if_false]
      split_ifs with hon
      · exact meatEaten_le_slaughtered hx hon hs hM0w hMw hN
      · exact hsl 0
    · simp only [if_true]
      split_ifs with hon
      · exact (meat_vars_le hx hon hs hM0w hMw hN).2.2
      · exact hmeat
  have h5 : X x i.addCs .csHumans 0 ≤ at' i.cs 0 := by
    unfold X; split_ifs with hon
    · exact (cs_vars_le hx hon hZ0w hZw hN).1
    · exact hcs 0
  have h6 : X x i.addScp .scpHumans 0 ≤ at' i.scp 0 := by
    unfold X; split_ifs with hon
    · exact (scp_vars_le hx hon hP0w hPw hN).1
    · exact hscp 0
  linarith

end Allfed.Proofs.Completion
