#!/venv/bin/python
"""Regenerate /verif/MANIFEST.json from the props modules (keeps it valid at all times)."""
import importlib, json, os, sys
ROOT = os.path.dirname(os.path.dirname(os.path.abspath(__file__)))
sys.path.insert(0, os.path.join(ROOT, "harness"))
ALL = ["C%02d" % i for i in range(1, 19)]
NOT_BUILT = "check not built yet in this session (design in DESIGN.md §7); no claim is made"
checks, na = [], []
for pid in ALL:
    path = os.path.join(ROOT, "harness", "props", pid.lower() + ".py")
    if not os.path.exists(path):
        na.append({"property_id": pid, "reason": NOT_BUILT})
        continue
    m = importlib.import_module("props." + pid.lower())
    if getattr(m, "NOT_CLAIMED", None):
        na.append({"property_id": pid, "reason": m.NOT_CLAIMED})
        continue
    checks.append({
        "property_id": pid,
        "quick_cmd": "bin/check %s quick" % pid,
        "thorough_cmd": "bin/check %s thorough" % pid,
        "evidence_file": "evidence/%s.json" % pid,
        "replay_cmd_template": "bin/check %s quick --replay {path}" % pid,
        "engine": "lean4-model+correspondence",
        "level_claimed": {"category": getattr(m, "LEVEL", "proof"), "text": m.LEVEL_TEXT, "design_ref": "DESIGN.md §7 " + pid},
        "level_note": m.LEVEL_NOTE,
        "technique": getattr(m, "TECHNIQUE", "Lean 4 theorems about an executable model + correspondence check against the real code"),
    })
man = {
    "version": 1,
    "setup_cmd": "cd lean && lake build",
    "hooks": {"guard": "ALLFED_VERIF", "enable": "no hooks are compiled into /repo: the harness wraps methods of the real modules from outside (DESIGN.md §5); ALLFED_VERIF=1 is exported by bin/check for completeness",
              "baseline_off_cmd": "cd /repo && /venv/bin/python -m pytest -ra -q -p no:cacheprovider --timeout=900 --continue-on-collection-errors",
              "source_commits": [], "add_only": True},
    "engines": [{"name": "lean4-model+correspondence", "path": "lean/ harness/", "serves_properties": [c["property_id"] for c in checks],
                 "kind_free_text": "Lean 4 model (generic number type) with kernel-checked theorems; translators regenerate table-like parts from source; line-protocol correspondence check drives model and real Python on the same inputs"}],
    "checks": checks,
    "not_applicable": na,
    "notes": "bin/check <ID> <tier>; exit 0 ok / 1 VIOLATION / 2 machinery error. known_findings.json lists recorded and fixed genuine defects.",
}
json.dump(man, open(os.path.join(ROOT, "MANIFEST.json"), "w"), indent=1)
try:
    import jsonschema
    jsonschema.validate(man, json.load(open("/root/.vp/MANIFEST.schema.json")))
    print("MANIFEST valid: %d checks, %d not claimed" % (len(checks), len(na)))
except ImportError:
    print("written (jsonschema not available for validation)")
