-- GENERATED on every check run by harness/translators/tr_units.py from
-- /repo/src/food_system/unit_conversions.py (set_nutrition_requirements, get_*_multipliers).  Do not edit.
import AllfedModel.Num.Basic
namespace Allfed.Gen.Units

structure Conv (α : Type) where
  days_in_month : α
  kcals_daily : α
  fat_daily : α
  protein_daily : α
  kcals_monthly : α
  fat_monthly : α
  protein_monthly : α
  billion_kcals_needed : α
  thou_tons_fat_needed : α
  thou_tons_protein_needed : α
  population : α

section
variable {α : Type} [Add α] [Sub α] [Mul α] [Div α] [Neg α] [OfNat α 0] [OfNat α 1] [OfScientific α]


def mkConv (kcals_daily fat_daily protein_daily population : α) : Conv α :=
  let f_days_in_month : α := (30.0 : α)
  let f_kcals_daily : α := kcals_daily
  let f_fat_daily : α := fat_daily
  let f_protein_daily : α := protein_daily
  let f_kcals_monthly : α := (kcals_daily * f_days_in_month)
  let f_fat_monthly : α := (((fat_daily / (1000000.0 : α)) * f_days_in_month) / (1000.0 : α))
  let f_protein_monthly : α := (((protein_daily / (1000000.0 : α)) * f_days_in_month) / (1000.0 : α))
  let f_billion_kcals_needed : α := ((f_kcals_monthly * population) / (1000000000.0 : α))
  let f_thou_tons_fat_needed : α := (f_fat_monthly * population)
  let f_thou_tons_protein_needed : α := (f_protein_monthly * population)
  let f_population : α := population
  { days_in_month := f_days_in_month,
    kcals_daily := f_kcals_daily,
    fat_daily := f_fat_daily,
    protein_daily := f_protein_daily,
    kcals_monthly := f_kcals_monthly,
    fat_monthly := f_fat_monthly,
    protein_monthly := f_protein_monthly,
    billion_kcals_needed := f_billion_kcals_needed,
    thou_tons_fat_needed := f_thou_tons_fat_needed,
    thou_tons_protein_needed := f_thou_tons_protein_needed,
    population := f_population }

def kcalMult (c : Conv α) (u : String) : Option α :=
  let billion_kcal_to_billion_people : α := ((1 : α) / c.kcals_monthly)
  let billion_kcal_to_percent_fed : α := ((100.0 : α) / c.billion_kcals_needed)
  let billion_kcal_to_million_dry_caloric_tons : α := ((1 : α) / ((((1000000.0 : α) * (1000.0 : α)) * (4000.0 : α)) / (1000000000.0 : α)))
  let billion_people_to_kcals_equivalent : α := (((1000000000.0 : α) / c.population) * c.kcals_daily)
  let percent_kcal_to_kcals_per_day : α := (((1 : α) / (100.0 : α)) * c.kcals_daily)
  match u with
  | "billion kcals" => some (1 : α)
  | "billion kcals each month" => some (1 : α)
  | "billion kcals per month" => some (1 : α)
  | "billion people fed" => some billion_kcal_to_billion_people
  | "billion people fed each month" => some billion_kcal_to_billion_people
  | "billion people fed per month" => some billion_kcal_to_billion_people
  | "percent people fed" => some billion_kcal_to_percent_fed
  | "percent people fed each month" => some billion_kcal_to_percent_fed
  | "percent people fed per month" => some billion_kcal_to_percent_fed
  | "million dry caloric tons" => some billion_kcal_to_million_dry_caloric_tons
  | "million dry caloric tons each month" => some billion_kcal_to_million_dry_caloric_tons
  | "million dry caloric tons per month" => some billion_kcal_to_million_dry_caloric_tons
  | "kcals per person per day" => some (billion_kcal_to_billion_people * billion_people_to_kcals_equivalent)
  | "kcals per person per day each month" => some (billion_kcal_to_billion_people * billion_people_to_kcals_equivalent)
  | "kcals per person per day per month" => some (billion_kcal_to_percent_fed * percent_kcal_to_kcals_per_day)
  | _ => none

def kcalMultNames : List String := ["billion kcals", "billion kcals each month", "billion kcals per month", "billion people fed", "billion people fed each month", "billion people fed per month", "percent people fed", "percent people fed each month", "percent people fed per month", "million dry caloric tons", "million dry caloric tons each month", "million dry caloric tons per month", "kcals per person per day", "kcals per person per day each month", "kcals per person per day per month"]

def fatMult (c : Conv α) (u : String) : Option α :=
  let thou_tons_fat_to_billion_people : α := (((1 : α) / c.fat_monthly) / (1000000000.0 : α))
  let thou_tons_fat_to_percent_fed : α := ((100.0 : α) / c.thou_tons_fat_needed)
  let billion_people_fat_to_kcals_equivalent : α := (((1000000000.0 : α) / c.population) * c.kcals_daily)
  let percent_fat_to_grams_per_day : α := (((1 : α) / (100.0 : α)) * c.fat_daily)
  match u with
  | "thousand tons" => some (1 : α)
  | "thousand tons each month" => some (1 : α)
  | "thousand tons per month" => some (1 : α)
  | "million tons" => some ((1 : α) / (1000.0 : α))
  | "million tons each month" => some ((1 : α) / (1000.0 : α))
  | "million tons per month" => some ((1 : α) / (1000.0 : α))
  | "billion people fed" => some thou_tons_fat_to_billion_people
  | "billion people fed each month" => some thou_tons_fat_to_billion_people
  | "billion people fed per month" => some thou_tons_fat_to_billion_people
  | "percent people fed" => some thou_tons_fat_to_percent_fed
  | "percent people fed each month" => some thou_tons_fat_to_percent_fed
  | "percent people fed per month" => some thou_tons_fat_to_percent_fed
  | "effective kcals per person per day" => some (thou_tons_fat_to_billion_people * billion_people_fat_to_kcals_equivalent)
  | "effective kcals per person per day each month" => some (thou_tons_fat_to_billion_people * billion_people_fat_to_kcals_equivalent)
  | "effective kcals per person per day per month" => some (thou_tons_fat_to_billion_people * billion_people_fat_to_kcals_equivalent)
  | "grams per person per day" => some (thou_tons_fat_to_percent_fed * percent_fat_to_grams_per_day)
  | "grams per person per day each month" => some (thou_tons_fat_to_percent_fed * percent_fat_to_grams_per_day)
  | "grams per person per day per month" => some (thou_tons_fat_to_percent_fed * percent_fat_to_grams_per_day)
  | _ => none

def fatMultNames : List String := ["thousand tons", "thousand tons each month", "thousand tons per month", "million tons", "million tons each month", "million tons per month", "billion people fed", "billion people fed each month", "billion people fed per month", "percent people fed", "percent people fed each month", "percent people fed per month", "effective kcals per person per day", "effective kcals per person per day each month", "effective kcals per person per day per month", "grams per person per day", "grams per person per day each month", "grams per person per day per month"]

def proteinMult (c : Conv α) (u : String) : Option α :=
  let thou_tons_protein_to_billion_people : α := (((1 : α) / c.protein_monthly) / (1000000000.0 : α))
  let thou_tons_protein_to_percent_fed : α := ((100.0 : α) / c.thou_tons_protein_needed)
  let billion_people_protein_to_kcals_equivalent : α := (((1000000000.0 : α) / c.population) * c.kcals_daily)
  let percent_protein_to_grams_per_day : α := (((1 : α) / (100.0 : α)) * c.protein_daily)
  match u with
  | "thousand tons" => some (1 : α)
  | "thousand tons each month" => some (1 : α)
  | "thousand tons per month" => some (1 : α)
  | "million tons" => some ((1 : α) / (1000.0 : α))
  | "million tons each month" => some ((1 : α) / (1000.0 : α))
  | "million tons per month" => some ((1 : α) / (1000.0 : α))
  | "billion people fed" => some thou_tons_protein_to_billion_people
  | "billion people fed each month" => some thou_tons_protein_to_billion_people
  | "billion people fed per month" => some thou_tons_protein_to_billion_people
  | "percent people fed" => some thou_tons_protein_to_percent_fed
  | "percent people fed each month" => some thou_tons_protein_to_percent_fed
  | "percent people fed per month" => some thou_tons_protein_to_percent_fed
  | "effective kcals per person per day" => some (thou_tons_protein_to_billion_people * billion_people_protein_to_kcals_equivalent)
  | "effective kcals per person per day each month" => some (thou_tons_protein_to_billion_people * billion_people_protein_to_kcals_equivalent)
  | "effective kcals per person per day per month" => some (thou_tons_protein_to_billion_people * billion_people_protein_to_kcals_equivalent)
  | "grams per person per day" => some (thou_tons_protein_to_percent_fed * percent_protein_to_grams_per_day)
  | "grams per person per day each month" => some (thou_tons_protein_to_percent_fed * percent_protein_to_grams_per_day)
  | "grams per person per day per month" => some (thou_tons_protein_to_percent_fed * percent_protein_to_grams_per_day)
  | _ => none

def proteinMultNames : List String := ["thousand tons", "thousand tons each month", "thousand tons per month", "million tons", "million tons each month", "million tons per month", "billion people fed", "billion people fed each month", "billion people fed per month", "percent people fed", "percent people fed each month", "percent people fed per month", "effective kcals per person per day", "effective kcals per person per day each month", "effective kcals per person per day per month", "grams per person per day", "grams per person per day each month", "grams per person per day per month"]

end
end Allfed.Gen.Units
