"""C07 - herd feeding accounts for energy and starvation consistently (DESIGN.md §7 C07)."""
import numpy as np

from lib import herd, wire
from lib.wire import f2b, Reader, close

ID = "C07"
LEVEL = "proof"
LEVEL_TEXT = ("Lean 4 theorems, for arbitrary requirements, supplies, herd sizes and species lists over any ordered field, about an executable model of "
              "AnimalSpecies.feed_the_species, the feeding loop of main() and the priority sort: no more feed/grass used than supplied, net energy "
              "delivered = requirement - energy still owed <= requirement, grass only to ruminants, a later species eats only if every earlier one is met "
              "(or not entitled to grass), fed <= herd, = herd when the requirement is met, otherwise within half an animal of herd x delivered fraction, "
              "starving = remainder >= 0; the sort is a stable descending permutation.  Counter-example theorems keep the pre-fix formula (D3) on record. "
              "Tied to the code by direct calls of feed_the_species / feed_animals / get_optimal_next_animal_to_feed and by every feeding call inside main()")
LEVEL_NOTE = ("Trusted: Lean kernel (axioms propext/Classical.choice/Quot.sound only), the Python correspondence harness, exact-arithmetic model vs IEEE "
              "doubles (rel 1e-9). Python's round() is a parameter function with |round x - x| <= 1/2.")
TECHNIQUE = "Lean 4 proof (case analysis + induction over the species list) + differential correspondence with the real functions"
DRIVER = "driver_herd"
LEAN_MODULES = ["AllfedModel.Props.C07"]
OBLIGATIONS = [
    "Allfed.C07.C07_no_overuse", "Allfed.C07.C07_no_overdelivery", "Allfed.C07.C07_no_overdelivery_06_08", "Allfed.C07.C07_energy_balance",
    "Allfed.C07.C07_grass_ruminants_only", "Allfed.C07.C07_fed_count", "Allfed.C07.C07_all_each", "Allfed.C07.C07_all_no_overuse",
    "Allfed.C07.C07_priority", "Allfed.C07.C07_month_no_overuse", "Allfed.C07.C07_sort_perm", "Allfed.C07.C07_sort_sorted",
    "Allfed.C07.C07_fed_count_unfixed_counterexample", "Allfed.C07.C07_starving_unfixed_counterexample",
]
RULE = ("(requirement, grass, feed, herd, ruminant) tuples incl. the boundaries requirement 0, exactly enough grass / feed, one ulp short / over, no supply, "
        "ample supply, fed to the real feed_the_species and to the model; species lists fed to feed_animals; real species tables with random meat "
        "dictionaries fed to get_optimal_next_animal_to_feed; every feed_the_species call of real main() runs; a case is non-trivial when the herd "
        "is only partially fed (or, for orders, when the order differs from the input order); distinct = distinct inputs")
ASSUMPTIONS = [
    "0 < grass and feed efficiency; 0 <= requirement, grass, feed, herd",
    "round: |round x - x| <= 1/2",
    "floats are compared to the model at Float with rel 1e-9",
]
TRUSTED = ["direct calls build an AnimalSpecies with the attributes feed_the_species reads (current_population, NE_balance, digestion_efficiency)"]

# (need, pop, grass, feed, rum): D3 witnesses (90 % supply; grass one ulp short), D12 (extinct herd keeps last month's count)
NEED0 = 0.5771833452750575
CORPUS = [
    (NEED0, 1000.0, 0.0, NEED0 * 0.9 / 0.8, True, 0.0),
    (NEED0, 1000.0, herd.nextafter(NEED0 / 0.6, False), 0.0, True, 0.0),
    (NEED0, 1000.0, 0.0, NEED0 * 0.5 / 0.8, False, 0.0),
    (0.0, 0.0, 1.0, 1.0, True, 5198805397410410496.0),
    (NEED0 * 0.0006, 0.6, 0.0, NEED0 * 0.0006 * 0.99 / 0.8, False, 0.0),   # fractional herd: round() alone would count 1 of 0.6 fed
]


def _call_impl(ap, Food, eg, ef, need, pop, grass, feed, rum, stale):
    a = ap.AnimalSpecies("synthetic", "synthetic")
    a.digestion_efficiency = {"grass": eg, "feed": ef}
    a.current_population = pop
    a.population_fed = stale
    a.NE_balance = Food(need, 0, 0)
    g, f = Food(grass, 0, 0), Food(feed, 0, 0)
    og, of = a.feed_the_species(g, f, rum)
    return {"animal": "synthetic", "rum": rum, "need": need, "pop": pop, "grassIn": grass, "feedIn": feed, "effG": eg, "effF": ef,
            "grassLeft": float(og.kcals), "feedLeft": float(of.kcals), "balance": float(a.NE_balance.kcals), "fed": float(a.population_fed)}


def gen_direct(rng, n):
    out = []
    for _ in range(n):
        eg, ef = (0.6, 0.8) if rng.random() < 0.7 else (rng.uniform(0.05, 1.0), rng.uniform(0.05, 1.0))
        pop = rng.choice([0.0, 1.0, 0.6, 2.5, 7.0, 1000.0, 12345.678, 10 ** rng.uniform(0, 9), float(rng.randint(1, 10 ** 6))])
        per = 0.0 if rng.random() < 0.06 else rng.choice([1e-6, 10 ** rng.uniform(-7, -2)])
        need = per * pop
        rum = rng.random() < 0.55
        mode = rng.choice(["zero", "ample", "grass-exact", "grass-ulp", "feed-exact", "feed-ulp", "partial", "partial", "partial-both", "mixed-exact", "random"])
        g = f = 0.0
        if mode == "ample":
            g, f = need * rng.uniform(2, 10), need * rng.uniform(2, 10)
        elif mode == "grass-exact":
            g, f = need / eg, rng.choice([0.0, need])
        elif mode == "grass-ulp":
            g, f = herd.nextafter(need / eg, rng.random() < 0.5), rng.choice([0.0, need * 0.1])
        elif mode == "feed-exact":
            g, f = 0.0, need / ef
        elif mode == "feed-ulp":
            g, f = 0.0, herd.nextafter(need / ef, rng.random() < 0.5)
        elif mode == "partial":
            g, f = 0.0, need / ef * rng.choice([0.1, 0.5, 0.9, 0.999999, rng.random()])
        elif mode == "partial-both":
            g, f = need / eg * rng.uniform(0, 0.6), need / ef * rng.uniform(0, 0.4)
        elif mode == "mixed-exact":
            a = rng.uniform(0.1, 0.9)
            g = need / eg * a
            rest = need - g * eg
            f = rng.choice([rest / ef, herd.nextafter(rest / ef, True), herd.nextafter(rest / ef, False)])
        elif mode == "random":
            g, f = need * rng.uniform(0, 3), need * rng.uniform(0, 3)
        stale = rng.choice([0.0, 0.0, 123.0, 5e18])
        out.append((eg, ef, float(need), float(pop), float(max(0.0, g)), float(max(0.0, f)), rum, stale, mode))
    return out


def run_direct(ctx, cases):
    ap = herd.ap_module()
    from src.food_system.food import Food
    lines = ["herd.feed %s %s %s %s %s %s %d" % (f2b(eg), f2b(ef), f2b(need), f2b(pop), f2b(g), f2b(f), 1 if rum else 0)
             for (eg, ef, need, pop, g, f, rum, stale, mode) in cases]
    outs = ctx.lean(lines)
    for (eg, ef, need, pop, g, f, rum, stale, mode), o in zip(cases, outs):
        case = {"helper": "feed_the_species", "effG": eg, "effF": ef, "need": need, "pop": pop, "grass": g, "feed": f, "rum": rum, "stale_fed": stale}
        try:
            with ctx.quiet(), np.errstate(all="ignore"):
                c = _call_impl(ap, Food, eg, ef, need, pop, g, f, rum, stale)
        except Exception as e:  # the function has no rejecting branch for non-negative numbers
            ctx.count("direct:impl-" + type(e).__name__)
            ctx.violation("feed_the_species:raises", "feed_the_species raised %s: %s" % (type(e).__name__, e), case)
            continue
        rd = Reader(o)
        mo = rd.floats()
        unfixed = rd.float()
        model = dict(zip(["grassIn", "feedIn", "grassLeft", "feedLeft", "balance", "fed"], mo))
        for k, ab in (("grassLeft", 1e-9 * max(1e-12, g)), ("feedLeft", 1e-9 * max(1e-12, f)), ("balance", 1e-9 * max(1e-12, need)), ("fed", 1e-9 * max(1.0, pop))):
            if not close(c[k], model[k], 1e-9, ab):
                ctx.disagree("feed_the_species:" + k, case, c[k], model[k])
                break
        for key, what in herd.oracle_feed_call(c, effs=(eg, ef)):
            if key.startswith("near-tie:"):
                ctx.count(key)
            else:
                ctx.violation("feed_the_species:" + key, what, dict(case, got=c))
        branch = "none-needed" if need == 0 else "met" if c["balance"] == 0 else "partial"
        ctx.count("direct:" + branch)
        ctx.count("direct-mode:" + mode)
        if branch == "partial" and abs(unfixed - c["fed"]) > 0.5:
            ctx.count("direct:pre-fix-formula-would-differ")
        ctx.case(("direct", eg, ef, need, pop, g, f, rum), nontrivial=(branch == "partial"),
                 sample={"helper": "feed_the_species", "need": need, "pop": pop, "grass": g, "feed": f, "rum": rum, "fed": c["fed"]})


def gen_lists(rng, n):
    out = []
    for _ in range(n):
        k = rng.randint(1, 21)
        reqs = []
        for _ in range(k):
            pop = rng.choice([0.0, 10 ** rng.uniform(0, 8)])
            need = pop * 10 ** rng.uniform(-7, -3) * rng.choice([0, 1, 1, 1])
            reqs.append((0.6, 0.8, float(need), float(pop), rng.random() < 0.5))
        tot_r = sum(r[2] for r in reqs if r[4]) / 0.6
        tot_a = sum(r[2] for r in reqs) / 0.8
        mode = rng.choice(["zero", "ample", "partial", "grass-only", "feed-only", "exact-prefix"])
        if mode == "zero":
            g = f = 0.0
        elif mode == "ample":
            g, f = tot_r * 2 + 1, tot_a * 2 + 1
        elif mode == "partial":
            g, f = tot_r * rng.random(), tot_a * rng.random() * 0.7
        elif mode == "grass-only":
            g, f = tot_r * rng.uniform(0, 2), 0.0
        elif mode == "feed-only":
            g, f = 0.0, tot_a * rng.uniform(0, 1.5)
        else:
            j = rng.randint(1, k)
            g = sum(r[2] for r in reqs[:j] if r[4]) / 0.6
            f = sum(r[2] for r in reqs[:j] if not r[4]) / 0.8
        out.append((reqs, float(g), float(f), mode))
    return out


def run_lists(ctx, cases):
    ap = herd.ap_module()
    from src.food_system.food import Food
    done = []
    for reqs, g, f, mode in cases:
        animals = []
        for i, (eg, ef, need, pop, rum) in enumerate(reqs):
            a = ap.AnimalSpecies("s%d" % i, "s%d" % i)
            a.digestion_efficiency = {"grass": eg, "feed": ef}
            a.current_population = pop
            a.population_fed = 0
            # reset_NE_balance() computes livestock_unit * one_LSU * LSU_factor * population: choose the LSU factor so that it gives ~`need`
            a.livestock_unit = 1.0
            a.LSU_factor = (need / pop / a.one_LSU_monthly_billion_kcal()) if pop > 0 else 1.0
            animals.append(a)
        rums = [a for a, r in zip(animals, reqs) if r[4]]
        tr = herd.Trace()
        with tr.patched(), ctx.quiet(), np.errstate(all="ignore"):
            fl_, gl_ = ap.AnimalPopulation.feed_animals(animals, rums, Food(f, 0, 0), Food(g, 0, 0))
        done.append((tr.feed_calls, float(gl_.kcals), float(fl_.kcals)))
    # the model is given the requirement the real objects computed (reset_NE_balance), everything else as generated
    lines = []
    kept_cases, kept_done = [], []
    for cs, dn in zip(cases, done):
        if len(dn[0]) != len(cs[0]):
            # the real loop did not serve every species of the list: nothing to line up with the model
            ctx.disagree("feed_animals:species-served", {"helper": "feed_animals", "reqs": cs[0], "grass": cs[1], "feed": cs[2]},
                         "%d of %d species served" % (len(dn[0]), len(cs[0])), "every species is served in list order")
            ctx.count("lists:not-all-served")
        else:
            kept_cases.append(cs)
            kept_done.append(dn)
    cases, done = kept_cases, kept_done
    for (reqs, g, f, mode), (calls, _, _) in zip(cases, done):
        lines.append("herd.feedAll %d %s %s %s" % (len(reqs), " ".join("%s %s %s %s %d" % (f2b(a), f2b(b), f2b(c["need"]), f2b(p), 1 if r else 0)
                                                                       for (a, b, nd, p, r), c in zip(reqs, calls)), f2b(g), f2b(f)))
    outs = ctx.lean(lines)
    for (reqs, g, f, mode), (calls, gl, fl2), o in zip(cases, done, outs):
        case = {"helper": "feed_animals", "reqs": reqs, "grass": g, "feed": f}
        rd = Reader(o)
        k = rd.nat()
        mouts = [dict(zip(["grassIn", "feedIn", "grassLeft", "feedLeft", "balance", "fed"], rd.floats())) for _ in range(k)]
        mg, mf = rd.float(), rd.float()
        ok = len(calls) == k and close(gl, mg, 1e-9, 1e-9 * max(1e-9, g)) and close(fl2, mf, 1e-9, 1e-9 * max(1e-9, f))
        if ok:
            for c, mo in zip(calls, mouts):
                for kk, ab in (("grassLeft", 1e-9 * max(1e-9, g)), ("feedLeft", 1e-9 * max(1e-9, f)), ("balance", 1e-9 * max(1e-12, c["need"])), ("fed", 1e-9 * max(1.0, c["pop"]))):
                    if not close(c[kk], mo[kk], 1e-9, ab):
                        ok = False
        if not ok:
            ctx.disagree("feed_animals", case, [(c["grassLeft"], c["feedLeft"], c["balance"], c["fed"]) for c in calls], mouts)
        for c in calls:
            for key, what in herd.oracle_feed_call(c, supply=(g, f)):
                if key.startswith("near-tie:"):
                    ctx.count(key)
                else:
                    ctx.violation("feed_animals/feed_the_species:" + key, what, dict(case, call=c))
        for key, what in herd.oracle_feed_month(calls):
            ctx.violation("feed_animals:" + key, what, case)
        if gl > g * (1 + 1e-9) or fl2 > f * (1 + 1e-9) or gl < -1e-9 * g or fl2 < -1e-9 * f:
            ctx.violation("feed_animals:overuse", "left-over supplies outside [0, supplied]", case)
        ctx.count("lists:" + mode)
        ctx.case(("list", tuple(reqs), g, f), nontrivial=any(c["balance"] > 0 for c in calls) and any(c["balance"] == 0 and c["need"] > 0 for c in calls),
                 sample={"helper": "feed_animals", "species": len(reqs), "grass": g, "feed": f})


def run_priority(ctx, countries):
    """the order `main()` serves the species in: get_optimal_next_animal_to_feed with a meat dictionary, approximate feed conversion without"""
    ap = herd.ap_module()
    df_stock = ap.AnimalDataReader.read_animal_population_data("FAOSTAT_head_and_slaughter.csv")
    df_attr = ap.AnimalDataReader.read_animal_nutrition_data("species_attributes.csv")
    for code in countries:
        row = df_stock.loc["SWZ" if code == "SWT" else code]
        for rep in range(3):
            md = herd.meat_dict(ctx.rng) if rep else None
            with ctx.quiet():
                objs = ap.AnimalModelBuilder.create_animal_objects(row, df_attr)
                names0 = list(objs.keys())
                if md:
                    ordered = ap.AnimalModelBuilder.get_optimal_next_animal_to_feed(objs, md, df_attr)
                else:
                    ordered = dict(sorted(objs.items(), key=lambda it: it[1].approximate_feed_conversion, reverse=True))
            impl_order = list(ordered.keys())
            case = {"helper": "priority", "code": code, "meat_dict": md}
            if md:
                rows = []
                for nm in names0:
                    a = objs[nm]
                    kc = (md["KCALS_PER_CHICKEN"] if nm == "chicken" else md["KCALS_PER_PIG"] if nm == "pig" else
                          md["KCALS_PER_SMALL_ANIMAL"] if a.animal_size == "small" else md["KCALS_PER_MEDIUM_ANIMAL"] if a.animal_size == "medium" else md["KCALS_PER_LARGE_ANIMAL"])
                    rows.append((float(kc), float(df_attr.loc[nm]["animal_slaughter_hours"]), float(a.net_energy_required_per_month()), float(a.digestion_efficiency["feed"])))
                o = ctx.lean(["herd.priority %d %s" % (len(rows), " ".join(" ".join(f2b(x) for x in r) for r in rows))])[0]
                rd = Reader(o)
                keys = rd.floats()
                order = rd.nats()
                impl_keys = [float(objs[nm].net_kcals_gained_per_hour_slaughter_this_month) for nm in names0]
                if not wire.close_list(impl_keys, keys, 1e-12, 0.0):
                    ctx.disagree("priority:key", case, impl_keys, keys)
                kcheck = impl_keys
                # the documented priority (net kcals gained per slaughter hour, chicken and pig with their own meat kcals per head, the rest by size class),
                # computed by the model from the species table and the meat dictionary: the serving order has to descend in it as well
                spec = {nm: k for nm, k in zip(names0, keys)}
                for x, y in zip(impl_order, impl_order[1:]):
                    if spec[x] < spec[y] * (1 - 1e-9):
                        ctx.violation("priority:not-descending", "%s is served before %s although its documented priority (net kcals per slaughter hour) is lower "
                                      "(%r < %r)" % (x, y, spec[x], spec[y]), dict(case, served=impl_order, documented_keys=spec))
                        break
            else:
                kcheck = [float(objs[nm].approximate_feed_conversion) for nm in names0]
                o = ctx.lean(["herd.sortDesc " + wire.fl(kcheck)])[0]
                order = Reader(o).nats()
            model_order = [names0[i] for i in order]
            if model_order != impl_order:
                ctx.disagree("priority:order", case, impl_order, model_order)
            # the property: served in descending order of the key, ties in table order
            ks = {nm: k for nm, k in zip(names0, kcheck)}
            for x, y in zip(impl_order, impl_order[1:]):
                if ks[x] < ks[y] or (ks[x] == ks[y] and names0.index(x) > names0.index(y)):
                    ctx.violation("priority:not-descending", "%s is served before %s although its priority key is lower (%r < %r)" % (x, y, ks[x], ks[y]), case)
            if sorted(impl_order) != sorted(names0):
                ctx.violation("priority:not-a-permutation", "the serving order lost or duplicated a species", case)
            # and main() really serves in that order
            res = herd.run_main(ctx, code, [1.0, 1.0], [1.0, 1.0], "baseline", md)
            if res["animals"] is not None:
                served = [c["animal"] for c in res["trace"].feed_calls[:len(res["animals"])]]
                if served != impl_order:
                    ctx.violation("priority:main-order", "main() serves %s, the priority order is %s" % (served[:6], impl_order[:6]), case)
            ctx.count("priority:" + ("net-kcals-per-hour" if md else "feed-conversion"))
            ctx.case(("priority", code, tuple(sorted((md or {}).items()))), nontrivial=impl_order != names0,
                     sample={"helper": "priority", "code": code, "order": impl_order[:5]})


def run_main_cases(ctx, countries, per_combo):
    for code in countries:
        for sc in herd.STRATEGIES:
            for i in range(per_combo):
                if i == 0:
                    case = herd.knife_edge_case(ctx.rng, ctx, code, sc, n=24)
                else:
                    md = herd.meat_dict(ctx.rng) if ctx.rng.random() < 0.4 else None
                    case = herd.make_case(ctx.rng, ctx, code, sc, n=ctx.rng.choice([24, 36, 60]), md=md)
                if case is None:
                    ctx.count("probe-failed")
                    continue
                s = herd.main_case(ctx, case, "C07")
                ctx.case(("main", code, sc, case["kf"], case["kg"], tuple(case["feed"][:6]), tuple(case["grass"][:6])), nontrivial=bool(s.get("partial")),
                         sample={"helper": "main", "code": code, "scenario": sc, "feed": case["kf"], "grass": case["kg"], "months": len(case["feed"])})
                ctx.count("main-runs")


def _corpus_cases():
    return [(0.6, 0.8, need, pop, g, f, rum, stale, "corpus") for (need, pop, g, f, rum, stale) in CORPUS]


def correspondence(ctx):
    k = ctx.budget(1, 25)
    run_direct(ctx, _corpus_cases() + gen_direct(ctx.rng, 2500 * k))
    run_lists(ctx, gen_lists(ctx.rng, 250 * k))
    countries = herd.pick_countries(ctx, 6)
    ctx.extra["countries"] = len(countries)
    run_priority(ctx, countries if ctx.quick else herd.model_countries())
    run_main_cases(ctx, countries, ctx.budget(3, 4))


def search(ctx):
    run_direct(ctx, gen_direct(ctx.rng, 20000))
    run_lists(ctx, gen_lists(ctx.rng, 1500))
    allc = herd.model_countries()
    ctx.rng.shuffle(allc)
    run_main_cases(ctx, allc[:25], 3)


def replay(ctx, rep):
    ctx.driver = DRIVER   # the direct-call helpers also ask the model (built by the last full run)
    hits = []
    for v in rep.get("violations", []):
        c = v["case"]
        before = len(ctx.violations)
        if c.get("helper") == "feed_the_species":
            run_direct(ctx, [(c["effG"], c["effF"], c["need"], c["pop"], c["grass"], c["feed"], c["rum"], c.get("stale_fed", 0.0), "replay")])
        elif c.get("helper") == "feed_animals":
            run_lists(ctx, [([tuple(r) for r in c["reqs"]], c["grass"], c["feed"], "replay")])
        elif c.get("helper") == "priority":
            run_priority(ctx, [c["code"]])
        if len(ctx.violations) > before:
            hits.append(ctx.violations[-1])
    hits += herd.replay_main(ctx, rep, "C07")
    return bool(hits), hits
