"""Failing-input search for the LP properties: maximise a physical clause over the CODE's own rows.

Used only after a proof obligation or the row correspondence broke (never for the verdict on the
unchanged tree). HiGHS (scipy.optimize.linprog) is untrusted: the maximiser it returns is
re-evaluated by the Lean model's specification (`lp.check`).
"""
import numpy as np
from lib import lpcheck, lpinst


def _lp(rows, names, cvec):
    from scipy.optimize import linprog
    from scipy.sparse import lil_matrix
    idx = {n: i for i, n in enumerate(names)}
    ub = [(co, s, k) for co, s, k in rows.values() if s != 0]
    eq = [(co, s, k) for co, s, k in rows.values() if s == 0]
    Au = lil_matrix((len(ub), len(names)))
    bu = []
    for r, (co, s, k) in enumerate(ub):
        sg = 1.0 if s == -1 else -1.0
        for v, a in co.items():
            Au[r, idx[v]] = sg * a
        bu.append(-sg * k)
    Ae = lil_matrix((len(eq), len(names)))
    be = []
    for r, (co, s, k) in enumerate(eq):
        for v, a in co.items():
            Ae[r, idx[v]] = a
        be.append(-k)
    return linprog(-cvec, A_ub=Au.tocsr() if ub else None, b_ub=bu if ub else None, A_eq=Ae.tocsr() if eq else None,
                   b_eq=be if eq else None, bounds=(0, None), method="highs")


def clause_functionals(inp):
    """a few (name, {var: coef}, const) linear forms of physCore (excess = form(x) + const must be <= 0)"""
    n = inp["nmonths"]
    out = []

    def v(prefix, m):
        return "%s_Month_%d_Variable" % (prefix, m)

    def g(w):
        return 1.0 / (1.0 - w / 100.0)
    months = sorted(set([0, 1, 6, 12, 13, n // 2, n - 2, n - 1]) & set(range(n)))
    for m in months:
        if inp["addStored"]:
            co = {}
            for k in range(m + 1):
                co[v("Stored_Food_To_Humans", k)] = g(inp["wStored"])
                co[v("Stored_Food_Feed", k)] = 1.0
                co[v("Stored_Food_Biofuel", k)] = 1.0
            out.append(("stored-cumulative@%d" % m, co, -inp["storedInitial"]))
        if inp["addOutdoor"]:
            co = {}
            for k in range(m + 1):
                co[v("Crops_Food_To_Humans", k)] = g(inp["wCrop"])
                co[v("Crops_Food_Feed", k)] = 1.0
                co[v("Crops_Food_Biofuel", k)] = 1.0
            out.append(("crops-cumulative@%d" % m, co, -float(np.sum(inp["cropProd"][:m + 1]))))
        if inp["addMeat"]:
            if inp["storeBetweenYears"]:
                co = {v("Meat_Eaten", k): g(inp["wMeat"]) for k in range(m + 1)}
                out.append(("meat-total@%d" % m, co, -inp["meatSummed"]))
            else:
                out.append(("meat-monthly@%d" % m, {v("Meat_Eaten", m): g(inp["wMeat"])}, -inp["slaughtered"][m]))
        if inp["addScp"]:
            out.append(("scp-monthly@%d" % m, {v("Methane_SCP_To_Humans", m): g(inp["wScp"]), v("Methane_SCP_Feed", m): 1.0,
                                              v("Methane_SCP_Biofuel", m): 1.0}, -inp["scp"][m]))
        if inp["addCs"]:
            out.append(("sugar-monthly@%d" % m, {v("Cellulosic_Sugar_To_Humans", m): g(inp["wCs"]), v("Cellulosic_Sugar_Feed", m): 1.0,
                                                v("Cellulosic_Sugar_Biofuel", m): 1.0}, -inp["cs"][m]))
        if inp["addSeaweed"]:
            out.append(("seaweed-wet-le-density@%d" % m, {v("Seaweed_Wet_On_Farm", m): 1.0}, -inp["maxDensity"] * inp["builtArea"][m]))
            out.append(("seaweed-area-le-built@%d" % m, {v("Used_Area", m): 1.0}, -inp["builtArea"][m]))
            if m > 0:
                led = {v("Seaweed_Wet_On_Farm", m): 1.0, v("Seaweed_Wet_On_Farm", m - 1): -(1 + inp["growth"][m] / 100.0),
                       v("Seaweed_To_Humans", m): g(inp["wSeaweed"]), v("Seaweed_Feed", m): 1.0, v("Seaweed_Biofuel", m): 1.0}
                out.append(("seaweed-ledger+@%d" % m, led, 0.0))
                out.append(("seaweed-ledger-@%d" % m, {a: -b for a, b in led.items()}, 0.0))
        fs = {}
        bs = {}
        for on, pf, mult in ((inp["addStored"], "Stored_Food", 1.0), (inp["addOutdoor"], "Crops_Food", 1.0),
                             (inp["addSeaweed"], "Seaweed", inp["seaweedKcals"]), (inp["addCs"], "Cellulosic_Sugar", 1.0),
                             (inp["addScp"], "Methane_SCP", 1.0)):
            if on:
                fs[v(pf + "_Feed", m)] = mult
                bs[v(pf + "_Biofuel", m)] = mult
        if fs:
            out.append(("feed-total+@%d" % m, fs, None))
            out.append(("biofuel-total+@%d" % m, bs, None))
    return out


def adversarial(ctx, run, k, s):
    inp = lpinst.inp_from_optimizer(s.opt, s.kind)
    enc = lpinst.encode_inp(inp)
    names = sorted({v for r in s.rows.values() for v in r[0]})
    idx = {n: i for i, n in enumerate(names)}
    case = {"country": run.iso, "options": run.opts, "round": k + 1, "kind": s.kind}
    for name, co, const in clause_functionals(inp):
        if const is None:
            # feed/biofuel totals: the bound depends on the round
            m = int(name.split("@")[1])
            if s.kind == "to_humans":
                const = -(inp["feed"][m] if name.startswith("feed") else inp["biofuel"][m])
            else:
                const = -(inp["maxFeed"][m] if name.startswith("feed") else inp["maxBiofuel"][m])
        cvec = np.zeros(len(names))
        for vn, a in co.items():
            if vn in idx:
                cvec[idx[vn]] = a
        if not cvec.any():
            continue
        try:
            r = _lp(s.rows, names, cvec)
        except Exception as e:  # noqa
            ctx.count("adversarial-solver-error")
            continue
        ctx.count("adversarial-objectives")
        if r.status == 3:  # unbounded: take a far point on the ray is not available; report the clause
            ctx.violation("phys-adversarial:" + name.split("@")[0],
                          "%s round %d: clause %s is unbounded over the rows the code builds" % (run.iso, k + 1, name),
                          dict(case, clause=name, unbounded=True))
            return
        if r.status != 0:
            continue
        excess = float(-r.fun + const)
        if excess > lpcheck.PHYS_TOL * max(1.0, inp["billionKcalsNeeded"]):
            vals = {n: float(x) for n, x in zip(names, r.x)}
            groups = lpcheck.check_allocation(enc, s.kind, None, vals)
            bad = [it for it in groups[1][1] if it["excess"] > lpcheck.PHYS_TOL * max(1.0, it["scale"])]
            if bad:
                ctx.violation("phys-adversarial:" + bad[0]["clause"].split(":")[0],
                              "%s round %d: an allocation feasible for the rows the code builds (not necessarily the one reported) breaks clause %s "
                              "in month %d by %.6g" % (run.iso, k + 1, bad[0]["clause"], bad[0]["month"], bad[0]["excess"]),
                              dict(case, clause=bad[0]["clause"], month=bad[0]["month"], excess=bad[0]["excess"],
                                   allocation_nonzero={n: v for n, v in vals.items() if abs(v) > 1e-9 and ("_%d_" % bad[0]["month"]) in n}))
                return
