import Driver.Loop
import Driver.Ops.Food
def main : IO Unit := runDriver Ops.Food.ops
