import AllfedModel.Model.Supply
import AllfedModel.Proofs.Supply
/-!
# C09 — cropland is neither double-counted nor lost between crops and greenhouses

Property theorems only; helper lemmas live in `Proofs/Supply.lean`.  `K` is any linearly ordered
field; the horizon is arbitrary (the code's own guards are the hypotheses `CropWF`, `GhWF`).

The model mirrors `set_crop_production_minus_greenhouse_area` **after** the two `fix:` commits
(D1: float array instead of an integer array; D2: greenhouse share subtracted in the no-relocation
branch too).  The unfixed formulas stay on record below with proved counter-examples.
-/
namespace Allfed.C09
open Allfed Allfed.Supply Allfed.Proofs.Supply

set_option linter.unusedSectionVars false

variable {K : Type} [Field K] [LinearOrder K] [IsStrictOrderedRing K]

/-- **outdoor output = grown × (1 − greenhouse fraction) × (1 − waste), in both branches.**
    `grown` is the relocated series from `harvest duration + rotation delay` on when relocation is
    switched on, and the plain series otherwise; all three lists are the ones the code returns. -/
theorem C09_net_of_greenhouses (pow : K → K → K) (hp : PowOK pow) (c : CropIn K) (w : CropWF c) (g : GhIn K)
    (wg : GhWF c.nmonths g) (hout : c.addOutdoor = true) :
    ∃ o, cropsAndGreenhouses pow c g = .ok o ∧ ∀ i, i < c.nmonths →
      o.production.getD i 0 =
        (if c.relocation ∧ c.harvestDuration + c.rotationDelay ≤ i then o.grown.getD i 0 else o.noReloc.getD i 0)
          * (1 - o.gh.fraction.getD i 0) * (1 - c.waste / 100.0) := by
  refine ⟨_, cropsAndGreenhouses_ok pow hp c w g wg (Or.inl hout), ?_⟩
  intro i hi
  simp only [getD_map_range _ _ _ _ hi]
  unfold productionSpec grownEffSpec
  rw [if_pos hout]

/-- the same statement, separately for each branch (the second is what D2 violated) -/
theorem C09_net_of_greenhouses_relocation (pow : K → K → K) (c : CropIn K) (ghf : Nat → K) (i : Nat)
    (hout : c.addOutdoor = true) (hr : c.relocation = true) (hi : c.harvestDuration + c.rotationDelay ≤ i) :
    productionSpec pow c ghf i = grownSpec pow c i * (1 - ghf i) * (1 - c.waste / 100.0) := by
  unfold productionSpec grownEffSpec
  rw [if_pos hout, if_pos ⟨hr, hi⟩]

theorem C09_net_of_greenhouses_no_relocation (pow : K → K → K) (c : CropIn K) (ghf : Nat → K) (i : Nat)
    (hout : c.addOutdoor = true) (hr : c.relocation = false) :
    productionSpec pow c ghf i = noRelocSpec c i * (1 - ghf i) * (1 - c.waste / 100.0) := by
  unfold productionSpec grownEffSpec
  rw [if_pos hout, if_neg (by rw [hr]; simp)]

/-- greenhouse area: zero until `delay + 5`, monotone, never above `multiplier × cropland`,
    and exactly that share from month `delay + 41` on; the fraction of cropland stays in `[0, 1]` -/
theorem C09_gh_area (g : GhIn K) (ht : 0 ≤ ghTotal g) (hm0 : 0 ≤ g.areaMultiplier) (hm1 : g.areaMultiplier ≤ 1)
    (i j : Nat) (hij : i ≤ j) :
    (i < g.delay + 5 → ghAreaSpec' g i = 0) ∧ ghAreaSpec' g i ≤ ghAreaSpec' g j ∧
      ghAreaSpec' g j ≤ g.areaMultiplier * ghTotal g ∧
      (g.addGreenhouses = true → ¬ noCropland g → g.delay + 5 + 36 ≤ j → ghAreaSpec' g j = g.areaMultiplier * ghTotal g) ∧
      (0 ≤ ghFractionSpec g j ∧ ghFractionSpec g j ≤ 1) := by
  have hl : 0 ≤ ghLimit g := ghLimit_nonneg g ht hm0
  have hlim : ghLimit g = g.areaMultiplier * ghTotal g := mul_comm _ _
  unfold ghAreaSpec'
  refine ⟨?_, ?_, ?_, ?_, ghFractionSpec_range g j ht hm0 hm1⟩
  · intro h; split_ifs
    · exact ghAreaSpec_zero _ _ _ h
    · rfl
  · split_ifs
    · exact ghAreaSpec_mono _ _ _ _ hij hl
    · exact le_rfl
  · rw [← hlim]; split_ifs
    · exact ghAreaSpec_le _ _ _ hl
    · exact hl
  · intro ha hz h; rw [if_pos ⟨ha, hz⟩, ghAreaSpec_full _ _ _ h, hlim]

/-- … and these are the values the code returns -/
theorem C09_gh_area_refines (pow : K → K → K) (hp : PowOK pow) (c : CropIn K) (w : CropWF c) (g : GhIn K)
    (wg : GhWF c.nmonths g) (hrun : c.addOutdoor = true ∨ g.addGreenhouses = true) :
    ∃ o, cropsAndGreenhouses pow c g = .ok o ∧ o.gh.area = (List.range c.nmonths).map (ghAreaSpec' g) ∧
      o.gh.fraction = (List.range c.nmonths).map (ghFractionSpec g) :=
  ⟨_, cropsAndGreenhouses_ok pow hp c w g wg hrun, rfl, rfl⟩

/-- the only property of `x ** e` used: on `0 ≤ x ≤ 1`, `0 < e ≤ 1` it lies between `x` and `1`;
    hence the response to a disruption ratio never drops below the ratio itself -/
theorem C09_relocation_gain (pow : K → K → K) (hp : PowOK pow) (e x : K) (he : 0 < e ∧ e ≤ 1) (hx : 0 ≤ x) :
    x ≤ relocGain pow e x :=
  le_relocGain pow hp e x he hx

/-- switching to relocated crops never lowers any month's output -/
theorem C09_relocation_never_lowers (pow : K → K → K) (hp : PowOK pow) (c : CropIn K) (w : CropWF c)
    (he : 0 < c.exponent ∧ c.exponent ≤ 1) (g : GhIn K) (wg : GhWF c.nmonths g)
    (ht : 0 ≤ ghTotal g) (hm0 : 0 ≤ g.areaMultiplier) (hm1 : g.areaMultiplier ≤ 1) (hw : c.waste ≤ 100)
    (hout : c.addOutdoor = true) :
    ∃ off on, cropsAndGreenhouses pow (setRelocation c false) g = .ok off ∧
      cropsAndGreenhouses pow (setRelocation c true) g = .ok on ∧
      ∀ i, i < c.nmonths → off.production.getD i 0 ≤ on.production.getD i 0 := by
  have w0 := cropWF_setRelocation c false w (fun h => absurd h (by simp))
  have w1 := cropWF_setRelocation c true w (fun _ => he)
  refine ⟨_, _, cropsAndGreenhouses_ok pow hp _ w0 g wg (Or.inl hout),
    cropsAndGreenhouses_ok pow hp _ w1 g wg (Or.inl hout), ?_⟩
  intro i hi
  have hi0 : i < (setRelocation c false).nmonths := hi
  have hi1 : i < (setRelocation c true).nmonths := hi
  simp only [getD_map_range _ _ _ _ hi0, getD_map_range _ _ _ _ hi1]
  exact relocation_never_lowers pow hp c w1 _ i (ghFractionSpec_range g i ht hm0 hm1).2 hw

/-- expanding cropland never lowers any month's output -/
theorem C09_expansion_never_lowers (pow : K → K → K) (hp : PowOK pow) (c : CropIn K) (w : CropWF c)
    (g : GhIn K) (wg : GhWF c.nmonths g)
    (ht : 0 ≤ ghTotal g) (hm0 : 0 ≤ g.areaMultiplier) (hm1 : g.areaMultiplier ≤ 1) (hw : c.waste ≤ 100)
    (hout : c.addOutdoor = true) :
    ∃ plain expanded, cropsAndGreenhouses pow (setRatioArea c 1) g = .ok plain ∧
      cropsAndGreenhouses pow c g = .ok expanded ∧
      ∀ i, i < c.nmonths → plain.production.getD i 0 ≤ expanded.production.getD i 0 := by
  have w0 := cropWF_setRatioArea_one c w
  refine ⟨_, _, cropsAndGreenhouses_ok pow hp _ w0 g wg (Or.inl hout),
    cropsAndGreenhouses_ok pow hp _ w g wg (Or.inl hout), ?_⟩
  intro i hi
  have hi0 : i < (setRatioArea c 1).nmonths := hi
  simp only [getD_map_range _ _ _ _ hi0, getD_map_range _ _ _ _ hi]
  exact expansion_never_lowers pow hp c w _ i (ghFractionSpec_range g i ht hm0 hm1).2 hw

/-- the expansion ramp is at least one in every month -/
theorem C09_expansion_ramp_ge_one (c : CropIn K) (i : Nat) : 1 ≤ areaRampSpec c i := areaRampSpec_ge_one c i

/-- **not quantised**: the series is homogeneous of degree one in the baseline for *every* factor
    `k > 0`, however small — a rounding or truncating map cannot satisfy this (next theorem) -/
theorem C09_not_quantised (pow : K → K → K) (hp : PowOK pow) (c : CropIn K) (w : CropWF c) (g : GhIn K)
    (wg : GhWF c.nmonths g) (hrun : c.addOutdoor = true ∨ g.addGreenhouses = true) (k : K) (hk : 0 < k) :
    ∃ o o', cropsAndGreenhouses pow c g = .ok o ∧
      cropsAndGreenhouses pow (setBaseline c (k * c.baseline)) g = .ok o' ∧
      o'.production = o.production.map (k * ·) := by
  refine ⟨_, _, cropsAndGreenhouses_ok pow hp c w g wg hrun,
    cropsAndGreenhouses_ok pow hp (setBaseline c (k * c.baseline)) (cropWF_scale c w k hk.le) g wg hrun, ?_⟩
  exact map_range_scale _ _ k _ (fun i => productionSpec_scale pow c _ k i)

/-- a map that sends 0.4 to 0 and 4 to 4 (as truncation to whole numbers does) is not homogeneous -/
theorem C09_truncation_not_homogeneous (tr : K → K) (h1 : tr (2 / 5) = 0) (h2 : tr 4 = 4) :
    ¬ (∀ k x : K, 0 < k → tr (k * x) = k * tr x) := by
  intro h
  have := h 10 (2 / 5) (by norm_num)
  rw [h1, show (10 : K) * (2 / 5) = 4 by norm_num, h2] at this
  norm_num at this

/-- any integer-valued `trunc` with `trunc x ≤ x < trunc x + 1` sends 0.4 to 0 -/
theorem C09_trunc_two_fifths (tr : K → K) (hint : ∀ x, ∃ z : ℤ, tr x = z) (hle : ∀ x, tr x ≤ x)
    (hlt : ∀ x, x < tr x + 1) : tr (2 / 5) = 0 := by
  obtain ⟨z, hz⟩ := hint (2 / 5)
  have h1 := hle (2 / 5 : K)
  have h2 := hlt (2 / 5 : K)
  rw [hz] at h1 h2 ⊢
  have hz1 : (z : K) < 1 := by linarith [show (2 / 5 : K) < 1 by norm_num]
  have hz2 : (-1 : K) < z := by linarith [show (0 : K) < 2 / 5 by norm_num]
  have a1 : z < 1 := by exact_mod_cast hz1
  have a2 : -1 < z := by exact_mod_cast hz2
  have : z = 0 := by omega
  rw [this]; simp

/-! ## the unfixed formulas (D1, D2), with proved counter-examples -/

/-- D1: before the fix the relocation branch wrote into `np.array([0] * NMONTHS)`, an integer array,
    so every month went through numpy's float → int cast (`trunc`) before the waste factor -/
def productionUnfixedRelocation (trunc : K → K) (grown ghf waste : K) : K :=
  trunc (grown * (1 - ghf)) * (1 - waste / 100)

/-- a country growing 0.4 billion kcals in a month was handed 0 -/
theorem C09_truncation_counterexample (trunc : K → K) (h : trunc (2 / 5) = 0) :
    productionUnfixedRelocation trunc (2 / 5) 0 0 ≠ (2 / 5) * (1 - 0) * (1 - 0 / 100) := by
  unfold productionUnfixedRelocation
  rw [show (2 / 5 : K) * (1 - 0) = 2 / 5 by norm_num, h]
  norm_num

/-- D2: before the fix the no-relocation branch was `np.array(NO_RELOCATION_KCALS_GROWN)` — the
    greenhouse share was not subtracted -/
def productionUnfixedNoRelocation (grown _ghf waste : K) : K := grown * (1 - waste / 100)

/-- with half the cropland under greenhouses the unfixed branch still reported the whole harvest -/
theorem C09_greenhouse_land_counted_twice_counterexample :
    productionUnfixedNoRelocation (1 : ℚ) (1 / 2) 0 ≠ 1 * (1 - 1 / 2) * (1 - 0 / 100) := by
  unfold productionUnfixedNoRelocation
  norm_num

/-! ## non-vacuity -/

def exampleCrops : CropIn ℚ :=
  { nmonths := 48, startMonth := 5, baseline := 3 / 1000, season := List.replicate 12 (1 / 12),
    ratios := [1, 1 / 2, 1 / 4, 1 / 4, 1 / 4, 1 / 2, 1 / 2, 3 / 4, 1, 1], country := "DJI", addOutdoor := true,
    relocation := false, exponent := 4 / 5, ratioArea := 1, yearsToReach := 3, harvestDuration := 8,
    rotationDelay := 2, waste := 20 }

def exampleGh : GhIn ℚ :=
  { addGreenhouses := true, globalCropArea := 1430000000, cropAreaFraction := 1 / 100000, delay := 2,
    areaMultiplier := 19 / 143, gainPct := 44, wasteRetail := 10 }

example : CropWF exampleCrops := by constructor <;> decide +kernel
example : GhWF 48 exampleGh := by constructor <;> decide +kernel
example : (0 : ℚ) ≤ ghTotal exampleGh ∧ 0 ≤ exampleGh.areaMultiplier ∧ exampleGh.areaMultiplier ≤ 1 := by decide +kernel

/-- a floor-like map on ℚ satisfies the hypotheses of `C09_truncation_not_homogeneous` -/
example : ∃ tr : ℚ → ℚ, tr (2 / 5) = 0 ∧ tr 4 = 4 := ⟨fun x => if x < 1 then 0 else x, by norm_num, by norm_num⟩

/-- month 45 of the example (greenhouses fully built, no relocation): production is grown × (1 − 19/143) × 0.8 -/
example : productionSpec (fun x _ => x) exampleCrops (ghFractionSpec exampleGh) 45
    = noRelocSpec exampleCrops 45 * (1 - 19 / 143) * (1 - 20 / 100) := by
  decide +kernel

end Allfed.C09
