import AllfedModel.Model.Supply
import Mathlib.Algebra.Order.Field.Basic
import Mathlib.Algebra.Order.Field.Rat
import Mathlib.Tactic.Linarith
import Mathlib.Tactic.Ring
import Mathlib.Tactic.FieldSimp
import Mathlib.Tactic.NormNum
import Mathlib.Tactic.Positivity
import Mathlib.Tactic.IntervalCases
/-!
# Helper lemmas and proofs for properties C08 and C09 (supply series)

Everything is proved over an arbitrary linearly ordered field `K`, for every horizon `n`.
The pattern: each code-shaped series of `Model/Supply.lean` is shown to be
`(List.range n).map spec` for its closed-form `spec`; sign, monotonicity, cap and homogeneity
are then pointwise facts about `spec`.
-/
namespace Allfed.Proofs.Supply
open Allfed Allfed.Supply

set_option linter.unusedSectionVars false
set_option linter.unusedVariables false

/-! ## lists -/

theorem getElem?_range_ite (n i : Nat) : (List.range n)[i]? = if i < n then some i else none := by
  split_ifs with h
  · exact List.getElem?_range h
  · exact List.getElem?_eq_none (by simpa using h)

theorem getElem?_map_range {β : Type} (f : Nat → β) (n i : Nat) :
    ((List.range n).map f)[i]? = if i < n then some (f i) else none := by
  rw [List.getElem?_map, getElem?_range_ite]
  split_ifs <;> rfl

/-- a list is determined by its entries: the form in which all refinement theorems are proved -/
theorem eq_map_range {β : Type} (l : List β) (n : Nat) (f : Nat → β)
    (h : ∀ i, l[i]? = if i < n then some (f i) else none) : l = (List.range n).map f := by
  apply List.ext_getElem?
  intro i
  rw [h i, getElem?_map_range]

theorem length_of_getElem? {β : Type} (l : List β) (n : Nat) (f : Nat → β)
    (h : ∀ i, l[i]? = if i < n then some (f i) else none) : l.length = n := by
  rw [eq_map_range l n f h]; simp

theorem mapE_ok {β γ : Type} (f : β → Except String γ) (g : β → γ) (l : List β)
    (h : ∀ x ∈ l, f x = .ok (g x)) : mapE f l = .ok (l.map g) := by
  induction l with
  | nil => rfl
  | cons x t ih =>
    have hx := h x (by simp)
    have ht := ih (fun y hy => h y (by simp [hy]))
    simp only [mapE, hx, ht, List.map_cons]

theorem length_flatMap_blocks {β : Type} (bl : Nat → List β) (n : Nat) (hlen : ∀ k, (bl k).length = n) (m : Nat) :
    ((List.range m).flatMap bl).length = m * n := by
  induction m with
  | zero => simp
  | succ m ih =>
    rw [List.range_succ, List.flatMap_append, List.length_append, ih]
    simp [hlen, Nat.succ_mul]

/-- concatenation of `m` blocks of equal length `n`: entry `i` is entry `i % n` of block `i / n` -/
theorem getElem?_flatMap_blocks {β : Type} (bl : Nat → List β) (n : Nat) (hlen : ∀ k, (bl k).length = n)
    (m i : Nat) :
    ((List.range m).flatMap bl)[i]? = if i < m * n then (bl (i / n))[i % n]? else none := by
  induction m with
  | zero => simp
  | succ m ih =>
    rw [List.range_succ, List.flatMap_append, List.getElem?_append, length_flatMap_blocks bl n hlen m]
    by_cases h1 : i < m * n
    · have h2 : i < (m + 1) * n := by rw [Nat.succ_mul]; omega
      rw [if_pos h1, ih, if_pos h1, if_pos h2]
    · rw [if_neg h1]
      simp only [List.flatMap_cons, List.flatMap_nil, List.append_nil]
      by_cases h2 : i < (m + 1) * n
      · rw [if_pos h2]
        have hd : i / n = m := Nat.div_eq_of_lt_le (Nat.le_of_not_lt h1) h2
        have hm : i % n = i - m * n := by
          have := Nat.div_add_mod i n
          rw [hd] at this
          have h3 : n * m = m * n := Nat.mul_comm n m
          omega
        rw [hd, hm]
      · rw [if_neg h2]
        apply List.getElem?_eq_none
        rw [hlen, Nat.succ_mul] at *
        omega

theorem getElem?_flatMap_replicate {β : Type} (f : Nat → β) (n m i : Nat) :
    ((List.range m).flatMap fun k => List.replicate n (f k))[i]? =
      if i < m * n then some (f (i / n)) else none := by
  rw [getElem?_flatMap_blocks (fun k => List.replicate n (f k)) n (fun k => by simp) m i]
  split_ifs with h
  · rw [List.getElem?_replicate, if_pos]
    apply Nat.mod_lt
    rcases Nat.eq_zero_or_pos n with h0 | h0
    · subst h0; simp at h
    · exact h0
  · rfl


/-! ## numbers -/

variable {K : Type} [Field K] [LinearOrder K] [IsStrictOrderedRing K]

theorem sci_100 : (100.0 : K) = 100 := by norm_num
theorem sci_12 : (12.0 : K) = 12 := by norm_num

/-! ## `linspace` -/

theorem linspace_const (a : K) (n : Nat) : linspace a a n = List.replicate n a := by
  apply List.ext_getElem?
  intro i
  unfold linspace
  rw [getElem?_map_range, List.getElem?_replicate]
  split_ifs <;> simp

theorem getElem?_linspace (a b : K) (n i : Nat) (hn : 2 ≤ n) :
    (linspace a b n)[i]? = if i < n then some ((i : K) * ((b - a) / ((n - 1 : Nat) : K)) + a) else none := by
  unfold linspace
  rw [getElem?_map_range]
  split_ifs with h1 h2 h3
  · have hn1 : ((n - 1 : Nat) : K) ≠ 0 := by
      have : 0 < n - 1 := by omega
      exact_mod_cast this.ne'
    have hi : (i : K) = ((n - 1 : Nat) : K) := by
      have : i = n - 1 := by omega
      rw [this]
    rw [hi]; congr 1; field_simp; ring
  · rfl
  · omega
  · rfl

theorem getElem?_linspaceOpen (a b : K) (n i : Nat) :
    (linspaceOpen a b n)[i]? = if i < n then some ((i : K) * ((b - a) / (n : K)) + a) else none := by
  unfold linspaceOpen
  rw [getElem?_map_range]

/-! ## outdoor crops: reductions and calendar -/

theorem allMonthsReductions_eq (y1 : K) (r : Nat → K) :
    allMonthsReductions y1 r =
      List.replicate 8 y1 ++ ((List.range 8).flatMap fun k => List.replicate 12 (r (k + 1)))
        ++ List.replicate 16 (r 9) := by
  unfold allMonthsReductions
  simp only [linspace_const, List.dropLast_replicate]

/-- model year of month `i` for the crops: 0 for May–December, then twelve months each, year 10 to the end -/
theorem getElem?_allMonthsReductions (y1 : K) (r : Nat → K) (i : Nat) :
    (allMonthsReductions y1 r)[i]? =
      if i < 120 then some (if i < 8 then y1 else r (Nat.min 9 (1 + (i - 8) / 12))) else none := by
  rw [allMonthsReductions_eq, List.getElem?_append, List.length_append, List.length_replicate,
    length_flatMap_blocks _ 12 (fun k => by simp), List.getElem?_append, List.length_replicate,
    List.getElem?_replicate, getElem?_flatMap_replicate, List.getElem?_replicate]
  by_cases h8 : i < 8
  · have : i < 8 + 8 * 12 := by omega
    have h120 : i < 120 := by omega
    simp [h8, this, h120]
  · by_cases h104 : i < 8 + 8 * 12
    · have h120 : i < 120 := by omega
      have h96 : i - 8 < 8 * 12 := by omega
      have hq : (i - 8) / 12 + 1 = Nat.min 9 (1 + (i - 8) / 12) := by
        have : (i - 8) / 12 ≤ 7 := by omega
        simp only [Nat.min_def]; split_ifs <;> omega
      simp [h8, h104, h120, h96, hq]
    · by_cases h120 : i < 120
      · have h16 : i - (8 + 8 * 12) < 16 := by omega
        have hq : Nat.min 9 (1 + (i - 8) / 12) = 9 := by
          have : 8 ≤ (i - 8) / 12 := by omega
          simp only [Nat.min_def]; split_ifs <;> omega
        simp [h8, h104, h120, h16, hq]
      · have h16 : ¬ i - (8 + 8 * 12) < 16 := by omega
        simp [h104, h120, h16]

theorem length_allMonthsReductions (y1 : K) (r : Nat → K) : (allMonthsReductions y1 r).length = 120 :=
  length_of_getElem? _ 120 _ (getElem?_allMonthsReductions y1 r)

/-- rotation of a twelve-month cycle: entry `j` of `l.drop m ++ l.take m` is entry `(m + j) % 12` of `l` -/
theorem getD_rotate {β : Type} (l : List β) (d : β) (m j : Nat) (hl : l.length = 12) (hm : m ≤ 12) (hj : j < 12) :
    (l.drop m ++ l.take m).getD j d = l.getD ((m + j) % 12) d := by
  rw [List.getD_eq_getElem?_getD, List.getD_eq_getElem?_getD, List.getElem?_append, List.length_drop, hl]
  by_cases h : j < 12 - m
  · rw [if_pos h, List.getElem?_drop, Nat.mod_eq_of_lt (by omega)]
  · rw [if_neg h, List.getElem?_take, if_pos (by omega)]
    have : (m + j) % 12 = j - (12 - m) := by
      have h1 : m + j = 12 + (j - (12 - m)) := by omega
      rw [h1, Nat.add_mod_left, Nat.mod_eq_of_lt (by omega)]
    rw [this]


/-! ## lists given as `map f (range n)` -/

theorem take_map_range {β : Type} (f : Nat → β) (n h : Nat) :
    ((List.range n).map f).take h = (List.range (Nat.min h n)).map f := by
  apply List.ext_getElem?; intro i
  rw [List.getElem?_take, getElem?_map_range, getElem?_map_range]
  simp only [Nat.min_def]
  split_ifs <;> first | rfl | omega

theorem drop_map_range {β : Type} (f : Nat → β) (n h : Nat) :
    ((List.range n).map f).drop h = (List.range (n - h)).map fun i => f (h + i) := by
  apply List.ext_getElem?; intro i
  rw [List.getElem?_drop, getElem?_map_range, getElem?_map_range]
  split_ifs <;> first | rfl | omega

theorem zipWith_map_range {β γ δ : Type} (g : β → γ → δ) (a : Nat → β) (b : Nat → γ) (n : Nat) :
    List.zipWith g ((List.range n).map a) ((List.range n).map b) = (List.range n).map fun i => g (a i) (b i) := by
  apply List.ext_getElem?; intro i
  rw [List.getElem?_zipWith, getElem?_map_range, getElem?_map_range, getElem?_map_range]
  split_ifs <;> rfl

theorem append_map_range {β : Type} (f : Nat → β) (a b : Nat) :
    (List.range a).map f ++ (List.range b).map (fun i => f (a + i)) = (List.range (a + b)).map f := by
  apply List.ext_getElem?; intro i
  rw [List.getElem?_append, getElem?_map_range, getElem?_map_range, getElem?_map_range]
  simp only [List.length_map, List.length_range]
  split_ifs with h1 h2 h3 h4 <;> first | rfl | omega | (congr; omega)

theorem replicate_eq_map_range {β : Type} (a : β) (n : Nat) :
    List.replicate n a = (List.range n).map fun _ => a := by
  apply List.ext_getElem?; intro i
  rw [List.getElem?_replicate, getElem?_map_range]

theorem getD_map_range {β : Type} (f : Nat → β) (n i : Nat) (d : β) (h : i < n) :
    ((List.range n).map f).getD i d = f i := by
  rw [List.getD_eq_getElem?_getD, getElem?_map_range, if_pos h]; rfl

/-! ## sums written as left folds -/

theorem foldl_add_nonneg (l : List K) (a : K) (ha : 0 ≤ a) (h : ∀ x ∈ l, 0 ≤ x) : 0 ≤ l.foldl (· + ·) a := by
  induction l generalizing a with
  | nil => simpa
  | cons x t ih =>
    simp only [List.foldl_cons]
    exact ih _ (add_nonneg ha (h x (by simp))) (fun y hy => h y (by simp [hy]))

theorem lsum_nonneg (l : List K) (h : ∀ x ∈ l, 0 ≤ x) : 0 ≤ lsum l := foldl_add_nonneg l 0 le_rfl h

theorem foldl_add_map_mul (l : List K) (a k : K) :
    (l.map (k * ·)).foldl (· + ·) (k * a) = k * l.foldl (· + ·) a := by
  induction l generalizing a with
  | nil => simp
  | cons x t ih => simp only [List.map_cons, List.foldl_cons, ← mul_add, ih]

theorem lsum_map_mul (l : List K) (k : K) : lsum (l.map (k * ·)) = k * lsum l := by
  have := foldl_add_map_mul l 0 k
  rw [mul_zero] at this
  exact this

/-! ## outdoor crops -/

/-- the assumptions on the real-exponent power `x ** e` (DESIGN §3) -/
structure PowOK (pow : K → K → K) : Prop where
  ge : ∀ x e, 0 ≤ x → x ≤ 1 → 0 < e → e ≤ 1 → x ≤ pow x e
  le_one : ∀ x e, 0 ≤ x → x ≤ 1 → 0 < e → e ≤ 1 → pow x e ≤ 1
  one : ∀ x, pow x 1 = x

/-- inputs of the crop series in the well-formed range; every clause is a guard of the code
    (`assert`, index or division) or the sign of a physical quantity -/
structure CropWF (c : CropIn K) : Prop where
  start : 1 ≤ c.startMonth ∧ c.startMonth ≤ 12
  season_len : c.season.length = 12
  ratios_len : c.ratios.length = 10
  season_nonneg : ∀ s ∈ c.season, 0 ≤ s
  season_sum : (lsum (c.season.take 12) < 1.001 ∧ 0.999 < lsum (c.season.take 12)) ∨ lsum (c.season.take 12) = 0
  hb_le : harvestBeforeMay c.country c.season ≤ 1
  baseline : 0 ≤ c.baseline
  ratios : ∀ r ∈ c.ratios, -(5e-9) < r
  r1 : ratioAt c.ratios 0 < 101
  exponent : c.relocation = true → 0 < c.exponent ∧ c.exponent ≤ 1
  horizon : c.nmonths ≤ 120
  ramp : 1 < c.ratioArea → c.yearsToReach * 12 ≠ c.harvestDuration ∧
    ¬ (c.harvestDuration < c.yearsToReach * 12 ∧ c.nmonths < c.yearsToReach * 12)

theorem annualYield_nonneg (b : K) (hb : 0 ≤ b) : 0 ≤ annualYield b := by
  unfold annualYield seedPercent
  apply mul_nonneg hb
  norm_num

theorem harvestBeforeMay_nonneg (country : String) (season : List K) (h : ∀ s ∈ season, 0 ≤ s) :
    0 ≤ harvestBeforeMay country season := by
  unfold harvestBeforeMay
  split_ifs <;> first | exact zero_le_one | exact le_rfl | skip
  exact lsum_nonneg _ (fun x hx => h x (List.mem_of_mem_take hx))

theorem year1Spec_nonneg (r1 : K) (season : List K) (country : String)
    (hb1 : harvestBeforeMay country season ≤ 1) : 0 ≤ year1Spec r1 season country := by
  unfold year1Spec
  simp only
  split_ifs with h1 h2 h3 h4 h5 <;> first | exact le_rfl | exact zero_le_one | skip
  · exact absurd h2 (lt_irrefl _)
  · have : 0 < 1 - harvestBeforeMay country season := by
      have : (0.25 : K) = 1 / 4 := by norm_num
      rw [this] at h5; linarith
    exact div_nonneg (le_of_lt h4) this.le

theorem year1Ratio_ok (r1 : K) (season : List K) (country : String) (hr : r1 < 101)
    (hb0 : 0 ≤ harvestBeforeMay country season) (hb1 : harvestBeforeMay country season ≤ 1) :
    year1Ratio r1 season country = .ok (year1Spec r1 season country) := by
  unfold year1Ratio year1Spec
  have h101 : (101.0 : K) = 101 := by norm_num
  have hlt : (if r1 < 0 then (0 : K) else r1) < 101.0 := by
    rw [h101]; split_ifs <;> linarith
  have ha0 : (0 : K) ≤ 1 - harvestBeforeMay country season := by linarith
  have ha1 : 1 - harvestBeforeMay country season ≤ (1 : K) := by linarith
  simp only [hlt, not_true_eq_false, if_false, ha0, ha1]
  split_ifs <;> rfl

theorem clampTiny_ok (x : K) (h : -(5e-9) < x) : clampTiny x = .ok (if x ≤ 0 then 0 else x) := by
  unfold clampTiny
  by_cases hx : x ≤ 0
  · simp [hx, h]
  · have : 0 ≤ x := le_of_lt (not_le.mp hx)
    simp [hx, this]

theorem eps_pos : (0 : K) < 5e-9 := by norm_num

theorem monthSpec_nonneg (c : CropIn K) (i : Nat) (hs : ∀ s ∈ c.season, 0 ≤ s) (hb : 0 ≤ c.baseline) :
    0 ≤ monthSpec c i := by
  unfold monthSpec
  have h0 : 0 ≤ c.season.getD ((c.startMonth - 1 + i) % 12) 0 := by
    rw [List.getD_eq_getElem?_getD]
    cases hg : c.season[(c.startMonth - 1 + i) % 12]? with
    | none => simp
    | some v => simpa using hs v (List.mem_of_getElem? hg)
  have h1 := annualYield_nonneg c.baseline hb
  have h2 : (0 : K) ≤ 4e6 := by norm_num
  have h3 : (0 : K) < 1e9 := by norm_num
  exact div_nonneg (mul_nonneg (mul_nonneg h0 h1) h2) h3.le

/-- the rotated cycle: entry `i mod 12` is the calendar month `(start − 1 + i) mod 12` -/
theorem cycle_getD (c : CropIn K) (i : Nat) (hl : c.season.length = 12)
    (hst : 1 ≤ c.startMonth ∧ c.startMonth ≤ 12) :
    (monthsCycle c.startMonth c.baseline c.season).getD (i % 12) 0 = monthSpec c i := by
  unfold monthsCycle monthSpec
  have hjl : (monthsFromJanuary c.baseline c.season).length = 12 := by
    unfold monthsFromJanuary; simp [hl]
  simp only
  rw [getD_rotate _ 0 (c.startMonth - 1) (i % 12) hjl (by omega) (Nat.mod_lt _ (by norm_num))]
  have hm : (c.startMonth - 1 + i % 12) % 12 = (c.startMonth - 1 + i) % 12 := by omega
  rw [hm]
  unfold monthsFromJanuary
  rw [List.getD_eq_getElem?_getD, List.getD_eq_getElem?_getD, List.getElem?_map, List.getElem?_take,
    if_pos (Nat.mod_lt _ (by norm_num))]
  cases c.season[(c.startMonth - 1 + i) % 12]? with
  | none => simp
  | some v => simp

theorem reductions_getElem? (c : CropIn K) (i : Nat) (hi : i < 120) :
    (allMonthsReductions (year1Spec (ratioAt c.ratios 0) c.season c.country) (ratioAt c.ratios))[i]?
      = some (ratioYearRaw c i) := by
  rw [getElem?_allMonthsReductions, if_pos hi]
  rfl

theorem ratioAt_gt (c : CropIn K) (w : CropWF c) (k : Nat) : -(5e-9) < ratioAt c.ratios k := by
  unfold ratioAt
  rw [List.getD_eq_getElem?_getD]
  cases hg : c.ratios[k]? with
  | none =>
    have := eps_pos (K := K)
    simp only [Option.getD_none]; linarith
  | some v => simpa using w.ratios v (List.mem_of_getElem? hg)

theorem ratioYearRaw_gt (c : CropIn K) (w : CropWF c) (i : Nat) : -(5e-9) < ratioYearRaw c i := by
  unfold ratioYearRaw
  split_ifs
  · have := year1Spec_nonneg (ratioAt c.ratios 0) c.season c.country w.hb_le
    have := eps_pos (K := K)
    linarith
  · exact ratioAt_gt c w _

theorem ratioYearSpec_nonneg (c : CropIn K) (i : Nat) : 0 ≤ ratioYearSpec c i := by
  unfold ratioYearSpec
  split_ifs with h
  · exact le_rfl
  · exact le_of_lt (not_le.mp h)

theorem expSpec_range (c : CropIn K) (w : CropWF c) : 0 < expSpec c ∧ expSpec c ≤ 1 := by
  unfold expSpec
  split_ifs with h
  · exact w.exponent h
  · exact ⟨zero_lt_one, le_rfl⟩

/-- relocation never lowers the response: `x ≤ relocGain x` for `0 ≤ x` -/
theorem le_relocGain (pow : K → K → K) (hp : PowOK pow) (e x : K) (he : 0 < e ∧ e ≤ 1) (hx : 0 ≤ x) :
    x ≤ relocGain pow e x := by
  unfold relocGain
  split_ifs with h
  · exact le_rfl
  · exact hp.ge x e hx (not_lt.mp h) he.1 he.2

theorem relocGain_nonneg (pow : K → K → K) (hp : PowOK pow) (e x : K) (he : 0 < e ∧ e ≤ 1) (hx : 0 ≤ x) :
    0 ≤ relocGain pow e x := le_trans hx (le_relocGain pow hp e x he hx)

theorem monthGrown_ok (pow : K → K → K) (hp : PowOK pow) (c : CropIn K) (w : CropWF c) (i : Nat) (hi : i < 120) :
    monthGrown pow (monthsCycle c.startMonth c.baseline c.season)
        (allMonthsReductions (year1Spec (ratioAt c.ratios 0) c.season c.country) (ratioAt c.ratios))
        (expSpec c) i
      = .ok (monthSpec c i * relocGain pow (expSpec c) (ratioYearSpec c i), monthSpec c i * ratioYearSpec c i) := by
  unfold monthGrown
  rw [reductions_getElem? c i hi, cycle_getD c i w.season_len w.start]
  have hc : clampTiny (ratioYearRaw c i) = .ok (ratioYearSpec c i) := clampTiny_ok _ (ratioYearRaw_gt c w i)
  simp only
  rw [hc]
  have hm := monthSpec_nonneg c i w.season_nonneg w.baseline
  have hr := ratioYearSpec_nonneg c i
  have hg := le_relocGain pow hp (expSpec c) (ratioYearSpec c i) (expSpec_range c w) hr
  have hle : monthSpec c i * ratioYearSpec c i ≤ monthSpec c i * relocGain pow (expSpec c) (ratioYearSpec c i) :=
    mul_le_mul_of_nonneg_left hg hm
  have heq : (if 1 < ratioYearSpec c i then monthSpec c i * ratioYearSpec c i
      else monthSpec c i * pow (ratioYearSpec c i) (expSpec c))
      = monthSpec c i * relocGain pow (expSpec c) (ratioYearSpec c i) := by
    unfold relocGain; split_ifs <;> rfl
  show (if monthSpec c i * ratioYearSpec c i ≤ (if 1 < ratioYearSpec c i then monthSpec c i * ratioYearSpec c i
      else monthSpec c i * pow (ratioYearSpec c i) (expSpec c)) then _ else _) = _
  rw [heq, if_pos hle]


theorem assignReduction_ok (pow : K → K → K) (hp : PowOK pow) (c : CropIn K) (w : CropWF c) :
    assignReduction pow c.nmonths (monthsCycle c.startMonth c.baseline c.season)
        (allMonthsReductions (year1Spec (ratioAt c.ratios 0) c.season c.country) (ratioAt c.ratios)) (expSpec c)
      = .ok ((List.range c.nmonths).map (fun i => monthSpec c i * relocGain pow (expSpec c) (ratioYearSpec c i)),
             (List.range c.nmonths).map (noRelocSpec c)) := by
  unfold assignReduction
  rw [mapE_ok _ (fun i => (monthSpec c i * relocGain pow (expSpec c) (ratioYearSpec c i),
      monthSpec c i * ratioYearSpec c i)) _
    (fun i hi => monthGrown_ok pow hp c w i (by have := List.mem_range.mp hi; have := w.horizon; omega))]
  simp only [List.map_map]
  rfl

/-! ### the cropland-expansion ramp (a loop writing into an array) -/

theorem length_foldl_set {β : Type} (f : Nat → β) (l : List β) (is : List Nat) :
    (is.foldl (fun l i => l.set i (f i)) l).length = l.length := by
  induction is generalizing l with
  | nil => rfl
  | cons i t ih => simp only [List.foldl_cons, ih, List.length_set]

theorem getElem?_foldl_set {β : Type} (f : Nat → β) (l : List β) (a k j : Nat) :
    ((List.range' a k).foldl (fun l i => l.set i (f i)) l)[j]? =
      if a ≤ j ∧ j < a + k ∧ j < l.length then some (f j) else l[j]? := by
  induction k with
  | zero =>
    have : ¬ (a ≤ j ∧ j < a + 0 ∧ j < l.length) := by omega
    rw [if_neg this]
    rfl
  | succ k ih =>
    rw [List.range'_concat, List.foldl_append]
    simp only [List.foldl_cons, List.foldl_nil, Nat.one_mul]
    rw [List.getElem?_set, length_foldl_set]
    by_cases hj : a + k = j
    · subst hj
      by_cases hl : a + k < l.length
      · have : a ≤ a + k ∧ a + k < a + (k + 1) ∧ a + k < l.length := ⟨by omega, by omega, hl⟩
        simp [hl, this]
      · have h1 : ¬ (a ≤ a + k ∧ a + k < a + (k + 1) ∧ a + k < l.length) := by omega
        have h2 : l[a + k]? = none := List.getElem?_eq_none (by omega)
        simp [hl]
    · rw [if_neg hj, ih]
      by_cases h1 : a ≤ j ∧ j < a + k ∧ j < l.length
      · have h2 : a ≤ j ∧ j < a + (k + 1) ∧ j < l.length := by omega
        rw [if_pos h1, if_pos h2]
      · have h2 : ¬ (a ≤ j ∧ j < a + (k + 1) ∧ j < l.length) := by omega
        rw [if_neg h1, if_neg h2]

/-- closed form of the ramp array -/
def rampFn (N total : Nat) (maxv : K) (i : Nat) : K :=
  if total ≤ i then maxv
  else if N ≤ i then 1 + ((i - N : Nat) : K) * ((maxv - 1) / ((total : K) - (N : K))) else 1

theorem areaRamp_ok (n N total : Nat) (maxv : K) (h1 : total ≠ N) (h2 : ¬ (N < total ∧ n < total)) :
    areaRamp n N total maxv = .ok ((List.range n).map (rampFn N total maxv)) := by
  unfold areaRamp
  rw [if_neg h1, if_neg h2]
  dsimp only
  congr 1
  apply eq_map_range
  intro j
  rw [List.getElem?_append, List.length_take, length_foldl_set, List.length_replicate, List.getElem?_take,
    getElem?_foldl_set, List.length_replicate, List.getElem?_replicate, List.getElem?_replicate]
  unfold rampFn
  rcases Nat.lt_or_ge j n with hjn | hjn
  · rcases Nat.lt_or_ge j total with hjt | hjt
    · have hmin : j < min total n := lt_min hjt hjn
      have hnt : ¬ total ≤ j := by omega
      rw [if_pos hmin, if_pos hjt, if_pos hjn, if_pos hjn, if_neg hnt]
      by_cases hN : N ≤ j
      · have h3 : N ≤ j ∧ j < N + (total - N) ∧ j < n := by omega
        rw [if_pos h3, if_pos hN]
      · have h3 : ¬ (N ≤ j ∧ j < N + (total - N) ∧ j < n) := by omega
        rw [if_neg h3, if_neg hN]
    · have hm : min total n = total := min_eq_left (by omega)
      have h3 : ¬ j < total := by omega
      have h4 : j - total < n - total := by omega
      rw [hm, if_neg h3, if_pos h4, if_pos hjn, if_pos hjt]
  · have hmin : ¬ j < min total n := by
      intro h; exact absurd (lt_of_lt_of_le h (min_le_right _ _)) (by omega)
    have h4 : ¬ j - min total n < n - total := by
      rcases le_total total n with h | h
      · rw [min_eq_left h]; omega
      · rw [min_eq_right h]; omega
    have h5 : ¬ j < n := by omega
    rw [if_neg hmin, if_neg h4, if_neg h5]

theorem areaRampSpec_eq (c : CropIn K) (i : Nat) :
    areaRampSpec c i = if 1 < c.ratioArea then rampFn c.harvestDuration (c.yearsToReach * 12) c.ratioArea i else 1 := by
  unfold areaRampSpec rampFn
  rfl

/-- `calculate_monthly_production`: both series are the closed forms, month by month -/
theorem monthlyProduction_ok (pow : K → K → K) (hp : PowOK pow) (c : CropIn K) (w : CropWF c) :
    monthlyProduction pow c = .ok
      ⟨monthsCycle c.startMonth c.baseline c.season,
       allMonthsReductions (year1Spec (ratioAt c.ratios 0) c.season c.country) (ratioAt c.ratios),
       expSpec c, (List.range c.nmonths).map (grownSpec pow c), (List.range c.nmonths).map (noRelocSpec c)⟩ := by
  unfold monthlyProduction
  have hsl : ¬ c.season.length < 12 := by rw [w.season_len]; omega
  have hrl : ¬ c.ratios.length < 10 := by rw [w.ratios_len]; omega
  have hsum : (lsum (c.season.take 12) < 1.001 ∧ 0.999 < lsum (c.season.take 12)) ∨
      (lsum (c.season.take 12) ≤ 0 ∧ 0 ≤ lsum (c.season.take 12)) := by
    rcases w.season_sum with h | h
    · exact Or.inl h
    · exact Or.inr ⟨h.le, h.ge⟩
  rw [if_neg hsl, if_neg hrl]
  simp only [hsum, not_true_eq_false, if_false]
  rw [year1Ratio_ok _ _ _ w.r1 (harvestBeforeMay_nonneg _ _ w.season_nonneg) w.hb_le]
  simp only
  have he : (if c.relocation = true then c.exponent else 1) = expSpec c := rfl
  rw [he, assignReduction_ok pow hp c w]
  simp only
  by_cases hr : 1 < c.ratioArea
  · rw [if_pos hr, areaRamp_ok _ _ _ _ (w.ramp hr).1 (w.ramp hr).2]
    simp only
    rw [zipWith_map_range]
    congr 2
    apply List.map_congr_left
    intro i _
    unfold grownSpec
    rw [areaRampSpec_eq, if_pos hr]
  · rw [if_neg hr]
    congr 2
    apply List.map_congr_left
    intro i _
    unfold grownSpec
    rw [areaRampSpec_eq, if_neg hr, mul_one]


/-! ### production net of greenhouse land -/

theorem cropProduction_ok (c : CropIn K) (G R F : Nat → K) :
    cropProduction c ((List.range c.nmonths).map G) ((List.range c.nmonths).map R) ((List.range c.nmonths).map F)
      = (List.range c.nmonths).map fun i =>
          if c.addOutdoor then
            (if c.relocation ∧ c.harvestDuration + c.rotationDelay ≤ i then G i else R i) * (1 - F i)
              * (1 - c.waste / 100.0)
          else 0 := by
  unfold cropProduction
  cases hA : c.addOutdoor
  · simp only [Bool.false_eq_true, if_false, replicate_eq_map_range, List.map_map]
    apply List.map_congr_left; intro i _; simp
  · cases hR : c.relocation
    · simp only [if_true, Bool.false_eq_true, if_false, false_and, List.map_map, zipWith_map_range]
      rfl
    · simp only [if_true, true_and]
      generalize c.harvestDuration + c.rotationDelay = hd
      generalize c.nmonths = n
      rw [take_map_range, take_map_range, drop_map_range, drop_map_range, List.map_map, List.map_map,
        zipWith_map_range, zipWith_map_range]
      rcases Nat.le_total hd n with h | h
      · have hmin : Nat.min hd n = hd := Nat.min_eq_left h
        have hn : n = hd + (n - hd) := by omega
        rw [hmin]
        conv_rhs => rw [hn]
        rw [← append_map_range, List.map_append]
        congr 1
        · rw [List.map_map]; apply List.map_congr_left; intro i hi
          have : ¬ hd ≤ i := by have := List.mem_range.mp hi; omega
          simp [this]
        · rw [List.map_map]; apply List.map_congr_left; intro i hi
          simp
      · have hmin : Nat.min hd n = n := Nat.min_eq_right h
        have h0 : n - hd = 0 := by omega
        rw [hmin, h0]
        simp only [List.range_zero, List.map_nil, List.append_nil, List.map_map]
        apply List.map_congr_left; intro i hi
        have : ¬ hd ≤ i := by have := List.mem_range.mp hi; omega
        simp [this]

/-! ## greenhouses -/

theorem ghAreaList_ok (n delay : Nat) (limit : K) (hn : 42 ≤ n) :
    ghAreaList n n delay limit = (List.range n).map (ghAreaSpec delay limit) := by
  unfold ghAreaList
  rw [linspace_const, linspace_const, linspace_const]
  apply eq_map_range
  intro j
  rw [List.getElem?_take, List.getElem?_append, List.getElem?_append, List.getElem?_append]
  simp only [List.length_append, List.length_replicate, List.getElem?_replicate]
  have hl : (linspace 0 limit 37).length = 37 :=
    length_of_getElem? _ 37 _ (fun i => getElem?_linspace 0 limit 37 i (by norm_num))
  rw [hl, getElem?_linspace 0 limit 37 _ (by norm_num)]
  unfold ghAreaSpec
  have h36 : (((37 - 1 : Nat) : K)) = 36.0 := by norm_num
  rcases Nat.lt_or_ge j n with hjn | hjn
  · rw [if_pos hjn, if_pos hjn]
    rcases Nat.lt_or_ge j (delay + 5) with h5 | h5
    · have h42 : j < delay + 5 + 37 := by omega
      rw [if_pos h42, if_pos h5, if_pos h5]
      rcases Nat.lt_or_ge j delay with hd | hd
      · rw [if_pos hd, if_pos hd]
      · have : j - delay < 5 := by omega
        rw [if_neg (by omega), if_pos this]
    · have hn5 : ¬ j < delay + 5 := by omega
      rcases Nat.lt_or_ge j (delay + 5 + 36) with h41 | h41
      · have h42 : j < delay + 5 + 37 := by omega
        have h37 : j - (delay + 5) < 37 := by omega
        rw [if_pos h42, if_neg hn5, if_pos h37, if_neg hn5, if_pos h41, h36, sub_zero, add_zero]
      · have hn41 : ¬ j < delay + 5 + 36 := by omega
        rcases Nat.lt_or_ge j (delay + 5 + 37) with h42 | h42
        · have h37 : j - (delay + 5) < 37 := by omega
          rw [if_pos h42, if_neg hn5, if_pos h37, if_neg hn5, if_neg hn41, h36]
          congr 1
          have : ((j - (delay + 5) : Nat) : K) = 36 := by
            have : j - (delay + 5) = 36 := by omega
            rw [this]; norm_num
          rw [this]; norm_num
          field_simp
        · have hn42 : ¬ j < delay + 5 + 37 := by omega
          have : j - (delay + 5 + 37) < n - 42 := by omega
          rw [if_neg hn42, if_pos this, if_neg hn5, if_neg hn41]
  · have : ¬ j < n := by omega
    rw [if_neg this, if_neg this]

/-- inputs of the greenhouse series in the well-formed range -/
structure GhWF (n : Nat) (g : GhIn K) : Prop where
  total_nonneg : 0 ≤ ghTotal g
  /-- `assert len(outdoor_crops.KCALS_GROWN) >= 42` -/
  horizon : g.addGreenhouses = true → ¬ noCropland g → 42 ≤ n
  /-- a zero cropland comes from the country's share being zero (otherwise the code asserts) -/
  frac : noCropland g → g.cropAreaFraction = 0

theorem cycle_nonneg (c : CropIn K) (hs : ∀ s ∈ c.season, 0 ≤ s) (hb : 0 ≤ c.baseline) :
    ∀ x ∈ monthsCycle c.startMonth c.baseline c.season, 0 ≤ x := by
  intro x hx
  unfold monthsCycle at hx
  have hj : ∀ y ∈ monthsFromJanuary c.baseline c.season, 0 ≤ y := by
    intro y hy
    unfold monthsFromJanuary at hy
    rcases List.mem_map.mp hy with ⟨s, hs1, rfl⟩
    have h0 := hs s (List.mem_of_mem_take hs1)
    have h1 := annualYield_nonneg c.baseline hb
    have h2 : (0 : K) ≤ 4e6 := by norm_num
    have h3 : (0 : K) < 1e9 := by norm_num
    exact div_nonneg (mul_nonneg (mul_nonneg h0 h1) h2) h3.le
  rcases List.mem_append.mp hx with h | h
  · exact hj x (List.mem_of_mem_drop h)
  · exact hj x (List.mem_of_mem_take h)

theorem ghMonth_ok (pow : K → K → K) (hp : PowOK pow) (c : CropIn K) (w : CropWF c) (monthly : K)
    (hm : 0 ≤ monthly) (i : Nat) (hi : i < 120) :
    ghMonth pow monthly
        (allMonthsReductions (year1Spec (ratioAt c.ratios 0) c.season c.country) (ratioAt c.ratios))
        (expSpec c) i
      = .ok (monthly * relocGain pow (expSpec c) (ratioYearSpec c i)) := by
  unfold ghMonth
  rw [reductions_getElem? c i hi]
  have hc : clampTiny (ratioYearRaw c i) = .ok (ratioYearSpec c i) := clampTiny_ok _ (ratioYearRaw_gt c w i)
  simp only
  rw [hc]
  have hr := ratioYearSpec_nonneg c i
  have hg := le_relocGain pow hp (expSpec c) (ratioYearSpec c i) (expSpec_range c w) hr
  have hle : monthly * ratioYearSpec c i ≤ monthly * relocGain pow (expSpec c) (ratioYearSpec c i) :=
    mul_le_mul_of_nonneg_left hg hm
  have heq : (if 1 < ratioYearSpec c i then monthly * ratioYearSpec c i
      else monthly * pow (ratioYearSpec c i) (expSpec c))
      = monthly * relocGain pow (expSpec c) (ratioYearSpec c i) := by
    unfold relocGain; split_ifs <;> rfl
  show (if monthly * ratioYearSpec c i ≤ (if 1 < ratioYearSpec c i then monthly * ratioYearSpec c i
      else monthly * pow (ratioYearSpec c i) (expSpec c)) then _ else _) = _
  rw [heq, if_pos hle]


/-- the shape of the object `calculate_monthly_production` leaves behind (see `monthlyProduction_ok`) -/
def cropState (pow : K → K → K) (c : CropIn K) : CropState K :=
  ⟨monthsCycle c.startMonth c.baseline c.season,
   allMonthsReductions (year1Spec (ratioAt c.ratios 0) c.season c.country) (ratioAt c.ratios),
   expSpec c, (List.range c.nmonths).map (grownSpec pow c), (List.range c.nmonths).map (noRelocSpec c)⟩

theorem noCropland_iff (g : GhIn K) : noCropland g ↔ ghTotal g = 0 := by
  unfold noCropland
  constructor
  · intro h; exact le_antisymm h.1 h.2
  · intro h; rw [h]; exact ⟨le_rfl, le_rfl⟩

theorem greenhouse_ok (pow : K → K → K) (hp : PowOK pow) (c : CropIn K) (w : CropWF c) (g : GhIn K)
    (wg : GhWF c.nmonths g) (st : Option (CropState K))
    (hst : g.addGreenhouses = true → st = some (cropState pow c)) :
    greenhouse pow c.nmonths g c.waste st = .ok
      ⟨(List.range c.nmonths).map (ghAreaSpec' g), (List.range c.nmonths).map (ghFractionSpec g),
       (List.range c.nmonths).map (ghYieldSpec pow c g), (List.range c.nmonths).map (ghCropsSpec pow c g)⟩ := by
  unfold greenhouse
  have htot : g.globalCropArea * g.cropAreaFraction = ghTotal g := rfl
  simp only [htot]
  by_cases hz : noCropland g
  · have hz' : ghTotal g ≤ 0 ∧ 0 ≤ ghTotal g := hz
    have hf : g.cropAreaFraction ≤ 0 ∧ 0 ≤ g.cropAreaFraction := by rw [wg.frac hz]; exact ⟨le_rfl, le_rfl⟩
    rw [if_pos hz', if_pos hf, replicate_eq_map_range]
    have hcond : ¬ (g.addGreenhouses = true ∧ ¬ noCropland g) := fun h => h.2 hz
    congr 2 <;> (apply List.map_congr_left; intro i _)
    · unfold ghAreaSpec'; rw [if_neg hcond]
    · unfold ghFractionSpec; rw [if_neg hcond]
    · unfold ghYieldSpec; rw [if_neg hcond]
    · unfold ghCropsSpec ghYieldSpec; rw [if_neg hcond, zero_mul]
  · have hz' : ¬ (ghTotal g ≤ 0 ∧ 0 ≤ ghTotal g) := hz
    have hpos : 0 < ghTotal g := lt_of_le_of_ne wg.total_nonneg (fun h => hz ((noCropland_iff g).mpr h.symm))
    rw [if_neg hz']
    cases hadd : g.addGreenhouses
    · simp only [Bool.false_eq_true, if_false, replicate_eq_map_range, List.map_map]
      have hcond : ¬ (g.addGreenhouses = true ∧ ¬ noCropland g) := by rw [hadd]; simp
      congr 2 <;> (apply List.map_congr_left; intro i _)
      · unfold ghAreaSpec'; rw [if_neg hcond]
      · unfold ghFractionSpec; rw [if_neg hcond]; simp
      · unfold ghYieldSpec; rw [if_neg hcond]
      · unfold ghCropsSpec ghYieldSpec; rw [if_neg hcond, zero_mul]
    · have hcond : g.addGreenhouses = true ∧ ¬ noCropland g := ⟨hadd, hz⟩
      have h42 : 42 ≤ c.nmonths := wg.horizon hadd hz
      rw [hst hadd]
      simp only [if_true, cropState, List.length_map, List.length_range]
      have h1 : ¬ c.nmonths < 42 := by omega
      have h2 : ¬ (allMonthsReductions (year1Spec (ratioAt c.ratios 0) c.season c.country)
          (ratioAt c.ratios)).length < c.nmonths := by
        rw [length_allMonthsReductions]; have := w.horizon; omega
      rw [if_neg h1]
      simp only [hpos, not_true_eq_false, if_false, h2]
      have hmon : 0 ≤ lsum (monthsCycle c.startMonth c.baseline c.season) / 12.0 / ghTotal g := by
        apply div_nonneg _ hpos.le
        apply div_nonneg (lsum_nonneg _ (cycle_nonneg c w.season_nonneg w.baseline))
        norm_num
      rw [mapE_ok _ (fun i => lsum (monthsCycle c.startMonth c.baseline c.season) / 12.0 / ghTotal g
          * relocGain pow (expSpec c) (ratioYearSpec c i)) _
        (fun i hi => ghMonth_ok pow hp c w _ hmon i (by have := List.mem_range.mp hi; have := w.horizon; omega))]
      simp only [List.map_map, take_map_range, Nat.min_self, ghAreaList_ok _ _ _ h42, zipWith_map_range]
      congr 2 <;> (apply List.map_congr_left; intro i _)
      · unfold ghAreaSpec' ghLimit; rw [if_pos hcond]
      · unfold ghFractionSpec ghLimit; rw [if_pos hcond]; rfl
      · unfold ghYieldSpec; rw [if_pos hcond]; rfl
      · unfold ghCropsSpec ghYieldSpec ghAreaSpec' ghLimit; rw [if_pos hcond, if_pos hcond]; rfl

/-- **the refinement theorem for crops and greenhouses**: `init_outdoor_crops` followed by
    `init_greenhouse_params` returns, for every horizon, exactly the closed-form series -/
theorem cropsAndGreenhouses_ok (pow : K → K → K) (hp : PowOK pow) (c : CropIn K) (w : CropWF c) (g : GhIn K)
    (wg : GhWF c.nmonths g) (hrun : c.addOutdoor = true ∨ g.addGreenhouses = true) :
    cropsAndGreenhouses pow c g = .ok
      ⟨(List.range c.nmonths).map (grownSpec pow c), (List.range c.nmonths).map (noRelocSpec c),
       ⟨(List.range c.nmonths).map (ghAreaSpec' g), (List.range c.nmonths).map (ghFractionSpec g),
        (List.range c.nmonths).map (ghYieldSpec pow c g), (List.range c.nmonths).map (ghCropsSpec pow c g)⟩,
       (List.range c.nmonths).map (productionSpec pow c (ghFractionSpec g))⟩ := by
  unfold cropsAndGreenhouses
  rw [if_pos hrun, monthlyProduction_ok pow hp c w]
  simp only
  have hg := greenhouse_ok pow hp c w g wg (some (cropState pow c)) (fun _ => rfl)
  unfold cropState at hg
  rw [hg]
  simp only [List.length_map, List.length_range, ne_eq, not_true_eq_false, and_false, if_false]
  rw [cropProduction_ok]
  congr 2


/-- neither outdoor growing nor greenhouses: everything handed on is zero -/
theorem cropsAndGreenhouses_off (pow : K → K → K) (hp : PowOK pow) (c : CropIn K) (w : CropWF c) (g : GhIn K)
    (wg : GhWF c.nmonths g) (h1 : c.addOutdoor = false) (h2 : g.addGreenhouses = false) :
    cropsAndGreenhouses pow c g = .ok
      ⟨[], [],
       ⟨(List.range c.nmonths).map (ghAreaSpec' g), (List.range c.nmonths).map (ghFractionSpec g),
        (List.range c.nmonths).map (ghYieldSpec pow c g), (List.range c.nmonths).map (ghCropsSpec pow c g)⟩,
       (List.range c.nmonths).map (productionSpec pow c (ghFractionSpec g))⟩ := by
  unfold cropsAndGreenhouses
  have hrun : ¬ (c.addOutdoor = true ∨ g.addGreenhouses = true) := by rw [h1, h2]; simp
  rw [if_neg hrun]
  simp only
  rw [greenhouse_ok pow hp c w g wg none (fun h => by rw [h2] at h; exact absurd h (by simp))]
  simp only [h1, Bool.false_eq_true, false_and, if_false]
  congr 2
  unfold cropProduction
  simp only [h1, Bool.false_eq_true, if_false, replicate_eq_map_range, List.map_map]
  apply List.map_congr_left; intro i _
  unfold productionSpec
  simp [h1]

/-! ### pointwise facts about the closed forms: sign, ramps, relocation, expansion, scaling -/

theorem rampFn_ge_one (N total : Nat) (maxv : K) (i : Nat) (hm : 1 ≤ maxv) : 1 ≤ rampFn N total maxv i := by
  unfold rampFn
  split_ifs with h1 h2
  · exact hm
  · have hNt : N < total := by omega
    have hpos : (0 : K) < (total : K) - (N : K) := by
      have : (N : K) < (total : K) := by exact_mod_cast hNt
      linarith
    have h0 : (0 : K) ≤ ((i - N : Nat) : K) := Nat.cast_nonneg _
    have : 0 ≤ ((i - N : Nat) : K) * ((maxv - 1) / ((total : K) - (N : K))) :=
      mul_nonneg h0 (div_nonneg (by linarith) hpos.le)
    linarith
  · exact le_rfl

theorem rampFn_le_max (N total : Nat) (maxv : K) (i : Nat) (hm : 1 ≤ maxv) : rampFn N total maxv i ≤ maxv := by
  unfold rampFn
  split_ifs with h1 h2
  · exact le_rfl
  · have hNt : N < total := by omega
    have hpos : (0 : K) < (total : K) - (N : K) := by
      have : (N : K) < (total : K) := by exact_mod_cast hNt
      linarith
    have hle : ((i - N : Nat) : K) ≤ (total : K) - (N : K) := by
      have h3 : i - N ≤ total - N := by omega
      have h4 : ((i - N : Nat) : K) ≤ ((total - N : Nat) : K) := by exact_mod_cast h3
      rw [Nat.cast_sub hNt.le] at h4
      exact h4
    have : ((i - N : Nat) : K) * ((maxv - 1) / ((total : K) - (N : K))) ≤ maxv - 1 := by
      rw [mul_div_assoc']
      rw [div_le_iff₀ hpos]
      nlinarith
    linarith
  · exact hm

theorem rampFn_mono (N total : Nat) (maxv : K) (i j : Nat) (hij : i ≤ j) (hm : 1 ≤ maxv) :
    rampFn N total maxv i ≤ rampFn N total maxv j := by
  by_cases hj : total ≤ j
  · have : rampFn N total maxv j = maxv := by unfold rampFn; rw [if_pos hj]
    rw [this]; exact rampFn_le_max N total maxv i hm
  · by_cases hi : N ≤ i
    · have hNt : N < total := by omega
      have hpos : (0 : K) < (total : K) - (N : K) := by
        have : (N : K) < (total : K) := by exact_mod_cast hNt
        linarith
      have e1 : rampFn N total maxv i = 1 + ((i - N : Nat) : K) * ((maxv - 1) / ((total : K) - (N : K))) := by
        unfold rampFn; rw [if_neg (by omega), if_pos hi]
      have e2 : rampFn N total maxv j = 1 + ((j - N : Nat) : K) * ((maxv - 1) / ((total : K) - (N : K))) := by
        unfold rampFn; rw [if_neg hj, if_pos (by omega)]
      rw [e1, e2]
      have h3 : ((i - N : Nat) : K) ≤ ((j - N : Nat) : K) := by
        have : i - N ≤ j - N := by omega
        exact_mod_cast this
      have : 0 ≤ (maxv - 1) / ((total : K) - (N : K)) := div_nonneg (by linarith) hpos.le
      nlinarith
    · have : rampFn N total maxv i = 1 := by unfold rampFn; rw [if_neg (by omega), if_neg hi]
      rw [this]; exact rampFn_ge_one N total maxv j hm

theorem areaRampSpec_ge_one (c : CropIn K) (i : Nat) : 1 ≤ areaRampSpec c i := by
  rw [areaRampSpec_eq]
  split_ifs with h
  · exact rampFn_ge_one _ _ _ _ h.le
  · exact le_rfl

theorem ghAreaSpec_nonneg (delay : Nat) (limit : K) (i : Nat) (hl : 0 ≤ limit) : 0 ≤ ghAreaSpec delay limit i := by
  unfold ghAreaSpec
  split_ifs
  · exact le_rfl
  · have : (36.0 : K) = 36 := by norm_num
    rw [this]
    exact mul_nonneg (Nat.cast_nonneg _) (div_nonneg hl (by norm_num))
  · exact hl

theorem ghAreaSpec_le (delay : Nat) (limit : K) (i : Nat) (hl : 0 ≤ limit) : ghAreaSpec delay limit i ≤ limit := by
  unfold ghAreaSpec
  split_ifs with h1 h2
  · exact hl
  · have h36 : (36.0 : K) = 36 := by norm_num
    rw [h36]
    have h3 : ((i - (delay + 5) : Nat) : K) ≤ 36 := by
      have : i - (delay + 5) ≤ 36 := by omega
      exact_mod_cast this
    have : ((i - (delay + 5) : Nat) : K) * (limit / 36) ≤ 36 * (limit / 36) :=
      mul_le_mul_of_nonneg_right h3 (div_nonneg hl (by norm_num))
    have e : (36 : K) * (limit / 36) = limit := by field_simp
    linarith
  · exact le_rfl

theorem ghAreaSpec_zero (delay : Nat) (limit : K) (i : Nat) (h : i < delay + 5) : ghAreaSpec delay limit i = 0 := by
  unfold ghAreaSpec; rw [if_pos h]

theorem ghAreaSpec_mono (delay : Nat) (limit : K) (i j : Nat) (hij : i ≤ j) (hl : 0 ≤ limit) :
    ghAreaSpec delay limit i ≤ ghAreaSpec delay limit j := by
  by_cases hj : j < delay + 5 + 36
  · by_cases hi : i < delay + 5
    · rw [ghAreaSpec_zero delay limit i hi]; exact ghAreaSpec_nonneg delay limit j hl
    · have e1 : ghAreaSpec delay limit i = ((i - (delay + 5) : Nat) : K) * (limit / 36.0) := by
        unfold ghAreaSpec; rw [if_neg hi, if_pos (by omega)]
      have e2 : ghAreaSpec delay limit j = ((j - (delay + 5) : Nat) : K) * (limit / 36.0) := by
        unfold ghAreaSpec; rw [if_neg (by omega), if_pos hj]
      rw [e1, e2]
      have h3 : ((i - (delay + 5) : Nat) : K) ≤ ((j - (delay + 5) : Nat) : K) := by
        have : i - (delay + 5) ≤ j - (delay + 5) := by omega
        exact_mod_cast this
      have h36 : (36.0 : K) = 36 := by norm_num
      rw [h36]
      exact mul_le_mul_of_nonneg_right h3 (div_nonneg hl (by norm_num))
  · have : ghAreaSpec delay limit j = limit := by
      unfold ghAreaSpec; rw [if_neg (by omega), if_neg hj]
    rw [this]; exact ghAreaSpec_le delay limit i hl

theorem ghAreaSpec_full (delay : Nat) (limit : K) (i : Nat) (h : delay + 5 + 36 ≤ i) : ghAreaSpec delay limit i = limit := by
  unfold ghAreaSpec; rw [if_neg (by omega), if_neg (by omega)]

theorem ghLimit_nonneg (g : GhIn K) (ht : 0 ≤ ghTotal g) (hm : 0 ≤ g.areaMultiplier) : 0 ≤ ghLimit g :=
  mul_nonneg ht hm

theorem ghFractionSpec_range (g : GhIn K) (i : Nat) (ht : 0 ≤ ghTotal g) (hm0 : 0 ≤ g.areaMultiplier)
    (hm1 : g.areaMultiplier ≤ 1) : 0 ≤ ghFractionSpec g i ∧ ghFractionSpec g i ≤ 1 := by
  unfold ghFractionSpec
  split_ifs with h
  · have hpos : 0 < ghTotal g := lt_of_le_of_ne ht (fun h0 => h.2 ((noCropland_iff g).mpr h0.symm))
    have hl := ghLimit_nonneg g ht hm0
    constructor
    · exact div_nonneg (ghAreaSpec_nonneg _ _ _ hl) hpos.le
    · rw [div_le_one hpos]
      calc ghAreaSpec g.delay (ghLimit g) i ≤ ghLimit g := ghAreaSpec_le _ _ _ hl
        _ = ghTotal g * g.areaMultiplier := rfl
        _ ≤ ghTotal g * 1 := mul_le_mul_of_nonneg_left hm1 ht
        _ = ghTotal g := mul_one _
  · exact ⟨le_rfl, zero_le_one⟩

theorem wasteFactor_nonneg (w : K) (hw : w ≤ 100) : 0 ≤ 1 - w / 100.0 := by
  rw [sci_100]
  have : w / 100 ≤ 1 := by rw [div_le_one (by norm_num)]; exact hw
  linarith

theorem grownSpec_nonneg (pow : K → K → K) (hp : PowOK pow) (c : CropIn K) (w : CropWF c) (i : Nat) :
    0 ≤ grownSpec pow c i := by
  unfold grownSpec
  exact mul_nonneg (mul_nonneg (monthSpec_nonneg c i w.season_nonneg w.baseline)
    (relocGain_nonneg pow hp _ _ (expSpec_range c w) (ratioYearSpec_nonneg c i)))
    (le_trans zero_le_one (areaRampSpec_ge_one c i))

theorem noRelocSpec_nonneg (c : CropIn K) (w : CropWF c) (i : Nat) : 0 ≤ noRelocSpec c i :=
  mul_nonneg (monthSpec_nonneg c i w.season_nonneg w.baseline) (ratioYearSpec_nonneg c i)

theorem noReloc_le_grown (pow : K → K → K) (hp : PowOK pow) (c : CropIn K) (w : CropWF c) (i : Nat) :
    noRelocSpec c i ≤ grownSpec pow c i := by
  unfold grownSpec noRelocSpec
  have hm := monthSpec_nonneg c i w.season_nonneg w.baseline
  have hr := ratioYearSpec_nonneg c i
  have hg := le_relocGain pow hp (expSpec c) _ (expSpec_range c w) hr
  have ha := areaRampSpec_ge_one c i
  have h1 : monthSpec c i * ratioYearSpec c i ≤ monthSpec c i * relocGain pow (expSpec c) (ratioYearSpec c i) :=
    mul_le_mul_of_nonneg_left hg hm
  have h2 : 0 ≤ monthSpec c i * relocGain pow (expSpec c) (ratioYearSpec c i) :=
    mul_nonneg hm (le_trans hr hg)
  nlinarith

theorem grownEffSpec_nonneg (pow : K → K → K) (hp : PowOK pow) (c : CropIn K) (w : CropWF c) (i : Nat) :
    0 ≤ grownEffSpec pow c i := by
  unfold grownEffSpec
  split_ifs
  · exact grownSpec_nonneg pow hp c w i
  · exact noRelocSpec_nonneg c w i

theorem productionSpec_nonneg (pow : K → K → K) (hp : PowOK pow) (c : CropIn K) (w : CropWF c) (ghf : Nat → K)
    (i : Nat) (hf : ghf i ≤ 1) (hw : c.waste ≤ 100) : 0 ≤ productionSpec pow c ghf i := by
  unfold productionSpec
  split_ifs
  · exact mul_nonneg (mul_nonneg (grownEffSpec_nonneg pow hp c w i) (by linarith)) (wasteFactor_nonneg _ hw)
  · exact le_rfl


/-! ### variants of the inputs: scaled baseline, relocation on/off, expansion on/off -/

def setBaseline (c : CropIn K) (b : K) : CropIn K := { c with baseline := b }
def setRelocation (c : CropIn K) (r : Bool) : CropIn K := { c with relocation := r }
def setRatioArea (c : CropIn K) (a : K) : CropIn K := { c with ratioArea := a }

theorem monthSpec_scale (c : CropIn K) (k : K) (i : Nat) :
    monthSpec (setBaseline c (k * c.baseline)) i = k * monthSpec c i := by
  unfold monthSpec setBaseline annualYield
  simp only
  generalize (4e6 : K) = a1; generalize (1e9 : K) = a2; generalize (seedPercent : K) / 100.0 = a3
  ring

theorem productionSpec_scale (pow : K → K → K) (c : CropIn K) (ghf : Nat → K) (k : K) (i : Nat) :
    productionSpec pow (setBaseline c (k * c.baseline)) ghf i = k * productionSpec pow c ghf i := by
  have hm := monthSpec_scale c k i
  unfold productionSpec grownEffSpec grownSpec noRelocSpec
  have e1 : ratioYearSpec (setBaseline c (k * c.baseline)) i = ratioYearSpec c i := rfl
  have e2 : expSpec (setBaseline c (k * c.baseline)) = expSpec c := rfl
  have e3 : areaRampSpec (setBaseline c (k * c.baseline)) i = areaRampSpec c i := rfl
  rw [hm, e1, e2, e3]
  show (if c.addOutdoor = true then
      (if c.relocation = true ∧ c.harvestDuration + c.rotationDelay ≤ i then _ else _) * _ * (1 - c.waste / 100.0)
    else 0) = _
  generalize (1 - c.waste / 100.0 : K) = a1
  split_ifs <;> ring

theorem monthsFromJanuary_scale (b k : K) (season : List K) :
    monthsFromJanuary (k * b) season = (monthsFromJanuary b season).map (k * ·) := by
  unfold monthsFromJanuary annualYield
  rw [List.map_map]
  apply List.map_congr_left; intro s _
  simp only [Function.comp]
  generalize (4e6 : K) = a1; generalize (1e9 : K) = a2; generalize (seedPercent : K) / 100.0 = a3
  ring

theorem lsum_cycle_scale (sm : Nat) (b k : K) (season : List K) :
    lsum (monthsCycle sm (k * b) season) = k * lsum (monthsCycle sm b season) := by
  unfold monthsCycle
  simp only [monthsFromJanuary_scale, ← List.map_drop, ← List.map_take, ← List.map_append]
  exact lsum_map_mul _ k

theorem ghYieldSpec_scale (pow : K → K → K) (c : CropIn K) (g : GhIn K) (k : K) (i : Nat) :
    ghYieldSpec pow (setBaseline c (k * c.baseline)) g i = k * ghYieldSpec pow c g i := by
  unfold ghYieldSpec
  have e1 : ratioYearSpec (setBaseline c (k * c.baseline)) i = ratioYearSpec c i := rfl
  have e2 : expSpec (setBaseline c (k * c.baseline)) = expSpec c := rfl
  have e3 : monthsCycle (setBaseline c (k * c.baseline)).startMonth (setBaseline c (k * c.baseline)).baseline
      (setBaseline c (k * c.baseline)).season = monthsCycle c.startMonth (k * c.baseline) c.season := rfl
  have e4 : (setBaseline c (k * c.baseline)).waste = c.waste := rfl
  rw [e1, e2, e3, e4, lsum_cycle_scale]
  generalize (1 - c.waste / 100.0 : K) = a1; generalize (1 - g.wasteRetail / 100.0 : K) = a2
  generalize (1 + g.gainPct / 100.0 : K) = a3; generalize (12.0 : K) = a4
  split_ifs <;> ring

theorem ghCropsSpec_scale (pow : K → K → K) (c : CropIn K) (g : GhIn K) (k : K) (i : Nat) :
    ghCropsSpec pow (setBaseline c (k * c.baseline)) g i = k * ghCropsSpec pow c g i := by
  unfold ghCropsSpec
  rw [ghYieldSpec_scale]; ring

theorem cropWF_scale (c : CropIn K) (w : CropWF c) (k : K) (hk : 0 ≤ k) : CropWF (setBaseline c (k * c.baseline)) :=
  { start := w.start, season_len := w.season_len, ratios_len := w.ratios_len, season_nonneg := w.season_nonneg,
    season_sum := w.season_sum, hb_le := w.hb_le, baseline := mul_nonneg hk w.baseline, ratios := w.ratios,
    r1 := w.r1, exponent := w.exponent, horizon := w.horizon, ramp := w.ramp }

/-- relocation: from `harvest duration + rotation delay` on the relocated series is used; it is never
    below the plain one -/
theorem relocation_never_lowers (pow : K → K → K) (hp : PowOK pow) (c : CropIn K)
    (w : CropWF (setRelocation c true)) (ghf : Nat → K) (i : Nat) (hf : ghf i ≤ 1) (hw : c.waste ≤ 100) :
    productionSpec pow (setRelocation c false) ghf i ≤ productionSpec pow (setRelocation c true) ghf i := by
  have hm : 0 ≤ monthSpec c i := monthSpec_nonneg (setRelocation c true) i w.season_nonneg w.baseline
  have hr : 0 ≤ ratioYearSpec c i := ratioYearSpec_nonneg c i
  have hle := noReloc_le_grown pow hp (setRelocation c true) w i
  have hwf := wasteFactor_nonneg c.waste hw
  have h1f : 0 ≤ 1 - ghf i := by linarith
  unfold productionSpec grownEffSpec
  show (if c.addOutdoor = true then
      (if false = true ∧ c.harvestDuration + c.rotationDelay ≤ i then grownSpec pow (setRelocation c false) i
        else noRelocSpec (setRelocation c false) i) * (1 - ghf i) * (1 - c.waste / 100.0) else 0)
    ≤ (if c.addOutdoor = true then
      (if true = true ∧ c.harvestDuration + c.rotationDelay ≤ i then grownSpec pow (setRelocation c true) i
        else noRelocSpec (setRelocation c true) i) * (1 - ghf i) * (1 - c.waste / 100.0) else 0)
  have e : noRelocSpec (setRelocation c false) i = noRelocSpec (setRelocation c true) i := rfl
  have hfalse : ¬ (false = true ∧ c.harvestDuration + c.rotationDelay ≤ i) := by simp
  rw [if_neg hfalse, e]
  by_cases h1 : c.addOutdoor = true
  · rw [if_pos h1, if_pos h1]
    by_cases h3 : c.harvestDuration + c.rotationDelay ≤ i
    · rw [if_pos ⟨rfl, h3⟩]
      exact mul_le_mul_of_nonneg_right (mul_le_mul_of_nonneg_right hle h1f) hwf
    · rw [if_neg (fun h => h3 h.2)]
  · rw [if_neg h1, if_neg h1]

/-- cropland expansion multiplies the relocated series by a ramp that is at least one -/
theorem expansion_never_lowers (pow : K → K → K) (hp : PowOK pow) (c : CropIn K) (w : CropWF c)
    (ghf : Nat → K) (i : Nat) (hf : ghf i ≤ 1) (hw : c.waste ≤ 100) :
    productionSpec pow (setRatioArea c 1) ghf i ≤ productionSpec pow c ghf i := by
  have hm : 0 ≤ monthSpec c i := monthSpec_nonneg c i w.season_nonneg w.baseline
  have hr : 0 ≤ ratioYearSpec c i := ratioYearSpec_nonneg c i
  have hg := relocGain_nonneg pow hp (expSpec c) _ (expSpec_range c w) hr
  have ha := areaRampSpec_ge_one c i
  have hwf := wasteFactor_nonneg c.waste hw
  have h1f : 0 ≤ 1 - ghf i := by linarith
  have ea : areaRampSpec (setRatioArea c 1) i = 1 := by
    rw [areaRampSpec_eq]; unfold setRatioArea; simp
  have eg : grownSpec pow (setRatioArea c 1) i = monthSpec c i * relocGain pow (expSpec c) (ratioYearSpec c i) := by
    unfold grownSpec; rw [ea, mul_one]; rfl
  have hgg : grownSpec pow (setRatioArea c 1) i ≤ grownSpec pow c i := by
    rw [eg]; unfold grownSpec
    have : 0 ≤ monthSpec c i * relocGain pow (expSpec c) (ratioYearSpec c i) := mul_nonneg hm hg
    nlinarith
  unfold productionSpec grownEffSpec
  show (if c.addOutdoor = true then
      (if c.relocation = true ∧ c.harvestDuration + c.rotationDelay ≤ i then grownSpec pow (setRatioArea c 1) i
        else noRelocSpec (setRatioArea c 1) i) * (1 - ghf i) * (1 - c.waste / 100.0) else 0) ≤ _
  have e : noRelocSpec (setRatioArea c 1) i = noRelocSpec c i := rfl
  split_ifs with h1 h2
  · exact mul_le_mul_of_nonneg_right (mul_le_mul_of_nonneg_right hgg h1f) hwf
  · rw [e]
  · exact le_rfl


/-! ## fish -/

theorem eq_map_getD {β : Type} (l : List β) (d : β) : l = (List.range l.length).map fun i => l.getD i d := by
  apply List.ext_getElem?; intro i
  rw [getElem?_map_range]
  split_ifs with h
  · rw [List.getD_eq_getElem?_getD, List.getElem?_eq_getElem h]; rfl
  · exact List.getElem?_eq_none (by omega)

theorem fishSeries_ok (add : Bool) (n : Nat) (annual wd wr : K) (pct : List K) :
    fishSeries add n annual wd wr pct
      = (List.range (Nat.min n pct.length)).map (fishSpec add annual wd wr fun i => pct.getD i 0) := by
  unfold fishSeries fishSpec fishKcalsMonthly
  conv_lhs => rw [eq_map_getD pct 0]
  rw [take_map_range]
  cases add
  · simp only [Bool.false_eq_true, if_false, List.map_map]
    apply List.map_congr_left; intro i _; rfl
  · simp only [if_true, List.map_map]
    apply List.map_congr_left; intro i _; rfl

theorem fishSpec_nonneg (add : Bool) (annual wd wr : K) (pct : Nat → K) (i : Nat) (ha : 0 ≤ annual)
    (hp : 0 ≤ pct i) (hwd : wd ≤ 100) (hwr : wr ≤ 100) : 0 ≤ fishSpec add annual wd wr pct i := by
  unfold fishSpec
  split_ifs
  · have h1 := wasteFactor_nonneg wd hwd
    have h2 := wasteFactor_nonneg wr hwr
    have h3 : (0 : K) ≤ 4e6 := by norm_num
    have h4 : (0 : K) ≤ 1e9 := by norm_num
    have h5 : (0 : K) ≤ 12.0 := by norm_num
    have h6 : (0 : K) ≤ 100.0 := by norm_num
    exact mul_nonneg (div_nonneg hp h6)
      (div_nonneg (div_nonneg (mul_nonneg (mul_nonneg ha (mul_nonneg h1 h2)) h3) h4) h5)
  · exact le_rfl

theorem fishSpec_scale (add : Bool) (annual wd wr k : K) (pct : Nat → K) (i : Nat) :
    fishSpec add (k * annual) wd wr pct i = k * fishSpec add annual wd wr pct i := by
  unfold fishSpec
  generalize (1 - wd / 100.0 : K) = a1; generalize (1 - wr / 100.0 : K) = a2
  generalize (4e6 : K) = a3; generalize (1e9 : K) = a4; generalize (12.0 : K) = a5; generalize (100.0 : K) = a6
  split_ifs <;> ring

theorem yearlyFish_length : (yearlyFishReduction : List K).length = 16 := rfl

theorem fishPercentNW_ok : (fishPercentNW : List K) = (List.range 192).map fishPercentNWSpec := by
  apply eq_map_range
  intro i
  unfold fishPercentNW fishPercentNWSpec
  simp only [yearlyFish_length]
  rw [List.getElem?_map, List.getElem?_append,
    length_flatMap_blocks _ 12 (fun k => length_of_getElem? _ 12 _ (getElem?_linspaceOpen _ _ 12)),
    getElem?_flatMap_blocks _ 12 (fun k => length_of_getElem? _ 12 _ (getElem?_linspaceOpen _ _ 12)),
    List.getElem?_replicate, getElem?_linspaceOpen]
  have h15 : (yearlyFishReduction : List K).getD (16 - 1) 0 = 0 := by
    unfold yearlyFishReduction; rfl
  rcases Nat.lt_or_ge i 180 with h | h
  · have h1 : i < (16 - 1) * 12 := by omega
    have h2 : i % 12 < 12 := Nat.mod_lt _ (by norm_num)
    have h3 : i < 192 := by omega
    rw [if_pos h1, if_pos h1, if_pos h2, if_pos h3, if_pos h]
    rfl
  · have h1 : ¬ i < (16 - 1) * 12 := by omega
    rw [if_neg h1]
    rcases Nat.lt_or_ge i 192 with h3 | h3
    · have : i - (16 - 1) * 12 < 12 := by omega
      rw [if_pos this, if_pos h3, h15, if_neg (by omega)]; rfl
    · have : ¬ i - (16 - 1) * 12 < 12 := by omega
      rw [if_neg this, if_neg (by omega)]; rfl

/-! ## feed and biofuel demand -/

theorem demandSeries_ok (n d : Nat) (annual : K) (ha : 0 ≤ annual) (hd : d ≤ n) :
    demandSeries n d annual = .ok ((List.range n).map (demandSpec d annual)) := by
  unfold demandSeries
  have hm : ¬ demandMonthly annual < 0 := by
    unfold demandMonthly
    have h1 : (0 : K) ≤ 12.0 := by norm_num
    have h2 : (0 : K) ≤ 4e6 := by norm_num
    have h3 : (0 : K) ≤ 1e9 := by norm_num
    exact not_lt.mpr (div_nonneg (mul_nonneg (div_nonneg ha h1) h2) h3)
  rw [if_neg hm]
  congr 1
  have hn : n = d + (n - d) := by omega
  conv_rhs => rw [hn]
  rw [← append_map_range, replicate_eq_map_range, replicate_eq_map_range]
  congr 1
  · apply List.map_congr_left; intro i hi
    unfold demandSpec demandMonthly; rw [if_pos (List.mem_range.mp hi)]
  · apply List.map_congr_left; intro i hi
    unfold demandSpec; rw [if_neg (by omega)]

/-- the shape outside `duration ≤ NMONTHS`: the list is as long as the duration -/
theorem demandSeries_length (n d : Nat) (annual : K) (l : List K) (h : demandSeries n d annual = .ok l) :
    l.length = d + (n - d) := by
  unfold demandSeries at h
  split_ifs at h
  injection h with h; rw [← h]; simp

theorem demandSpec_nonneg (d : Nat) (annual : K) (i : Nat) (ha : 0 ≤ annual) : 0 ≤ demandSpec d annual i := by
  unfold demandSpec
  split_ifs
  · have h1 : (0 : K) ≤ 12.0 := by norm_num
    have h2 : (0 : K) ≤ 4e6 := by norm_num
    have h3 : (0 : K) ≤ 1e9 := by norm_num
    exact div_nonneg (mul_nonneg (div_nonneg ha h1) h2) h3
  · exact le_rfl

theorem demandSpec_scale (d : Nat) (annual k : K) (i : Nat) : demandSpec d (k * annual) i = k * demandSpec d annual i := by
  unfold demandSpec
  generalize (4e6 : K) = a3; generalize (1e9 : K) = a4; generalize (12.0 : K) = a5
  split_ifs <;> ring

theorem demandSpec_zero_after (d : Nat) (annual : K) (i : Nat) (h : d ≤ i) : demandSpec d annual i = 0 := by
  unfold demandSpec; rw [if_neg (by omega)]


/-! ## methane SCP and cellulosic sugar: delay, then steps -/

theorem getElem?_replicate_append {β : Type} (n : Nat) (a : β) (l : List β) (j : Nat) :
    (List.replicate n a ++ l)[j]? = if j < n then some a else l[j - n]? := by
  rw [List.getElem?_append, List.length_replicate, List.getElem?_replicate]
  split_ifs <;> rfl

/-- the 31 months of steps between the delay and the plateau -/
def scpHead : List Nat :=
  List.replicate 12 0 ++ List.replicate 5 2 ++ [4] ++ List.replicate 5 7 ++ [9] ++ List.replicate 6 11 ++ [13]

theorem scpHead_get (k : Nat) (hk : k < 31) : scpHead[k]? = some (scpStep k) := by
  interval_cases k <;> rfl

theorem scpPercentList_eq (d : Nat) :
    scpPercentList d = List.replicate d 0 ++ (List.replicate d 0 ++ (scpHead ++ List.replicate 1000 15)) := by
  unfold scpPercentList scpHead
  simp only [List.append_assoc]

theorem getElem?_scpPercentList (d j : Nat) :
    (scpPercentList d)[j]? = if j < 2 * d + 1031 then some (if j < 2 * d then 0 else scpStep (j - 2 * d)) else none := by
  rw [scpPercentList_eq, getElem?_replicate_append, getElem?_replicate_append, List.getElem?_append,
    List.getElem?_replicate]
  have hl : scpHead.length = 31 := rfl
  rw [hl]
  rcases Nat.lt_or_ge j d with h1 | h1
  · rw [if_pos h1, if_pos (by omega), if_pos (by omega)]
  · rw [if_neg (by omega)]
    rcases Nat.lt_or_ge (j - d) d with h2 | h2
    · rw [if_pos h2, if_pos (by omega), if_pos (by omega)]
    · rw [if_neg (by omega)]
      have hj : j - d - d = j - 2 * d := by omega
      rw [hj]
      rcases Nat.lt_or_ge (j - 2 * d) 31 with h3 | h3
      · rw [if_pos h3, scpHead_get _ h3, if_pos (by omega), if_neg (by omega)]
      · rw [if_neg (by omega)]
        rcases Nat.lt_or_ge j (2 * d + 1031) with h4 | h4
        · have h5 : j - 2 * d - 31 < 1000 := by omega
          have h6 : scpStep (j - 2 * d) = 15 := by
            unfold scpStep; split_ifs <;> omega
          rw [if_pos h5, if_pos h4, if_neg (by omega), h6]
        · rw [if_neg (by omega), if_neg (by omega)]

theorem scpSeries_ok (add : Bool) (n d : Nat) (slope gp km fr wd : K) (hn : n ≤ 2 * d + 1031) :
    scpSeries add n d slope gp km fr wd = (List.range n).map (scpSpec add d slope gp km fr wd) := by
  unfold scpSeries scpSpec
  cases add
  · simp only [Bool.false_eq_true, if_false]
    exact replicate_eq_map_range _ _
  · simp only [if_true]
    apply eq_map_range
    intro j
    rw [List.getElem?_take, List.getElem?_map, getElem?_scpPercentList]
    split_ifs <;> first | rfl | omega

theorem scpStep_mono (i j : Nat) (h : i ≤ j) : scpStep i ≤ scpStep j := by
  unfold scpStep
  split_ifs <;> omega

theorem scpStep_le (i : Nat) : scpStep i ≤ 15 := by
  unfold scpStep
  split_ifs <;> omega

/-- the level of the schedule, in percent of global needs -/
def scpLevel (d i : Nat) : Nat := if i < 2 * d then 0 else scpStep (i - 2 * d)

/-- the constant that turns a percentage of global needs into billion kcals for this country -/
def industrialFactor (slope gp km fr wd : K) : K :=
  1 / (1 - 0.12) * slope / 100.0 * (gp * km / 1e9) * fr * (1 - wd / 100.0)

theorem industrialFactor_nonneg (slope gp km fr wd : K) (h1 : 0 ≤ slope) (h2 : 0 ≤ gp) (h3 : 0 ≤ km) (h4 : 0 ≤ fr)
    (h5 : wd ≤ 100) : 0 ≤ industrialFactor slope gp km fr wd := by
  unfold industrialFactor
  have a1 : (0 : K) ≤ 1 / (1 - 0.12) := by norm_num
  have a2 : (0 : K) ≤ 100.0 := by norm_num
  have a3 : (0 : K) ≤ 1e9 := by norm_num
  exact mul_nonneg (mul_nonneg (mul_nonneg (div_nonneg (mul_nonneg a1 h1) a2)
    (div_nonneg (mul_nonneg h2 h3) a3)) h4) (wasteFactor_nonneg wd h5)

theorem scpSpec_eq (d : Nat) (slope gp km fr wd : K) (i : Nat) :
    scpSpec true d slope gp km fr wd i = (scpLevel d i : K) * industrialFactor slope gp km fr wd := by
  unfold scpSpec scpLevel industrialFactor
  simp only [if_true]
  generalize (1 - 0.12 : K) = a1; generalize (100.0 : K) = a2; generalize (1e9 : K) = a3
  generalize (1 - wd / a2 : K) = a4
  ring

theorem scpLevel_mono (d i j : Nat) (h : i ≤ j) : scpLevel d i ≤ scpLevel d j := by
  unfold scpLevel
  split_ifs with h1 h2
  · exact le_rfl
  · exact Nat.zero_le _
  · omega
  · exact scpStep_mono _ _ (by omega)

theorem scpLevel_zero (d i : Nat) (h : i < 2 * d + 12) : scpLevel d i = 0 := by
  unfold scpLevel scpStep
  split_ifs <;> first | rfl | omega

theorem scpLevel_le (d i : Nat) : scpLevel d i ≤ 15 := by
  unfold scpLevel
  split_ifs
  · omega
  · exact scpStep_le _

theorem scpSpec_off (d : Nat) (slope gp km fr wd : K) (i : Nat) : scpSpec false d slope gp km fr wd i = 0 := by
  unfold scpSpec; simp

theorem getElem?_csPercentList (d j : Nat) :
    (csPercentList d : List K)[j]? = if j < d + 1008 then some (if j < d then 0 else csStep (j - d)) else none := by
  unfold csPercentList csStep
  simp only [List.append_assoc, getElem?_replicate_append, List.getElem?_replicate]
  split_ifs <;> first | rfl | omega

theorem csSeries_ok (add : Bool) (n d : Nat) (slope gp km fr wd : K) (hn : n ≤ d + 1008) :
    csSeries add n d slope gp km fr wd = (List.range n).map (csSpec add d slope gp km fr wd) := by
  unfold csSeries csSpec
  cases add
  · simp only [Bool.false_eq_true, if_false, replicate_eq_map_range, take_map_range, Nat.min_self]
  · simp only [if_true]
    apply eq_map_range
    intro j
    rw [List.getElem?_take, List.getElem?_map, getElem?_csPercentList]
    split_ifs <;> first | rfl | omega

def csLevel (d i : Nat) : K := if i < d then 0 else csStep (i - d)

theorem csStep_nonneg (i : Nat) : (0 : K) ≤ csStep i := by
  unfold csStep; split_ifs <;> norm_num

theorem csStep_mono (i j : Nat) (h : i ≤ j) : (csStep i : K) ≤ csStep j := by
  unfold csStep
  split_ifs <;> first | exact le_rfl | (exfalso; omega) | norm_num

theorem csStep_le (i : Nat) : (csStep i : K) ≤ 9.5 := by
  unfold csStep; split_ifs <;> norm_num

theorem csLevel_mono (d i j : Nat) (h : i ≤ j) : (csLevel d i : K) ≤ csLevel d j := by
  unfold csLevel
  split_ifs with h1 h2
  · exact le_rfl
  · exact csStep_nonneg _
  · omega
  · exact csStep_mono _ _ (by omega)

theorem csLevel_zero (d i : Nat) (h : i < d + 5) : (csLevel d i : K) = 0 := by
  unfold csLevel csStep
  split_ifs <;> first | rfl | (exfalso; omega) | norm_num

theorem csLevel_nonneg (d i : Nat) : (0 : K) ≤ csLevel d i := by
  unfold csLevel; split_ifs
  · exact le_rfl
  · exact csStep_nonneg _

theorem csLevel_le (d i : Nat) : (csLevel d i : K) ≤ 9.5 := by
  unfold csLevel; split_ifs
  · norm_num
  · exact csStep_le _

theorem csSpec_eq (d : Nat) (slope gp km fr wd : K) (i : Nat) :
    csSpec true d slope gp km fr wd i = csLevel d i * industrialFactor slope gp km fr wd := by
  unfold csSpec csLevel industrialFactor
  simp only [if_true]
  generalize (1 - 0.12 : K) = a1; generalize (100.0 : K) = a2; generalize (1e9 : K) = a3
  generalize (1 - wd / a2 : K) = a4
  ring

theorem csSpec_off (d : Nat) (slope gp km fr wd : K) (i : Nat) : csSpec false d slope gp km fr wd i = 0 := by
  unfold csSpec; simp


/-! ## seaweed -/

/-- `linspace(init, (n−1)·step + init, n)[k] = k·step + init` -/
theorem getElem?_linspace_arith (init step : K) (n k : Nat) :
    (linspace init (((n - 1 : Nat) : K) * step + init) n)[k]? = if k < n then some ((k : K) * step + init) else none := by
  rcases Nat.lt_or_ge n 2 with hn | hn
  · unfold linspace
    rw [getElem?_map_range]
    have h2 : ¬ 1 < n := by omega
    simp only [h2, if_false]
    split_ifs with h1
    · have hk : k = 0 := by omega
      subst hk; simp
    · rfl
  · rw [getElem?_linspace _ _ _ _ hn]
    split_ifs with h
    · congr 1
      have hn1 : ((n - 1 : Nat) : K) ≠ 0 := by
        have : 0 < n - 1 := by omega
        exact_mod_cast this.ne'
      field_simp
      ring
    · rfl

theorem seaweedBuiltArea_ok (add : Bool) (n delay : Nat) (newFrac maxFrac : K) :
    seaweedBuiltArea add n delay newFrac maxFrac
      = (List.range n).map (seaweedAreaSpec add delay newFrac maxFrac) := by
  unfold seaweedBuiltArea seaweedAreaSpec
  apply eq_map_range
  intro j
  simp only
  rw [List.getElem?_take, List.getElem?_map, getElem?_replicate_append, getElem?_linspace_arith]
  generalize (if add = true then delay else 1000) = d
  rcases Nat.lt_or_ge j n with hj | hj
  · rw [if_pos hj, if_pos hj]
    rcases Nat.lt_or_ge j d with hd | hd
    · rw [if_pos hd, if_pos hd]; rfl
    · have h1 : ¬ j < d := by omega
      have h2 : j - d < n := by omega
      rw [if_neg h1, if_pos h2, if_neg h1]; rfl
  · have h1 : ¬ j < n := by omega
    rw [if_neg h1, if_neg h1]

/-- the uncapped area -/
def seaweedRaw (d : Nat) (newFrac : K) (i : Nat) : K :=
  if i < d then seaweedInitBuilt newFrac else ((i - d : Nat) : K) * seaweedNewPerMonth newFrac + seaweedInitBuilt newFrac

theorem seaweedAreaSpec_eq (add : Bool) (delay : Nat) (newFrac maxFrac : K) (i : Nat) :
    seaweedAreaSpec add delay newFrac maxFrac i
      = min (seaweedMaxArea maxFrac) (seaweedRaw (if add then delay else 1000) newFrac i) := by
  unfold seaweedAreaSpec seaweedRaw
  simp only
  split_ifs with h1 h2 h3 h4 <;> first
    | exact (min_eq_left (le_of_lt (by assumption))).symm
    | exact (min_eq_right (not_lt.mp (by assumption))).symm

theorem seaweedNewPerMonth_nonneg (newFrac : K) (h : 0 ≤ newFrac) : 0 ≤ seaweedNewPerMonth newFrac := by
  unfold seaweedNewPerMonth
  exact mul_nonneg (by norm_num) h

theorem seaweedRaw_mono (d : Nat) (newFrac : K) (i j : Nat) (hij : i ≤ j) (h : 0 ≤ newFrac) :
    seaweedRaw d newFrac i ≤ seaweedRaw d newFrac j := by
  have hs := seaweedNewPerMonth_nonneg newFrac h
  unfold seaweedRaw
  split_ifs with h1 h2
  · exact le_rfl
  · have : 0 ≤ ((j - d : Nat) : K) * seaweedNewPerMonth newFrac := mul_nonneg (Nat.cast_nonneg _) hs
    linarith
  · omega
  · have h3 : ((i - d : Nat) : K) ≤ ((j - d : Nat) : K) := by
      have : i - d ≤ j - d := by omega
      exact_mod_cast this
    nlinarith

theorem seaweedRaw_before (d : Nat) (newFrac : K) (i : Nat) (h : i ≤ d) : seaweedRaw d newFrac i = seaweedInitBuilt newFrac := by
  unfold seaweedRaw
  split_ifs with h1
  · rfl
  · have : i - d = 0 := by omega
    rw [this]; simp

theorem npow_eq_pow (x : K) (n : Nat) : npow x n = x ^ n := by
  induction n with
  | zero => simp [npow]
  | succ n ih => rw [npow, ih, pow_succ]

theorem growthFactor_eq (p : K) : growthFactor p = 100 * (p / 100 + 1) ^ 30 := by
  unfold growthFactor
  rw [npow_eq_pow, sci_100]

theorem growthFactor_ge (p : K) (hp : 0 ≤ p) : 100 ≤ growthFactor p := by
  rw [growthFactor_eq]
  have h1 : (1 : K) ≤ p / 100 + 1 := by
    have : 0 ≤ p / 100 := div_nonneg hp (by norm_num)
    linarith
  have h2 : (1 : K) ≤ (p / 100 + 1) ^ 30 := one_le_pow₀ h1
  linarith

/-- the columns may come in any order: the result is the list sorted by the integer key -/
theorem seaweedGrowth_ok (cols sorted : List (Int × K)) (hperm : cols.Perm sorted)
    (hs : sorted.Pairwise (fun a b => a.1 ≤ b.1))
    (hinj : ∀ a ∈ sorted, ∀ b ∈ sorted, a.1 = b.1 → a = b) :
    seaweedGrowth cols = sorted.map fun c => 100 * (c.2 / 100 + 1) ^ 30 := by
  unfold seaweedGrowth
  have hms : (cols.mergeSort fun a b => decide (a.1 ≤ b.1)) = sorted := by
    apply List.Perm.eq_of_pairwise (le := fun a b => a.1 ≤ b.1)
    · intro a b ha hb h1 h2
      have ha' : a ∈ sorted := hperm.mem_iff.mp ((List.mergeSort_perm _ _).mem_iff.mp ha)
      exact hinj a ha' b hb (le_antisymm h1 h2)
    · have := List.pairwise_mergeSort (le := fun (a b : Int × K) => decide (a.1 ≤ b.1))
        (fun a b c h1 h2 => by simp only [decide_eq_true_eq] at *; exact le_trans h1 h2)
        (fun a b => by simp only [Bool.or_eq_true, decide_eq_true_eq]; exact le_total _ _) cols
      simpa using this
    · exact hs
    · exact (List.mergeSort_perm _ _).trans hperm
  rw [hms]
  apply List.map_congr_left; intro c _
  exact growthFactor_eq c.2

theorem seaweedGrowth_length (cols : List (Int × K)) : (seaweedGrowth cols).length = cols.length := by
  unfold seaweedGrowth
  rw [List.length_map, List.length_mergeSort]

/-! ## stored food -/

theorem storedFood_ok (sm : Nat) (stocks : List K) (unt pct wd : K) (h1 : 1 ≤ sm ∧ sm ≤ 12)
    (h2 : stocks.length = 12) (h3 : unt ≤ pct / 100.0)
    (h4 : 0 ≤ stocks.getD ((sm + 10) % 12) 0 * (pct / 100.0) - listMin stocks * unt) :
    storedFood sm stocks unt pct wd = .ok (storedFoodSpec sm stocks unt pct wd) := by
  unfold storedFood storedFoodSpec
  have hidx : (if sm = 1 then 11 else sm - 2) = (sm + 10) % 12 := by
    split_ifs <;> omega
  simp only [h1, h2, h3, hidx, h4, not_true_eq_false, if_false, ne_eq, and_self]

theorem storedFoodSpec_nonneg (sm : Nat) (stocks : List K) (unt pct wd : K)
    (h4 : 0 ≤ stocks.getD ((sm + 10) % 12) 0 * (pct / 100.0) - listMin stocks * unt) (hw : wd ≤ 100) :
    0 ≤ storedFoodSpec sm stocks unt pct wd := by
  unfold storedFoodSpec
  have a1 : (0 : K) ≤ 4e6 := by norm_num
  have a2 : (0 : K) ≤ 1e9 := by norm_num
  exact mul_nonneg (div_nonneg (mul_nonneg h4 a1) a2) (wasteFactor_nonneg wd hw)

theorem pmin_scale (k a b : K) (hk : 0 ≤ k) : pmin (k * a) (k * b) = k * pmin a b := by
  unfold pmin
  by_cases h : b < a
  · rcases eq_or_lt_of_le hk with h0 | h0
    · subst h0; simp
    · rw [if_pos (mul_lt_mul_of_pos_left h h0), if_pos h]
  · have : ¬ k * b < k * a := not_lt.mpr (mul_le_mul_of_nonneg_left (not_lt.mp h) hk)
    rw [if_neg this, if_neg h]

theorem foldl_pmin_scale (k : K) (hk : 0 ≤ k) (l : List K) (a : K) :
    (l.map (k * ·)).foldl pmin (k * a) = k * l.foldl pmin a := by
  induction l generalizing a with
  | nil => rfl
  | cons x t ih => simp only [List.map_cons, List.foldl_cons, pmin_scale k a x hk, ih]

theorem listMin_scale (k : K) (hk : 0 ≤ k) (l : List K) : listMin (l.map (k * ·)) = k * listMin l := by
  cases l with
  | nil => simp [listMin]
  | cons x t => simp only [List.map_cons, listMin, foldl_pmin_scale k hk]

theorem storedFoodSpec_scale (sm : Nat) (stocks : List K) (unt pct wd k : K) (hk : 0 ≤ k) :
    storedFoodSpec sm (stocks.map (k * ·)) unt pct wd = k * storedFoodSpec sm stocks unt pct wd := by
  unfold storedFoodSpec
  rw [listMin_scale k hk]
  have : (stocks.map (k * ·)).getD ((sm + 10) % 12) 0 = k * stocks.getD ((sm + 10) % 12) 0 := by
    rw [List.getD_eq_getElem?_getD, List.getD_eq_getElem?_getD, List.getElem?_map]
    cases stocks[(sm + 10) % 12]? <;> simp
  rw [this]
  generalize (4e6 : K) = a3; generalize (1e9 : K) = a4; generalize (100.0 : K) = a6
  ring


/-! ## grass: years of 8, 12, …, 12, 16 months -/

theorem foldl_append_flatMap {β γ : Type} (f : γ → List β) (l : List γ) (init : List β) :
    l.foldl (fun acc i => acc ++ f i) init = init ++ l.flatMap f := by
  induction l generalizing init with
  | nil => simp
  | cons x t ih => simp only [List.foldl_cons, ih, List.flatMap_cons, List.append_assoc]

theorem flatMap_congr' {β γ : Type} (f g : γ → List β) (l : List γ) (h : ∀ x ∈ l, f x = g x) :
    l.flatMap f = l.flatMap g := by
  induction l with
  | nil => rfl
  | cons x t ih =>
    simp only [List.flatMap_cons, h x (by simp), ih (fun y hy => h y (by simp [hy]))]

theorem range_split (Y : Nat) (hY : 2 ≤ Y) :
    List.range Y = [0] ++ (List.range (Y - 2)).map (fun k => k + 1) ++ [Y - 1] := by
  apply List.ext_getElem?; intro i
  rw [getElem?_range_ite, List.getElem?_append, List.getElem?_append]
  simp only [List.length_append, List.length_cons, List.length_nil, List.length_map, List.length_range,
    List.getElem?_singleton, getElem?_map_range]
  split_ifs <;> first | rfl | omega | (congr 1 <;> omega)

/-- the loop of `MeatAndDairy.__init__` for a horizon of `Y ≥ 2` whole years -/
theorem grassTons_eq (Y : Nat) (hY : 2 ≤ Y) (base : K) (ratio : Nat → K) :
    grassTons (12 * Y) base ratio =
      List.replicate 8 (ratio 1 * base)
        ++ ((List.range (Y - 2)).flatMap fun k => List.replicate 12 (ratio (k + 2) * base))
        ++ List.replicate 16 (ratio Y * base) := by
  unfold grassTons
  have hdiv : 12 * Y / 12 = Y := by omega
  rw [hdiv, foldl_append_flatMap, List.nil_append, List.range'_eq_map_range, List.flatMap_map, range_split Y hY]
  simp only [List.flatMap_append, List.flatMap_map, List.flatMap_cons, List.flatMap_nil, List.append_nil]
  refine congrArg₂ (· ++ ·) (congrArg₂ (· ++ ·) ?_ ?_) ?_
  · simp
  · apply flatMap_congr'
    intro k hk
    have hk' := List.mem_range.mp hk
    have h3 : 1 + (k + 1) = k + 2 := by omega
    have h1 : ¬ (k + 2 = 1) := by omega
    have h2 : ¬ (12 * (k + 2) = 12 * Y) := by omega
    rw [h3, if_neg h1, if_neg h2]
  · have h3 : 1 + (Y - 1) = Y := by omega
    have h1 : ¬ (Y = 1) := by omega
    rw [h3, if_neg h1, if_pos rfl]

theorem getElem?_grassTons (Y : Nat) (hY : 2 ≤ Y) (base : K) (ratio : Nat → K) (i : Nat) :
    (grassTons (12 * Y) base ratio)[i]? =
      if i < 12 * Y then some (ratio (grassYear Y i + 1) * base) else none := by
  rw [grassTons_eq Y hY, List.getElem?_append, List.length_append, List.length_replicate,
    length_flatMap_blocks _ 12 (fun k => by simp), List.getElem?_append, List.length_replicate,
    List.getElem?_replicate, getElem?_flatMap_replicate, List.getElem?_replicate]
  unfold grassYear
  rcases Nat.lt_or_ge i 8 with h8 | h8
  · have h1 : i < 8 + (Y - 2) * 12 := by omega
    have h2 : i < 12 * Y := by omega
    rw [if_pos h1, if_pos h8, if_pos h8, if_pos h2, if_pos h8]
  · have hn8 : ¬ i < 8 := by omega
    rcases Nat.lt_or_ge i (8 + (Y - 2) * 12) with hm | hm
    · have h2 : i < 12 * Y := by omega
      have h3 : i - 8 < (Y - 2) * 12 := by omega
      have hq : Nat.min (Y - 1) (1 + (i - 8) / 12) + 1 = (i - 8) / 12 + 2 := by
        have : (i - 8) / 12 < Y - 2 := by omega
        simp only [Nat.min_def]; split_ifs <;> omega
      rw [if_pos hm, if_neg hn8, if_pos h3, if_pos h2, if_neg hn8, hq]
    · have hnm : ¬ i < 8 + (Y - 2) * 12 := by omega
      rcases Nat.lt_or_ge i (12 * Y) with h2 | h2
      · have h16 : i - (8 + (Y - 2) * 12) < 16 := by omega
        have hq : Nat.min (Y - 1) (1 + (i - 8) / 12) + 1 = Y := by
          have : Y - 2 ≤ (i - 8) / 12 := by omega
          simp only [Nat.min_def]; split_ifs <;> omega
        rw [if_neg hnm, if_pos h16, if_pos h2, if_neg hn8, hq]
      · have h16 : ¬ i - (8 + (Y - 2) * 12) < 16 := by omega
        rw [if_neg hnm, if_neg h16, if_neg (by omega)]

theorem tonsToKcals_eq : (tonsToKcals : K) = 4000 := by
  unfold tonsToKcals; norm_num

/-- well-formed grass inputs: whole years, at least two, one ratio per year, each within the code's bounds -/
structure GrassWF (n : Nat) (ratios : List K) : Prop where
  years : 12 * (n / 12) = n
  two : 24 ≤ n
  enough : n / 12 ≤ ratios.length
  bounds : ∀ r ∈ ratios.take (n / 12), 0 ≤ r ∧ r ≤ 10000

theorem grassSeries_ok (n : Nat) (base : K) (ratios : List K) (w : GrassWF n ratios) :
    grassSeries n base ratios = .ok ((List.range n).map (grassSpec n base ratios)) := by
  unfold grassSeries
  have h1 : ¬ ratios.length < n / 12 := by have := w.enough; omega
  have h2 : ((ratios.take (n / 12)).any fun r => !(decide (0 ≤ r ∧ r ≤ 10000.0))) = false := by
    rw [List.any_eq_false]
    intro r hr
    have := w.bounds r hr
    have e : (10000.0 : K) = 10000 := by norm_num
    simp [this.1, e, this.2]
  simp only [h1, if_false, h2, Bool.false_eq_true]
  congr 1
  apply eq_map_range
  intro i
  have hY : 2 ≤ n / 12 := by have := w.two; omega
  rw [List.getElem?_map]
  conv_lhs => rw [← w.years]
  rw [getElem?_grassTons (n / 12) hY, w.years]
  split_ifs with h
  · simp only [Option.map_some, grassSpec, tonsToKcals_eq]
    congr 1
    have : (4000.0 : K) = 4000 := by norm_num
    rw [this, Nat.add_sub_cancel]
  · rfl

theorem grassSpec_nonneg (n : Nat) (base : K) (ratios : List K) (i : Nat) (hb : 0 ≤ base) (hr : ∀ r ∈ ratios, 0 ≤ r) :
    0 ≤ grassSpec n base ratios i := by
  unfold grassSpec
  have h0 : 0 ≤ ratios.getD (grassYear (n / 12) i) 0 := by
    rw [List.getD_eq_getElem?_getD]
    cases hg : ratios[grassYear (n / 12) i]? with
    | none => simp
    | some v => simpa using hr v (List.mem_of_getElem? hg)
  exact mul_nonneg (by norm_num) (mul_nonneg h0 hb)

theorem grassSpec_scale (n : Nat) (base k : K) (ratios : List K) (i : Nat) :
    grassSpec n (k * base) ratios i = k * grassSpec n base ratios i := by
  unfold grassSpec
  generalize (4000.0 : K) = a
  ring

/-- outside the supported horizons: `NMONTHS = 12` yields the eight months of year 1 only -/
theorem grassTons_twelve (base : K) (ratio : Nat → K) : grassTons 12 base ratio = List.replicate 8 (ratio 1 * base) := by
  unfold grassTons
  simp


/-! ## list-level corollaries used by the property files -/

theorem cropWF_setRelocation (c : CropIn K) (r : Bool) (w : CropWF c)
    (he : r = true → 0 < c.exponent ∧ c.exponent ≤ 1) : CropWF (setRelocation c r) :=
  { start := w.start, season_len := w.season_len, ratios_len := w.ratios_len, season_nonneg := w.season_nonneg,
    season_sum := w.season_sum, hb_le := w.hb_le, baseline := w.baseline, ratios := w.ratios,
    r1 := w.r1, exponent := he, horizon := w.horizon, ramp := w.ramp }

theorem cropWF_setRatioArea_one (c : CropIn K) (w : CropWF c) : CropWF (setRatioArea c 1) :=
  { start := w.start, season_len := w.season_len, ratios_len := w.ratios_len, season_nonneg := w.season_nonneg,
    season_sum := w.season_sum, hb_le := w.hb_le, baseline := w.baseline, ratios := w.ratios,
    r1 := w.r1, exponent := w.exponent, horizon := w.horizon,
    ramp := fun h => absurd h (lt_irrefl (1 : K)) }

theorem ghYieldSpec_nonneg (pow : K → K → K) (hp : PowOK pow) (c : CropIn K) (w : CropWF c) (g : GhIn K)
    (i : Nat) (ht : 0 ≤ ghTotal g) (hw : c.waste ≤ 100) (hwr : g.wasteRetail ≤ 100) (hg : -100 ≤ g.gainPct) :
    0 ≤ ghYieldSpec pow c g i := by
  unfold ghYieldSpec
  split_ifs with h
  · have hpos : 0 < ghTotal g := lt_of_le_of_ne ht (fun h0 => h.2 ((noCropland_iff g).mpr h0.symm))
    have h1 := wasteFactor_nonneg c.waste hw
    have h2 := wasteFactor_nonneg g.wasteRetail hwr
    have h3 : 0 ≤ lsum (monthsCycle c.startMonth c.baseline c.season) / 12.0 / ghTotal g := by
      apply div_nonneg _ hpos.le
      apply div_nonneg (lsum_nonneg _ (cycle_nonneg c w.season_nonneg w.baseline))
      norm_num
    have h4 := relocGain_nonneg pow hp (expSpec c) _ (expSpec_range c w) (ratioYearSpec_nonneg c i)
    have h5 : 0 ≤ 1 + g.gainPct / 100.0 := by
      rw [sci_100]
      have : -1 ≤ g.gainPct / 100 := by rw [le_div_iff₀ (by norm_num)]; linarith
      linarith
    exact mul_nonneg (mul_nonneg (mul_nonneg (mul_nonneg h1 h2) (mul_nonneg h3 h4)) zero_le_one) h5
  · exact le_rfl

theorem ghAreaSpec'_nonneg (g : GhIn K) (i : Nat) (ht : 0 ≤ ghTotal g) (hm : 0 ≤ g.areaMultiplier) :
    0 ≤ ghAreaSpec' g i := by
  unfold ghAreaSpec'
  split_ifs
  · exact ghAreaSpec_nonneg _ _ _ (ghLimit_nonneg g ht hm)
  · exact le_rfl

theorem ghCropsSpec_nonneg (pow : K → K → K) (hp : PowOK pow) (c : CropIn K) (w : CropWF c) (g : GhIn K)
    (i : Nat) (ht : 0 ≤ ghTotal g) (hm : 0 ≤ g.areaMultiplier) (hw : c.waste ≤ 100) (hwr : g.wasteRetail ≤ 100)
    (hg : -100 ≤ g.gainPct) : 0 ≤ ghCropsSpec pow c g i :=
  mul_nonneg (ghYieldSpec_nonneg pow hp c w g i ht hw hwr hg) (ghAreaSpec'_nonneg g i ht hm)

theorem map_range_scale (f g : Nat → K) (k : K) (n : Nat) (h : ∀ i, f i = k * g i) :
    (List.range n).map f = ((List.range n).map g).map (k * ·) := by
  rw [List.map_map]; apply List.map_congr_left; intro i _; exact h i

end Allfed.Proofs.Supply
