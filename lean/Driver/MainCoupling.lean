import Driver.Loop
import Driver.Ops.Coupling
def main : IO Unit := runDriver Ops.Coupling.ops
