import AllfedModel.Model.Aggregate
import AllfedModel.Proofs.Aggregate
import AllfedModel.Gen.CountryCodes
/-!
# C15 — the aggregate fed fraction is a capped, population-weighted mean of the selection

Property theorems only; helper lemmas live in `Proofs/Aggregate.lean`.  `K` is any linearly ordered
field; selection lists, tables and the per-country outcome function are arbitrary.

What the code really does with the selection list (`get_countries_to_run_and_skip` + the two
`continue` tests), stated by `C15_selection_*` below:
  * `[]` runs every row;
  * a list in which EVERY name contains a '!' runs every row whose code is not one of the names
    with all '!' removed;
  * any other list — pure inclusion lists and MIXED lists alike — runs exactly the rows whose code
    is one of the names without '!'; the names with '!' in a mixed list are ignored altogether
    (`["USA", "!CHN"]` runs USA only; it does not mean "USA, and not CHN");
  * duplicates and unknown codes in the list have no effect.
A country whose run yields NaN is left out of the numerator, of the denominator AND of `results`
(the loop `continue`s before any of the three is touched), so the three stay consistent.
-/
namespace Allfed.C15
open Allfed Allfed.Aggregate Allfed.Gen.CountryCodes

variable {K : Type} [Field K] [LinearOrder K] [IsStrictOrderedRing K]

/-! ## value -/

/-- the fraction derived from a list of `(population, fraction fed)`:
    `Σ pop·min(1, frac) / Σ pop` -/
theorem C15_value (l : List (K × K)) :
    aggregate l = (l.map (fun x => x.1 * min 1 x.2)).sum / (l.map Prod.fst).sum :=
  Proofs.Aggregate.aggregate_value l

/-- the loop of `run_model_no_trade`: `net_pop` and `net_pop_fed` are those two sums over exactly the
    rows that are selected and whose run returned a number (`ran`), so their quotient is the
    aggregate of that list -/
theorem C15_value_loop (l : List String) (table : List (Country K)) (frac : Country K → Option K) :
    (runLoop l table frac).netPop = ((ran l table frac).map Prod.fst).sum ∧
    (runLoop l table frac).netPopFed = ((ran l table frac).map (fun x => x.1 * min 1 x.2)).sum ∧
    (runLoop l table frac).netPopFed / (runLoop l table frac).netPop = aggregate (ran l table frac) :=
  ⟨Proofs.Aggregate.runLoop_netPop l table frac, Proofs.Aggregate.runLoop_netPopFed l table frac,
   Proofs.Aggregate.runLoop_ratio l table frac⟩

/-! ## bounds -/

/-- for positive populations and non-negative fractions the aggregate lies in `[0, 1]`
    (`l ≠ []`: for an empty selection the code does not divide — it reports NaN) -/
theorem C15_bounds (l : List (K × K)) (hne : l ≠ []) (h : ∀ x ∈ l, 0 < x.1 ∧ 0 ≤ x.2) :
    0 ≤ aggregate l ∧ aggregate l ≤ 1 :=
  Proofs.Aggregate.aggregate_bounds l hne h

/-- the cap at work: when every country is fully fed (fractions `≥ 1`, however large) the aggregate is exactly 1 -/
theorem C15_all_fed (l : List (K × K)) (hne : l ≠ []) (h : ∀ x ∈ l, 0 < x.1 ∧ 1 ≤ x.2) :
    aggregate l = 1 :=
  Proofs.Aggregate.aggregate_eq_one_of_all_fed l hne h

/-! ## selection -/

/-- empty list: all rows -/
theorem C15_selection_empty (table : List String) : select [] table = table :=
  Proofs.Aggregate.select_nil table

/-- every name contains a '!': the complement of the stripped names -/
theorem C15_selection_exclusion (l table : List String) (hne : l ≠ []) (h : ∀ c ∈ l, hasBang c = true) (code : String) :
    code ∈ select l table ↔ code ∈ table ∧ ∀ c ∈ l, stripBang c ≠ code :=
  Proofs.Aggregate.mem_select_allBang l table hne h code

/-- the documented syntax `["!A", "!B", …]` (codes themselves free of '!'): exactly the other rows, in table order -/
theorem C15_selection_exclusion_syntax (xs table : List String) (hne : xs ≠ []) (hx : ∀ x ∈ xs, hasBang x = false) :
    select (xs.map ("!" ++ ·)) table = table.filter (fun code => !xs.contains code) :=
  Proofs.Aggregate.select_exclusion xs table hne hx

/-- at least one name without '!' (inclusion and mixed lists): exactly the un-banged names; the banged
    names have no effect at all -/
theorem C15_selection_mixed (l table : List String) (h : ∃ c ∈ l, hasBang c = false) (code : String) :
    code ∈ select l table ↔ code ∈ table ∧ code ∈ l ∧ hasBang code = false :=
  Proofs.Aggregate.mem_select_mixed l table h code

/-- a pure inclusion list runs exactly the named rows, in table order -/
theorem C15_selection_inclusion (xs table : List String) (hne : xs ≠ []) (hx : ∀ x ∈ xs, hasBang x = false) :
    select xs table = table.filter (fun code => xs.contains code) :=
  Proofs.Aggregate.select_inclusion xs table hne hx

/-- in every case the selection is a sub-list of the table (nothing is invented, order kept) -/
theorem C15_selection_sublist (l table : List String) : (select l table).Sublist table :=
  Proofs.Aggregate.select_sublist l table

/-! ## exactly once -/

/-- over a duplicate-free code column each selected code is run exactly once, every other code never -/
theorem C15_once_selected (l table : List String) (hn : table.Nodup) (code : String) :
    (select l table).count code = if code ∈ table ∧ selected (runAndSkip l) code = true then 1 else 0 :=
  Proofs.Aggregate.select_count l table hn code

/-- `results` (keyed by country NAME): with duplicate-free names its keys are exactly the names of the
    rows that were selected and returned a number, in table order … -/
theorem C15_once_keys (l : List String) (table : List (Country K)) (frac : Country K → Option K)
    (hn : (table.map (·.name)).Nodup) :
    (runLoop l table frac).keys = (Proofs.Aggregate.ranRows l table frac).map (·.name) :=
  Proofs.Aggregate.runLoop_keys l table frac hn

/-- … so each such country appears exactly once and no other row appears -/
theorem C15_once (l : List String) (table : List (Country K)) (frac : Country K → Option K)
    (hn : (table.map (·.name)).Nodup) (c : Country K) (hc : c ∈ table) :
    (runLoop l table frac).keys.count c.name =
      if selected (runAndSkip l) c.iso3 = true ∧ (frac c).isSome = true then 1 else 0 :=
  Proofs.Aggregate.runLoop_keys_count l table frac hn c hc

/-- the shipped table (regenerated into `Gen/CountryCodes.lean` on every run) has no duplicate iso3
    code and no duplicate country name, so the hypotheses of `C15_once_*` hold for it -/
theorem C15_table_codes_nodup : countryCodes.Nodup := by decide +kernel

theorem C15_table_names_nodup : countryNames.Nodup := by decide +kernel

theorem C15_table_size : countryCodes.length = 164 ∧ countryNames.length = 164 := by decide +kernel

/-! ## non-vacuity and concrete readings -/

example : select [] ["ARG", "BRA", "CHN"] = ["ARG", "BRA", "CHN"] := by decide +kernel
example : select ["!BRA"] ["ARG", "BRA", "CHN"] = ["ARG", "CHN"] := by decide +kernel
example : select ["CHN", "ARG", "ARG", "XXX"] ["ARG", "BRA", "CHN"] = ["ARG", "CHN"] := by decide +kernel
/-- a mixed list: the banged name is ignored, it does NOT exclude -/
example : select ["ARG", "CHN", "!CHN"] ["ARG", "BRA", "CHN"] = ["ARG", "CHN"] := by decide +kernel
example : select ["ARG", "!BRA"] ["ARG", "BRA", "CHN"] = ["ARG"] := by decide +kernel
/-- '!' anywhere in the name counts, and every '!' is removed -/
example : select ["B!R!A"] ["ARG", "BRA", "CHN"] = ["ARG", "CHN"] := by decide +kernel

/-- two countries: 10 people fed 50 %, 30 people "fed 300 %" → (10·0.5 + 30·1)/40 = 7/8 -/
example : aggregate [((10 : ℚ), (1 / 2 : ℚ)), (30, 3)] = 7 / 8 := by decide +kernel

/-- hypotheses of `C15_bounds` are satisfiable -/
example : ([((10 : ℚ), (1 / 2 : ℚ)), (30, 3)] : List (ℚ × ℚ)) ≠ [] ∧
    ∀ x ∈ ([((10 : ℚ), (1 / 2 : ℚ)), (30, 3)] : List (ℚ × ℚ)), 0 < x.1 ∧ 0 ≤ x.2 := by
  constructor
  · simp
  · intro x hx
    simp only [List.mem_cons, List.mem_nil_iff, or_false] at hx
    rcases hx with rfl | rfl <;> norm_num

/-- without the cap the aggregate would exceed 1 here (what the `min 1` is for) -/
example : ((10 : ℚ) * (1 / 2) + 30 * 3) / 40 > 1 := by norm_num

end Allfed.C15
