import Driver.Wire
import Driver.Ops.Handoff
import Driver.Ops.Units
/-
Line-protocol driver: `lake env lean --run Driver/Main.lean < ops.txt > answers.txt`
-/
open Wire

def allOps : List (String × P String) :=
  Ops.Handoff.ops ++ Ops.Units.ops

def answer (line : String) : String :=
  match (line.splitOn " ").filter (· ≠ "") with
  | [] => "err empty"
  | op :: args =>
    match allOps.lookup op with
    | none => s!"err unknown-op {op}"
    | some p =>
      match Wire.run p args with
      | .ok s => s
      | .error e => "err " ++ encodeStr e

partial def loop (h : IO.FS.Stream) (out : IO.FS.Stream) : IO Unit := do
  let line ← h.getLine
  if line.isEmpty then return ()
  let l := line.trimAscii.toString
  out.putStrLn (answer l)
  loop h out

def main : IO Unit := do
  let i ← IO.getStdin
  let o ← IO.getStdout
  loop i o
  o.flush
