import AllfedModel.Model.Food
import Mathlib.Algebra.Order.Field.Basic
import Mathlib.Algebra.Order.Field.Rat
import Mathlib.Tactic.Linarith
import Mathlib.Tactic.NormNum
/-!
# Helper lemmas and proofs for property C11 (unit labels of food quantities)

The label part is pure list reasoning (no characters); the number type only matters for the
comparison predicates, which are proved over an arbitrary linearly ordered field `K`.
-/
set_option linter.unusedVariables false
set_option linter.unusedSectionVars false
set_option linter.unusedSimpArgs false

namespace Allfed.Proofs.FoodP
open Allfed Allfed.Food

/-! ## guards -/

theorem guard'_ok {β : Type} (c : Bool) (e : Err) (k : Except Err β) (v : β) :
    guard' c e k = .ok v ↔ c = true ∧ k = .ok v := by
  unfold guard'
  cases c <;> simp

theorem guard'_false {β : Type} (c : Bool) (e : Err) (k : Except Err β) (h : c = false) :
    guard' c e k = .error e := by
  unfold guard'; simp [h]

theorem guard'_true {β : Type} (c : Bool) (e : Err) (k : Except Err β) (h : c = true) :
    guard' c e k = k := by
  unfold guard'; simp [h]

theorem guard'_err {β : Type} (c : Bool) (e e' : Err) (k : Except Err β) (h : guard' c e k = .error e') :
    (c = false ∧ e' = e) ∨ (c = true ∧ k = .error e') := by
  unfold guard' at h
  cases c <;> simp_all

/-! ## labels -/

theorem seriesOK_iff (l : Label) :
    l.seriesOK = true ↔ ∃ pre, l.sfx = pre ++ [Suffix.each] ∧ Suffix.each ∉ pre := by
  unfold Label.seriesOK
  constructor
  · intro h
    split at h
    · rename_i rest hr
      rw [List.reverse_eq_cons_iff] at hr
      refine ⟨rest.reverse, hr, ?_⟩
      simpa using h
    · simp at h
  · rintro ⟨pre, h1, h2⟩
    simp [h1, h2]

theorem scalarOK_iff (l : Label) : l.scalarOK = true ↔ Suffix.each ∉ l.sfx := by
  simp [Label.scalarOK, Label.hasEach]

theorem hasEach_of_seriesOK (l : Label) (h : l.seriesOK = true) : l.hasEach = true := by
  obtain ⟨pre, h1, _⟩ := (seriesOK_iff l).1 h
  simp [Label.hasEach, h1]

theorem fixEach_of_hasEach (l : Label) (h : l.hasEach = true) : l.fixEach = l := by
  simp [Label.fixEach, h]

theorem fixEach_of_seriesOK (l : Label) (h : l.seriesOK = true) : l.fixEach = l :=
  fixEach_of_hasEach l (hasEach_of_seriesOK l h)

theorem takeWhile_ne_each (pre : List Suffix) (h : Suffix.each ∉ pre) (t : List Suffix) :
    (pre ++ Suffix.each :: t).takeWhile (fun s => s != Suffix.each) = pre := by
  induction pre with
  | nil => simp
  | cons x xs ih =>
    have hx : x ≠ Suffix.each := fun e => h (by simp [e])
    have hxs : Suffix.each ∉ xs := fun e => h (by simp [e])
    simp [hx, ih hxs]

theorem map_toPer (pre : List Suffix) (h : Suffix.each ∉ pre) : pre.map Suffix.toPer = pre := by
  induction pre with
  | nil => rfl
  | cons x xs ih =>
    have hxs : Suffix.each ∉ xs := fun e => h (by simp [e])
    cases x
    · exact absurd (by simp) h
    · simp [Suffix.toPer, ih hxs]

theorem each_not_mem_map_toPer (l : List Suffix) : Suffix.each ∉ l.map Suffix.toPer := by
  induction l with
  | nil => simp
  | cons x xs ih => cases x <;> simp_all [Suffix.toPer]

/-- `X each month` with the suffix removed is `X` -/
theorem toTotal_of_seriesOK (l : Label) (h : l.seriesOK = true) :
    l.toTotal = ⟨l.base, l.sfx.dropLast⟩ ∧ Suffix.each ∉ l.sfx.dropLast := by
  obtain ⟨pre, h1, h2⟩ := (seriesOK_iff l).1 h
  simp [Label.toTotal, h1, takeWhile_ne_each pre h2 [], h2]

/-- `X each month` becomes `X per month` -/
theorem toElement_of_seriesOK (l : Label) (h : l.seriesOK = true) :
    l.toElement = ⟨l.base, l.sfx.dropLast ++ [Suffix.per]⟩ ∧ Suffix.each ∉ l.sfx.dropLast := by
  obtain ⟨pre, h1, h2⟩ := (seriesOK_iff l).1 h
  simp [Label.toElement, h1, map_toPer pre h2, h2, Suffix.toPer]

theorem scalarOK_toTotal (l : Label) (h : l.seriesOK = true) : l.toTotal.scalarOK = true := by
  have := toTotal_of_seriesOK l h
  rw [scalarOK_iff, this.1]; exact this.2

theorem scalarOK_toElement (l : Label) (h : l.seriesOK = true) : l.toElement.scalarOK = true := by
  have := toElement_of_seriesOK l h
  rw [scalarOK_iff, this.1]
  simp [this.2]

theorem seriesOK_addEach (l : Label) (h : l.scalarOK = true) : l.addEach.seriesOK = true := by
  rw [seriesOK_iff]
  exact ⟨l.sfx, rfl, (scalarOK_iff l).1 h⟩

theorem scalarOK_addPer (l : Label) (h : l.scalarOK = true) : l.addPer.scalarOK = true := by
  rw [scalarOK_iff] at *
  simp [Label.addPer, h]

/-! ## `labelsFor` -/

theorem labelsFor_true_iff (ku fu pu : Label) :
    labelsFor true ku fu pu = true ↔
      ku.seriesOK = true ∧ fu.seriesOK = true ∧ pu.seriesOK = true ∧ ku.sfx = fu.sfx ∧ fu.sfx = pu.sfx := by
  simp [labelsFor, and_assoc]

theorem labelsFor_false_iff (ku fu pu : Label) :
    labelsFor false ku fu pu = true ↔
      ku.scalarOK = true ∧ fu.scalarOK = true ∧ pu.scalarOK = true ∧ ku.sfx = fu.sfx ∧ fu.sfx = pu.sfx := by
  simp [labelsFor, and_assoc]

theorem labelsFor_toTotal (ku fu pu : Label) (h : labelsFor true ku fu pu = true) :
    labelsFor false ku.toTotal fu.toTotal pu.toTotal = true := by
  rw [labelsFor_true_iff] at h
  obtain ⟨h1, h2, h3, h4, h5⟩ := h
  rw [labelsFor_false_iff]
  refine ⟨scalarOK_toTotal _ h1, scalarOK_toTotal _ h2, scalarOK_toTotal _ h3, ?_, ?_⟩
  · simp [Label.toTotal, h4]
  · simp [Label.toTotal, h5]

theorem labelsFor_toElement (ku fu pu : Label) (h : labelsFor true ku fu pu = true) :
    labelsFor false ku.toElement fu.toElement pu.toElement = true := by
  rw [labelsFor_true_iff] at h
  obtain ⟨h1, h2, h3, h4, h5⟩ := h
  rw [labelsFor_false_iff]
  refine ⟨scalarOK_toElement _ h1, scalarOK_toElement _ h2, scalarOK_toElement _ h3, ?_, ?_⟩
  · simp [Label.toElement, h4]
  · simp [Label.toElement, h5]

theorem labelsFor_addEach (ku fu pu : Label) (h : labelsFor false ku fu pu = true) :
    labelsFor true ku.addEach fu.addEach pu.addEach = true := by
  rw [labelsFor_false_iff] at h
  obtain ⟨h1, h2, h3, h4, h5⟩ := h
  rw [labelsFor_true_iff]
  refine ⟨seriesOK_addEach _ h1, seriesOK_addEach _ h2, seriesOK_addEach _ h3, ?_, ?_⟩
  · simp [Label.addEach, h4]
  · simp [Label.addEach, h5]

theorem labelsFor_fixEach (ku fu pu : Label) (h : labelsFor true ku fu pu = true) :
    ku.fixEach = ku ∧ fu.fixEach = fu ∧ pu.fixEach = pu := by
  rw [labelsFor_true_iff] at h
  exact ⟨fixEach_of_seriesOK _ h.1, fixEach_of_seriesOK _ h.2.1, fixEach_of_seriesOK _ h.2.2.1⟩

theorem labelsFor_ratio_each :
    labelsFor true Label.ratio.addEach Label.ratio.addEach Label.ratio.addEach = true := by decide

theorem labelsFor_ratio : labelsFor false Label.ratio Label.ratio Label.ratio = true := by decide

/-! ## the specification as a proposition -/

section
variable {α : Type} [Add α] [Sub α] [Mul α] [Div α] [Neg α] [LE α] [LT α]
  [DecidableLE α] [DecidableLT α] [OfNat α 0] [OfNat α 1] [OfScientific α]

/-- "the unit labels describe the numbers" -/
structure LabelOK (v : FoodVal α) : Prop where
  units : v.units = [v.ku, v.fu, v.pu]
  shape : shapeOK v = true
  labels : labelsFor v.series v.ku v.fu v.pu = true

theorem labelOK_iff (v : FoodVal α) : labelOK v = true ↔ LabelOK v := by
  unfold labelOK
  constructor
  · intro h
    simp only [Bool.and_eq_true, beq_iff_eq] at h
    exact ⟨h.1.1, h.1.2, h.2⟩
  · intro h
    simp only [Bool.and_eq_true, beq_iff_eq]
    exact ⟨⟨h.units, h.shape⟩, h.labels⟩

theorem unitsAgree_iff (v : FoodVal α) : unitsAgree v = true ↔ v.units = [v.ku, v.fu, v.pu] := by
  simp [unitsAgree]

/-- all registers correctly labelled -/
def AllOK (s : State α) : Prop := ∀ v ∈ s, LabelOK v
/-- in all registers the units list agrees with the labels -/
def AllAgree (s : State α) : Prop := ∀ v ∈ s, v.units = [v.ku, v.fu, v.pu]

theorem LabelOK.series_labels {v : FoodVal α} (h : LabelOK v) (hs : v.series = true) :
    labelsFor true v.ku v.fu v.pu = true := by
  have := h.labels; rwa [hs] at this

theorem LabelOK.scalar_labels {v : FoodVal α} (h : LabelOK v) (hs : v.series = false) :
    labelsFor false v.ku v.fu v.pu = true := by
  have := h.labels; rwa [hs] at this

theorem LabelOK.allEach {v : FoodVal α} (h : LabelOK v) (hs : v.series = true) : v.allEach = true := by
  have := (labelsFor_true_iff _ _ _).1 (h.series_labels hs)
  simp [FoodVal.allEach, hasEach_of_seriesOK _ this.1, hasEach_of_seriesOK _ this.2.1, hasEach_of_seriesOK _ this.2.2.1]

theorem LabelOK.noEach {v : FoodVal α} (h : LabelOK v) (hs : v.series = false) : v.noEach = true := by
  have := (labelsFor_false_iff _ _ _).1 (h.scalar_labels hs)
  simp only [Label.scalarOK] at this
  simp [FoodVal.noEach, this.1, this.2.1, this.2.2.1]

theorem LabelOK.lengths {v : FoodVal α} (h : LabelOK v) (hs : v.series = true) :
    0 < v.kcals.length ∧ v.fat.length = v.kcals.length ∧ v.protein.length = v.kcals.length := by
  have := h.shape
  simp only [shapeOK, hs, if_true, Bool.and_eq_true, decide_eq_true_eq, beq_iff_eq] at this
  exact ⟨this.1.1, this.1.2, this.2⟩

theorem LabelOK.validate {v : FoodVal α} (h : LabelOK v) : validate v = true := by
  unfold Food.validate
  cases hs : v.series
  · simp
  · have hl := h.lengths hs
    have he := h.allEach hs
    simp [he, hl.1, hl.2.1, hl.2.2]

/-- quantities with the same units list have the same shape -/
theorem series_eq_of_units_eq {a b : FoodVal α} (ha : LabelOK a) (hb : LabelOK b) (hu : a.units = b.units) :
    a.series = b.series := by
  have hk : a.ku = b.ku := by
    have := hu; rw [ha.units, hb.units] at this
    simp only [List.cons.injEq] at this; exact this.1
  cases hsa : a.series <;> cases hsb : b.series <;> try rfl
  · have h1 := (labelsFor_false_iff _ _ _).1 (ha.scalar_labels hsa)
    have h2 := (labelsFor_true_iff _ _ _).1 (hb.series_labels hsb)
    have := hasEach_of_seriesOK _ h2.1
    rw [← hk] at this
    simp [Label.scalarOK, this] at h1
  · have h1 := (labelsFor_true_iff _ _ _).1 (ha.series_labels hsa)
    have h2 := (labelsFor_false_iff _ _ _).1 (hb.scalar_labels hsb)
    have := hasEach_of_seriesOK _ h1.1
    rw [hk] at this
    simp [Label.scalarOK, this] at h2

/-! ## construction -/

theorem buildScalar_labelOK (k f p : α) (ku fu pu : Label) (h : labelsFor false ku fu pu = true) :
    LabelOK (buildScalar k f p ku fu pu) :=
  ⟨rfl, by simp [shapeOK, buildScalar], h⟩

theorem buildSeries_ok (k f p : List α) (ku fu pu : Label) (v : FoodVal α)
    (h : buildSeries k f p ku fu pu = .ok v) :
    v = { series := true, kcals := k, fat := f, protein := p, ku := ku.fixEach, fu := fu.fixEach, pu := pu.fixEach,
          units := [ku.fixEach, fu.fixEach, pu.fixEach] } ∧
    k.length = f.length ∧ f.length = p.length ∧ 0 < k.length := by
  unfold buildSeries at h
  simp only [guard'_ok, Bool.and_eq_true, beq_iff_eq, decide_eq_true_eq, Except.ok.injEq] at h
  exact ⟨h.2.2.symm, h.1.1, h.1.2, h.2.1⟩

/-- a series built from labels that are right once the missing `each month` is appended -/
theorem buildSeries_labelOK' (k f p : List α) (ku fu pu : Label) (v : FoodVal α)
    (h : buildSeries k f p ku fu pu = .ok v) (hl : labelsFor true ku.fixEach fu.fixEach pu.fixEach = true) :
    LabelOK v ∧ v.series = true ∧ v.ku = ku.fixEach ∧ v.fu = fu.fixEach ∧ v.pu = pu.fixEach ∧
      v.kcals = k ∧ v.fat = f ∧ v.protein = p := by
  obtain ⟨rfl, h1, h2, h3⟩ := buildSeries_ok k f p ku fu pu v h
  refine ⟨⟨rfl, ?_, hl⟩, rfl, rfl, rfl, rfl, rfl, rfl, rfl⟩
  simp [shapeOK, h3, h1.symm, h2.symm]

theorem buildSeries_labelOK (k f p : List α) (ku fu pu : Label) (v : FoodVal α)
    (h : buildSeries k f p ku fu pu = .ok v) (hl : labelsFor true ku fu pu = true) :
    LabelOK v ∧ v.series = true ∧ v.ku = ku ∧ v.fu = fu ∧ v.pu = pu ∧ v.kcals = k ∧ v.fat = f ∧ v.protein = p := by
  obtain ⟨e1, e2, e3⟩ := labelsFor_fixEach ku fu pu hl
  have := buildSeries_labelOK' k f p ku fu pu v h (by rw [e1, e2, e3]; exact hl)
  rw [e1, e2, e3] at this
  exact this

theorem build_labelOK (ser : Bool) (k f p : List α) (ku fu pu : Label) (v : FoodVal α)
    (h : build ser k f p ku fu pu = .ok v) (hl : labelsFor ser ku fu pu = true) :
    LabelOK v ∧ v.series = ser ∧ v.ku = ku ∧ v.fu = fu ∧ v.pu = pu := by
  unfold build at h
  cases ser
  · simp only [Bool.false_eq_true, if_false, Except.ok.injEq] at h
    subst h
    exact ⟨buildScalar_labelOK _ _ _ _ _ _ hl, rfl, rfl, rfl, rfl⟩
  · simp only [if_true] at h
    have := buildSeries_labelOK k f p ku fu pu v h hl
    exact ⟨this.1, this.2.1, this.2.2.1, this.2.2.2.1, this.2.2.2.2.1⟩

/-- whatever the arguments, a built quantity's units list is its three labels -/
theorem build_units (ser : Bool) (k f p : List α) (ku fu pu : Label) (v : FoodVal α)
    (h : build ser k f p ku fu pu = .ok v) : v.units = [v.ku, v.fu, v.pu] := by
  unfold build at h
  cases ser
  · simp only [Bool.false_eq_true, if_false, Except.ok.injEq] at h
    subst h; rfl
  · simp only [if_true] at h
    obtain ⟨rfl, _⟩ := buildSeries_ok k f p ku fu pu v h
    rfl

theorem buildSeries_units (k f p : List α) (ku fu pu : Label) (v : FoodVal α)
    (h : buildSeries k f p ku fu pu = .ok v) : v.units = [v.ku, v.fu, v.pu] := by
  obtain ⟨rfl, _⟩ := buildSeries_ok k f p ku fu pu v h
  rfl

theorem combine_ok (f : α → α → α) (a b : FoodVal α) (ku fu pu : Label) (v : FoodVal α)
    (h : combine f a b ku fu pu = .ok v) :
    ∃ k ff p, build (a.series || b.series) k ff p ku fu pu = .ok v := by
  unfold combine at h
  split at h
  · exact ⟨_, _, _, h⟩
  · simp at h

theorem combine_labelOK (f : α → α → α) (a b : FoodVal α) (ku fu pu : Label) (v : FoodVal α)
    (h : combine f a b ku fu pu = .ok v) (hl : labelsFor (a.series || b.series) ku fu pu = true) :
    LabelOK v ∧ v.series = (a.series || b.series) ∧ v.ku = ku ∧ v.fu = fu ∧ v.pu = pu := by
  obtain ⟨k, ff, p, hb⟩ := combine_ok f a b ku fu pu v h
  exact build_labelOK _ k ff p ku fu pu v hb hl

theorem combine_units (f : α → α → α) (a b : FoodVal α) (ku fu pu : Label) (v : FoodVal α)
    (h : combine f a b ku fu pu = .ok v) : v.units = [v.ku, v.fu, v.pu] := by
  obtain ⟨k, ff, p, hb⟩ := combine_ok f a b ku fu pu v h
  exact build_units _ k ff p ku fu pu v hb

theorem mapVal_labelOK (f : α → α) (a : FoodVal α) (ku fu pu : Label) (v : FoodVal α)
    (h : mapVal f a ku fu pu = .ok v) (hl : labelsFor a.series ku fu pu = true) :
    LabelOK v ∧ v.series = a.series ∧ v.ku = ku ∧ v.fu = fu ∧ v.pu = pu :=
  build_labelOK _ _ _ _ ku fu pu v h hl

theorem mapVal_units (f : α → α) (a : FoodVal α) (ku fu pu : Label) (v : FoodVal α)
    (h : mapVal f a ku fu pu = .ok v) : v.units = [v.ku, v.fu, v.pu] :=
  build_units _ _ _ _ ku fu pu v h


/-! ## closure of every operation: correctly labelled operands give a correctly labelled result,
with the documented labels -/

/-- `v` is correctly labelled, has shape `ser` and labels `ku fu pu` -/
def Closed (v : FoodVal α) (ser : Bool) (ku fu pu : Label) : Prop :=
  LabelOK v ∧ v.series = ser ∧ v.ku = ku ∧ v.fu = fu ∧ v.pu = pu

theorem units_bool {a b : FoodVal α} (h : (a.units == b.units) = true) : a.units = b.units := by
  simpa using h

theorem or_self_of_eq {a b : FoodVal α} (hs : a.series = b.series) : (a.series || b.series) = a.series := by
  rw [← hs, Bool.or_self]

theorem add_closed (a b v : FoodVal α) (ha : LabelOK a) (hb : LabelOK b) (h : add a b = .ok v) :
    Closed v a.series a.ku a.fu a.pu := by
  unfold add at h
  rw [guard'_ok] at h
  obtain ⟨hu, hc⟩ := h
  have hs := series_eq_of_units_eq ha hb (units_bool hu)
  have := combine_labelOK _ a b _ _ _ v hc (by rw [or_self_of_eq hs]; exact ha.labels)
  rw [or_self_of_eq hs] at this
  exact this

theorem sub_closed (a b v : FoodVal α) (ha : LabelOK a) (hb : LabelOK b) (h : sub a b = .ok v) :
    Closed v a.series a.ku a.fu a.pu := by
  unfold sub at h
  rw [guard'_ok] at h
  obtain ⟨hu, hc⟩ := h
  have hs := series_eq_of_units_eq ha hb (units_bool hu)
  have := combine_labelOK _ a b _ _ _ v hc (by rw [or_self_of_eq hs]; exact ha.labels)
  rw [or_self_of_eq hs] at this
  exact this

theorem minElem_closed (a b v : FoodVal α) (ha : LabelOK a) (hb : LabelOK b) (h : minElem a b = .ok v) :
    Closed v a.series a.ku a.fu a.pu := by
  unfold minElem at h
  rw [guard'_ok] at h
  obtain ⟨hu, hc⟩ := h
  have hs := series_eq_of_units_eq ha hb (units_bool hu)
  split at hc
  · have := combine_labelOK _ a b _ _ _ v hc (by rw [or_self_of_eq hs]; exact ha.labels)
    rw [or_self_of_eq hs] at this
    exact this
  · simp at hc

/-- the labels a product carries: a single ratio times a series keeps the series' labels; otherwise
    the labels of the operand that is not the ratio (`self`'s when `other` is a ratio) -/
def mulLabelsOf (a b : FoodVal α) : FoodVal α :=
  if !a.series && b.series then b else if b.isRatio then a else b

theorem mul_closed (a b v : FoodVal α) (ha : LabelOK a) (hb : LabelOK b) (h : mul a b = .ok v) :
    Closed v (a.series || b.series) (mulLabelsOf a b).ku (mulLabelsOf a b).fu (mulLabelsOf a b).pu := by
  unfold mul at h
  unfold mulLabelsOf
  cases hsa : a.series <;> cases hsb : b.series <;> simp only [hsa, hsb, Bool.not_false, Bool.not_true, if_true,
    if_false, Bool.false_eq_true, Bool.and_true, Bool.and_false, Bool.and_self] at h ⊢
  · -- single value × single value
    rw [guard'_ok] at h
    obtain ⟨_, hc⟩ := h
    split at hc
    · rename_i hr
      have := combine_labelOK _ a b _ _ _ v hc (by simp only [hsa, hsb, Bool.or_self]; exact ha.scalar_labels hsa)
      simpa [hsa, hsb, Closed, hr] using this
    · rename_i hr
      have := combine_labelOK _ a b _ _ _ v hc (by simp only [hsa, hsb, Bool.or_self]; exact hb.scalar_labels hsb)
      simpa [hsa, hsb, Closed, hr] using this
  · -- single value × series
    rw [guard'_ok] at h
    obtain ⟨_, hc⟩ := h
    have := combine_labelOK _ a b _ _ _ v hc (by simp only [hsa, hsb, Bool.false_or]; exact hb.series_labels hsb)
    simpa [hsa, hsb, Closed] using this
  · -- series × single value
    simp only [guard'_ok] at h
    obtain ⟨_, hr, hc⟩ := h
    have := combine_labelOK _ a b _ _ _ v hc (by simp only [hsa, hsb, Bool.or_false]; exact ha.series_labels hsa)
    simpa [hsa, hsb, Closed, hr] using this
  · -- series × series
    simp only [guard'_ok] at h
    obtain ⟨_, _, _, hc⟩ := h
    split at hc
    · rename_i hr
      have := combine_labelOK _ a b _ _ _ v hc (by simp only [hsa, hsb, Bool.or_self]; exact ha.series_labels hsa)
      simpa [hsa, hsb, Closed, hr] using this
    · rename_i hr
      have := combine_labelOK _ a b _ _ _ v hc (by simp only [hsa, hsb, Bool.or_self]; exact hb.series_labels hsb)
      simpa [hsa, hsb, Closed, hr] using this

theorem div_closed (a b v : FoodVal α) (ha : LabelOK a) (hb : LabelOK b) (h : div a b = .ok v) :
    Closed v a.series (if a.series then Label.ratio.addEach else Label.ratio)
      (if a.series then Label.ratio.addEach else Label.ratio) (if a.series then Label.ratio.addEach else Label.ratio) := by
  unfold div at h
  rw [guard'_ok] at h
  obtain ⟨hu, hc⟩ := h
  have hs := series_eq_of_units_eq ha hb (units_bool hu)
  cases hsa : a.series <;> simp only [hsa, if_true, if_false, Bool.false_eq_true] at hc ⊢
  · rw [guard'_ok] at hc
    have := combine_labelOK _ a b _ _ _ v hc.2 (by rw [or_self_of_eq hs, hsa]; exact labelsFor_ratio)
    rw [or_self_of_eq hs, hsa] at this
    exact this
  · simp only [guard'_ok] at hc
    have := combine_labelOK _ a b _ _ _ v hc.2.2.2 (by rw [or_self_of_eq hs, hsa]; exact labelsFor_ratio_each)
    rw [or_self_of_eq hs, hsa] at this
    exact this

theorem mulNum_closed (a v : FoodVal α) (c : α) (ha : LabelOK a) (h : mulNum a c = .ok v) :
    Closed v a.series a.ku a.fu a.pu := by
  unfold mulNum at h
  rw [guard'_ok] at h
  exact mapVal_labelOK _ a _ _ _ v h.2 ha.labels

theorem divNum_closed (a v : FoodVal α) (c : α) (ha : LabelOK a) (h : divNum a c = .ok v) :
    Closed v a.series a.ku a.fu a.pu :=
  mapVal_labelOK _ a _ _ _ v h ha.labels

theorem neg_closed (a v : FoodVal α) (ha : LabelOK a) (h : neg a = .ok v) : Closed v a.series a.ku a.fu a.pu :=
  mapVal_labelOK _ a _ _ _ v h ha.labels

theorem absVal_closed (a v : FoodVal α) (ha : LabelOK a) (h : absVal a = .ok v) : Closed v a.series a.ku a.fu a.pu :=
  mapVal_labelOK _ a _ _ _ v h ha.labels

theorem clip_closed (a v : FoodVal α) (ha : LabelOK a) (h : clip a = .ok v) : Closed v a.series a.ku a.fu a.pu := by
  unfold clip at h
  rw [guard'_ok] at h
  exact mapVal_labelOK _ a _ _ _ v h.2 ha.labels

theorem rounded_closed (rnd : Int → α → α) (a v : FoodVal α) (d : Int) (ha : LabelOK a) (h : rounded rnd a d = .ok v) :
    Closed v a.series a.ku a.fu a.pu := by
  unfold rounded at h
  rw [guard'_ok] at h
  exact mapVal_labelOK _ a _ _ _ v h.2 ha.labels

theorem mulArr_closed (a v : FoodVal α) (arr : List α) (ha : LabelOK a) (h : mulArr a arr = .ok v) :
    Closed v true (if a.series then a.ku else a.ku.addEach) (if a.series then a.fu else a.fu.addEach)
      (if a.series then a.pu else a.pu.addEach) := by
  unfold mulArr at h
  cases hsa : a.series <;> simp only [hsa, Bool.not_false, Bool.not_true, if_true, if_false, Bool.false_eq_true] at h ⊢
  · have := buildSeries_labelOK _ _ _ _ _ _ v h (labelsFor_addEach _ _ _ (ha.scalar_labels hsa))
    exact ⟨this.1, this.2.1, this.2.2.1, this.2.2.2.1, this.2.2.2.2.1⟩
  · rw [guard'_ok] at h
    obtain ⟨_, hc⟩ := h
    split at hc
    · have := buildSeries_labelOK _ _ _ _ _ _ v hc (ha.series_labels hsa)
      exact ⟨this.1, this.2.1, this.2.2.1, this.2.2.2.1, this.2.2.2.2.1⟩
    · simp at hc

theorem relabelElement_ok (m v : FoodVal α) (h : relabelElement m = .ok v) :
    v = { m with ku := m.ku.toElement, fu := m.fu.toElement, pu := m.pu.toElement,
                 units := [m.ku.toElement, m.fu.toElement, m.pu.toElement] } ∧ m.allEach = true := by
  unfold relabelElement at h
  rw [guard'_ok] at h
  simp only [Except.ok.injEq] at h
  exact ⟨h.2.symm, h.1⟩

theorem relabelTotal_ok (m v : FoodVal α) (h : relabelTotal m = .ok v) :
    v = { m with ku := m.ku.toTotal, fu := m.fu.toTotal, pu := m.pu.toTotal,
                 units := [m.ku.toTotal, m.fu.toTotal, m.pu.toTotal] } ∧ m.allEach = true := by
  unfold relabelTotal at h
  rw [guard'_ok] at h
  simp only [Except.ok.injEq] at h
  exact ⟨h.2.symm, h.1⟩

theorem relabelList_ok (m v : FoodVal α) (h : relabelList m = .ok v) :
    v = { m with ku := m.ku.addEach, fu := m.fu.addEach, pu := m.pu.addEach,
                 units := [m.ku.addEach, m.fu.addEach, m.pu.addEach] } ∧ m.noEach = true := by
  unfold relabelList at h
  rw [guard'_ok] at h
  simp only [Except.ok.injEq] at h
  exact ⟨h.2.symm, h.1⟩

theorem pick_ok (a m : FoodVal α) (i : Int) (h : pick a i = .ok m) :
    ∃ x y z, m = buildScalar x y z a.ku a.fu a.pu := by
  unfold pick at h
  split at h
  · simp at h
  · simp only [Except.ok.injEq] at h
    exact ⟨_, _, _, h.symm⟩

/-- one month of `X each month` is `X per month` -/
theorem month_closed_aux (a v : FoodVal α) (i : Int) (ha : LabelOK a) (hsa : a.series = true)
    (h : monthOf a i = .ok v) :
    Closed v false a.ku.toElement a.fu.toElement a.pu.toElement := by
  unfold monthOf at h
  split at h
  · simp at h
  · rename_i m hp
    obtain ⟨x, y, z, rfl⟩ := pick_ok a m i hp
    obtain ⟨rfl, _⟩ := relabelElement_ok _ v h
    refine ⟨⟨rfl, by simp [shapeOK, buildScalar], ?_⟩, rfl, rfl, rfl, rfl⟩
    exact labelsFor_toElement _ _ _ (ha.series_labels hsa)

theorem getMonth_closed (a v : FoodVal α) (i : Int) (ha : LabelOK a) (h : getMonth a i = .ok v) :
    Closed v false a.ku.toElement a.fu.toElement a.pu.toElement := by
  unfold getMonth at h
  simp only [guard'_ok] at h
  exact month_closed_aux a v i ha h.1 h.2.2

theorem getInt_closed (a v : FoodVal α) (i : Int) (ha : LabelOK a) (h : getInt a i = .ok v) :
    Closed v false a.ku.toElement a.fu.toElement a.pu.toElement := by
  unfold getInt at h
  simp only [guard'_ok] at h
  exact month_closed_aux a v i ha h.1 h.2.2

theorem getSlice_closed (a v : FoodVal α) (lo hi : Int) (ha : LabelOK a) (h : getSlice a lo hi = .ok v) :
    Closed v true a.ku a.fu a.pu := by
  unfold getSlice at h
  simp only [guard'_ok] at h
  have := buildSeries_labelOK _ _ _ _ _ _ v h.2.2 (ha.series_labels h.1)
  exact ⟨this.1, this.2.1, this.2.2.1, this.2.2.2.1, this.2.2.2.2.1⟩

theorem total_closed_aux (a v : FoodVal α) (x y z : α) (ha : LabelOK a) (hsa : a.series = true)
    (h : relabelTotal (buildScalar x y z a.ku a.fu a.pu) = .ok v) :
    Closed v false a.ku.toTotal a.fu.toTotal a.pu.toTotal := by
  obtain ⟨rfl, _⟩ := relabelTotal_ok _ v h
  refine ⟨⟨rfl, by simp [shapeOK, buildScalar], ?_⟩, rfl, rfl, rfl, rfl⟩
  exact labelsFor_toTotal _ _ _ (ha.series_labels hsa)

/-- the sum over the months of `X each month` is `X` -/
theorem sumMonths_closed (a v : FoodVal α) (ha : LabelOK a) (h : sumMonths a = .ok v) :
    Closed v false a.ku.toTotal a.fu.toTotal a.pu.toTotal := by
  unfold sumMonths at h
  simp only [guard'_ok] at h
  exact total_closed_aux a v _ _ _ ha h.1 h.2.2

theorem minAll_closed (a v : FoodVal α) (ha : LabelOK a) (h : minAll a = .ok v) :
    Closed v false a.ku.toTotal a.fu.toTotal a.pu.toTotal := by
  unfold minAll at h
  simp only [guard'_ok] at h
  exact total_closed_aux a v _ _ _ ha h.1 h.2

theorem maxAll_closed (a v : FoodVal α) (ha : LabelOK a) (h : maxAll a = .ok v) :
    Closed v false a.ku.toTotal a.fu.toTotal a.pu.toTotal := by
  unfold maxAll at h
  simp only [guard'_ok] at h
  exact total_closed_aux a v _ _ _ ha h.1 h.2

theorem runningSum_closed (a v : FoodVal α) (ha : LabelOK a) (h : runningSum a = .ok v) :
    Closed v true a.ku a.fu a.pu := by
  unfold runningSum at h
  simp only [guard'_ok] at h
  have := buildSeries_labelOK _ _ _ _ _ _ v h.2.2 (ha.series_labels h.1)
  exact ⟨this.1, this.2.1, this.2.2.1, this.2.2.2.1, this.2.2.2.2.1⟩

theorem shift_closed (a v : FoodVal α) (m : Int) (ha : LabelOK a) (h : shift a m = .ok v) :
    Closed v true a.ku a.fu a.pu := by
  unfold shift at h
  simp only [guard'_ok] at h
  have := buildSeries_labelOK _ _ _ _ _ _ v h.2 (ha.series_labels h.1)
  exact ⟨this.1, this.2.1, this.2.2.1, this.2.2.2.1, this.2.2.2.2.1⟩

/-- the form (`each month` / `per month` / total) `in_units` gives to the requested unit names -/
def formOf (a : FoodVal α) (t : Label) : Label :=
  if a.ku.hasEach then t.addEach else if a.ku.hasPer then t.addPer else t

theorem labelsFor_form (a : FoodVal α) (ha : LabelOK a) (tk tf tp : Label)
    (hk : tk.sfx = []) (hf : tf.sfx = []) (hp : tp.sfx = []) :
    labelsFor a.series (formOf a tk) (formOf a tf) (formOf a tp) = true := by
  unfold formOf
  cases hsa : a.series
  · have hl := (labelsFor_false_iff _ _ _).1 (ha.scalar_labels hsa)
    have hne : a.ku.hasEach = false := by simpa [Label.scalarOK] using hl.1
    simp only [hne, Bool.false_eq_true, if_false]
    split <;> simp [labelsFor, Label.scalarOK, Label.hasEach, Label.addPer, hk, hf, hp]
  · have hl := (labelsFor_true_iff _ _ _).1 (ha.series_labels hsa)
    have he := hasEach_of_seriesOK _ hl.1
    simp only [he, if_true]
    simp [labelsFor, Label.seriesOK, Label.addEach, hk, hf, hp]

theorem inUnits_closed (c : Gen.Units.Conv α) (a v : FoodVal α) (tk tf tp : Label) (ha : LabelOK a)
    (hk : tk.sfx = []) (hf : tf.sfx = []) (hp : tp.sfx = []) (h : inUnits c a tk tf tp = .ok v) :
    Closed v a.series (formOf a tk) (formOf a tf) (formOf a tp) := by
  unfold inUnits at h
  have hu0 : a.units.getD 0 default = a.ku := by rw [ha.units]; rfl
  simp only [hu0] at h
  split at h
  · exact build_labelOK _ _ _ _ _ _ _ v h (labelsFor_form a ha tk tf tp hk hf hp)
  · simp at h

theorem construct_closed (args : CtorArgs α) (ku fu pu : Label) (v : FoodVal α)
    (hl : ctorLabelsOK args ku fu pu = true) (h : construct args ku fu pu = .ok v) :
    Closed v (match args with | .scalar _ _ _ => false | .series _ _ _ => true)
      (match args with | .scalar _ _ _ => ku | .series _ _ _ => ku.fixEach)
      (match args with | .scalar _ _ _ => fu | .series _ _ _ => fu.fixEach)
      (match args with | .scalar _ _ _ => pu | .series _ _ _ => pu.fixEach) := by
  unfold construct at h
  cases args with
  | scalar k f p =>
    simp only [Except.ok.injEq] at h
    subst h
    exact ⟨buildScalar_labelOK _ _ _ _ _ _ hl, rfl, rfl, rfl, rfl⟩
  | series k f p =>
    simp only [guard'_ok] at h
    have := buildSeries_labelOK' _ _ _ _ _ _ v h.2.2.2 hl
    exact ⟨this.1, this.2.1, this.2.2.1, this.2.2.2.1, this.2.2.2.2.1⟩


/-! ## whatever the operands, the units list of a result is its three labels -/

/-- every successful outcome of `r` has `units = [ku, fu, pu]` -/
def UnitsP (r : Except Err (FoodVal α)) : Prop := ∀ v, r = .ok v → v.units = [v.ku, v.fu, v.pu]

theorem UnitsP.guard (c : Bool) (e : Err) (k : Except Err (FoodVal α)) (h : UnitsP k) : UnitsP (guard' c e k) := by
  intro v hv
  rw [guard'_ok] at hv
  exact h v hv.2

theorem UnitsP.ite (c : Prop) [Decidable c] (x y : Except Err (FoodVal α)) (hx : UnitsP x) (hy : UnitsP y) :
    UnitsP (if c then x else y) := by
  split <;> assumption

theorem UnitsP.error (e : Err) : UnitsP (.error e : Except Err (FoodVal α)) := by
  intro v hv; simp at hv

theorem UnitsP.combine (f : α → α → α) (a b : FoodVal α) (ku fu pu : Label) : UnitsP (combine f a b ku fu pu) :=
  fun v hv => combine_units f a b ku fu pu v hv

theorem UnitsP.mapVal (f : α → α) (a : FoodVal α) (ku fu pu : Label) : UnitsP (mapVal f a ku fu pu) :=
  fun v hv => mapVal_units f a ku fu pu v hv

theorem UnitsP.buildSeries (k f p : List α) (ku fu pu : Label) : UnitsP (buildSeries k f p ku fu pu) :=
  fun v hv => buildSeries_units k f p ku fu pu v hv

theorem UnitsP.build (ser : Bool) (k f p : List α) (ku fu pu : Label) : UnitsP (build ser k f p ku fu pu) :=
  fun v hv => build_units ser k f p ku fu pu v hv

theorem UnitsP.relabelTotal (m : FoodVal α) : UnitsP (relabelTotal m) := by
  intro v hv; obtain ⟨rfl, _⟩ := relabelTotal_ok m v hv; rfl

theorem UnitsP.relabelElement (m : FoodVal α) : UnitsP (relabelElement m) := by
  intro v hv; obtain ⟨rfl, _⟩ := relabelElement_ok m v hv; rfl

theorem UnitsP.relabelList (m : FoodVal α) : UnitsP (relabelList m) := by
  intro v hv; obtain ⟨rfl, _⟩ := relabelList_ok m v hv; rfl

theorem UnitsP.monthOf (a : FoodVal α) (i : Int) : UnitsP (monthOf a i) := by
  intro v hv
  unfold Food.monthOf at hv
  split at hv
  · simp at hv
  · exact UnitsP.relabelElement _ v hv

theorem UnitsP.inUnits (c : Gen.Units.Conv α) (a : FoodVal α) (tk tf tp : Label) : UnitsP (inUnits c a tk tf tp) := by
  intro v hv
  unfold Food.inUnits at hv
  dsimp only at hv
  split at hv
  · exact build_units _ _ _ _ _ _ _ v hv
  · simp at hv

theorem UnitsP.construct (args : CtorArgs α) (ku fu pu : Label) : UnitsP (construct args ku fu pu) := by
  intro v hv
  unfold Food.construct at hv
  cases args with
  | scalar k f p => simp only [Except.ok.injEq] at hv; subst hv; rfl
  | series k f p =>
    simp only [guard'_ok] at hv
    exact buildSeries_units _ _ _ _ _ _ v hv.2.2.2

macro "units_tac" : tactic => `(tactic| repeat (first
  | exact UnitsP.combine _ _ _ _ _ _ | exact UnitsP.mapVal _ _ _ _ _ | exact UnitsP.buildSeries _ _ _ _ _ _
  | exact UnitsP.build _ _ _ _ _ _ _ | exact UnitsP.relabelTotal _ | exact UnitsP.relabelElement _
  | exact UnitsP.relabelList _ | exact UnitsP.monthOf _ _ | exact UnitsP.error _
  | apply UnitsP.guard | apply UnitsP.ite))

theorem add_units (a b : FoodVal α) : UnitsP (add a b) := by unfold add; units_tac
theorem sub_units (a b : FoodVal α) : UnitsP (sub a b) := by unfold sub; units_tac
theorem mul_units (a b : FoodVal α) : UnitsP (mul a b) := by unfold mul; units_tac
theorem div_units (a b : FoodVal α) : UnitsP (div a b) := by unfold div; units_tac
theorem minElem_units (a b : FoodVal α) : UnitsP (minElem a b) := by unfold minElem; units_tac
theorem mulNum_units (a : FoodVal α) (c : α) : UnitsP (mulNum a c) := by unfold mulNum; units_tac
theorem divNum_units (a : FoodVal α) (c : α) : UnitsP (divNum a c) := by unfold divNum; units_tac
theorem mulArr_units (a : FoodVal α) (l : List α) : UnitsP (mulArr a l) := by unfold mulArr; units_tac
theorem neg_units (a : FoodVal α) : UnitsP (neg a) := by unfold neg; units_tac
theorem absVal_units (a : FoodVal α) : UnitsP (absVal a) := by unfold absVal; units_tac
theorem clip_units (a : FoodVal α) : UnitsP (clip a) := by unfold clip; units_tac
theorem rounded_units (rnd : Int → α → α) (a : FoodVal α) (d : Int) : UnitsP (rounded rnd a d) := by unfold rounded; units_tac
theorem shift_units (a : FoodVal α) (m : Int) : UnitsP (shift a m) := by unfold shift; units_tac
theorem getInt_units (a : FoodVal α) (i : Int) : UnitsP (getInt a i) := by unfold getInt; units_tac
theorem getMonth_units (a : FoodVal α) (i : Int) : UnitsP (getMonth a i) := by unfold getMonth; units_tac
theorem getSlice_units (a : FoodVal α) (lo hi : Int) : UnitsP (getSlice a lo hi) := by unfold getSlice; units_tac
theorem sumMonths_units (a : FoodVal α) : UnitsP (sumMonths a) := by unfold sumMonths; units_tac
theorem runningSum_units (a : FoodVal α) : UnitsP (runningSum a) := by unfold runningSum; units_tac
theorem minAll_units (a : FoodVal α) : UnitsP (minAll a) := by unfold minAll; units_tac
theorem maxAll_units (a : FoodVal α) : UnitsP (maxAll a) := by unfold maxAll; units_tac

/-! ## the register machine -/

theorem reg_ok (s : State α) (i : Nat) (a : FoodVal α) : reg s i = .ok a ↔ s[i % s.length]? = some a := by
  unfold reg
  split <;> simp_all

theorem reg_mem (s : State α) (i : Nat) (a : FoodVal α) (h : reg s i = .ok a) : a ∈ s := by
  rw [reg_ok] at h
  exact List.mem_of_getElem? h

theorem bind1_ok {β : Type} (s : State α) (i : Nat) (f : FoodVal α → Except Err β) (x : β) :
    bind1 s i f = .ok x ↔ ∃ a, reg s i = .ok a ∧ f a = .ok x := by
  unfold bind1
  split <;> simp_all

theorem bind2_ok {β : Type} (s : State α) (i j : Nat) (f : FoodVal α → FoodVal α → Except Err β) (x : β) :
    bind2 s i j f = .ok x ↔ ∃ a b, reg s i = .ok a ∧ reg s j = .ok b ∧ f a b = .ok x := by
  unfold bind2
  split <;> simp_all

theorem valOf_val (r : Except Err (FoodVal α)) (v : FoodVal α) : valOf r = .ok (.val v) ↔ r = .ok v := by
  unfold valOf; split <;> simp_all

theorem valOf_inPlace (r : Except Err (FoodVal α)) (v : FoodVal α) : valOf r ≠ .ok (.inPlace v) := by
  unfold valOf; split <;> simp

theorem inPlaceOf_inPlace (r : Except Err (FoodVal α)) (v : FoodVal α) : inPlaceOf r = .ok (.inPlace v) ↔ r = .ok v := by
  unfold inPlaceOf; split <;> simp_all

theorem inPlaceOf_val (r : Except Err (FoodVal α)) (v : FoodVal α) : inPlaceOf r ≠ .ok (.val v) := by
  unfold inPlaceOf; split <;> simp

theorem boolOf_val (r : Except Err Bool) (v : FoodVal α) : (boolOf r : Except Err (Out α)) ≠ .ok (.val v) := by
  unfold boolOf; split <;> simp

theorem boolOf_inPlace (r : Except Err Bool) (v : FoodVal α) : (boolOf r : Except Err (Out α)) ≠ .ok (.inPlace v) := by
  unfold boolOf; split <;> simp

/-- the labels (and the shape) the documentation of each operation implies for its result, read off
    the operands' labels: same labels for `+ − min neg abs clip round shift slice running-sum` and for
    products/quotients with a number; `X each month ↦ X per month` for one month; `X each month ↦ X`
    for sums, minima and maxima over the months; `ratio` for a quotient; the other operand's labels
    for a product with a ratio; the requested names in the operand's form for a conversion -/
def docLabels (op : Op α) (s : State α) : Option (Bool × Label × Label × Label) :=
  let r := fun (i : Nat) => s[i % s.length]?
  match op with
  | .construct (.scalar _ _ _) ku fu pu => some (false, ku, fu, pu)
  | .construct (.series _ _ _) ku fu pu => some (true, ku.fixEach, fu.fixEach, pu.fixEach)
  | .add i _ | .sub i _ | .minElem i _ | .mulNum i _ | .divNum i _ | .neg i | .abs i | .clip i | .round i _ =>
    (r i).map fun a => (a.series, a.ku, a.fu, a.pu)
  | .shift i _ | .getSlice i _ _ | .runningSum i => (r i).map fun a => (true, a.ku, a.fu, a.pu)
  | .mulArr i _ => (r i).map fun a =>
      (true, if a.series then a.ku else a.ku.addEach, if a.series then a.fu else a.fu.addEach,
        if a.series then a.pu else a.pu.addEach)
  | .mul i j => (r i).bind fun a => (r j).map fun b =>
      (a.series || b.series, (mulLabelsOf a b).ku, (mulLabelsOf a b).fu, (mulLabelsOf a b).pu)
  | .div i _ => (r i).map fun a =>
      (a.series, if a.series then Label.ratio.addEach else Label.ratio, if a.series then Label.ratio.addEach else Label.ratio,
        if a.series then Label.ratio.addEach else Label.ratio)
  | .getInt i _ | .getMonth i _ => (r i).map fun a => (false, a.ku.toElement, a.fu.toElement, a.pu.toElement)
  | .sum i | .minAll i | .maxAll i => (r i).map fun a => (false, a.ku.toTotal, a.fu.toTotal, a.pu.toTotal)
  | .inUnits i tk tf tp => (r i).map fun a => (a.series, formOf a tk, formOf a tf, formOf a tp)
  | _ => none

theorem closed_doc {v : FoodVal α} {ser : Bool} {ku fu pu : Label} (h : Closed v ser ku fu pu) :
    LabelOK v ∧ some (ser, ku, fu, pu) = some (v.series, v.ku, v.fu, v.pu) := by
  obtain ⟨h1, h2, h3, h4, h5⟩ := h
  exact ⟨h1, by rw [h2, h3, h4, h5]⟩

/-- closure at the level of the operation language -/
theorem eval_closed (cfg : Cfg α) (op : Op α) (s : State α) (v : FoodVal α) (hs : AllOK s)
    (ha : op.argsOK = true) (h : eval cfg op s = .ok (.val v)) :
    LabelOK v ∧ docLabels op s = some (v.series, v.ku, v.fu, v.pu) := by
  cases op with
  | construct args ku fu pu =>
    simp only [eval, valOf_val] at h
    have := construct_closed args ku fu pu v ha h
    cases args <;> exact closed_doc this
  | add i j =>
    simp only [eval, valOf_val, bind2_ok] at h
    obtain ⟨a, b, h1, h2, h3⟩ := h
    have := closed_doc (add_closed a b v (hs a (reg_mem s i a h1)) (hs b (reg_mem s j b h2)) h3)
    simpa [docLabels, (reg_ok s i a).1 h1] using this
  | sub i j =>
    simp only [eval, valOf_val, bind2_ok] at h
    obtain ⟨a, b, h1, h2, h3⟩ := h
    have := closed_doc (sub_closed a b v (hs a (reg_mem s i a h1)) (hs b (reg_mem s j b h2)) h3)
    simpa [docLabels, (reg_ok s i a).1 h1] using this
  | mul i j =>
    simp only [eval, valOf_val, bind2_ok] at h
    obtain ⟨a, b, h1, h2, h3⟩ := h
    have := closed_doc (mul_closed a b v (hs a (reg_mem s i a h1)) (hs b (reg_mem s j b h2)) h3)
    simpa [docLabels, (reg_ok s i a).1 h1, (reg_ok s j b).1 h2] using this
  | div i j =>
    simp only [eval, valOf_val, bind2_ok] at h
    obtain ⟨a, b, h1, h2, h3⟩ := h
    have := closed_doc (div_closed a b v (hs a (reg_mem s i a h1)) (hs b (reg_mem s j b h2)) h3)
    simpa [docLabels, (reg_ok s i a).1 h1] using this
  | minElem i j =>
    simp only [eval, valOf_val, bind2_ok] at h
    obtain ⟨a, b, h1, h2, h3⟩ := h
    have := closed_doc (minElem_closed a b v (hs a (reg_mem s i a h1)) (hs b (reg_mem s j b h2)) h3)
    simpa [docLabels, (reg_ok s i a).1 h1] using this
  | mulNum i c =>
    simp only [eval, valOf_val, bind1_ok] at h
    obtain ⟨a, h1, h3⟩ := h
    have := closed_doc (mulNum_closed a v c (hs a (reg_mem s i a h1)) h3)
    simpa [docLabels, (reg_ok s i a).1 h1] using this
  | divNum i c =>
    simp only [eval, valOf_val, bind1_ok] at h
    obtain ⟨a, h1, h3⟩ := h
    have := closed_doc (divNum_closed a v c (hs a (reg_mem s i a h1)) h3)
    simpa [docLabels, (reg_ok s i a).1 h1] using this
  | mulArr i l =>
    simp only [eval, valOf_val, bind1_ok] at h
    obtain ⟨a, h1, h3⟩ := h
    have := closed_doc (mulArr_closed a v l (hs a (reg_mem s i a h1)) h3)
    simpa [docLabels, (reg_ok s i a).1 h1] using this
  | neg i =>
    simp only [eval, valOf_val, bind1_ok] at h
    obtain ⟨a, h1, h3⟩ := h
    have := closed_doc (neg_closed a v (hs a (reg_mem s i a h1)) h3)
    simpa [docLabels, (reg_ok s i a).1 h1] using this
  | abs i =>
    simp only [eval, valOf_val, bind1_ok] at h
    obtain ⟨a, h1, h3⟩ := h
    have := closed_doc (absVal_closed a v (hs a (reg_mem s i a h1)) h3)
    simpa [docLabels, (reg_ok s i a).1 h1] using this
  | clip i =>
    simp only [eval, valOf_val, bind1_ok] at h
    obtain ⟨a, h1, h3⟩ := h
    have := closed_doc (clip_closed a v (hs a (reg_mem s i a h1)) h3)
    simpa [docLabels, (reg_ok s i a).1 h1] using this
  | round i d =>
    simp only [eval, valOf_val, bind1_ok] at h
    obtain ⟨a, h1, h3⟩ := h
    have := closed_doc (rounded_closed cfg.rnd a v d (hs a (reg_mem s i a h1)) h3)
    simpa [docLabels, (reg_ok s i a).1 h1] using this
  | shift i m =>
    simp only [eval, valOf_val, bind1_ok] at h
    obtain ⟨a, h1, h3⟩ := h
    have := closed_doc (shift_closed a v m (hs a (reg_mem s i a h1)) h3)
    simpa [docLabels, (reg_ok s i a).1 h1] using this
  | getInt i k =>
    simp only [eval, valOf_val, bind1_ok] at h
    obtain ⟨a, h1, h3⟩ := h
    have := closed_doc (getInt_closed a v k (hs a (reg_mem s i a h1)) h3)
    simpa [docLabels, (reg_ok s i a).1 h1] using this
  | getSlice i lo hi =>
    simp only [eval, valOf_val, bind1_ok] at h
    obtain ⟨a, h1, h3⟩ := h
    have := closed_doc (getSlice_closed a v lo hi (hs a (reg_mem s i a h1)) h3)
    simpa [docLabels, (reg_ok s i a).1 h1] using this
  | getMonth i k =>
    simp only [eval, valOf_val, bind1_ok] at h
    obtain ⟨a, h1, h3⟩ := h
    have := closed_doc (getMonth_closed a v k (hs a (reg_mem s i a h1)) h3)
    simpa [docLabels, (reg_ok s i a).1 h1] using this
  | sum i =>
    simp only [eval, valOf_val, bind1_ok] at h
    obtain ⟨a, h1, h3⟩ := h
    have := closed_doc (sumMonths_closed a v (hs a (reg_mem s i a h1)) h3)
    simpa [docLabels, (reg_ok s i a).1 h1] using this
  | runningSum i =>
    simp only [eval, valOf_val, bind1_ok] at h
    obtain ⟨a, h1, h3⟩ := h
    have := closed_doc (runningSum_closed a v (hs a (reg_mem s i a h1)) h3)
    simpa [docLabels, (reg_ok s i a).1 h1] using this
  | minAll i =>
    simp only [eval, valOf_val, bind1_ok] at h
    obtain ⟨a, h1, h3⟩ := h
    have := closed_doc (minAll_closed a v (hs a (reg_mem s i a h1)) h3)
    simpa [docLabels, (reg_ok s i a).1 h1] using this
  | maxAll i =>
    simp only [eval, valOf_val, bind1_ok] at h
    obtain ⟨a, h1, h3⟩ := h
    have := closed_doc (maxAll_closed a v (hs a (reg_mem s i a h1)) h3)
    simpa [docLabels, (reg_ok s i a).1 h1] using this
  | inUnits i tk tf tp =>
    simp only [eval, valOf_val, bind1_ok] at h
    obtain ⟨a, h1, h3⟩ := h
    simp only [Op.argsOK, Bool.and_eq_true, List.isEmpty_iff] at ha
    have := closed_doc (inUnits_closed cfg.conv a v tk tf tp (hs a (reg_mem s i a h1)) ha.1.1 ha.1.2 ha.2 h3)
    simpa [docLabels, (reg_ok s i a).1 h1] using this
  | relabelTotal i => exact absurd h (inPlaceOf_val _ v)
  | relabelElement i => exact absurd h (inPlaceOf_val _ v)
  | relabelList i => exact absurd h (inPlaceOf_val _ v)
  | setUnits i ku fu pu => exact absurd h (inPlaceOf_val _ v)
  | getUnits i => exact absurd h (inPlaceOf_val _ v)
  | pred2 p i j => exact absurd h (boolOf_val _ v)
  | pred1 p i => exact absurd h (boolOf_val _ v)
  | geZero i thr => exact absurd h (boolOf_val _ v)
  | minNutrient i => simp only [eval] at h; split at h <;> simp at h
  | maxNutrient i => simp only [eval] at h; split at h <;> simp at h
  | labelQ q i => simp only [eval] at h; split at h <;> simp at h

/-- a setter is the only kind of operation that overwrites a register -/
theorem eval_inPlace_isSetter (cfg : Cfg α) (op : Op α) (s : State α) (v : FoodVal α)
    (h : eval cfg op s = .ok (.inPlace v)) : op.isSetter = true := by
  cases op <;> first
    | rfl
    | exact absurd h (valOf_inPlace _ v)
    | exact absurd h (boolOf_inPlace _ v)
    | (simp only [eval] at h; split at h <;> simp at h)

/-- every quantity an operation returns or rewrites has `units = [kcals_units, fat_units, protein_units]` —
    for ARBITRARY registers (no assumption on the operands) -/
theorem eval_units (cfg : Cfg α) (op : Op α) (s : State α) (v : FoodVal α)
    (h : eval cfg op s = .ok (.val v) ∨ eval cfg op s = .ok (.inPlace v)) : v.units = [v.ku, v.fu, v.pu] := by
  cases op with
  | construct args ku fu pu =>
    rcases h with h | h
    · simp only [eval, valOf_val] at h; exact UnitsP.construct args ku fu pu v h
    · exact absurd h (valOf_inPlace _ v)
  | add i j => rcases h with h | h
               · simp only [eval, valOf_val, bind2_ok] at h; obtain ⟨a, b, _, _, h3⟩ := h; exact add_units a b v h3
               · exact absurd h (valOf_inPlace _ v)
  | sub i j => rcases h with h | h
               · simp only [eval, valOf_val, bind2_ok] at h; obtain ⟨a, b, _, _, h3⟩ := h; exact sub_units a b v h3
               · exact absurd h (valOf_inPlace _ v)
  | mul i j => rcases h with h | h
               · simp only [eval, valOf_val, bind2_ok] at h; obtain ⟨a, b, _, _, h3⟩ := h; exact mul_units a b v h3
               · exact absurd h (valOf_inPlace _ v)
  | div i j => rcases h with h | h
               · simp only [eval, valOf_val, bind2_ok] at h; obtain ⟨a, b, _, _, h3⟩ := h; exact div_units a b v h3
               · exact absurd h (valOf_inPlace _ v)
  | minElem i j => rcases h with h | h
                   · simp only [eval, valOf_val, bind2_ok] at h; obtain ⟨a, b, _, _, h3⟩ := h; exact minElem_units a b v h3
                   · exact absurd h (valOf_inPlace _ v)
  | mulNum i c => rcases h with h | h
                  · simp only [eval, valOf_val, bind1_ok] at h; obtain ⟨a, _, h3⟩ := h; exact mulNum_units a c v h3
                  · exact absurd h (valOf_inPlace _ v)
  | divNum i c => rcases h with h | h
                  · simp only [eval, valOf_val, bind1_ok] at h; obtain ⟨a, _, h3⟩ := h; exact divNum_units a c v h3
                  · exact absurd h (valOf_inPlace _ v)
  | mulArr i l => rcases h with h | h
                  · simp only [eval, valOf_val, bind1_ok] at h; obtain ⟨a, _, h3⟩ := h; exact mulArr_units a l v h3
                  · exact absurd h (valOf_inPlace _ v)
  | neg i => rcases h with h | h
             · simp only [eval, valOf_val, bind1_ok] at h; obtain ⟨a, _, h3⟩ := h; exact neg_units a v h3
             · exact absurd h (valOf_inPlace _ v)
  | abs i => rcases h with h | h
             · simp only [eval, valOf_val, bind1_ok] at h; obtain ⟨a, _, h3⟩ := h; exact absVal_units a v h3
             · exact absurd h (valOf_inPlace _ v)
  | clip i => rcases h with h | h
              · simp only [eval, valOf_val, bind1_ok] at h; obtain ⟨a, _, h3⟩ := h; exact clip_units a v h3
              · exact absurd h (valOf_inPlace _ v)
  | round i d => rcases h with h | h
                 · simp only [eval, valOf_val, bind1_ok] at h; obtain ⟨a, _, h3⟩ := h; exact rounded_units cfg.rnd a d v h3
                 · exact absurd h (valOf_inPlace _ v)
  | shift i m => rcases h with h | h
                 · simp only [eval, valOf_val, bind1_ok] at h; obtain ⟨a, _, h3⟩ := h; exact shift_units a m v h3
                 · exact absurd h (valOf_inPlace _ v)
  | getInt i k => rcases h with h | h
                  · simp only [eval, valOf_val, bind1_ok] at h; obtain ⟨a, _, h3⟩ := h; exact getInt_units a k v h3
                  · exact absurd h (valOf_inPlace _ v)
  | getSlice i lo hi => rcases h with h | h
                        · simp only [eval, valOf_val, bind1_ok] at h; obtain ⟨a, _, h3⟩ := h; exact getSlice_units a lo hi v h3
                        · exact absurd h (valOf_inPlace _ v)
  | getMonth i k => rcases h with h | h
                    · simp only [eval, valOf_val, bind1_ok] at h; obtain ⟨a, _, h3⟩ := h; exact getMonth_units a k v h3
                    · exact absurd h (valOf_inPlace _ v)
  | sum i => rcases h with h | h
             · simp only [eval, valOf_val, bind1_ok] at h; obtain ⟨a, _, h3⟩ := h; exact sumMonths_units a v h3
             · exact absurd h (valOf_inPlace _ v)
  | runningSum i => rcases h with h | h
                    · simp only [eval, valOf_val, bind1_ok] at h; obtain ⟨a, _, h3⟩ := h; exact runningSum_units a v h3
                    · exact absurd h (valOf_inPlace _ v)
  | minAll i => rcases h with h | h
                · simp only [eval, valOf_val, bind1_ok] at h; obtain ⟨a, _, h3⟩ := h; exact minAll_units a v h3
                · exact absurd h (valOf_inPlace _ v)
  | maxAll i => rcases h with h | h
                · simp only [eval, valOf_val, bind1_ok] at h; obtain ⟨a, _, h3⟩ := h; exact maxAll_units a v h3
                · exact absurd h (valOf_inPlace _ v)
  | inUnits i tk tf tp => rcases h with h | h
                          · simp only [eval, valOf_val, bind1_ok] at h; obtain ⟨a, _, h3⟩ := h
                            exact UnitsP.inUnits cfg.conv a tk tf tp v h3
                          · exact absurd h (valOf_inPlace _ v)
  | relabelTotal i => rcases h with h | h
                      · exact absurd h (inPlaceOf_val _ v)
                      · simp only [eval, inPlaceOf_inPlace, bind1_ok] at h; obtain ⟨a, _, h3⟩ := h
                        exact UnitsP.relabelTotal a v h3
  | relabelElement i => rcases h with h | h
                        · exact absurd h (inPlaceOf_val _ v)
                        · simp only [eval, inPlaceOf_inPlace, bind1_ok] at h; obtain ⟨a, _, h3⟩ := h
                          exact UnitsP.relabelElement a v h3
  | relabelList i => rcases h with h | h
                     · exact absurd h (inPlaceOf_val _ v)
                     · simp only [eval, inPlaceOf_inPlace, bind1_ok] at h; obtain ⟨a, _, h3⟩ := h
                       exact UnitsP.relabelList a v h3
  | setUnits i ku fu pu => rcases h with h | h
                           · exact absurd h (inPlaceOf_val _ v)
                           · simp only [eval, inPlaceOf_inPlace, bind1_ok, Except.ok.injEq] at h; obtain ⟨a, _, h3⟩ := h
                             subst h3; rfl
  | getUnits i => rcases h with h | h
                  · exact absurd h (inPlaceOf_val _ v)
                  · simp only [eval, inPlaceOf_inPlace, bind1_ok, Except.ok.injEq] at h; obtain ⟨a, _, h3⟩ := h
                    subst h3; rfl
  | pred2 p i j => rcases h with h | h
                   · exact absurd h (boolOf_val _ v)
                   · exact absurd h (boolOf_inPlace _ v)
  | pred1 p i => rcases h with h | h
                 · exact absurd h (boolOf_val _ v)
                 · exact absurd h (boolOf_inPlace _ v)
  | geZero i thr => rcases h with h | h
                    · exact absurd h (boolOf_val _ v)
                    · exact absurd h (boolOf_inPlace _ v)
  | minNutrient i => rcases h with h | h <;> (simp only [eval] at h; split at h <;> simp at h)
  | maxNutrient i => rcases h with h | h <;> (simp only [eval] at h; split at h <;> simp at h)
  | labelQ q i => rcases h with h | h <;> (simp only [eval] at h; split at h <;> simp at h)

theorem step_ok (cfg : Cfg α) (op : Op α) (s s' : State α) (h : step cfg op s = .ok s') :
    ∃ o, eval cfg op s = .ok o ∧ s' = applyOut op o s := by
  unfold step at h
  split at h
  · rename_i o ho
    simp only [Except.ok.injEq] at h
    exact ⟨o, ho, h.symm⟩
  · simp at h

/-- one accepted step keeps all registers correctly labelled (setters excluded) -/
theorem step_allOK (cfg : Cfg α) (op : Op α) (s s' : State α) (hs : AllOK s) (hset : op.isSetter = false)
    (ha : op.argsOK = true) (h : step cfg op s = .ok s') : AllOK s' := by
  obtain ⟨o, ho, rfl⟩ := step_ok cfg op s s' h
  cases o with
  | val v =>
    intro x hx
    simp only [applyOut, List.mem_append, List.mem_singleton] at hx
    rcases hx with hx | rfl
    · exact hs x hx
    · exact (eval_closed cfg op s x hs ha ho).1
  | inPlace v =>
    have := eval_inPlace_isSetter cfg op s v ho
    rw [hset] at this; exact absurd this (by simp)
  | bool b => exact hs
  | nutrient i x => exact hs
  | labels l => exact hs

/-- one accepted step of ANY operation keeps `units = labels` in all registers -/
theorem step_allAgree (cfg : Cfg α) (op : Op α) (s s' : State α) (hs : AllAgree s)
    (h : step cfg op s = .ok s') : AllAgree s' := by
  obtain ⟨o, ho, rfl⟩ := step_ok cfg op s s' h
  cases o with
  | val v =>
    intro x hx
    simp only [applyOut, List.mem_append, List.mem_singleton] at hx
    rcases hx with hx | rfl
    · exact hs x hx
    · exact eval_units cfg op s x (Or.inl ho)
  | inPlace v =>
    intro x hx
    simp only [applyOut] at hx
    rcases List.mem_or_eq_of_mem_set hx with hx | rfl
    · exact hs x hx
    · exact eval_units cfg op s x (Or.inr ho)
  | bool b => exact hs
  | nutrient i x => exact hs
  | labels l => exact hs

/-- the operations of a sequence that the closure theorem covers: no setter, arguments in range -/
def SeqOK (ops : List (Op α)) : Prop := ∀ op ∈ ops, op.isSetter = false ∧ op.argsOK = true

theorem runSkip_allOK (cfg : Cfg α) (ops : List (Op α)) (s : State α) (hs : AllOK s) (hops : SeqOK ops) :
    AllOK (runSkip cfg ops s) := by
  induction ops generalizing s with
  | nil => exact hs
  | cons op t ih =>
    have hop := hops op (by simp)
    have ht : SeqOK t := fun o ho => hops o (by simp [ho])
    unfold runSkip
    split
    · rename_i s' hstep
      exact ih s' (step_allOK cfg op s s' hs hop.1 hop.2 hstep) ht
    · exact ih s hs ht

theorem run_allOK (cfg : Cfg α) (ops : List (Op α)) (s s' : State α) (hs : AllOK s) (hops : SeqOK ops)
    (h : run cfg ops s = .ok s') : AllOK s' := by
  induction ops generalizing s with
  | nil => simp only [run, Except.ok.injEq] at h; subst h; exact hs
  | cons op t ih =>
    have hop := hops op (by simp)
    have ht : SeqOK t := fun o ho => hops o (by simp [ho])
    unfold run at h
    split at h
    · rename_i s1 hstep
      exact ih s1 (step_allOK cfg op s s1 hs hop.1 hop.2 hstep) ht h
    · simp at h

theorem runSkip_allAgree (cfg : Cfg α) (ops : List (Op α)) (s : State α) (hs : AllAgree s) :
    AllAgree (runSkip cfg ops s) := by
  induction ops generalizing s with
  | nil => exact hs
  | cons op t ih =>
    unfold runSkip
    split
    · rename_i s' hstep
      exact ih s' (step_allAgree cfg op s s' hs hstep)
    · exact ih s hs

theorem run_allAgree (cfg : Cfg α) (ops : List (Op α)) (s s' : State α) (hs : AllAgree s)
    (h : run cfg ops s = .ok s') : AllAgree s' := by
  induction ops generalizing s with
  | nil => simp only [run, Except.ok.injEq] at h; subst h; exact hs
  | cons op t ih =>
    unfold run at h
    split at h
    · rename_i s1 hstep
      exact ih s1 (step_allAgree cfg op s s1 hs hstep) h
    · simp at h

/-- operands are never modified: an operation that is not a setter only appends (at most one) register;
    a setter changes only its own register, and there only the labels -/
theorem step_appends (cfg : Cfg α) (op : Op α) (s s' : State α) (hset : op.isSetter = false)
    (h : step cfg op s = .ok s') : s' = s ∨ ∃ v, s' = s ++ [v] := by
  obtain ⟨o, ho, rfl⟩ := step_ok cfg op s s' h
  cases o with
  | val v => exact Or.inr ⟨v, rfl⟩
  | inPlace v =>
    have := eval_inPlace_isSetter cfg op s v ho
    rw [hset] at this; exact absurd this (by simp)
  | bool b => exact Or.inl rfl
  | nutrient i x => exact Or.inl rfl
  | labels l => exact Or.inl rfl

theorem setter_numbers (cfg : Cfg α) (op : Op α) (s : State α) (v : FoodVal α)
    (h : eval cfg op s = .ok (.inPlace v)) :
    ∃ a, s[op.target % s.length]? = some a ∧ v.series = a.series ∧ v.kcals = a.kcals ∧ v.fat = a.fat ∧ v.protein = a.protein := by
  cases op with
  | relabelTotal i =>
    simp only [eval, inPlaceOf_inPlace, bind1_ok] at h; obtain ⟨a, h1, h3⟩ := h
    obtain ⟨rfl, _⟩ := relabelTotal_ok a v h3
    exact ⟨a, (reg_ok s i a).1 h1, rfl, rfl, rfl, rfl⟩
  | relabelElement i =>
    simp only [eval, inPlaceOf_inPlace, bind1_ok] at h; obtain ⟨a, h1, h3⟩ := h
    obtain ⟨rfl, _⟩ := relabelElement_ok a v h3
    exact ⟨a, (reg_ok s i a).1 h1, rfl, rfl, rfl, rfl⟩
  | relabelList i =>
    simp only [eval, inPlaceOf_inPlace, bind1_ok] at h; obtain ⟨a, h1, h3⟩ := h
    obtain ⟨rfl, _⟩ := relabelList_ok a v h3
    exact ⟨a, (reg_ok s i a).1 h1, rfl, rfl, rfl, rfl⟩
  | setUnits i ku fu pu =>
    simp only [eval, inPlaceOf_inPlace, bind1_ok, Except.ok.injEq] at h; obtain ⟨a, h1, h3⟩ := h
    subst h3
    exact ⟨a, (reg_ok s i a).1 h1, rfl, rfl, rfl, rfl⟩
  | getUnits i =>
    simp only [eval, inPlaceOf_inPlace, bind1_ok, Except.ok.injEq] at h; obtain ⟨a, h1, h3⟩ := h
    subst h3
    exact ⟨a, (reg_ok s i a).1 h1, rfl, rfl, rfl, rfl⟩
  | _ => first
    | exact absurd h (valOf_inPlace _ v)
    | exact absurd h (boolOf_inPlace _ v)
    | (simp only [eval] at h; split at h <;> simp at h)

theorem step_setter (cfg : Cfg α) (op : Op α) (s s' : State α) (hset : op.isSetter = true)
    (h : step cfg op s = .ok s') :
    s'.length = s.length ∧ (∀ k, k ≠ op.target % s.length → s'[k]? = s[k]?) ∧
    (∀ a v, s[op.target % s.length]? = some a → s'[op.target % s.length]? = some v →
        v.series = a.series ∧ v.kcals = a.kcals ∧ v.fat = a.fat ∧ v.protein = a.protein) := by
  obtain ⟨o, ho, rfl⟩ := step_ok cfg op s s' h
  cases o with
  | val v =>
    exfalso
    cases op <;> first
      | exact absurd ho (inPlaceOf_val _ v)
      | (simp [Op.isSetter] at hset)
  | inPlace v =>
    obtain ⟨a, h1, h2⟩ := setter_numbers cfg op s v ho
    refine ⟨by simp [applyOut], ?_, ?_⟩
    · intro k hk
      simp only [applyOut]
      rw [List.getElem?_set_ne (Ne.symm hk)]
    · intro a' v' ha' hv'
      simp only [applyOut] at hv'
      have hlt : op.target % s.length < s.length := by
        have := List.getElem?_eq_some_iff.1 h1
        exact this.1
      rw [List.getElem?_set_self hlt] at hv'
      simp only [Option.some.injEq] at hv'
      subst hv'
      rw [h1] at ha'
      simp only [Option.some.injEq] at ha'
      subst ha'
      exact h2
  | bool b => exact ⟨rfl, fun _ _ => rfl, fun a v ha hv => by
      simp only [applyOut] at hv; rw [ha] at hv; simp only [Option.some.injEq] at hv; subst hv; exact ⟨rfl, rfl, rfl, rfl⟩⟩
  | nutrient i x => exact ⟨rfl, fun _ _ => rfl, fun a v ha hv => by
      simp only [applyOut] at hv; rw [ha] at hv; simp only [Option.some.injEq] at hv; subst hv; exact ⟨rfl, rfl, rfl, rfl⟩⟩
  | labels l => exact ⟨rfl, fun _ _ => rfl, fun a v ha hv => by
      simp only [applyOut] at hv; rw [ha] at hv; simp only [Option.some.injEq] at hv; subst hv; exact ⟨rfl, rfl, rfl, rfl⟩⟩


/-! ## different units are refused -/

theorem units_beq_false {a b : FoodVal α} (h : a.units ≠ b.units) : (a.units == b.units) = false := by
  simpa using h

theorem add_reject (a b : FoodVal α) (h : a.units ≠ b.units) : add a b = .error .assert := by
  unfold add; exact guard'_false _ _ _ (units_beq_false h)
theorem sub_reject (a b : FoodVal α) (h : a.units ≠ b.units) : sub a b = .error .assert := by
  unfold sub; exact guard'_false _ _ _ (units_beq_false h)
theorem div_reject (a b : FoodVal α) (h : a.units ≠ b.units) : div a b = .error .assert := by
  unfold div; exact guard'_false _ _ _ (units_beq_false h)
theorem minElem_reject (a b : FoodVal α) (h : a.units ≠ b.units) : minElem a b = .error .assert := by
  unfold minElem; exact guard'_false _ _ _ (units_beq_false h)

theorem pred2_reject (cfg : Cfg α) (p : Pred2) (a b : FoodVal α) (hp : p ≠ .allLE) (h : a.units ≠ b.units) :
    evalPred2 cfg p a b = .error .assert := by
  have hb := units_beq_false h
  cases p <;> first
    | exact absurd rfl hp
    | simp [evalPred2, eqFood, neFood, allGT, allLT, allGE, allCmp, anyGT, anyLT, anyGE, anyLE, guard', hb]

/-- `all_less_than_or_equal_to` (which also accepts a single value against a series) refuses different
    units between quantities of the same shape -/
theorem allLE_reject (iF iP : Bool) (a b : FoodVal α) (hs : a.series = b.series) (h : a.units ≠ b.units) :
    allLE iF iP a b = .error .assert := by
  have hb := units_beq_false h
  unfold allLE
  cases hsa : a.series <;> (rw [hsa] at hs; simp [← hs, hb])

/-! ## multiplication by a dimensionless ratio -/

theorem mul_ratio_left (r x v : FoodVal α) (hr : LabelOK r) (hx : LabelOK x) (hnx : x.isRatio = false)
    (h : mul r x = .ok v) : v.ku = x.ku ∧ v.fu = x.fu ∧ v.pu = x.pu := by
  have := mul_closed r x v hr hx h
  obtain ⟨_, _, h3, h4, h5⟩ := this
  unfold mulLabelsOf at h3 h4 h5
  simp only [hnx, Bool.false_eq_true, if_false, ite_self] at h3 h4 h5
  exact ⟨h3, h4, h5⟩

theorem mul_ratio_right (x r v : FoodVal α) (hx : LabelOK x) (hr : LabelOK r) (hrr : r.isRatio = true)
    (hnx : x.isRatio = false) (h : mul x r = .ok v) : v.ku = x.ku ∧ v.fu = x.fu ∧ v.pu = x.pu := by
  have := mul_closed x r v hx hr h
  obtain ⟨_, _, h3, h4, h5⟩ := this
  unfold mulLabelsOf at h3 h4 h5
  by_cases hc : (!x.series && r.series) = true
  · -- a single non-ratio value times a series is refused
    exfalso
    simp only [Bool.and_eq_true, Bool.not_eq_true'] at hc
    unfold mul at h
    simp [hc.1, hc.2, guard', hnx] at h
  · simp only [hc, hrr, if_true, if_false, Bool.false_eq_true] at h3 h4 h5
    exact ⟨h3, h4, h5⟩

theorem length_of_zipWith_eq (f : α → α → α) (l1 l2 : List α) (h : l1.length = l2.length) :
    (List.zipWith f l1 l2).length = l1.length := by
  simp [h]

/-- combining the numbers succeeds exactly when two series have the same number of months -/
theorem combine_isOk (f : α → α → α) (a b : FoodVal α) (ku fu pu : Label) (ha : LabelOK a) (hb : LabelOK b) :
    (∃ v, combine f a b ku fu pu = .ok v) ↔ (a.series = true → b.series = true → a.kcals.length = b.kcals.length) := by
  unfold combine
  cases hsa : a.series <;> cases hsb : b.series
  · simp [bop, build]
  · obtain ⟨h0, h1, h2⟩ := hb.lengths hsb
    simp [bop, build, buildSeries, guard', h0, h1, h2]
  · obtain ⟨h0, h1, h2⟩ := ha.lengths hsa
    simp [bop, build, buildSeries, guard', h0, h1, h2]
  · obtain ⟨h0, h1, h2⟩ := ha.lengths hsa
    obtain ⟨g0, g1, g2⟩ := hb.lengths hsb
    by_cases hl : a.kcals.length = b.kcals.length
    · have e1 : a.fat.length = b.fat.length := by omega
      have e2 : a.protein.length = b.protein.length := by omega
      have L1 : (List.zipWith f a.kcals b.kcals).length = a.kcals.length := by simp [hl]
      have L2 : (List.zipWith f a.fat b.fat).length = a.kcals.length := by simp [← e1, h1]
      have L3 : (List.zipWith f a.protein b.protein).length = a.kcals.length := by simp [← e2, h2]
      simp only [bop, hl, e1, e2, beq_self_eq_true, if_true, Bool.or_self, build, buildSeries, guard', L1, L2, L3,
        Bool.and_self, decide_eq_true h0]
      simp [g0]
    · simp [bop, hl]

/-- `r * x` is accepted exactly when `x * r` is -/
theorem mul_accept_symm (r x : FoodVal α) (hr : LabelOK r) (hx : LabelOK x) (hrr : r.isRatio = true)
    (hnx : x.isRatio = false) : (∃ v, mul r x = .ok v) ↔ (∃ w, mul x r = .ok w) := by
  have vr := hr.validate
  have vx := hx.validate
  unfold mul
  cases hsr : r.series <;> cases hsx : x.series <;>
    simp only [hsr, hsx, hrr, hnx, vr, vx, guard', Bool.not_false, Bool.not_true, if_true, if_false,
      Bool.false_eq_true, Bool.or_true, Bool.true_or, Bool.or_false, Bool.false_or]
  all_goals first
    | (rw [combine_isOk _ r x _ _ _ hr hx, combine_isOk _ x r _ _ _ hx hr]
       simp only [hsr, hsx, forall_true_left, Bool.false_eq_true, false_implies, implies_true]
       try exact ⟨Eq.symm, Eq.symm⟩)

/-! ## well-labelled operands with compatible lengths never reach a corner the model does not predict -/

/-- `r` fails, if at all, with an assertion error -/
def OnlyAssert {β : Type} (r : Except Err β) : Prop := ∀ e, r = .error e → e = .assert

theorem OnlyAssert.guard {β : Type} (c : Bool) (k : Except Err β) (h : OnlyAssert k) : OnlyAssert (guard' c .assert k) := by
  intro e he
  rcases guard'_err _ _ _ _ he with h1 | h1
  · exact h1.2
  · exact h e h1.2

theorem OnlyAssert.ite {β : Type} (c : Prop) [Decidable c] (x y : Except Err β) (hx : OnlyAssert x) (hy : OnlyAssert y) :
    OnlyAssert (if c then x else y) := by
  split <;> assumption

theorem OnlyAssert.combine (f : α → α → α) (a b : FoodVal α) (ku fu pu : Label) (ha : LabelOK a) (hb : LabelOK b)
    (hl : a.series = true → b.series = true → a.kcals.length = b.kcals.length) : OnlyAssert (combine f a b ku fu pu) := by
  intro e he
  obtain ⟨v, hv⟩ := (combine_isOk f a b ku fu pu ha hb).2 hl
  rw [hv] at he; simp at he

/-- the lengths of two quantities are compatible -/
def Compatible (a b : FoodVal α) : Prop := a.series = true → b.series = true → a.kcals.length = b.kcals.length

theorem add_onlyAssert (a b : FoodVal α) (ha : LabelOK a) (hb : LabelOK b) (hl : Compatible a b) : OnlyAssert (add a b) := by
  unfold add; exact OnlyAssert.guard _ _ (OnlyAssert.combine _ a b _ _ _ ha hb hl)
theorem sub_onlyAssert (a b : FoodVal α) (ha : LabelOK a) (hb : LabelOK b) (hl : Compatible a b) : OnlyAssert (sub a b) := by
  unfold sub; exact OnlyAssert.guard _ _ (OnlyAssert.combine _ a b _ _ _ ha hb hl)
theorem div_onlyAssert (a b : FoodVal α) (ha : LabelOK a) (hb : LabelOK b) (hl : Compatible a b) : OnlyAssert (div a b) := by
  unfold div
  refine OnlyAssert.guard _ _ (OnlyAssert.ite _ _ _ ?_ ?_)
  · exact OnlyAssert.guard _ _ (OnlyAssert.guard _ _ (OnlyAssert.guard _ _ (OnlyAssert.combine _ a b _ _ _ ha hb hl)))
  · exact OnlyAssert.guard _ _ (OnlyAssert.combine _ a b _ _ _ ha hb hl)
theorem mul_onlyAssert (a b : FoodVal α) (ha : LabelOK a) (hb : LabelOK b) (hl : Compatible a b) : OnlyAssert (mul a b) := by
  have hc : ∀ ku fu pu, OnlyAssert (combine (· * ·) a b ku fu pu) := fun ku fu pu => OnlyAssert.combine _ a b ku fu pu ha hb hl
  unfold mul
  repeat (first | exact hc _ _ _ | apply OnlyAssert.guard | apply OnlyAssert.ite)
theorem minElem_onlyAssert (a b : FoodVal α) (ha : LabelOK a) (hb : LabelOK b) (hl : Compatible a b) :
    OnlyAssert (minElem a b) := by
  unfold minElem
  intro e he
  rcases guard'_err _ _ _ _ he with h1 | h1
  · exact h1.2
  · have hs := series_eq_of_units_eq ha hb (units_bool h1.1)
    simp only [hs, beq_self_eq_true, if_true] at h1
    exact OnlyAssert.combine _ a b _ _ _ ha hb hl e h1.2

end

/-! ## the comparison predicates: a single value and the equal one-month series -/

section
variable {K : Type} [Field K] [LinearOrder K] [IsStrictOrderedRing K]

theorem relOf_true_false (c : Cmp) (x y : K) : relOf c true x y = relOf c false x y := by
  cases c <;> simp [relOf, cmpDiff, cmpDirect]

theorem scalar_fields (a : FoodVal K) (ha : LabelOK a) (hs : a.series = false) :
    ∃ k f p, a.kcals = [k] ∧ a.fat = [f] ∧ a.protein = [p] := by
  have := ha.shape
  simp only [shapeOK, hs, Bool.false_eq_true, if_false, Bool.and_eq_true, beq_iff_eq] at this
  obtain ⟨k, hk⟩ := List.length_eq_one_iff.1 this.1.1
  obtain ⟨f, hf⟩ := List.length_eq_one_iff.1 this.1.2
  obtain ⟨p, hp⟩ := List.length_eq_one_iff.1 this.2
  exact ⟨k, f, p, hk, hf, hp⟩

theorem addEach_inj (l l' : Label) : l.addEach = l'.addEach ↔ l = l' := by
  cases l; cases l'
  simp [Label.addEach]

theorem asSeries_units_beq (a b : FoodVal K) (ha : LabelOK a) (hb : LabelOK b) :
    ((asSeries a).units == (asSeries b).units) = (a.units == b.units) := by
  rw [Bool.eq_iff_iff]
  simp only [beq_iff_eq, asSeries, ha.units, hb.units, List.cons.injEq, addEach_inj, and_true]

theorem asSeries_validate (a : FoodVal K) (ha : LabelOK a) (hs : a.series = false) : validate (asSeries a) = true := by
  obtain ⟨k, f, p, hk, hf, hp⟩ := scalar_fields a ha hs
  simp [validate, asSeries, FoodVal.allEach, Label.hasEach, Label.addEach, hk, hf, hp]

theorem scalar_validate (a : FoodVal K) (hs : a.series = false) : validate a = true := by
  simp [validate, hs]

theorem pred2_asSeries (a b : FoodVal K) (ha : LabelOK a) (hb : LabelOK b) (hsa : a.series = false) (hsb : b.series = false)
    (rel : Bool → K → K → Bool) (anyQ : Bool) (comb : Bool → Bool → Bool → Bool)
    (hrel : ∀ x y, rel true x y = rel false x y) :
    pred2 (asSeries a) (asSeries b) rel anyQ comb = pred2 a b rel anyQ comb := by
  obtain ⟨k, f, p, hk, hf, hp⟩ := scalar_fields a ha hsa
  obtain ⟨k', f', p', hk', hf', hp'⟩ := scalar_fields b hb hsb
  cases anyQ <;> simp [pred2, pairs, asSeries, hsa, hsb, hk, hf, hp, hk', hf', hp', hrel]

/-- each of the ten binary predicates gives the same answer (or the same refusal) -/
theorem evalPred2_asSeries (cfg : Cfg K) (p : Pred2) (a b : FoodVal K) (ha : LabelOK a) (hb : LabelOK b)
    (hsa : a.series = false) (hsb : b.series = false) :
    evalPred2 cfg p (asSeries a) (asSeries b) = evalPred2 cfg p a b := by
  have hu := asSeries_units_beq a b ha hb
  have hv := asSeries_validate a ha hsa
  have hv' := scalar_validate a hsa
  have hr : ∀ c, ∀ x y : K, relOf c true x y = relOf c false x y := relOf_true_false
  cases p
  case allLE =>
    obtain ⟨k, f, p, hk, hf, hp⟩ := scalar_fields a ha hsa
    obtain ⟨k', f', p', hk', hf', hp'⟩ := scalar_fields b hb hsb
    simp only [evalPred2, allLE]
    have e1 : (asSeries a).series = true := rfl
    have e2 : (asSeries b).series = true := rfl
    simp only [e1, e2, hsa, hsb, Bool.not_true, Bool.not_false, Bool.and_self, Bool.and_false, Bool.false_and,
      Bool.false_eq_true, if_false, if_true, hu]
    cases hue : (a.units == b.units)
    · rfl
    · simp [pairsLE, pairs, asSeries, hk, hf, hp, hk', hf', hp']
  all_goals
    simp only [evalPred2, eqFood, neFood, allGT, allLT, allGE, allCmp, anyGT, anyLT, anyGE, anyLE, hu, hv, hv']
    rw [pred2_asSeries a b ha hb hsa hsb]
    intro x y
    first | rfl | exact hr _ x y

theorem pred1_asSeries (a : FoodVal K) (rel : K → Bool) (anyQ : Bool) (comb : Bool → Bool → Bool → Bool) :
    pred1 (asSeries a) rel anyQ comb = pred1 a rel anyQ comb := rfl

/-- each of the unary predicates gives the same answer -/
theorem evalPred1_asSeries (cfg : Cfg K) (p : Pred1) (a : FoodVal K) (ha : LabelOK a) (hsa : a.series = false) :
    evalPred1 cfg p (asSeries a) = evalPred1 cfg p a := by
  have hv := asSeries_validate a ha hsa
  have hv' := scalar_validate a hsa
  cases p
  case isRatio => simp [evalPred1, FoodVal.isRatio, asSeries, Label.isRatio, Label.addEach]
  case isPercent => simp [evalPred1, FoodVal.isPercent, asSeries, Label.isPercent, Label.addEach]
  all_goals
    simp only [evalPred1, neverNegative, allEqZero, anyEqZero, allGTZero, anyGTZero, hv, hv', pred1_asSeries, guard', if_true]

theorem allGEZero_asSeries (iF iP : Bool) (a : FoodVal K) (thr : K) (ha : LabelOK a) (hsa : a.series = false) :
    allGEZero iF iP (asSeries a) thr = allGEZero iF iP a thr := by
  have hv := asSeries_validate a ha hsa
  have hv' := scalar_validate a hsa
  simp only [allGEZero, hv, hv', pred1_asSeries, guard', if_true]

end
end Allfed.Proofs.FoodP
