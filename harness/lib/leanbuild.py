"""lake build + axiom audit + forbidden-word grep for the Lean side."""
import fcntl, os, re, subprocess, tempfile, time

ROOT = os.environ.get("VERIF_ROOT", "/verif")
LEAN = os.path.join(ROOT, "lean")
ALLOWED_AXIOMS = {"propext", "Classical.choice", "Quot.sound"}
FORBIDDEN = re.compile(r"\b(sorry|admit|native_decide|bv_decide|implemented_by|unsafe)\b|^\s*axiom\s|maxHeartbeats\s+0\b")


class Lock:
    """exclusive lock on the Lake project, re-entrant within one process (translators + build + audit of one check form one critical
    section, so that a concurrent check of ANOTHER tree cannot swap the generated tables between this check's translation and its build)"""
    _depth = 0
    _f = None

    def __enter__(self):
        if Lock._depth == 0:
            os.makedirs(os.path.join(LEAN, ".lake"), exist_ok=True)
            Lock._f = open(os.path.join(LEAN, ".lake", "verif.lock"), "w")
            fcntl.flock(Lock._f, fcntl.LOCK_EX)
        Lock._depth += 1
        return self

    def __exit__(self, *a):
        Lock._depth -= 1
        if Lock._depth == 0:
            fcntl.flock(Lock._f, fcntl.LOCK_UN)
            Lock._f.close()
            Lock._f = None


def build(targets, timeout=3000, copy_exe=None):
    """returns (ok, log, seconds).  Builds only the named modules/targets and what they import.
    copy_exe=(name, dest): after a successful build, and still under the lock, copy the executable to `dest`, so that the
    caller runs a private copy that no concurrent check can relink under its feet."""
    import shutil
    t0 = time.time()
    with Lock():
        p = subprocess.run(["lake", "build"] + list(targets), cwd=LEAN, capture_output=True, text=True, timeout=timeout)
        if p.returncode == 0 and copy_exe:
            src = os.path.join(LEAN, ".lake", "build", "bin", copy_exe[0])
            shutil.copy2(src, copy_exe[1])
    return p.returncode == 0, (p.stdout + p.stderr), time.time() - t0


def strip_comments(src):
    # remove /- ... -/ (nested) and -- ... comments and string literals (rough but conservative)
    out = []
    i = 0
    depth = 0
    n = len(src)
    while i < n:
        if src.startswith("/-", i):
            depth += 1
            i += 2
            continue
        if depth and src.startswith("-/", i):
            depth -= 1
            i += 2
            continue
        if depth:
            if src[i] == "\n":
                out.append("\n")
            i += 1
            continue
        if src.startswith("--", i):
            while i < n and src[i] != "\n":
                i += 1
            continue
        if src[i] == '"':
            i += 1
            while i < n and src[i] != '"':
                i += 2 if src[i] == "\\" else 1
            i += 1
            out.append('""')
            continue
        out.append(src[i])
        i += 1
    return "".join(out)


def forbidden_words():
    """grep the whole Lean tree (comments and strings discarded); returns list of (file, line, text)."""
    hits = []
    for base, dirs, files in os.walk(LEAN):
        dirs[:] = [d for d in dirs if d != ".lake"]
        for fn in files:
            if not fn.endswith(".lean"):
                continue
            p = os.path.join(base, fn)
            body = strip_comments(open(p).read())
            for k, line in enumerate(body.split("\n"), 1):
                if FORBIDDEN.search(line):
                    hits.append((os.path.relpath(p, LEAN), k, line.strip()[:160]))
    return hits


def audit(modules, theorems, timeout=1200):
    """#print axioms for each theorem.  Returns {name: {'ok': bool, 'axioms': [...], 'error': str|None}}"""
    res = {}
    if not theorems:
        return res
    src = "".join("import %s\n" % m for m in modules)
    for t in theorems:
        src += "#print axioms %s\n" % t
    with tempfile.NamedTemporaryFile("w", suffix=".lean", dir=os.path.join(LEAN, "Audit"), delete=False) as f:
        f.write(src)
        path = f.name
    try:
        with Lock():
            p = subprocess.run(["lake", "env", "lean", path], cwd=LEAN, capture_output=True, text=True, timeout=timeout)
        out = p.stdout + p.stderr
    finally:
        os.unlink(path)
    # messages: "'Name' depends on axioms: [a, b]" | "'Name' does not depend on any axioms" | error: unknown constant
    flat = re.sub(r"\s+", " ", out)
    for t in theorems:
        m = re.search(r"'%s' depends on axioms: \[([^\]]*)\]" % re.escape(t), flat)
        if m:
            ax = [a.strip() for a in m.group(1).split(",") if a.strip()]
            bad = [a for a in ax if a not in ALLOWED_AXIOMS]
            res[t] = {"ok": not bad, "axioms": ax, "error": ("disallowed axioms: %s" % bad) if bad else None}
        elif re.search(r"'%s' does not depend on any axioms" % re.escape(t), flat):
            res[t] = {"ok": True, "axioms": [], "error": None}
        else:
            res[t] = {"ok": False, "axioms": [], "error": "no axiom report (missing or failed): " + flat[:300]}
    return res


def leanchecker(modules, timeout=3000):
    """Lean's independent re-checker of compiled .olean files; returns (rc, output, seconds)"""
    t0 = time.time()
    with Lock():
        p = subprocess.run(["lake", "env", "leanchecker"] + list(modules), cwd=LEAN, capture_output=True, text=True, timeout=timeout)
    return p.returncode, p.stdout + p.stderr, time.time() - t0
