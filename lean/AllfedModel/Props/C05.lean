import AllfedModel.Model.Coupling
import AllfedModel.Gen.SpeciesClasses
import AllfedModel.Props.C18
import Mathlib.Algebra.Order.Field.Basic
import Mathlib.Tactic.Linarith
import Mathlib.Tactic.Ring
import Mathlib.Tactic.NormNum
import Mathlib.Tactic.Positivity
import Mathlib.Algebra.Order.Field.Rat
/-!
# C05 — meat and milk offered to the optimiser match the simulated herds and the feed

`accumulate`/`meatMonth` are written the way `get_meat_produced` and
`calculate_meat_after_distribution_waste` are written (five accumulators, chickens and pigs
*assigned*, the size classes *added*); `meatSpec` says what the property says (every slaughtered
animal counts once at the per-head yield of its class, reduced by distribution waste).
The species table is regenerated from `species_attributes.csv` on every run.
-/
set_option linter.unusedVariables false
set_option linter.unusedSectionVars false

namespace Allfed.C05
open Allfed Allfed.Coupling

variable {K : Type} [Field K] [LinearOrder K] [IsStrictOrderedRing K]

def hasClass (c : MeatClass) (h : Herd K) : Bool := decide (classOf h.animalType h.animalSize = some c)

/-- slaughter of month `m` summed over the herds of class `c` -/
def classSum (c : MeatClass) (m : Nat) (herds : List (Herd K)) : K :=
  rsum ((herds.filter (hasClass c)).map fun h => h.slaughter.getD m 0)

/-- size classes are added up: the accumulator is the sum over the herds of that class -/
theorem accumulate_size_class (c : MeatClass) (hc : c = .small ∨ c = .medium ∨ c = .large) (m : Nat)
    (herds : List (Herd K)) (acc : K) :
    accumulate c m herds acc = acc + classSum c m herds := by
  induction herds generalizing acc with
  | nil => simp [accumulate, classSum, rsum]
  | cons h t ih =>
    unfold accumulate
    by_cases hk : classOf h.animalType h.animalSize = some c
    · rcases hc with rfl | rfl | rfl <;>
        (simp only [hk, if_true]; rw [ih]; simp [classSum, List.filter, hasClass, hk, rsum]; ring)
    · simp only [hk, if_false]
      rw [ih]
      simp [classSum, List.filter, hasClass, hk]

/-- chickens and pigs are *assigned*: correct as long as at most one herd has that class -/
theorem accumulate_assigned_class (c : MeatClass) (hc : c = .chicken ∨ c = .pig) (m : Nat)
    (herds : List (Herd K)) (acc : K) (h1 : (herds.filter (hasClass c)).length ≤ 1) :
    accumulate c m herds acc = if (herds.filter (hasClass c)).length = 0 then acc else classSum c m herds := by
  induction herds generalizing acc with
  | nil => simp [accumulate]
  | cons h t ih =>
    unfold accumulate
    by_cases hk : classOf h.animalType h.animalSize = some c
    · have hkc : hasClass c h = true := by simp [hasClass, hk]
      have hf : (t.filter (hasClass c)).length = 0 := by
        simp only [List.filter, hkc, List.length_cons] at h1
        omega
      have hnil : t.filter (hasClass c) = [] := List.eq_nil_of_length_eq_zero hf
      have ht := ih (h.slaughter.getD m 0) (by omega)
      rw [if_pos hf] at ht
      have hgoal : (if ((h :: t).filter (hasClass c)).length = 0 then acc else classSum c m (h :: t))
          = h.slaughter.getD m 0 := by
        simp [List.filter, hkc, classSum, hnil, rsum]
      rw [hgoal]
      rcases hc with rfl | rfl
      · simp only [hk, if_true]; exact ht
      · simp only [hk, if_true]; exact ht
    · have hkc : hasClass c h = false := by simp [hasClass, hk]
      simp only [hk, if_false]
      have h1' : (t.filter (hasClass c)).length ≤ 1 := by
        simpa [List.filter, hkc] using h1
      rw [ih acc h1']
      simp [classSum, List.filter, hkc]

theorem classSum_empty (c : MeatClass) (m : Nat) (herds : List (Herd K))
    (h : (herds.filter (hasClass c)).length = 0) : classSum c m herds = 0 := by
  have := List.eq_nil_of_length_eq_zero h
  simp [classSum, this, rsum]

/-- per-species formulation of the same sum -/
theorem spec_split (herds : List (Herd K)) (k : PerHead K) (m : Nat) :
    rsum (herds.map (herdMeat k m))
    = classSum .chicken m herds * k.chicken + classSum .pig m herds * k.pig + classSum .small m herds * k.small
      + classSum .medium m herds * k.medium + classSum .large m herds * k.large := by
  induction herds with
  | nil => simp [classSum, rsum]
  | cons h t ih =>
    simp only [List.map, rsum, ih]
    cases hc : classOf h.animalType h.animalSize with
    | none => simp [classSum, List.filter, hasClass, hc, herdMeat]
    | some c =>
      cases c <;> simp [classSum, List.filter, hasClass, hc, rsum, PerHead.get, herdMeat] <;> ring

/-- the code's five accumulators give exactly the per-species sum at each class's yield, reduced by
    distribution waste — provided at most one herd is of chicken type and at most one of pig type -/
theorem meatMonth_eq_spec (herds : List (Herd K)) (k : PerHead K) (wd : K) (m : Nat)
    (hch : (herds.filter (hasClass .chicken)).length ≤ 1) (hpg : (herds.filter (hasClass .pig)).length ≤ 1) :
    meatMonth herds k wd m = meatSpec herds k wd m := by
  unfold meatMonth meatSpec
  rw [spec_split]
  rw [accumulate_size_class .small (by simp), accumulate_size_class .medium (by simp),
      accumulate_size_class .large (by simp), accumulate_assigned_class .chicken (by simp) m herds 0 hch,
      accumulate_assigned_class .pig (by simp) m herds 0 hpg]
  by_cases h1 : (herds.filter (hasClass .chicken)).length = 0 <;>
  by_cases h2 : (herds.filter (hasClass .pig)).length = 0 <;>
    simp [h1, h2, classSum_empty]

theorem classSum_nonneg (c : MeatClass) (m : Nat) (herds : List (Herd K))
    (hs : ∀ h ∈ herds, ∀ v ∈ h.slaughter, 0 ≤ v) : 0 ≤ classSum c m herds := by
  unfold classSum
  induction herds with
  | nil => simp [rsum]
  | cons h t ih =>
    have iht := ih (fun h' hh => hs h' (List.mem_cons_of_mem _ hh))
    by_cases hk : hasClass c h = true
    · simp only [List.filter, hk, List.map, rsum]
      have : 0 ≤ h.slaughter.getD m 0 := by
        rcases Nat.lt_or_ge m h.slaughter.length with hl | hl
        · rw [List.getD_eq_getElem _ _ hl]; exact hs h (by simp) _ (List.getElem_mem hl)
        · rw [List.getD_eq_default _ _ hl]
      exact add_nonneg this iht
    · simp only [Bool.not_eq_true] at hk
      simpa [List.filter, hk] using iht

/-- meat offered is non-negative for non-negative slaughter counts, yields and a waste ≤ 100 % -/
theorem meatSpec_nonneg (herds : List (Herd K)) (k : PerHead K) (wd : K) (m : Nat)
    (hs : ∀ h ∈ herds, ∀ v ∈ h.slaughter, 0 ≤ v)
    (hk : 0 ≤ k.chicken ∧ 0 ≤ k.pig ∧ 0 ≤ k.small ∧ 0 ≤ k.medium ∧ 0 ≤ k.large) (hw : wd ≤ 100) :
    0 ≤ meatSpec herds k wd m := by
  unfold meatSpec
  rw [spec_split]
  obtain ⟨h1, h2, h3, h4, h5⟩ := hk
  have hw' : (0 : K) ≤ 1 - wd / 100.0 := by norm_num; linarith
  have := classSum_nonneg .chicken m herds hs
  have := classSum_nonneg .pig m herds hs
  have := classSum_nonneg .small m herds hs
  have := classSum_nonneg .medium m herds hs
  have := classSum_nonneg .large m herds hs
  positivity

/-- milk energy is the milking-herd size times a constant: yield, energy density and the two waste factors -/
theorem milkMonth_linear (p y mk wd wr : K) :
    milkMonth p y mk wd wr = p * (y / 12 / 1000 * 1000 * mk / 1000000000 * (1 - wd / 100) * (1 - wr / 100)) := by
  unfold milkMonth
  norm_num
  ring

/-- in the feed-maximising round slaughter is deliberately re-timed: the total is preserved (C18) -/
theorem round2_total_preserved (r1 r2 out : List K) (hl : r1.length = r2.length)
    (h : Handoff.redistribute r1 r2 = some out) : out.sum = r2.sum :=
  C18.redistribute_total r1 r2 out hl h

/-- the feed charged in the final round is never less than what the herds ate: the charge is the
    herds' feed use passed through `increase_biofuels_then_feed`, which never lowers it (C18) -/
theorem charge_ge_eaten (biofuel eaten increase maxB maxF avail : K) :
    eaten ≤ (Handoff.bump1 biofuel eaten increase maxB maxF avail).2 :=
  (C18.bump_never_lowers biofuel eaten increase maxB maxF avail).2

/-- the per-head yields are positive for positive carcass weights (so more slaughter is more meat),
    and an override of the large-animal carcass weight changes the large class only -/
theorem perHead_pos (kc kp : K) (ov : Option K) (hc : 0 < kc) (hp : 0 < kp) (ho : ∀ v, ov = some v → 0 < v) :
    let k := perHeadOf kc kp ov
    0 < k.chicken ∧ 0 < k.pig ∧ 0 < k.small ∧ 0 < k.medium ∧ 0 < k.large := by
  cases ov with
  | none => simp only [perHeadOf]; norm_num; exact ⟨by positivity, by positivity⟩
  | some v =>
    have hv := ho v rfl
    simp only [perHeadOf]; norm_num; exact ⟨by positivity, by positivity, by positivity⟩

theorem perHead_override_frame (kc kp v : K) :
    (perHeadOf kc kp (some v)).chicken = (perHeadOf kc kp none).chicken ∧
    (perHeadOf kc kp (some v)).pig = (perHeadOf kc kp none).pig ∧
    (perHeadOf kc kp (some v)).small = (perHeadOf kc kp none).small ∧
    (perHeadOf kc kp (some v)).medium = (perHeadOf kc kp none).medium ∧
    (perHeadOf kc kp (some v)).large = 2750 * v / 1000000000 := by
  simp only [perHeadOf]; norm_num

/-! ## the species table as it is now (regenerated from `species_attributes.csv`) -/

/-- every species of the table falls into exactly one slaughter class, types are distinct, and at
    most one species is of chicken type and one of pig type (hypotheses of `meatMonth_eq_spec`) -/
theorem classOf_total_on_table :
    (∀ s ∈ Gen.Species.species, (classOf s.1 s.2.2).isSome = true) ∧
    (Gen.Species.species.map (·.1)).Nodup ∧
    ((Gen.Species.species.filter fun s => classOf s.1 s.2.2 = some .chicken).length ≤ 1) ∧
    ((Gen.Species.species.filter fun s => classOf s.1 s.2.2 = some .pig).length ≤ 1) := by
  decide +kernel

/-- non-vacuity: two herds, one of them chicken -/
example : meatMonth ([⟨"chicken", "small", [3, 4], [10, 10]⟩, ⟨"meat_cattle", "large", [1, 2], [5, 5]⟩] : List (Herd ℚ))
    ⟨2, 0, 0, 0, 100⟩ 10 1 = (4 * 2 + 2 * 100) * (9 / 10) := by
  decide +kernel

end Allfed.C05
