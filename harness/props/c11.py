"""C11 - a food quantity's unit labels always describe its numbers (DESIGN.md §7 C11)."""
import copy, json
import numpy as np
from lib import wire
from lib.wire import f2b, fl, enc_str, Reader, close
from translators import tr_units

ID = "C11"
LEVEL = "proof"
LEVEL_TEXT = ("Lean 4 theorems about an executable model of class Food and of the label helpers of UnitConversions: every operation returns a quantity whose "
              "units list equals its three labels (unconditionally) and, on correctly labelled operands, a correctly labelled result with the documented "
              "labels (closure), lifted by induction to all finite operation sequences of a register machine; different units are refused; a ratio commutes; "
              "every comparison predicate agrees between a single value and the one-month series under the four include flags; "
              "model and real Food are run on the same random operation sequences on every check")
LEVEL_NOTE = ("Trusted: Lean kernel (propext/Classical.choice/Quot.sound), the correspondence harness, the label parser of the driver (real strings <-> base + "
              "suffix list; valid when no base name contains 'each month'/'per month', true of the generated vocabulary), exact arithmetic vs IEEE doubles "
              "(numbers compared at rel 1e-9; the label theorems do not depend on the numbers). numpy broadcasting between operands of different lengths, "
              "a single-valued kcals with list-valued fat, and ndarray*Food are outside the model.")
TECHNIQUE = "Lean 4 proof (closure + induction over operation sequences) + differential correspondence on random operation sequences with shrinking"
DRIVER = "driver_food"
LEAN_MODULES = ["AllfedModel.Props.C11"]
TRANSLATORS = [tr_units.run]
OBLIGATIONS = ["Allfed.C11." + n for n in [
    "C11_units_agree", "C11_closed", "C11_doc_labels", "C11_modelled", "C11_sequences", "C11_sequences_run", "C11_sequences_units",
    "C11_operands_unchanged", "C11_reject_mixed", "C11_ratio_commutes", "C11_ratio_keeps_label",
    "C11_predicates", "C11_predicates2", "C11_predicates1", "C11_geZero_scalar_series", "asSeries_labelOK", "render_addEach", "render_addPer",
    "C11_sum_label", "C11_month_label", "C11_index_label", "C11_quotient_label", "C11_setters_sync",
    "F1_stale_units_counterexample", "F2_ratio_label_counterexample", "F3_index_label_counterexample",
    "F4_doubled_suffix_counterexample", "F5_any_predicates_counterexample", "F5_all_gt_zero_counterexample",
    "F6_any_le_units_counterexample", "F7_threshold_counterexample", "vocabulary_bases_clean"]]
RULE = ("random operation sequences (construct / + - * / neg abs clip round shift / index slice month / sum running-sum min max elementwise-min / in_units and "
        "helpers / set_units_from_* setters / 17 predicates / min-max nutrient) of length <= 30 (quick) or <= 300 (thorough) over scalar and monthly quantities "
        "whose labels are drawn from the real unit vocabulary plus unknown names, under all four include_fat/include_protein settings; a case is one executed "
        "operation; non-trivial = the operation was accepted and returned a quantity or an answer; distinct = distinct (operation, operand labels, shapes, flags)")
ASSUMPTIONS = [
    "no base unit name contains the words 'each month' or 'per month' (checked for the 51 real names by the theorem vocabulary_bases_clean; imposed on generated names)",
    "closure is stated for correctly labelled operands (LabelOK); constructor arguments: scalar kcals with scalar fat/protein, or list kcals with list or int fat/protein, "
    "labels of one form, no 'each month' on a single value; in_units targets are plain unit names",
    "two monthly operands of one operation have the same number of months (numpy broadcasting of unequal lengths is not modelled; such steps are not generated)",
    "numbers: finite, no exact ties at the 5e-10 rounding threshold of all_equals_zero (near-ties are skipped and counted)",
]
TRUSTED = ["label parser of the driver (Driver/Ops/Food.lean:parseLabel) and its Python twin used for the argument pre-conditions",
           "np.round re-implemented at Float in the driver (rint(x*10^d)/10^d)"]

BASES_K = ["billion kcals", "billion people fed", "percent people fed", "million dry caloric tons", "kcals per person per day"]
BASES_F = ["thousand tons", "million tons", "billion people fed", "percent people fed", "effective kcals per person per day",
           "grams per person per day"]
UNKNOWN = ["g", "kcal", "kcals", "bogus unit", "ratio minimum global needs per year", "percent", "tons dry"]
EACH, PER = " each month", " per month"
HELPERS = {
    "in_units_billions_fed": ("billion people fed",) * 3,
    "in_units_percent_fed": ("percent people fed",) * 3,
    "in_units_kcals_equivalent": ("kcals per person per day", "effective kcals per person per day", "effective kcals per person per day"),
    "in_units_kcals_grams_grams_per_person": ("kcals per person per day", "grams per person per day", "grams per person per day"),
    "in_units_bil_kcals_thou_tons_thou_tons_per_month": ("billion kcals", "thousand tons", "thousand tons"),
}
PRED2 = {"eq": "__eq__", "ne": "__ne__", "allGT": "all_greater_than", "allLT": "all_less_than", "allGE": "all_greater_than_or_equal_to",
         "allLE": "all_less_than_or_equal_to", "anyGT": "any_greater_than", "anyLT": "any_less_than",
         "anyGE": "any_greater_than_or_equal_to", "anyLE": "any_less_than_or_equal_to"}
PRED1 = {"neverNegative": "is_never_negative", "allEqZero": "all_equals_zero", "anyEqZero": "any_equals_zero",
         "allGTZero": "all_greater_than_zero", "anyGTZero": "any_greater_than_zero", "isRatio": "is_a_ratio", "isPercent": "is_units_percent"}
LABELQ = {"units": None, "toTotal": "get_units_from_list_to_total", "toElement": "get_units_from_list_to_element",
          "toList": "get_units_from_element_to_list"}
VALUE_OPS = {"construct", "add", "sub", "mul", "div", "minElem", "mulNum", "divNum", "mulArr", "neg", "abs", "clip", "round", "shift",
             "getInt", "getSlice", "getMonth", "sum", "runningSum", "minAll", "maxAll", "inUnits"}
INPLACE_OPS = {"relabelTotal", "relabelElement", "relabelList", "setUnits", "getUnits"}
BINARY_UNIT_OPS = {"add", "sub", "div", "minElem"}
FLAGS = [(True, True), (True, False), (False, True), (False, False)]


# ------------------------------------------------------------------------------------------------
# labels (Python twin of the driver's parser, used only for the argument pre-conditions of the oracle)
def py_parse(s):
    sfx = []
    while True:
        if s.endswith(EACH):
            s, sfx = s[:-len(EACH)], ["each"] + sfx
        elif s.endswith(PER):
            s, sfx = s[:-len(PER)], ["per"] + sfx
        else:
            return s, sfx


def scalar_ok(lab):
    return "each" not in py_parse(lab)[1]


def series_ok_after_fix(lab):
    b, s = py_parse(lab)
    if "each" not in s:
        s = s + ["each"]
    return s[-1] == "each" and "each" not in s[:-1], s


def ctor_args_ok(op):
    """pre-condition of the closure theorem for `construct` (Allfed.Food.ctorArgsOK)"""
    labs = op["labels"]
    if op["kind"] == "scalar":
        forms = [py_parse(l)[1] for l in labs]
        return all(scalar_ok(l) for l in labs) and forms[0] == forms[1] == forms[2]
    oks = [series_ok_after_fix(l) for l in labs]
    return all(o[0] for o in oks) and oks[0][1] == oks[1][1] == oks[2][1]


# ------------------------------------------------------------------------------------------------
# observing the implementation
def is_series(fd):
    return isinstance(fd.kcals, (list, np.ndarray))


def nums(fd):
    def one(x):
        a = np.asarray(x, dtype=float)
        return [float(v) for v in np.atleast_1d(a).ravel()]
    return [one(fd.kcals), one(fd.fat), one(fd.protein)]


def snap(fd):
    """observable state of a Food object (deep)"""
    return {"series": bool(is_series(fd)), "nums": nums(fd), "labels": [str(fd.kcals_units), str(fd.fat_units), str(fd.protein_units)],
            "units": [str(u) for u in fd.units]}


def snap_bits(s):
    return (s["series"], tuple(tuple(f2b(x) for x in l) for l in s["nums"]), tuple(s["labels"]), tuple(s["units"]))


def snap_wire(s):
    return "%d %s %s %s %s %s %s %s" % (1 if s["series"] else 0, fl(s["nums"][0]), fl(s["nums"][1]), fl(s["nums"][2]),
                                        enc_str(s["labels"][0]), enc_str(s["labels"][1]), enc_str(s["labels"][2]),
                                        " ".join([str(len(s["units"]))] + [enc_str(u) for u in s["units"]]))


def extreme(s):
    for l in s["nums"]:
        for x in l:
            if not np.isfinite(x) or abs(x) > 1e120 or (x != 0 and abs(x) < 1e-120):
                return True
    return False


ERRS = {AssertionError: "assert", ValueError: "value", TypeError: "type", IndexError: "index"}


def err_kind(e):
    for t, k in ERRS.items():
        if isinstance(e, t):
            return k
    return "other:" + type(e).__name__


# ------------------------------------------------------------------------------------------------
# op encoding for the driver
def op_wire(op):
    n = op["op"]
    if n == "construct":
        labs = " ".join(enc_str(l) for l in op["labels"])
        if op["kind"] == "scalar":
            return "construct scalar %s %s" % (" ".join(f2b(x) for x in op["vals"]), labs)

        def sarg(a):
            if a[0] == "int":
                return "int"
            if a[0] == "num":
                return "num " + f2b(a[1])
            return "arr " + fl(a[1])
        return "construct series %s %s %s %s" % (fl(op["k"]), sarg(op["f"]), sarg(op["p"]), labs)
    if n in ("add", "sub", "mul", "div", "minElem"):
        return "%s %d %d" % (n, op["i"], op["j"])
    if n in ("mulNum", "divNum", "geZero"):
        return "%s %d %s" % (n, op["i"], f2b(op["c"]))
    if n == "mulArr":
        return "mulArr %d %s" % (op["i"], fl(op["arr"]))
    if n in ("neg", "abs", "clip", "sum", "runningSum", "minAll", "maxAll", "relabelTotal", "relabelElement", "relabelList", "getUnits",
             "minNutrient", "maxNutrient"):
        return "%s %d" % (n, op["i"])
    if n in ("round", "shift", "getInt", "getMonth"):
        return "%s %d %d" % (n, op["i"], op["k"])
    if n == "getSlice":
        return "getSlice %d %d %d" % (op["i"], op["lo"], op["hi"])
    if n in ("inUnits", "setUnits"):
        return "%s %d %s" % (n, op["i"], " ".join(enc_str(t) for t in op["to"]))
    if n == "pred2":
        return "pred2 %s %d %d" % (op["p"], op["i"], op["j"])
    if n in ("pred1", "labelQ"):
        return "%s %s %d" % (n, op["p"], op["i"])
    raise ValueError("op_wire: " + n)


def cfg_wire(cfg):
    iF, iP, st = cfg
    return "%d %d %s" % (1 if iF else 0, 1 if iP else 0, " ".join(f2b(x) for x in st))


def read_val(rd):
    ser = rd.bool()
    k, f, p = rd.floats(), rd.floats(), rd.floats()
    labs = [rd.str(), rd.str(), rd.str()]
    units = rd.strs()
    return {"series": ser, "nums": [k, f, p], "labels": labs, "units": units}


def read_trace(line):
    rd = Reader(line)
    n = rd.nat()
    out = []
    for _ in range(n):
        t = rd.tok()
        if t == "err":
            out.append(("err", rd.tok()))
            continue
        kind = rd.tok()
        if kind in ("val", "inplace"):
            out.append(("ok", kind, read_val(rd)))
        elif kind == "bool":
            out.append(("ok", "bool", rd.bool()))
        elif kind == "nutrient":
            out.append(("ok", "nutrient", (rd.nat(), rd.float())))
        elif kind == "labels":
            out.append(("ok", "labels", rd.strs()))
        else:
            raise RuntimeError("bad trace token " + kind)
    return out


# ------------------------------------------------------------------------------------------------
class Runner:
    """executes an operation list on the real Food class (a rejected operation leaves the pool unchanged)"""

    def __init__(self, cfg):
        from src.food_system.food import Food
        from src.food_system.unit_conversions import UnitConversions
        self.cfg = cfg
        iF, iP, st = cfg
        c = UnitConversions()
        c.set_nutrition_requirements(kcals_daily=st[0], fat_daily=st[1], protein_daily=st[2], include_fat=iF, include_protein=iP,
                                     population=st[3])
        Food.conversions = c
        self.Food = Food
        self.pool = []
        self.sid = []          # snapshot id of every register's current content
        self.snaps = []        # all snapshots taken (operands and results)
        self.kept = []         # operations actually executed (admissible ones)
        self.trace = []        # implementation's answer per kept op
        self.steps = []        # per kept op: dict(operands=[snap ids], result=snap id or None, mutated=[...])
        self.skipped = []

    def R(self, i):
        return self.pool[i % len(self.pool)]

    def idx(self, i):
        return i % len(self.pool)

    def admissible(self, op):
        n = op["op"]
        if n == "construct":
            return True
        if not self.pool:
            return False
        a = self.R(op["i"])
        sa = is_series(a)
        if "j" in op:
            b = self.R(op["j"])
            sb = is_series(b)
            if sa and sb and len(a.kcals) != len(b.kcals):
                return False  # numpy broadcasting of unequal lengths: not modelled
            same_units = list(a.units) == list(b.units)
            if n == "minElem" and same_units and sa != sb:
                return False
            if n == "pred2" and op["p"] != "allLE" and same_units and (not sa) and sb:
                return False
            if n in ("add", "sub", "mul", "div") and sa != sb and n != "mul":
                # single value against series with identical units: numpy broadcasts; modelled, but keep it rare
                pass
            if n == "div":
                if any(x == 0 for l in nums(b) for x in l):
                    return False
        if n == "divNum" and op["c"] == 0:
            return False
        if n == "mulArr" and sa and len(op["arr"]) != len(a.kcals):
            return False
        if n == "pred1" and op["p"] == "allEqZero":
            if any(abs(abs(x) - 5e-10) < 1e-12 for l in nums(a) for x in l):
                return False
        return True

    # -- one operation on the implementation ---------------------------------------------------
    def call(self, op):
        Food = self.Food
        n = op["op"]
        if n == "construct":
            if op["kind"] == "scalar":
                k, f, p = op["vals"]
                if op.get("ints"):
                    k, f, p = int(k), int(f), int(p)
                return "val", Food(k, f, p, *op["labels"])

            def sarg(a):
                if a[0] == "int":
                    return 0 if a[1] is None else int(a[1])
                if a[0] == "num":
                    return float(a[1])
                return np.array(a[1], dtype=float) if op.get("np") else [float(x) for x in a[1]]
            k = np.array(op["k"], dtype=float) if op.get("np") else [float(x) for x in op["k"]]
            return "val", Food(k, sarg(op["f"]), sarg(op["p"]), *op["labels"])
        a = self.R(op["i"])
        b = self.R(op["j"]) if "j" in op else None
        if n == "add":
            return "val", a + b
        if n == "sub":
            return "val", a - b
        if n == "mul":
            return "val", a * b
        if n == "div":
            return "val", a / b
        if n == "minElem":
            return "val", Food.min_elementwise(a, b)
        if n == "mulNum":
            return "val", (op["c"] * a if op.get("r") else a * op["c"])
        if n == "divNum":
            return "val", a / op["c"]
        if n == "mulArr":
            return "val", a * np.array(op["arr"], dtype=float)
        if n == "neg":
            return "val", -a
        if n == "abs":
            return "val", a.get_abs_values()
        if n == "clip":
            return "val", a.negative_values_to_zero()
        if n == "round":
            return "val", a.get_rounded_to_decimal(op["k"])
        if n == "shift":
            return "val", a.shift(op["k"])
        if n == "getInt":
            # the same index as a numpy integer (np.argmax, np.nonzero, a loop over np.arange hand these over): the model sees only the index
            k = getattr(np, op["npkey"])(op["k"]) if op.get("npkey") and (op["k"] >= 0 or not op["npkey"].startswith("u")) else op["k"]
            return "val", a[k]
        if n == "getSlice":
            return "val", a[op["lo"]:op["hi"]]
        if n == "getMonth":
            return "val", (a.get_first_month() if (op["k"] == 0 and op.get("first")) else a.get_month(op["k"]))
        if n == "sum":
            return "val", a.get_nutrients_sum()
        if n == "runningSum":
            return "val", a.get_running_total_nutrients_sum()
        if n == "minAll":
            return "val", a.get_min_all_months()
        if n == "maxAll":
            return "val", a.get_max_all_months()
        if n == "inUnits":
            if op.get("helper"):
                return "val", getattr(a, op["helper"])()
            return "val", a.in_units(*op["to"])
        if n == "relabelTotal":
            a.set_units_from_list_to_total()
            return "inplace", a
        if n == "relabelElement":
            a.set_units_from_list_to_element()
            return "inplace", a
        if n == "relabelList":
            a.set_units_from_element_to_list()
            return "inplace", a
        if n == "setUnits":
            a.set_units(*op["to"])
            return "inplace", a
        if n == "getUnits":
            got = a.get_units()
            assert list(got) == list(a.units)
            return "inplace", a
        if n == "pred2":
            return "bool", bool(getattr(a, PRED2[op["p"]])(b))
        if n == "pred1":
            return "bool", bool(getattr(a, PRED1[op["p"]])())
        if n == "geZero":
            return "bool", bool(a.all_greater_than_or_equal_to_zero(threshold=op["c"]) if op.get("kw", True)
                                else a.all_greater_than_or_equal_to_zero())
        if n == "minNutrient":
            name, v = a.get_min_nutrient()
            return "nutrient", (["kcals", "fat", "protein"].index(name), float(v))
        if n == "maxNutrient":
            name, v = a.get_max_nutrient()
            return "nutrient", (["kcals", "fat", "protein"].index(name), float(v))
        if n == "labelQ":
            if op["p"] == "units":
                return "labels", [str(u) for u in a.units]
            return "labels", [str(u) for u in getattr(a, LABELQ[op["p"]])()]
        raise ValueError("call: " + n)

    def step(self, op, quiet):
        """returns False if the op was not executed (inadmissible / extreme result)"""
        if not self.admissible(op):
            self.skipped.append(op["op"])
            return False
        n = op["op"]
        opi = []
        if n != "construct":
            opi = [self.idx(op["i"])] + ([self.idx(op["j"])] if "j" in op else [])
            op = dict(op, i=opi[0])       # record the resolved register numbers (readable replays)
            if "j" in op:
                op["j"] = opi[1]
        before = [snap(self.pool[i]) for i in opi]
        saved = [copy.deepcopy(self.pool[i]) for i in opi] if n in INPLACE_OPS else None
        try:
            with np.errstate(all="ignore"), quiet():
                kind, res = self.call(op)
            err = None
        except Exception as e:  # noqa
            kind, res, err = None, None, err_kind(e)
        after = [snap(self.pool[i]) for i in opi]
        mutated = []
        for k, (b, a) in enumerate(zip(before, after)):
            if n in INPLACE_OPS and err is None and k == 0:
                # a setter may change labels and the units list of its own register, never the numbers
                if snap_bits(b)[:2] != snap_bits(a)[:2]:
                    mutated.append(opi[k])
            elif snap_bits(b) != snap_bits(a):
                mutated.append(opi[k])
        st = {"operands": [self.sid[i] for i in opi], "result": None, "mutated": mutated, "before": before}
        if err is not None:
            self.kept.append(op)
            self.trace.append(("err", err))
            self.steps.append(st)
            return True
        if kind in ("val", "inplace"):
            s = snap(res)
            if extreme(s):
                if kind == "inplace":
                    self.pool[opi[0]] = saved[0]
                self.skipped.append(n + ":extreme")
                return False
            self.snaps.append(s)
            st["result"] = len(self.snaps) - 1
            if kind == "val":
                self.pool.append(res)
                self.sid.append(st["result"])
            else:
                self.sid[opi[0]] = st["result"]
            self.trace.append(("ok", kind, s))
        else:
            self.trace.append(("ok", kind, res))
        self.kept.append(op)
        self.steps.append(st)
        return True


# ------------------------------------------------------------------------------------------------
# generators
def mag(rng):
    return 10 ** rng.uniform(-3, 5)


def gen_num(rng, signed=True):
    r = rng.random()
    if r < 0.12:
        return 0.0
    if r < 0.16:
        return float(rng.choice([1.0, 2.0, 0.5, 100.0]))
    if r < 0.19:
        return rng.choice([1e-12, -1e-12, 3e-10, 7e-10])
    v = mag(rng) * rng.random()
    if signed and rng.random() < 0.25:
        v = -v
    return float(v)


def gen_triples(rng):
    """a few label triples per sequence so that binary operations often meet equal units"""
    out = []
    for _ in range(rng.randint(2, 4)):
        r = rng.random()
        if r < 0.45:
            out.append((rng.choice(BASES_K), rng.choice(BASES_F), rng.choice(BASES_F)))
        elif r < 0.6:
            out.append(("billion kcals", "thousand tons", "thousand tons"))
        elif r < 0.75:
            u = rng.choice(UNKNOWN)
            out.append((u, u, u))
        elif r < 0.9:
            out.append(("ratio", "ratio", "ratio"))
        else:
            u = rng.choice(BASES_K + UNKNOWN)
            out.append((u, rng.choice(UNKNOWN + BASES_F), rng.choice(UNKNOWN + BASES_F)))
    if rng.random() < 0.7 and ("ratio", "ratio", "ratio") not in out:
        out.append(("ratio", "ratio", "ratio"))
    return out


def gen_construct(rng, triples, n):
    t = rng.choice(triples)
    if rng.random() < 0.45:
        form = rng.choice(["", "", PER, PER, EACH if rng.random() < 0.15 else ""])
        labs = [x + form for x in t]
        if rng.random() < 0.05:
            labs[1] = t[1] + rng.choice(["", PER])
        vals = [gen_num(rng) for _ in range(3)]
        ints = rng.random() < 0.1
        if ints:
            vals = [float(int(v)) for v in vals]
        return {"op": "construct", "kind": "scalar", "vals": vals, "labels": labs, "ints": ints}
    m = n if rng.random() < 0.85 else rng.randint(1, 6)
    r = rng.random()
    if r < 0.55:
        labs = [x + EACH for x in t]
    elif r < 0.8:
        labs = list(t)
    elif r < 0.9:
        labs = [x + PER for x in t]
    else:
        labs = [t[0] + EACH, t[1] + rng.choice(["", EACH]), t[2] + rng.choice(["", EACH, PER])]

    def sarg():
        q = rng.random()
        if q < 0.75:
            ln = m if rng.random() < 0.97 else rng.randint(0, m + 1)
            return ("arr", [gen_num(rng) for _ in range(ln)])
        if q < 0.97:
            return ("int", None if rng.random() < 0.7 else rng.randint(0, 5))
        return ("num", gen_num(rng))
    k = [gen_num(rng) for _ in range(m if rng.random() < 0.98 else 0)]
    return {"op": "construct", "kind": "series", "k": k, "f": sarg(), "p": sarg(), "labels": labs, "np": rng.random() < 0.5}


UNARY = ["neg", "abs", "clip", "sum", "runningSum", "minAll", "maxAll"]


def gen_op(rng, run, triples, n):
    P = len(run.pool)
    r = rng.random()
    if P == 0 or r < 0.06:
        return gen_construct(rng, triples, n)
    i = rng.randrange(P)
    a = run.pool[i]

    def partner(same_p=0.7):
        if rng.random() < same_p:
            c = [j for j in range(P) if list(run.pool[j].units) == list(a.units)]
            if c:
                return rng.choice(c)
        return rng.randrange(P)
    if r < 0.26:
        return {"op": rng.choice(["add", "sub", "div", "minElem", "add", "sub"]), "i": i, "j": partner()}
    if r < 0.36:
        j = rng.randrange(P)
        if rng.random() < 0.6:
            rat = [q for q in range(P) if run.pool[q].is_a_ratio()]
            if rat:
                j = rng.choice(rat)
        return {"op": "mul", "i": i, "j": j} if rng.random() < 0.5 else {"op": "mul", "i": j, "j": i}
    if r < 0.42:
        return {"op": rng.choice(["mulNum", "divNum"]), "i": i, "c": rng.choice([2.0, 0.5, -1.0, 3.25, 10.0, 1e-3, 0.0]),
                "r": rng.random() < 0.4}
    if r < 0.45:
        ln = len(a.kcals) if is_series(a) else rng.randint(0, 5)
        return {"op": "mulArr", "i": i, "arr": [gen_num(rng, signed=False) for _ in range(ln)]}
    if r < 0.57:
        return {"op": rng.choice(UNARY), "i": i}
    if r < 0.60:
        return {"op": "round", "i": i, "k": rng.choice([0, 1, 2, 3, 5, -1])}
    if r < 0.63:
        return {"op": "shift", "i": i, "k": rng.choice([0, 1, 2, 3, -1, n, n + 2])}
    if r < 0.72:
        k = rng.randint(-n - 1, n + 1) if rng.random() < 0.3 else rng.randint(0, max(0, n - 1))
        o = {"op": rng.choice(["getInt", "getMonth"]), "i": i, "k": k, "first": rng.random() < 0.5}
        if o["op"] == "getInt" and rng.random() < 0.4:
            o["npkey"] = rng.choice(["int64", "int32", "uint8", "intp"])
        return o
    if r < 0.76:
        lo, hi = rng.randint(-n - 1, n + 1), rng.randint(-n - 1, n + 1)
        if rng.random() < 0.6:
            lo, hi = min(abs(lo), abs(hi)), max(abs(lo), abs(hi)) + 1
        return {"op": "getSlice", "i": i, "lo": lo, "hi": hi}
    if r < 0.84:
        if rng.random() < 0.5:
            h = rng.choice(sorted(HELPERS))
            return {"op": "inUnits", "i": i, "to": list(HELPERS[h]), "helper": h}
        to = [rng.choice(BASES_K), rng.choice(BASES_F), rng.choice(BASES_F)]
        q = rng.random()
        if q < 0.06:
            to[rng.randrange(3)] = rng.choice(UNKNOWN)
        elif q < 0.10:
            to = [x + rng.choice([EACH, PER]) for x in to]
        return {"op": "inUnits", "i": i, "to": to}
    if r < 0.875:
        q = rng.random()
        if q < 0.75:
            return {"op": rng.choice(["relabelTotal", "relabelElement", "relabelList", "getUnits"]), "i": i}
        t = rng.choice(triples)
        return {"op": "setUnits", "i": i, "to": [x + rng.choice(["", "", EACH, PER]) for x in t]}
    if r < 0.94:
        return {"op": "pred2", "p": rng.choice(sorted(PRED2)), "i": i, "j": partner(0.8)}
    if r < 0.975:
        if rng.random() < 0.25:
            return {"op": "geZero", "i": i, "c": rng.choice([0.0, 1e-6, 1.0, 1e3]), "kw": True}
        return {"op": "pred1", "p": rng.choice(sorted(PRED1)), "i": i}
    if r < 0.99:
        return {"op": rng.choice(["minNutrient", "maxNutrient"]), "i": i}
    return {"op": "labelQ", "p": rng.choice(sorted(LABELQ)), "i": i}


def gen_sequence(ctx, cfg, maxlen):
    rng = ctx.rng
    run = Runner(cfg)
    n = rng.choice([1, 2, 3, 4, 6, 12])
    triples = gen_triples(rng)
    target = rng.randint(max(4, maxlen // 3), maxlen)
    for _ in range(rng.randint(3, 6)):
        run.step(gen_construct(rng, triples, n), ctx.quiet)
    tries = 0
    while len(run.kept) < target and tries < 6 * target:
        tries += 1
        run.step(gen_op(rng, run, triples, n), ctx.quiet)
    return run


def settings(rng):
    if rng.random() < 0.4:
        return (2100.0, 47.0, 51.0, rng.choice([7.8e9, 4.5e7, 3.3e8]))
    return (rng.uniform(500, 4000), rng.uniform(5, 150), rng.uniform(5, 150), 10 ** rng.uniform(3, 10))


# ------------------------------------------------------------------------------------------------
# comparison of one executed sequence with the model's trace, and the property oracle
def close_nums(a, b):
    return len(a) == len(b) and all(len(x) == len(y) and all(close(u, v, 1e-9, 1e-12) for u, v in zip(x, y)) for x, y in zip(a, b))


def compare(run, model):
    """list of problems: (step index, name, impl, model)"""
    out = []
    if len(model) != len(run.trace):
        return [(0, "trace-length", len(run.trace), len(model))]
    for k, (im, mo) in enumerate(zip(run.trace, model)):
        opn = run.kept[k]["op"]
        if mo[0] == "err" and mo[1] == "unmodelled":
            out.append((k, "unmodelled", im[:2], mo))
            break
        if im[0] != mo[0]:
            out.append((k, "accept-reject:" + opn, im[:2], mo[:2]))
            break
        if im[0] == "err":
            if im[1] != mo[1]:
                out.append((k, "error-kind:" + opn, im, mo))
            continue
        if im[1] != mo[1]:
            out.append((k, "result-kind:" + opn, im[1], mo[1]))
            break
        if im[1] in ("val", "inplace"):
            a, b = im[2], mo[2]
            if a["series"] != b["series"]:
                out.append((k, "shape:" + opn, a["series"], b["series"]))
            elif not close_nums(a["nums"], b["nums"]):
                out.append((k, "numbers:" + opn, a["nums"], b["nums"]))
            if a["labels"] != b["labels"]:
                out.append((k, "labels:" + opn, a["labels"], b["labels"]))
            if a["units"] != b["units"]:
                out.append((k, "units-list:" + opn, a["units"], b["units"]))
        elif im[1] == "bool":
            if im[2] != mo[2]:
                out.append((k, "answer:" + opn + ":" + str(run.kept[k].get("p", "")), im[2], mo[2]))
        elif im[1] == "nutrient":
            if im[2][0] != mo[2][0] or not close(im[2][1], mo[2][1], 1e-9, 1e-12):
                out.append((k, "nutrient:" + opn, im[2], mo[2]))
        elif im[1] == "labels":
            if list(im[2]) != list(mo[2]):
                out.append((k, "labels:" + opn, im[2], mo[2]))
    return out


def oracle(run, ok_bits):
    """executable statement of the property on the implementation's results.
    ok_bits[snapshot id] = (labelOK, unitsAgree) computed by the Lean predicate on the implementation's object.
    returns list of (key, what, step)"""
    out = []
    for k, (op, im, st) in enumerate(zip(run.kept, run.trace, run.steps)):
        n = op["op"]
        name = n + (":" + op["p"] if n in ("pred2", "pred1") else "")
        if st["mutated"]:
            out.append(("operand-mutated:" + name, "%s modified an operand (register %s)" % (name, st["mutated"]), k))
        if im[0] != "ok":
            continue
        bef = st["before"]
        if st["result"] is not None:
            lab_ok, agree = ok_bits[st["result"]]
            if not agree:
                out.append(("units-stale:" + name, "%s returned a quantity whose units list %r differs from its labels %r"
                            % (name, im[2]["units"], im[2]["labels"]), k))
            if n in VALUE_OPS:
                operands_ok = all(ok_bits[s][0] for s in st["operands"])
                args_ok = True
                if n == "construct":
                    args_ok = ctor_args_ok(op)
                if n == "inUnits":
                    args_ok = all(py_parse(t)[1] == [] for t in op["to"])
                if operands_ok and args_ok and not lab_ok:
                    out.append(("labelok:" + name, "%s on correctly labelled operands returned %s labelled %r (units list %r)"
                                % (name, "a series" if im[2]["series"] else "a single value", im[2]["labels"], im[2]["units"]), k))
        # the documented labels (Python restatement of Proofs/Food.lean:docLabels, defence in depth)
        if n in VALUE_OPS and n != "construct" and all(ok_bits[s][0] for s in st["operands"]):
            want = doc_labels(op, bef)
            if want is not None and im[2]["labels"] != want:
                out.append(("doc-label:" + name, "%s of %r returned labels %r, documented: %r" % (name, bef[0]["labels"], im[2]["labels"], want), k))
        # different units must be refused
        if n in BINARY_UNIT_OPS or n == "pred2":
            a, b = bef[0], bef[1]
            if a["labels"] != b["labels"] and a["series"] == b["series"]:
                out.append(("mixed-units-accepted:" + name, "%s combined %r with %r" % (name, a["labels"], b["labels"]), k))
        # a ratio keeps the other operand's labels whichever side it is on
        if n == "mul":
            a, b = bef[0], bef[1]
            ra = all("ratio" in u for u in a["labels"])
            rb = all("ratio" in u for u in b["labels"])
            got = im[2]["labels"]
            if ra != rb and all(ok_bits[s][0] for s in st["operands"]):
                want = b["labels"] if ra else a["labels"]
                if got != want:
                    out.append(("ratio-label:mul", "ratio %s: product of %r and %r is labelled %r" %
                                ("on the left" if ra else "on the right", a["labels"], b["labels"], got), k))
    return out


SAME_LABEL_OPS = {"add", "sub", "minElem", "mulNum", "divNum", "neg", "abs", "clip", "round", "shift", "getSlice", "runningSum"}


def doc_labels(op, bef):
    """labels the documentation implies for the result, for correctly labelled operands"""
    n = op["op"]
    a = bef[0]
    if n in SAME_LABEL_OPS:
        return a["labels"]
    if n == "mulArr":
        return a["labels"] if a["series"] else [u + EACH for u in a["labels"]]
    if n in ("sum", "minAll", "maxAll"):
        return [u[:-len(EACH)] for u in a["labels"]] if all(u.endswith(EACH) for u in a["labels"]) else None
    if n in ("getMonth", "getInt"):
        return [u[:-len(EACH)] + PER for u in a["labels"]] if all(u.endswith(EACH) for u in a["labels"]) else None
    if n == "div":
        return ["ratio" + EACH] * 3 if a["series"] else ["ratio"] * 3
    if n == "inUnits":
        sfx = EACH if a["labels"][0].endswith(EACH) else (PER if PER in a["labels"][0] else "")
        return [t + sfx for t in op["to"]] if all(py_parse(t)[1] == [] for t in op["to"]) else None
    return None


def lean_ok_bits(ctx, snaps):
    if not snaps:
        return []
    outs = ctx.lean(["food.labelOK " + snap_wire(s) for s in snaps])
    res = []
    for o in outs:
        rd = Reader(o)
        res.append((rd.bool(), rd.bool()))
    return res


def model_traces(ctx, items):
    """items: list of (cfg, ops)"""
    lines = ["food.trace %s %d %s" % (cfg_wire(cfg), len(ops), " ".join(op_wire(o) for o in ops)) for cfg, ops in items]
    outs = ctx.lean(lines) if lines else []
    res = []
    for o in outs:
        if o.startswith("err "):
            raise RuntimeError("driver: " + wire.dec_str(o[4:]))
        res.append(read_trace(o))
    return res


def replay_ops(ctx, cfg, ops):
    """re-execute a concrete operation list on implementation and model; returns (run, problems, oracle hits)"""
    run = Runner(cfg)
    for op in ops:
        run.step(op, ctx.quiet)
    model = model_traces(ctx, [(cfg, run.kept)])[0]
    probs = compare(run, model)
    bits = lean_ok_bits(ctx, run.snaps)
    viol = oracle(run, bits)
    return run, probs, viol


def shrink(ctx, cfg, ops, still_fails):
    """delta debugging on the operation list (register references are modulo the pool size, so any sub-list is executable)"""
    budget = [120]

    def test(cand):
        if budget[0] <= 0:
            return False
        budget[0] -= 1
        try:
            return still_fails(cand)
        except Exception:
            return False
    n = 2
    cur = list(ops)
    while len(cur) >= 2 and budget[0] > 0:
        chunk = max(1, len(cur) // n)
        reduced = False
        for s in range(0, len(cur), chunk):
            cand = cur[:s] + cur[s + chunk:]
            if cand and test(cand):
                cur = cand
                n = max(n - 1, 2)
                reduced = True
                break
        if not reduced:
            if chunk == 1:
                break
            n = min(len(cur), n * 2)
    return cur


def report(ctx, cfg, run, probs, viol, do_shrink=True):
    iF, iP, st = cfg
    base = {"include_fat": iF, "include_protein": iP, "setting": list(st)}
    if viol:
        key = viol[0][0]

        def fails(c):
            _, _, v = replay_ops(ctx, cfg, c)
            return any(x[0] == key for x in v)
        ops = shrink(ctx, cfg, run.kept[:viol[0][2] + 1], fails) if do_shrink else run.kept
        r2, _, v2 = replay_ops(ctx, cfg, ops)
        hit = [x for x in v2 if x[0] == key] or viol
        ctx.violation(key, hit[0][1], dict(base, ops=ops, impl_trace=[t if t[0] == "err" else [t[0], t[1], t[2]] for t in r2.trace]))
        ctx.count("shrunk-to:%d" % len(ops))
    real = [p for p in probs if p[1] != "unmodelled"]
    if real:
        name = real[0][1]

        def fails2(c):
            _, p, _ = replay_ops(ctx, cfg, c)
            return any(x[1] == name for x in p)
        ops = shrink(ctx, cfg, run.kept[:real[0][0] + 1], fails2) if do_shrink else run.kept
        _, p2, _ = replay_ops(ctx, cfg, ops)
        hit = [x for x in p2 if x[1] == name] or real
        ctx.disagree(name, dict(base, ops=ops, step=hit[0][0]), hit[0][2], hit[0][3])


def account(ctx, cfg, run):
    iF, iP, _ = cfg
    for op, im, st in zip(run.kept, run.trace, run.steps):
        n = op["op"] + (":" + op["p"] if op["op"] in ("pred2", "pred1", "labelQ") else "")
        ctx.count("op:" + n)
        if im[0] == "err":
            ctx.count("reject:" + im[1])
            ctx.count("reject:%s:%s" % (op["op"], im[1]))
        shapes = "".join("S" if b["series"] else "v" for b in st["before"]) or "-"
        ctx.count("shapes:" + shapes)
        labs = tuple(tuple(b["labels"]) for b in st["before"]) if st["before"] else tuple(op.get("labels", ()))
        ctx.case((n, labs, shapes, iF, iP, im[0], op.get("to"), op.get("k")), nontrivial=im[0] == "ok",
                 sample={"op": op, "flags": [iF, iP], "operand_labels": [b["labels"] for b in st["before"]], "answer": im[:2]})
    for s in run.skipped:
        ctx.count("not-executed:" + s)
    ctx.count("flags:%d%d" % (iF, iP))


# ------------------------------------------------------------------------------------------------
# fixed corpus: the witnesses of the repaired defects F1-F7 and hand-picked edge cases (always run first)
def S(k, f, p, labs, np_=False):
    return {"op": "construct", "kind": "series", "k": k, "f": f, "p": p, "labels": labs, "np": np_}


def V(vals, labs):
    return {"op": "construct", "kind": "scalar", "vals": vals, "labels": labs, "ints": False}


BK = ["billion kcals", "thousand tons", "thousand tons"]
CORPUS = [
    # F1: a month of a series must be addable to a per-month quantity; its in_units keeps "per month"
    [S([1.0, 2.0], ("arr", [3.0, 4.0]), ("arr", [5.0, 6.0]), [u + EACH for u in BK]), {"op": "getMonth", "i": 0, "k": 0},
     V([1.0, 1.0, 1.0], [u + PER for u in BK]), {"op": "add", "i": 1, "j": 2},
     {"op": "inUnits", "i": 1, "to": ["billion people fed"] * 3}, {"op": "labelQ", "p": "units", "i": 1}],
    [V([1.0, 1.0, 1.0], BK), {"op": "relabelList", "i": 0}, {"op": "labelQ", "p": "units", "i": 0}],
    # F2: ratio on either side
    [V([2.0, 2.0, 2.0], ["ratio"] * 3), V([3.0, 4.0, 5.0], BK), {"op": "mul", "i": 0, "j": 1}, {"op": "mul", "i": 1, "j": 0},
     {"op": "pred2", "p": "eq", "i": 2, "j": 3}],
    # F3: integer index
    [S([1.0, 2.0, 3.0], ("arr", [1.0, 1.0, 1.0]), ("arr", [2.0, 2.0, 2.0]), ["kcals" + EACH] * 3), {"op": "getInt", "i": 0, "k": -1},
     {"op": "getSlice", "i": 0, "lo": 0, "hi": 1}, {"op": "getInt", "i": 0, "k": 3}],
    # F4: int fat with an "each month" label
    [S([1.0, 2.0], ("int", None), ("int", None), [u + EACH for u in BK]),
     S([1.0, 2.0], ("arr", [0.0, 0.0]), ("arr", [0.0, 0.0]), [u + EACH for u in BK]), {"op": "add", "i": 0, "j": 1}],
    # F5/F7: predicates on a single value and the one-month series
    [V([1.0, 5.0, 1.0], BK), V([1.0, 1.0, 1.0], BK), S([1.0], ("arr", [5.0]), ("arr", [1.0]), BK), S([1.0], ("arr", [1.0]), ("arr", [1.0]), BK),
     {"op": "pred2", "p": "anyGT", "i": 0, "j": 1}, {"op": "pred2", "p": "anyGT", "i": 2, "j": 3},
     {"op": "pred2", "p": "anyLT", "i": 1, "j": 0}, {"op": "pred2", "p": "anyLT", "i": 3, "j": 2},
     V([1.0, 0.0, 1.0], BK), S([1.0], ("arr", [0.0]), ("arr", [1.0]), BK),
     {"op": "pred1", "p": "allGTZero", "i": 4}, {"op": "pred1", "p": "allGTZero", "i": 5},
     V([-0.5, 1.0, 1.0], BK), S([-0.5], ("arr", [1.0]), ("arr", [1.0]), BK),
     {"op": "geZero", "i": 6, "c": 1.0}, {"op": "geZero", "i": 7, "c": 1.0}],
    # F6: monthly foods in different units
    [S([1.0], ("arr", [1.0]), ("arr", [1.0]), ["g"] * 3), S([2.0], ("arr", [2.0]), ("arr", [2.0]), BK),
     {"op": "pred2", "p": "anyLE", "i": 0, "j": 1}, {"op": "pred2", "p": "allLE", "i": 0, "j": 1}],
    # sums, months, quotients
    [S([1.0, 2.0, 3.0], ("arr", [1.0, 1.0, 1.0]), ("arr", [2.0, 2.0, 2.0]), [u + EACH for u in BK]), {"op": "sum", "i": 0},
     {"op": "runningSum", "i": 0}, {"op": "div", "i": 0, "j": 2}, {"op": "mul", "i": 3, "j": 0}, {"op": "mul", "i": 0, "j": 3},
     {"op": "minAll", "i": 0}, {"op": "maxAll", "i": 0}, {"op": "shift", "i": 0, "k": 1}, {"op": "shift", "i": 0, "k": -1},
     {"op": "round", "i": 3, "k": 1}, {"op": "minNutrient", "i": 3}, {"op": "div", "i": 1, "j": 1}, {"op": "maxNutrient", "i": 12}],
]


def pred_scalar_series(ctx, nper):
    """C11_predicates on the implementation: each predicate on a single value and on the equal one-month series"""
    rng = ctx.rng
    for flags in FLAGS:
        cfg = (flags[0], flags[1], settings(rng))
        run = Runner(cfg)
        Food = run.Food
        for _ in range(nper):
            t = rng.choice([BK, ["kcals"] * 3, ["ratio"] * 3, ["percent people fed"] * 3])
            form = rng.choice(["", PER])
            pool = [0.0, 1.0, 1.0, 2.0, -1.0, gen_num(rng), gen_num(rng)]
            a = [float(rng.choice(pool)) for _ in range(3)]
            b = [float(rng.choice(pool + a)) for _ in range(3)]
            thr = rng.choice([0.0, 0.0, 1e-6, 1.0, 2.0])
            A, B = Food(*a, *[u + form for u in t]), Food(*b, *[u + form for u in t])
            SA = Food([a[0]], [a[1]], [a[2]], *[u + form + EACH for u in t])
            SB = Food([b[0]], [b[1]], [b[2]], *[u + form + EACH for u in t])
            case = {"include_fat": flags[0], "include_protein": flags[1], "a": a, "b": b, "units": [u + form for u in t]}
            for short, meth in PRED2.items():
                with ctx.quiet():
                    x, y = bool(getattr(A, meth)(B)), bool(getattr(SA, meth)(SB))
                if x != y:
                    ctx.violation("pred-scalar-vs-series:" + short, "%s answers %r for the single values and %r for the one-month series (include_fat=%r, "
                                  "include_protein=%r, a=%r, b=%r)" % (meth, x, y, flags[0], flags[1], a, b), dict(case, predicate=meth))
                ctx.case(("p2", short, flags, tuple(a), tuple(b)), nontrivial=True)
            for short, meth in PRED1.items():
                if short == "allEqZero" and any(abs(abs(v) - 5e-10) < 1e-12 for v in a):
                    ctx.count("near-tie-skipped:allEqZero")
                    continue
                with ctx.quiet():
                    x, y = bool(getattr(A, meth)()), bool(getattr(SA, meth)())
                if x != y:
                    ctx.violation("pred-scalar-vs-series:" + short, "%s answers %r for the single value and %r for the one-month series (include_fat=%r, "
                                  "include_protein=%r, a=%r)" % (meth, x, y, flags[0], flags[1], a), dict(case, predicate=meth))
                ctx.case(("p1", short, flags, tuple(a)), nontrivial=True)
            # the zero test around its own rounding threshold 10^-d (default d = 9 and explicit d), in one nutrient or in all three
            d = rng.choice([9, 9, 3, 6, 0, 12])
            f = rng.choice([0.1, 0.4, 0.6, 0.75, 0.99, 1.01, 1.4, 1.6, 3.0]) * rng.choice([1.0, -1.0])
            w = [0.0, 0.0, 0.0]
            for j in ([rng.randrange(3)] if rng.random() < 0.7 else [0, 1, 2]):
                w[j] = f * 10.0 ** -d
            W = Food(*w, *[u + form for u in t])
            SW = Food([w[0]], [w[1]], [w[2]], *[u + form + EACH for u in t])
            SW3 = Food([0.0, w[0], 0.0], [0.0, w[1], 0.0], [0.0, w[2], 0.0], *[u + form + EACH for u in t])
            with ctx.quiet():
                zs = [bool(W.all_equals_zero()), bool(SW.all_equals_zero()), bool(SW3.all_equals_zero())] if d == 9 else \
                     [bool(W.all_equals_zero(rounding_decimals=d)), bool(SW.all_equals_zero(rounding_decimals=d)), bool(SW3.all_equals_zero(rounding_decimals=d))]
            if zs[1] != zs[2]:
                ctx.count("padded-series-answers-differently:allEqZero")
            if zs[0] != zs[1]:
                ctx.violation("pred-scalar-vs-series:allEqZero", "all_equals_zero(rounding_decimals=%d) answers %r for the single value %r, %r for the one-month series and %r for "
                              "that month between two zero months (include_fat=%r, include_protein=%r)" % (d, zs[0], w, zs[1], zs[2], flags[0], flags[1]),
                              dict(case, a=w, predicate="all_equals_zero", rounding_decimals=d))
            ctx.case(("p1z", d, f, flags, tuple(w)), nontrivial=True)
            x, y = bool(A.all_greater_than_or_equal_to_zero(threshold=thr)), bool(SA.all_greater_than_or_equal_to_zero(threshold=thr))
            if x != y:
                ctx.violation("pred-scalar-vs-series:geZero", "all_greater_than_or_equal_to_zero(threshold=%r) answers %r for the single value and %r for "
                              "the one-month series (a=%r)" % (thr, x, y, a), dict(case, predicate="all_greater_than_or_equal_to_zero", threshold=thr))
            ctx.count("pred-pairs:%d%d" % flags)


def parser_roundtrip(ctx):
    names = []
    for b in BASES_K + BASES_F + UNKNOWN:
        for s in ["", EACH, PER, PER + EACH, EACH + EACH, EACH + PER]:
            names.append(b + s)
    outs = ctx.lean(["food.parse " + enc_str(x) for x in names])
    for x, o in zip(names, outs):
        rd = Reader(o)
        base, nsfx, back = rd.str(), rd.nat(), rd.str()
        pb, ps = py_parse(x)
        if base != pb or nsfx != len(ps) or back != x:
            ctx.disagree("label-parser", {"label": x}, [pb, len(ps), x], [base, nsfx, back])
    ctx.count("parser-names", len(names))


def run_batch(ctx, runs):
    traces = model_traces(ctx, [(r.cfg, r.kept) for r in runs])
    allsn, offs = [], []
    for r in runs:
        offs.append(len(allsn))
        allsn.extend(r.snaps)
    bits = lean_ok_bits(ctx, allsn)
    bad = 0
    for r, tr, off in zip(runs, traces, offs):
        probs = compare(r, tr)
        viol = oracle(r, bits[off:off + len(r.snaps)])
        for p in probs:
            if p[1] == "unmodelled":
                ctx.count("unmodelled-stop")
        account(ctx, r.cfg, r)
        if viol or [p for p in probs if p[1] != "unmodelled"]:
            bad += 1
            if bad <= 4:  # shrink and report the first few failing sequences only
                report(ctx, r.cfg, r, probs, viol)
            else:
                report(ctx, r.cfg, r, probs, viol, do_shrink=False)


def live_vocabulary(ctx):
    """the generator's unit names are the keys of the live multiplier dictionaries (the same tables tr_units translates)"""
    global BASES_K, BASES_F
    r = Runner((True, True, (2100.0, 47.0, 51.0, 7.8e9)))
    f0 = r.Food(1.0, 1.0, 1.0)
    tabs = [list(f0.get_kcal_multipliers()), list(f0.get_fat_multipliers()), list(f0.get_protein_multipliers())]

    def bases(keys):
        return [k for k in keys if not k.endswith(EACH) and not k.endswith(PER)]
    bk, bf, bp = bases(tabs[0]), bases(tabs[1]), bases(tabs[2])
    for keys, bs in zip(tabs, (bk, bf, bp)):
        if sorted(keys) != sorted(b + s for b in bs for s in ("", EACH, PER)) or any("each month" in b or "per month" in b for b in bs):
            ctx.disagree("vocabulary", {"table": keys}, keys, "not of the form base / base each month / base per month")
    if bk != BASES_K or bf != BASES_F or bp != BASES_F:
        ctx.count("vocabulary-changed")
        BASES_K, BASES_F = bk, [b for b in bf if b in bp] or bf
    ctx.count("vocabulary-names", sum(len(t) for t in tabs))


def correspondence(ctx, nseq=None, maxlen=None):
    rng = ctx.rng
    live_vocabulary(ctx)
    parser_roundtrip(ctx)
    # corpus first, under all four flag settings
    runs = []
    st0 = (2100.0, 47.0, 51.0, 7.8e9)
    for flags in FLAGS:
        for ops in CORPUS:
            r = Runner((flags[0], flags[1], st0))
            for op in ops:
                r.step(copy.deepcopy(op), ctx.quiet)
            runs.append(r)
    run_batch(ctx, runs)
    ctx.count("corpus-sequences", len(runs))
    pred_scalar_series(ctx, ctx.budget(60, 1500))
    nseq = nseq or ctx.budget(500, 5000)
    maxlen = maxlen or ctx.budget(30, 300)
    done = 0
    while done < nseq:
        runs = []
        for k in range(min(250, nseq - done)):
            flags = FLAGS[(done + k) % 4]
            runs.append(gen_sequence(ctx, (flags[0], flags[1], settings(rng)), maxlen))
        run_batch(ctx, runs)
        done += len(runs)
        ctx.count("sequences", len(runs))
        if len(ctx.violations) + len(ctx.disagreements) > 12:
            break


def search(ctx):
    """tie broke: longer and more sequences, looking for an operation sequence on which the property itself fails on the real Food"""
    correspondence(ctx, nseq=1500, maxlen=60)


def replay(ctx, rep):
    import os
    from lib import leanbuild
    ctx.driver = DRIVER
    if not os.path.exists(os.path.join(wire.LEAN, ".lake", "build", "bin", DRIVER)):
        leanbuild.build([DRIVER])
    hits = []
    for v in rep.get("violations", []):
        c = v["case"]
        if "ops" in c:
            cfg = (c["include_fat"], c["include_protein"], tuple(c["setting"]))
            _, _, viol = replay_ops(ctx, cfg, c["ops"])
            for x in viol:
                if x[0] == v["key"]:
                    hits.append({"key": x[0], "what": x[1]})
                    break
        elif "predicate" in c:
            cfg = (c["include_fat"], c["include_protein"], (2100.0, 47.0, 51.0, 7.8e9))
            run = Runner(cfg)
            Food = run.Food
            a, b, u = c["a"], c.get("b", c["a"]), c["units"]
            A, B = Food(*a, *u), Food(*b, *u)
            SA, SB = Food([a[0]], [a[1]], [a[2]], *[x + EACH for x in u]), Food([b[0]], [b[1]], [b[2]], *[x + EACH for x in u])
            m = c["predicate"]
            if m == "all_greater_than_or_equal_to_zero":
                x, y = A.all_greater_than_or_equal_to_zero(threshold=c["threshold"]), SA.all_greater_than_or_equal_to_zero(threshold=c["threshold"])
            elif m in PRED2.values():
                x, y = getattr(A, m)(B), getattr(SA, m)(SB)
            else:
                x, y = getattr(A, m)(), getattr(SA, m)()
            if bool(x) != bool(y):
                hits.append({"key": v["key"], "what": "%s: %r vs %r" % (m, bool(x), bool(y))})
    return bool(hits), hits
