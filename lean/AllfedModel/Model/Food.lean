import AllfedModel.Model.Units
/-
Model of `src/food_system/food.py` (class `Food`) and of the label helpers of
`src/food_system/unit_conversions.py` (`set_units*`, `get_units*`, `is_a_ratio`,
`is_units_percent`, `in_units`) — property C11.

A food quantity is three number lists (one element for a single value, `n` for a monthly series),
three unit labels and the derived list `units` (the second copy of the labels that several code
paths update separately).  Every public operation returns `Except Err …`; a raised assertion /
`ValueError` / `TypeError` / `IndexError` is an explicit error value.

Labels are structured: `⟨base, suffixes⟩` rendered `base ++ " each month" ++ " per month" ++ …`.
The string surgery of the code has an exact counterpart on this representation, *provided no base
name contains the words "each month" / "per month"* (true of the real vocabulary, imposed on the
generator's synthetic names; the driver parses real strings into this form):

  `u + " each month"`                     ↦ `addEach`     (pushes a suffix: a doubled suffix exists here too)
  `"each month" in u`                     ↦ `hasEach`
  `" per month" in u`                     ↦ `hasPer`
  `u.split(" each month")[0]`             ↦ `toTotal`     (drops from the first `each`)
  `u.replace(" each month"," per month")` ↦ `toElement`   (maps every `each` to `per`)
  `"ratio" in u`, `"percent" in u`        ↦ substring test on the base

The model mirrors the code AFTER the `fix:` commits recorded in notes/C11.md (F1–F7); the unfixed
variants live in `Props/C11.lean` next to their counter-examples.
-/
namespace Allfed.Food
open Allfed Allfed.Units Allfed.Gen.Units

/-! ## labels -/

inductive Suffix
  | each   -- " each month"
  | per    -- " per month"
  deriving DecidableEq, Repr, Inhabited

def Suffix.render : Suffix → String
  | .each => " each month"
  | .per => " per month"

/-- what `.replace(" each month", " per month")` does to one suffix -/
def Suffix.toPer : Suffix → Suffix
  | .each => .per
  | .per => .per

structure Label where
  base : String
  sfx : List Suffix
  deriving DecidableEq, Repr, Inhabited

namespace Label

def render (l : Label) : String := l.sfx.foldl (fun s x => s ++ x.render) l.base

/-- `"each month" in u` -/
def hasEach (l : Label) : Bool := l.sfx.contains .each
/-- `" per month" in u` -/
def hasPer (l : Label) : Bool := l.sfx.contains .per
/-- `u + " each month"` -/
def addEach (l : Label) : Label := ⟨l.base, l.sfx ++ [.each]⟩
/-- `u + " per month"` -/
def addPer (l : Label) : Label := ⟨l.base, l.sfx ++ [.per]⟩
/-- `u.split(" each month")[0]` -/
def toTotal (l : Label) : Label := ⟨l.base, l.sfx.takeWhile (fun s => s != .each)⟩
/-- `u.replace(" each month", " per month")` -/
def toElement (l : Label) : Label := ⟨l.base, l.sfx.map Suffix.toPer⟩
/-- `"ratio" in u` -/
def isRatio (l : Label) : Bool := hasSub l.base "ratio"
/-- `"percent" in u` -/
def isPercent (l : Label) : Bool := hasSub l.base "percent"
/-- the constructor's `if "each month" not in u: u = u + " each month"` -/
def fixEach (l : Label) : Label := if l.hasEach then l else l.addEach

/-- the plain label `"ratio"` -/
def ratio : Label := ⟨"ratio", []⟩

/-- convention for a single value: no `each month` anywhere -/
def scalarOK (l : Label) : Bool := !l.hasEach
/-- convention for a monthly series: exactly one `each month`, at the very end -/
def seriesOK (l : Label) : Bool :=
  match l.sfx.reverse with
  | .each :: rest => !rest.contains .each
  | _ => false

end Label

/-! ## errors and values -/

inductive Err
  | assert      -- AssertionError
  | value       -- ValueError
  | type        -- TypeError
  | index       -- IndexError
  | unmodelled  -- numpy broadcasting / array-truthiness corner the model declines to predict
                -- (operands of different shapes or lengths; never reached from well-labelled operands)
  deriving DecidableEq, Repr

structure FoodVal (α : Type) where
  series : Bool          -- `is_list_monthly()`
  kcals : List α         -- one element when `series = false`
  fat : List α
  protein : List α
  ku : Label             -- kcals_units
  fu : Label             -- fat_units
  pu : Label             -- protein_units
  units : List Label     -- the derived list `self.units`

/-- `cond` must hold, else the operation raises `e` -/
def guard' {β : Type} (cond : Bool) (e : Err) (k : Except Err β) : Except Err β :=
  if cond then k else .error e

section
variable {α : Type} [Add α] [Sub α] [Mul α] [Div α] [Neg α] [LE α] [LT α]
  [DecidableLE α] [DecidableLT α] [OfNat α 0] [OfNat α 1] [OfScientific α]

namespace FoodVal

def labels (v : FoodVal α) : List Label := [v.ku, v.fu, v.pu]
/-- the value of a single-valued nutrient -/
def k0 (v : FoodVal α) : α := v.kcals.headD 0
def f0 (v : FoodVal α) : α := v.fat.headD 0
def p0 (v : FoodVal α) : α := v.protein.headD 0
/-- `is_a_ratio()` -/
def isRatio (v : FoodVal α) : Bool := v.ku.isRatio && v.fu.isRatio && v.pu.isRatio
/-- `is_units_percent()` -/
def isPercent (v : FoodVal α) : Bool := v.ku.isPercent && v.fu.isPercent && v.pu.isPercent
/-- all three labels contain "each month" -/
def allEach (v : FoodVal α) : Bool := v.ku.hasEach && v.fu.hasEach && v.pu.hasEach
def noEach (v : FoodVal α) : Bool := !v.ku.hasEach && !v.fu.hasEach && !v.pu.hasEach

end FoodVal

/-! ## construction (`Food.__init__`, `validate_if_list`) -/

/-- a single value built by an operation (`Food(x, y, z, ku, fu, pu)` with numbers) -/
def buildScalar (k f p : α) (ku fu pu : Label) : FoodVal α :=
  { series := false, kcals := [k], fat := [f], protein := [p], ku := ku, fu := fu, pu := pu, units := [ku, fu, pu] }

/-- a series built from three arrays: `" each month"` is appended to a label that lacks it, then
    `validate_if_list` (same lengths, at least one month) -/
def buildSeries (k f p : List α) (ku fu pu : Label) : Except Err (FoodVal α) :=
  let ku := ku.fixEach; let fu := fu.fixEach; let pu := pu.fixEach
  guard' (k.length == f.length && f.length == p.length) .assert <|
  guard' (0 < k.length) .assert <|
  .ok { series := true, kcals := k, fat := f, protein := p, ku := ku, fu := fu, pu := pu, units := [ku, fu, pu] }

def build (ser : Bool) (k f p : List α) (ku fu pu : Label) : Except Err (FoodVal α) :=
  if ser then buildSeries k f p ku fu pu
  else .ok (buildScalar (k.headD 0) (f.headD 0) (p.headD 0) ku fu pu)

/-- a fat / protein argument of the public constructor when kcals is a list -/
inductive SArg (α : Type)
  | int            -- a Python `int` (the default `0`): replaced by zeros whatever its value
  | num (x : α)    -- a float: becomes a 0-d array, `len()` of which raises TypeError
  | arr (l : List α)

/-- arguments of the public constructor.  A single-valued kcals with a *list* for fat or protein is
    outside the modelled domain (the code stores the mixture unvalidated). -/
inductive CtorArgs (α : Type)
  | scalar (k f p : α)
  | series (k : List α) (f p : SArg α)

def sargOK : SArg α → Bool
  | .num _ => false
  | _ => true

def sargList (n : Nat) : SArg α → List α
  | .int => List.replicate n 0
  | .num x => [x]
  | .arr l => l

def construct (a : CtorArgs α) (ku fu pu : Label) : Except Err (FoodVal α) :=
  match a with
  | .scalar k f p => .ok (buildScalar k f p ku fu pu)
  | .series k f p =>
    -- `len(kcals) == len(fat) == len(protein)`: `len()` of a 0-d array raises TypeError, the chained
    -- comparison stops at the first inequality (AssertionError)
    guard' (sargOK f) .type <|
    guard' (k.length == (sargList k.length f).length) .assert <|
    guard' (sargOK p) .type <|
    buildSeries k (sargList k.length f) (sargList k.length p) ku fu pu

/-- `validate_if_list` on an existing object -/
def validate (v : FoodVal α) : Bool :=
  !v.series || (v.allEach && v.kcals.length == v.fat.length && v.fat.length == v.protein.length && 0 < v.kcals.length)

/-! ## combining numbers: numpy broadcasting between a single value and a series -/

/-- `x ∘ y` for two nutrient arrays of the operands; `none` = lengths differ (not modelled) -/
def bop (f : α → α → α) (sa sb : Bool) (a b : List α) : Option (List α) :=
  match sa, sb with
  | false, false => some [f (a.headD 0) (b.headD 0)]
  | true, true => if a.length == b.length then some (List.zipWith f a b) else none
  | false, true => some (b.map (f (a.headD 0)))
  | true, false => some (a.map (fun x => f x (b.headD 0)))

/-- the three nutrients combined and handed to the constructor with the given labels -/
def combine (f : α → α → α) (a b : FoodVal α) (ku fu pu : Label) : Except Err (FoodVal α) :=
  match bop f a.series b.series a.kcals b.kcals, bop f a.series b.series a.fat b.fat,
        bop f a.series b.series a.protein b.protein with
  | some k, some ff, some p => build (a.series || b.series) k ff p ku fu pu
  | _, _, _ => .error .unmodelled

def mapVal (f : α → α) (a : FoodVal α) (ku fu pu : Label) : Except Err (FoodVal α) :=
  build a.series (a.kcals.map f) (a.fat.map f) (a.protein.map f) ku fu pu

/-! ## arithmetic -/

/-- `__add__` -/
def add (a b : FoodVal α) : Except Err (FoodVal α) :=
  guard' (a.units == b.units) .assert <| combine (· + ·) a b a.ku a.fu a.pu

/-- `__sub__` -/
def sub (a b : FoodVal α) : Except Err (FoodVal α) :=
  guard' (a.units == b.units) .assert <| combine (· - ·) a b a.ku a.fu a.pu

/-- `__mul__` with a `Food` on the right -/
def mul (a b : FoodVal α) : Except Err (FoodVal α) :=
  if !a.series then
    if b.series then
      -- a single value times a series: the single value must be the ratio
      guard' a.isRatio .assert <| combine (· * ·) a b b.ku b.fu b.pu
    else
      guard' (a.isRatio || b.isRatio) .assert <|
      -- `if this_is_the_ratio: other's units`, then `if other_is_the_ratio: self's units`
      if b.isRatio then combine (· * ·) a b a.ku a.fu a.pu
      else combine (· * ·) a b b.ku b.fu b.pu
  else
    guard' (validate a) .assert <|
    if b.series then
      guard' (validate b) .assert <|
      guard' (a.isRatio || b.isRatio) .assert <|
      if b.isRatio then combine (· * ·) a b a.ku a.fu a.pu
      else combine (· * ·) a b b.ku b.fu b.pu
    else
      guard' b.isRatio .assert <| combine (· * ·) a b a.ku a.fu a.pu

/-- `__mul__` / `__rmul__` with a plain number -/
def mulNum (a : FoodVal α) (c : α) : Except Err (FoodVal α) :=
  guard' (validate a) .assert <| mapVal (· * c) a a.ku a.fu a.pu

/-- `__mul__` with a numpy array: a single value becomes a series labelled `… each month` -/
def mulArr (a : FoodVal α) (arr : List α) : Except Err (FoodVal α) :=
  if !a.series then
    buildSeries (arr.map (a.k0 * ·)) (arr.map (a.f0 * ·)) (arr.map (a.p0 * ·)) a.ku.addEach a.fu.addEach a.pu.addEach
  else
    guard' (validate a) .assert <|
    if a.kcals.length == arr.length then
      buildSeries (List.zipWith (· * ·) a.kcals arr) (List.zipWith (· * ·) a.fat arr) (List.zipWith (· * ·) a.protein arr)
        a.ku a.fu a.pu
    else .error .unmodelled

/-- `__truediv__` with a `Food` -/
def div (a b : FoodVal α) : Except Err (FoodVal α) :=
  guard' (a.units == b.units) .assert <|
  if a.series then
    guard' b.series .assert <| guard' (validate a) .assert <| guard' (validate b) .assert <|
    combine (· / ·) a b Label.ratio.addEach Label.ratio.addEach Label.ratio.addEach
  else
    guard' (!b.series) .assert <| combine (· / ·) a b Label.ratio Label.ratio Label.ratio

/-- `__truediv__` with a number -/
def divNum (a : FoodVal α) (c : α) : Except Err (FoodVal α) := mapVal (· / c) a a.ku a.fu a.pu

/-- `__neg__` -/
def neg (a : FoodVal α) : Except Err (FoodVal α) := mapVal (fun x => -x) a a.ku a.fu a.pu

/-- `get_abs_values` -/
def absVal (a : FoodVal α) : Except Err (FoodVal α) := mapVal (fun x => if x < 0 then -x else x) a a.ku a.fu a.pu

/-- `negative_values_to_zero` -/
def clip (a : FoodVal α) : Except Err (FoodVal α) :=
  guard' (validate a) .assert <| mapVal (fun x => if x < 0 then 0 else x) a a.ku a.fu a.pu

/-- `get_rounded_to_decimal` (`rnd` = `np.round(·, decimals)`; series only) -/
def rounded (rnd : Int → α → α) (a : FoodVal α) (d : Int) : Except Err (FoodVal α) :=
  guard' a.series .assert <| mapVal (rnd d) a a.ku a.fu a.pu

/-- `min_elementwise` (a static method): `np.minimum` / Python's `min` -/
def minElem (a b : FoodVal α) : Except Err (FoodVal α) :=
  guard' (a.units == b.units) .assert <|
  if a.series == b.series then combine (fun x y => pmin x y) a b a.ku a.fu a.pu
  else .error .unmodelled

/-! ## indexing, months, sums -/

/-- Python's index normalisation -/
def pyIndex (n : Nat) (i : Int) : Option Nat :=
  let j := if i < 0 then i + n else i
  if 0 ≤ j ∧ j < n then some j.toNat else none

/-- a slice bound, clamped as Python does -/
def pyBound (n : Nat) (i : Int) : Nat :=
  let j := if i < 0 then i + n else i
  if j < 0 then 0 else if (n : Int) < j then n else j.toNat

def pySlice {β : Type} (l : List β) (lo hi : Int) : List β :=
  let a := pyBound l.length lo
  let b := pyBound l.length hi
  (l.drop a).take (b - a)

/-- `set_units_from_list_to_element` (in place): `each month` ↦ `per month`, and — after the fix —
    the list `units` is refreshed -/
def relabelElement (v : FoodVal α) : Except Err (FoodVal α) :=
  guard' v.allEach .assert <|
  .ok { v with ku := v.ku.toElement, fu := v.fu.toElement, pu := v.pu.toElement,
               units := [v.ku.toElement, v.fu.toElement, v.pu.toElement] }

/-- `set_units_from_list_to_total` (in place) -/
def relabelTotal (v : FoodVal α) : Except Err (FoodVal α) :=
  guard' v.allEach .assert <|
  .ok { v with ku := v.ku.toTotal, fu := v.fu.toTotal, pu := v.pu.toTotal,
               units := [v.ku.toTotal, v.fu.toTotal, v.pu.toTotal] }

/-- `set_units_from_element_to_list` (in place; units refreshed after the fix) -/
def relabelList (v : FoodVal α) : Except Err (FoodVal α) :=
  guard' v.noEach .assert <|
  .ok { v with ku := v.ku.addEach, fu := v.fu.addEach, pu := v.pu.addEach,
               units := [v.ku.addEach, v.fu.addEach, v.pu.addEach] }

/-- `set_units` (in place) -/
def setUnits (v : FoodVal α) (ku fu pu : Label) : FoodVal α :=
  { v with ku := ku, fu := fu, pu := pu, units := [ku, fu, pu] }

/-- `get_units()` refreshes the list and returns it -/
def getUnits (v : FoodVal α) : FoodVal α := { v with units := [v.ku, v.fu, v.pu] }

/-- the single month `i`, still labelled as the series is -/
def pick (a : FoodVal α) (i : Int) : Except Err (FoodVal α) :=
  match pyIndex a.kcals.length i with
  | none => .error .index
  | some j => .ok (buildScalar (a.kcals.getD j 0) (a.fat.getD j 0) (a.protein.getD j 0) a.ku a.fu a.pu)

/-- month `i` as a quantity of its own: picked, then `set_units_from_list_to_element` -/
def monthOf (a : FoodVal α) (i : Int) : Except Err (FoodVal α) :=
  match pick a i with
  | .error e => .error e
  | .ok m => relabelElement m

/-- `get_month` -/
def getMonth (a : FoodVal α) (i : Int) : Except Err (FoodVal α) :=
  guard' a.series .assert <| guard' (validate a) .assert <| monthOf a i

/-- `__getitem__` with an integer (after the fix: the single month is relabelled `per month`) -/
def getInt (a : FoodVal α) (i : Int) : Except Err (FoodVal α) :=
  guard' a.series .assert <| guard' (validate a) .assert <| monthOf a i

/-- `__getitem__` with a slice `lo:hi` -/
def getSlice (a : FoodVal α) (lo hi : Int) : Except Err (FoodVal α) :=
  guard' a.series .assert <| guard' (validate a) .assert <|
  buildSeries (pySlice a.kcals lo hi) (pySlice a.fat lo hi) (pySlice a.protein lo hi) a.ku a.fu a.pu

/-- `get_nutrients_sum` -/
def sumMonths (a : FoodVal α) : Except Err (FoodVal α) :=
  guard' a.series .assert <| guard' (validate a) .assert <|
  relabelTotal (buildScalar (lsum a.kcals) (lsum a.fat) (lsum a.protein) a.ku a.fu a.pu)

def runSum : α → List α → List α
  | _, [] => []
  | acc, x :: t => (acc + x) :: runSum (acc + x) t

/-- `get_running_total_nutrients_sum` -/
def runningSum (a : FoodVal α) : Except Err (FoodVal α) :=
  guard' a.series .assert <| guard' (validate a) .assert <|
  buildSeries (runSum 0 a.kcals) (runSum 0 a.fat) (runSum 0 a.protein) a.ku a.fu a.pu

/-- Python's `min(array)` / `max(array)` -/
def lmin (l : List α) : α := match l with | [] => 0 | x :: t => t.foldl pmin x
def lmax (l : List α) : α := match l with | [] => 0 | x :: t => t.foldl pmax x

/-- `get_min_all_months` -/
def minAll (a : FoodVal α) : Except Err (FoodVal α) :=
  guard' a.series .assert <|
  relabelTotal (buildScalar (lmin a.kcals) (lmin a.fat) (lmin a.protein) a.ku a.fu a.pu)

/-- `get_max_all_months` -/
def maxAll (a : FoodVal α) : Except Err (FoodVal α) :=
  guard' a.series .assert <|
  relabelTotal (buildScalar (lmax a.kcals) (lmax a.fat) (lmax a.protein) a.ku a.fu a.pu)

/-- `np.roll(arr, m)` followed by `arr[:m] = 0` -/
def shiftList (l : List α) (m : Int) : List α :=
  let n := l.length
  if n = 0 then l else
  let k := (m % (n : Int)).toNat
  let rolled := l.drop (n - k) ++ l.take (n - k)
  let z := pyBound n m
  List.replicate z 0 ++ rolled.drop z

/-- `shift` -/
def shift (a : FoodVal α) (m : Int) : Except Err (FoodVal α) :=
  guard' a.series .value <|
  buildSeries (shiftList a.kcals m) (shiftList a.fat m) (shiftList a.protein m) a.ku a.fu a.pu

/-! ## conversion (`in_units`) -/

/-- `in_units`: the form is decided by the first entry of the list `units` -/
def inUnits (c : Conv α) (a : FoodVal α) (tk tf tp : Label) : Except Err (FoodVal α) :=
  let u0 := a.units.getD 0 default
  let u1 := a.units.getD 1 default
  let u2 := a.units.getD 2 default
  let nk := if u0.hasEach then tk.addEach else if u0.hasPer then tk.addPer else tk
  let nf := if u0.hasEach then tf.addEach else if u0.hasPer then tf.addPer else tf
  let np := if u0.hasEach then tp.addEach else if u0.hasPer then tp.addPer else tp
  match convFactor (kcalMult c) u0.render nk.render, convFactor (fatMult c) u1.render nf.render,
        convFactor (proteinMult c) u2.render np.render with
  | some ck, some cf, some cp =>
    build a.series (a.kcals.map (ck * ·)) (a.fat.map (cf * ·)) (a.protein.map (cp * ·)) nk nf np
  | _, _, _ => .error .assert

/-! ## label queries -/

/-- `get_units_from_list_to_total` -/
def unitsToTotal (v : FoodVal α) : Except Err (List Label) :=
  guard' v.allEach .assert <| .ok [v.ku.toTotal, v.fu.toTotal, v.pu.toTotal]
/-- `get_units_from_list_to_element` -/
def unitsToElement (v : FoodVal α) : Except Err (List Label) :=
  guard' v.allEach .assert <| .ok [v.ku.toElement, v.fu.toElement, v.pu.toElement]
/-- `get_units_from_element_to_list` -/
def unitsToList (v : FoodVal α) : Except Err (List Label) :=
  guard' v.noEach .assert <| .ok [v.ku.addEach, v.fu.addEach, v.pu.addEach]

/-! ## `get_min_nutrient`, `get_max_nutrient` -/

/-- name index (0 kcals, 1 fat, 2 protein) and value of the smallest included nutrient -/
def pickMin (iF iP : Bool) (k f p : α) : Nat × α :=
  let m := k
  let m := if iF then pmin m f else m
  let m := if iP then pmin m p else m
  -- first key whose value equals the minimum
  if k ≤ m ∧ m ≤ k then (0, m) else if iF && decide (f ≤ m ∧ m ≤ f) then (1, m) else (2, m)

def pickMax (iF iP : Bool) (k f p : α) : Nat × α :=
  let m := k
  let m := if iF then pmax m f else m
  let m := if iP then pmax m p else m
  if k ≤ m ∧ m ≤ k then (0, m) else if iF && decide (f ≤ m ∧ m ≤ f) then (1, m) else (2, m)

def minNutrient (iF iP : Bool) (a : FoodVal α) : Except Err (Nat × α) :=
  guard' (a.ku == a.fu && a.fu == a.pu) .assert <|
  if a.series then
    match minAll a with
    | .error e => .error e
    | .ok m => .ok (pickMin iF iP m.k0 m.f0 m.p0)
  else .ok (pickMin iF iP a.k0 a.f0 a.p0)

def maxNutrient (iF iP : Bool) (a : FoodVal α) : Except Err (Nat × α) :=
  guard' (a.ku == a.fu && a.fu == a.pu) .assert <|
  guard' (!a.series) .assert <| .ok (pickMax iF iP a.k0 a.f0 a.p0)

/-! ## comparison predicates (`iF`, `iP` = `include_fat`, `include_protein` of `Food.conversions`) -/

/-- the pairs `(self[i], other[i])` a comparison looks at; `none` = not modelled
    (single value against a series: numpy's truth value of an array) -/
def pairs (sa sb : Bool) (a b : List α) : Option (List (α × α)) :=
  match sa, sb with
  | false, false => some [(a.headD 0, b.headD 0)]
  | true, true => if a.length == b.length then some (a.zip b) else none
  | true, false => some (a.map (fun x => (x, b.headD 0)))
  | false, true => none

inductive Cmp | gt | lt | ge | le deriving DecidableEq, Repr

/-- the single-value branch compares `x ? y` … -/
def cmpDirect (c : Cmp) (x y : α) : Bool :=
  match c with
  | .gt => decide (y < x)
  | .lt => decide (x < y)
  | .ge => decide (y ≤ x)
  | .le => decide (x ≤ y)

/-- … the monthly branch compares `x - y ? 0` -/
def cmpDiff (c : Cmp) (x y : α) : Bool :=
  match c with
  | .gt => decide (0 < x - y)
  | .lt => decide (x - y < 0)
  | .ge => decide (0 ≤ x - y)
  | .le => decide (x - y ≤ 0)

def feq (x y : α) : Bool := decide (x ≤ y ∧ y ≤ x)

/-- a binary predicate over the three nutrients: `rel` per element, `q` = all / any over months,
    `comb` how the three nutrient answers are combined -/
def pred2 (a b : FoodVal α) (rel : Bool → α → α → Bool) (anyQ : Bool)
    (comb : Bool → Bool → Bool → Bool) : Except Err Bool :=
  match pairs a.series b.series a.kcals b.kcals, pairs a.series b.series a.fat b.fat,
        pairs a.series b.series a.protein b.protein with
  | some k, some f, some p =>
    let q := fun (l : List (α × α)) =>
      if anyQ then l.any (fun xy => rel a.series xy.1 xy.2) else l.all (fun xy => rel a.series xy.1 xy.2)
    .ok (comb (q k) (q f) (q p))
  | _, _, _ => .error .unmodelled

/-- `all_*`: kcals and (fat or exclude_fat) and (protein or exclude_protein) -/
def combAll (iF iP : Bool) (k f p : Bool) : Bool := k && (f || !iF) && (p || !iP)
/-- `any_*` (single-value branches; monthly branches after the fix): kcals or (fat and include_fat) or … -/
def combAnyIncl (iF iP : Bool) (k f p : Bool) : Bool := k || (f && iF) || (p && iP)
/-- `any_greater_than_or_equal_to`: kcals or (fat and *exclude*_fat) or … — both branches, as written -/
def combAnyExcl (iF iP : Bool) (k f p : Bool) : Bool := k || (f && !iF) || (p && !iP)

def relOf (c : Cmp) (ser : Bool) (x y : α) : Bool := if ser then cmpDiff c x y else cmpDirect c x y

/-- `__eq__` -/
def eqFood (a b : FoodVal α) : Except Err Bool :=
  guard' (a.units == b.units) .assert <| pred2 a b (fun _ x y => feq x y) false (fun k f p => k && f && p)
/-- `__ne__` -/
def neFood (a b : FoodVal α) : Except Err Bool :=
  guard' (a.units == b.units) .assert <| pred2 a b (fun _ x y => !feq x y) true (fun k f p => k || f || p)

def allCmp (c : Cmp) (iF iP : Bool) (a b : FoodVal α) : Except Err Bool :=
  guard' (a.units == b.units) .assert <| guard' (validate a) .assert <|
  pred2 a b (relOf c) false (combAll iF iP)

/-- `all_greater_than`, `all_less_than`, `all_greater_than_or_equal_to` -/
def allGT (iF iP : Bool) (a b : FoodVal α) := allCmp .gt iF iP a b
def allLT (iF iP : Bool) (a b : FoodVal α) := allCmp .lt iF iP a b
def allGE (iF iP : Bool) (a b : FoodVal α) := allCmp .ge iF iP a b

/-- `any_greater_than`, `any_less_than` (monthly branch after the fix: `and include_*`) -/
def anyGT (iF iP : Bool) (a b : FoodVal α) : Except Err Bool :=
  guard' (a.units == b.units) .assert <| guard' (validate a) .assert <|
  pred2 a b (relOf .gt) true (combAnyIncl iF iP)
def anyLT (iF iP : Bool) (a b : FoodVal α) : Except Err Bool :=
  guard' (a.units == b.units) .assert <| guard' (validate a) .assert <|
  pred2 a b (relOf .lt) true (combAnyIncl iF iP)

/-- `any_greater_than_or_equal_to` -/
def anyGE (iF iP : Bool) (a b : FoodVal α) : Except Err Bool :=
  guard' (a.units == b.units) .assert <| guard' (validate a) .assert <|
  pred2 a b (relOf .ge) true (combAnyExcl iF iP)

/-- `any_less_than_or_equal_to` (after the fix the monthly branch asserts equal units too) -/
def anyLE (iF iP : Bool) (a b : FoodVal α) : Except Err Bool :=
  guard' (a.units == b.units) .assert <| guard' (validate a) .assert <|
  pred2 a b (relOf .le) true (combAnyIncl iF iP)

/-- the pairs for `all_less_than_or_equal_to`, which also accepts a single value against a series -/
def pairsLE (sa sb : Bool) (a b : List α) : Option (List (α × α)) :=
  match sa, sb with
  | false, true => some (b.map (fun y => (a.headD 0, y)))
  | _, _ => pairs sa sb a b

/-- `all_less_than_or_equal_to`: four cases, always `x <= y` -/
def allLE (iF iP : Bool) (a b : FoodVal α) : Except Err Bool :=
  let unitsOK : Except Err Bool :=
    if !a.series && !b.series then .ok (a.units == b.units)
    else if !a.series && b.series then
      -- `self.get_units_from_element_to_list() == other.get_units()`
      guard' a.noEach .assert <| .ok ([a.ku.addEach, a.fu.addEach, a.pu.addEach] == b.labels)
    else if a.series && !b.series then
      guard' b.noEach .assert <| .ok (a.labels == [b.ku.addEach, b.fu.addEach, b.pu.addEach])
    else .ok (a.units == b.units)
  match unitsOK with
  | .error e => .error e
  | .ok false => .error .assert
  | .ok true =>
    match pairsLE a.series b.series a.kcals b.kcals, pairsLE a.series b.series a.fat b.fat,
          pairsLE a.series b.series a.protein b.protein with
    | some k, some f, some p =>
      let q := fun (l : List (α × α)) => l.all (fun xy => cmpDirect .le xy.1 xy.2)
      .ok (combAll iF iP (q k) (q f) (q p))
    | _, _, _ => .error .unmodelled

/-- a unary predicate -/
def pred1 (a : FoodVal α) (rel : α → Bool) (anyQ : Bool) (comb : Bool → Bool → Bool → Bool) : Bool :=
  let q := fun (l : List α) => if anyQ then l.any rel else l.all rel
  comb (q a.kcals) (q a.fat) (q a.protein)

/-- `is_never_negative` -/
def neverNegative (iF iP : Bool) (a : FoodVal α) : Except Err Bool :=
  guard' (validate a) .assert <| .ok (pred1 a (fun x => decide (0 ≤ x)) false (combAll iF iP))

/-- `round(x, 9) == 0` — true iff `|x| ≤ 5e-10` (ties to even; the harness skips near-ties) -/
def roundsToZero (x : α) : Bool := decide (-5e-10 ≤ x ∧ x ≤ 5e-10)

/-- `all_equals_zero` -/
def allEqZero (iF iP : Bool) (a : FoodVal α) : Except Err Bool :=
  guard' (validate a) .assert <| .ok (pred1 a roundsToZero false (combAll iF iP))

/-- `any_equals_zero` -/
def anyEqZero (iF iP : Bool) (a : FoodVal α) : Except Err Bool :=
  guard' (validate a) .assert <| .ok (pred1 a (fun x => feq x 0) true (combAnyIncl iF iP))

/-- `all_greater_than_zero` (monthly branch after the fix: `or exclude_*`) -/
def allGTZero (iF iP : Bool) (a : FoodVal α) : Except Err Bool :=
  guard' (validate a) .assert <| .ok (pred1 a (fun x => decide (0 < x)) false (combAll iF iP))

/-- `any_greater_than_zero` -/
def anyGTZero (iF iP : Bool) (a : FoodVal α) : Except Err Bool :=
  guard' (validate a) .assert <| .ok (pred1 a (fun x => decide (0 < x)) true (combAnyIncl iF iP))

/-- `all_greater_than_or_equal_to_zero(threshold)` (single-value branch after the fix: `>= -threshold`) -/
def allGEZero (iF iP : Bool) (a : FoodVal α) (thr : α) : Except Err Bool :=
  guard' (validate a) .assert <| .ok (pred1 a (fun x => decide (-thr ≤ x)) false (combAll iF iP))

/-! ## the operation language and the register machine -/

/-- settings of `Food.conversions` plus numpy's rounding -/
structure Cfg (α : Type) where
  conv : Conv α
  inclFat : Bool
  inclProtein : Bool
  rnd : Int → α → α

inductive Pred2 | eq | ne | allGT | allLT | allGE | allLE | anyGT | anyLT | anyGE | anyLE
  deriving DecidableEq, Repr
inductive Pred1 | neverNegative | allEqZero | anyEqZero | allGTZero | anyGTZero | isRatio | isPercent
  deriving DecidableEq, Repr
inductive LabelQ | units | toTotal | toElement | toList
  deriving DecidableEq, Repr

/-- operations; register references are taken modulo the number of registers -/
inductive Op (α : Type)
  -- produce a new quantity (pushed as a new register)
  | construct (args : CtorArgs α) (ku fu pu : Label)
  | add (i j : Nat) | sub (i j : Nat) | mul (i j : Nat) | div (i j : Nat) | minElem (i j : Nat)
  | mulNum (i : Nat) (c : α) | divNum (i : Nat) (c : α) | mulArr (i : Nat) (l : List α)
  | neg (i : Nat) | abs (i : Nat) | clip (i : Nat) | round (i : Nat) (d : Int) | shift (i : Nat) (m : Int)
  | getInt (i : Nat) (k : Int) | getSlice (i : Nat) (lo hi : Int) | getMonth (i : Nat) (k : Int)
  | sum (i : Nat) | runningSum (i : Nat) | minAll (i : Nat) | maxAll (i : Nat)
  | inUnits (i : Nat) (tk tf tp : Label)
  -- setters that change register `i` in place (by design)
  | relabelTotal (i : Nat) | relabelElement (i : Nat) | relabelList (i : Nat)
  | setUnits (i : Nat) (ku fu pu : Label) | getUnits (i : Nat)
  -- queries (no register changes)
  | pred2 (p : Pred2) (i j : Nat) | pred1 (p : Pred1) (i : Nat) | geZero (i : Nat) (thr : α)
  | minNutrient (i : Nat) | maxNutrient (i : Nat) | labelQ (q : LabelQ) (i : Nat)

abbrev State (α : Type) := List (FoodVal α)

/-- what an operation returns -/
inductive Out (α : Type)
  | val (v : FoodVal α)          -- a new quantity
  | inPlace (v : FoodVal α)      -- the new content of the register the setter was applied to
  | bool (b : Bool)
  | nutrient (idx : Nat) (x : α)
  | labels (l : List Label)

def reg (s : State α) (i : Nat) : Except Err (FoodVal α) :=
  match s[i % s.length]? with
  | some v => .ok v
  | none => .error .index

def evalPred2 (cfg : Cfg α) (p : Pred2) (a b : FoodVal α) : Except Err Bool :=
  let iF := cfg.inclFat; let iP := cfg.inclProtein
  match p with
  | .eq => eqFood a b | .ne => neFood a b
  | .allGT => allGT iF iP a b | .allLT => allLT iF iP a b | .allGE => allGE iF iP a b | .allLE => allLE iF iP a b
  | .anyGT => anyGT iF iP a b | .anyLT => anyLT iF iP a b | .anyGE => anyGE iF iP a b | .anyLE => anyLE iF iP a b

def evalPred1 (cfg : Cfg α) (p : Pred1) (a : FoodVal α) : Except Err Bool :=
  let iF := cfg.inclFat; let iP := cfg.inclProtein
  match p with
  | .neverNegative => neverNegative iF iP a | .allEqZero => allEqZero iF iP a | .anyEqZero => anyEqZero iF iP a
  | .allGTZero => allGTZero iF iP a | .anyGTZero => anyGTZero iF iP a
  | .isRatio => .ok a.isRatio | .isPercent => .ok a.isPercent

def bind2 {β : Type} (s : State α) (i j : Nat) (f : FoodVal α → FoodVal α → Except Err β) : Except Err β :=
  match reg s i, reg s j with
  | .ok a, .ok b => f a b
  | .error e, _ => .error e
  | _, .error e => .error e

def bind1 {β : Type} (s : State α) (i : Nat) (f : FoodVal α → Except Err β) : Except Err β :=
  match reg s i with
  | .ok a => f a
  | .error e => .error e

def valOf (r : Except Err (FoodVal α)) : Except Err (Out α) :=
  match r with | .ok v => .ok (.val v) | .error e => .error e
def inPlaceOf (r : Except Err (FoodVal α)) : Except Err (Out α) :=
  match r with | .ok v => .ok (.inPlace v) | .error e => .error e
def boolOf (r : Except Err Bool) : Except Err (Out α) :=
  match r with | .ok v => .ok (.bool v) | .error e => .error e

/-- what the operation returns in state `s` -/
def eval (cfg : Cfg α) (op : Op α) (s : State α) : Except Err (Out α) :=
  match op with
  | .construct a ku fu pu => valOf (construct a ku fu pu)
  | .add i j => valOf (bind2 s i j add)
  | .sub i j => valOf (bind2 s i j sub)
  | .mul i j => valOf (bind2 s i j mul)
  | .div i j => valOf (bind2 s i j div)
  | .minElem i j => valOf (bind2 s i j minElem)
  | .mulNum i c => valOf (bind1 s i (mulNum · c))
  | .divNum i c => valOf (bind1 s i (divNum · c))
  | .mulArr i l => valOf (bind1 s i (mulArr · l))
  | .neg i => valOf (bind1 s i neg)
  | .abs i => valOf (bind1 s i absVal)
  | .clip i => valOf (bind1 s i clip)
  | .round i d => valOf (bind1 s i (rounded cfg.rnd · d))
  | .shift i m => valOf (bind1 s i (shift · m))
  | .getInt i k => valOf (bind1 s i (getInt · k))
  | .getSlice i lo hi => valOf (bind1 s i (getSlice · lo hi))
  | .getMonth i k => valOf (bind1 s i (getMonth · k))
  | .sum i => valOf (bind1 s i sumMonths)
  | .runningSum i => valOf (bind1 s i runningSum)
  | .minAll i => valOf (bind1 s i minAll)
  | .maxAll i => valOf (bind1 s i maxAll)
  | .inUnits i tk tf tp => valOf (bind1 s i (inUnits cfg.conv · tk tf tp))
  | .relabelTotal i => inPlaceOf (bind1 s i relabelTotal)
  | .relabelElement i => inPlaceOf (bind1 s i relabelElement)
  | .relabelList i => inPlaceOf (bind1 s i relabelList)
  | .setUnits i ku fu pu => inPlaceOf (bind1 s i (fun v => .ok (setUnits v ku fu pu)))
  | .getUnits i => inPlaceOf (bind1 s i (fun v => .ok (getUnits v)))
  | .pred2 p i j => boolOf (bind2 s i j (evalPred2 cfg p))
  | .pred1 p i => boolOf (bind1 s i (evalPred1 cfg p))
  | .geZero i thr => boolOf (bind1 s i (allGEZero cfg.inclFat cfg.inclProtein · thr))
  | .minNutrient i =>
    match bind1 s i (minNutrient cfg.inclFat cfg.inclProtein) with
    | .ok (n, x) => .ok (.nutrient n x) | .error e => .error e
  | .maxNutrient i =>
    match bind1 s i (maxNutrient cfg.inclFat cfg.inclProtein) with
    | .ok (n, x) => .ok (.nutrient n x) | .error e => .error e
  | .labelQ q i =>
    match bind1 s i (fun v => match q with
        | .units => .ok v.units | .toTotal => unitsToTotal v | .toElement => unitsToElement v
        | .toList => unitsToList v) with
    | .ok l => .ok (.labels l) | .error e => .error e

/-- the register a setter writes to -/
def Op.target : Op α → Nat
  | .relabelTotal i | .relabelElement i | .relabelList i | .setUnits i _ _ _ | .getUnits i => i
  | _ => 0

/-- effect on the registers: a new quantity is appended, a setter overwrites its register,
    a query changes nothing.  No other register is ever touched (operands are unchanged). -/
def applyOut (op : Op α) (o : Out α) (s : State α) : State α :=
  match o with
  | .val v => s ++ [v]
  | .inPlace v => s.set (op.target % s.length) v
  | _ => s

def step (cfg : Cfg α) (op : Op α) (s : State α) : Except Err (State α) :=
  match eval cfg op s with
  | .ok o => .ok (applyOut op o s)
  | .error e => .error e

/-- run a sequence, stopping at the first rejected operation -/
def run (cfg : Cfg α) : List (Op α) → State α → Except Err (State α)
  | [], s => .ok s
  | op :: t, s =>
    match step cfg op s with
    | .ok s' => run cfg t s'
    | .error e => .error e

/-- run a sequence the way a caller that catches the exception does: a rejected operation leaves
    the registers as they were -/
def runSkip (cfg : Cfg α) : List (Op α) → State α → State α
  | [], s => s
  | op :: t, s =>
    match step cfg op s with
    | .ok s' => runSkip cfg t s'
    | .error _ => runSkip cfg t s

/-- the answers of every step under `runSkip` (what the driver prints) -/
def trace (cfg : Cfg α) : List (Op α) → State α → List (Except Err (Out α))
  | [], _ => []
  | op :: t, s =>
    match eval cfg op s with
    | .ok o => .ok o :: trace cfg t (applyOut op o s)
    | .error e => .error e :: trace cfg t s

/-! ## the specification of "correctly labelled" -/

/-- labels fit the shape: a series carries exactly one `each month`, at the end of each label; a
    single value carries none; the three labels have the same form -/
def labelsFor (ser : Bool) (ku fu pu : Label) : Bool :=
  (if ser then ku.seriesOK && fu.seriesOK && pu.seriesOK else ku.scalarOK && fu.scalarOK && pu.scalarOK)
  && ku.sfx == fu.sfx && fu.sfx == pu.sfx

/-- the three number lists fit the shape -/
def shapeOK (v : FoodVal α) : Bool :=
  if v.series then 0 < v.kcals.length && v.fat.length == v.kcals.length && v.protein.length == v.kcals.length
  else v.kcals.length == 1 && v.fat.length == 1 && v.protein.length == 1

/-- the executable statement of "the unit labels describe the numbers" -/
def labelOK (v : FoodVal α) : Bool :=
  v.units == [v.ku, v.fu, v.pu] && shapeOK v && labelsFor v.series v.ku v.fu v.pu

/-- the list `units` agrees with the three labels (the weaker invariant every operation and every
    setter maintains, whatever its operands) -/
def unitsAgree (v : FoodVal α) : Bool := v.units == [v.ku, v.fu, v.pu]

/-- the one-month series equal to a single value: same numbers, labels with `each month` appended -/
def asSeries (a : FoodVal α) : FoodVal α :=
  { series := true, kcals := a.kcals, fat := a.fat, protein := a.protein,
    ku := a.ku.addEach, fu := a.fu.addEach, pu := a.pu.addEach,
    units := [a.ku.addEach, a.fu.addEach, a.pu.addEach] }

/-- pre-condition on the caller's labels for the public constructor: a single value carries labels of
    one form without `each month`; a series carries labels that, once the constructor has appended a
    missing `each month`, are of one form with a single final `each month` -/
def ctorLabelsOK (a : CtorArgs α) (ku fu pu : Label) : Bool :=
  match a with
  | .scalar _ _ _ => labelsFor false ku fu pu
  | .series _ _ _ => labelsFor true ku.fixEach fu.fixEach pu.fixEach

/-- the setters (they overwrite their own register, by design) -/
def Op.isSetter : Op α → Bool
  | .relabelTotal _ | .relabelElement _ | .relabelList _ | .setUnits _ _ _ _ | .getUnits _ => true
  | _ => false

/-- pre-conditions on the arguments that are not quantities: constructor labels as above, `in_units`
    targets are plain unit names (as in the five `in_units_*` helpers) -/
def Op.argsOK : Op α → Bool
  | .construct a ku fu pu => ctorLabelsOK a ku fu pu
  | .inUnits _ tk tf tp => tk.sfx.isEmpty && tf.sfx.isEmpty && tp.sfx.isEmpty
  | _ => true

end
end Allfed.Food
