#!/venv/bin/python
"""Run a batch of (country, options) scenarios in ONE fresh process and print one JSON line per run:
a bit-exact fingerprint of everything the run returns and the trace of its accesses to the
process-wide settings cell.  usage: runbatch.py <scratch dir> <json list of [iso, options]>"""
import hashlib, json, os, struct, sys, warnings
warnings.filterwarnings("ignore")
scratch_dir, batch = sys.argv[1], json.loads(sys.argv[2])
os.environ.setdefault("MPLBACKEND", "Agg")
sys.path.insert(0, os.path.join(os.environ.get("VERIF_ROOT", "/verif"), "harness"))
from lib import scratch as _s, pipeline  # noqa
_s.enter(scratch_dir)
import numpy as np  # noqa
from src.food_system.unit_conversions import UnitConversions  # noqa
from src.food_system.food import Food  # noqa

trace = []
_set = UnitConversions.set_nutrition_requirements


def set_(self, kcals_daily, fat_daily, protein_daily, include_fat, include_protein, population):
    trace.append("w %r" % ((float(kcals_daily), float(fat_daily), float(protein_daily), bool(include_fat), bool(include_protein), float(population)),))
    return _set(self, kcals_daily, fat_daily, protein_daily, include_fat, include_protein, population)


UnitConversions.set_nutrition_requirements = set_
_get = Food.get_conversions.__func__


def get_(cls):
    trace.append("r")
    return _get(cls)


Food.get_conversions = classmethod(get_)


def bits(a):
    a = np.asarray(a, dtype=float).ravel()
    return a.tobytes()


def fingerprint(res):
    fields = {}
    fields["percent_people_fed"] = struct.pack("<d", float(res.percent_people_fed)).hex()
    # everything the result object exposes, whether it lives on the instance or (shared) on its class
    names = set(vars(res))
    for n_ in dir(type(res)):
        if not n_.startswith("_"):
            try:
                if not callable(getattr(res, n_)):
                    names.add(n_)
            except Exception:
                pass
    for name in sorted(names):
        val = getattr(res, name, None)
        if isinstance(val, Food):
            h = hashlib.sha256(bits(val.kcals) + bits(val.fat) + bits(val.protein) + "|".join(val.units).encode()).hexdigest()[:16]
            fields[name] = h
        elif isinstance(val, np.ndarray) and val.dtype.kind in "fiu":
            fields[name] = hashlib.sha256(bits(val)).hexdigest()[:16]
        elif isinstance(val, dict) and name in ("meat_dictionary", "animal_population_dictionary"):
            for k2, v2 in sorted(val.items()):
                try:
                    fields[name + "." + str(k2)] = hashlib.sha256(bits(v2)).hexdigest()[:16]
                except Exception:
                    pass
    return fields


def summarise(ev):
    first_write = next((i for i, e in enumerate(ev) if e.startswith("w")), None)
    return {"n_events": len(ev), "reads_before_first_write": first_write if first_write is not None else len(ev),
            "writes": sorted(set(e for e in ev if e.startswith("w"))), "n_writes": sum(1 for e in ev if e.startswith("w")), "trace_head": ev[:6]}


for idx, entry in enumerate(batch):
    if entry[0] == "NOTRADE":
        # the multi-country driver itself: one options dictionary shared by all countries of the list
        import contextlib, io
        from src.scenarios.run_model_no_trade import ScenarioRunnerNoTrade
        _, opts, countries = entry
        start = len(trace)
        err, res = None, {}
        try:
            with contextlib.redirect_stdout(io.StringIO()):
                out_ = ScenarioRunnerNoTrade().run_model_no_trade(
                    title="c14nt_%d_%d" % (os.getpid(), idx), create_pptx_with_all_countries=False, show_country_figures=False,
                    show_map_figures=False, add_map_slide_to_pptx=False, scenario_option=opts, countries_list=countries,
                    return_results=True)
            res = out_[3]
            agg = [float(out_[1]), float(out_[2])]
        except BaseException as e:
            if isinstance(e, KeyboardInterrupt):
                raise
            err = "%s: %s" % (type(e).__name__, str(e)[:200])
            agg = None
        for name, r in res.items():
            d = {"iso": "NOTRADE:" + name, "opts": {"countries": countries}, "error": None, "fingerprint": fingerprint(r)}
            d.update(summarise([]))
            d["reads_before_first_write"] = 0
            print("RUN " + json.dumps(d))
        d = {"iso": "NOTRADE-AGG", "opts": {"countries": countries}, "error": err, "fingerprint": {"net_pop": repr(agg)} if agg else None}
        d.update(summarise(trace[start:]))
        d["reads_before_first_write"] = 0
        print("RUN " + json.dumps(d))
        sys.stdout.flush()
        for f in os.listdir("results"):
            if f.startswith("c14nt_"):
                with contextlib.suppress(OSError):
                    os.remove(os.path.join("results", f))
        continue
    iso, opts = entry
    start = len(trace)
    run = pipeline.run_scenario(iso, opts, title="c14_%d_%d" % (os.getpid(), idx))
    ev = trace[start:]
    # compress the trace: leading reads before the first write, number of writes, distinct settings written
    first_write = next((i for i, e in enumerate(ev) if e.startswith("w")), None)
    out = {"iso": iso, "opts": opts, "error": run.error, "n_events": len(ev), "reads_before_first_write": first_write if first_write is not None else len(ev),
           "writes": sorted(set(e for e in ev if e.startswith("w"))), "n_writes": sum(1 for e in ev if e.startswith("w")),
           "trace_head": ev[:6],
           "fingerprint": fingerprint(run.result) if run.result is not None else None}
    print("RUN " + json.dumps(out))
    sys.stdout.flush()
