"""tr_species: regenerate lean/AllfedModel/Gen/SpeciesClasses.lean from
data/no_food_trade/animal_feed_data/species_attributes.csv (animal type, digestion type, animal size)."""
import csv, hashlib, os

ROOT = os.environ.get("VERIF_ROOT", "/verif")
OUT = os.path.join(ROOT, "lean", "AllfedModel", "Gen", "SpeciesClasses.lean")


def lean_str(s):
    return '"' + s.replace("\\", "\\\\").replace('"', '\\"') + '"'


def generate(repo):
    path = os.path.join(repo, "data", "no_food_trade", "animal_feed_data", "species_attributes.csv")
    rows = []
    with open(path, newline="") as f:
        rd = csv.reader(f)
        header = next(rd)
        ia, idg, isz = header.index("animal"), header.index("digestion type"), header.index("animal size")
        for r in rd:
            if not r or not r[ia].strip():
                continue
            rows.append((r[ia].strip(), r[idg].strip(), r[isz].strip()))
    if not rows:
        raise ValueError("species_attributes.csv has no species rows")
    body = ["-- GENERATED on every check run by harness/translators/tr_species.py from",
            "-- /repo/data/no_food_trade/animal_feed_data/species_attributes.csv.  Do not edit.",
            "namespace Allfed.Gen.Species", "",
            "/-- (animal type, digestion type, animal size) -/",
            "def species : List (String × String × String) := ["]
    body += ["  (%s, %s, %s)%s" % (lean_str(a), lean_str(d), lean_str(s), "," if k < len(rows) - 1 else "") for k, (a, d, s) in enumerate(rows)]
    body += ["]", "", "end Allfed.Gen.Species", ""]
    return "\n".join(body), rows, path


def run(ctx):
    body, rows, path = generate(ctx.repo)
    old = open(OUT).read() if os.path.exists(OUT) else None
    if old != body:
        os.makedirs(os.path.dirname(OUT), exist_ok=True)
        with open(OUT, "w") as f:
            f.write(body)
        ctx.count("translator:tr_species:rewritten")
    ctx.extra.setdefault("translator_inputs", {})["species_attributes.csv"] = hashlib.sha256(open(path, "rb").read()).hexdigest()[:16]
    ctx.extra["species_rows"] = len(rows)
    return rows


run.__name__ = "tr_species"

if __name__ == "__main__":
    import sys
    print(generate(sys.argv[1] if len(sys.argv) > 1 else "/repo")[0])
