import AllfedModel.Num.Basic
/-
Model of the multi-country runner of `src/scenarios/run_model_no_trade.py` (property C15):
  * `get_countries_to_run_and_skip`        -> `hasBang`, `stripBang`, `runAndSkip`
  * the two `continue` tests of the loop   -> `selected`, `select`
  * the loop body of `run_model_no_trade`  -> `cap`, `step`, `runLoop`
  * the fraction callers derive from the returned `[world, net_pop, net_pop_fed, results]`
                                           -> `aggregate`
Written the way the code is written (same tests, same order of additions), generic in the number type.

What the code does with the selection list (and the model mirrors):
  * a name counts as "banged" when it CONTAINS a '!' anywhere (`"!" in c`), not only as a prefix;
    `c.replace("!", "")` removes EVERY '!';
  * `[]`                          -> run every row of the table;
  * every name banged             -> run every row whose code is not one of the stripped names;
  * otherwise (at least one name without '!', i.e. inclusion lists AND mixed lists)
                                  -> run exactly the rows whose code is one of the un-banged names;
                                     the banged names are ignored altogether (the skip list stays empty);
  * duplicates and unknown codes in the list have no effect (membership tests only).
The per-country run is a parameter: `none` stands for a fraction that is NaN (`np.isnan(needs_ratio)`),
in which case the loop `continue`s *before* anything is accumulated or stored.
-/
namespace Allfed.Aggregate
open Allfed

/-- `"!" in c` -/
def hasBang (c : String) : Bool := c.toList.contains '!'

/-- `c.replace("!", "")` -/
def stripBang (c : String) : String := String.ofList (c.toList.filter (fun ch => ch != '!'))

/-- `get_countries_to_run_and_skip`: `(exclusive_countries_to_run, countries_to_skip)` -/
def runAndSkip (l : List String) : List String × List String :=
  if l.isEmpty then ([], [])
  else if l.all hasBang then ([], (l.filter hasBang).map stripBang)
  else (l.filter (fun c => !hasBang c), [])

/-- the two tests at the top of the loop body:
    `if len(exclusive) > 0: if code not in exclusive: continue` and `if code in skip: continue` -/
def selected (rs : List String × List String) (code : String) : Bool :=
  (rs.1.isEmpty || rs.1.contains code) && !(rs.2.contains code)

/-- the codes of the table (in table order) for which the optimiser is run -/
def select (l : List String) (table : List String) : List String :=
  table.filter (selected (runAndSkip l))

section
variable {α : Type} [Add α] [Sub α] [Mul α] [Div α] [Neg α] [LE α] [LT α]
  [DecidableLE α] [DecidableLT α] [OfNat α 0] [OfNat α 1] [OfScientific α]

/-- `if needs_ratio >= 1: capped_ratio = 1 else: capped_ratio = needs_ratio` -/
def cap (r : α) : α := if 1 ≤ r then 1 else r

/-- one row of `computer_readable_combined.csv` as far as the aggregation reads it -/
structure Country (α : Type) where
  iso3 : String
  name : String
  pop : α

/-- the accumulators of the loop; `keys` = the keys of the `results` dict in insertion order -/
structure Outcome (α : Type) where
  netPop : α
  netPopFed : α
  keys : List String

/-- `results[country_name] = …` on a dict: a key that is already present keeps its place -/
def dictInsert (keys : List String) (k : String) : List String :=
  if keys.contains k then keys else keys ++ [k]

/-- one iteration of `for index, country_data in no_trade_table.iterrows()` -/
def step (rs : List String × List String) (frac : Country α → Option α)
    (acc : Outcome α) (c : Country α) : Outcome α :=
  if !selected rs c.iso3 then acc else
  match frac c with
  | none => acc                                   -- `if np.isnan(needs_ratio): … continue`
  | some r =>
    { netPopFed := acc.netPopFed + cap r * c.pop  -- `net_pop_fed += capped_ratio * population`
      netPop := acc.netPop + c.pop                -- `net_pop += population`
      keys := dictInsert acc.keys c.name }        -- `results[country_name] = interpreted_results`

/-- `run_model_no_trade` (with `return_results=True`): `[_, net_pop, net_pop_fed, results]` -/
def runLoop (l : List String) (table : List (Country α)) (frac : Country α → Option α) : Outcome α :=
  table.foldl (step (runAndSkip l) frac) { netPop := 0, netPopFed := 0, keys := [] }

/-- the aggregate fraction fed derived from the return value (`pop_fed / pop_total`) for a list of
    `(population, fraction fed)` of the countries that were run -/
def aggregate (l : List (α × α)) : α :=
  l.foldl (fun acc x => acc + cap x.2 * x.1) 0 / l.foldl (fun acc x => acc + x.1) 0

/-- the `(population, fraction)` pairs of the countries that are run and return a number -/
def ran (l : List String) (table : List (Country α)) (frac : Country α → Option α) : List (α × α) :=
  (table.filter (fun c => selected (runAndSkip l) c.iso3)).filterMap (fun c => (frac c).map (fun r => (c.pop, r)))

end
end Allfed.Aggregate
