import AllfedModel.Model.AllocLP
import AllfedModel.Model.Certificate
import AllfedModel.Proofs.Completion
import AllfedModel.Model.AllocSpec
import AllfedModel.Proofs.Round2
import AllfedModel.Model.Validators
import AllfedModel.Proofs.Validators
import AllfedModel.Props.C01
import AllfedModel.Props.C03
import AllfedModel.Props.C04
import AllfedModel.Props.C18
/-!
# C16 — every country completes under every documented preset

The property itself is decided by executing the grid (harness/props/c16.py).  What a theorem can
add: the LP of a round that charges no feed and no biofuel (round 1, and round 3 when round 2 was
skipped or found nothing) always has a feasible point and a bounded objective when no seaweed is
farmed, for every well-formed input — so a failure of such a round can only be numerical.
With seaweed the statement is false in general (biomass that may neither be harvested beyond the
human intake cap nor exceed the density ceiling), which is why it is excluded here.
-/
namespace Allfed.C16
open Allfed.LP Allfed.AllocLP Allfed.Certificate Allfed.AllocSpec

variable {K : Type} [Field K] [LinearOrder K] [IsStrictOrderedRing K]

/-- inputs of a zero-charge human round as the pipeline produces them -/
structure ZeroChargeInput (i : Inp K) : Prop where
  months : 2 ≤ i.nmonths
  noSeaweed : i.addSeaweed = false
  wf : WellFormed i
  need : 0 < i.billionKcalsNeeded
  feed0 : ∀ m, at' i.feed m = 0
  biofuel0 : ∀ m, at' i.biofuel m = 0
  supplies : (∀ m, 0 ≤ at' i.milk m) ∧ (∀ m, 0 ≤ at' i.greenhouse m) ∧ (∀ m, 0 ≤ at' i.fish m) ∧
             (∀ m, 0 ≤ at' i.scp m) ∧ (∀ m, 0 ≤ at' i.cs m) ∧ (∀ m, 0 ≤ at' i.slaughtered m) ∧
             (∀ m, 0 ≤ at' i.maxCulled m) ∧ 0 ≤ i.meatSummed
  /-- only the human intake limits matter: the feed and biofuel caps `lim·charge` are `lim·0`
      whatever the sign of the limit (the four `…F/…B` conjuncts of the first version were
      superfluous and have been dropped) -/
  limits : 0 ≤ i.limScpH ∧ 0 ≤ i.limCsH
  population : 0 ≤ i.pop ∧ 0 ≤ i.kcalsMonthly

/-- feasibility: eat the stock in month 0 and every harvest in the month it appears
    (`months` is not needed for this half; `WellFormed` is used for `wStored, wCrop < 100`,
    `0 ≤ storedInitial`, `0 ≤ cropProd m` on the horizon) -/
theorem zero_charge_feasible_no_seaweed (i : Inp K) (h : ZeroChargeInput i) :
    ∃ x, Feasible (buildLP i .toHumans) x :=
  Proofs.Completion.zero_charge_feasible_no_seaweed i h.noSeaweed h.wf h.need h.feed0 h.biofuel0
    h.supplies h.limits h.population

/-- boundedness: the objective never exceeds month 0's supply relative to need -/
theorem objective_bounded (i : Inp K) (h : ZeroChargeInput i) (x : Var → K) (hx : Feasible (buildLP i .toHumans) x) :
    x .objective ≤
      (i.storedInitial + at' i.cropProd 0 + at' i.milk 0 + (if i.storeBetweenYears then i.meatSummed else at' i.slaughtered 0)
        + at' i.cs 0 + at' i.scp 0 + at' i.greenhouse 0 + at' i.fish 0) / i.billionKcalsNeeded * 100 :=
  Proofs.Completion.objective_bounded i h.months h.noSeaweed h.wf h.need h.supplies x hx

/-! ## the feed-maximising round after a human-maximising round

Round 2 pins what people eat of every food to the result of round 1.  For seaweed an *upper* pin
can make the LP infeasible: seaweed that has grown must be harvested (equality ledger, density
ceiling, no disposal) and the feed/biofuel share caps may absorb nothing.  Since the repair the row
`Seaweed_Max_Requirement` is no longer added (`buildLP` pins seaweed from below only;
`buildLPBeforeSeaweedFix` is the former programme). -/

/-- before the fix: a well-formed two-month instance (1 t of seaweed on 1 km² at the density
    ceiling, doubling in month 1, no feed or biofuel allowed), a feasible point of its
    human-maximising round, minimum consumption between 0 and what that point ate — every
    hypothesis of `round2_feasible_of_round1` — for which the former feed-maximising LP has NO
    feasible point, while today's has one -/
theorem round2_seaweed_pin_infeasible_before_fix :
    ∃ (i : Inp ℚ) (x₁ : Var → ℚ), WellFormed i ∧
      (anyFeedVar i = true → ∀ m, m < i.nmonths → 0 ≤ at' i.maxFeed m ∧ 0 ≤ at' i.maxBiofuel m) ∧
      Feasible (buildLP i .toHumans) x₁ ∧ PinsWithin i x₁ ∧
      (∀ x, ¬ Feasible (buildLPBeforeSeaweedFix i .toAnimals) x) ∧
      ∃ x, Feasible (buildLP i .toAnimals) x :=
  Proofs.Round2.round2_seaweed_pin_infeasible_before_fix

/-- today's formulation: if `x₁` is feasible for the human-maximising LP (any charge) and the
    minimum-consumption series lie between 0 and what `x₁` gives people of each of the six pinned
    foods (`PinsWithin`: months of the horizon, resources that are on, seaweed in kcals), the inputs
    are well-formed and the feed and biofuel ceilings are non-negative, then the feed-maximising LP
    has a feasible point (people get exactly the minimum of every food but seaweed, the seaweed
    farm runs as in `x₁` with the whole harvest going to people, nothing is fed or burnt; the stock
    variables follow from their ledgers) -/
theorem round2_feasible_of_round1 (i : Inp K) (x₁ : Var → K) (hw : WellFormed i)
    (hceil : anyFeedVar i = true → ∀ m, m < i.nmonths → 0 ≤ at' i.maxFeed m ∧ 0 ≤ at' i.maxBiofuel m)
    (h₁ : Feasible (buildLP i .toHumans) x₁) (hp : PinsWithin i x₁) :
    ∃ x, Feasible (buildLP i .toAnimals) x :=
  Proofs.Round2.round2_feasible_of_round1 i x₁ hw hceil h₁ hp

/-- non-vacuity: the instance of the counter-example satisfies every hypothesis -/
example : ∃ (i : Inp ℚ) (x₁ : Var → ℚ), WellFormed i ∧
    (anyFeedVar i = true → ∀ m, m < i.nmonths → 0 ≤ at' i.maxFeed m ∧ 0 ≤ at' i.maxBiofuel m) ∧
    Feasible (buildLP i .toHumans) x₁ ∧ PinsWithin i x₁ ∧ i.addSeaweed = true :=
  ⟨Proofs.Round2.swInst, Proofs.Round2.swX, Proofs.Round2.swInst_wellFormed,
    Proofs.Round2.swInst_ceilings, Proofs.Round2.swX_feasible, Proofs.Round2.swInst_pins, rfl⟩

/-! ## the built-in validators (`validate_results.py`) are implied by C01 / C03 / C04 / C18 for exact solutions

`Model/Validators.lean` is the executable model of class `Validator` (tied to the real code on every run by
`harness/lib/validators.py`).  For every numeric validator: either a theorem "the series come from an exactly
feasible point of `buildLP` / from the hand-off helpers ⇒ the validator passes for every tolerance ε ≥ 0", citing
the property theorem it rests on, or — where the validator tests a heuristic relation between rounds, or uses its
tolerance in a way an exact solution can violate — a concrete `…_counterexample` over ℚ.  `Outcome.ok` = the call
does not raise; `.pass` = the test ran and held; `.skipped` = early return; `.warned` = only printed.

Fat and protein are switched off (`⟨false, false⟩`), as in `buildLP` and in every documented option set. -/

section Validators
open Allfed.Validators Allfed.Proofs.Validators Allfed.PhysSpec Allfed.Report Allfed.Handoff

/-- `ensure_all_greater_than_or_equal_to_zero`: the reported percent series are the allocation (non-negative: the
    `nonneg` clause of `C01.feasible_is_physical`, here directly `Feasible.2`) and the non-negative inputs times positive
    constants (`C04.contribution_linear`), and the "new stored" half of the crop split is never negative.
    Holds for both kinds of round and for all three tolerances the code uses (`1e-6`, rounding to 6 decimals, none). -/
theorem validator_all_ge_zero_of_feasible (i : Inp K) (kind : Kind) (x : Var → K) (produced : Nat → K)
    (h : Feasible (buildLP i kind) x) (hkm : 0 < i.kcalsMonthly) (hb : 0 < i.billionKcalsNeeded)
    (hgh : ∀ m, m < i.nmonths → 0 ≤ at' i.greenhouse m) (hfish : ∀ m, m < i.nmonths → 0 ≤ at' i.fish m)
    (hmilk : ∀ m, m < i.nmonths → 0 ≤ at' i.milk m) :
    ensureAllGe0 ⟨false, false⟩ (reportedFoods i x produced) = .pass :=
  ensureAllGe0_of_point i x produced h.2 hkm hb hgh hfish hmilk

/-- `ensure_never_nan`: in exact arithmetic there is nothing to find — for ALL series.  What a total order cannot express
    is NaN itself: NaN only arises from IEEE operations (`0/0`, `inf − inf`) the exact model does not have; the divisions
    of the reporting chain are by `kcals_monthly`, `billion_kcals_needed`, `population`, guarded as hypotheses
    wherever a theorem uses them.  At `Float` the model's test `¬(x ≤ x)` is exactly `isnan`. -/
theorem validator_never_nan (r : Foods K) : ensureNeverNan r = .pass := ensureNeverNan_pass r

/-- `ensure_zero_kcals_have_zero_fat_and_protein`: with fat and protein off it tests nothing … -/
theorem validator_zero_kcals_excluded (r : Foods K) : ensureZeroKcals ⟨false, false⟩ r = .pass :=
  ensureZeroKcals_of_excluded r

/-- … and with them on it holds for every series whose three nutrients are one allocation times three constants
    (`C04.contribution_linear`: that is how every reported series is made), kcals constant non-zero -/
theorem validator_zero_kcals_linear (fl : Flags) (a : List K) (ck cf cp : K) (hck : ck ≠ 0) :
    foodZeroKcals fl ⟨a.map (· * ck), a.map (· * cf), a.map (· * cp)⟩ = true :=
  foodZeroKcals_of_linear fl a ck cf cp hck

/-- `ensure_optimizer_returns_same_as_sum_nutrients` (headline vs the first solve's optimum, tolerance: half a
    percentage point after `round(·, 0)`): implied by `C04.headline_ge_floor` and `C04.headline_le_optimum`
    whenever the optimum is at most 10 000 % — the floor `0.99995·z` is relative, the validator's tolerance absolute. -/
theorem validator_optimizer_same_as_sum_of_feasible (i : Inp K) (x : Var → K) (zopt : K) (code : String)
    (hopt : ∀ x', Feasible (buildLP i .toHumans) x' → x' .objective ≤ zopt)
    (h : Feasible (buildLP i .toHumans ++ floorRows i .toHumans zopt) x)
    (hkm : i.kcalsMonthly ≠ 0) (hN : 0 < i.nmonths) (hz : 0 ≤ zopt) (hz4 : zopt ≤ 10000) :
    optimizerSameAsSum zopt (headline i x) code = .pass :=
  optimizerSameAsSum_of_floor zopt (headline i x) code hz hz4
    (C04.headline_ge_floor i x zopt h hkm hN)
    (C04.headline_le_optimum i x zopt hopt (C01.extra_rows_preserve _ _ x h) hkm hN)

/-- NOT implied beyond 10 000 %: optimum 20 000 %, headline 19 999 % — inside C04's floor, one whole point apart -/
theorem validator_optimizer_same_as_sum_counterexample :
    (20000 : ℚ) * 0.99995 ≤ 19999 ∧ (19999 : ℚ) ≤ 20000 ∧ optimizerSameAsSum (20000 : ℚ) 19999 "USA" = .raised :=
  optimizerSameAsSum_counterexample

/-- the same on a programme: two months, 20 000 of stored food that need not be eaten (D14), optimum 20 000 %; a point that
    satisfies the rows AND the `0.99995·z` floors of the later solves, headline 19 999 % — every hypothesis of
    `validator_optimizer_same_as_sum_of_feasible` except `zopt ≤ 10000`, and the validator raises -/
theorem validator_optimizer_same_as_sum_feasible_counterexample :
    (∀ x', Feasible (buildLP bigI .toHumans) x' → x' .objective ≤ 20000) ∧
      Feasible (buildLP bigI .toHumans ++ floorRows bigI .toHumans 20000) bigX ∧ bigI.kcalsMonthly ≠ 0 ∧ 0 < bigI.nmonths ∧
      headline bigI bigX = 19999 ∧ optimizerSameAsSum (20000 : ℚ) (headline bigI bigX) "USA" = .raised :=
  optimizerSameAsSum_feasible_counterexample

/-- `check_constraints_satisfied` re-evaluates every row at the reported values; in terms of the LP model it says:
    every residual of `PhysSpec.rowExcess` (the evaluator of `C01.rowExcess_iff`) is `≤ tol`, for equalities `< tol` -/
theorem validator_check_row_iff_rowExcess (tol : K) (x : Var → K) (r : Row K) :
    checkRow tol x r = true ↔
      (r.rel = .eq → ∀ e ∈ rowExcess x r, e.value < tol) ∧ (r.rel ≠ .eq → ∀ e ∈ rowExcess x r, e.value ≤ tol) :=
  checkRow_iff_rowExcess tol x r

/-- … so every exactly feasible point passes for every POSITIVE tolerance (the code's is the literal `1`), whatever
    rows are skipped; in particular every feasible point of `buildLP i kind ++ floorRows i kind z` -/
theorem validator_check_constraints_of_feasible (tol : K) (htol : 0 < tol) (skip : List String) (rows : List (Row K))
    (x : Var → K) (hne : rows ≠ []) (h : Feasible rows x) : checkConstraints tol skip rows x = some .pass :=
  checkConstraints_of_feasible tol htol skip rows x hne h

/-- NOT for tolerance 0: the equality test is strict -/
theorem validator_check_constraints_zero_tolerance_counterexample :
    Feasible [eqRow] eqX ∧ checkConstraints (0 : ℚ) [] [eqRow] eqX = some .raised ∧
      checkConstraints (1 : ℚ) [] [eqRow] eqX = some .pass :=
  checkConstraints_zero_tolerance_counterexample

/-- `assert_population_not_increasing` (not called by the pipeline): a sufficient condition — herds that never grow and
    are never negative pass for every positive ε … -/
theorem validator_population_of_antitone (eps : K) (heps : 0 < eps) (dict : List (String × List K))
    (h : ∀ kv ∈ dict, strContains kv.1 "population" = true → (∀ v ∈ kv.2, 0 ≤ v) ∧ kv.2.IsChain (fun a b => b ≤ a)) :
    populationNotIncreasing eps dict = .pass :=
  populationNotIncreasing_of_antitone eps heps dict h

/-- … but NOT implied by anything proved about the herd model (C05–C07 prove the ledger, not a growth bound): 11 % growth fails -/
theorem validator_population_counterexample :
    populationNotIncreasing (1/10 : ℚ) [("beef_population", [100, 111])] = .raised ∧
      populationNotIncreasing (1/10 : ℚ) [("beef_population", [100, 110])] = .pass :=
  population_counterexample

/-- `assert_round2_meat_and_population_greater_than_round1` (not called by the pipeline): sufficient condition … -/
theorem validator_round2_greater_of_ge (eps small : K) (heps : 0 ≤ eps) (d1 d2 : List (String × List K))
    (h : ∀ kv ∈ d1, ∃ s2, d2.lookup kv.1 = some s2 ∧ 0 ≤ lsum kv.2 ∧ lsum kv.2 ≤ lsum s2) :
    round2GreaterThanRound1 eps small d1 d2 = some .pass :=
  round2GreaterThanRound1_of_ge eps small heps d1 d2 h

/-- … NOT implied: a heuristic relation between two herd simulations (2 % fewer animals with feed fails; milk is exempt;
    a key missing in round 2 is a KeyError) -/
theorem validator_round2_greater_counterexample :
    round2GreaterThanRound1 (1/100 : ℚ) 100 [("beef_population", [500, 500])] [("beef_population", [490, 490])] = some .raised ∧
      round2GreaterThanRound1 (1/100 : ℚ) 100 [("milk_produced", [500, 500])] [("milk_produced", [1, 1])] = some .pass ∧
      round2GreaterThanRound1 (1/100 : ℚ) 100 [("beef_population", [500, 500])] [] = none :=
  round2GreaterThanRound1_counterexample

/-- `assert_meat_dairy_doesnt_decrease_round_2` is called with the round-2 slaughter series AFTER the re-timing of
    C18: `C18.redistribute_total` (total preserved) and `C18.redistribute_none_iff` (a result exists only if round 2
    has at least round 1's total) imply it for every ε ≥ 0 -/
theorem validator_meat_dairy_of_redistribute (eps : K) (heps : 0 ≤ eps) (r1 r2 out milk1 milk2 : List K)
    (hl : r1.length = r2.length) (h : redistribute r1 r2 = some out) (h0 : 0 ≤ r1.sum + milk1.sum) :
    meatDairyNotDecreasing eps r1 out milk1 milk2 = .pass :=
  meatDairy_of_redistribute eps heps r1 r2 out milk1 milk2 hl h h0

/-- `verify_minimum_food_consumption_sum_round2` on the output of the hand-off: `C18.fillMonth_sum` (every month adds
    up to `min(cap, eaten)`) and `C18.dailyMax_eq_min` (`cap = KCALS_DAILY·min(p1, T)/100`) imply it as long as
    `min(p1, T) ≤ 100` -/
theorem validator_min_consumption_sum_of_handoff (fl : Flags) (eps kd p1 T : K) (heps : 0 ≤ eps) (hkd : 0 ≤ kd) (hp : 0 ≤ p1)
    (hT : 0 ≤ T) (hT100 : min p1 T ≤ 100) (avail : List (List K)) (hf : ∀ row ∈ avail, ∀ f ∈ row, 0 ≤ f) :
    (minConsumptionSum fl eps kd (minNeeds (dailyMax kd p1 T) avail)).ok = true :=
  minConsumptionSum_of_handoff fl eps kd p1 T heps hkd hp hT hT100 avail hf

/-- NOT beyond: a threshold of 120 % (round 1 at 150 %) makes the hand-off's exact output fail its own check -/
theorem validator_min_consumption_sum_counterexample :
    minConsumptionSum ⟨false, false⟩ (1/10000 : ℚ) 2100 (minNeeds (dailyMax 2100 150 120) [[3150, 0, 0, 0, 0, 0, 0, 0, 0]]) = .raised :=
  minConsumptionSum_threshold_above_100_counterexample

/-- `verify_food_usage_priorities_round2` on the output of the hand-off: the priority order of
    `C18.fillMonth_priority` and the bound of `C18.fillMonth_le` — a food is drawn on only when every earlier one is
    used to 100 %, none beyond 100 % — for every ε ≥ 0 and every cap ≥ 0 -/
theorem validator_usage_priorities_of_handoff (fl : Flags) (eps cap : K) (heps : 0 ≤ eps) (hcap : 0 ≤ cap) (avail : List (List K))
    (hf : ∀ row ∈ avail, ∀ f ∈ row, 0 ≤ f) :
    (usagePriorities fl eps (avail.map fun row => (fillMonth cap row).zip row)).ok = true :=
  usagePriorities_of_handoff fl eps cap heps hcap avail hf

/-- `assert_feed_used_below_feed_demand` / `assert_biofuels_used_below_biofuels_demand` after a human-maximising round
    (rounds 1 and 3): `C03.human_round_within_schedule` — what is drawn equals the charge, the charge is within demand -/
theorem validator_used_below_demand_human_round (i : Inp K) (x : Var → K) (fd bd : List K) (eps : K) (heps : 0 ≤ eps)
    (h : Feasible (buildLP i .toHumans) x) (hany : anyFeedVar i = true)
    (hf : ∀ m, at' i.feed m ≤ at' fd m) (hb : ∀ m, at' i.biofuel m ≤ at' bd m)
    (hbk : 0 < i.billionKcalsNeeded) (hk : 0 ≤ i.seaweedKcals) :
    usedBelowDemand ⟨false, false⟩ eps (100 / i.billionKcalsNeeded) (monthly i.nmonths (at' fd)) (feedSources i x) = some .pass ∧
    usedBelowDemand ⟨false, false⟩ eps (100 / i.billionKcalsNeeded) (monthly i.nmonths (at' bd)) (biofuelSources i x) = some .pass :=
  ⟨feedBelowDemand_of_total_le i x eps heps _ hbk h.2 hk
      (fun m hm => (C03.human_round_within_schedule i x fd bd h hany hf hb m hm).1),
   biofuelBelowDemand_of_total_le i x eps heps _ hbk h.2 hk
      (fun m hm => (C03.human_round_within_schedule i x fd bd h hany hf hb m hm).2)⟩

/-- … and after the feed-maximising round (round 2): `C03.feed_round_within_schedule` — within the ceilings, the ceilings within demand -/
theorem validator_used_below_demand_feed_round (i : Inp K) (x : Var → K) (fd bd : List K) (eps : K) (heps : 0 ≤ eps)
    (h : Feasible (buildLP i .toAnimals) x) (hany : anyFeedVar i = true)
    (hf : ∀ m, at' i.maxFeed m ≤ at' fd m) (hb : ∀ m, at' i.maxBiofuel m ≤ at' bd m)
    (hbk : 0 < i.billionKcalsNeeded) (hk : 0 ≤ i.seaweedKcals) :
    usedBelowDemand ⟨false, false⟩ eps (100 / i.billionKcalsNeeded) (monthly i.nmonths (at' fd)) (feedSources i x) = some .pass ∧
    usedBelowDemand ⟨false, false⟩ eps (100 / i.billionKcalsNeeded) (monthly i.nmonths (at' bd)) (biofuelSources i x) = some .pass :=
  ⟨feedBelowDemand_of_total_le i x eps heps _ hbk h.2 hk
      (fun m hm => (C03.feed_round_within_schedule i x fd bd h hany hf hb m hm).1),
   biofuelBelowDemand_of_total_le i x eps heps _ hbk h.2 hk
      (fun m hm => (C03.feed_round_within_schedule i x fd bd h hany hf hb m hm).2)⟩

/-- `assert_fewer_calories_round2_than_round3` (not called by the pipeline): sufficient condition on the two totals … -/
theorem validator_fewer_calories_of_le (eps absEps : K) (heps : 0 ≤ eps) (habs : 0 ≤ absEps) (feed2 biofuel2 : List K)
    (foods2 foods3 : List (List K))
    (h : List.Forall₂ (fun a3 a2 => 0 ≤ a2 ∧ a2 ≤ a3) (sumSeries foods3) (sumSeries foods2)) :
    (fewerCaloriesRound2 ⟨false, false⟩ eps absEps feed2 biofuel2 foods2 foods3).ok = true :=
  fewerCaloriesRound2_of_le eps absEps heps habs feed2 biofuel2 foods2 foods3 h

/-- `assert_feed_used_round3_below_feed_used_round2` (not called by the pipeline): sufficient condition, and ε must be
    POSITIVE (strict comparison with an absolute ε) … -/
theorem validator_feed_round3_below_round2_of_le (eps : K) (heps : 0 < eps) (s2 s3 : List (List K)) (h3 : s3 ≠ [])
    (h : List.Forall₂ (fun a2 a3 => a3 ≤ a2) (sumSeries s2) (sumSeries s3)) :
    ∃ o, feedRound3BelowRound2 ⟨false, false⟩ eps s2 s3 = some o ∧ o.ok = true :=
  feedRound3BelowRound2_of_le eps heps s2 s3 h3 h

theorem validator_feed_round3_below_round2_zero_eps_counterexample :
    feedRound3BelowRound2 ⟨false, false⟩ (0 : ℚ) [[1, 2]] [[1, 2]] = some .raised ∧
      feedRound3BelowRound2 ⟨false, false⟩ (1/10000 : ℚ) [[1, 2]] [[1, 2]] = some .pass :=
  feedRound3BelowRound2_zero_eps_counterexample

/-- `assert_round3_percent_fed_not_lower_than_round1` and `assert_feed_and_biofuel_used_is_zero_if_humans_are_starving`
    can never make a run fail: their tests end in a `print` (the second one raises only when fat or protein is required) -/
theorem validator_round3_not_lower_never_raises (T p1 p3 eps : K) : (round3NotLowerThanRound1 T p1 p3 eps).ok = true :=
  round3NotLower_ok T p1 p3 eps

theorem validator_feed_zero_if_starving_never_raises (pf : K) (b f : List (List K)) :
    (feedZeroIfStarving ⟨false, false⟩ pf b f).ok = true :=
  feedZeroIfStarving_ok pf b f

/-- … and the four relations BETWEEN rounds are NOT implied by C01/C03/C04/C18 (they are about the optimal solutions of
    three coupled programmes; C03 monitors them per run and D15 is an open finding of that kind).  One instance — crops only,
    two months, need 100: exactly feasible points of the three rounds' programmes, round 2 optimal at its ceilings
    (feed 50 of 50 a month), round 3 charged 250 a month within a demand of 250 (so `assert_feed_used_below_feed_demand`
    passes) and solved to its optimum 50 % — on which
    `assert_fewer_calories_round2_than_round3` raises (1050 < 2100·0.9 − 0.1 kcal a day),
    `assert_feed_used_round3_below_feed_used_round2` raises (250 > 50),
    `assert_round3_percent_fed_not_lower_than_round1` prints (round 1: 300 %, round 3: 50 % < 99.9 %), and
    `assert_feed_and_biofuel_used_is_zero_if_humans_are_starving` prints. -/
theorem validator_round_relations_counterexample :
    (Feasible (buildLP cexI1 .toHumans) cexX1 ∧ Feasible (buildLP cexI2 .toAnimals) cexX2 ∧ Feasible (buildLP cexI3 .toHumans) cexX3) ∧
    (∀ x, Feasible (buildLP cexI3 .toHumans) x → x .objective ≤ 50) ∧ headline cexI3 cexX3 = 50 ∧ headline cexI1 cexX1 = 300 ∧
    usedBelowDemand ⟨false, false⟩ (1/10000 : ℚ) (100 / cexI3.billionKcalsNeeded) [250, 250] (feedSources cexI3 cexX3) = some .pass ∧
    fewerCaloriesRound2 ⟨false, false⟩ (1/10 : ℚ) (1/10) (feedKeq cexI2 2100 cexX2) (biofuelKeq cexI2 2100 cexX2)
        (round2Series cexI2 2100 cexX2) (round3Series cexI3 2100 cexX3) = .raised ∧
    feedRound3BelowRound2 ⟨false, false⟩ (1/10000 : ℚ) (feedSources cexI2 cexX2) (feedSources cexI3 cexX3) = some .raised ∧
    round3NotLowerThanRound1 (100 : ℚ) (headline cexI1 cexX1) (headline cexI3 cexX3) 1 = .warned ∧
    feedZeroIfStarving ⟨false, false⟩ (headline cexI3 cexX3) (biofuelSources cexI3 cexX3) (feedSources cexI3 cexX3) = .warned :=
  ⟨cex_feasible, cex_round3_optimal, cex_reports.2.1, cex_reports.1, cex_round3_within_demand,
    cex_round_relations_fail.1, cex_round_relations_fail.2.1, cex_round_relations_fail.2.2.1, cex_round_relations_fail.2.2.2⟩

/-! ### non-vacuity of the implications above -/

/-- `validator_all_ge_zero_of_feasible`, `validator_used_below_demand_human_round`: the round-3 instance of the
    counter-example satisfies every hypothesis (demand 250 a month) -/
example : Feasible (buildLP cexI3 .toHumans) cexX3 ∧ 0 < cexI3.kcalsMonthly ∧ 0 < cexI3.billionKcalsNeeded ∧
    anyFeedVar cexI3 = true ∧ (∀ m, at' cexI3.feed m ≤ at' [250, 250] m) ∧ 0 ≤ cexI3.seaweedKcals ∧
    ensureAllGe0 ⟨false, false⟩ (reportedFoods cexI3 cexX3 (at' cexI3.cropProd)) = .pass :=
  ⟨cex_feasible.2.2, by decide +kernel, by decide +kernel, rfl,
    fun m => by
      match m with
      | 0 => decide +kernel
      | 1 => decide +kernel
      | m + 2 => exact le_refl _,
    by decide +kernel, by decide +kernel⟩

/-- `validator_used_below_demand_feed_round`: round 2 of the same instance, ceilings 50 within a demand of 250 -/
example : Feasible (buildLP cexI2 .toAnimals) cexX2 ∧ anyFeedVar cexI2 = true ∧
    usedBelowDemand ⟨false, false⟩ (1/10000 : ℚ) (100 / cexI2.billionKcalsNeeded) [250, 250] (feedSources cexI2 cexX2) = some .pass :=
  ⟨cex_feasible.2.1, rfl, by decide +kernel⟩

/-- `validator_optimizer_same_as_sum_of_feasible`: round 3 of the instance with its optimum 50 % and the floors of the later solves -/
example : (∀ x', Feasible (buildLP cexI3 .toHumans) x' → x' .objective ≤ 50) ∧
    Feasible (buildLP cexI3 .toHumans ++ floorRows cexI3 .toHumans 50) cexX3 ∧ cexI3.kcalsMonthly ≠ 0 ∧ 0 < cexI3.nmonths ∧
    optimizerSameAsSum (50 : ℚ) (headline cexI3 cexX3) "ARG" = .pass :=
  ⟨cex_round3_optimal,
    ⟨Proofs.LP.rows_hold_of_all _ _ (by decide +kernel), cexX3_nonneg⟩, by decide +kernel, by decide +kernel, by decide +kernel⟩

/-- `validator_check_constraints_of_feasible` on the same programme with the code's tolerance 1, objective rows skipped -/
example : checkConstraints (1 : ℚ) ["Kcals_Fed_Month_0_Objective_Constraint"] (buildLP cexI3 .toHumans) cexX3 = some .pass := by
  decide +kernel

/-- `validator_meat_dairy_of_redistribute`, `validator_min_consumption_sum_of_handoff`, `validator_usage_priorities_of_handoff`:
    the concrete hand-offs of the C18 examples -/
example : redistribute ([3, 1, 0] : List ℚ) [1, 1, 4] = some [3, 1, 2] ∧
    meatDairyNotDecreasing (1/100 : ℚ) [3, 1, 0] [3, 1, 2] [5, 5, 5] [0, 0, 0] = .pass := by decide +kernel

example : minConsumptionSum ⟨false, false⟩ (1/10000 : ℚ) 2100 (minNeeds (dailyMax 2100 150 100) [[900, 0, 300, 0, 1500, 0, 450, 0, 0]]) = .pass ∧
    usagePriorities ⟨false, false⟩ (1/10000 : ℚ) ([[900, 0, 300, 0, 1500, 0, 450, 0, 0]].map fun row => (fillMonth (2100 : ℚ) row).zip row) = .pass := by
  decide +kernel

/-- `validator_population_of_antitone`, `validator_round2_greater_of_ge`, `validator_fewer_calories_of_le`,
    `validator_feed_round3_below_round2_of_le`: concrete passing inputs -/
example : populationNotIncreasing (1/10 : ℚ) [("pig_population", [50, 40, 40, 0]), ("pig_meat", [1, 9])] = .pass ∧
    round2GreaterThanRound1 (1/100 : ℚ) 100 [("pig_population", [50, 40])] [("pig_population", [60, 45])] = some .pass ∧
    fewerCaloriesRound2 ⟨false, false⟩ (1/10 : ℚ) (1/10) [5] [0] [[1000], [500]] [[1200], [400]] = .pass ∧
    feedRound3BelowRound2 ⟨false, false⟩ (1/10000 : ℚ) [[3], [2]] [[2], [2]] = some .pass := by
  decide +kernel

end Validators

end Allfed.C16
