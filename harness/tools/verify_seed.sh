#!/bin/bash
# Re-verify one seeded change in a FRESH worktree of /repo HEAD (never in /repo itself): the demonstration passes on the
# unchanged tree and fails with the change, the fast test files and the slow end-to-end test still pass with it.
# usage: verify_seed.sh <seed>      e.g. verify_seed.sh C05-3      (prints one summary line; removes its worktree)
s=$1; wt=${VERIF_SEED_TMP:-/var/tmp}/seedv/$s
here="$(cd "$(dirname "${BASH_SOURCE[0]}")/../.." && pwd)"
mkdir -p "$(dirname "$wt")"; rm -rf "$wt"; git -C /repo worktree prune; git -C /repo worktree add -f -q "$wt" HEAD || exit 9
cd "$wt"
cp "$here/seeded/$s/demo.py" .
/venv/bin/python demo.py > "$wt.demo_clean.log" 2>&1; c0=$?
git apply "$here/seeded/$s/patch.diff" || { echo "$s PATCH-FAIL"; exit 8; }
/venv/bin/python demo.py > "$wt.demo_changed.log" 2>&1; c1=$?
/venv/bin/python -m pytest -q -p no:cacheprovider -x tests/test_animal_populations.py tests/test_cellulosic_sugar.py tests/test_food.py tests/test_greenhouses.py \
  tests/test_methane_scp.py tests/test_seafood.py tests/test_seaweed.py tests/test_stored_food.py tests/test_unit_conversion.py > "$wt.fast.log" 2>&1; f=$?
/venv/bin/python -m pytest -q -p no:cacheprovider tests/test_individual_scenarios.py > "$wt.e2e.log" 2>&1; e=$?
echo "$s demo_clean=$c0 demo_changed=$c1 fast_tests_rc=$f e2e_rc=$e :: $(tail -1 "$wt.fast.log") :: $(tail -1 "$wt.e2e.log")"
cd /; git -C /repo worktree remove --force "$wt"
# note: tests/test_methane_scp.py has a random fixture that errors about once in 20 runs (randrange(1, 1)); re-run the fast files if fast_tests_rc=1 names it
