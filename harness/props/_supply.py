"""Shared machinery of the C08 / C09 checks (supply series): generators, drivers of the real food-system classes,
wire encoding for `driver_supply`, comparators and the executable property clauses.  DESIGN.md §7 C08, C09."""
import copy, math
import numpy as np
from lib import wire
from lib.wire import fl, f2b, enc_str, Reader

MONTHS = ["JAN", "FEB", "MAR", "APR", "MAY", "JUN", "JUL", "AUG", "SEP", "OCT", "NOV", "DEC"]
START_MONTH = 5  # Parameters().SIMULATION_STARTING_MONTH_NUM (checked against the real object in every run)
ERR = {AssertionError: "assert", IndexError: "index-error", ZeroDivisionError: "zero-division", KeyError: "key-error",
       AttributeError: "attribute-error", ValueError: "shape"}


def b(x):
    return "1" if x else "0"


def tol_close(a, m, scale=None):
    """rel 1e-9 with an absolute floor of 1e-12 x the magnitude of the series (small countries stay sharp)"""
    a, m = list(a), list(m)
    if len(a) != len(m):
        return False
    s = scale if scale is not None else max([1e-3] + [abs(x) for x in a if math.isfinite(x)])
    return all(wire.close(float(x), float(y), 1e-9, 1e-12 * s) for x, y in zip(a, m))


def set_conversions(kd=2100.0, pop=1e7):
    from src.food_system.food import Food
    from src.food_system.unit_conversions import UnitConversions
    conv = UnitConversions()
    conv.set_nutrition_requirements(kcals_daily=kd, fat_daily=47.0, protein_daily=51.0, include_fat=False, include_protein=False,
                                    population=pop)
    Food.conversions = conv
    return Food


# ------------------------------------------------------------------------------------------------ generators
def gen_season(rng):
    style = rng.choice(["flat", "rand", "sparse", "peaked", "zero"]) if rng.random() < 0.9 else "zero"
    if style == "flat":
        return [1 / 12] * 12
    if style == "zero":
        return [0.0] * 12 if rng.random() < 0.3 else [1 / 12] * 12
    w = [rng.random() for _ in range(12)]
    if style == "sparse":
        w = [x if rng.random() < 0.5 else 0.0 for x in w]
        if sum(w) == 0:
            w[rng.randrange(12)] = 1.0
    if style == "peaked":
        w = [x ** 4 for x in w]
    s = sum(w)
    return [float(x / s) for x in w]


def gen_constants(rng, horizons=None, wellformed=True):
    """a full constants_for_params dictionary for all food-system classes; values in the well-formed range
    of the property unless `wellformed` is False (then one guard of the code is provoked)"""
    n = rng.choice(horizons or [12, 24, 36, 48, 60, 72, 84, 96, 108, 120])
    base = 10 ** rng.uniform(-3, 4) * rng.choice([1, 1, 1, 250])  # million dry caloric tons a year; 0.003 .. 2.5e6
    # billion kcals per month = base * 4e6/1e9/12 -> include baselines down to 1e-3 billion kcal per month
    if rng.random() < 0.35:
        base = 10 ** rng.uniform(-3, 0.5) * 3000.0 / 1000.0  # 3e-3 .. 9.5 thousand tons -> 1e-3 .. 3 billion kcals/month
    if rng.random() < 0.04:
        base = 0.0
    ratios = [float(rng.choice([0.0, 1.0, rng.uniform(0, 1), rng.uniform(0, 1), rng.uniform(0, 1.5)])) for _ in range(10)]
    c = {
        "NMONTHS": n, "STARTING_MONTH_NUM": START_MONTH, "COUNTRY_CODE": rng.choice(["ARG", "ZAF", "JPN", "PRK", "KOR", "USA", "DJI", "WOR"]),
        # numpy scalars, as country_data[...] of a DataFrame row yields them (0.0/0.0 is then nan + the code's own reset, not ZeroDivisionError)
        "BASELINE_CROP_KCALS": np.float64(base), "BASELINE_CROP_FAT": np.float64(base * 0.06), "BASELINE_CROP_PROTEIN": np.float64(base * 0.12),
        "ADD_OUTDOOR_GROWING": rng.random() < 0.92, "SEASONALITY": gen_season(rng),
        "WASTE_DISTRIBUTION": {k: float(rng.choice([0, rng.uniform(0, 99), rng.randint(0, 99)])) for k in ["CROPS", "SEAFOOD", "SUGAR", "MEAT", "MILK", "SEAWEED"]},
        "WASTE_RETAIL": float(rng.choice([0, rng.uniform(0, 99)])),
        "OG_USE_BETTER_ROTATION": rng.random() < 0.5,
        "ROTATION_IMPROVEMENTS": {"POWER_LAW_IMPROVEMENT": float(rng.choice([0.796, 1.0, rng.uniform(0.05, 1.0)])), "FAT_RATIO": 1.647, "PROTEIN_RATIO": 1.108},
        "RATIO_INCREASED_CROP_AREA": float(rng.choice([1, 1, 72 / 39, rng.uniform(1.0, 3.0), rng.uniform(0.5, 1.0)])),
        "NUMBER_YEARS_TAKES_TO_REACH_INCREASED_AREA": rng.choice([1, 2, 3, 3, 4]),
        "INITIAL_HARVEST_DURATION_IN_MONTHS": rng.choice([8, 8, 8, 0, 3, 11]),
        "DELAY": {"ROTATION_CHANGE_IN_MONTHS": rng.choice([2, 2, 0, 1, 5, 24]), "GREENHOUSE_MONTHS": rng.choice([2, 0, 1, 7, 24, rng.randint(0, 24)]),
                  "INDUSTRIAL_FOODS_MONTHS": rng.choice([2, 0, 1, 3, rng.randint(0, 24)]), "SEAWEED_MONTHS": rng.choice([1, 0, 2, rng.randint(0, 24)]),
                  "FEED_SHUTOFF_MONTHS": rng.choice([0, 1, 2, 3, 12, n]), "BIOFUEL_SHUTOFF_MONTHS": rng.choice([0, 1, 2, 6, n])},
        "ADD_GREENHOUSES": rng.random() < 0.6,
        "INITIAL_GLOBAL_CROP_AREA": 1.43e9, "INITIAL_CROP_AREA_FRACTION": float(rng.choice([1.0, rng.uniform(1e-5, 0.2), rng.uniform(1e-5, 0.2), 0.0 if rng.random() < 0.3 else 0.01])),
        "GREENHOUSE_AREA_MULTIPLIER": float(rng.choice([0.19e9 / 1.43e9, rng.uniform(0, 1), 0.0, 1.0])), "GREENHOUSE_GAIN_PCT": float(rng.choice([44, 0, rng.uniform(0, 100)])),
        # fish
        "ADD_FISH": rng.random() < 0.85, "FISH_DRY_CALORIC_ANNUAL": float(10 ** rng.uniform(-3, 5)), "FISH_PROTEIN_TONS_ANNUAL": 10.0, "FISH_FAT_TONS_ANNUAL": 5.0,
        # grass / meat
        "ADD_MILK": True, "ADD_MEAT": True, "HUMAN_INEDIBLE_FEED_BASELINE_MONTHLY": float(10 ** rng.uniform(-3, 8) if rng.random() < 0.95 else 0.0),
        "TONS_MILK_ANNUAL": 1e5, "TONS_CHICKEN_AND_PORK_ANNUAL": 1e5, "TONS_BEEF_ANNUAL": 1e5, "INITIAL_MILK_CATTLE": 1e4, "INIT_SMALL_ANIMALS": 1e5,
        "INIT_MEDIUM_ANIMALS": 1e4, "INIT_LARGE_ANIMALS_WITH_MILK_COWS": 5e4,
        # feed / biofuel
        "BIOFUEL_KCALS": float(rng.choice([0.0, 10 ** rng.uniform(-3, 5)])), "BIOFUEL_FAT": 1.0, "BIOFUEL_PROTEIN": 1.0,
        "FEED_KCALS": float(rng.choice([0.0, 10 ** rng.uniform(-3, 6), 10 ** rng.uniform(-3, 6)])), "FEED_FAT": 2.0, "FEED_PROTEIN": 3.0,
        # industrial foods
        "INDUSTRIAL_FOODS_SLOPE_MULTIPLIER": float(rng.choice([1, 0, rng.uniform(0, 3)])), "POP": 1e7, "GLOBAL_POP": 7.723713182e9,
        "ADD_METHANE_SCP": rng.random() < 0.75, "SCP_GLOBAL_PRODUCTION_FRACTION": float(rng.choice([1, rng.uniform(0, 1), 0])),
        "ADD_CELLULOSIC_SUGAR": rng.random() < 0.75, "CS_GLOBAL_PRODUCTION_FRACTION": float(rng.choice([1, rng.uniform(0, 1), 0])),
        # seaweed
        "ADD_SEAWEED": rng.random() < 0.75, "SEAWEED_MAX_AREA_FRACTION": float(rng.choice([1, 0, rng.uniform(0, 1), rng.uniform(0, 0.01)])),
        "SEAWEED_NEW_AREA_FRACTION": float(rng.choice([1, 0, rng.uniform(0, 1)])), "INITIAL_SEAWEED_FRACTION": float(rng.uniform(0, 1)),
        "MAX_SEAWEED_AS_PERCENT_KCALS_HUMANS": 10, "MAX_SEAWEED_AS_PERCENT_KCALS_FEED": 10, "MAX_SEAWEED_AS_PERCENT_KCALS_BIOFUEL": 10,
        # stored food
        "RATIO_STOCKS_UNTOUCHED": float(rng.choice([0, 0, 1, rng.uniform(0, 1)])), "PERCENT_STORED_FOOD_TO_USE": float(rng.choice([100, 100, rng.uniform(0, 100)])),
    }
    for i in range(10):
        c["RATIO_CROPS_YEAR%d" % (i + 1)] = ratios[i]
        c["RATIO_GRASSES_YEAR%d" % (i + 1)] = float(rng.choice([1.0, 0.0, rng.uniform(0, 1), rng.uniform(0, 1.5)]))
    c["RATIO_CROPS_YEAR11"] = ratios[9]
    keys = list(range(-3, rng.choice([117, 117, 30, 1])))
    rng.shuffle(keys)  # dictionary order must not matter: the code sorts by the integer key
    c["SEAWEED_GROWTH_PER_DAY"] = {str(k): float(rng.uniform(0, 12)) for k in keys}
    stocks = [float(10 ** rng.uniform(-2, 5) * rng.random()) for _ in range(12)]
    c["END_OF_MONTH_STOCKS"] = dict(zip(MONTHS, stocks))
    if c["RATIO_STOCKS_UNTOUCHED"] > c["PERCENT_STORED_FOOD_TO_USE"] / 100:
        c["RATIO_STOCKS_UNTOUCHED"] = c["PERCENT_STORED_FOOD_TO_USE"] / 100 * rng.random()
    # guards of assign_increase_from_increased_cultivated_area: the ramp must end inside the horizon and not where it starts
    c["NUMBER_YEARS_TAKES_TO_REACH_INCREASED_AREA"] = max(1, min(c["NUMBER_YEARS_TAKES_TO_REACH_INCREASED_AREA"], n // 12))
    if c["NUMBER_YEARS_TAKES_TO_REACH_INCREASED_AREA"] * 12 == c["INITIAL_HARVEST_DURATION_IN_MONTHS"]:
        c["INITIAL_HARVEST_DURATION_IN_MONTHS"] = 8
    if not wellformed:
        kind = rng.choice(["horizon", "gh-short", "neg-ratio", "tiny-neg-ratio", "ramp-zero-div", "ramp-index", "season-sum", "year1-huge", "total-area-zero"])
        c["_malformed"] = kind
        if kind == "horizon":
            c["NMONTHS"] = rng.choice([133, 144, 200])
            c["DELAY"]["FEED_SHUTOFF_MONTHS"] = c["DELAY"]["BIOFUEL_SHUTOFF_MONTHS"] = 3
        elif kind == "gh-short":
            c["NMONTHS"], c["ADD_GREENHOUSES"] = rng.choice([12, 24, 36, 41]), True
            c["INITIAL_CROP_AREA_FRACTION"] = 0.1
            c["DELAY"]["FEED_SHUTOFF_MONTHS"] = c["DELAY"]["BIOFUEL_SHUTOFF_MONTHS"] = 3
        elif kind == "neg-ratio":
            c["RATIO_CROPS_YEAR%d" % rng.randint(2, 10)] = -rng.uniform(1e-6, 0.5)
        elif kind == "tiny-neg-ratio":
            c["RATIO_CROPS_YEAR%d" % rng.randint(2, 10)] = -rng.uniform(0, 4e-9)
        elif kind == "ramp-zero-div":
            c["RATIO_INCREASED_CROP_AREA"], c["INITIAL_HARVEST_DURATION_IN_MONTHS"], c["NUMBER_YEARS_TAKES_TO_REACH_INCREASED_AREA"] = 1.5, 12, 1
        elif kind == "ramp-index":
            c["RATIO_INCREASED_CROP_AREA"], c["NUMBER_YEARS_TAKES_TO_REACH_INCREASED_AREA"] = 1.5, n // 12 + rng.choice([1, 2])
        elif kind == "season-sum":
            c["SEASONALITY"] = [x * rng.choice([0.5, 1.5, 0.99, 1.01]) for x in c["SEASONALITY"]]
        elif kind == "year1-huge":
            c["RATIO_CROPS_YEAR1"] = float(rng.choice([101.0, 150.0, 100.5]))
        elif kind == "total-area-zero":
            c["INITIAL_GLOBAL_CROP_AREA"] = 0.0
    return c


# ------------------------------------------------------------------------------------------------ wire encoding
def crops_line(c, lens_override=None):
    season = [float(x) for x in c["SEASONALITY"]]
    ratios = [float(c["RATIO_CROPS_YEAR%d" % (i + 1)]) for i in range(10)]
    ri = c.get("ROTATION_IMPROVEMENTS", {})
    d = c["DELAY"]
    add_gh = bool(c["ADD_GREENHOUSES"])
    parts = ["supply.crops", str(int(c["NMONTHS"])), str(int(c["STARTING_MONTH_NUM"])), f2b(c["BASELINE_CROP_KCALS"]), fl(season), fl(ratios),
             enc_str(str(c["COUNTRY_CODE"])), b(c["ADD_OUTDOOR_GROWING"]), b(c["OG_USE_BETTER_ROTATION"]),
             f2b(ri.get("POWER_LAW_IMPROVEMENT", 1.0)), f2b(c["RATIO_INCREASED_CROP_AREA"]),
             str(int(c.get("NUMBER_YEARS_TAKES_TO_REACH_INCREASED_AREA", 0))), str(int(c["INITIAL_HARVEST_DURATION_IN_MONTHS"])),
             str(int(d["ROTATION_CHANGE_IN_MONTHS"])), f2b(c["WASTE_DISTRIBUTION"]["CROPS"]),
             b(add_gh), f2b(c["INITIAL_GLOBAL_CROP_AREA"]), f2b(c["INITIAL_CROP_AREA_FRACTION"]), str(int(d.get("GREENHOUSE_MONTHS", 0)) if add_gh else 0),
             f2b(c.get("GREENHOUSE_AREA_MULTIPLIER", 0.0) if add_gh else 0.0), f2b(c.get("GREENHOUSE_GAIN_PCT", 0.0) if add_gh else 0.0), f2b(c["WASTE_RETAIL"])]
    return " ".join(parts)


CROP_FIELDS = ["grown", "noReloc", "area", "fraction", "yield", "ghcrops", "production"]


def parse_crops(line):
    rd = Reader(line)
    tag = rd.tok()
    if tag == "err":
        return {"err": wire.dec_str(rd.tok())}
    out = {}
    for k in CROP_FIELDS:
        out[k] = rd.floats()
    for k in CROP_FIELDS:
        out[k + "_spec"] = rd.floats()
    return out


def run_real_crops(ctx, c):
    """init_outdoor_crops + init_greenhouse_params of the real Parameters on a copy of the constants"""
    from src.optimizer.parameters import Parameters
    P = Parameters()
    assert P.SIMULATION_STARTING_MONTH_NUM == START_MONTH and P.SIMULATION_STARTING_MONTH == "MAY"
    ci = copy.deepcopy({k: v for k, v in c.items() if not k.startswith("_")})
    try:
        with ctx.quiet(), np.errstate(all="ignore"):
            cout, oc = P.init_outdoor_crops({}, ci)
            tc = P.init_greenhouse_params({}, ci, oc)
    except tuple(ERR) as e:
        return {"err": ERR[type(e)], "msg": str(e)[:100]}
    assert ci["STARTING_MONTH_NUM"] == START_MONTH
    prod = tc["outdoor_crops"].production.kcals
    out = {"production": [float(x) for x in np.atleast_1d(prod)], "production_dtype": str(np.asarray(prod).dtype),
           "ghcrops": [float(x) for x in np.atleast_1d(tc["greenhouse_crops"].kcals)],
           "grown": [float(x) for x in getattr(oc, "KCALS_GROWN", [])], "noReloc": [float(x) for x in getattr(oc, "NO_RELOCATION_KCALS_GROWN", [])],
           "oc": oc, "tc": tc}
    return out


def real_greenhouse_parts(ctx, c):
    """area / fraction / yield per hectare as the real Greenhouses object computes them (second instance, same inputs)"""
    from src.food_system.greenhouses import Greenhouses
    from src.food_system.outdoor_crops import OutdoorCrops
    ci = copy.deepcopy({k: v for k, v in c.items() if not k.startswith("_")})
    with ctx.quiet(), np.errstate(all="ignore"):
        oc = OutdoorCrops(ci)
        oc.calculate_rotation_ratios(ci)
        if ci["ADD_OUTDOOR_GROWING"] or ci["ADD_GREENHOUSES"]:
            oc.calculate_monthly_production(ci)
        gh = Greenhouses(ci)
        area = gh.get_greenhouse_area(ci, oc)
        if ci["INITIAL_CROP_AREA_FRACTION"] == 0:
            yld = np.zeros(ci["NMONTHS"])
        else:
            yld = gh.get_greenhouse_yield_per_ha(ci, oc)[0]
    return ([float(x) for x in area], [float(x) for x in gh.greenhouse_fraction_area], [float(x) for x in yld])


def finite_nonneg(xs):
    return all(math.isfinite(x) for x in xs), all(x >= 0 for x in xs)


def net_key(prod, want, w):
    """which way the net-of-greenhouses clause fails: whole billions of kcals (quantised), too much (land counted twice) or too little (lost)"""
    f = 1 - w / 100
    if f > 0 and all(abs(p / f - round(p / f)) <= 1e-9 * max(1.0, abs(p / f)) for p in prod) and any(abs(x / f - round(x / f)) > 1e-6 for x in want):
        return "crops-quantised"
    i = next(j for j, (x, y) in enumerate(zip(prod, want)) if not tol_close([x], [y], scale=max(map(abs, want))))
    return "crops-not-net-of-greenhouses" if abs(prod[i]) > abs(want[i]) else "crops-lost"


def crop_case_sample(c):
    return {k: c[k] for k in ["NMONTHS", "COUNTRY_CODE", "BASELINE_CROP_KCALS", "SEASONALITY", "ADD_OUTDOOR_GROWING", "OG_USE_BETTER_ROTATION",
                              "ADD_GREENHOUSES", "RATIO_INCREASED_CROP_AREA", "INITIAL_CROP_AREA_FRACTION", "INITIAL_GLOBAL_CROP_AREA",
                              "INITIAL_HARVEST_DURATION_IN_MONTHS", "WASTE_RETAIL"] if k in c} | {
        "ratios": [c["RATIO_CROPS_YEAR%d" % (i + 1)] for i in range(10)], "DELAY": dict(c["DELAY"]), "waste_crops": c["WASTE_DISTRIBUTION"]["CROPS"],
        "exponent": c.get("ROTATION_IMPROVEMENTS", {}).get("POWER_LAW_IMPROVEMENT"), "years_to_reach": c.get("NUMBER_YEARS_TAKES_TO_REACH_INCREASED_AREA"),
        "GREENHOUSE_AREA_MULTIPLIER": c.get("GREENHOUSE_AREA_MULTIPLIER"), "GREENHOUSE_GAIN_PCT": c.get("GREENHOUSE_GAIN_PCT"),
        "_constants": {k: v for k, v in c.items() if k in ("NMONTHS",)}}


def full_case(c):
    """JSON-able copy of a constants dictionary (for replays)"""
    return {k: (v if not isinstance(v, np.ndarray) else v.tolist()) for k, v in c.items()}


# ------------------------------------------------------------------------------------------------ crops + greenhouses
def check_crops(ctx, cases, prop, origin="generated"):
    """model vs real code for outdoor crops and greenhouses, then the executable clauses of C08/C09 on the real output.
    `prop` selects which clauses are reported (a clause belongs to exactly one property)."""
    outs = ctx.lean([crops_line(c) for c in cases])
    for c, o in zip(cases, outs):
        n = c["NMONTHS"]
        model = parse_crops(o)
        real = run_real_crops(ctx, c)
        sample = crop_case_sample(c)
        case = {"series": "crops", "origin": origin, "constants": full_case(c)}
        nontrivial = "err" not in real and any(x > 0 for x in real["production"])
        ctx.case(("crops", repr(sorted(full_case(c).items(), key=lambda kv: kv[0]))), nontrivial=nontrivial, sample=sample)
        ctx.count("crops:%s" % origin)
        if "err" in real or "err" in model:
            ctx.count("crops:impl-%s" % real.get("err", "ok"))
            if real.get("err") != model.get("err"):
                ctx.disagree("crops.error", case, real.get("err", "ok") + " " + real.get("msg", ""), model.get("err", "ok"))
            if "err" in real and not c.get("_malformed"):
                # inputs in the well-formed range must produce a series
                supported = 24 <= n <= 120 and n % 12 == 0 and (n >= 48 or not c["ADD_GREENHOUSES"])
                if supported and prop == "C08":
                    ctx.violation("crops-rejected", "outdoor crops / greenhouses rejected a well-formed input: %s %s" % (real["err"], real.get("msg", "")), case)
            continue
        ctx.count("crops:branch reloc=%s gh=%s area=%s outdoor=%s" % (b(c["OG_USE_BETTER_ROTATION"]), b(c["ADD_GREENHOUSES"]),
                                                                    b(c["RATIO_INCREASED_CROP_AREA"] > 1), b(c["ADD_OUTDOOR_GROWING"])))
        area, frac, yld = real_greenhouse_parts(ctx, c)
        impl = {"production": real["production"], "ghcrops": real["ghcrops"], "grown": real["grown"], "noReloc": real["noReloc"],
                "area": area, "fraction": frac, "yield": yld}
        for k in CROP_FIELDS:
            if k in ("grown", "noReloc") and not (c["ADD_OUTDOOR_GROWING"] or c["ADD_GREENHOUSES"]):
                continue
            if not tol_close(impl[k], model[k]):
                ctx.disagree("crops." + k, case, impl[k][:24], model[k][:24])
        # ---------------- executable clauses on the implementation's output
        w = c["WASTE_DISTRIBUTION"]["CROPS"]
        hd = c["INITIAL_HARVEST_DURATION_IN_MONTHS"] + c["DELAY"]["ROTATION_CHANGE_IN_MONTHS"]
        if prop == "C08":
            for k, key in [("production", "crops"), ("ghcrops", "greenhouse"), ("area", "gh-area"), ("yield", "gh-yield")]:
                xs = impl[k]
                if len(xs) != n:
                    ctx.violation(key + "-length", "%s has %d values for NMONTHS=%d" % (k, len(xs), n), case)
                fin, nn = finite_nonneg(xs)
                if not fin:
                    ctx.violation(key + "-finite", "%s has a non-finite value" % k, case)
                elif not nn:
                    ctx.violation(key + "-negative", "%s has a negative value" % k, case)
                if not tol_close(xs, model[k + "_spec"]):
                    i = next((j for j, (x, y) in enumerate(zip(xs, model[k + "_spec"])) if not tol_close([x], [y], scale=max(map(abs, xs)) if xs else 1)), -1)
                    ctx.violation(key + "-spec", "%s differs from the documented function at month %d: implementation %r, documented %r"
                                  % (k, i, xs[i] if 0 <= i < len(xs) else None, model[k + "_spec"][i] if 0 <= i < len(model[k + "_spec"]) else None), case)
        if prop == "C09":
            # net of greenhouses, in both branches, from the implementation's own arrays
            if c["ADD_OUTDOOR_GROWING"]:
                want = []
                total = c["INITIAL_GLOBAL_CROP_AREA"] * c["INITIAL_CROP_AREA_FRACTION"]
                for i in range(n):
                    g = impl["grown"][i] if (c["OG_USE_BETTER_ROTATION"] and i >= hd) else impl["noReloc"][i]
                    occupied = area[i] / total if total != 0 else 0.0  # fraction of cropland under greenhouses, from the area itself
                    want.append(g * (1 - occupied) * (1 - w / 100))
                if not tol_close(impl["production"], want):
                    i = next(j for j, (x, y) in enumerate(zip(impl["production"], want)) if not tol_close([x], [y], scale=max(map(abs, want))))
                    ctx.violation(net_key(impl["production"], want, w), "month %d: outdoor production %r, grown x (1 - greenhouse fraction) x (1 - waste) = %r"
                                  % (i, impl["production"][i], want[i]), case)
            # greenhouse area: zero until delay + 5, monotone, at most share x cropland
            if c["ADD_GREENHOUSES"]:
                dly = c["DELAY"]["GREENHOUSE_MONTHS"]
                lim = c["INITIAL_GLOBAL_CROP_AREA"] * c["INITIAL_CROP_AREA_FRACTION"] * c["GREENHOUSE_AREA_MULTIPLIER"]
                if any(a != 0 for a in area[:dly + 5]):
                    ctx.violation("gh-area-before-delay", "greenhouse area non-zero before delay+5", case)
                if any(y < x - 1e-9 * max(1.0, abs(lim)) for x, y in zip(area, area[1:])):
                    ctx.violation("gh-area-not-monotone", "greenhouse area decreases", case)
                if any(a > lim * (1 + 1e-12) + 1e-300 for a in area):
                    ctx.violation("gh-area-above-share", "greenhouse area exceeds share x cropland", case)
                if n > dly + 5 + 36 and not wire.close(area[dly + 41], lim, 1e-12, 0.0):
                    ctx.violation("gh-area-cap-not-reached", "greenhouse area does not reach its configured share after 36 months", case)
            elif any(a != 0 for a in area):
                ctx.violation("gh-area-without-greenhouses", "greenhouse area non-zero although greenhouses are off", case)


def variant_checks(ctx, cases, prop):
    """relations between two runs of the REAL code: homogeneity (k x baseline), relocation on/off, expansion on/off"""
    rng = ctx.rng
    for c in cases:
        if c.get("_malformed"):
            continue
        r0 = run_real_crops(ctx, c)
        if "err" in r0:
            continue
        n = c["NMONTHS"]
        case0 = {"series": "crops", "constants": full_case(c)}
        # homogeneity of degree one, also for arbitrarily small factors (C09_not_quantised / C08_homogeneous)
        k = float(c.get("_k") or rng.choice([2.0, 0.5, 1e-3, 1e-6, 3.7, 1 / 3]))
        c2 = copy.deepcopy(c)
        c2["BASELINE_CROP_KCALS"] = c["BASELINE_CROP_KCALS"] * k
        r2 = run_real_crops(ctx, c2)
        ctx.count("variant:homogeneity")
        for series, key in [("production", "crops"), ("ghcrops", "greenhouse")]:
            if "err" in r2 or not tol_close(r2[series], [k * x for x in r0[series]]):
                kk = "crops-quantised" if (series == "production" and prop == "C09") else key + "-not-homogeneous"
                if (prop == "C09") == (series == "production") or prop == "C08":
                    ctx.violation(kk, "scaling the crop baseline by %r does not scale %s by the same factor (month values %r -> %r)"
                                  % (k, series, r0[series][:3], r2.get(series, [r2.get("err")])[:3]), dict(case0, k=k))
        if prop != "C09":
            continue
        # relocation never lowers a month
        if c["ADD_OUTDOOR_GROWING"]:
            con, coff = copy.deepcopy(c), copy.deepcopy(c)
            con["OG_USE_BETTER_ROTATION"], coff["OG_USE_BETTER_ROTATION"] = True, False
            ron, roff = run_real_crops(ctx, con), run_real_crops(ctx, coff)
            ctx.count("variant:relocation")
            if "err" not in ron and "err" not in roff:
                bad = [i for i in range(n) if ron["production"][i] < roff["production"][i] - 1e-9 * max(1e-3, abs(roff["production"][i]))]
                badg = [i for i in range(n) if ron["ghcrops"][i] < roff["ghcrops"][i] - 1e-9 * max(1e-3, abs(roff["ghcrops"][i]))]
                if badg:
                    i = badg[0]
                    ctx.violation("relocation-lowers-greenhouse", "month %d: greenhouse output with relocation %r < without %r" % (i, ron["ghcrops"][i], roff["ghcrops"][i]),
                                  dict(case0, month=i))
                if bad:
                    i = bad[0]
                    quant = ron["production"][i] == math.floor(ron["production"][i])
                    ctx.violation("relocation-lowers" + ("-quantised" if quant and False else ""),
                                  "month %d: with relocation %r < without %r" % (i, ron["production"][i], roff["production"][i]), dict(case0, month=i))
            # expansion never lowers a month
            cexp, cno = copy.deepcopy(c), copy.deepcopy(c)
            cexp["RATIO_INCREASED_CROP_AREA"] = max(c["RATIO_INCREASED_CROP_AREA"], 72 / 39)
            cexp["NUMBER_YEARS_TAKES_TO_REACH_INCREASED_AREA"] = min(c["NUMBER_YEARS_TAKES_TO_REACH_INCREASED_AREA"], n // 12)
            if cexp["NUMBER_YEARS_TAKES_TO_REACH_INCREASED_AREA"] * 12 == cexp["INITIAL_HARVEST_DURATION_IN_MONTHS"]:
                cexp["INITIAL_HARVEST_DURATION_IN_MONTHS"] = cno["INITIAL_HARVEST_DURATION_IN_MONTHS"] = 8
            cno["NUMBER_YEARS_TAKES_TO_REACH_INCREASED_AREA"] = cexp["NUMBER_YEARS_TAKES_TO_REACH_INCREASED_AREA"]
            cno["RATIO_INCREASED_CROP_AREA"] = 1.0
            rexp, rno = run_real_crops(ctx, cexp), run_real_crops(ctx, cno)
            ctx.count("variant:expansion")
            if "err" not in rexp and "err" not in rno:
                bad = [i for i in range(n) if rexp["production"][i] < rno["production"][i] - 1e-9 * max(1e-3, abs(rno["production"][i]))]
                if bad:
                    i = bad[0]
                    ctx.violation("expansion-lowers", "month %d: with expanded area %r < without %r" % (i, rexp["production"][i], rno["production"][i]),
                                  dict(case0, month=i, expanded=full_case(cexp)))
                # ... nor the greenhouse crops grown on part of that cropland
                badg = [i for i in range(n) if rexp["ghcrops"][i] < rno["ghcrops"][i] - 1e-9 * max(1e-3, abs(rno["ghcrops"][i]))]
                if badg:
                    i = badg[0]
                    ctx.violation("expansion-lowers-greenhouse", "month %d: greenhouse output with expanded cropland %r < without %r" % (i, rexp["ghcrops"][i], rno["ghcrops"][i]),
                                  dict(case0, month=i, expanded=full_case(cexp)))


# ------------------------------------------------------------------------------------------------ the other series (C08)
def series_clauses(ctx, key, xs, n, spec, case, supported=True, expect_len=None):
    xs = [float(x) for x in xs]
    want = n if expect_len is None else expect_len
    if supported and len(xs) != want:
        ctx.violation(key + "-length", "%s series has %d values, expected %d (NMONTHS=%d)" % (key, len(xs), want, n), case)
    fin, nn = finite_nonneg(xs)
    if not fin:
        ctx.violation(key + "-finite", "%s series has a non-finite value" % key, case)
    elif not nn:
        ctx.violation(key + "-negative", "%s series has a negative value" % key, case)
    if spec is not None and not tol_close(xs, spec):
        i = next((j for j, (x, y) in enumerate(zip(xs, spec)) if not tol_close([x], [y], scale=max([1e-3] + [abs(v) for v in xs]))), -1)
        ctx.violation(key + "-spec", "%s differs from the documented function at month %d: implementation %r, documented %r"
                      % (key, i, xs[i] if 0 <= i < len(xs) else None, spec[i] if 0 <= i < len(spec) else None), case)


def monotone_capped(ctx, key, xs, zero_until, cap, case):
    xs = [float(x) for x in xs]
    s = max([1e-3] + [abs(x) for x in xs])
    if any(x != 0 for x in xs[:zero_until]):
        ctx.violation(key + "-before-delay", "%s is non-zero before its start-up delay (%d months)" % (key, zero_until), case)
    if any(y < x - 1e-12 * s for x, y in zip(xs, xs[1:])):
        ctx.violation(key + "-not-monotone", "%s is not monotone" % key, case)
    if cap is not None and any(x > cap * (1 + 1e-12) + 1e-300 for x in xs):
        ctx.violation(key + "-above-cap", "%s exceeds its configured maximum %r" % (key, cap), case)


def two(rd):
    return rd.floats(), rd.floats()


def check_other_series(ctx, cases):
    """fish, grass, feed/biofuel demand, SCP, cellulosic sugar, seaweed, stored food: real classes vs model vs spec"""
    from src.food_system.seafood import Seafood
    from src.food_system.meat_and_dairy import MeatAndDairy
    from src.food_system.feed_and_biofuels import FeedAndBiofuels
    from src.food_system.methane_scp import MethaneSCP
    from src.food_system.cellulosic_sugar import CellulosicSugar
    from src.food_system.seaweed import Seaweed
    from src.food_system.stored_food import StoredFood
    from types import SimpleNamespace
    rng = ctx.rng
    lines, meta = [], []
    for c in cases:
        n = c["NMONTHS"]
        if "_kd" in c:  # replay: everything fixed by the recorded case
            continue
        kd = float(rng.choice([2100.0, 1800.0, rng.uniform(500, 4000)]))
        c["_kd"] = kd
        km = kd * 30
        mode = rng.choice(["baseline", "nw", "zero", "rand"])
        if mode == "baseline":
            pct = [100.0] * n
        elif mode == "zero":
            pct = [0.0] * n
        elif mode == "nw":
            pct = None  # filled from the real setter below
        else:
            pct = [float(rng.uniform(0, 130)) for _ in range(rng.choice([n, n + 5, 200]))]
        c["_fishmode"], c["_pct"] = mode, pct
        c["_start_month"] = rng.choice([5, 5, 1, 2, 12, rng.randint(1, 12)])  # calculate_stored_food_to_use(starting_month)
    # the opaque fish setter of scenarios.py against the model's table
    from src.scenarios.scenarios import Scenarios
    sc = Scenarios()
    with ctx.quiet():
        nw = [float(x) for x in sc.set_fish_nuclear_winter_reduction({})["FISH_PERCENT_MONTHLY"]]
    rd = Reader(ctx.lean(["supply.fishnw"])[0])
    m_nw, s_nw = two(rd)
    if not tol_close(nw, m_nw):
        ctx.disagree("fish.percent-nw", {"series": "fish-percent"}, nw[:30], m_nw[:30])
    series_clauses(ctx, "fish-percent", nw, 192, s_nw, {"series": "fish-percent"}, expect_len=192)
    ctx.case(("fishnw",), True, None)
    for c in cases:
        n, d, wdist, wr = c["NMONTHS"], c["DELAY"], c["WASTE_DISTRIBUTION"], c["WASTE_RETAIL"]
        if c["_pct"] is None:
            c["_pct"] = nw
        km = c["_kd"] * 30
        grat = [c["RATIO_GRASSES_YEAR%d" % (i + 1)] for i in range(10)]
        keys = [int(k) for k in c["SEAWEED_GROWTH_PER_DAY"].keys()]
        vals = [c["SEAWEED_GROWTH_PER_DAY"][str(k)] for k in keys]
        stocks = [c["END_OF_MONTH_STOCKS"][m] for m in MONTHS]
        sm = c.get("_start_month", START_MONTH)
        lines += [
            "supply.fish %s %d %s %s %s %s" % (b(c["ADD_FISH"]), n, f2b(c["FISH_DRY_CALORIC_ANNUAL"]), f2b(wdist["SEAFOOD"]), f2b(wr), fl(c["_pct"])),
            "supply.grass %d %s %s" % (n, f2b(c["HUMAN_INEDIBLE_FEED_BASELINE_MONTHLY"]), fl(grat)),
            "supply.demand %d %d %s" % (n, d["FEED_SHUTOFF_MONTHS"], f2b(c["FEED_KCALS"])),
            "supply.demand %d %d %s" % (n, d["BIOFUEL_SHUTOFF_MONTHS"], f2b(c["BIOFUEL_KCALS"])),
            "supply.scp %s %d %d %s %s %s %s %s" % (b(c["ADD_METHANE_SCP"]), n, d["INDUSTRIAL_FOODS_MONTHS"], f2b(c["INDUSTRIAL_FOODS_SLOPE_MULTIPLIER"]),
                                                    f2b(c["GLOBAL_POP"]), f2b(km), f2b(c["SCP_GLOBAL_PRODUCTION_FRACTION"]), f2b(wdist["SUGAR"])),
            "supply.cs %s %d %d %s %s %s %s %s" % (b(c["ADD_CELLULOSIC_SUGAR"]), n, d["INDUSTRIAL_FOODS_MONTHS"], f2b(c["INDUSTRIAL_FOODS_SLOPE_MULTIPLIER"]),
                                                   f2b(c["GLOBAL_POP"]), f2b(km), f2b(c["CS_GLOBAL_PRODUCTION_FRACTION"]), f2b(wdist["SUGAR"])),
            "supply.seaweedArea %s %d %d %s %s" % (b(c["ADD_SEAWEED"]), n, d["SEAWEED_MONTHS"], f2b(c["SEAWEED_NEW_AREA_FRACTION"]), f2b(c["SEAWEED_MAX_AREA_FRACTION"])),
            "supply.seaweedGrowth %s %s" % (wire.nl(keys), fl(vals)),
            "supply.stored %d %s %s %s %s" % (sm, fl(stocks), f2b(c["RATIO_STOCKS_UNTOUCHED"]), f2b(c["PERCENT_STORED_FOOD_TO_USE"]), f2b(wdist["CROPS"])),
        ]
    outs = ctx.lean(lines)
    per = 9
    for ci_, c in enumerate(cases):
        o = outs[ci_ * per:(ci_ + 1) * per]
        n, d, wdist = c["NMONTHS"], c["DELAY"], c["WASTE_DISTRIBUTION"]
        ci = {k: v for k, v in c.items() if not k.startswith("_")}
        case = {"series": "other", "constants": full_case(ci), "kcals_daily": c["_kd"], "fish_percent": c["_pct"][:n + 2], "fishmode": c["_fishmode"],
                "start_month": c.get("_start_month", START_MONTH)}
        Food = set_conversions(c["_kd"], c["POP"])
        supported = 24 <= n <= 120 and n % 12 == 0
        ctx.case(("other", repr(sorted(case["constants"].items())), c["_kd"], c["_fishmode"]), True,
                 {"series": "other", "NMONTHS": n, "DELAY": d, "fishmode": c["_fishmode"]})
        ctx.count("other:horizon-%s" % ("supported" if supported else "unsupported"))
        with ctx.quiet(), np.errstate(all="ignore"):
            # ---- fish
            sf = Seafood(ci)
            sf.set_seafood_production({"FISH_PERCENT_MONTHLY": np.array(c["_pct"])})
            fish = [float(x) for x in sf.to_humans.kcals]
            # ---- grass
            try:
                md = MeatAndDairy(ci)
                grass = [float(x) for x in md.human_inedible_feed.kcals]
            except tuple(ERR) as e:
                grass = {"err": ERR[type(e)]}
            # ---- feed / biofuel
            fb = FeedAndBiofuels(ci)
            bio, feed = fb.get_biofuels_and_feed_from_delayed_shutoff(ci)
            feed, bio = [float(x) for x in feed.kcals], [float(x) for x in bio.kcals]
            # ---- scp / cs
            scp = MethaneSCP(ci)
            scp.calculate_monthly_scp_caloric_production(ci)
            scp.calculate_scp_fat_and_protein_production()
            scpk = [float(x) for x in np.atleast_1d(scp.production.kcals)]
            cs = CellulosicSugar(ci)
            cs.calculate_monthly_cs_production(ci)
            csk = [float(x) for x in cs.production.kcals]
            # ---- seaweed
            sw = Seaweed(ci)
            area = [float(x) for x in sw.get_built_area(ci)]
            growth = [float(x) for x in sw.get_growth_rates(ci)]
            # ---- stored food
            try:
                st = StoredFood(ci, SimpleNamespace(OG_FRACTION_FAT=0.01, OG_FRACTION_PROTEIN=0.02))
                st.calculate_stored_food_to_use(c.get("_start_month", START_MONTH))
                stored = float(st.initial_available.kcals)
            except tuple(ERR) as e:
                stored = {"err": ERR[type(e)]}
        # fish
        m, s = two(Reader(o[0]))
        if not tol_close(fish, m):
            ctx.disagree("fish", case, fish[:24], m[:24])
        series_clauses(ctx, "fish", fish, n, s, case, supported=len(c["_pct"]) >= n)
        # grass
        rd = Reader(o[1])
        if rd.tok() == "err":
            me = wire.dec_str(rd.tok())
            if not (isinstance(grass, dict) and grass["err"] == me):
                ctx.disagree("grass.error", case, grass if isinstance(grass, dict) else "ok", me)
        else:
            m, s = two(rd)
            if isinstance(grass, dict) or not tol_close(grass, m):
                ctx.disagree("grass", case, grass if isinstance(grass, dict) else grass[:30], m[:30])
            else:
                # NMONTHS = 12: the loop makes year 1 only (8 values); multiples of 12 from 24 on are the supported horizons
                series_clauses(ctx, "grass", grass, n, s if supported else None, case, supported=supported)
                if not supported:
                    ctx.count("grass:unsupported-horizon-length-%d-for-%d" % (len(grass), n))
        # feed / biofuel demand
        for name, xs, oo, dur in [("feed-demand", feed, o[2], d["FEED_SHUTOFF_MONTHS"]), ("biofuel-demand", bio, o[3], d["BIOFUEL_SHUTOFF_MONTHS"])]:
            rd = Reader(oo)
            if rd.tok() == "err":
                ctx.disagree(name + ".error", case, xs[:5], "err")
                continue
            m, s = two(rd)
            if not tol_close(xs, m):
                ctx.disagree(name, case, xs[:24], m[:24])
            series_clauses(ctx, name, xs, n, s, case, supported=dur <= n)
            if any(x != 0 for x in xs[dur:]):
                ctx.violation(name + "-after-shutoff", "%s is non-zero after its shut-off month %d" % (name, dur), case)
        # scp / cs
        glob = c["GLOBAL_POP"] * (c["_kd"] * 30) / 1e9
        for name, xs, oo, add, delay0, frac, top in [
                ("scp", scpk, o[4], c["ADD_METHANE_SCP"], 2 * d["INDUSTRIAL_FOODS_MONTHS"] + 12, c["SCP_GLOBAL_PRODUCTION_FRACTION"], 15),
                ("cellulosic-sugar", csk, o[5], c["ADD_CELLULOSIC_SUGAR"], d["INDUSTRIAL_FOODS_MONTHS"] + 5, c["CS_GLOBAL_PRODUCTION_FRACTION"], 9.5)]:
            m, s = two(Reader(oo))
            if not tol_close(xs, m):
                ctx.disagree(name, case, xs[:40], m[:40])
            series_clauses(ctx, name, xs, n, s, case)
            cap = top / (1 - 0.12) * c["INDUSTRIAL_FOODS_SLOPE_MULTIPLIER"] / 100 * glob * frac * (1 - wdist["SUGAR"] / 100)
            monotone_capped(ctx, name, xs, min(n, delay0) if add else n, cap, case)
        # seaweed
        m, s = two(Reader(o[6]))
        if not tol_close(area, m):
            ctx.disagree("seaweed-area", case, area[:24], m[:24])
        series_clauses(ctx, "seaweed-area", area, n, s, case)
        init = 0.1 * c["SEAWEED_NEW_AREA_FRACTION"]
        mx = 1853 * c["SEAWEED_MAX_AREA_FRACTION"]
        monotone_capped(ctx, "seaweed-area", area, 0, mx, case)
        dl = d["SEAWEED_MONTHS"] if c["ADD_SEAWEED"] else n
        if any(not wire.close(a, min(init, mx), 1e-12, 0.0) for a in area[:min(n, dl + 1)]):
            ctx.violation("seaweed-area-before-delay", "seaweed farm area grows before its delay", case)
        mg = Reader(o[7]).floats()
        if not tol_close(growth, mg):
            ctx.disagree("seaweed-growth", case, growth[:12], mg[:12])
        keys = sorted(int(k) for k in c["SEAWEED_GROWTH_PER_DAY"])
        want = [100 * (c["SEAWEED_GROWTH_PER_DAY"][str(k)] / 100 + 1) ** 30 for k in keys]
        series_clauses(ctx, "seaweed-growth", growth, n, want, case, expect_len=len(keys))
        # stored food
        rd = Reader(o[8])
        if rd.tok() == "err":
            me = wire.dec_str(rd.tok())
            if not (isinstance(stored, dict) and stored["err"] == me):
                ctx.disagree("stored-food.error", case, stored, me)
            ctx.count("stored:impl-" + (stored["err"] if isinstance(stored, dict) else "ok"))
        else:
            m, s = rd.float(), rd.float()
            if isinstance(stored, dict) or not tol_close([stored], [m]):
                ctx.disagree("stored-food", case, stored, m)
            if not isinstance(stored, dict):   # the documented function is the yardstick whether or not the model still mirrors the code
                series_clauses(ctx, "stored-food", [stored], n, [s], case, expect_len=1)
        # ---- homogeneity on the real classes (one re-run with every baseline scaled by k)
        k = float(c.get("_k") or rng.choice([2.0, 0.5, 1e-3, 3.7]))
        c2 = copy.deepcopy(ci)
        for key in ["FISH_DRY_CALORIC_ANNUAL", "HUMAN_INEDIBLE_FEED_BASELINE_MONTHLY", "FEED_KCALS", "BIOFUEL_KCALS", "SCP_GLOBAL_PRODUCTION_FRACTION",
                    "CS_GLOBAL_PRODUCTION_FRACTION"]:
            c2[key] = ci[key] * k
        c2["END_OF_MONTH_STOCKS"] = {mm: v * k for mm, v in ci["END_OF_MONTH_STOCKS"].items()}
        with ctx.quiet(), np.errstate(all="ignore"):
            sf2 = Seafood(c2)
            sf2.set_seafood_production({"FISH_PERCENT_MONTHLY": np.array(c["_pct"])})
            pairs = [("fish", fish, [float(x) for x in sf2.to_humans.kcals])]
            if not isinstance(grass, dict):
                pairs.append(("grass", grass, [float(x) for x in MeatAndDairy(c2).human_inedible_feed.kcals]))
            fb2 = FeedAndBiofuels(c2)
            bio2, feed2 = fb2.get_biofuels_and_feed_from_delayed_shutoff(c2)
            pairs += [("feed-demand", feed, [float(x) for x in feed2.kcals]), ("biofuel-demand", bio, [float(x) for x in bio2.kcals])]
            scp2 = MethaneSCP(c2)
            scp2.calculate_monthly_scp_caloric_production(c2)
            pairs.append(("scp", scpk, [float(x) for x in scp2.production_kcals_scp_per_month]))
            cs2 = CellulosicSugar(c2)
            cs2.calculate_monthly_cs_production(c2)
            pairs.append(("cellulosic-sugar", csk, [float(x) for x in cs2.production.kcals]))
            if not isinstance(stored, dict):
                st2 = StoredFood(c2, SimpleNamespace(OG_FRACTION_FAT=0.01, OG_FRACTION_PROTEIN=0.02))
                st2.calculate_stored_food_to_use(c.get("_start_month", START_MONTH))
                pairs.append(("stored-food", [stored], [float(st2.initial_available.kcals)]))
        for name, a0, a1 in pairs:
            if not tol_close(a1, [k * x for x in a0]):
                ctx.violation(name + "-not-homogeneous", "scaling the %s baseline by %r does not scale the series by the same factor" % (name, k), dict(case, k=k))
        ctx.count("variant:homogeneity-other")


# ------------------------------------------------------------------------------------------------ real country rows
BASE_OPTION = dict(scale="country", seasonality="country", grasses="country_nuclear_winter", crop_disruption="country_nuclear_winter",
                   scenario="all_resilient_foods", fish="nuclear_winter", waste="doubled_prices_in_country", fat="not_required", protein="not_required",
                   nutrition="catastrophe", intake_constraints="enabled", stored_food="baseline", ratio_stocks_untouched="zero",
                   shutoff="long_delayed_shutoff", cull="do_eat_culled", meat_strategy="reduce_breeding", NMONTHS=120)
SCENARIOS = ["all_resilient_foods", "all_resilient_foods_and_more_area", "no_resilient_foods", "seaweed", "methane_scp", "cellulosic_sugar",
             "relocated_crops", "greenhouse", "industrial_foods"]
OPTION_VALUES = {
    "scenario": SCENARIOS,
    "seasonality": ["country", "no_seasonality"],
    "grasses": ["baseline", "country_nuclear_winter", "all_crops_die_instantly"],
    "crop_disruption": ["zero", "country_nuclear_winter"],
    "fish": ["zero", "nuclear_winter", "baseline"],
    "waste": ["zero", "tripled_prices_in_country", "doubled_prices_in_country", "baseline_in_country"],
    "stored_food": ["zero", "baseline"],
    "ratio_stocks_untouched": ["zero", "baseline", "no_stored_between_years", "baseline_no_stored_between_years"],
    "shutoff": ["immediate", "one_month_delayed_shutoff", "short_delayed_shutoff", "long_delayed_shutoff", "continued",
                "continued_after_10_percent_fed", "long_delayed_shutoff_after_10_percent_fed"],
    "nutrition": ["baseline", "catastrophe"],
}


def iso_of(row):
    return "WOR" if row is None else row["iso3"]


WORLD_OPTION = dict(BASE_OPTION, scale="global", seasonality="nuclear_winter_globally", grasses="global_nuclear_winter",
                    crop_disruption="global_nuclear_winter", waste="doubled_prices_globally")
WORLD_VALUES = {"scenario": SCENARIOS, "seasonality": ["no_seasonality", "baseline_globally", "nuclear_winter_globally"],
                "grasses": ["baseline", "global_nuclear_winter"], "crop_disruption": ["zero", "global_nuclear_winter"],
                "waste": ["zero", "tripled_prices_globally", "doubled_prices_globally", "baseline_globally"],
                "fish": OPTION_VALUES["fish"], "stored_food": OPTION_VALUES["stored_food"], "shutoff": OPTION_VALUES["shutoff"],
                "ratio_stocks_untouched": OPTION_VALUES["ratio_stocks_untouched"]}


def gen_world_options(rng, k):
    """option sets of the world aggregate (scale: global)"""
    opts = []
    for j in range(k):
        o = dict(WORLD_OPTION)
        for fam, vals in WORLD_VALUES.items():
            if rng.random() < 0.5 or fam == "scenario":
                o[fam] = rng.choice(vals)
        o["NMONTHS"] = rng.choice([120, 120, 48, 72, 96])
        opts.append(o)
    return opts


def country_rows(ctx):
    import pandas as pd
    df = pd.read_csv("data/no_food_trade/computer_readable_combined.csv")
    rows = []
    for _, r in df.iterrows():  # iterrows: python floats (harness trap of DESIGN §9)
        rows.append(r)
    return rows


def gen_options(rng, k):
    opts = []
    for _ in range(k):
        o = dict(BASE_OPTION)
        for fam, vals in OPTION_VALUES.items():
            if rng.random() < 0.5 or fam == "scenario":
                o[fam] = rng.choice(vals)
        o["NMONTHS"] = rng.choice([120, 120, 48, 60, 72, 84, 96, 108])
        if rng.random() < 0.2:
            o["CROP_PRODUCTION_MULTIPLIER"] = rng.choice([0.5, 2.0, 0.0])
        opts.append(o)
    return opts


def first_round(ctx, option, row):
    """constants built exactly like ScenarioRunner does, then the real compute_parameters_first_round;
    MeatAndDairy / FeedAndBiofuels instances captured by wrapping their constructors"""
    from src.scenarios.run_scenario import ScenarioRunner
    import src.optimizer.parameters as pm
    cap = {}
    MD, FB, GH = pm.MeatAndDairy, pm.FeedAndBiofuels, pm.Greenhouses

    class GH2(GH):
        def __init__(self, *a, **k):
            super().__init__(*a, **k)
            cap["gh"] = self

        def get_greenhouse_area(self, *a, **k):
            r = super().get_greenhouse_area(*a, **k)
            cap["gh_area"] = [float(x) for x in r]
            return r

    class MD2(MD):
        def __init__(self, *a, **k):
            super().__init__(*a, **k)
            cap["md"] = self

    class FB2(FB):
        def __init__(self, *a, **k):
            super().__init__(*a, **k)
            cap["fb"] = self
    pm.MeatAndDairy, pm.FeedAndBiofuels, pm.Greenhouses = MD2, FB2, GH2
    try:
        with ctx.quiet(), np.errstate(all="ignore"):
            c, tc, sl = ScenarioRunner().set_depending_on_option(dict(option), country_data=row)  # row None = world aggregate
            cin = copy.deepcopy(c)
            out = pm.Parameters().compute_parameters_first_round(c, tc, sl)
    finally:
        pm.MeatAndDairy, pm.FeedAndBiofuels, pm.Greenhouses = MD, FB, GH
    return cin, tc, out, cap


def extreme_rows(rows):
    """rows at the extremes of the columns that drive the crop/greenhouse formulas (zero, smallest positive and largest cropland,
    smallest/largest crop output, population): always part of the quick sample"""
    out = []
    for col in ("fraction_crop_area", "crop_area_1000ha", "crop_kcals", "population", "max_area_fraction"):
        vals = sorted(((float(r[col]), r["iso3"]) for r in rows if col in r), key=lambda t: t[0])
        if not vals:
            continue
        pos = [v for v in vals if v[0] > 0]
        pick = [vals[0][1], vals[-1][1]] + [v[1] for v in pos[:3]]
        out += pick
    keep, seen = [], set()
    for r in rows:
        if r["iso3"] in out and r["iso3"] not in seen:
            seen.add(r["iso3"])
            keep.append(r)
    return keep


def check_real_rows(ctx, rows, options, prop):
    """compute_parameters_first_round on real rows x option sets; every supply series against model and spec"""
    jobs = []
    for row in rows:
        for o in options:
            try:
                cin, tc, out, cap = first_round(ctx, o, row)
            except tuple(ERR) as e:
                ctx.count("rows:first-round-%s" % ERR[type(e)])
                case = {"series": "row", "iso3": iso_of(row), "option": o}
                if prop == "C08":
                    ctx.violation("first-round-rejected", "compute_parameters_first_round failed for %s: %s %s" % (iso_of(row), type(e).__name__, str(e)[:100]), case)
                continue
            jobs.append((row, o, cin, tc, out, cap))
    if not jobs:
        return
    lines = []
    for row, o, cin, tc, out, cap in jobs:
        cin["STARTING_MONTH_NUM"] = START_MONTH
        lines.append(crops_line(cin))
    crops_out = ctx.lean(lines)
    lines2 = []
    for (row, o, cin, tc, out, cap) in jobs:
        n, d, wdist, wr = cin["NMONTHS"], cin["DELAY"], cin["WASTE_DISTRIBUTION"], cin["WASTE_RETAIL"]
        consts = out[0]
        km = consts["KCALS_MONTHLY"]
        pct = [float(x) for x in tc["FISH_PERCENT_MONTHLY"]]
        grat = [cin["RATIO_GRASSES_YEAR%d" % (i + 1)] for i in range(10)]
        keys = [int(k) for k in cin["SEAWEED_GROWTH_PER_DAY"].keys()]
        vals = [cin["SEAWEED_GROWTH_PER_DAY"][str(k)] for k in keys]
        stocks = [cin["END_OF_MONTH_STOCKS"][m] for m in MONTHS]
        lines2 += [
            "supply.fish %s %d %s %s %s %s" % (b(cin["ADD_FISH"]), n, f2b(cin["FISH_DRY_CALORIC_ANNUAL"]), f2b(wdist["SEAFOOD"]), f2b(wr), fl(pct)),
            "supply.grass %d %s %s" % (n, f2b(cin["HUMAN_INEDIBLE_FEED_BASELINE_MONTHLY"]), fl(grat)),
            "supply.demand %d %d %s" % (n, d["FEED_SHUTOFF_MONTHS"], f2b(cin["FEED_KCALS"])),
            "supply.demand %d %d %s" % (n, d["BIOFUEL_SHUTOFF_MONTHS"], f2b(cin["BIOFUEL_KCALS"])),
            "supply.scp %s %d %d %s %s %s %s %s" % (b(cin["ADD_METHANE_SCP"]), n, d.get("INDUSTRIAL_FOODS_MONTHS", 0), f2b(cin["INDUSTRIAL_FOODS_SLOPE_MULTIPLIER"]),
                                                    f2b(cin["GLOBAL_POP"]), f2b(km), f2b(cin["SCP_GLOBAL_PRODUCTION_FRACTION"]), f2b(wdist["SUGAR"])),
            "supply.cs %s %d %d %s %s %s %s %s" % (b(cin["ADD_CELLULOSIC_SUGAR"]), n, d.get("INDUSTRIAL_FOODS_MONTHS", 0), f2b(cin["INDUSTRIAL_FOODS_SLOPE_MULTIPLIER"]),
                                                   f2b(cin["GLOBAL_POP"]), f2b(km), f2b(cin["CS_GLOBAL_PRODUCTION_FRACTION"]), f2b(wdist["SUGAR"])),
            "supply.seaweedArea %s %d %d %s %s" % (b(cin["ADD_SEAWEED"]), n, d.get("SEAWEED_MONTHS", 0), f2b(cin["SEAWEED_NEW_AREA_FRACTION"]), f2b(cin["SEAWEED_MAX_AREA_FRACTION"])),
            "supply.seaweedGrowth %s %s" % (wire.nl(keys), fl(vals)),
            "supply.stored %d %s %s %s %s" % (START_MONTH, fl(stocks), f2b(cin["RATIO_STOCKS_UNTOUCHED"]), f2b(cin["PERCENT_STORED_FOOD_TO_USE"]), f2b(wdist["CROPS"])),
        ]
    other_out = ctx.lean(lines2) if prop == "C08" else []
    from src.food_system.food import Food
    for j, (row, o, cin, tc, out, cap) in enumerate(jobs):
        n = cin["NMONTHS"]
        consts, time_consts = out[0], out[1]
        iso = iso_of(row)
        case = {"series": "row", "iso3": iso, "option": o}
        ctx.case(("row", iso, repr(sorted(o.items()))), True, {"iso3": iso, "scenario": o["scenario"], "NMONTHS": n})
        ctx.count("rows:scenario-%s" % o["scenario"])
        ctx.count("rows:%s" % ("world" if row is None else "country"))
        # the opaque pieces of the country initialiser
        if row is not None:
            want_season = [float(row["seasonality_m%d" % (i + 1)]) for i in range(12)]
            if o["seasonality"] == "country" and [float(x) for x in cin["SEASONALITY"]] != want_season:
                ctx.violation("seasonality-columns", "SEASONALITY is not the twelve seasonality_m columns in calendar order", case)
            if {str(k): float(row["seaweed_growth_per_day_%d" % k]) for k in range(-3, 117)} != {k: float(v) for k, v in cin["SEAWEED_GROWTH_PER_DAY"].items()}:
                ctx.violation("seaweed-columns", "SEAWEED_GROWTH_PER_DAY is not the seaweed_growth_per_day_<k> columns keyed by k", case)
        model = parse_crops(crops_out[j])
        oc = time_consts["outdoor_crops"]
        prod = [float(x) for x in oc.production.kcals]
        ghc = [float(x) for x in np.atleast_1d(time_consts["greenhouse_crops"].kcals)]
        if "err" in model:
            ctx.disagree("row.crops.error", case, "ok", model["err"])
            continue
        if not tol_close(prod, model["production"]):
            ctx.disagree("row.crops.production", case, prod[:24], model["production"][:24])
        if not tol_close(ghc, model["ghcrops"]):
            ctx.disagree("row.greenhouse", case, ghc[:50], model["ghcrops"][:50])
        if prop == "C08":
            series_clauses(ctx, "crops", prod, n, model["production_spec"], case)
            series_clauses(ctx, "greenhouse", ghc, n, model["ghcrops_spec"], case)
        else:
            if cin["ADD_OUTDOOR_GROWING"]:
                hd = cin["INITIAL_HARVEST_DURATION_IN_MONTHS"] + cin["DELAY"]["ROTATION_CHANGE_IN_MONTHS"]
                w = cin["WASTE_DISTRIBUTION"]["CROPS"]
                total = cin["INITIAL_GLOBAL_CROP_AREA"] * cin["INITIAL_CROP_AREA_FRACTION"]
                fr = [a / total if total != 0 else 0.0 for a in cap["gh_area"]]  # share of cropland the implementation's greenhouse area occupies
                if not tol_close([float(x) for x in cap["gh"].greenhouse_fraction_area], model["fraction"]):
                    ctx.disagree("row.greenhouse-fraction", case, [float(x) for x in cap["gh"].greenhouse_fraction_area][:50], model["fraction"][:50])
                want = [(oc.KCALS_GROWN[i] if (cin["OG_USE_BETTER_ROTATION"] and i >= hd) else oc.NO_RELOCATION_KCALS_GROWN[i]) * (1 - fr[i]) * (1 - w / 100)
                        for i in range(n)]
                if not tol_close(prod, want):
                    i = next(jj for jj, (x, y) in enumerate(zip(prod, want)) if not tol_close([x], [y], scale=max(map(abs, want))))
                    ctx.violation(net_key(prod, want, w),
                                  "%s month %d: outdoor production %r, grown x (1 - greenhouse fraction) x (1 - waste) = %r" % (iso, i, prod[i], want[i]), case)
            continue
        o9 = other_out[j * 9:(j + 1) * 9]
        fish = [float(x) for x in time_consts["fish"].to_humans.kcals]
        m, s = two(Reader(o9[0]))
        if not tol_close(fish, m):
            ctx.disagree("row.fish", case, fish[:24], m[:24])
        series_clauses(ctx, "fish", fish, n, s, case)
        grass = [float(x) for x in cap["md"].human_inedible_feed.kcals]
        rd = Reader(o9[1])
        if rd.tok() == "err":
            ctx.disagree("row.grass.error", case, "ok", "err")
        else:
            m, s = two(rd)
            if not tol_close(grass, m):
                ctx.disagree("row.grass", case, grass[:24], m[:24])
            series_clauses(ctx, "grass", grass, n, s, case)
        foods = [x for x in out[2:] if isinstance(x, Food)]
        fbc = cap["fb"]
        feedm = float(fbc.feed_monthly_usage.kcals)
        biom = float(fbc.biofuel_monthly_usage.kcals)
        d = cin["DELAY"]
        for name, oo, dur, monthly in [("feed-demand", o9[2], d["FEED_SHUTOFF_MONTHS"], feedm), ("biofuel-demand", o9[3], d["BIOFUEL_SHUTOFF_MONTHS"], biom)]:
            rd = Reader(oo)
            if rd.tok() == "err":
                ctx.disagree("row." + name + ".error", case, "ok", "err")
                continue
            m, s = two(rd)
            # the two demand objects of the returned tuple, identified by content
            cand = [[float(x) for x in f.kcals] for f in foods if len(np.atleast_1d(f.kcals)) == len(m)]
            if not any(tol_close(x, m) for x in cand):
                ctx.disagree("row." + name, case, [x[:6] for x in cand], m[:6])
            else:
                xs = next(x for x in cand if tol_close(x, m))
                series_clauses(ctx, name, xs, n, s, case, supported=dur <= n)
        for name, key, oo in [("scp", "methane_scp", o9[4]), ("cellulosic-sugar", "cellulosic_sugar", o9[5])]:
            xs = [float(x) for x in np.atleast_1d(time_consts[key].kcals)]
            m, s = two(Reader(oo))
            if not tol_close(xs, m):
                ctx.disagree("row." + name, case, xs[:40], m[:40])
            series_clauses(ctx, name, xs, n, s, case)
        area = [float(x) for x in time_consts["built_area"]]
        m, s = two(Reader(o9[6]))
        if not tol_close(area, m):
            ctx.disagree("row.seaweed-area", case, area[:24], m[:24])
        series_clauses(ctx, "seaweed-area", area, n, s, case)
        growth = [float(x) for x in time_consts["growth_rates_monthly"]]
        mg = Reader(o9[7]).floats()
        if not tol_close(growth, mg):
            ctx.disagree("row.seaweed-growth", case, growth[:12], mg[:12])
        gk = sorted(int(k) for k in cin["SEAWEED_GROWTH_PER_DAY"])
        want = [100 * (float(cin["SEAWEED_GROWTH_PER_DAY"][str(k)]) / 100 + 1) ** 30 for k in gk]
        series_clauses(ctx, "seaweed-growth", growth, n, want, case, expect_len=len(gk))
        stored = consts["stored_food"].initial_available.kcals
        if cin["ADD_STORED_FOOD"]:
            rd = Reader(o9[8])
            if rd.tok() == "err":
                ctx.disagree("row.stored-food.error", case, float(stored), "err")
            else:
                m, s = rd.float(), rd.float()
                if not tol_close([float(stored)], [m]):
                    ctx.disagree("row.stored-food", case, float(stored), m)
                series_clauses(ctx, "stored-food", [float(stored)], n, [s], case, expect_len=1)
        else:
            xs = [float(x) for x in np.atleast_1d(stored)]
            if any(x != 0 for x in xs):
                ctx.violation("stored-food-not-zero", "stored food switched off but non-zero", case)


# ------------------------------------------------------------------------------------------------ replay
def restore_constants(d):
    c = copy.deepcopy(d)
    for k in ("BASELINE_CROP_KCALS", "BASELINE_CROP_FAT", "BASELINE_CROP_PROTEIN"):
        if k in c:
            c[k] = np.float64(c[k])
    return c


def replay(ctx, rep, prop):
    """re-run exactly the recorded cases against the current /repo; a hit = the same violation key shows again"""
    hits = []
    ctx.driver = "driver_supply"  # vcheck enters replay before it sets the property's driver
    for v in rep.get("violations", []):
        case = v["case"]
        before = len(ctx.violations)
        ser = case.get("series")
        if ser == "crops":
            c = restore_constants(case["constants"])
            if "k" in case:
                c["_k"] = case["k"]
            check_crops(ctx, [c], prop, origin="replay")
            variant_checks(ctx, [c], prop)
        elif ser == "other":
            c = restore_constants(case["constants"])
            c["_kd"], c["_pct"], c["_fishmode"] = case["kcals_daily"], list(case["fish_percent"]), case.get("fishmode", "rand")
            c["_start_month"] = case.get("start_month", START_MONTH)
            if "k" in case:
                c["_k"] = case["k"]
            check_other_series(ctx, [c])
        elif ser == "fish-percent":
            check_other_series(ctx, [])
        elif ser == "row":
            rows = [None] if case["iso3"] == "WOR" else [r for r in country_rows(ctx) if r["iso3"] == case["iso3"]]
            check_real_rows(ctx, rows, [case["option"]], prop)
        new = [x for x in ctx.violations[before:] if x["key"] == v["key"]]
        if new:
            hits.append(new[0])
    return bool(hits), hits


# ------------------------------------------------------------------------------------------------ the inputs themselves (C08)
# which column of the shipped country table feeds which baseline constant (scale=country), with its unit factor: the "inputs" of the documented functions.
# SCP capacity is shared out by capital expenditure (create_scp_csv.py), cellulosic sugar by wood-pulp production (create_pulp_csv.py).
COLUMN_OF_CONSTANT = {
    "POP": ("population", 1.0), "BIOFUEL_KCALS": ("biofuel_kcals", 1.0), "FEED_KCALS": ("feed_kcals", 1.0),
    "HUMAN_INEDIBLE_FEED_BASELINE_MONTHLY": ("grasses_baseline", 1.0 / 12), "SCP_GLOBAL_PRODUCTION_FRACTION": ("percent_of_global_capex", 1.0),
    "CS_GLOBAL_PRODUCTION_FRACTION": ("percent_of_global_production", 1.0), "INITIAL_SEAWEED_FRACTION": ("initial_seaweed_fraction", 1.0),
    "SEAWEED_NEW_AREA_FRACTION": ("new_area_fraction", 1.0), "SEAWEED_MAX_AREA_FRACTION": ("max_area_fraction", 1.0),
    "INITIAL_BUILT_SEAWEED_FRACTION": ("initial_built_fraction", 1.0), "INITIAL_CROP_AREA_HA": ("crop_area_1000ha", 1000.0),
    "FISH_DRY_CALORIC_ANNUAL": ("aq_kcals", 1.0), "TONS_MILK_ANNUAL": ("dairy", 1.0), "INITIAL_MILK_CATTLE": ("dairy_cows", 1.0),
    "INIT_SMALL_ANIMALS": ("small_animals", 1.0), "INIT_MEDIUM_ANIMALS": ("medium_animals", 1.0),
    "INIT_LARGE_ANIMALS_WITH_MILK_COWS": ("large_animals", 1.0), "BASELINE_CROP_KCALS": ("crop_kcals", 1.0),
    "INITIAL_CROP_AREA_FRACTION": ("fraction_crop_area", 1.0), "POWER_LAW_IMPROVEMENT": ("power_law_improvement", 1.0),
}


def check_country_inputs(ctx, rows):
    """(a) every baseline constant of a country-scale scenario is the column of the shipped table that feeds it;
    (b) the row the multi-country driver hands to the scenario setters is the row of the table (run_model_no_trade's own sanity pass over the row
        may not alter what the documented functions are functions of)"""
    from src.scenarios.run_scenario import ScenarioRunner
    from src.scenarios.run_model_no_trade import ScenarioRunnerNoTrade
    import pandas as pd
    for row in rows:
        iso = iso_of(row)
        with ctx.quiet():
            try:
                c, tc, sl = ScenarioRunner().set_depending_on_option(dict(BASE_OPTION), country_data=row)
            except BaseException as e:  # noqa
                ctx.count("country-inputs:dispatch-error:" + type(e).__name__)
                continue
        for const, (col, fac) in COLUMN_OF_CONSTANT.items():
            if const not in c or col not in row:
                ctx.count("country-inputs:not-present:" + const)
                continue
            got, want = float(np.asarray(c[const])), float(row[col]) * fac
            if not wire.close(got, want, 1e-12, 0.0):
                ctx.violation("baseline-not-from-its-column:" + const, "%s: %s = %r, the shipped table has %s x %g = %r" % (iso, const, got, col, fac, want),
                              {"country": iso, "constant": const, "column": col})
        growth = c.get("SEAWEED_GROWTH_PER_DAY") or {}
        for key, val in growth.items():
            col = "seaweed_growth_per_day_" + str(key)
            if col in row and not wire.close(float(val), float(row[col]), 1e-12, 0.0):
                ctx.violation("baseline-not-from-its-column:SEAWEED_GROWTH_PER_DAY", "%s: SEAWEED_GROWTH_PER_DAY[%s] = %r, the shipped table has %s = %r" % (
                    iso, key, float(val), col, float(row[col])), {"country": iso, "constant": "SEAWEED_GROWTH_PER_DAY", "key": str(key), "column": col})
        ncols = sum(1 for k_ in row.index if "seaweed_growth_per_day_" in str(k_))
        if len(growth) != ncols:
            ctx.violation("baseline-not-from-its-column:SEAWEED_GROWTH_PER_DAY", "%s: %d seaweed growth entries for %d columns of the table" % (iso, len(growth), ncols),
                          {"country": iso, "constant": "SEAWEED_GROWTH_PER_DAY"})
        stocks = c.get("END_OF_MONTH_STOCKS") or {}
        for mon in ["JAN", "FEB", "MAR", "APR", "MAY", "JUN", "JUL", "AUG", "SEP", "OCT", "NOV", "DEC"]:
            col = "stocks_kcals_" + mon.lower()
            if mon in stocks and col in row and not wire.close(float(stocks[mon]), float(row[col]), 1e-12, 0.0):
                ctx.violation("baseline-not-from-its-column:END_OF_MONTH_STOCKS", "%s: END_OF_MONTH_STOCKS[%s] = %r, the shipped table has %s = %r" % (
                    iso, mon, float(stocks[mon]), col, float(row[col])), {"country": iso, "constant": "END_OF_MONTH_STOCKS", "month": mon, "column": col})
        ctx.case(("country-inputs", iso), nontrivial=True, sample={"country": iso, "constants_checked": len(COLUMN_OF_CONSTANT) + 12})
    ctx.count("country-input-rows", len(rows))
    # (b) through the driver, the three-round run replaced by a recorder
    seen = {}
    orig = ScenarioRunnerNoTrade.run_optimizer_for_country

    def rec(self, country_data, scenario_option, *a, **k):
        seen[country_data["iso3"]] = country_data.copy()
        return (1.0, "recorded", ("result-of", country_data["iso3"]))
    ScenarioRunnerNoTrade.run_optimizer_for_country = rec
    # once with the plain option set and once carrying every optional numeric override (none of them names a column of the table: the row stays the table's)
    with_overrides = dict(BASE_OPTION, CROP_PRODUCTION_MULTIPLIER=0.8, GRASSES_PRODUCTION_MULTIPLIER=1.7, RATIO_STOCKS_UNTOUCHED=0.3,
                          MINIMUM_PERCENT_FED_BEFORE_NONHUMAN_CONSUMPTION_ALLOWED=50, meat_cattle_head=1234567)
    seen_all = []
    try:
        for optset in (dict(BASE_OPTION), with_overrides):
            seen.clear()
            with ctx.quiet():
                ScenarioRunnerNoTrade().run_model_no_trade(title="verif_rows", create_pptx_with_all_countries=False, show_country_figures=False, show_map_figures=False,
                                                           add_map_slide_to_pptx=False, scenario_option=dict(optset), countries_list=[], return_results=True)
            seen_all.append(dict(seen))
    finally:
        ScenarioRunnerNoTrade.run_optimizer_for_country = orig
    table = {iso_of(r): r for r in country_rows(ctx)}
    for which, seen_ in enumerate(seen_all):
      for iso, got in seen_.items():
          want = table.get(iso)
          if want is None:
              continue
          for col in want.index:
              a, b = got.get(col), want[col]
              same = (a == b) or (isinstance(a, float) and isinstance(b, float) and math.isnan(a) and math.isnan(b))
              if not same:
                  # the one documented repair: a crop reduction a rounding error below -100 % is set to -100 %
                  repaired = str(col).startswith("crop_reduction_year") and isinstance(b, (int, float)) and -1 - 1e-8 < float(b) < -1 and float(a) == -1.0
                  if repaired:
                      ctx.count("country-row:crop-reduction-rounding-repaired")
                      continue
                  ctx.violation("country-row-altered:" + str(col), "%s: the driver hands the scenario setters %s = %r, the shipped table has %r" % (iso, col, a, b),
                                {"country": iso, "column": str(col), "with_optional_overrides": bool(which)})
    ctx.count("country-rows-through-the-driver", sum(len(x) for x in seen_all))
