import sys, time, os, io, contextlib, json
os.chdir('/repo'); sys.path.insert(0,'/repo')
import matplotlib; matplotlib.use('Agg')
import numpy as np, pandas as pd, warnings
warnings.filterwarnings('ignore')
from src.scenarios.run_scenario import ScenarioRunner
from src.optimizer.optimizer import Optimizer
cap=[]
_oh=Optimizer.optimize_to_humans; _oa=Optimizer.optimize_feed_to_animals
def oh(self,c,t):
    r=_oh(self,c,t); cap.append(('humans',self,r)); return r
def oa(self,c,t,m):
    r=_oa(self,c,t,m); cap.append(('animals',self,r)); return r
Optimizer.optimize_to_humans=oh; Optimizer.optimize_feed_to_animals=oa
tab=pd.read_csv('/repo/data/no_food_trade/computer_readable_combined.csv')
rows={r['iso3']:r for _,r in tab.iterrows()}
base=dict(scale='country',seasonality='country',grasses='country_nuclear_winter',crop_disruption='country_nuclear_winter',
 scenario='all_resilient_foods',fish='nuclear_winter',waste='baseline_in_country',nutrition='catastrophe',intake_constraints='enabled',
 stored_food='baseline',ratio_stocks_untouched='zero',shutoff='long_delayed_shutoff',cull='do_eat_culled',fat='not_required',protein='not_required',meat_strategy='reduce_breeding',NMONTHS=120)
for kv in sys.argv[2:]:
    k,v=kv.split('='); base[k]=v
def arr(V,k,N): return np.array([ (v.varValue if hasattr(v,'varValue') else float(v)) for v in V[k][:N]],dtype=float)
def audit(kind,o,r):
    V=r[1]; C=o.consts_for_optimizer; T=o.time_consts; N=C['NMONTHS']; out=[]
    need=C['BILLION_KCALS_NEEDED']; tol=1e-4*need
    wr=lambda k: 1/(1-C[k]/100)
    def chk(name,excess):
        e=np.max(excess)
        if e>tol: out.append('%s excess %.4g (%.3g%% of monthly need) at m=%d'%(name,e,100*e/need,int(np.argmax(excess))))
    # nonneg
    for k,v in V.items():
        if isinstance(v,list) and len(v)==N and hasattr(v[0],'varValue'):
            a=arr(V,k,N)
            if a.min()<-tol: out.append('%s negative %.4g'%(k,a.min()))
    sfh,sff,sfb=[arr(V,'stored_food_'+x,N) for x in('to_humans','feed','biofuel')]
    S0=C['stored_food'].initial_available.kcals if C['ADD_STORED_FOOD'] else 0.0
    S0=float(np.max(S0)) if np.ndim(S0) else float(S0)
    use=np.cumsum(sfh*wr('STORED_FOOD_WASTE_RETAIL')+sff+sfb)
    chk('stored_food cumulative',use-S0)
    if kind=='humans' and C['ADD_STORED_FOOD']: 
        if abs(use[-1]-S0)>tol: out.append('stored food not fully used: used %.4g of %.4g'%(use[-1],S0))
    ch,cf,cb=[arr(V,'crops_food_'+x,N) for x in('to_humans','feed','biofuel')]
    prod=np.array(T['outdoor_crops'].production.kcals,dtype=float) if C['ADD_OUTDOOR_GROWING'] else np.zeros(N)
    cuse=np.cumsum(ch*wr('CROP_WASTE_RETAIL')+cf+cb)
    chk('crops cumulative',cuse-np.cumsum(prod))
    if kind=='humans' and abs(cuse[-1]-prod.sum())>tol: out.append('crops not fully used %.4g vs %.4g'%(cuse[-1],prod.sum()))
    me=arr(V,'meat_eaten',N)*wr('MEAT_WASTE_RETAIL'); sl=np.array(T['each_month_meat_slaughtered'].kcals,dtype=float)
    if C['ADD_MEAT']: chk('meat cumulative',np.cumsum(me)-np.cumsum(sl))
    else:
        if me.max()>tol: out.append('meat eaten though ADD_MEAT off')
    for nm,key,wk in(('methane_scp','methane_scp','SCP_RETAIL_WASTE'),('cellulosic_sugar','cellulosic_sugar','CELL_SUGAR_RETAIL_WASTE')):
        h,f,b=[arr(V,nm+'_'+x,N) for x in('to_humans','feed','biofuel')]
        chk(nm+' monthly',h*wr(wk)+f+b-np.array(T[key].kcals,dtype=float))
    if C['ADD_SEAWEED']:
        wet=arr(V,'seaweed_wet_on_farm',N); ua=arr(V,'used_area',N); h,f,b=[arr(V,'seaweed_'+x,N) for x in('to_humans','feed','biofuel')]
        g=np.array(T['growth_rates_monthly'],dtype=float)[:N]/100; ba=np.array(T['built_area'],dtype=float)
        led=wet[1:]-(wet[:-1]*(1+g[1:])-h[1:]*wr('SEAWEED_WASTE_RETAIL')-f[1:]-b[1:]-(ua[1:]-ua[:-1])*C['MINIMUM_DENSITY']*C['HARVEST_LOSS']/100)
        if np.abs(led).max()>1e-6*max(1,wet.max()): out.append('seaweed ledger residual %.3g'%np.abs(led).max())
        ex=(wet-C['MAXIMUM_DENSITY']*ba)
        if ex.max()>1e-6: out.append('seaweed above density limit by %.3g at m=%d (limit %.6g, wet %.6g)'%(ex.max(),int(ex.argmax()),(C['MAXIMUM_DENSITY']*ba)[int(ex.argmax())],wet[int(ex.argmax())]))
        if (C['INITIAL_SEAWEED']-wet).max()>1e-6: out.append('seaweed below initial')
    # feed/biofuel sums
    sk=C['SEAWEED_KCALS']
    fs=sff+cf+arr(V,'seaweed_feed',N)*sk+arr(V,'cellulosic_sugar_feed',N)+arr(V,'methane_scp_feed',N)
    bs=sfb+cb+arr(V,'seaweed_biofuel',N)*sk+arr(V,'cellulosic_sugar_biofuel',N)+arr(V,'methane_scp_biofuel',N)
    if kind=='humans':
        chk('feed sum != charge',np.abs(fs-np.array(T['feed'].kcals,dtype=float))); chk('biofuel sum != charge',np.abs(bs-np.array(T['biofuel'].kcals,dtype=float)))
    else:
        chk('feed above ceiling',fs-np.array(T['max_feed_that_could_be_used'].kcals,dtype=float)); chk('biofuel above ceiling',bs-np.array(T['max_biofuel_that_could_be_used'].kcals,dtype=float))
        chk('feed rises',fs[1:]-fs[:-1]); 
    return out
isos=list(rows) if sys.argv[1]=="ALL" else sys.argv[1].split(",")
for iso in isos:
    cap.clear(); row=rows[iso]; sr=ScenarioRunner()
    try:
        with contextlib.redirect_stdout(io.StringIO()) as so:
            c,tc,sl=sr.set_depending_on_option(base,country_data=row)
            res=sr.run_and_analyze_scenario(c,tc,sl,False,False,'',row,False,row['country'],iso,title='scratch_'+iso)
    except BaseException as e:
        print(iso,'EXC',type(e).__name__,str(e)[:300].replace('\n',' ')); continue
    for i,(kind,o,r) in enumerate(cap):
        a=audit(kind,o,r)
        print(iso,i,kind,'OK' if not a else a,flush=True)
