"""C01 - reported allocations never use food that does not exist (DESIGN.md §7 C01)."""
import numpy as np
from lib import lpcheck, lpinst, pipeline

ID = "C01"
LEVEL = "proof"
DRIVER = "driver_lp"
LEAN_MODULES = ["AllfedModel.Props.C01"]
OBLIGATIONS = ["Allfed.C01." + n for n in [
    "feasible_is_physical", "extra_rows_preserve", "rowExcess_iff", "meat_cumulative_without_storage", "meat_never_eaten_before_slaughter",
    "meat_gap_counterexample_before_fix", "stored_gap_counterexample", "feasible_nonvacuous"]]
LEVEL_TEXT = ("Lean 4 theorem: every feasible point of the LP the code builds (buildLP, any horizon >= 2, any inputs and option flags, any ordered field) "
              "satisfies every clause of the physical specification physCore (stocks, cumulative harvest, slaughter, monthly caps, seaweed ledger, "
              "feed/biofuel totals, full use); buildLP is compared row by row with the PuLP model of the real Optimizer on every run, and the reported "
              "allocations are evaluated in the same specification at Float. The two clauses the code does not enforce are proved absent (counter-examples) and listed as known findings.")
LEVEL_NOTE = ("Trusted: Lean kernel (propext/Classical.choice/Quot.sound); the harness (capture by wrapping Optimizer.run_optimizations_on_constraints, "
              "row comparison rel 1e-9); CBC is NOT trusted: its reported point is re-evaluated in the model's rows (tolerance 1e-6 of the row magnitude) and "
              "in the supply-derived spec (1e-4 of the monthly requirement). Fat/protein-constrained instances are outside the model. PuLP's own translation "
              "to an LP file is not modelled.")
TECHNIQUE = "Lean 4 proof (telescoping induction over months on a syntactic LP) + row-by-row correspondence with PuLP + evaluation of reported allocations"
RULE = ("captured (country, option set, round) instances of the real three-round pipeline; each instance = one LP of ~500-4300 rows compared row by row; "
        "non-trivial = optimum > 0 and at least two resources present; distinct = distinct (country, options, round)")
ASSUMPTIONS = ["horizon of at least 2 months (the code needs >= 48)", "meat retail waste <= 100 % (for the redundant monthly-cap clause only)", "INCLUDE_FAT = INCLUDE_PROTEIN = False (all documented option sets)",
               "meat running total handed to the optimiser equals the cumulative slaughter series (checked per instance)"]
TRUSTED = ["scipy/HiGHS only in the failing-input search (never for the verdict on the unchanged tree)"]

KNOWN_GAP_KEYS = {"meat-cumulative-vs-slaughter": "meat-cumulative", "stored-full-use-no-storage": "stored-full-use-no-storage"}


def presets(ctx):
    ps = list(lpcheck.PRESETS_QUICK)
    isos = sorted(pipeline.country_rows())
    extra = ctx.budget(2, 60)
    for _ in range(extra):
        ps.append(lpcheck.random_preset(ctx.rng, isos))
    if not ctx.quick:
        # every country once under the default preset and once under a no-storage preset
        for iso in isos:
            ps.append((iso, dict()))
        for iso in isos[::3]:
            ps.append((iso, dict(scenario="seaweed", shutoff="continued", meat_strategy="baseline_breeding",
                                 ratio_stocks_untouched="baseline_no_stored_between_years")))
    return ps


def audit_solve(ctx, run, k, s):
    case = {"country": run.iso, "options": run.opts, "round": k + 1, "kind": s.kind}
    tied = lpcheck.tie_instance(ctx, run, k, s, "C01")
    if tied is None:
        return
    inp, enc, diffs = tied
    n = inp["nmonths"]
    # input consistency used by the spec: running slaughter total = cumulative slaughter
    if inp["addMeat"]:
        cs = np.cumsum(inp["slaughtered"])
        if not np.allclose(cs, inp["maxCulled"], rtol=1e-6, atol=1e-6 * max(1.0, float(cs[-1]))) and s.kind == "to_humans":
            ctx.count("meat-running-total-differs-from-cumsum")
            ctx.notes.append("round %d of %s: max_consumed_culled_kcals_each_month is not the running sum of each_month_meat_slaughtered" % (k + 1, run.iso))
    # "grossed up for retail waste": the percentage the LP grosses human consumption up with is the configured retail waste, for every food
    retail, _ = lpcheck.handoff_mismatches(s.opt)
    for key, got, want in retail:
        ctx.violation("retail-waste-not-configured:" + key, "%s round %d: the optimiser grosses human consumption up with %s = %r, the configured retail waste is %r" % (
            run.iso, k + 1, key, got, want), dict(case, constant=key))
    ctx.count("retail-waste-constants-compared", len(lpcheck.RETAIL_KEYS))
    if not getattr(run, "is_replay", False):
        lpcheck.flag_variant_ties(ctx, run, k, s, "C01", nvar=ctx.budget(1, 3))
    if s.values is None or s.error:
        ctx.count("solve-failed:" + (s.error or "?")[:40])
        return
    rows_g, core_g, gap_g = lpcheck.check_allocation(enc, s.kind, s.z, s.values)
    worst_row = max([it["excess"] / max(1.0, it["scale"]) for it in rows_g[1]] + [0.0])
    ctx.extra.setdefault("worst_row_residual_rel", 0.0)
    ctx.extra["worst_row_residual_rel"] = max(ctx.extra["worst_row_residual_rel"], worst_row)
    if worst_row > lpcheck.ROW_TOL:
        ctx.count("solver-misses-a-row-by-more-than-1e-6")
    ctx.count("phys-clauses-evaluated", core_g[0] + gap_g[0])
    for it in core_g[1]:
        if it["excess"] > lpcheck.PHYS_TOL * max(1.0, it["scale"]):
            ctx.violation("phys:" + it["clause"].split(":")[0],
                          "%s round %d: clause %s fails in month %d by %.6g (monthly requirement %.6g)" % (
                              run.iso, k + 1, it["clause"], it["month"], it["excess"], inp["billionKcalsNeeded"]),
                          dict(case, clause=it["clause"], month=it["month"], excess=it["excess"]))
    for it in gap_g[1]:
        if it["excess"] > lpcheck.PHYS_TOL * max(1.0, it["scale"]):
            ctx.violation(KNOWN_GAP_KEYS.get(it["clause"], "phys:" + it["clause"]),
                          "%s round %d: %s by %.6g in month %d (monthly requirement %.6g)" % (
                              run.iso, k + 1, it["clause"], it["excess"], it["month"], inp["billionKcalsNeeded"]),
                          dict(case, clause=it["clause"], month=it["month"], excess=it["excess"]))
            break  # one witness per solve is enough
    nres = sum(1 for f in ("addSeaweed", "addOutdoor", "addStored", "addMeat", "addScp", "addCs") if inp[f])
    ctx.case((run.iso, sorted(run.opts.items()), k), nontrivial=(s.z or 0) > 0 and nres >= 2,
             sample={"country": run.iso, "options": {a: b for a, b in run.opts.items() if pipeline.BASE_OPTIONS.get(a) != b},
                     "round": k + 1, "kind": s.kind, "rows": len(s.rows), "z": s.z})
    for f in ("addSeaweed", "addOutdoor", "addStored", "addMeat", "addScp", "addCs", "storeBetweenYears"):
        ctx.count("branch:%s=%s" % (f, inp[f]))
    ctx.count("branch:kind=" + s.kind)
    ctx.count("branch:pop<1e7=%s" % (inp["pop"] < 1e7))
    ctx.count("branch:nmonths=%d" % n)


def explore(ctx, ps):
    for iso, over in ps:
        run = pipeline.run_scenario(iso, pipeline.options(**over))
        if run.error and not run.solves:
            ctx.count("run-error:" + run.error.split(":")[0])
            continue
        if run.error:
            ctx.count("run-error-after-solve:" + run.error.split(":")[0])
        for k, s in enumerate(run.solves):
            audit_solve(ctx, run, k, s)
        if ctx.quick and ctx.elapsed() > 150:
            ctx.count("quick-budget-reached")
            break


def correspondence(ctx):
    explore(ctx, presets(ctx))


def search(ctx):
    """a row differs / a proof broke: look for an allocation that is feasible for the CODE's rows but not physical.
    (1) reported allocations over more instances (done by explore); (2) adversarial: maximise each physical
    clause over the code's own row set with HiGHS and evaluate the maximiser in the model's spec."""
    from lib import advsearch
    isos = sorted(pipeline.country_rows())
    ps = list(lpcheck.PRESETS_SEARCH) + [lpcheck.random_preset(ctx.rng, isos) for _ in range(2)]
    for iso, over in ps:
        run = pipeline.run_scenario(iso, pipeline.options(**over))
        for k, s in enumerate(run.solves):
            audit_solve(ctx, run, k, s)      # reported allocation first
            if s.rows:
                advsearch.adversarial(ctx, run, k, s)
        if ctx.violations and any(v["key"] not in KNOWN_GAP_KEYS.values() for v in ctx.violations):
            return


def replay(ctx, rep):
    hits = []
    for v in rep.get("violations", []):
        c = v["case"]
        run = pipeline.run_scenario(c["country"], c["options"])
        n0 = len(ctx.violations)
        for k, s in enumerate(run.solves):
            audit_solve(ctx, run, k, s)
        hits += [w for w in ctx.violations[n0:] if w["key"] == v["key"]]
    return bool(hits), hits[:3]
