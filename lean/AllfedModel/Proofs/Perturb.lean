import AllfedModel.Model.Perturb
import AllfedModel.Proofs.LP
import Mathlib.Tactic.LinearCombination
/-!
# Perturbations of the optimiser's inputs (property C12)

Scale invariance and monotonicity in supplies of `buildLP i .toHumans`, on top of the month-wise
characterisation `feasible_toHumans_iff` of `Proofs/LP.lean`.
-/
namespace Allfed.Proofs.Perturb
open Allfed Allfed.LP Allfed.AllocLP Allfed.PhysSpec Allfed.Perturb Allfed.Proofs.LP

set_option linter.unusedSectionVars false
set_option linter.unusedVariables false
set_option linter.unusedSimpArgs false

variable {K : Type} [Field K] [LinearOrder K] [IsStrictOrderedRing K]

/-! ## scale invariance -/

section Scale
variable (k : K) (i : Inp K) (x : Var → K)

theorem at'_map_mul (l : List K) (m : Nat) : at' (l.map (k * ·)) m = k * at' l m := by
  unfold at'
  by_cases hm : m < l.length
  · rw [List.getD_eq_getElem _ _ (by simpa using hm), List.getD_eq_getElem _ _ hm, List.getElem_map]
  · rw [List.getD_eq_default _ _ (by simpa using hm), List.getD_eq_default _ _ (not_lt.mp hm),
      mul_zero]

theorem scaleX_mv (kd : VK) (hne : kd ≠ .consumedKcals) (m : Nat) :
    scaleX k x (.mv kd m) = k * x (.mv kd m) := by
  cases kd <;> first | rfl | exact absurd rfl hne

theorem scaleX_consumed (m : Nat) : scaleX k x (.mv .consumedKcals m) = x (.mv .consumedKcals m) :=
  rfl

theorem X_scaleX (on : Bool) (kd : VK) (hne : kd ≠ .consumedKcals) (m : Nat) :
    X (scaleX k x) on kd m = k * X x on kd m := by
  unfold X
  cases on
  · simp only [Bool.false_eq_true, if_false, mul_zero]
  · simp only [if_true, scaleX_mv k x kd hne]

theorem grossUp_mul (v w : K) : grossUp (k * v) w = k * grossUp v w := by
  unfold grossUp; exact mul_div_assoc k v _

theorem feedTotal_scale (m : Nat) :
    feedTotal (scaleInp k i) (scaleX k x) m = k * feedTotal i x m := by
  show X (scaleX k x) i.addStored .sfFeed m + X (scaleX k x) i.addOutdoor .cropFeed m
      + X (scaleX k x) i.addSeaweed .swFeed m * i.seaweedKcals + X (scaleX k x) i.addCs .csFeed m
      + X (scaleX k x) i.addScp .scpFeed m = _
  unfold feedTotal
  simp only [X_scaleX, ne_eq, reduceCtorEq, not_false_eq_true]
  ring

theorem biofuelTotal_scale (m : Nat) :
    biofuelTotal (scaleInp k i) (scaleX k x) m = k * biofuelTotal i x m := by
  show X (scaleX k x) i.addStored .sfBiofuel m + X (scaleX k x) i.addOutdoor .cropBiofuel m
      + X (scaleX k x) i.addSeaweed .swBiofuel m * i.seaweedKcals
      + X (scaleX k x) i.addCs .csBiofuel m + X (scaleX k x) i.addScp .scpBiofuel m = _
  unfold biofuelTotal
  simp only [X_scaleX, ne_eq, reduceCtorEq, not_false_eq_true]
  ring

theorem humanTotal_scale (m : Nat) :
    humanTotal (scaleInp k i) (scaleX k x) m = k * humanTotal i x m := by
  show X (scaleX k x) i.addStored .sfHumans m + X (scaleX k x) i.addOutdoor .cropHumans m
      + X (scaleX k x) i.addSeaweed .swHumans m * i.seaweedKcals + at' (i.milk.map (k * ·)) m
      + X (scaleX k x) i.addMeat .meatEaten m + X (scaleX k x) i.addCs .csHumans m
      + X (scaleX k x) i.addScp .scpHumans m + at' (i.greenhouse.map (k * ·)) m
      + at' (i.fish.map (k * ·)) m = _
  unfold humanTotal
  simp only [X_scaleX, ne_eq, reduceCtorEq, not_false_eq_true, at'_map_mul]
  ring

theorem intake_scale (hk : 0 < k) (on : Bool) (ratio : K) (vH vF vB : VK)
    (hH : vH ≠ .consumedKcals) (hF : vF ≠ .consumedKcals) (hB : vB ≠ .consumedKcals)
    (limH limF limB : K) (m : Nat)
    (h : IntakeSpec i x on ratio vH vF vB limH limF limB m) :
    IntakeSpec (scaleInp k i) (scaleX k x) on ratio vH vF vB limH limF limB m := by
  intro hon
  obtain ⟨⟨h1, h2⟩, h3, h4⟩ := h hon
  show (scaleX k x (.mv vH m) * ratio ≤ limH / 100.0 * (k * i.pop * i.kcalsMonthly / 1e9) ∧
      scaleX k x (.mv vH m) * ratio ≤
        limH / 100.0 * (x (.mv .consumedKcals m) * (k * i.billionKcalsNeeded) / 100.0)) ∧
    scaleX k x (.mv vF m) * ratio ≤ limF / 100.0 * at' (i.feed.map (k * ·)) m ∧
    scaleX k x (.mv vB m) * ratio ≤ limB / 100.0 * at' (i.biofuel.map (k * ·)) m
  rw [scaleX_mv k x vH hH, scaleX_mv k x vF hF, scaleX_mv k x vB hB, at'_map_mul, at'_map_mul]
  generalize (100.0 : K) = c100 at *
  generalize (1e9 : K) = c1e9 at *
  have g1 := mul_le_mul_of_nonneg_left h1 hk.le
  have g2 := mul_le_mul_of_nonneg_left h2 hk.le
  have g3 := mul_le_mul_of_nonneg_left h3 hk.le
  have g4 := mul_le_mul_of_nonneg_left h4 hk.le
  refine ⟨⟨?_, ?_⟩, ?_, ?_⟩
  · calc k * x (.mv vH m) * ratio = k * (x (.mv vH m) * ratio) := by ring
      _ ≤ _ := g1
      _ = _ := by ring
  · calc k * x (.mv vH m) * ratio = k * (x (.mv vH m) * ratio) := by ring
      _ ≤ _ := g2
      _ = _ := by ring
  · calc k * x (.mv vF m) * ratio = k * (x (.mv vF m) * ratio) := by ring
      _ ≤ _ := g3
      _ = _ := by ring
  · calc k * x (.mv vB m) * ratio = k * (x (.mv vB m) * ratio) := by ring
      _ ≤ _ := g4
      _ = _ := by ring

theorem humanSpec_scale (hk : 0 < k) (h : HumanSpec i x) :
    HumanSpec (scaleInp k i) (scaleX k x) where
  nonneg := by
    intro v
    cases v with
    | mv kd m =>
      by_cases hc : kd = .consumedKcals
      · subst hc; exact h.nonneg _
      · rw [scaleX_mv k x kd hc]; exact mul_nonneg hk.le (h.nonneg _)
    | objective => exact h.nonneg _
    | objectiveBest => exact mul_nonneg hk.le (h.nonneg _)
  seaweed := by
    intro hon m hm
    have H := h.seaweed hon m hm
    simp only [SeaweedSpec, seaweedLedger, scaleInp, scaleX_mv, at'_map_mul, ne_eq, reduceCtorEq,
      not_false_eq_true, grossUp_mul] at H ⊢
    generalize (100.0 : K) = c100 at *
    obtain ⟨⟨b1, b2, b3, b4⟩, H2⟩ := H
    refine ⟨⟨mul_le_mul_of_nonneg_left b1 hk.le, ?_, mul_le_mul_of_nonneg_left b3 hk.le,
      mul_le_mul_of_nonneg_left b4 hk.le⟩, ?_⟩
    · have := mul_le_mul_of_nonneg_left b2 hk.le
      linarith
    · split_ifs at H2 ⊢
      · obtain ⟨e1, e2, e3, e4, e5⟩ := H2
        rw [e1, e2, e3, e4, e5, mul_zero]
        exact ⟨rfl, rfl, rfl, rfl, rfl⟩
      · linear_combination k * H2
  crops := by
    intro hon m hm
    have H := h.crops hon m hm
    simp only [CropSpec, scaleInp, scaleX_mv, at'_map_mul, ne_eq, reduceCtorEq,
      not_false_eq_true, grossUp_mul] at H ⊢
    obtain ⟨H1, H2⟩ := H
    refine ⟨by linear_combination k * H1, ?_⟩
    split_ifs at H2 ⊢
    · linear_combination k * H2
    · exact ⟨by linear_combination k * H2.1, by rw [H2.2, mul_zero]⟩
    · linear_combination k * H2
  stored := by
    intro hon m hm
    have H := h.stored hon m hm
    simp only [StoredSpec, StoredEatenEq, scaleInp, scaleX_mv, ne_eq, reduceCtorEq,
      not_false_eq_true, grossUp_mul] at H ⊢
    split_ifs at H ⊢
    · exact ⟨by rw [H.1], by linear_combination k * H.2⟩
    · exact ⟨⟨by rw [H.1.1, mul_zero], by rw [H.1.2]⟩, by linear_combination k * H.2⟩
    · exact ⟨by rw [H.1], by linear_combination k * H.2⟩
    · exact ⟨by rw [H.1], by linear_combination k * H.2⟩
    · obtain ⟨e1, e2, e3, e4⟩ := H
      exact ⟨by rw [e1, mul_zero], by rw [e2, mul_zero], by rw [e3, mul_zero], by rw [e4]⟩
    · exact ⟨by linear_combination k * H.1, by rw [H.2]⟩
  meat := by
    intro hon m hm
    have H := h.meat hon m hm
    simp only [MeatSpec, meatUse, scaleInp, scaleX_mv, at'_map_mul, ne_eq, reduceCtorEq,
      not_false_eq_true, grossUp_mul] at H ⊢
    split_ifs at H ⊢
    · exact ⟨by rw [H.1], by linear_combination k * H.2.1,
        by rw [← mul_sub]; exact mul_le_mul_of_nonneg_left H.2.2 hk.le⟩
    · exact ⟨by rw [H.1], by linear_combination k * H.2.1,
        by rw [← mul_sub]; exact mul_le_mul_of_nonneg_left H.2.2 hk.le⟩
    · exact mul_le_mul_of_nonneg_left H hk.le
  scp := by
    intro hon m hm
    have H := h.scp hon m hm
    simp only [scpUse, scaleInp, scaleX_mv, at'_map_mul, ne_eq, reduceCtorEq,
      not_false_eq_true, grossUp_mul] at H ⊢
    have := mul_le_mul_of_nonneg_left H hk.le
    linarith
  cs := by
    intro hon m hm
    have H := h.cs hon m hm
    simp only [csUse, scaleInp, scaleX_mv, at'_map_mul, ne_eq, reduceCtorEq,
      not_false_eq_true, grossUp_mul] at H ⊢
    have := mul_le_mul_of_nonneg_left H hk.le
    linarith
  general := by
    intro m hm
    obtain ⟨H1, H2, H3, H4, H5⟩ := h.general m hm
    refine ⟨?_, ?_, ?_, ?_, ?_⟩
    · intro hany
      obtain ⟨f1, f2⟩ := H1 hany
      rw [feedTotal_scale, biofuelTotal_scale, f1, f2]
      exact ⟨(at'_map_mul k _ m).symm, (at'_map_mul k _ m).symm⟩
    · rw [humanTotal_scale, scaleX_consumed, H2]
      show _ = k * humanTotal i x m / (k * i.billionKcalsNeeded) * 100.0
      rw [mul_div_mul_left _ _ hk.ne']
    · exact intake_scale k i x hk _ _ _ _ _ (by decide) (by decide) (by decide) _ _ _ m H3
    · exact intake_scale k i x hk _ _ _ _ _ (by decide) (by decide) (by decide) _ _ _ m H4
    · exact intake_scale k i x hk _ _ _ _ _ (by decide) (by decide) (by decide) _ _ _ m H5
  objective := by
    intro m hm
    exact h.objective m hm

end Scale

theorem scale_feasible (k : K) (hk : 0 < k) (i : Inp K) (x : Var → K)
    (h : Feasible (buildLP i .toHumans) x) :
    Feasible (buildLP (scaleInp k i) .toHumans) (scaleX k x) ∧
      scaleX k x .objective = x .objective :=
  ⟨feasible_toHumans_iff.mpr (humanSpec_scale k i x hk (feasible_toHumans_iff.mp h)), rfl⟩

theorem map_inv_mul_map (k : K) (hk : k ≠ 0) (l : List K) :
    List.map (fun a => k⁻¹ * a) (List.map (fun a => k * a) l) = l := by
  rw [List.map_map]
  have : ((fun a => k⁻¹ * a) ∘ fun a => k * a) = id := by
    funext a
    simp only [Function.comp, id, inv_mul_cancel_left₀ hk]
  rw [this, List.map_id]

theorem scaleInp_inv (k : K) (hk : k ≠ 0) (i : Inp K) : scaleInp k⁻¹ (scaleInp k i) = i := by
  cases i
  simp only [scaleInp, map_inv_mul_map k hk, inv_mul_cancel_left₀ hk]

theorem scale_optimum (k : K) (hk : 0 < k) (i : Inp K) (z : K) :
    (∃ x, Feasible (buildLP i .toHumans) x ∧ x .objective = z) ↔
    (∃ x, Feasible (buildLP (scaleInp k i) .toHumans) x ∧ x .objective = z) := by
  constructor
  · rintro ⟨x, hx, hz⟩
    exact ⟨scaleX k x, (scale_feasible k hk i x hx).1, hz⟩
  · rintro ⟨x, hx, hz⟩
    have := (scale_feasible k⁻¹ (inv_pos.mpr hk) (scaleInp k i) x hx).1
    rw [scaleInp_inv k hk.ne'] at this
    exact ⟨scaleX k⁻¹ x, this, hz⟩

/-! ## monotonicity in supplies -/

section Mono
variable {i i' : Inp K} {x x' : Var → K}

/-- intake rows survive a change that leaves the food's own variables alone, does not lower the
    month's percent fed, and re-establishes the feed and biofuel caps -/
theorem intake_of_le {on : Bool} {ratio : K} {vH vF vB : VK} {limH limF limB : K} {m : Nat}
    (h : IntakeSpec i x on ratio vH vF vB limH limF limB m)
    (hpop : i'.pop = i.pop) (hkm : i'.kcalsMonthly = i.kcalsMonthly)
    (hbkn : i'.billionKcalsNeeded = i.billionKcalsNeeded)
    (hH : x' (.mv vH m) = x (.mv vH m))
    (hc : x (.mv .consumedKcals m) ≤ x' (.mv .consumedKcals m))
    (hlim : 0 ≤ limH) (hb : 0 ≤ i.billionKcalsNeeded)
    (hF : on = true → x' (.mv vF m) * ratio ≤ limF / 100.0 * at' i'.feed m)
    (hB : on = true → x' (.mv vB m) * ratio ≤ limB / 100.0 * at' i'.biofuel m) :
    IntakeSpec i' x' on ratio vH vF vB limH limF limB m := by
  intro hon
  obtain ⟨⟨h1, h2⟩, -, -⟩ := h hon
  rw [hpop, hkm, hbkn, hH]
  refine ⟨⟨h1, le_trans h2 ?_⟩, hF hon, hB hon⟩
  rw [sci_100]
  have : 0 ≤ limH / 100 := div_nonneg hlim (by norm_num)
  have h3 : x (.mv .consumedKcals m) * i.billionKcalsNeeded / 100
      ≤ x' (.mv .consumedKcals m) * i.billionKcalsNeeded / 100 :=
    div_le_div_of_nonneg_right (mul_le_mul_of_nonneg_right hc hb) (by norm_num)
  exact mul_le_mul_of_nonneg_left h3 this

/-- … in particular when nothing but the month's percent fed changes -/
theorem intake_of_consumed_le {on : Bool} {ratio : K} {vH vF vB : VK} {limH limF limB : K} {m : Nat}
    (h : IntakeSpec i x on ratio vH vF vB limH limF limB m)
    (hpop : i'.pop = i.pop) (hkm : i'.kcalsMonthly = i.kcalsMonthly)
    (hbkn : i'.billionKcalsNeeded = i.billionKcalsNeeded)
    (hfeed : i'.feed = i.feed) (hbio : i'.biofuel = i.biofuel)
    (hH : x' (.mv vH m) = x (.mv vH m)) (hF : x' (.mv vF m) = x (.mv vF m))
    (hB : x' (.mv vB m) = x (.mv vB m))
    (hc : x (.mv .consumedKcals m) ≤ x' (.mv .consumedKcals m))
    (hlim : 0 ≤ limH) (hb : 0 ≤ i.billionKcalsNeeded) :
    IntakeSpec i' x' on ratio vH vF vB limH limF limB m :=
  intake_of_le h hpop hkm hbkn hH hc hlim hb
    (fun hon => by rw [hF, hfeed]; exact (h hon).2.1)
    (fun hon => by rw [hB, hbio]; exact (h hon).2.2)

/-! ### caps: SCP, cellulosic sugar, meat -/

theorem mono_scp (i : Inp K) (s' : List K) (hp : SeriesLe i.scp s') (x : Var → K)
    (h : Feasible (buildLP i .toHumans) x) :
    ∃ x', Feasible (buildLP { i with scp := s' } .toHumans) x' ∧ x .objective ≤ x' .objective := by
  rw [feasible_toHumans_iff] at h
  refine ⟨x, feasible_toHumans_iff.mpr ?_, le_rfl⟩
  exact ⟨h.nonneg, h.seaweed, h.crops, h.stored, h.meat,
    fun hon m hm => le_trans (h.scp hon m hm) (hp m), h.cs, h.general, h.objective⟩

theorem mono_cs (i : Inp K) (s' : List K) (hp : SeriesLe i.cs s') (x : Var → K)
    (h : Feasible (buildLP i .toHumans) x) :
    ∃ x', Feasible (buildLP { i with cs := s' } .toHumans) x' ∧ x .objective ≤ x' .objective := by
  rw [feasible_toHumans_iff] at h
  refine ⟨x, feasible_toHumans_iff.mpr ?_, le_rfl⟩
  exact ⟨h.nonneg, h.seaweed, h.crops, h.stored, h.meat, h.scp,
    fun hon m hm => le_trans (h.cs hon m hm) (hp m), h.general, h.objective⟩

/-- the meat stock variables moved up by `d` -/
def shiftMeat (x : Var → K) (d : K) : Var → K
  | .mv .meatStart m => x (.mv .meatStart m) + d
  | .mv .meatEnd m => x (.mv .meatEnd m) + d
  | v => x v

theorem mono_meat (i : Inp K) (total' : K) (cap' sl' : List K) (ht : i.meatSummed ≤ total')
    (hc : SeriesLe i.maxCulled cap') (hs : SeriesLe i.slaughtered sl') (x : Var → K)
    (h : Feasible (buildLP i .toHumans) x) :
    ∃ x', Feasible (buildLP { i with meatSummed := total', maxCulled := cap', slaughtered := sl' }
        .toHumans) x' ∧ x .objective ≤ x' .objective := by
  rw [feasible_toHumans_iff] at h
  have hd : 0 ≤ total' - i.meatSummed := sub_nonneg.mpr ht
  refine ⟨shiftMeat x (total' - i.meatSummed), feasible_toHumans_iff.mpr ?_, le_rfl⟩
  refine ⟨?_, h.seaweed, h.crops, h.stored, ?_, h.scp, h.cs, h.general, h.objective⟩
  · intro v
    cases v with
    | mv k m => cases k <;> first | exact h.nonneg _ | exact add_nonneg (h.nonneg _) hd
    | objective => exact h.nonneg _
    | objectiveBest => exact h.nonneg _
  · intro hon m hm
    have H := h.meat hon m hm
    unfold MeatSpec at H ⊢
    show if i.storeBetweenYears = true then
        (if m = 0 then x (.mv .meatStart 0) + (total' - i.meatSummed) = total'
         else x (.mv .meatStart m) + (total' - i.meatSummed)
            = x (.mv .meatEnd (m - 1)) + (total' - i.meatSummed)) ∧
        x (.mv .meatEnd m) + (total' - i.meatSummed)
          = x (.mv .meatStart m) + (total' - i.meatSummed) - meatUse i x m ∧
        total' - (x (.mv .meatEnd m) + (total' - i.meatSummed)) ≤ at' cap' m
      else meatUse i x m ≤ at' sl' m
    split_ifs at H ⊢
    · exact ⟨by rw [H.1]; ring, by rw [H.2.1]; ring, le_trans (by linarith [H.2.2]) (hc m)⟩
    · exact ⟨by rw [H.1], by rw [H.2.1]; ring, le_trans (by linarith [H.2.2]) (hc m)⟩
    · exact le_trans H (hs m)

/-! ### milk, fish, greenhouse -/

/-- the month's percent fed raised by `g m` -/
def raiseConsumed (x : Var → K) (g : Nat → K) : Var → K
  | .mv .consumedKcals m => x (.mv .consumedKcals m) + g m
  | v => x v

theorem mono_constants (i : Inp K) (milk' fish' gh' : List K) (hm : SeriesLe i.milk milk')
    (hf : SeriesLe i.fish fish') (hg : SeriesLe i.greenhouse gh') (hb : 0 < i.billionKcalsNeeded)
    (hlim : 0 ≤ i.limSwH ∧ 0 ≤ i.limScpH ∧ 0 ≤ i.limCsH)
    (x : Var → K) (h : Feasible (buildLP i .toHumans) x) :
    ∃ x', Feasible (buildLP { i with milk := milk', fish := fish', greenhouse := gh' } .toHumans) x' ∧
      x .objective ≤ x' .objective := by
  rw [feasible_toHumans_iff] at h
  let g : Nat → K := fun m =>
    ((at' milk' m - at' i.milk m) + (at' fish' m - at' i.fish m)
      + (at' gh' m - at' i.greenhouse m)) / i.billionKcalsNeeded * 100
  have hg0 : ∀ m, 0 ≤ g m := by
    intro m
    have h1 := hm m
    have h2 := hf m
    have h3 := hg m
    exact mul_nonneg (div_nonneg (by linarith) hb.le) (by norm_num)
  refine ⟨raiseConsumed x g, feasible_toHumans_iff.mpr ?_, le_rfl⟩
  refine ⟨?_, h.seaweed, h.crops, h.stored, h.meat, h.scp, h.cs, ?_, ?_⟩
  · intro v
    cases v with
    | mv k m => cases k <;> first | exact h.nonneg _ | exact add_nonneg (h.nonneg _) (hg0 m)
    | objective => exact h.nonneg _
    | objectiveBest => exact h.nonneg _
  · intro m hmN
    obtain ⟨H1, H2, H3, H4, H5⟩ := h.general m hmN
    have hc : x (.mv .consumedKcals m) ≤ raiseConsumed x g (.mv .consumedKcals m) :=
      le_add_of_nonneg_right (hg0 m)
    refine ⟨H1, ?_, ?_, ?_, ?_⟩
    · show x (.mv .consumedKcals m) + g m =
        (X x i.addStored .sfHumans m + X x i.addOutdoor .cropHumans m
          + X x i.addSeaweed .swHumans m * i.seaweedKcals + at' milk' m + X x i.addMeat .meatEaten m
          + X x i.addCs .csHumans m + X x i.addScp .scpHumans m + at' gh' m + at' fish' m)
          / i.billionKcalsNeeded * 100.0
      rw [H2]
      unfold humanTotal
      rw [sci_100]
      show _ + ((at' milk' m - at' i.milk m) + (at' fish' m - at' i.fish m)
        + (at' gh' m - at' i.greenhouse m)) / i.billionKcalsNeeded * 100 = _
      ring
    · exact intake_of_consumed_le H3 rfl rfl rfl rfl rfl rfl rfl rfl hc hlim.1 hb.le
    · exact intake_of_consumed_le H4 rfl rfl rfl rfl rfl rfl rfl rfl hc hlim.2.1 hb.le
    · exact intake_of_consumed_le H5 rfl rfl rfl rfl rfl rfl rfl rfl hc hlim.2.2 hb.le
  · intro m hmN
    exact le_trans (h.objective m hmN) (le_add_of_nonneg_right (hg0 m))

/-! ### the initial stock of stored food -/

/-- `1 − w/100` for a waste percentage `w` -/
def keep (w : K) : K := 1 - w / 100

theorem keep_pos {w : K} (hw : w < 100) : 0 < keep w := by
  unfold keep
  have : w / 100 < 1 := by rw [div_lt_one (by norm_num)]; exact hw
  linarith

/-- eating `e·(1 − w/100)` more draws `e` more from the stock -/
theorem grossUp_add_keep {w : K} (hw : w < 100) (v e : K) :
    grossUp (v + e * keep w) w = grossUp v w + e := by
  have hk := (keep_pos hw).ne'
  rw [grossUp_eq, grossUp_eq]
  unfold keep at hk ⊢
  field_simp

/-- stock variables moved up by `d`; in the months `last` the extra stock is eaten by people
    (`e` more to people, `g` more percent fed) instead of being carried over -/
def shiftStored (x : Var → K) (d e g : K) (last : Nat → Bool) : Var → K
  | .mv .sfStart m => x (.mv .sfStart m) + d
  | .mv .sfEnd m => if last m then x (.mv .sfEnd m) else x (.mv .sfEnd m) + d
  | .mv .sfHumans m => if last m then x (.mv .sfHumans m) + e else x (.mv .sfHumans m)
  | .mv .consumedKcals m => if last m then x (.mv .consumedKcals m) + g else x (.mv .consumedKcals m)
  | v => x v

theorem mono_storedInitial (i : Inp K) (d : K) (hd : 0 ≤ d) (hw0 : 0 ≤ i.wStored)
    (hw : i.wStored < 100) (hN : 2 ≤ i.nmonths) (hb : 0 ≤ i.billionKcalsNeeded)
    (hlim : 0 ≤ i.limSwH ∧ 0 ≤ i.limScpH ∧ 0 ≤ i.limCsH)
    (x : Var → K) (h : Feasible (buildLP i .toHumans) x) :
    ∃ x', Feasible (buildLP { i with storedInitial := i.storedInitial + d } .toHumans) x' ∧
      x .objective ≤ x' .objective := by
  rw [feasible_toHumans_iff] at h
  by_cases hon : i.addStored = true
  swap
  · -- stored food is not part of the programme
    refine ⟨x, feasible_toHumans_iff.mpr ?_, le_rfl⟩
    exact ⟨h.nonneg, h.seaweed, h.crops, fun hon' => absurd hon' hon, h.meat, h.scp, h.cs,
      h.general, h.objective⟩
  let last : Nat → Bool := fun m => i.storeBetweenYears && decide (m = i.nmonths - 1)
  let e : K := d * keep i.wStored
  let g : K := e / i.billionKcalsNeeded * 100
  have he : 0 ≤ e := mul_nonneg hd (keep_pos hw).le
  have hg : 0 ≤ g := mul_nonneg (div_nonneg he hb) (by norm_num)
  have hcons : ∀ m, x (.mv .consumedKcals m) ≤ shiftStored x d e g last (.mv .consumedKcals m) := by
    intro m
    show _ ≤ if last m then x (.mv .consumedKcals m) + g else x (.mv .consumedKcals m)
    split_ifs
    · exact le_add_of_nonneg_right hg
    · exact le_rfl
  refine ⟨shiftStored x d e g last, feasible_toHumans_iff.mpr ?_, le_rfl⟩
  refine ⟨?_, h.seaweed, h.crops, ?_, h.meat, h.scp, h.cs, ?_, ?_⟩
  · intro v
    cases v with
    | mv k m =>
      cases k <;> first
        | exact h.nonneg _
        | exact add_nonneg (h.nonneg _) hd
        | (show 0 ≤ ite _ _ _
           split_ifs <;> first | exact h.nonneg _ | exact add_nonneg (h.nonneg _) (by assumption))
    | objective => exact h.nonneg _
    | objectiveBest => exact h.nonneg _
  · -- the stored-food ledger
    intro _ m hm'
    have hm : m < i.nmonths := hm'
    have H := h.stored hon m hm
    unfold StoredSpec StoredEatenEq at H ⊢
    cases hs : i.storeBetweenYears
    · -- no storage between years: every stock variable moves up by d
      have hl : ∀ n, last n = false := fun n => by simp only [last, hs, Bool.false_and]
      rw [hs] at H
      simp only [Bool.false_eq_true, if_false] at H
      show if false = true then _ else _
      simp only [Bool.false_eq_true, if_false]
      show if m = 0 then
          x (.mv .sfStart 0) + d = i.storedInitial + d ∧
          (if last 0 then x (.mv .sfEnd 0) else x (.mv .sfEnd 0) + d) =
            x (.mv .sfStart 0) + d
              - grossUp (if last 0 then x (.mv .sfHumans 0) + e else x (.mv .sfHumans 0)) i.wStored
              - x (.mv .sfFeed 0) - x (.mv .sfBiofuel 0)
        else if 12 < m then
          (if last m then x (.mv .sfHumans m) + e else x (.mv .sfHumans m)) = 0 ∧
          x (.mv .sfFeed m) = 0 ∧ x (.mv .sfBiofuel m) = 0 ∧
          x (.mv .sfStart m) + d =
            (if last (m - 1) then x (.mv .sfEnd (m - 1)) else x (.mv .sfEnd (m - 1)) + d)
        else
          (if last m then x (.mv .sfEnd m) else x (.mv .sfEnd m) + d) =
            x (.mv .sfStart m) + d
              - grossUp (if last m then x (.mv .sfHumans m) + e else x (.mv .sfHumans m)) i.wStored
              - x (.mv .sfFeed m) - x (.mv .sfBiofuel m) ∧
          x (.mv .sfStart m) + d =
            (if last (m - 1) then x (.mv .sfEnd (m - 1)) else x (.mv .sfEnd (m - 1)) + d)
      simp only [hl, Bool.false_eq_true, if_false]
      split_ifs at H ⊢
      · exact ⟨by rw [H.1], by rw [H.2]; ring⟩
      · exact ⟨H.1, H.2.1, H.2.2.1, by rw [H.2.2.2]⟩
      · exact ⟨by rw [H.1]; ring, by rw [H.2]⟩
    · -- storage between years: the extra stock is eaten in the last month
      have hl : ∀ n, last n = decide (n = i.nmonths - 1) := fun n => by
        simp only [last, hs, Bool.true_and]
      rw [hs] at H
      simp only [if_true] at H
      show if true = true then _ else _
      simp only [if_true]
      show (if m = 0 then x (.mv .sfStart 0) + d = i.storedInitial + d
          else if m = i.nmonths - 1 then
            (if last m then x (.mv .sfEnd m) else x (.mv .sfEnd m) + d) = 0 ∧
            x (.mv .sfStart m) + d =
              (if last (m - 1) then x (.mv .sfEnd (m - 1)) else x (.mv .sfEnd (m - 1)) + d)
          else x (.mv .sfStart m) + d =
              (if last (m - 1) then x (.mv .sfEnd (m - 1)) else x (.mv .sfEnd (m - 1)) + d)) ∧
        (if last m then x (.mv .sfEnd m) else x (.mv .sfEnd m) + d) =
          x (.mv .sfStart m) + d
            - grossUp (if last m then x (.mv .sfHumans m) + e else x (.mv .sfHumans m)) i.wStored
            - x (.mv .sfFeed m) - x (.mv .sfBiofuel m)
      have hprev : last (m - 1) = false := by
        rw [hl]; exact decide_eq_false (by omega)
      rw [hprev]
      simp only [Bool.false_eq_true, if_false]
      by_cases hm0 : m = 0
      · have hnl : last m = false := by rw [hl]; exact decide_eq_false (by omega)
        rw [hnl]
        simp only [hm0, if_true, Bool.false_eq_true, if_false] at H ⊢
        exact ⟨by rw [H.1], by rw [H.2]; ring⟩
      · by_cases hml : m = i.nmonths - 1
        · have hnl : last m = true := by rw [hl]; exact decide_eq_true hml
          rw [hnl]
          simp only [hm0, if_false, ← hml, if_true] at H ⊢
          refine ⟨⟨H.1.1, by rw [H.1.2]⟩, ?_⟩
          rw [grossUp_add_keep hw, H.2]; ring
        · have hnl : last m = false := by rw [hl]; exact decide_eq_false hml
          rw [hnl]
          simp only [hm0, hml, if_false, Bool.false_eq_true] at H ⊢
          exact ⟨by rw [H.1], by rw [H.2]; ring⟩
  · -- feed, biofuel, percent fed, intake caps
    intro m hm
    obtain ⟨H1, H2, H3, H4, H5⟩ := h.general m hm
    refine ⟨H1, ?_, ?_, ?_, ?_⟩
    · show (if last m then x (.mv .consumedKcals m) + g else x (.mv .consumedKcals m)) =
        ((if i.addStored = true then
            (if last m then x (.mv .sfHumans m) + e else x (.mv .sfHumans m)) else 0)
          + X x i.addOutdoor .cropHumans m
          + X x i.addSeaweed .swHumans m * i.seaweedKcals + at' i.milk m + X x i.addMeat .meatEaten m
          + X x i.addCs .csHumans m + X x i.addScp .scpHumans m + at' i.greenhouse m + at' i.fish m)
          / i.billionKcalsNeeded * 100.0
      have hX : X x i.addStored .sfHumans m = x (.mv .sfHumans m) := by
        unfold X; rw [hon]; rfl
      rw [H2, hon, sci_100]
      unfold humanTotal
      rw [hX]
      simp only [if_true]
      by_cases hl : last m = true
      · rw [hl]
        show _ + e / i.billionKcalsNeeded * 100 = _
        simp only [if_true]
        ring
      · rw [Bool.not_eq_true] at hl
        rw [hl]
        simp only [Bool.false_eq_true, if_false]
    · exact intake_of_consumed_le H3 rfl rfl rfl rfl rfl rfl rfl rfl (hcons m) hlim.1 hb
    · exact intake_of_consumed_le H4 rfl rfl rfl rfl rfl rfl rfl rfl (hcons m) hlim.2.1 hb
    · exact intake_of_consumed_le H5 rfl rfl rfl rfl rfl rfl rfl rfl (hcons m) hlim.2.2 hb
  · intro m hm
    exact le_trans (h.objective m hm) (hcons m)

/-! ### crop production -/

/-- crop storage moved up by the running surplus `D` before the last month `l`; in month `l` the
    whole surplus is eaten by people (`e` more to people, `g` more percent fed) -/
def shiftCrops (x : Var → K) (D : Nat → K) (l : Nat) (e g : K) : Var → K
  | .mv .cropStorage m => if m < l then x (.mv .cropStorage m) + D m else x (.mv .cropStorage m)
  | .mv .cropConsumed m => if m = l then x (.mv .cropConsumed m) + D l else x (.mv .cropConsumed m)
  | .mv .cropHumans m => if m = l then x (.mv .cropHumans m) + e else x (.mv .cropHumans m)
  | .mv .consumedKcals m => if m = l then x (.mv .consumedKcals m) + g else x (.mv .consumedKcals m)
  | v => x v

theorem mono_cropProd (i : Inp K) (prod' : List K) (hp : SeriesLe i.cropProd prod')
    (hw0 : 0 ≤ i.wCrop) (hw : i.wCrop < 100) (hN : 2 ≤ i.nmonths)
    (hb : 0 ≤ i.billionKcalsNeeded) (hlim : 0 ≤ i.limSwH ∧ 0 ≤ i.limScpH ∧ 0 ≤ i.limCsH)
    (x : Var → K) (h : Feasible (buildLP i .toHumans) x) :
    ∃ x', Feasible (buildLP { i with cropProd := prod' } .toHumans) x' ∧
      x .objective ≤ x' .objective := by
  rw [feasible_toHumans_iff] at h
  by_cases hon : i.addOutdoor = true
  swap
  · refine ⟨x, feasible_toHumans_iff.mpr ?_, le_rfl⟩
    exact ⟨h.nonneg, h.seaweed, fun hon' => absurd hon' hon, h.stored, h.meat, h.scp, h.cs,
      h.general, h.objective⟩
  let δ : Nat → K := fun k => at' prod' k - at' i.cropProd k
  have hδ : ∀ k, 0 ≤ δ k := fun k => sub_nonneg.mpr (hp k)
  have hD : ∀ m, 0 ≤ cum δ m := fun m => cum_nonneg δ m (fun k _ => hδ k)
  let e : K := cum δ (i.nmonths - 1) * keep i.wCrop
  let g : K := e / i.billionKcalsNeeded * 100
  have he : 0 ≤ e := mul_nonneg (hD _) (keep_pos hw).le
  have hg : 0 ≤ g := mul_nonneg (div_nonneg he hb) (by norm_num)
  have hcons : ∀ m, x (.mv .consumedKcals m)
      ≤ shiftCrops x (cum δ) (i.nmonths - 1) e g (.mv .consumedKcals m) := by
    intro m
    show _ ≤ if m = i.nmonths - 1 then x (.mv .consumedKcals m) + g else x (.mv .consumedKcals m)
    split_ifs
    · exact le_add_of_nonneg_right hg
    · exact le_rfl
  refine ⟨shiftCrops x (cum δ) (i.nmonths - 1) e g, feasible_toHumans_iff.mpr ?_, le_rfl⟩
  refine ⟨?_, h.seaweed, ?_, h.stored, h.meat, h.scp, h.cs, ?_, ?_⟩
  · intro v
    cases v with
    | mv k m =>
      cases k <;> first
        | exact h.nonneg _
        | (show 0 ≤ ite _ _ _
           split_ifs <;> first
             | exact h.nonneg _
             | exact add_nonneg (h.nonneg _) (hD _)
             | exact add_nonneg (h.nonneg _) (by assumption))
    | objective => exact h.nonneg _
    | objectiveBest => exact h.nonneg _
  · -- the crop ledger
    intro _ m hm'
    have hm : m < i.nmonths := hm'
    obtain ⟨H1, H2⟩ := h.crops hon m hm
    show (if m = i.nmonths - 1 then x (.mv .cropConsumed m) + cum δ (i.nmonths - 1)
          else x (.mv .cropConsumed m)) =
        grossUp (if m = i.nmonths - 1 then x (.mv .cropHumans m) + e else x (.mv .cropHumans m))
          i.wCrop + x (.mv .cropBiofuel m) + x (.mv .cropFeed m) ∧
      (if m = 0 then
        (if m < i.nmonths - 1 then x (.mv .cropStorage m) + cum δ m else x (.mv .cropStorage m)) =
          at' prod' m - (if m = i.nmonths - 1 then x (.mv .cropConsumed m) + cum δ (i.nmonths - 1)
            else x (.mv .cropConsumed m))
       else if m = i.nmonths - 1 then
        (if m < i.nmonths - 1 then x (.mv .cropStorage m) + cum δ m else x (.mv .cropStorage m)) =
          at' prod' m +
            (if m - 1 < i.nmonths - 1 then x (.mv .cropStorage (m - 1)) + cum δ (m - 1)
              else x (.mv .cropStorage (m - 1)))
            - (if m = i.nmonths - 1 then x (.mv .cropConsumed m) + cum δ (i.nmonths - 1)
                else x (.mv .cropConsumed m)) ∧
        (if m < i.nmonths - 1 then x (.mv .cropStorage m) + cum δ m else x (.mv .cropStorage m)) = 0
       else
        (if m < i.nmonths - 1 then x (.mv .cropStorage m) + cum δ m else x (.mv .cropStorage m)) =
          at' prod' m +
            (if m - 1 < i.nmonths - 1 then x (.mv .cropStorage (m - 1)) + cum δ (m - 1)
              else x (.mv .cropStorage (m - 1)))
            - (if m = i.nmonths - 1 then x (.mv .cropConsumed m) + cum δ (i.nmonths - 1)
                else x (.mv .cropConsumed m)))
    have hprod : at' prod' m = at' i.cropProd m + δ m := by
      show _ = _ + (at' prod' m - at' i.cropProd m); ring
    by_cases hm0 : m = 0
    · have h1 : ¬ m = i.nmonths - 1 := by omega
      have h2 : m < i.nmonths - 1 := by omega
      simp only [hm0, if_true] at H2
      simp only [h1, if_false, h2, if_true]
      refine ⟨H1, ?_⟩
      simp only [hm0, if_true]
      rw [hm0] at hprod
      rw [H2, hprod, cum_zero]; ring
    · by_cases hml : m = i.nmonths - 1
      · have h3 : m - 1 < i.nmonths - 1 := by omega
        subst hml
        simp only [hm0, if_false, if_true] at H2
        simp only [hm0, if_false, if_true, lt_irrefl, h3]
        refine ⟨?_, ?_, H2.2⟩
        · rw [grossUp_add_keep hw, H1]; ring
        · have hc : cum δ (i.nmonths - 1) = cum δ (i.nmonths - 1 - 1) + δ (i.nmonths - 1) := by
            obtain ⟨n, hn⟩ : ∃ n, i.nmonths - 1 = n + 1 := ⟨i.nmonths - 1 - 1, by omega⟩
            rw [hn, cum_succ, Nat.add_sub_cancel]
          rw [H2.1, hprod, hc]; ring
      · have h2 : m < i.nmonths - 1 := by omega
        have h3 : m - 1 < i.nmonths - 1 := by omega
        simp only [hm0, hml, if_false] at H2
        simp only [hm0, hml, if_false, h2, h3, if_true]
        refine ⟨H1, ?_⟩
        have hc : cum δ m = cum δ (m - 1) + δ m := by
          obtain ⟨n, rfl⟩ : ∃ n, m = n + 1 := ⟨m - 1, by omega⟩
          rw [cum_succ, Nat.add_sub_cancel]
        rw [H2, hprod, hc]; ring
  · -- feed, biofuel, percent fed, intake caps
    intro m hm
    obtain ⟨H1, H2, H3, H4, H5⟩ := h.general m hm
    refine ⟨H1, ?_, ?_, ?_, ?_⟩
    · show (if m = i.nmonths - 1 then x (.mv .consumedKcals m) + g else x (.mv .consumedKcals m)) =
        (X x i.addStored .sfHumans m
          + (if i.addOutdoor = true then
              (if m = i.nmonths - 1 then x (.mv .cropHumans m) + e else x (.mv .cropHumans m)) else 0)
          + X x i.addSeaweed .swHumans m * i.seaweedKcals + at' i.milk m + X x i.addMeat .meatEaten m
          + X x i.addCs .csHumans m + X x i.addScp .scpHumans m + at' i.greenhouse m + at' i.fish m)
          / i.billionKcalsNeeded * 100.0
      have hX : X x i.addOutdoor .cropHumans m = x (.mv .cropHumans m) := by
        unfold X; rw [hon]; rfl
      rw [H2, hon, sci_100]
      unfold humanTotal
      rw [hX]
      simp only [if_true]
      by_cases hl : m = i.nmonths - 1
      · subst hl
        simp only [if_true]
        show _ + e / i.billionKcalsNeeded * 100 = _
        ring
      · simp only [hl, if_false]
    · exact intake_of_consumed_le H3 rfl rfl rfl rfl rfl rfl rfl rfl (hcons m) hlim.1 hb
    · exact intake_of_consumed_le H4 rfl rfl rfl rfl rfl rfl rfl rfl (hcons m) hlim.2.1 hb
    · exact intake_of_consumed_le H5 rfl rfl rfl rfl rfl rfl rfl rfl (hcons m) hlim.2.2 hb
  · intro m hm
    exact le_trans (h.objective m hm) (hcons m)

/-! ### the feed and biofuel charge -/

section Charge

/-- stored food no longer fed to animals / turned into biofuel in month `m` -/
def freedStored (x : Var → K) (lam mu : Nat → K) (m : Nat) : K :=
  (1 - lam m) * x (.mv .sfFeed m) + (1 - mu m) * x (.mv .sfBiofuel m)

def freedCrops (x : Var → K) (lam mu : Nat → K) (m : Nat) : K :=
  (1 - lam m) * x (.mv .cropFeed m) + (1 - mu m) * x (.mv .cropBiofuel m)

/-- what people get more in month `m` (billion kcals) -/
def gain (i : Inp K) (x : Var → K) (lam mu : Nat → K) (m : Nat) : K :=
  (if i.addStored = true then freedStored x lam mu m * keep i.wStored else 0)
    + (if i.addOutdoor = true then freedCrops x lam mu m * keep i.wCrop else 0)

/-- every feed variable of month `m` scaled by `lam m`, every biofuel variable by `mu m`; the freed
    stored food and crops go to people in the same month, freed SCP and sugar are dropped -/
def recharge (i : Inp K) (x : Var → K) (lam mu : Nat → K) : Var → K
  | .mv .sfFeed m => lam m * x (.mv .sfFeed m)
  | .mv .sfBiofuel m => mu m * x (.mv .sfBiofuel m)
  | .mv .cropFeed m => lam m * x (.mv .cropFeed m)
  | .mv .cropBiofuel m => mu m * x (.mv .cropBiofuel m)
  | .mv .scpFeed m => lam m * x (.mv .scpFeed m)
  | .mv .scpBiofuel m => mu m * x (.mv .scpBiofuel m)
  | .mv .csFeed m => lam m * x (.mv .csFeed m)
  | .mv .csBiofuel m => mu m * x (.mv .csBiofuel m)
  | .mv .sfHumans m => x (.mv .sfHumans m) + freedStored x lam mu m * keep i.wStored
  | .mv .cropHumans m => x (.mv .cropHumans m) + freedCrops x lam mu m * keep i.wCrop
  | .mv .consumedKcals m => x (.mv .consumedKcals m) + gain i x lam mu m / i.billionKcalsNeeded * 100
  | v => x v

variable {i : Inp K} {x : Var → K} {lam mu : Nat → K} {m : Nat}

theorem rc_sfStart : recharge i x lam mu (.mv .sfStart m) = x (.mv .sfStart m) := rfl
theorem rc_sfEnd : recharge i x lam mu (.mv .sfEnd m) = x (.mv .sfEnd m) := rfl
theorem rc_sfHumans : recharge i x lam mu (.mv .sfHumans m) = x (.mv .sfHumans m) + freedStored x lam mu m * keep i.wStored := rfl
theorem rc_sfFeed : recharge i x lam mu (.mv .sfFeed m) = lam m * x (.mv .sfFeed m) := rfl
theorem rc_sfBiofuel : recharge i x lam mu (.mv .sfBiofuel m) = mu m * x (.mv .sfBiofuel m) := rfl
theorem rc_scpHumans : recharge i x lam mu (.mv .scpHumans m) = x (.mv .scpHumans m) := rfl
theorem rc_scpFeed : recharge i x lam mu (.mv .scpFeed m) = lam m * x (.mv .scpFeed m) := rfl
theorem rc_scpBiofuel : recharge i x lam mu (.mv .scpBiofuel m) = mu m * x (.mv .scpBiofuel m) := rfl
theorem rc_csHumans : recharge i x lam mu (.mv .csHumans m) = x (.mv .csHumans m) := rfl
theorem rc_csFeed : recharge i x lam mu (.mv .csFeed m) = lam m * x (.mv .csFeed m) := rfl
theorem rc_csBiofuel : recharge i x lam mu (.mv .csBiofuel m) = mu m * x (.mv .csBiofuel m) := rfl
theorem rc_meatStart : recharge i x lam mu (.mv .meatStart m) = x (.mv .meatStart m) := rfl
theorem rc_meatEnd : recharge i x lam mu (.mv .meatEnd m) = x (.mv .meatEnd m) := rfl
theorem rc_meatEaten : recharge i x lam mu (.mv .meatEaten m) = x (.mv .meatEaten m) := rfl
theorem rc_cropStorage : recharge i x lam mu (.mv .cropStorage m) = x (.mv .cropStorage m) := rfl
theorem rc_cropConsumed : recharge i x lam mu (.mv .cropConsumed m) = x (.mv .cropConsumed m) := rfl
theorem rc_cropHumans : recharge i x lam mu (.mv .cropHumans m) = x (.mv .cropHumans m) + freedCrops x lam mu m * keep i.wCrop := rfl
theorem rc_cropFeed : recharge i x lam mu (.mv .cropFeed m) = lam m * x (.mv .cropFeed m) := rfl
theorem rc_cropBiofuel : recharge i x lam mu (.mv .cropBiofuel m) = mu m * x (.mv .cropBiofuel m) := rfl
theorem rc_swWet : recharge i x lam mu (.mv .swWet m) = x (.mv .swWet m) := rfl
theorem rc_swHumans : recharge i x lam mu (.mv .swHumans m) = x (.mv .swHumans m) := rfl
theorem rc_swFeed : recharge i x lam mu (.mv .swFeed m) = x (.mv .swFeed m) := rfl
theorem rc_swBiofuel : recharge i x lam mu (.mv .swBiofuel m) = x (.mv .swBiofuel m) := rfl
theorem rc_usedArea : recharge i x lam mu (.mv .usedArea m) = x (.mv .usedArea m) := rfl
theorem rc_consumedKcals : recharge i x lam mu (.mv .consumedKcals m) = x (.mv .consumedKcals m) + gain i x lam mu m / i.billionKcalsNeeded * 100 := rfl

/-- the share `a / b` of a lowered charge `0 ≤ a ≤ b` -/
theorem share_spec {a b : K} (h0 : 0 ≤ a) (h1 : a ≤ b) : 0 ≤ a / b ∧ a / b ≤ 1 ∧ a / b * b = a := by
  rcases eq_or_lt_of_le (le_trans h0 h1) with hb | hb
  · have ha : a = 0 := le_antisymm (hb ▸ h1) h0
    rw [← hb, ha, div_zero]
    exact ⟨le_rfl, zero_le_one, by ring⟩
  · exact ⟨div_nonneg h0 hb.le, (div_le_one hb).mpr h1, div_mul_cancel₀ a hb.ne'⟩

theorem X_mul (x x' : Var → K) (on : Bool) (k : VK) (m : Nat) (c : K)
    (h : x' (.mv k m) = c * x (.mv k m)) : X x' on k m = c * X x on k m := by
  unfold X
  cases on
  · simp only [Bool.false_eq_true, if_false, mul_zero]
  · simp only [if_true, h]

end Charge

theorem charge_antitone_partial (i : Inp K) (feed' biofuel' : List K) (hs : i.addSeaweed = false)
    (hf : SeriesLe feed' i.feed) (hb : SeriesLe biofuel' i.biofuel)
    (hf0 : ∀ m, 0 ≤ at' feed' m) (hb0 : ∀ m, 0 ≤ at' biofuel' m)
    (hwS0 : 0 ≤ i.wStored) (hwS : i.wStored < 100) (hwC0 : 0 ≤ i.wCrop) (hwC : i.wCrop < 100)
    (hbkn : 0 < i.billionKcalsNeeded) (hlim : 0 ≤ i.limScpH ∧ 0 ≤ i.limCsH)
    (x : Var → K) (h : Feasible (buildLP i .toHumans) x) :
    ∃ x', Feasible (buildLP { i with feed := feed', biofuel := biofuel' } .toHumans) x' ∧
      x .objective ≤ x' .objective := by
  rw [feasible_toHumans_iff] at h
  let lam : Nat → K := fun m => at' feed' m / at' i.feed m
  let mu : Nat → K := fun m => at' biofuel' m / at' i.biofuel m
  have hl : ∀ m, 0 ≤ lam m ∧ lam m ≤ 1 ∧ lam m * at' i.feed m = at' feed' m :=
    fun m => share_spec (hf0 m) (hf m)
  have hmu : ∀ m, 0 ≤ mu m ∧ mu m ≤ 1 ∧ mu m * at' i.biofuel m = at' biofuel' m :=
    fun m => share_spec (hb0 m) (hb m)
  have hkS := keep_pos hwS
  have hkC := keep_pos hwC
  have hfs : ∀ m, 0 ≤ freedStored x lam mu m := fun m =>
    add_nonneg (mul_nonneg (sub_nonneg.mpr (hl m).2.1) (h.nonneg _))
      (mul_nonneg (sub_nonneg.mpr (hmu m).2.1) (h.nonneg _))
  have hfc : ∀ m, 0 ≤ freedCrops x lam mu m := fun m =>
    add_nonneg (mul_nonneg (sub_nonneg.mpr (hl m).2.1) (h.nonneg _))
      (mul_nonneg (sub_nonneg.mpr (hmu m).2.1) (h.nonneg _))
  have hgain : ∀ m, 0 ≤ gain i x lam mu m := by
    intro m
    unfold gain
    refine add_nonneg ?_ ?_ <;> split_ifs
    · exact mul_nonneg (hfs m) hkS.le
    · exact le_rfl
    · exact mul_nonneg (hfc m) hkC.le
    · exact le_rfl
  have hcons : ∀ m, x (.mv .consumedKcals m) ≤ recharge i x lam mu (.mv .consumedKcals m) := by
    intro m
    rw [rc_consumedKcals]
    exact le_add_of_nonneg_right (mul_nonneg (div_nonneg (hgain m) hbkn.le) (by norm_num))
  refine ⟨recharge i x lam mu, feasible_toHumans_iff.mpr ?_, le_rfl⟩
  refine ⟨?_, h.seaweed, ?_, ?_, h.meat, ?_, ?_, ?_, ?_⟩
  · intro v
    cases v with
    | mv k m =>
      cases k <;> first
        | exact h.nonneg _
        | exact mul_nonneg (hl m).1 (h.nonneg _)
        | exact mul_nonneg (hmu m).1 (h.nonneg _)
        | exact add_nonneg (h.nonneg _) (mul_nonneg (hfs m) hkS.le)
        | exact add_nonneg (h.nonneg _) (mul_nonneg (hfc m) hkC.le)
        | exact add_nonneg (h.nonneg _)
            (mul_nonneg (div_nonneg (hgain m) hbkn.le) (by norm_num))
    | objective => exact h.nonneg _
    | objectiveBest => exact h.nonneg _
  · -- crops: what is no longer fed or burnt is eaten, so the same amount is consumed
    intro hon m hm
    obtain ⟨H1, H2⟩ := h.crops hon m hm
    change CropSpec i (recharge i x lam mu) m
    unfold CropSpec
    simp only [rc_sfStart, rc_sfEnd, rc_sfHumans, rc_sfFeed, rc_sfBiofuel, rc_scpHumans, rc_scpFeed, rc_scpBiofuel, rc_csHumans, rc_csFeed, rc_csBiofuel, rc_meatStart, rc_meatEnd, rc_meatEaten, rc_cropStorage, rc_cropConsumed, rc_cropHumans, rc_cropFeed, rc_cropBiofuel, rc_swWet, rc_swHumans, rc_swFeed, rc_swBiofuel, rc_usedArea, rc_consumedKcals]
    refine ⟨?_, H2⟩
    rw [grossUp_add_keep hwC, H1]
    unfold freedCrops
    ring
  · -- stored food likewise
    intro hon m hm
    have H := h.stored hon m hm
    change StoredSpec i (recharge i x lam mu) m
    have hE : StoredEatenEq i x m → StoredEatenEq i (recharge i x lam mu) m := by
      intro hE
      unfold StoredEatenEq at hE ⊢
      simp only [rc_sfStart, rc_sfEnd, rc_sfHumans, rc_sfFeed, rc_sfBiofuel, rc_scpHumans, rc_scpFeed, rc_scpBiofuel, rc_csHumans, rc_csFeed, rc_csBiofuel, rc_meatStart, rc_meatEnd, rc_meatEaten, rc_cropStorage, rc_cropConsumed, rc_cropHumans, rc_cropFeed, rc_cropBiofuel, rc_swWet, rc_swHumans, rc_swFeed, rc_swBiofuel, rc_usedArea, rc_consumedKcals]
      rw [grossUp_add_keep hwS, hE]
      unfold freedStored
      ring
    have hE0 : StoredEatenEq i x 0 → StoredEatenEq i (recharge i x lam mu) 0 := by
      intro hE
      unfold StoredEatenEq at hE ⊢
      simp only [rc_sfStart, rc_sfEnd, rc_sfHumans, rc_sfFeed, rc_sfBiofuel, rc_scpHumans, rc_scpFeed, rc_scpBiofuel, rc_csHumans, rc_csFeed, rc_csBiofuel, rc_meatStart, rc_meatEnd, rc_meatEaten, rc_cropStorage, rc_cropConsumed, rc_cropHumans, rc_cropFeed, rc_cropBiofuel, rc_swWet, rc_swHumans, rc_swFeed, rc_swBiofuel, rc_usedArea, rc_consumedKcals]
      rw [grossUp_add_keep hwS, hE]
      unfold freedStored
      ring
    unfold StoredSpec at H ⊢
    simp only [rc_sfStart, rc_sfEnd, rc_sfHumans, rc_sfFeed, rc_sfBiofuel, rc_scpHumans, rc_scpFeed, rc_scpBiofuel, rc_csHumans, rc_csFeed, rc_csBiofuel, rc_meatStart, rc_meatEnd, rc_meatEaten, rc_cropStorage, rc_cropConsumed, rc_cropHumans, rc_cropFeed, rc_cropBiofuel, rc_swWet, rc_swHumans, rc_swFeed, rc_swBiofuel, rc_usedArea, rc_consumedKcals] at H ⊢
    split_ifs at H ⊢
    · exact ⟨H.1, hE H.2⟩
    · exact ⟨H.1, hE H.2⟩
    · exact ⟨H.1, hE H.2⟩
    · exact ⟨H.1, hE0 H.2⟩
    · obtain ⟨e1, e2, e3, e4⟩ := H
      unfold freedStored
      rw [e1, e2, e3]
      exact ⟨by ring, by ring, by ring, e4⟩
    · exact ⟨hE H.1, H.2⟩
  · -- SCP
    intro hon m hm
    have H := h.scp hon m hm
    change scpUse i (recharge i x lam mu) m ≤ at' i.scp m
    unfold scpUse at H ⊢
    simp only [rc_sfStart, rc_sfEnd, rc_sfHumans, rc_sfFeed, rc_sfBiofuel, rc_scpHumans, rc_scpFeed, rc_scpBiofuel, rc_csHumans, rc_csFeed, rc_csBiofuel, rc_meatStart, rc_meatEnd, rc_meatEaten, rc_cropStorage, rc_cropConsumed, rc_cropHumans, rc_cropFeed, rc_cropBiofuel, rc_swWet, rc_swHumans, rc_swFeed, rc_swBiofuel, rc_usedArea, rc_consumedKcals]
    have h1 := mul_le_of_le_one_left (h.nonneg (.mv .scpFeed m)) (hl m).2.1
    have h2 := mul_le_of_le_one_left (h.nonneg (.mv .scpBiofuel m)) (hmu m).2.1
    linarith
  · -- cellulosic sugar
    intro hon m hm
    have H := h.cs hon m hm
    change csUse i (recharge i x lam mu) m ≤ at' i.cs m
    unfold csUse at H ⊢
    simp only [rc_sfStart, rc_sfEnd, rc_sfHumans, rc_sfFeed, rc_sfBiofuel, rc_scpHumans, rc_scpFeed, rc_scpBiofuel, rc_csHumans, rc_csFeed, rc_csBiofuel, rc_meatStart, rc_meatEnd, rc_meatEaten, rc_cropStorage, rc_cropConsumed, rc_cropHumans, rc_cropFeed, rc_cropBiofuel, rc_swWet, rc_swHumans, rc_swFeed, rc_swBiofuel, rc_usedArea, rc_consumedKcals]
    have h1 := mul_le_of_le_one_left (h.nonneg (.mv .csFeed m)) (hl m).2.1
    have h2 := mul_le_of_le_one_left (h.nonneg (.mv .csBiofuel m)) (hmu m).2.1
    linarith
  · -- feed, biofuel, percent fed, intake caps
    intro m hm
    obtain ⟨H1, H2, H3, H4, H5⟩ := h.general m hm
    refine ⟨?_, ?_, ?_, ?_, ?_⟩
    · intro hany
      obtain ⟨f1, f2⟩ := H1 hany
      constructor
      · show X (recharge i x lam mu) i.addStored .sfFeed m
            + X (recharge i x lam mu) i.addOutdoor .cropFeed m
            + X (recharge i x lam mu) i.addSeaweed .swFeed m * i.seaweedKcals
            + X (recharge i x lam mu) i.addCs .csFeed m
            + X (recharge i x lam mu) i.addScp .scpFeed m = at' feed' m
        rw [X_mul x _ _ .sfFeed m (lam m) rfl, X_mul x _ _ .cropFeed m (lam m) rfl,
          X_mul x _ _ .csFeed m (lam m) rfl, X_mul x _ _ .scpFeed m (lam m) rfl, ← (hl m).2.2, ← f1]
        unfold feedTotal X
        rw [hs]
        simp only [Bool.false_eq_true, if_false]
        ring
      · show X (recharge i x lam mu) i.addStored .sfBiofuel m
            + X (recharge i x lam mu) i.addOutdoor .cropBiofuel m
            + X (recharge i x lam mu) i.addSeaweed .swBiofuel m * i.seaweedKcals
            + X (recharge i x lam mu) i.addCs .csBiofuel m
            + X (recharge i x lam mu) i.addScp .scpBiofuel m = at' biofuel' m
        rw [X_mul x _ _ .sfBiofuel m (mu m) rfl, X_mul x _ _ .cropBiofuel m (mu m) rfl,
          X_mul x _ _ .csBiofuel m (mu m) rfl, X_mul x _ _ .scpBiofuel m (mu m) rfl,
          ← (hmu m).2.2, ← f2]
        unfold biofuelTotal X
        rw [hs]
        simp only [Bool.false_eq_true, if_false]
        ring
    · show x (.mv .consumedKcals m) + gain i x lam mu m / i.billionKcalsNeeded * 100 =
        (X (recharge i x lam mu) i.addStored .sfHumans m
          + X (recharge i x lam mu) i.addOutdoor .cropHumans m
          + X x i.addSeaweed .swHumans m * i.seaweedKcals + at' i.milk m + X x i.addMeat .meatEaten m
          + X x i.addCs .csHumans m + X x i.addScp .scpHumans m + at' i.greenhouse m + at' i.fish m)
          / i.billionKcalsNeeded * 100.0
      have e1 : X (recharge i x lam mu) i.addStored .sfHumans m =
          X x i.addStored .sfHumans m
            + (if i.addStored = true then freedStored x lam mu m * keep i.wStored else 0) := by
        unfold X
        split_ifs
        · rfl
        · ring
      have e2 : X (recharge i x lam mu) i.addOutdoor .cropHumans m =
          X x i.addOutdoor .cropHumans m
            + (if i.addOutdoor = true then freedCrops x lam mu m * keep i.wCrop else 0) := by
        unfold X
        split_ifs
        · rfl
        · ring
      rw [H2, e1, e2, sci_100]
      unfold humanTotal gain
      ring
    · intro hon
      have : i.addSeaweed = true := hon
      rw [hs] at this
      exact absurd this (by decide)
    · refine intake_of_le H4 rfl rfl rfl rfl (hcons m) hlim.1 hbkn.le ?_ ?_
      · intro hon
        have := mul_le_mul_of_nonneg_left (H4 hon).2.1 (hl m).1
        show lam m * x (.mv .scpFeed m) * 1 ≤ i.limScpF / 100.0 * at' feed' m
        rw [← (hl m).2.2]
        generalize (100.0 : K) = c100 at *
        linarith
      · intro hon
        have := mul_le_mul_of_nonneg_left (H4 hon).2.2 (hmu m).1
        show mu m * x (.mv .scpBiofuel m) * 1 ≤ i.limScpB / 100.0 * at' biofuel' m
        rw [← (hmu m).2.2]
        generalize (100.0 : K) = c100 at *
        linarith
    · refine intake_of_le H5 rfl rfl rfl rfl (hcons m) hlim.2 hbkn.le ?_ ?_
      · intro hon
        have := mul_le_mul_of_nonneg_left (H5 hon).2.1 (hl m).1
        show lam m * x (.mv .csFeed m) * 1 ≤ i.limCsF / 100.0 * at' feed' m
        rw [← (hl m).2.2]
        generalize (100.0 : K) = c100 at *
        linarith
      · intro hon
        have := mul_le_mul_of_nonneg_left (H5 hon).2.2 (hmu m).1
        show mu m * x (.mv .csBiofuel m) * 1 ≤ i.limCsB / 100.0 * at' biofuel' m
        rw [← (hmu m).2.2]
        generalize (100.0 : K) = c100 at *
        linarith
  · intro m hm
    exact le_trans (h.objective m hm) (hcons m)

end Mono

/-! ## why the monotonicity theorems ask for non-negative human intake limits -/

/-- SCP switched on with a *negative* human intake limit, nobody to feed (`pop = 0`) -/
def negLimitInst : Inp ℚ := { emptyInst with nmonths := 2, addScp := true, limScpH := -100 }

theorem negLimit_rows :
    (buildLP negLimitInst .toHumans).all (holdsB (fun _ => 0)) = true := by decide +kernel

/-- with a negative intake limit more milk makes the programme infeasible: the all-zero point is
    feasible before, nothing is feasible after (`Limit_Reduced_Population_HUMANS` forces the SCP
    eaten by people below `−percent fed`) -/
theorem limits_needed_counterexample :
    ∃ (i : Inp ℚ) (milk' : List ℚ) (x : Var → ℚ), SeriesLe i.milk milk' ∧
      0 < i.billionKcalsNeeded ∧ Feasible (buildLP i .toHumans) x ∧
      ¬ ∃ x', Feasible (buildLP { i with milk := milk' } .toHumans) x' := by
  refine ⟨negLimitInst, [1], fun _ => 0, ?_, by decide +kernel,
    ⟨rows_hold_of_all _ _ negLimit_rows, fun _ => le_rfl⟩, ?_⟩
  · intro m
    exact getD_nonneg [1] (by decide +kernel) m
  · rintro ⟨x', hx'⟩
    rw [feasible_toHumans_iff] at hx'
    obtain ⟨-, H2, -, H4, -⟩ := hx'.general 0 (by decide)
    have h4 := (H4 rfl).1.2
    have hs := hx'.nonneg (.mv .scpHumans 0)
    have hT : humanTotal { negLimitInst with milk := [1] } x' 0 = x' (.mv .scpHumans 0) + 1 := by
      simp [humanTotal, X, negLimitInst, emptyInst, at']
      ring
    rw [hT] at H2
    rw [H2] at h4
    norm_num [negLimitInst, emptyInst] at h4
    linarith

/-! ## lowering a retail waste percentage

The distribution-side wastes are applied before the LP is built and do not appear in `Inp`;
the retail wastes `wStored`, `wCrop`, `wSeaweed` (…) are the divisors `1 − w/100` of the gross-up.
With a lower waste people keep drawing the same gross amount and receive more. -/

section Waste

/-- the same gross draw at a lower waste: `(keep w'/keep w · v)/(1 − w'/100) = v/(1 − w/100)` -/
theorem grossUp_rescale {w w' : K} (hw' : w' ≤ w) (hw : w < 100) (v : K) :
    grossUp (keep w' / keep w * v) w' = grossUp v w := by
  have hk := (keep_pos hw).ne'
  have hk' := (keep_pos (lt_of_le_of_lt hw' hw)).ne'
  rw [grossUp_eq, grossUp_eq]
  show keep w' / keep w * v / keep w' = v / keep w
  rw [div_mul_eq_mul_div, div_div, mul_comm (keep w) (keep w'), ← div_div, mul_div_assoc,
    mul_div_cancel₀ _ hk']

/-- people receive `r` times as much stored food (the gross draw is unchanged); the month's percent fed
    rises by `g m` -/
def boostStored (x : Var → K) (r : K) (g : Nat → K) : Var → K
  | .mv .sfHumans m => r * x (.mv .sfHumans m)
  | .mv .consumedKcals m => x (.mv .consumedKcals m) + g m
  | v => x v

theorem mono_wasteStored (i : Inp K) (w' : K) (hw' : w' ≤ i.wStored) (hw : i.wStored < 100)
    (hb : 0 ≤ i.billionKcalsNeeded) (hlim : 0 ≤ i.limSwH ∧ 0 ≤ i.limScpH ∧ 0 ≤ i.limCsH)
    (x : Var → K) (h : Feasible (buildLP i .toHumans) x) :
    ∃ x', Feasible (buildLP { i with wStored := w' } .toHumans) x' ∧ x .objective ≤ x' .objective := by
  rw [feasible_toHumans_iff] at h
  by_cases hon : i.addStored = true
  swap
  · refine ⟨x, feasible_toHumans_iff.mpr ?_, le_rfl⟩
    exact ⟨h.nonneg, h.seaweed, h.crops, fun hon' => absurd hon' hon, h.meat, h.scp, h.cs,
      h.general, h.objective⟩
  have hk := keep_pos hw
  have hk' : 0 < keep w' := keep_pos (lt_of_le_of_lt hw' hw)
  have hr : 1 ≤ keep w' / keep i.wStored := by
    rw [le_div_iff₀ hk, one_mul]
    unfold keep
    have : w' / 100 ≤ i.wStored / 100 := div_le_div_of_nonneg_right hw' (by norm_num)
    linarith
  let r : K := keep w' / keep i.wStored
  let g : Nat → K := fun m => (r - 1) * x (.mv .sfHumans m) / i.billionKcalsNeeded * 100
  have hg : ∀ m, 0 ≤ g m := fun m =>
    mul_nonneg (div_nonneg (mul_nonneg (sub_nonneg.mpr hr) (h.nonneg _)) hb) (by norm_num)
  have hcons : ∀ m, x (.mv .consumedKcals m) ≤ boostStored x r g (.mv .consumedKcals m) :=
    fun m => le_add_of_nonneg_right (hg m)
  have hgross : ∀ m, grossUp (r * x (.mv .sfHumans m)) w' = grossUp (x (.mv .sfHumans m)) i.wStored :=
    fun m => grossUp_rescale hw' hw _
  refine ⟨boostStored x r g, feasible_toHumans_iff.mpr ?_, le_rfl⟩
  refine ⟨?_, h.seaweed, h.crops, ?_, h.meat, h.scp, h.cs, ?_, ?_⟩
  · intro v
    cases v with
    | mv k m =>
      cases k <;> first
        | exact h.nonneg _
        | exact mul_nonneg (le_trans zero_le_one hr) (h.nonneg _)
        | exact add_nonneg (h.nonneg _) (hg m)
    | objective => exact h.nonneg _
    | objectiveBest => exact h.nonneg _
  · -- the stored-food ledger: the same gross amount is drawn
    intro _ m hm
    have H := h.stored hon m hm
    have hE : ∀ k, StoredEatenEq i x k → StoredEatenEq { i with wStored := w' } (boostStored x r g) k := by
      intro k hk
      unfold StoredEatenEq at hk ⊢
      show x (.mv .sfEnd k) = x (.mv .sfStart k) - grossUp (r * x (.mv .sfHumans k)) w'
        - x (.mv .sfFeed k) - x (.mv .sfBiofuel k)
      rw [hgross, hk]
    unfold StoredSpec at H ⊢
    cases hsb : i.storeBetweenYears
    · rw [hsb] at H
      simp only [Bool.false_eq_true, if_false] at H
      show if false = true then _ else _
      simp only [Bool.false_eq_true, if_false]
      split_ifs at H ⊢
      · exact ⟨H.1, hE 0 H.2⟩
      · obtain ⟨e1, e2, e3, e4⟩ := H
        refine ⟨?_, e2, e3, e4⟩
        show r * x (.mv .sfHumans m) = 0
        rw [e1, mul_zero]
      · exact ⟨hE m H.1, H.2⟩
    · rw [hsb] at H
      simp only [if_true] at H
      show if true = true then _ else _
      simp only [if_true]
      exact ⟨H.1, hE m H.2⟩
  · intro m hm
    obtain ⟨H1, H2, H3, H4, H5⟩ := h.general m hm
    refine ⟨H1, ?_, ?_, ?_, ?_⟩
    · show x (.mv .consumedKcals m) + (r - 1) * x (.mv .sfHumans m) / i.billionKcalsNeeded * 100 =
        ((if i.addStored = true then r * x (.mv .sfHumans m) else 0)
          + X x i.addOutdoor .cropHumans m
          + X x i.addSeaweed .swHumans m * i.seaweedKcals + at' i.milk m + X x i.addMeat .meatEaten m
          + X x i.addCs .csHumans m + X x i.addScp .scpHumans m + at' i.greenhouse m + at' i.fish m)
          / i.billionKcalsNeeded * 100.0
      have hX : X x i.addStored .sfHumans m = x (.mv .sfHumans m) := by
        unfold X; rw [hon]; rfl
      rw [H2, hon, sci_100]
      unfold humanTotal
      rw [hX]
      simp only [if_true]
      ring
    · exact intake_of_consumed_le H3 rfl rfl rfl rfl rfl rfl rfl rfl (hcons m) hlim.1 hb
    · exact intake_of_consumed_le H4 rfl rfl rfl rfl rfl rfl rfl rfl (hcons m) hlim.2.1 hb
    · exact intake_of_consumed_le H5 rfl rfl rfl rfl rfl rfl rfl rfl (hcons m) hlim.2.2 hb
  · intro m hm
    exact le_trans (h.objective m hm) (hcons m)

/-- people receive `r` times as much crops (the gross draw is unchanged); the month's percent fed
    rises by `g m` -/
def boostCrops (x : Var → K) (r : K) (g : Nat → K) : Var → K
  | .mv .cropHumans m => r * x (.mv .cropHumans m)
  | .mv .consumedKcals m => x (.mv .consumedKcals m) + g m
  | v => x v

theorem mono_wasteCrop (i : Inp K) (w' : K) (hw' : w' ≤ i.wCrop) (hw : i.wCrop < 100)
    (hb : 0 ≤ i.billionKcalsNeeded) (hlim : 0 ≤ i.limSwH ∧ 0 ≤ i.limScpH ∧ 0 ≤ i.limCsH)
    (x : Var → K) (h : Feasible (buildLP i .toHumans) x) :
    ∃ x', Feasible (buildLP { i with wCrop := w' } .toHumans) x' ∧ x .objective ≤ x' .objective := by
  rw [feasible_toHumans_iff] at h
  by_cases hon : i.addOutdoor = true
  swap
  · refine ⟨x, feasible_toHumans_iff.mpr ?_, le_rfl⟩
    exact ⟨h.nonneg, h.seaweed, fun hon' => absurd hon' hon, h.stored, h.meat, h.scp, h.cs,
      h.general, h.objective⟩
  have hk := keep_pos hw
  have hk' : 0 < keep w' := keep_pos (lt_of_le_of_lt hw' hw)
  have hr : 1 ≤ keep w' / keep i.wCrop := by
    rw [le_div_iff₀ hk, one_mul]
    unfold keep
    have : w' / 100 ≤ i.wCrop / 100 := div_le_div_of_nonneg_right hw' (by norm_num)
    linarith
  let r : K := keep w' / keep i.wCrop
  let g : Nat → K := fun m => (r - 1) * x (.mv .cropHumans m) / i.billionKcalsNeeded * 100
  have hg : ∀ m, 0 ≤ g m := fun m =>
    mul_nonneg (div_nonneg (mul_nonneg (sub_nonneg.mpr hr) (h.nonneg _)) hb) (by norm_num)
  have hcons : ∀ m, x (.mv .consumedKcals m) ≤ boostCrops x r g (.mv .consumedKcals m) :=
    fun m => le_add_of_nonneg_right (hg m)
  have hgross : ∀ m, grossUp (r * x (.mv .cropHumans m)) w' = grossUp (x (.mv .cropHumans m)) i.wCrop :=
    fun m => grossUp_rescale hw' hw _
  refine ⟨boostCrops x r g, feasible_toHumans_iff.mpr ?_, le_rfl⟩
  refine ⟨?_, h.seaweed, ?_, h.stored, h.meat, h.scp, h.cs, ?_, ?_⟩
  · intro v
    cases v with
    | mv k m =>
      cases k <;> first
        | exact h.nonneg _
        | exact mul_nonneg (le_trans zero_le_one hr) (h.nonneg _)
        | exact add_nonneg (h.nonneg _) (hg m)
    | objective => exact h.nonneg _
    | objectiveBest => exact h.nonneg _
  · -- the crop ledger: the same gross amount is consumed
    intro _ m hm
    obtain ⟨H1, H2⟩ := h.crops hon m hm
    refine ⟨?_, H2⟩
    show x (.mv .cropConsumed m) = grossUp (r * x (.mv .cropHumans m)) w'
      + x (.mv .cropBiofuel m) + x (.mv .cropFeed m)
    rw [hgross, H1]
  · intro m hm
    obtain ⟨H1, H2, H3, H4, H5⟩ := h.general m hm
    refine ⟨H1, ?_, ?_, ?_, ?_⟩
    · show x (.mv .consumedKcals m) + (r - 1) * x (.mv .cropHumans m) / i.billionKcalsNeeded * 100 =
        (X x i.addStored .sfHumans m
          + (if i.addOutdoor = true then r * x (.mv .cropHumans m) else 0)
          + X x i.addSeaweed .swHumans m * i.seaweedKcals + at' i.milk m + X x i.addMeat .meatEaten m
          + X x i.addCs .csHumans m + X x i.addScp .scpHumans m + at' i.greenhouse m + at' i.fish m)
          / i.billionKcalsNeeded * 100.0
      have hX : X x i.addOutdoor .cropHumans m = x (.mv .cropHumans m) := by
        unfold X; rw [hon]; rfl
      rw [H2, hon, sci_100]
      unfold humanTotal
      rw [hX]
      simp only [if_true]
      ring
    · exact intake_of_consumed_le H3 rfl rfl rfl rfl rfl rfl rfl rfl (hcons m) hlim.1 hb
    · exact intake_of_consumed_le H4 rfl rfl rfl rfl rfl rfl rfl rfl (hcons m) hlim.2.1 hb
    · exact intake_of_consumed_le H5 rfl rfl rfl rfl rfl rfl rfl rfl (hcons m) hlim.2.2 hb
  · intro m hm
    exact le_trans (h.objective m hm) (hcons m)

/-! ### seaweed: the human intake caps stand in the way -/

/-- people receive `r` times as much seaweed (the gross harvest is unchanged) -/
def boostSeaweed (x : Var → K) (r : K) (g : Nat → K) : Var → K
  | .mv .swHumans m => r * x (.mv .swHumans m)
  | .mv .consumedKcals m => x (.mv .consumedKcals m) + g m
  | v => x v

/-- lowering the retail waste of seaweed, *provided* the larger amount people then receive still
    respects seaweed's two human intake caps (`hcaps`); without that proviso the statement is false:
    `mono_wasteSeaweed_counterexample` -/
theorem mono_wasteSeaweed_partial (i : Inp K) (w' : K) (hw' : w' ≤ i.wSeaweed) (hw : i.wSeaweed < 100)
    (hb : 0 ≤ i.billionKcalsNeeded) (hkc : 0 ≤ i.seaweedKcals)
    (hlim : 0 ≤ i.limScpH ∧ 0 ≤ i.limCsH)
    (x : Var → K) (h : Feasible (buildLP i .toHumans) x)
    (hcaps : i.addSeaweed = true → ∀ m, m < i.nmonths →
      (1 - w' / 100) / (1 - i.wSeaweed / 100) * x (.mv .swHumans m) * i.seaweedKcals
        ≤ i.limSwH / 100.0 * (i.pop * i.kcalsMonthly / 1e9) ∧
      (1 - w' / 100) / (1 - i.wSeaweed / 100) * x (.mv .swHumans m) * i.seaweedKcals
        ≤ i.limSwH / 100.0 *
          ((x (.mv .consumedKcals m)
            + ((1 - w' / 100) / (1 - i.wSeaweed / 100) - 1) * x (.mv .swHumans m) * i.seaweedKcals
                / i.billionKcalsNeeded * 100) * i.billionKcalsNeeded / 100.0)) :
    ∃ x', Feasible (buildLP { i with wSeaweed := w' } .toHumans) x' ∧ x .objective ≤ x' .objective := by
  rw [feasible_toHumans_iff] at h
  by_cases hon : i.addSeaweed = true
  swap
  · refine ⟨x, feasible_toHumans_iff.mpr ?_, le_rfl⟩
    refine ⟨h.nonneg, fun hon' => absurd hon' hon, h.crops, h.stored, h.meat, h.scp, h.cs, ?_,
      h.objective⟩
    intro m hm
    obtain ⟨H1, H2, H3, H4, H5⟩ := h.general m hm
    exact ⟨H1, H2, fun hon' => absurd hon' hon, H4, H5⟩
  have hk := keep_pos hw
  have hr : 1 ≤ keep w' / keep i.wSeaweed := by
    rw [le_div_iff₀ hk, one_mul]
    unfold keep
    have : w' / 100 ≤ i.wSeaweed / 100 := div_le_div_of_nonneg_right hw' (by norm_num)
    linarith
  let r : K := keep w' / keep i.wSeaweed
  let g : Nat → K := fun m =>
    (r - 1) * x (.mv .swHumans m) * i.seaweedKcals / i.billionKcalsNeeded * 100
  have hg : ∀ m, 0 ≤ g m := fun m =>
    mul_nonneg (div_nonneg (mul_nonneg (mul_nonneg (sub_nonneg.mpr hr) (h.nonneg _)) hkc) hb)
      (by norm_num)
  have hcons : ∀ m, x (.mv .consumedKcals m) ≤ boostSeaweed x r g (.mv .consumedKcals m) :=
    fun m => le_add_of_nonneg_right (hg m)
  have hgross : ∀ m, grossUp (r * x (.mv .swHumans m)) w' = grossUp (x (.mv .swHumans m)) i.wSeaweed :=
    fun m => grossUp_rescale hw' hw _
  refine ⟨boostSeaweed x r g, feasible_toHumans_iff.mpr ?_, le_rfl⟩
  refine ⟨?_, ?_, h.crops, h.stored, h.meat, h.scp, h.cs, ?_, ?_⟩
  · intro v
    cases v with
    | mv k m =>
      cases k <;> first
        | exact h.nonneg _
        | exact mul_nonneg (le_trans zero_le_one hr) (h.nonneg _)
        | exact add_nonneg (h.nonneg _) (hg m)
    | objective => exact h.nonneg _
    | objectiveBest => exact h.nonneg _
  · -- the seaweed ledger: the same gross harvest
    intro _ m hm
    obtain ⟨hbd, hl⟩ := h.seaweed hon m hm
    refine ⟨hbd, ?_⟩
    by_cases hm0 : m = 0
    · subst hm0
      simp only [if_true] at hl ⊢
      obtain ⟨e1, e2, e3, e4, e5⟩ := hl
      refine ⟨e1, e2, ?_, e4, e5⟩
      show r * x (.mv .swHumans 0) = 0
      rw [e3, mul_zero]
    · simp only [hm0, if_false] at hl ⊢
      show x (.mv .swWet m) =
        x (.mv .swWet (m - 1)) * (1 + at' i.growth m / 100.0)
          - grossUp (r * x (.mv .swHumans m)) w' - x (.mv .swFeed m) - x (.mv .swBiofuel m)
          - (x (.mv .usedArea m) - x (.mv .usedArea (m - 1))) * i.minDensity * (i.harvestLoss / 100.0)
      rw [hgross, hl]
      rfl
  · intro m hm
    obtain ⟨H1, H2, H3, H4, H5⟩ := h.general m hm
    refine ⟨H1, ?_, ?_, ?_, ?_⟩
    · show x (.mv .consumedKcals m)
          + (r - 1) * x (.mv .swHumans m) * i.seaweedKcals / i.billionKcalsNeeded * 100 =
        (X x i.addStored .sfHumans m + X x i.addOutdoor .cropHumans m
          + (if i.addSeaweed = true then r * x (.mv .swHumans m) else 0) * i.seaweedKcals
          + at' i.milk m + X x i.addMeat .meatEaten m
          + X x i.addCs .csHumans m + X x i.addScp .scpHumans m + at' i.greenhouse m + at' i.fish m)
          / i.billionKcalsNeeded * 100.0
      have hX : X x i.addSeaweed .swHumans m = x (.mv .swHumans m) := by
        unfold X; rw [hon]; rfl
      rw [H2, hon, sci_100]
      unfold humanTotal
      rw [hX]
      simp only [if_true]
      ring
    · intro _
      obtain ⟨c1, c2⟩ := hcaps hon m hm
      exact ⟨⟨c1, c2⟩, (H3 hon).2.1, (H3 hon).2.2⟩
    · exact intake_of_consumed_le H4 rfl rfl rfl rfl rfl rfl rfl rfl (hcons m) hlim.1 hb
    · exact intake_of_consumed_le H5 rfl rfl rfl rfl rfl rfl rfl rfl (hcons m) hlim.2 hb
  · intro m hm
    exact le_trans (h.objective m hm) (hcons m)

/-- 1 t of seaweed on 1 km² at the density ceiling, doubling in month 1, half of the harvest wasted
    at retail; people may eat at most 0.5 (100 % of a need of 0.5) -/
def swCapInst : Inp ℚ :=
  { emptyInst with nmonths := 2, addSeaweed := true, pop := 1, kcalsMonthly := 500000000,
                   seaweedKcals := 1, initialSeaweed := 1, maxDensity := 1, initialBuiltArea := 1,
                   builtArea := [1, 1], growth := [0, 100], limSwH := 100, wSeaweed := 50 }

/-- harvest 1 t in month 1; after waste people eat 0.5 -/
def swCapX : Var → ℚ
  | .mv .swWet m => [1, 1].getD m 0
  | .mv .usedArea m => [1, 1].getD m 0
  | .mv .swHumans m => [0, 1 / 2].getD m 0
  | .mv .consumedKcals m => [0, 1 / 2].getD m 0
  | _ => 0

theorem swCapX_rows : (buildLP swCapInst .toHumans).all (holdsB swCapX) = true := by decide +kernel

theorem swCapX_nonneg : ∀ v, 0 ≤ swCapX v := by
  intro v
  cases v with
  | mv k m =>
    cases k <;> first
      | exact le_rfl
      | exact getD_nonneg _ (by decide +kernel) m
  | objective => exact le_rfl
  | objectiveBest => exact le_rfl

/-- lowering seaweed's retail waste can make the human round infeasible: the month-1 harvest of
    1 t is compulsory (density ceiling), at 50 % waste people receive 0.5 — exactly their intake
    cap; with no waste they would have to eat 1 -/
theorem mono_wasteSeaweed_counterexample :
    ∃ (i : Inp ℚ) (w' : ℚ) (x : Var → ℚ), 0 ≤ w' ∧ w' ≤ i.wSeaweed ∧ i.wSeaweed < 100 ∧
      0 < i.billionKcalsNeeded ∧ (0 ≤ i.limSwH ∧ 0 ≤ i.limScpH ∧ 0 ≤ i.limCsH) ∧
      0 ≤ i.seaweedKcals ∧ Feasible (buildLP i .toHumans) x ∧
      ¬ ∃ x', Feasible (buildLP { i with wSeaweed := w' } .toHumans) x' := by
  refine ⟨swCapInst, 0, swCapX, le_rfl, by decide +kernel, by decide +kernel, by decide +kernel,
    ⟨by decide +kernel, by decide +kernel, by decide +kernel⟩, by decide +kernel,
    ⟨rows_hold_of_all _ _ swCapX_rows, swCapX_nonneg⟩, ?_⟩
  rintro ⟨x, hx⟩
  have hs := feasible_toHumans_iff.mp hx
  have s1 := hs.seaweed rfl 1 (by decide)
  have s0 := hs.seaweed rfl 0 (by decide)
  have hle := s1.1.2.1
  have hl := s1.2
  have hl0 := s0.2
  rw [if_neg (by decide)] at hl
  rw [if_pos rfl] at hl0
  have w0 : x (.mv .swWet 0) = 1 := hl0.1
  obtain ⟨-, -, hint, -, -⟩ := hs.general 1 (by decide)
  obtain ⟨⟨c1, -⟩, sF, sB⟩ := hint rfl
  have nF := hs.nonneg (.mv .swFeed 1)
  have nB := hs.nonneg (.mv .swBiofuel 1)
  unfold seaweedLedger grossUp at hl
  norm_num [swCapInst, emptyInst, at', w0] at hl hle c1 sF sB
  linarith

end Waste

end Allfed.Proofs.Perturb
