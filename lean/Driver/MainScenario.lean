import Driver.Loop
import Driver.Ops.Scenario
def main : IO Unit := runDriver Ops.Scenario.ops
