/-
Generic number layer.  Every executable model is written once over a type `α`
that carries only the operations the Python code uses; it is read at `Float`
by the driver and at an arbitrary linearly ordered field by the theorems.
No Mathlib import here (or in any `Model/*` file).
-/
namespace Allfed

/-- Python's `min(a, b)`: returns `b` only if `b < a`. -/
@[inline] def pmin {α : Type} [LT α] [DecidableLT α] (a b : α) : α := if b < a then b else a
/-- Python's `max(a, b)`: returns `b` only if `a < b`. -/
@[inline] def pmax {α : Type} [LT α] [DecidableLT α] (a b : α) : α := if a < b then b else a

/-- left-to-right sum, the order Python's `sum` uses. -/
def lsum {α : Type} [Add α] [OfNat α 0] (l : List α) : α := l.foldl (· + ·) 0

/-- right-nested sum, convenient for induction; equal to `lsum` in a commutative monoid. -/
def rsum {α : Type} [Add α] [OfNat α 0] : List α → α
  | [] => 0
  | x :: t => x + rsum t

def zipWith3 {α β γ δ : Type} (f : α → β → γ → δ) : List α → List β → List γ → List δ
  | a :: as, b :: bs, c :: cs => f a b c :: zipWith3 f as bs cs
  | _, _, _ => []

/-! Python's `sub in s` on strings, by structural recursion on characters (reduces in the kernel) -/
def isPrefixChars : List Char → List Char → Bool
  | [], _ => true
  | _ :: _, [] => false
  | a :: as, b :: bs => a == b && isPrefixChars as bs

def containsChars (sub : List Char) : List Char → Bool
  | [] => sub.isEmpty
  | c :: t => isPrefixChars sub (c :: t) || containsChars sub t

/-- `sub in s` -/
def strContains (s sub : String) : Bool := containsChars sub.toList s.toList

end Allfed
