import Driver.Loop
import Driver.Ops.Units
def main : IO Unit := runDriver Ops.Units.ops
