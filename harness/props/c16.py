"""C16 - every country completes under every documented preset (DESIGN.md §7 C16)."""
import ast, copy, json, os, math
from concurrent.futures import ProcessPoolExecutor
from lib import pipeline, validators

ID = "C16"
LEVEL = "other"
DRIVER = "driver_validators"   # the executable model of validate_results.py (lib/validators.py); the grid itself needs no driver
LEAN_MODULES = ["AllfedModel.Props.C16", "AllfedModel.Props.C16Chain"]
OBLIGATIONS = ["Allfed.C16." + n for n in ["zero_charge_feasible_no_seaweed", "objective_bounded", "round2_feasible_of_round1",
                                            "round2_seaweed_pin_infeasible_before_fix",
                                            # the chain C18 -> C16: the hand-off's minimum consumption satisfies the hypothesis of round2_feasible_of_round1
                                            "pinsWithin_of_handoff", "round2_feasible_after_handoff", "round2_feasible_after_handoff_dailyMax"]]
# the built-in validators (validate_results.py) as consequences of C01/C03/C04/C18 for exact solutions, or proved counter-examples
# where a validator is a heuristic relation between rounds / uses its tolerance in a way an exact solution can violate (notes/C16-validators.md)
OBLIGATIONS += ["Allfed.C16.validator_" + n for n in [
    "all_ge_zero_of_feasible", "never_nan", "zero_kcals_excluded", "zero_kcals_linear",
    "optimizer_same_as_sum_of_feasible", "optimizer_same_as_sum_counterexample", "optimizer_same_as_sum_feasible_counterexample",
    "check_row_iff_rowExcess", "check_constraints_of_feasible", "check_constraints_zero_tolerance_counterexample",
    "population_of_antitone", "population_counterexample", "round2_greater_of_ge", "round2_greater_counterexample",
    "meat_dairy_of_redistribute", "min_consumption_sum_of_handoff", "min_consumption_sum_counterexample",
    "usage_priorities_of_handoff", "used_below_demand_human_round", "used_below_demand_feed_round",
    "fewer_calories_of_le", "feed_round3_below_round2_of_le", "feed_round3_below_round2_zero_eps_counterexample",
    "round3_not_lower_never_raises", "feed_zero_if_starving_never_raises", "round_relations_counterexample"]]
LEVEL_TEXT = ("other / partial. A finite grid of concrete executions of the real pipeline and solver (164 countries x the enumerated presets): each run must complete, pass the model's own "
              "validators and report a finite, non-negative percent fed. Lean adds, for all inputs: the zero-charge rounds' LP (no seaweed) has a feasible point and a bounded objective, and the "
              "feed-maximising round has a feasible point whenever the human-maximising round before it had one and the pinned minimum consumption lies within what that round ate "
              "(round2_feasible_of_round1; false for the formulation before the seaweed-pin repair: round2_seaweed_pin_infeasible_before_fix), so a failure there can only be numerical; and an executable model of the "
              "built-in validators (validate_results.py), run against the real Validator on generated and captured inputs every check, with theorems validator_*: each validator the pipeline can fail on is implied by "
              "C01/C03/C04/C18 for exact solutions and every tolerance >= 0 (headline check: for optima <= 10000 %), the heuristic relations between rounds are not (proved counter-examples). Completion of a CBC solve is runtime "
              "behaviour no model can exhibit; the quick tier runs a seeded rotating subset, the thorough tier the whole grid.")
LEVEL_NOTE = ("Trusted: the harness running the real ScenarioRunner in worker processes from a scratch copy; presets are read from the shipped YAML files and from the AST of plot_manuscript_figures.py. "
              "A theorem cannot decide this property (solver completion): it is decided by executing the grid; quick = subset.")
TECHNIQUE = ("grid execution of the real pipeline (decides the property) + Lean 4 feasibility theorems for the zero-charge round and for round 2 after round 1 "
             "+ Lean 4 model of the built-in validators (differential correspondence with the real Validator) with theorems deriving them from C01/C03/C04/C18")
RULE = ("grid = countries of the shipped table x presets {simulations of the three shipped YAML files; the option sets built by plot_manuscript_figures.py (figure 1: ten sets, figure 2: two); "
        "single-option variations of the nuclear-winter/resilient-foods preset, one per value of each option family}; quick = seeded sample; a case = one full three-round run; "
        "non-trivial = the run reached the optimiser; distinct = (country, preset)")
EXPLANATION = ("Executes the real pipeline for (country, preset) pairs and records exceptions, validator failures and non-finite or negative results. "
               "Known failing pairs are listed in known_findings.json keyed by (country, preset family).")
ASSUMPTIONS = ["world aggregate (scale=global) is run in the thorough tier only", "the code's own alter_scenario_if_known_to_fail rewrites are part of the behaviour under test",
               "validator theorems: fat and protein switched off (as in buildLP and every documented option set); tolerances >= 0 (check_constraints and feed-round3-vs-round2: > 0); "
               "headline check: optimum <= 10000 %; minimum-consumption sum: min(p1, T) <= 100; exact arithmetic (a CBC answer is feasible only up to its own tolerances, which is what the validators' tolerances are for)"]


CORPUS = [("CMR", "variation:shutoff=continued_after_10_percent_fed"), ("CMR", "variation:shutoff=long_delayed_shutoff_after_10_percent_fed"),
          ("ECU", "variation:intake_constraints=disabled_for_humans"), ("ECU", "variation:shutoff=continued_after_10_percent_fed"),
          ("ECU", "variation:shutoff=long_delayed_shutoff_after_10_percent_fed"), ("SLV", "variation:shutoff=continued_after_10_percent_fed"),
          ("SLV", "variation:shutoff=long_delayed_shutoff_after_10_percent_fed"), ("SLV", "variation:shutoff=one_month_delayed_shutoff"),
          # the rarely taken path "round 2 abandoned: meat with feed is lower than without" (33 of the 8528 pairs of the grid, 26 of them Lesotho)
          ("LSO", "yaml:eu_countries.yaml:net_nuclear_winter_reduced"), ("LSO", "yaml:argentina.yaml:argentina_net_nuclear_resilient"),
          ("MUS", "manuscript:recalculate_plot_1:1"), ("KEN", "variation:shutoff=one_month_delayed_shutoff"), ("PAK", "variation:shutoff=one_month_delayed_shutoff")]


FINGERPRINTS = os.path.join(os.path.dirname(os.path.dirname(os.path.abspath(__file__))), "data", "preset_fingerprints.json")


def fingerprint(p):
    return json.dumps({"options": {k: p[1][k] for k in sorted(p[1])}, "countries": list(p[2])}, sort_keys=True, default=str)


def changed_presets(ctx, presets):
    try:
        base = json.load(open(FINGERPRINTS))
    except Exception:
        ctx.count("preset-fingerprints-missing")
        return []
    return [p for p in presets if base.get(p[0]) != fingerprint(p)]


def yaml_presets(repo):
    import yaml
    out = []
    for fn in ("argentina.yaml", "baseline_USA.yaml", "eu_countries.yaml"):
        y = yaml.safe_load(open(os.path.join(repo, "scenarios", fn)))
        settings = y.get("settings", {})
        countries = settings.get("countries", "")
        countries = [c.strip() for c in countries.split(",")] if isinstance(countries, str) else list(countries or [])
        for name, sim in (y.get("simulations") or {}).items():
            o = {k: v for k, v in sim.items() if k != "title"}
            o["NMONTHS"] = settings.get("NMONTHS", 120)
            out.append(("yaml:%s:%s" % (fn, name), o, countries))
    return out


def manuscript_presets(repo):
    """evaluate recalculate_plot_1/2's option dictionaries by interpreting their straight-line assignments"""
    src = open(os.path.join(repo, "plot_manuscript_figures.py")).read()
    tree = ast.parse(src)
    flags = {}
    for n in tree.body:
        if isinstance(n, ast.Assign) and isinstance(n.targets[0], ast.Name) and n.targets[0].id.startswith("RUN_FIGURE"):
            flags[n.targets[0].id] = ast.literal_eval(n.value)
    presets = []
    for fn in tree.body:
        if not (isinstance(fn, ast.FunctionDef) and fn.name in ("recalculate_plot_1", "recalculate_plot_2")):
            continue
        sim = {}

        def run_block(stmts):
            for st in stmts:
                if isinstance(st, ast.Assign) and isinstance(st.targets[0], ast.Subscript) and getattr(st.targets[0].value, "id", None) == "this_simulation":
                    try:
                        sim[ast.literal_eval(st.targets[0].slice)] = ast.literal_eval(st.value)
                    except Exception:
                        pass
                elif isinstance(st, ast.If):
                    try:
                        cond = eval(compile(ast.Expression(st.test), "<c>", "eval"), {}, dict(flags))
                    except Exception:
                        cond = False
                    run_block(st.body if cond else st.orelse)
                elif isinstance(st, (ast.Assign, ast.Expr)):
                    call = st.value if isinstance(st, ast.Assign) else st.value
                    if isinstance(call, ast.Call) and getattr(call.func, "id", "") == "call_scenario_runner_and_set_options":
                        o = dict(sim)
                        # what call_scenario_runner_and_set_options adds
                        if flags.get("RUN_FIGURE_1_AND_3_WITH_BASELINE_CLIMATE"):
                            o.update(crop_disruption="zero", grasses="baseline", fish="baseline")
                        else:
                            o.update(crop_disruption="country_nuclear_winter", grasses="country_nuclear_winter", fish="nuclear_winter")
                        o.update(scale="country", NMONTHS=120, intake_constraints="enabled", nutrition="catastrophe", fat="not_required", protein="not_required")
                        presets.append(("manuscript:%s:%d" % (fn.name, len(presets)), o, []))
        run_block(fn.body)
    return presets


def variation_presets():
    base = dict(pipeline.BASE_OPTIONS)
    fam = dict(
        shutoff=["immediate", "one_month_delayed_shutoff", "short_delayed_shutoff", "long_delayed_shutoff", "continued", "continued_after_10_percent_fed",
                 "long_delayed_shutoff_after_10_percent_fed"],
        ratio_stocks_untouched=["zero", "baseline", "no_stored_between_years", "baseline_no_stored_between_years"],
        waste=["zero", "baseline_in_country", "doubled_prices_in_country", "tripled_prices_in_country"],
        scenario=["all_resilient_foods", "all_resilient_foods_and_more_area", "no_resilient_foods", "seaweed", "methane_scp", "cellulosic_sugar", "relocated_crops",
                  "greenhouse", "industrial_foods"],
        meat_strategy=["reduce_breeding", "baseline_breeding", "feed_only_ruminants"],
        cull=["do_eat_culled", "dont_eat_culled"], stored_food=["baseline", "zero"], intake_constraints=["enabled", "disabled_for_humans"],
        nutrition=["baseline", "catastrophe"])
    out = []
    for k, vals in fam.items():
        for v in vals:
            if base.get(k) == v:
                continue
            o = dict(base)
            o[k] = v
            out.append(("variation:%s=%s" % (k, v), o, []))
    out.append(("variation:base", dict(base), []))
    return out


def _worker(args):
    repo, iso, name, opts = args
    import os, sys
    sys.path.insert(0, os.path.join(os.environ["VERIF_ROOT"], "harness"))
    from lib import scratch as _s, pipeline as _p
    import warnings
    warnings.filterwarnings("ignore")
    if os.getcwd() != repo:
        _s.enter(repo)
    run = _p.run_scenario(iso, opts, title="c16_%d" % os.getpid())
    pf = None
    if run.result is not None:
        pf = float(run.result.percent_people_fed)
    return dict(iso=iso, preset=name, error=run.error, percent_fed=pf, solves=len(run.solves), wall=run.wall,
                trace=getattr(run, "trace", "")[-600:] if run.error else "")


def grid(ctx):
    presets = yaml_presets(ctx.repo) + manuscript_presets(ctx.repo) + variation_presets()
    ctx.extra["presets_total"] = len(presets)
    ctx.extra["preset_names"] = [p[0] for p in presets]
    isos = sorted(pipeline.country_rows())
    jobs = []
    if ctx.quick:
        # change-directed: a preset whose option set differs from the one the whole grid was last run with (harness/data/preset_fingerprints.json,
        # written by `harness/props/c16.py --write-fingerprints` after a thorough run) is run for EVERY country
        changed = changed_presets(ctx, presets)
        ctx.extra["presets_changed_since_last_full_grid"] = [p[0] for p in changed]
        for p in changed[:4]:
            for iso in isos:
                jobs.append((iso, p[0], p[1]))
        # regression corpus first: the (country, preset) pairs that did not complete before the seaweed-pin repair (DESIGN.md §13.4 D16)
        byname = {p[0]: p for p in presets}
        for iso, name in CORPUS:
            if name in byname and iso in isos:
                jobs.append((iso, name, byname[name][1]))
        # the designated countries of each YAML file's first simulation, then a seeded rotating sample
        seen = set()
        for name, o, countries in presets:
            if name.startswith("yaml:") and countries and name.split(":")[1] not in seen:
                seen.add(name.split(":")[1])
                jobs.append((countries[0], name, o))
        # single-option variations of the SHIPPED simulations themselves: the horizon (a `settings` value of the YAML files), for their designated country
        for name, o, countries in presets:
            if name.startswith("yaml:") and countries:
                for nm_ in (48, 84):
                    jobs.append((countries[0], "%s+NMONTHS=%d" % (name, nm_), dict(o, NMONTHS=nm_)))
        ms = [p for p in presets if p[0].startswith("manuscript:")]
        for p in ctx.rng.sample(ms, min(3, len(ms))):
            jobs.append((ctx.rng.choice(isos), p[0], p[1]))
        # countries at the extremes of the input table (zero cropland, no grass, no stocks, smallest/largest population, …):
        # the rows most likely to hit a rarely taken branch; each under the resilient-foods and the simple-adaptations presets
        rows = pipeline.country_rows()
        cols = ["population", "crop_kcals", "crop_area_1000ha", "grasses_baseline", "grasses_reduction_year3", "crop_reduction_year3", "aq_kcals", "dairy_cows",
                "stocks_kcals_may", "feed_kcals", "biofuel_kcals", "max_area_fraction", "wood_pulp_tonnes", "large_animals", "medium_animals", "small_animals"]
        extreme = []
        for c in cols:
            vals = [(float(rows[i][c]), i) for i in isos if c in rows[i]]
            if vals:
                extreme += [min(vals)[1], max(vals)[1]]
        # ... and of the same columns per head of population (pastoral countries, exporters, fishing nations)
        for c in cols[1:]:
            vals = [(float(rows[i][c]) / max(1.0, float(rows[i]["population"])), i) for i in isos if c in rows[i]]
            if vals:
                extreme += [min(vals)[1], max(vals)[1]]
        extreme = sorted(set(extreme))
        ctx.extra["extreme_countries"] = extreme
        stress = [p for p in presets if p[0] in ("manuscript:recalculate_plot_1:1", "manuscript:recalculate_plot_1:4", "manuscript:recalculate_plot_1:9")]
        for iso in extreme:
            for p in stress:
                jobs.append((iso, p[0], p[1]))
        # every pair of option values (covering array over the option families and horizons) for one country that rotates with the seed
        from lib import lpcheck as _lp
        pw = pipeline.pairwise_sets(_lp.OPTION_SPACE, ctx.rng, base=pipeline.BASE_OPTIONS)
        iso_pw = ctx.rng.choice(isos)
        for j, o in enumerate(pw):
            jobs.append((iso_pw, "pairwise:%d" % j, o))
        ctx.extra["pairwise_option_sets"] = {"country": iso_pw, "sets": len(pw)}
        others = [p for p in presets if not p[0].startswith("yaml:")]
        target = len(jobs) + 40
        while len(jobs) < target:
            p = ctx.rng.choice(others)
            jobs.append((ctx.rng.choice(isos), p[0], p[1]))
    else:
        for name, o, countries in presets:
            for iso in isos:
                jobs.append((iso, name, o))
        for name, o, countries in presets:   # horizon variations of the shipped simulations, designated countries and a sample of others
            if name.startswith("yaml:"):
                for iso in list(countries[:3]) + ctx.rng.sample(isos, 5):
                    if iso in isos:
                        for nm_ in (48, 60, 84, 108):   # 24 months is below what the greenhouse ramp supports (the code asserts it)
                            jobs.append((iso, "%s+NMONTHS=%d" % (name, nm_), dict(o, NMONTHS=nm_)))
        from lib import lpcheck as _lp
        pw = pipeline.pairwise_sets(_lp.OPTION_SPACE, ctx.rng, base=pipeline.BASE_OPTIONS)
        for iso in ctx.rng.sample(isos, 8):
            for j, o in enumerate(pw):
                jobs.append((iso, "pairwise:%d" % j, o))
    return presets, jobs


def judge(ctx, r):
    case = {"country": r["iso"], "preset": r["preset"]}
    if r["preset"].startswith("pairwise:"):
        # two-option combinations are outside the property's grid (shipped, documented and SINGLE-option variations): explored and counted, never a violation
        # of C16 (a rejected combination of supported values is C13's business, a missing supply series C08's)
        ctx.count("pairwise:" + ("completed" if not r["error"] else "failed:" + r["error"].split(":")[0]))
        if r["error"]:
            ctx.notes.append("outside the grid: %s under a two-option combination does not complete: %s" % (r["iso"], r["error"][:160]))
        ctx.case((r["iso"], r["preset"]), nontrivial=r["solves"] > 0)
        return
    fam = r["preset"].split(":")[0] + ":" + r["preset"].split(":")[1].split("=")[0]
    if r["error"]:
        kind = r["error"].split(":")[0]
        ctx.count("failed:" + kind)
        ctx.violation("does-not-complete:%s:%s" % (r["iso"], r["preset"]),
                      "%s under preset %s does not complete: %s" % (r["iso"], r["preset"], r["error"][:200]), dict(case, error=r["error"], trace=r["trace"]))
    elif r["percent_fed"] is None or not math.isfinite(r["percent_fed"]) or r["percent_fed"] < 0:
        ctx.violation("bad-result:%s:%s" % (r["iso"], r["preset"]), "%s under preset %s reports percent fed %r" % (r["iso"], r["preset"], r["percent_fed"]), case)
    else:
        ctx.count("completed")
    ctx.case((r["iso"], r["preset"]), nontrivial=r["solves"] > 0,
             sample={"country": r["iso"], "preset": r["preset"], "percent_fed": r["percent_fed"], "rounds_solved": r["solves"], "wall_s": round(r["wall"], 1)})
    ctx.count("preset-family:" + fam)


def correspondence(ctx):
    presets, jobs = grid(ctx)
    workers = 14
    with ProcessPoolExecutor(max_workers=workers) as ex:
        for r in ex.map(_worker, [(ctx.repo, iso, name, copy.deepcopy(o)) for iso, name, o in jobs], chunksize=1):
            judge(ctx, r)
    ctx.extra["grid_jobs"] = len(jobs)
    # the world aggregate under the global variants of the base preset and of two shut-off schedules
    for sh in (["long_delayed_shutoff"] if ctx.quick else ["long_delayed_shutoff", "continued", "immediate", "continued_after_10_percent_fed"]):
        r = _worker((ctx.repo, "WOR", "world:shutoff=" + sh, pipeline.options(scale="global", shutoff=sh)))
        judge(ctx, r)
    ctx.extra["exhaustive_over_grid"] = not ctx.quick
    # the model's built-in validators against their Lean model: generated inputs on both sides of every tolerance + captured real calls
    # (after the grid: the generated part sets Food.conversions in this process; the grid's workers were forked before)
    validators.check(ctx)
    yaml_driver_part(ctx)


def yaml_driver_part(ctx):
    """the shipped entry point itself: src/scenarios/run_scenarios_from_yaml.run_scenarios_from_yaml on the shipped argentina.yaml (its own country and
    horizon; a seeded choice of its simulations in the quick tier), in web-interface mode (results returned and every table saved).  Every simulation
    has to complete with a finite, non-negative percent fed (whether it equals the direct run's is C14's business and only counted here)."""
    import contextlib, io, glob, yaml
    import src.scenarios.run_scenarios_from_yaml as ry
    from src.scenarios.run_model_no_trade import ScenarioRunnerNoTrade
    cfg = yaml.safe_load(open(os.path.join(ctx.repo, "scenarios", "argentina.yaml")))
    names = list(cfg["simulations"])
    if ctx.quick:
        keep = ctx.rng.sample(names, 3)
        cfg["simulations"] = {n: cfg["simulations"][n] for n in names if n in keep}
    for nm_, sim in cfg["simulations"].items():   # unique titles (the shipped file repeats some): results are matched to simulations by title
        sim["title"] = "verif_yaml_" + str(os.getpid()) + "_" + "".join(ch for ch in nm_ if ch.isalnum())
    got = []
    orig = ScenarioRunnerNoTrade.run_model_no_trade

    def spy(self, *a, **k):
        out = orig(self, *a, **k)
        got.append((k.get("title"), dict(k.get("scenario_option") or {}), list(k.get("countries_list") or []), out))
        return out
    ScenarioRunnerNoTrade.run_model_no_trade = spy
    err = None
    try:
        with contextlib.redirect_stdout(io.StringIO()):
            ry.run_scenarios_from_yaml(copy.deepcopy(cfg), False, False, True)
    except BaseException as e:  # noqa
        if isinstance(e, KeyboardInterrupt):
            raise
        err = "%s: %s" % (type(e).__name__, str(e)[:200])
    finally:
        ScenarioRunnerNoTrade.run_model_no_trade = orig
        for f in glob.glob(os.path.join(ctx.repo, "results", "verif_yaml_%d_*" % os.getpid())):
            with contextlib.suppress(OSError):
                os.remove(f)
    done = {t for t, _, _, _ in got}
    for name, sim in cfg["simulations"].items():
        case = {"driver": "run_scenarios_from_yaml", "file": "argentina.yaml", "simulation": name, "web_interface": True}
        if sim["title"] not in done:
            ctx.violation("does-not-complete:yaml-driver:%s" % name, "argentina.yaml simulation %s does not complete through run_scenarios_from_yaml: %s" % (name, err), case)
            continue
        _, opt_used, countries, out = [g for g in got if g[0] == sim["title"]][0]
        res = out[3] if isinstance(out, (list, tuple)) and len(out) > 3 else {}
        opts = {k: v for k, v in sim.items() if k != "title"}
        opts["NMONTHS"] = cfg["settings"]["NMONTHS"]
        direct = pipeline.run_scenario("ARG", pipeline.options(**opts))
        pf_direct = float(direct.result.percent_people_fed) if direct.result is not None else None
        pf_yaml = [float(r.percent_people_fed) for r in res.values()]
        if len(pf_yaml) != 1 or pf_direct is None or not math.isfinite(pf_yaml[0]) or pf_yaml[0] < 0:
            ctx.violation("bad-result:yaml-driver:%s" % name, "argentina.yaml simulation %s returns %r through the YAML driver (direct run: %r)" % (name, pf_yaml, pf_direct), case)
        elif pf_yaml[0] != pf_direct:
            # not a clause of C16 (the run completes with a finite result); C14's check makes this comparison a violation (yaml_independence_part)
            ctx.count("yaml-driver-result-differs-from-direct-run")
            ctx.notes.append("argentina.yaml simulation %s: %r percent fed through run_scenarios_from_yaml (web-interface mode), %r when run directly" % (name, pf_yaml[0], pf_direct))
        ctx.case(("yaml-driver", name), nontrivial=True, sample=dict(case, percent_fed=pf_yaml[:1]))
        ctx.count("yaml-driver-simulations")


def yaml_independence_part(ctx):
    """(used by C14) two simulations of one YAML file through the shipped entry point: the first carries optional overrides, the second none -
    the second must report what the same options give when run directly"""
    import contextlib, io, glob, yaml
    import src.scenarios.run_scenarios_from_yaml as ry
    from src.scenarios.run_model_no_trade import ScenarioRunnerNoTrade
    got = []
    orig = ScenarioRunnerNoTrade.run_model_no_trade

    def spy(self, *a, **k):
        out = orig(self, *a, **k)
        got.append((k.get("title"), dict(k.get("scenario_option") or {}), list(k.get("countries_list") or []), out))
        return out
    names = list(yaml.safe_load(open(os.path.join(ctx.repo, "scenarios", "argentina.yaml")))["simulations"])
    # a file whose first simulation carries optional overrides and whose second carries none: nothing of the first may reach the second
    base_name = names[0]
    plain = {k: v for k, v in yaml.safe_load(open(os.path.join(ctx.repo, "scenarios", "argentina.yaml")))["simulations"][base_name].items()}
    ov = dict(plain, CROP_PRODUCTION_MULTIPLIER=0.5, kg_meat_per_large_animal=350, meat_cattle_head=20000000)
    cfg2 = {"settings": {"countries": "ARG", "NMONTHS": 48},
            "simulations": {"with_overrides": dict(ov, title="verif_yaml_%d_ov" % os.getpid()), "plain": dict(plain, title="verif_yaml_%d_plain" % os.getpid())}}
    got.clear()
    ScenarioRunnerNoTrade.run_model_no_trade = spy
    err = None
    try:
        with contextlib.redirect_stdout(io.StringIO()):
            ry.run_scenarios_from_yaml(copy.deepcopy(cfg2), False, False, True)
    except BaseException as e:  # noqa
        if isinstance(e, KeyboardInterrupt):
            raise
        err = "%s: %s" % (type(e).__name__, str(e)[:200])
    finally:
        ScenarioRunnerNoTrade.run_model_no_trade = orig
        for f in glob.glob(os.path.join(ctx.repo, "results", "verif_yaml_%d_*" % os.getpid())):
            with contextlib.suppress(OSError):
                os.remove(f)
    case = {"driver": "run_scenarios_from_yaml", "simulations": ["with_overrides (CROP_PRODUCTION_MULTIPLIER, kg_meat_per_large_animal, meat_cattle_head)", "plain"], "country": "ARG"}
    second = [g for g in got if g[0] == "verif_yaml_%d_plain" % os.getpid()]
    o2 = {k: v for k, v in plain.items() if k != "title"}
    o2["NMONTHS"] = 48
    direct = pipeline.run_scenario("ARG", pipeline.options(**o2))
    if not second or direct.result is None:
        ctx.count("yaml-two-simulations-did-not-complete")
    else:
        pf2 = [float(r.percent_people_fed) for r in second[0][3][3].values()]
        if len(pf2) != 1 or pf2[0] != float(direct.result.percent_people_fed):
            ctx.violation("history-dependent-result:yaml-driver", "the second simulation of a file (no overrides) reports %r percent fed after a first simulation with optional "
                          "overrides, %r when run directly" % (pf2, float(direct.result.percent_people_fed)), case)
    ctx.case(("yaml-driver", "two-simulations"), nontrivial=True, sample=case)


def search(ctx):
    """a proof or a correspondence broke and no run failed yet: a larger seeded sample of the grid (the thorough tier already ran all of it)"""
    if not ctx.quick or ctx.violations:
        return
    presets = yaml_presets(ctx.repo) + manuscript_presets(ctx.repo) + variation_presets()
    isos = sorted(pipeline.country_rows())
    jobs = []
    for _ in range(420):
        p = ctx.rng.choice(presets)
        iso = ctx.rng.choice(p[2]) if (p[2] and ctx.rng.random() < 0.5) else ctx.rng.choice(isos)
        if iso in isos:
            jobs.append((iso, p[0], p[1]))
    with ProcessPoolExecutor(max_workers=14) as ex:
        for r in ex.map(_worker, [(ctx.repo, iso, name, copy.deepcopy(o)) for iso, name, o in jobs], chunksize=1):
            judge(ctx, r)
    ctx.extra["search_jobs"] = len(jobs)


def replay(ctx, rep):
    hits = []
    presets = {p[0]: p[1] for p in yaml_presets(ctx.repo) + manuscript_presets(ctx.repo) + variation_presets()}
    for v in rep.get("violations", []):
        c = v["case"]
        if c["preset"] in presets:
            r = _worker((ctx.repo, c["country"], c["preset"], copy.deepcopy(presets[c["preset"]])))
            n0 = len(ctx.violations)
            judge(ctx, r)
            hits += ctx.violations[n0:]
    return bool(hits), hits[:3]



if __name__ == "__main__":   # /venv/bin/python harness/props/c16.py --write-fingerprints   (after the whole grid has been run on this tree)
    import sys
    if "--write-fingerprints" in sys.argv:
        repo = os.environ.get("VERIF_REPO", "/repo")
        os.chdir(repo)
        ps = yaml_presets(repo) + manuscript_presets(repo) + variation_presets()
        os.makedirs(os.path.dirname(FINGERPRINTS), exist_ok=True)
        json.dump({p[0]: fingerprint(p) for p in ps}, open(FINGERPRINTS, "w"), indent=1, sort_keys=True)
        print("wrote", FINGERPRINTS, len(ps))
