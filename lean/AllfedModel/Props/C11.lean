import AllfedModel.Model.Food
import AllfedModel.Proofs.Food
/-!
# C11 — a food quantity's unit labels always describe its numbers

Property theorems only; helper lemmas live in `Proofs/Food.lean`, the executable model in
`Model/Food.lean` (it mirrors `food.py` / `unit_conversions.py` after the `fix:` commits F1–F7).
`K` is any linearly ordered field; lists (months), registers and operation sequences are arbitrary.

`labelOK v` (executable, `Model/Food.lean`) is the statement of "correctly labelled":
the list `units` equals the three labels; the three number lists fit the shape; a series carries
exactly one `each month`, at the end of every label, a single value none; the three labels have
the same form.  The same predicate is evaluated by the harness on the implementation's results.
-/
set_option linter.unusedVariables false
set_option linter.unusedSectionVars false

namespace Allfed.C11
open Allfed Allfed.Food Allfed.Proofs.FoodP

variable {K : Type} [Field K] [LinearOrder K] [IsStrictOrderedRing K]

/-! ## the two copies of the labels agree — for arbitrary operands -/

/-- Every quantity an operation returns, and every register a setter rewrites, has
    `units = [kcals_units, fat_units, protein_units]`, whatever the registers contain. -/
theorem C11_units_agree (cfg : Cfg K) (op : Op K) (s : State K) (v : FoodVal K)
    (h : eval cfg op s = .ok (.val v) ∨ eval cfg op s = .ok (.inPlace v)) : unitsAgree v = true :=
  (unitsAgree_iff v).2 (eval_units cfg op s v h)

/-- the three `set_units_from_*` setters keep the list in sync (F1 repaired) -/
theorem C11_setters_sync (m v : FoodVal K) :
    (relabelElement m = .ok v → unitsAgree v = true) ∧ (relabelTotal m = .ok v → unitsAgree v = true) ∧
    (relabelList m = .ok v → unitsAgree v = true) :=
  ⟨fun h => (unitsAgree_iff v).2 (UnitsP.relabelElement m v h), fun h => (unitsAgree_iff v).2 (UnitsP.relabelTotal m v h),
   fun h => (unitsAgree_iff v).2 (UnitsP.relabelList m v h)⟩

/-! ## closure -/

/-- For every operation of the language and registers that are all correctly labelled (constructor
    labels / `in_units` targets within their pre-condition `argsOK`), the operation either rejects
    or returns a correctly labelled quantity. -/
theorem C11_closed (cfg : Cfg K) (op : Op K) (s : State K) (v : FoodVal K)
    (hs : ∀ x ∈ s, labelOK x = true) (ha : op.argsOK = true) (h : eval cfg op s = .ok (.val v)) :
    labelOK v = true :=
  (labelOK_iff v).2 (eval_closed cfg op s v (fun x hx => (labelOK_iff x).1 (hs x hx)) ha h).1

/-- … and its shape and labels are the documented ones (`docLabels`, `Proofs/Food.lean`): unchanged
    for `+ − min neg abs clip round shift slice running-sum ·number /number`; `X each month ↦ X per
    month` for one month (also by integer index); `X each month ↦ X` for sum / min / max over months;
    `ratio` for a quotient; the other operand's labels for a product with a ratio; the requested
    unit names in the operand's form for a conversion; `each month` appended once by the constructor. -/
theorem C11_doc_labels (cfg : Cfg K) (op : Op K) (s : State K) (v : FoodVal K)
    (hs : ∀ x ∈ s, labelOK x = true) (ha : op.argsOK = true) (h : eval cfg op s = .ok (.val v)) :
    docLabels op s = some (v.series, v.ku, v.fu, v.pu) :=
  (eval_closed cfg op s v (fun x hx => (labelOK_iff x).1 (hs x hx)) ha h).2

/-- readable instances: the sum over months of `X each month` is `X` … -/
theorem C11_sum_label (a v : FoodVal K) (ha : labelOK a = true) (h : sumMonths a = .ok v) :
    v.series = false ∧ v.ku = ⟨a.ku.base, a.ku.sfx.dropLast⟩ ∧ v.fu = ⟨a.fu.base, a.fu.sfx.dropLast⟩ ∧
      v.pu = ⟨a.pu.base, a.pu.sfx.dropLast⟩ ∧ a.ku.sfx.getLast? = some Suffix.each := by
  have hA := (labelOK_iff a).1 ha
  have hs : a.series = true := by
    unfold sumMonths at h; simp only [guard'_ok] at h; exact h.1
  obtain ⟨_, h2, h3, h4, h5⟩ := sumMonths_closed a v hA h
  have hl := (labelsFor_true_iff _ _ _).1 (hA.series_labels hs)
  obtain ⟨pre, hp, _⟩ := (seriesOK_iff a.ku).1 hl.1
  exact ⟨h2, by rw [h3, (toTotal_of_seriesOK _ hl.1).1], by rw [h4, (toTotal_of_seriesOK _ hl.2.1).1],
    by rw [h5, (toTotal_of_seriesOK _ hl.2.2.1).1], by simp [hp]⟩

/-- … one month of it is `X per month` … -/
theorem C11_month_label (a v : FoodVal K) (i : Int) (ha : labelOK a = true) (h : getMonth a i = .ok v) :
    v.series = false ∧ v.ku = ⟨a.ku.base, a.ku.sfx.dropLast ++ [Suffix.per]⟩ ∧
      v.fu = ⟨a.fu.base, a.fu.sfx.dropLast ++ [Suffix.per]⟩ ∧ v.pu = ⟨a.pu.base, a.pu.sfx.dropLast ++ [Suffix.per]⟩ := by
  have hA := (labelOK_iff a).1 ha
  have hs : a.series = true := by
    unfold getMonth at h; simp only [guard'_ok] at h; exact h.1
  obtain ⟨_, h2, h3, h4, h5⟩ := getMonth_closed a v i hA h
  have hl := (labelsFor_true_iff _ _ _).1 (hA.series_labels hs)
  exact ⟨h2, by rw [h3, (toElement_of_seriesOK _ hl.1).1], by rw [h4, (toElement_of_seriesOK _ hl.2.1).1],
    by rw [h5, (toElement_of_seriesOK _ hl.2.2.1).1]⟩

/-- … also when the month is taken by integer index (F3 repaired) … -/
theorem C11_index_label (a v : FoodVal K) (i : Int) (ha : labelOK a = true) (h : getInt a i = .ok v) :
    v.series = false ∧ v.ku = ⟨a.ku.base, a.ku.sfx.dropLast ++ [Suffix.per]⟩ ∧
      v.fu = ⟨a.fu.base, a.fu.sfx.dropLast ++ [Suffix.per]⟩ ∧ v.pu = ⟨a.pu.base, a.pu.sfx.dropLast ++ [Suffix.per]⟩ := by
  have hA := (labelOK_iff a).1 ha
  have hs : a.series = true := by
    unfold getInt at h; simp only [guard'_ok] at h; exact h.1
  obtain ⟨_, h2, h3, h4, h5⟩ := getInt_closed a v i hA h
  have hl := (labelsFor_true_iff _ _ _).1 (hA.series_labels hs)
  exact ⟨h2, by rw [h3, (toElement_of_seriesOK _ hl.1).1], by rw [h4, (toElement_of_seriesOK _ hl.2.1).1],
    by rw [h5, (toElement_of_seriesOK _ hl.2.2.1).1]⟩

/-- … and the quotient of two quantities with equal labels is a `ratio` (`ratio each month` for series). -/
theorem C11_quotient_label (a b v : FoodVal K) (ha : labelOK a = true) (hb : labelOK b = true) (h : div a b = .ok v) :
    a.units = b.units ∧ v.series = a.series ∧
      v.ku = (if a.series then ⟨"ratio", [Suffix.each]⟩ else ⟨"ratio", []⟩) ∧ v.fu = v.ku ∧ v.pu = v.ku := by
  have hu : a.units = b.units := by
    unfold div at h; rw [guard'_ok] at h; exact units_bool h.1
  obtain ⟨_, h2, h3, h4, h5⟩ := div_closed a b v ((labelOK_iff a).1 ha) ((labelOK_iff b).1 hb) h
  refine ⟨hu, h2, ?_, by rw [h4, h3], by rw [h5, h3]⟩
  rw [h3]; cases a.series <;> rfl

/-- the strings behind the structured labels: appending a suffix to the label appends its words -/
theorem render_addEach (l : Label) : l.addEach.render = l.render ++ " each month" := by
  simp [Label.render, Label.addEach, List.foldl_append, Suffix.render]

theorem render_addPer (l : Label) : l.addPer.render = l.render ++ " per month" := by
  simp [Label.render, Label.addPer, List.foldl_append, Suffix.render]

/-! ## lifted to all finite sequences of operations -/

/-- the sequence contains no setter and every constructor / conversion argument is within its
    pre-condition -/
def seqOK (ops : List (Op K)) : Prop := ∀ op ∈ ops, op.isSetter = false ∧ op.argsOK = true

/-- Starting from correctly labelled registers (in particular from none), after ANY finite sequence
    of operations — a rejected one leaving the registers as they were — every register is correctly
    labelled.  Induction over the sequence. -/
theorem C11_sequences (cfg : Cfg K) (ops : List (Op K)) (s : State K)
    (hs : ∀ x ∈ s, labelOK x = true) (hops : seqOK ops) : ∀ x ∈ runSkip cfg ops s, labelOK x = true :=
  fun x hx => (labelOK_iff x).2
    (runSkip_allOK cfg ops s (fun y hy => (labelOK_iff y).1 (hs y hy)) hops x hx)

/-- the same for a run that stops at the first rejected operation -/
theorem C11_sequences_run (cfg : Cfg K) (ops : List (Op K)) (s s' : State K)
    (hs : ∀ x ∈ s, labelOK x = true) (hops : seqOK ops) (h : run cfg ops s = .ok s') : ∀ x ∈ s', labelOK x = true :=
  fun x hx => (labelOK_iff x).2
    (run_allOK cfg ops s s' (fun y hy => (labelOK_iff y).1 (hs y hy)) hops h x hx)

/-- with the setters included and NO assumption on the arguments: after any sequence of any
    operations the list `units` of every register equals its three labels -/
theorem C11_sequences_units (cfg : Cfg K) (ops : List (Op K)) (s : State K)
    (hs : ∀ x ∈ s, unitsAgree x = true) :
    (∀ x ∈ runSkip cfg ops s, unitsAgree x = true) ∧ (∀ s', run cfg ops s = .ok s' → ∀ x ∈ s', unitsAgree x = true) :=
  ⟨fun x hx => (unitsAgree_iff x).2 (runSkip_allAgree cfg ops s (fun y hy => (unitsAgree_iff y).1 (hs y hy)) x hx),
   fun s' h x hx => (unitsAgree_iff x).2 (run_allAgree cfg ops s s' (fun y hy => (unitsAgree_iff y).1 (hs y hy)) h x hx)⟩

/-- Operands are unchanged: an operation that is not a setter leaves every existing register as it
    was (it appends at most one new quantity); a setter changes only its own register, and of that
    only the labels — shape and numbers stay.  (The model is functional; that the real objects are
    not mutated is checked by the harness on every step.) -/
theorem C11_operands_unchanged (cfg : Cfg K) (op : Op K) (s s' : State K) (h : step cfg op s = .ok s') :
    (op.isSetter = false → s' = s ∨ ∃ v, s' = s ++ [v]) ∧
    (op.isSetter = true → s'.length = s.length ∧ (∀ k, k ≠ op.target % s.length → s'[k]? = s[k]?) ∧
      (∀ a v, s[op.target % s.length]? = some a → s'[op.target % s.length]? = some v →
        v.series = a.series ∧ v.kcals = a.kcals ∧ v.fat = a.fat ∧ v.protein = a.protein)) :=
  ⟨fun hset => step_appends cfg op s s' hset h, fun hset => step_setter cfg op s s' hset h⟩

/-- correctly labelled operands whose series have the same number of months never reach a corner
    the model declines to predict: the arithmetic operations fail, if at all, with an assertion -/
theorem C11_modelled (a b : FoodVal K) (ha : labelOK a = true) (hb : labelOK b = true)
    (hl : a.series = true → b.series = true → a.kcals.length = b.kcals.length) (e : Err) :
    (add a b = .error e → e = .assert) ∧ (sub a b = .error e → e = .assert) ∧ (mul a b = .error e → e = .assert) ∧
    (div a b = .error e → e = .assert) ∧ (minElem a b = .error e → e = .assert) :=
  have hA := (labelOK_iff a).1 ha
  have hB := (labelOK_iff b).1 hb
  ⟨add_onlyAssert a b hA hB hl e, sub_onlyAssert a b hA hB hl e, mul_onlyAssert a b hA hB hl e,
   div_onlyAssert a b hA hB hl e, minElem_onlyAssert a b hA hB hl e⟩

/-! ## different units are refused -/

/-- add / subtract / divide / elementwise-min and every comparison of quantities whose units lists
    differ raise an assertion error (for `all_less_than_or_equal_to`, which also compares a single
    value with a series, between quantities of the same shape) -/
theorem C11_reject_mixed (cfg : Cfg K) (a b : FoodVal K) (h : a.units ≠ b.units) :
    add a b = .error .assert ∧ sub a b = .error .assert ∧ div a b = .error .assert ∧ minElem a b = .error .assert ∧
    (∀ p, p ≠ Pred2.allLE → evalPred2 cfg p a b = .error .assert) ∧
    (a.series = b.series → evalPred2 cfg .allLE a b = .error .assert) :=
  ⟨add_reject a b h, sub_reject a b h, div_reject a b h, minElem_reject a b h,
   fun p hp => pred2_reject cfg p a b hp h, fun hs => allLE_reject cfg.inclFat cfg.inclProtein a b hs h⟩

/-! ## a dimensionless ratio keeps the other operand's units, on either side -/

theorem C11_ratio_keeps_label (r x v : FoodVal K) (hr : labelOK r = true) (hx : labelOK x = true)
    (hrr : r.isRatio = true) (hnx : x.isRatio = false) :
    (mul r x = .ok v → v.ku = x.ku ∧ v.fu = x.fu ∧ v.pu = x.pu) ∧
    (mul x r = .ok v → v.ku = x.ku ∧ v.fu = x.fu ∧ v.pu = x.pu) :=
  ⟨mul_ratio_left r x v ((labelOK_iff r).1 hr) ((labelOK_iff x).1 hx) hnx,
   mul_ratio_right x r v ((labelOK_iff x).1 hx) ((labelOK_iff r).1 hr) hrr hnx⟩

/-- `r * x` is accepted exactly when `x * r` is, and then both carry `x`'s labels (F2 repaired) -/
theorem C11_ratio_commutes (r x : FoodVal K) (hr : labelOK r = true) (hx : labelOK x = true)
    (hrr : r.isRatio = true) (hnx : x.isRatio = false) :
    ((∃ v, mul r x = .ok v) ↔ (∃ w, mul x r = .ok w)) ∧
    (∀ v w, mul r x = .ok v → mul x r = .ok w → v.ku = w.ku ∧ v.fu = w.fu ∧ v.pu = w.pu ∧ v.series = w.series) := by
  have hR := (labelOK_iff r).1 hr
  have hX := (labelOK_iff x).1 hx
  refine ⟨mul_accept_symm r x hR hX hrr hnx, fun v w hv hw => ?_⟩
  obtain ⟨a1, a2, a3⟩ := mul_ratio_left r x v hR hX hnx hv
  obtain ⟨b1, b2, b3⟩ := mul_ratio_right x r w hX hR hrr hnx hw
  have s1 := (mul_closed r x v hR hX hv).2.1
  have s2 := (mul_closed x r w hX hR hw).2.1
  exact ⟨by rw [a1, b1], by rw [a2, b2], by rw [a3, b3], by rw [s1, s2, Bool.or_comm]⟩

/-! ## comparison predicates: a single value and the equal one-month series -/

/-- each of the ten binary predicates (`==`, `!=`, `all_/any_ greater/less[_or_equal_to]`) gives the
    same answer — or the same refusal — on two single values and on the equal one-month series,
    under all four settings of `include_fat` / `include_protein` (they are fields of `cfg`). -/
theorem C11_predicates2 (cfg : Cfg K) (p : Pred2) (a b : FoodVal K) (ha : labelOK a = true) (hb : labelOK b = true)
    (hsa : a.series = false) (hsb : b.series = false) :
    evalPred2 cfg p (asSeries a) (asSeries b) = evalPred2 cfg p a b :=
  evalPred2_asSeries cfg p a b ((labelOK_iff a).1 ha) ((labelOK_iff b).1 hb) hsa hsb

/-- the unary ones (`is_never_negative`, `all_/any_equals_zero`, `all_/any_greater_than_zero`,
    `is_a_ratio`, `is_units_percent`) -/
theorem C11_predicates1 (cfg : Cfg K) (p : Pred1) (a : FoodVal K) (ha : labelOK a = true) (hsa : a.series = false) :
    evalPred1 cfg p (asSeries a) = evalPred1 cfg p a :=
  evalPred1_asSeries cfg p a ((labelOK_iff a).1 ha) hsa

/-- `all_greater_than_or_equal_to_zero(threshold)` for every threshold (F7 repaired) -/
theorem C11_geZero_scalar_series (iF iP : Bool) (a : FoodVal K) (thr : K) (ha : labelOK a = true) (hsa : a.series = false) :
    allGEZero iF iP (asSeries a) thr = allGEZero iF iP a thr :=
  allGEZero_asSeries iF iP a thr ((labelOK_iff a).1 ha) hsa

/-- all the comparison predicates at once -/
theorem C11_predicates (cfg : Cfg K) (a b : FoodVal K) (ha : labelOK a = true) (hb : labelOK b = true)
    (hsa : a.series = false) (hsb : b.series = false) :
    (∀ p, evalPred2 cfg p (asSeries a) (asSeries b) = evalPred2 cfg p a b) ∧
    (∀ p, evalPred1 cfg p (asSeries a) = evalPred1 cfg p a) ∧
    (∀ thr, allGEZero cfg.inclFat cfg.inclProtein (asSeries a) thr = allGEZero cfg.inclFat cfg.inclProtein a thr) :=
  ⟨fun p => C11_predicates2 cfg p a b ha hb hsa hsb, fun p => C11_predicates1 cfg p a ha hsa,
   fun thr => C11_geZero_scalar_series _ _ a thr ha hsa⟩

/-- the one-month series of a correctly labelled single value is itself correctly labelled -/
theorem asSeries_labelOK (a : FoodVal K) (ha : labelOK a = true) (hsa : a.series = false) : labelOK (asSeries a) = true := by
  have hA := (labelOK_iff a).1 ha
  obtain ⟨k, f, p, hk, hf, hp⟩ := scalar_fields a hA hsa
  rw [labelOK_iff]
  exact ⟨rfl, by simp [shapeOK, asSeries, hk, hf, hp], labelsFor_addEach _ _ _ (hA.scalar_labels hsa)⟩

/-! ## the assumption on unit names, on the real vocabulary (tables regenerated from the source) -/

def kcalBases : List String :=
  ["billion kcals", "billion people fed", "percent people fed", "million dry caloric tons", "kcals per person per day"]
def fatBases : List String :=
  ["thousand tons", "million tons", "billion people fed", "percent people fed", "effective kcals per person per day",
   "grams per person per day"]
def withForms (bases : List String) : List String :=
  bases.flatMap fun b => [b, b ++ " each month", b ++ " per month"]

/-- every name of the three generated multiplier tables is `base`, `base each month` or `base per
    month` for a base that contains neither "each month" nor "per month" — so the structured labels
    represent the real vocabulary faithfully -/
theorem vocabulary_bases_clean :
    Gen.Units.kcalMultNames = withForms kcalBases ∧ Gen.Units.fatMultNames = withForms fatBases ∧
    Gen.Units.proteinMultNames = withForms fatBases ∧
    (∀ b ∈ kcalBases ++ fatBases, Units.hasSub b "each month" = false ∧ Units.hasSub b "per month" = false) := by
  decide +kernel

/-! ## the behaviour before the `fix:` commits (kept so that a regression is recognisable) -/

/-- `r` succeeded with a value satisfying `p` -/
def okAnd {β : Type} (r : Except Err β) (p : β → Bool) : Bool :=
  match r with
  | .ok v => p v
  | .error _ => false
/-- `r` failed with error `e` -/
def isErr {β : Type} (r : Except Err β) (e : Err) : Bool :=
  match r with
  | .ok _ => false
  | .error e' => e' == e

/-- a monthly quantity and a single per-month quantity in billion kcals / thousand tons -/
def bk : List Label := [⟨"billion kcals", []⟩, ⟨"thousand tons", []⟩, ⟨"thousand tons", []⟩]
def mkScalar (k f p : ℚ) (l : List Label) : FoodVal ℚ :=
  buildScalar k f p (l.getD 0 default) (l.getD 1 default) (l.getD 2 default)
def mkSeries (k f p : List ℚ) (l : List Label) : FoodVal ℚ :=
  { series := true, kcals := k, fat := f, protein := p, ku := (l.getD 0 default).addEach, fu := (l.getD 1 default).addEach,
    pu := (l.getD 2 default).addEach, units := l.map Label.addEach }
def twoMonths : FoodVal ℚ := mkSeries [1, 2] [3, 4] [5, 6] bk

/-- F1, before the fix: `set_units_from_list_to_element` rewrote the labels and left `units` alone -/
def relabelElement_unfixed (v : FoodVal ℚ) : FoodVal ℚ :=
  { v with ku := v.ku.toElement, fu := v.fu.toElement, pu := v.pu.toElement }
def getMonth_unfixed (a : FoodVal ℚ) (i : Int) : Except Err (FoodVal ℚ) :=
  match pick a i with
  | .error e => .error e
  | .ok m => .ok (relabelElement_unfixed m)

/-- F1: the month of a correctly labelled series had a stale `units` list, and therefore could not
    be added to a per-month quantity carrying exactly the same three labels -/
theorem F1_stale_units_counterexample :
    labelOK twoMonths = true ∧
    okAnd (getMonth_unfixed twoMonths 0) (fun m => !unitsAgree m && m.labels == (mkScalar 1 1 1 (bk.map Label.addPer)).labels &&
                isErr (add m (mkScalar 1 1 1 (bk.map Label.addPer))) .assert) = true ∧
    okAnd (getMonth twoMonths 0) (fun m => unitsAgree m && (add m (mkScalar 1 1 1 (bk.map Label.addPer))).toBool) = true := by
  decide +kernel

/-- F2, before the fix: two single values multiplied kept `self`'s labels, whichever was the ratio -/
def mulScalars_unfixed (a b : FoodVal ℚ) : Except Err (FoodVal ℚ) :=
  guard' (a.isRatio || b.isRatio) .assert <| combine (· * ·) a b a.ku a.fu a.pu

theorem F2_ratio_label_counterexample :
    -- labelled `ratio`, not billion kcals / thousand tons
    okAnd (mulScalars_unfixed (mkScalar 2 2 2 [Label.ratio, Label.ratio, Label.ratio]) (mkScalar 3 4 5 bk))
      (fun v => v.labels == [Label.ratio, Label.ratio, Label.ratio]) = true ∧
    okAnd (mul (mkScalar 2 2 2 [Label.ratio, Label.ratio, Label.ratio]) (mkScalar 3 4 5 bk)) (fun v => v.labels == bk) = true := by
  decide +kernel

/-- F3, before the fix: an integer index returned the month still labelled `each month` -/
theorem F3_index_label_counterexample :
    okAnd (pick twoMonths 1) (fun m => !labelOK m && !m.series && m.ku.hasEach) = true ∧
    okAnd (getInt twoMonths 1) (fun m => labelOK m && m.ku.render == "billion kcals per month") = true := by
  decide +kernel

/-- F4, before the fix: with an integer fat/protein the constructor appended " each month"
    unconditionally -/
def constructIntFat_unfixed (k : List ℚ) (ku fu pu : Label) : Except Err (FoodVal ℚ) :=
  guard' (0 < k.length) .assert <|
  .ok { series := true, kcals := k, fat := List.replicate k.length 0, protein := List.replicate k.length 0,
        ku := ku.fixEach, fu := fu.addEach, pu := pu.addEach, units := [ku.fixEach, fu.addEach, pu.addEach] }

theorem F4_doubled_suffix_counterexample :
    okAnd (constructIntFat_unfixed [1, 2] twoMonths.ku twoMonths.fu twoMonths.pu)
      (fun v => !labelOK v && v.fu.render == "thousand tons each month each month") = true ∧
    okAnd (construct (.series [1, 2] .int .int) twoMonths.ku twoMonths.fu twoMonths.pu)
      (fun v => labelOK v && v.fu.render == "thousand tons each month") = true := by
  decide +kernel

/-- F5, before the fix: the monthly branch of `any_greater_than` / `any_less_than` looked at fat and
    protein exactly when they are excluded -/
def anyGT_unfixed (iF iP : Bool) (a b : FoodVal ℚ) : Except Err Bool :=
  guard' (a.units == b.units) .assert <| guard' (validate a) .assert <|
  pred2 a b (relOf .gt) true (if a.series then combAnyExcl iF iP else combAnyIncl iF iP)

theorem F5_any_predicates_counterexample :
    anyGT_unfixed true true (mkScalar 1 5 1 bk) (mkScalar 1 1 1 bk) = .ok true ∧
    anyGT_unfixed true true (asSeries (mkScalar 1 5 1 bk)) (asSeries (mkScalar 1 1 1 bk)) = .ok false ∧
    anyGT true true (asSeries (mkScalar 1 5 1 bk)) (asSeries (mkScalar 1 1 1 bk)) = .ok true := by
  decide +kernel

/-- F5, before the fix: the monthly branch of `all_greater_than_zero` ignored the exclusion flags -/
def allGTZero_unfixed (iF iP : Bool) (a : FoodVal ℚ) : Except Err Bool :=
  guard' (validate a) .assert <|
  .ok (pred1 a (fun x => decide (0 < x)) false (if a.series then combAll true true else combAll iF iP))

theorem F5_all_gt_zero_counterexample :
    allGTZero_unfixed false true (mkScalar 1 0 1 bk) = .ok true ∧
    allGTZero_unfixed false true (asSeries (mkScalar 1 0 1 bk)) = .ok false ∧
    allGTZero false true (asSeries (mkScalar 1 0 1 bk)) = .ok true := by
  decide +kernel

/-- F6, before the fix: `any_less_than_or_equal_to` asserted equal units only for single values -/
def anyLE_unfixed (iF iP : Bool) (a b : FoodVal ℚ) : Except Err Bool :=
  guard' (a.series || a.units == b.units) .assert <| guard' (validate a) .assert <|
  pred2 a b (relOf .le) true (combAnyIncl iF iP)

def grams : List Label := [⟨"g", []⟩, ⟨"g", []⟩, ⟨"g", []⟩]

theorem F6_any_le_units_counterexample :
    (asSeries (mkScalar 1 1 1 grams)).units ≠ (asSeries (mkScalar 2 2 2 bk)).units ∧
    anyLE_unfixed true true (asSeries (mkScalar 1 1 1 grams)) (asSeries (mkScalar 2 2 2 bk)) = .ok true ∧
    anyLE true true (asSeries (mkScalar 1 1 1 grams)) (asSeries (mkScalar 2 2 2 bk)) = .error .assert := by
  decide +kernel

/-- F7, before the fix: the tolerance of `all_greater_than_or_equal_to_zero` was ignored for a single value -/
def allGEZero_unfixed (iF iP : Bool) (a : FoodVal ℚ) (thr : ℚ) : Except Err Bool :=
  guard' (validate a) .assert <|
  .ok (pred1 a (fun x => decide ((if a.series then -thr else 0) ≤ x)) false (combAll iF iP))

theorem F7_threshold_counterexample :
    allGEZero_unfixed true true (mkScalar (-1/2) 1 1 bk) 1 = .ok false ∧
    allGEZero_unfixed true true (asSeries (mkScalar (-1/2) 1 1 bk)) 1 = .ok true ∧
    allGEZero true true (mkScalar (-1/2) 1 1 bk) 1 = .ok true := by
  decide +kernel

/-! ## non-vacuity: the hypotheses of the theorems above have concrete, non-trivial instances -/

def cfgQ : Cfg ℚ := { conv := Gen.Units.mkConv 2100 47 51 7800000000, inclFat := true, inclProtein := false, rnd := fun _ x => x }

-- correctly labelled operands exist, of both shapes, and the operations accept them
example : labelOK twoMonths = true ∧ labelOK (mkScalar 1 1 1 bk) = true ∧
    labelOK (mkScalar 2 2 2 [Label.ratio, Label.ratio, Label.ratio]) = true := by decide +kernel
example : (add twoMonths twoMonths).toBool = true ∧ (sumMonths twoMonths).toBool = true ∧
    (getMonth twoMonths (-1)).toBool = true ∧ (div twoMonths twoMonths).toBool = true := by decide +kernel
-- the sum of `billion kcals each month` is `billion kcals`; one month of it is `billion kcals per month`
example : okAnd (sumMonths twoMonths) (fun v => v.ku.render == "billion kcals" && v.kcals == [3]) = true := by decide +kernel
example : okAnd (getMonth twoMonths 1) (fun v => v.ku.render == "billion kcals per month" && v.fat == [4]) = true := by
  decide +kernel
-- a sequence in the sense of C11_sequences, run from no registers at all
def demoOps : List (Op ℚ) :=
  [.construct (.series [1, 2] (.arr [3, 4]) .int) ⟨"billion kcals", []⟩ ⟨"thousand tons", []⟩ ⟨"thousand tons", []⟩,
   .construct (.scalar 2 2 2) Label.ratio Label.ratio Label.ratio,
   .mul 1 0, .mul 0 1, .sum 2, .getMonth 3 0, .add 4 5, .inUnits 0 ⟨"billion people fed", []⟩ ⟨"billion people fed", []⟩ ⟨"billion people fed", []⟩,
   .div 0 0, .shift 0 1, .getSlice 0 0 1]
example : (∀ op ∈ demoOps, op.isSetter = false ∧ op.argsOK = true) := by decide +kernel
example : (runSkip cfgQ demoOps []).length = 10 ∧ (runSkip cfgQ demoOps []).all labelOK = true := by decide +kernel
-- refusal of different units, and of a product without a ratio
example : isErr (add twoMonths (asSeries (mkScalar 1 1 1 grams))) .assert = true := by decide +kernel
example : isErr (mul (mkScalar 1 1 1 bk) (mkScalar 1 1 1 grams)) .assert = true := by decide +kernel
-- the hypotheses of the ratio theorems: a correctly labelled ratio and a correctly labelled non-ratio, both accepted
example : (mkScalar 2 2 2 [Label.ratio, Label.ratio, Label.ratio]).isRatio = true ∧ twoMonths.isRatio = false ∧
    (mul (mkScalar 2 2 2 [Label.ratio, Label.ratio, Label.ratio]) twoMonths).toBool = true ∧
    (mul twoMonths (mkScalar 2 2 2 [Label.ratio, Label.ratio, Label.ratio])).toBool = true := by decide +kernel
-- the predicates' hypotheses: two single values and their one-month series
example : evalPred2 cfgQ .anyGT (asSeries (mkScalar 1 5 1 bk)) (asSeries (mkScalar 1 1 1 bk)) = .ok true ∧
    evalPred2 cfgQ .anyGT (mkScalar 1 5 1 bk) (mkScalar 1 1 1 bk) = .ok true := by decide +kernel

end Allfed.C11
