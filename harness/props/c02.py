"""C02 - percent fed is the true optimum of the allocation problem (DESIGN.md §7 C02)."""
import numpy as np
from lib import lpcheck, lpinst, pipeline, wire
from lib.wire import f2b, fl, enc_str, Reader

ID = "C02"
LEVEL = "proof"
DRIVER = "driver_lp"
LEAN_MODULES = ["AllfedModel.Props.C02"]
OBLIGATIONS = ["Allfed.C02." + n for n in [
    "objective_le_every_month", "consumed_is_percent_of_need", "objective_le_weighted_total", "normalise_eval", "dualBound_sound", "ubOf_valid",
    "certificate_sound", "sound_humans", "complete_humans", "lp_optimum_is_true_optimum", "lp_bound_iff_true_bound",
    "sound_animals", "complete_animals", "feed_optimum_is_true_optimum", "feed_bound_iff_true_bound"]]
LEVEL_TEXT = ("partial. Lean 4 theorems for all inputs: the set of objective values of the LP the code builds in a human-maximising round IS the set of worst-month percentages "
              "achievable by physically feasible allocations (sound_humans + complete_humans = lp_optimum_is_true_optimum: stocks, cumulative harvest and slaughter, monthly caps, seaweed ledger, "
              "intake caps, the round's charge), so an upper bound of the LP objective is an upper bound of the true optimum (lp_bound_iff_true_bound). Further: the objective of the LP the code builds is sound (at most every month's percent fed, which is what people are really given relative "
              "to need; at most the weighted feed+biofuel total in the feed round), and a certificate checker that turns ANY vector of row multipliers into an upper bound valid for every "
              "feasible point (weak duality with reduced-cost residuals absorbed by proved variable bounds). Per instance the check evaluates that checker in exact rational arithmetic on "
              "the captured instance with HiGHS' duals as multipliers: the value CBC reported must be within 1e-4 (relative) of the certified bound. Optimality of the solver's answer is thus "
              "certified per instance, not proved once for all; soundness AND completeness are proved for both kinds of round.")
LEVEL_NOTE = ("Trusted: Lean kernel for the soundness theorems; the Lean compiler for running the checker at Rat (not the kernel); the row-by-row tie of buildLP to PuLP's model (C01). "
              "CBC and HiGHS are untrusted: a wrong dual only weakens the bound. The exact LP uses the exact rational values of the doubles.")
TECHNIQUE = "Lean 4 proof of a dual-bound certificate checker + per-instance exact certificates from an independent solver's duals"
RULE = ("captured (country, option set, round) LP instances of real runs; each is re-solved by HiGHS on the code's own rows, its duals are checked by the verified checker in exact arithmetic; "
        "non-trivial = certified bound is finite and the instance has > 100 rows; distinct = (country, options, round)")
ASSUMPTIONS = ["WellFormed inputs (wastes in [0,100), non-negative crops and stock) - evaluated exactly per instance", "INCLUDE_FAT = INCLUDE_PROTEIN = False"]
TRUSTED = ["scipy/HiGHS as an untrusted oracle for multipliers and for better primal points"]

GAP = 1e-4


def highs(rows, objective):
    """solve max objective over the code's rows; returns (status, z, x dict, y dict by row name) with y in the sign convention of the checker"""
    from scipy.optimize import linprog
    from scipy.sparse import lil_matrix
    names = sorted({v for r in rows.values() for v in r[0]} | set(objective))
    idx = {n: i for i, n in enumerate(names)}
    ubn = [n for n, r in rows.items() if r[1] != 0]
    eqn = [n for n, r in rows.items() if r[1] == 0]
    Au = lil_matrix((len(ubn), len(names)))
    bu = []
    for r, n in enumerate(ubn):
        co, s, k = rows[n]
        sg = 1.0 if s == -1 else -1.0
        for v, a in co.items():
            Au[r, idx[v]] = sg * a
        bu.append(-sg * k)
    Ae = lil_matrix((len(eqn), len(names)))
    be = []
    for r, n in enumerate(eqn):
        co, s, k = rows[n]
        for v, a in co.items():
            Ae[r, idx[v]] = a
        be.append(-k)
    c = np.zeros(len(names))
    for v, a in objective.items():
        c[idx[v]] = -a
    res = linprog(c, A_ub=Au.tocsr() if ubn else None, b_ub=bu if ubn else None, A_eq=Ae.tocsr() if eqn else None, b_eq=be if eqn else None,
                  bounds=(0, None), method="highs")
    if res.status != 0:
        return res.status, None, None, None
    y = {}
    for r, n in enumerate(ubn):
        lam = -float(res.ineqlin.marginals[r])      # >= 0 for the '<=' form
        y[n] = lam if rows[n][1] == -1 else -lam    # a '>=' row was negated
    for r, n in enumerate(eqn):
        y[n] = -float(res.eqlin.marginals[r])
    return 0, -float(res.fun), {n: float(v) for n, v in zip(names, res.x)}, y


def audit_solve(ctx, run, k, s):
    case = {"country": run.iso, "options": run.opts, "round": k + 1, "kind": s.kind}
    tied = lpcheck.tie_instance(ctx, run, k, s, "C02")
    if tied is None or s.z is None or s.error:
        return
    inp, enc, diffs = tied
    # the problem the round solves is the CONFIGURED one: switches, storage regime, horizon, population, intake limits handed to the optimiser
    # are the scenario's own ("that round's supplies", "the documented intake caps")
    _, shared = lpcheck.handoff_mismatches(s.opt)
    for key, got, want in shared:
        ctx.violation("solves-another-problem:" + key, "%s round %d: the optimiser is handed %s = %s, the scenario configures %s - the reported optimum is that of a different "
                      "allocation problem" % (run.iso, k + 1, key, got, want), dict(case, constant=key))
    ctx.count("configured-constants-compared")
    # "relative to need": the monthly requirement the LP divides by is population x monthly kcals per person / 1e9, the same need its intake caps use
    C_ = s.opt.consts_for_optimizer
    need_want = float(C_["POP"]) * float(C_["KCALS_MONTHLY"]) / 1e9
    if not wire.close(float(C_["BILLION_KCALS_NEEDED"]), need_want, 1e-12, 0.0) or not wire.close(float(C_["KCALS_MONTHLY"]), float(C_["KCALS_DAILY"]) * 30, 1e-12, 0.0):
        ctx.violation("solves-another-problem:need", "%s round %d: BILLION_KCALS_NEEDED = %r, population x KCALS_MONTHLY / 1e9 = %r (KCALS_MONTHLY %r, KCALS_DAILY %r)" % (
            run.iso, k + 1, float(C_["BILLION_KCALS_NEEDED"]), need_want, float(C_["KCALS_MONTHLY"]), float(C_["KCALS_DAILY"])), dict(case, constant="BILLION_KCALS_NEEDED"))
    # objective function of the code's model
    if s.objective != {"Objective_To_Optimize": 1} and s.objective != {"Objective_To_Optimize": 1.0}:
        ctx.disagree("C02:objective-function", case, s.objective, {"Objective_To_Optimize": 1})
    st, zh, xh, y = highs(s.rows, s.objective)
    if st != 0:
        ctx.count("highs-status-%s" % st)
        return
    # multipliers in the model's row order
    order_line = wire.run_driver(["lp.rows %s %s" % (s.kind, enc)], exe_name=DRIVER)[0]
    mrows, _ = lpinst.parse_rows(order_line)
    yv = []
    for name, (co, rel, const) in mrows.items():
        v = y.get(name, 0.0)
        if abs(v) < 1e-13:
            v = 0.0
        # sign-clean: a multiplier of the wrong sign is a solver artefact; zero is always admissible
        if (rel == "le" and v < 0) or (rel == "ge" and v > 0):
            v = 0.0
        yv.append(v)
    out = wire.run_driver(["cert.bound %s %s %s" % (s.kind, enc, fl(yv))], exe_name=DRIVER)[0].split()
    wf = out[0] == "1"
    z = float(s.z)
    scale = max(1.0, abs(z))
    if not wf:
        ctx.count("instance-not-wellformed")
        ctx.notes.append("%s round %d: inputs are not WellFormed (waste outside [0,100) or negative crops/stock): certificate theorem does not apply" % (run.iso, k + 1))
    if out[1] == "none":
        ctx.count("certificate-inconclusive")
        ctx.extra.setdefault("inconclusive_detail", []).append("%s r%d %s" % (run.iso, k + 1, " ".join(out[2:12])))
    else:
        bound = wire.b2f(out[2])
        gap = (bound - z) / scale
        ctx.extra["max_certified_gap_rel"] = max(ctx.extra.get("max_certified_gap_rel", 0.0), gap)
        ctx.count("certified")
        if wf and gap > GAP:
            # the certified bound leaves room: is there really a better allocation?  HiGHS' primal point, checked exactly
            better = zh is not None and zh > z + GAP * scale
            if better:
                po = wire.run_driver(["cert.primal %s %s %d %s" % (s.kind, enc, len(xh), " ".join("%s %s" % (enc_str(a), f2b(b)) for a, b in xh.items()))],
                                     exe_name=DRIVER)[0].split()
                worst, obj = wire.b2f(po[0]), wire.b2f(po[1])
                if worst <= 1e-6 * max(1.0, inp["billionKcalsNeeded"]) and obj > z + GAP * scale:
                    ctx.violation("not-optimal", "%s round %d: the round reports %r but an allocation feasible for the LP (worst exact row violation %.3g) achieves %r" % (
                        run.iso, k + 1, z, worst, obj), dict(case, reported=z, better=obj, worst_row_violation=worst))
                else:
                    ctx.count("gap-uncertified-no-better-point")
            else:
                ctx.count("gap-uncertified-no-better-point")
        if wf and z > bound + GAP * scale:
            ctx.violation("reported-above-certified-bound", "%s round %d: reported optimum %r exceeds the certified upper bound %r of its own LP" % (
                run.iso, k + 1, z, bound), dict(case, reported=z, bound=bound))
        ctx.case((run.iso, sorted(run.opts.items()), k), nontrivial=len(mrows) > 100,
                 sample={"country": run.iso, "round": k + 1, "kind": s.kind, "rows": len(mrows), "reported": z, "certified_upper_bound": bound,
                         "highs": zh, "gap_rel": gap, "options": {a: b for a, b in run.opts.items() if pipeline.BASE_OPTIONS.get(a) != b}})
    # independent solver agrees?
    if zh is not None and abs(zh - z) > GAP * scale:
        ctx.count("highs-differs-from-cbc-beyond-1e-4")
    # the LP the code built differs from the model's: judge the reported value against the MODEL's LP
    # (= the physical allocation problem, by lp_optimum_is_true_optimum / feed_optimum_is_true_optimum)
    if diffs:
        sense = {"le": -1, "eq": 0, "ge": 1}
        spec_rows = {n: (co, sense[rel], const) for n, (co, rel, const) in mrows.items()}
        st2, z2, x2, y2 = highs(spec_rows, {"Objective_To_Optimize": 1.0})
        ctx.count("spec-lp-solved")
        if st2 == 0:
            scale2 = max(1.0, abs(z2))
            if z2 > z + GAP * scale2:
                po = wire.run_driver(["cert.primal %s %s %d %s" % (s.kind, enc, len(x2), " ".join("%s %s" % (enc_str(a), f2b(b)) for a, b in x2.items()))],
                                     exe_name=DRIVER)[0].split()
                worst, obj = wire.b2f(po[0]), wire.b2f(po[1])
                if worst <= 1e-6 * max(1.0, inp["billionKcalsNeeded"]):
                    ctx.violation("below-true-optimum", "%s round %d: the round reports %r, but a physically feasible allocation (feasible for the specification LP, worst exact row "
                                  "violation %.3g) achieves %r" % (run.iso, k + 1, z, worst, obj), dict(case, reported=z, achievable=obj, worst_row_violation=worst,
                                                                                                          differing_rows=[d[0] for d in diffs[:5]]))
            elif z > z2 + GAP * scale2:
                # certify the bound exactly with the spec LP's own duals
                yv2 = []
                for name, (co, rel, const) in mrows.items():
                    v = y2.get(name, 0.0)
                    if abs(v) < 1e-13 or (rel == "le" and v < 0) or (rel == "ge" and v > 0):
                        v = 0.0
                    yv2.append(v)
                out2 = wire.run_driver(["cert.bound %s %s %s" % (s.kind, enc, fl(yv2))], exe_name=DRIVER)[0].split()
                if out2[1] == "some" and z > wire.b2f(out2[2]) + GAP * scale2:
                    ctx.violation("above-true-optimum", "%s round %d: the round reports %r, but no physically feasible allocation achieves more than %r (certified upper bound of the "
                                  "specification LP)" % (run.iso, k + 1, z, wire.b2f(out2[2])), dict(case, reported=z, certified_bound=wire.b2f(out2[2]),
                                                                                                      differing_rows=[d[0] for d in diffs[:5]]))


SUPPLY_FIELDS = ["nmonths", "addSeaweed", "addOutdoor", "addStored", "addMeat", "addScp", "addCs", "storeBetweenYears", "pop", "kcalsMonthly", "billionKcalsNeeded",
                 "seaweedKcals", "initialSeaweed", "maxDensity", "minDensity", "harvestLoss", "initialBuiltArea", "wSeaweed", "wStored", "wMeat", "wCrop", "wScp", "wCs",
                 "storedInitial", "builtArea", "growth", "cropProd", "scp", "cs", "greenhouse", "fish",
                 "limSwH", "limSwF", "limSwB", "limScpH", "limScpF", "limScpB", "limCsH", "limCsF", "limCsB"]


def same_supplies_in_every_round(ctx, run):
    """"that round's supplies": everything but the feed/biofuel charge, the ceilings, the pinned human consumption and the herds' meat and milk is the same
    problem data in every round of a run (stock, monthly crops, SCP, sugar, greenhouse, fish, seaweed farm, wastes, limits, population, horizon)"""
    inps = []
    for s in run.solves:
        try:
            inps.append(lpinst.inp_from_optimizer(s.opt, s.kind))
        except NotImplementedError:
            return
    for k in range(1, len(inps)):
        for f in SUPPLY_FIELDS:
            a, b = inps[0][f], inps[k][f]
            same = (list(a) == list(b)) if isinstance(a, (list, tuple)) else (a == b)
            if not same:
                ctx.violation("supplies-differ-between-rounds:" + f, "%s: %s handed to the optimiser differs between the first solve and solve %d of the same run (%s vs %s)" % (
                    run.iso, f, k + 1, str(a)[:80], str(b)[:80]), {"country": run.iso, "options": run.opts, "field": f, "solve": k + 1})
                break
    ctx.count("runs-with-supplies-compared-across-rounds")


def explore(ctx, ps):
    for iso, over in ps:
        run = pipeline.run_scenario(iso, pipeline.options(**over))
        if not run.solves:
            ctx.count("run-error")
            continue
        for k, s in enumerate(run.solves):
            audit_solve(ctx, run, k, s)
        same_supplies_in_every_round(ctx, run)
        if ctx.quick and ctx.elapsed() > 160:
            ctx.count("quick-budget-reached")
            break


def correspondence(ctx):
    ps = list(lpcheck.PRESETS_QUICK)
    isos = sorted(pipeline.country_rows())
    for _ in range(ctx.budget(1, 60)):
        ps.append(lpcheck.random_preset(ctx.rng, isos))
    if not ctx.quick:
        ps += [(iso, dict()) for iso in isos]
    explore(ctx, ps)


def search(ctx):
    isos = sorted(pipeline.country_rows())
    explore(ctx, list(lpcheck.PRESETS_SEARCH) + [lpcheck.random_preset(ctx.rng, isos) for _ in range(3)])


def replay(ctx, rep):
    hits = []
    for v in rep.get("violations", []):
        c = v["case"]
        n0 = len(ctx.violations)
        explore(ctx, [(c["country"], dict(c["options"]))])
        hits += [w for w in ctx.violations[n0:] if w["key"] == v["key"]]
    return bool(hits), hits[:3]
