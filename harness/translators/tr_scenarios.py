"""tr_scenarios: regenerate lean/AllfedModel/Gen/ScenarioTable.lean from
   src/scenarios/scenarios.py   (class Scenarios: __init__, check_all_set, every setter)
   src/scenarios/run_scenario.py (ScenarioRunner.set_depending_on_option, alter_scenario_if_known_to_fail)
   data/no_food_trade/animal_feed_data/FAOSTAT_head_and_slaughter.csv (head-count column names)
   src/food_system/animal_populations.py main()  (how an override key is mapped back to a column)

A small symbolic interpreter over the Python `ast` (DESIGN §4.1).  Grammar of a setter body:
  docstrings, print(...), `self.scenario_description += ...`                      -> ignored
  assert not self.<F>_SET / self.<F>_SET = True                                   -> assertClear / setFlag
  assert [not] self.IS_GLOBAL_ANALYSIS / self.IS_GLOBAL_ANALYSIS = True|False     -> assertScope / setScope
  assert "K" in constants_for_params.keys()                                       -> assertHasKey
  assert hi >= x >= lo                                                            -> assertRange
  constants_for_params[...][...] = <expr | {} | [exprs] | [expr] * n | np.array([expr] * expr) | local dict>
  time_consts[...] = ...                                                          -> path "time_consts:K"
  local = <expr | {} | self.helper(...)>, local["k"] = <expr>                     (helpers of the same class are inlined)
  for i in range(a, b) with constant bounds (unrolled; "NAME" + str(i) is a static key)
  if <local bool constant>: ... (folded)      if <expr> == <expr>: <writes>       -> writeIfEq
  return <name>
  <expr> ::= number | True/False | string | local | country_data["col"] | constants_for_params["k"]["k2"] | e + e | e - e | e * e | e / e
Setters listed in OPAQUE may additionally contain statements/values outside this grammar (numpy, comprehensions over
the country row); those become `Stmt.opaque` / `Ex.opaque` with the keys they write.  Anything else outside the grammar
raises `Unsupported` with the offending source line: a broken tie, never silently skipped.
"""
import ast, csv, hashlib, os

ROOT = os.environ.get("VERIF_ROOT", "/verif")
OUT = os.path.join(ROOT, "lean", "AllfedModel", "Gen", "ScenarioTable.lean")

# setters that compute with numpy / comprehensions over the country row (covered by the series model of C08)
OPAQUE = {"init_country_food_system_properties", "set_country_seasonality", "set_fish_nuclear_winter_reduction"}
NOT_SETTERS = {"__init__", "check_all_set"}
STORE_PARAMS = {"constants_for_params": "", "time_consts": "time_consts:"}


class Unsupported(Exception):
    pass


# ---------------------------------------------------------------------------------------------------------------------
# symbolic values
class Store:            # the constants_for_params / time_consts dictionary itself
    def __init__(self, prefix):
        self.prefix = prefix


class SymDict:          # a local Python dict being filled
    def __init__(self):
        self.items = {}
        self.frozen = False


class OpaqueVal:
    def __init__(self, src):
        self.src = src


def lit_num(v):
    """exact decimal (m, e) of a Python int/float literal: digits of repr()"""
    if isinstance(v, bool):
        raise Unsupported("bool is not a number")
    if isinstance(v, int):
        return ("lit", "num", v, 0)
    r = repr(float(v))
    if "inf" in r or "nan" in r:
        raise Unsupported("literal %r" % (v,))
    mant, _, ex = r.partition("e")
    e = int(ex) if ex else 0
    neg = mant.startswith("-")
    mant = mant.lstrip("-")
    ip, _, fp = mant.partition(".")
    if fp == "0":
        fp = ""
    m = int(ip + fp)
    e -= len(fp)
    return ("lit", "num", -m if neg else m, e)


def src_of(lines, node):
    return " ".join(l.strip() for l in lines[node.lineno - 1:(getattr(node, "end_lineno", node.lineno))])[:200]


class Translator:
    def __init__(self, text, clsname="Scenarios"):
        self.lines = text.split("\n")
        tree = ast.parse(text)
        cls = [n for n in tree.body if isinstance(n, ast.ClassDef) and n.name == clsname]
        if not cls:
            raise Unsupported("class %s not found" % clsname)
        self.methods = {n.name: n for n in cls[0].body if isinstance(n, ast.FunctionDef)}
        other = [n for n in cls[0].body if not isinstance(n, ast.FunctionDef) and not (isinstance(n, ast.Expr) and isinstance(n.value, ast.Constant))]
        if other:
            raise Unsupported("class-level statement at line %d: %s" % (other[0].lineno, self.lines[other[0].lineno - 1].strip()))
        self.init_flags = self.read_init()
        self.check_flags = self.read_check()
        self.flagset = set(self.init_flags)
        self.called = set()
        for name, fn in self.methods.items():
            for n in ast.walk(fn):
                if isinstance(n, ast.Call) and isinstance(n.func, ast.Attribute) and isinstance(n.func.value, ast.Name) \
                        and n.func.value.id == "self" and n.func.attr in self.methods:
                    self.called.add(n.func.attr)

    def fail(self, node, what):
        raise Unsupported("%s at scenarios.py line %d: %s" % (what, node.lineno, src_of(self.lines, node)))

    # -- __init__ / check_all_set ---------------------------------------------------------------------------------
    def read_init(self):
        fn = self.methods.get("__init__")
        if fn is None:
            raise Unsupported("Scenarios.__init__ not found")
        flags = []
        for st in fn.body:
            if isinstance(st, ast.Expr) and isinstance(st.value, ast.Constant):
                continue
            if isinstance(st, ast.Assign) and len(st.targets) == 1 and isinstance(st.targets[0], ast.Attribute) \
                    and isinstance(st.targets[0].value, ast.Name) and st.targets[0].value.id == "self":
                nm = st.targets[0].attr
                if nm.endswith("_SET") and isinstance(st.value, ast.Constant) and st.value.value is False:
                    flags.append(nm)
                    continue
                if nm == "scenario_description" and isinstance(st.value, ast.Constant) and isinstance(st.value.value, str):
                    continue
            self.fail(st, "statement of __init__ outside the grammar")
        return flags

    def read_check(self):
        fn = self.methods.get("check_all_set")
        if fn is None:
            raise Unsupported("Scenarios.check_all_set not found")
        flags = []
        for st in fn.body:
            if isinstance(st, ast.Expr) and isinstance(st.value, ast.Constant):
                continue
            if isinstance(st, ast.Assert) and isinstance(st.test, ast.Attribute) and isinstance(st.test.value, ast.Name) \
                    and st.test.value.id == "self" and st.test.attr.endswith("_SET"):
                flags.append(st.test.attr)
                continue
            self.fail(st, "statement of check_all_set outside the grammar")
        return flags

    # -- expressions ----------------------------------------------------------------------------------------------
    def static_str(self, node, env):
        if isinstance(node, ast.Constant) and isinstance(node.value, str):
            return node.value
        if isinstance(node, ast.BinOp) and isinstance(node.op, ast.Add):
            a, b = self.static_str(node.left, env), self.static_str(node.right, env)
            return None if a is None or b is None else a + b
        if isinstance(node, ast.Call) and isinstance(node.func, ast.Name) and node.func.id == "str" and len(node.args) == 1 \
                and isinstance(node.args[0], ast.Name) and isinstance(env.get(node.args[0].id), int) \
                and not isinstance(env.get(node.args[0].id), bool):
            return str(env[node.args[0].id])
        return None

    def subscript_chain(self, node):
        keys = []
        while isinstance(node, ast.Subscript):
            keys.append(node.slice)
            node = node.value
        keys.reverse()
        return node, keys

    def ex(self, node, env):
        """expression -> Ex tuple, or raise Unsupported"""
        if isinstance(node, ast.Constant):
            v = node.value
            if isinstance(v, bool):
                return ("lit", "bool", v)
            if isinstance(v, (int, float)):
                return lit_num(v)
            if isinstance(v, str):
                return ("lit", "str", v)
            self.fail(node, "literal")
        if isinstance(node, ast.Name):
            v = env.get(node.id)
            if isinstance(v, tuple):
                return v
            if isinstance(v, bool):
                return ("lit", "bool", v)
            if isinstance(v, int):
                return ("lit", "num", v, 0)
            self.fail(node, "name %s is not a local scalar" % node.id)
        if isinstance(node, ast.UnaryOp) and isinstance(node.op, ast.USub) and isinstance(node.operand, ast.Constant) \
                and isinstance(node.operand.value, (int, float)) and not isinstance(node.operand.value, bool):
            t = lit_num(node.operand.value)
            return ("lit", "num", -t[2], t[3])
        if isinstance(node, ast.BinOp):
            ops = {ast.Add: "add", ast.Sub: "sub", ast.Mult: "mul", ast.Div: "div"}
            if type(node.op) in ops:
                return (ops[type(node.op)], self.ex(node.left, env), self.ex(node.right, env))
        if isinstance(node, ast.Subscript):
            base, keys = self.subscript_chain(node)
            if isinstance(base, ast.Name):
                ks = [self.static_str(k, env) for k in keys]
                if None in ks:
                    self.fail(node, "dynamic key")
                b = env.get(base.id)
                if base.id == "country_data" and b == "COUNTRY" and len(ks) == 1:
                    return ("cd", ks[0])
                if isinstance(b, Store) and 1 <= len(ks) <= 2:
                    return ("const", b.prefix + "/".join(ks))
                if isinstance(b, SymDict) and len(ks) == 1:
                    v = b.items.get(ks[0])
                    if isinstance(v, tuple):
                        return v
        self.fail(node, "expression outside the grammar")

    # -- values on the right of an assignment ---------------------------------------------------------------------
    def value(self, node, env, out, opaque_ok, depth):
        """-> Ex tuple | ('list', [Ex]) | ('repeat', Ex, Ex) | Store | SymDict | OpaqueVal"""
        if isinstance(node, ast.Dict) and not node.keys:
            return SymDict()
        if isinstance(node, ast.Name) and isinstance(env.get(node.id), (Store, SymDict, OpaqueVal)):
            return env[node.id]
        if isinstance(node, ast.Call) and isinstance(node.func, ast.Attribute) and isinstance(node.func.value, ast.Name) \
                and node.func.value.id == "self":
            return self.call(node, env, out, opaque_ok, depth)
        try:
            if isinstance(node, ast.List):
                return ("list", [self.ex(e, env) for e in node.elts])
            if isinstance(node, ast.BinOp) and isinstance(node.op, ast.Mult) and isinstance(node.left, ast.List) \
                    and len(node.left.elts) == 1 and isinstance(node.right, ast.Constant) and isinstance(node.right.value, int) \
                    and 0 <= node.right.value <= 1000:
                return ("list", [self.ex(node.left.elts[0], env)] * node.right.value)
            if isinstance(node, ast.Call) and isinstance(node.func, ast.Attribute) and node.func.attr == "array" \
                    and isinstance(node.func.value, ast.Name) and node.func.value.id == "np" and len(node.args) == 1 \
                    and not node.keywords and isinstance(node.args[0], ast.BinOp) and isinstance(node.args[0].op, ast.Mult) \
                    and isinstance(node.args[0].left, ast.List) and len(node.args[0].left.elts) == 1:
                return ("repeat", self.ex(node.args[0].left.elts[0], env), self.ex(node.args[0].right, env))
            return self.ex(node, env)
        except Unsupported:
            if opaque_ok:
                return OpaqueVal(src_of(self.lines, node))
            raise

    def call(self, node, env, out, opaque_ok, depth):
        name = node.func.attr
        fn = self.methods.get(name)
        if fn is None:
            self.fail(node, "call of unknown method %s" % name)
        if depth > 4:
            self.fail(node, "helper nesting too deep")
        if node.keywords:
            self.fail(node, "keyword arguments")
        params = [a.arg for a in fn.args.args][1:]
        if len(params) != len(node.args):
            self.fail(node, "arity of %s" % name)
        sub = {}
        for p, a in zip(params, node.args):
            if not isinstance(a, ast.Name) or a.id not in env:
                self.fail(node, "argument of helper call")
            sub[p] = env[a.id]
        return self.body(fn.body, sub, out, opaque_ok, depth + 1)

    # -- statements -----------------------------------------------------------------------------------------------
    def written_paths(self, nodes, env):
        res = []
        for st in nodes:
            for n in ast.walk(st):
                tgts = []
                if isinstance(n, ast.Assign):
                    tgts = n.targets
                elif isinstance(n, ast.AugAssign):
                    tgts = [n.target]
                for t in tgts:
                    if isinstance(t, ast.Subscript):
                        base, keys = self.subscript_chain(t)
                        if isinstance(base, ast.Name) and isinstance(env.get(base.id), Store):
                            ks = [self.static_str(k, env) for k in keys]
                            p = env[base.id].prefix + "/".join(k if k is not None else "*" for k in ks)
                            if p not in res:
                                res.append(p)
        return res

    def emit_store_write(self, st, store, path, val, out):
        full = store.prefix + path
        if isinstance(val, SymDict):
            if "/" in path:
                self.fail(st, "dict stored below the top level")
            val.frozen = True     # the same object now lives in the store: no further local mutation allowed
            out.append(("write", full, ("emptyDict",)))
            for k, v in val.items.items():
                out.append(("write", full + "/" + k, v))
        elif isinstance(val, OpaqueVal):
            out.append(("write", full, ("opaque", val.src)))
        elif isinstance(val, tuple) and val[0] == "list":
            out.append(("writeList", full, val[1]))
        elif isinstance(val, tuple) and val[0] == "repeat":
            out.append(("writeRepeat", full, val[1], val[2]))
        elif isinstance(val, tuple):
            out.append(("write", full, val))
        else:
            self.fail(st, "value stored")

    def body(self, stmts, env, out, opaque_ok, depth):
        """executes the statements symbolically, appends Stmt tuples to `out`, returns the returned symbolic value"""
        for st in stmts:
            r = self.stmt(st, env, out, opaque_ok, depth)
            if r is not None:
                return r[0]
        return None

    def stmt(self, st, env, out, opaque_ok, depth):
        if isinstance(st, ast.Expr):
            if isinstance(st.value, ast.Constant) and isinstance(st.value.value, str):
                return None
            if isinstance(st.value, ast.Call) and isinstance(st.value.func, ast.Name) and st.value.func.id == "print":
                return None
            self.fail(st, "expression statement")
        if isinstance(st, ast.AugAssign):
            if isinstance(st.target, ast.Attribute) and isinstance(st.target.value, ast.Name) and st.target.value.id == "self" \
                    and st.target.attr == "scenario_description" and isinstance(st.op, ast.Add):
                return None
            self.fail(st, "augmented assignment")
        if isinstance(st, ast.Return):
            if st.value is None:
                return (None,)
            if isinstance(st.value, ast.Name) and st.value.id in env:
                return (env[st.value.id],)
            self.fail(st, "return value")
        if isinstance(st, ast.Assert):
            return self.assert_(st, env, out, opaque_ok)
        if isinstance(st, ast.Assign) and len(st.targets) == 1:
            return self.assign(st, env, out, opaque_ok, depth)
        if isinstance(st, ast.For):
            rng = st.iter
            if isinstance(st.target, ast.Name) and isinstance(rng, ast.Call) and isinstance(rng.func, ast.Name) and rng.func.id == "range" \
                    and 1 <= len(rng.args) <= 2 and all(isinstance(a, ast.Constant) and isinstance(a.value, int) for a in rng.args) \
                    and not st.orelse:
                a, b = (0, rng.args[0].value) if len(rng.args) == 1 else (rng.args[0].value, rng.args[1].value)
                if b - a > 1000:
                    self.fail(st, "loop too long to unroll")
                tmp = []
                try:
                    for i in range(a, b):
                        env2 = dict(env)
                        env2[st.target.id] = i
                        r = self.body(st.body, env2, tmp, False, depth)
                        if r is not None:
                            self.fail(st, "return inside a loop")
                        for k, v in env2.items():   # locals assigned in the loop body stay visible
                            if k != st.target.id:
                                env[k] = v
                    out.extend(tmp)
                    return None
                except Unsupported:
                    if not opaque_ok:
                        raise
            if opaque_ok:
                out.append(("opaque", src_of(self.lines, st), self.written_paths([st], env)))
                return None
            self.fail(st, "loop outside the grammar")
        if isinstance(st, ast.If):
            if isinstance(st.test, ast.Name) and isinstance(env.get(st.test.id), bool):
                r = self.body(st.body if env[st.test.id] else st.orelse, env, out, opaque_ok, depth)
                return None if r is None else (r,)
            if isinstance(st.test, ast.Compare) and len(st.test.ops) == 1 and isinstance(st.test.ops[0], ast.Eq) and not st.orelse:
                a, b = self.ex(st.test.left, env), self.ex(st.test.comparators[0], env)
                tmp = []
                for s2 in st.body:
                    if not (isinstance(s2, ast.Assign) and len(s2.targets) == 1 and isinstance(s2.targets[0], ast.Subscript)):
                        self.fail(s2, "statement of a guarded block")
                    self.assign(s2, env, tmp, False, depth)
                for t in tmp:
                    if t[0] != "write":
                        self.fail(st, "guarded write")
                    out.append(("writeIfEq", a, b, t[1], t[2]))
                return None
            self.fail(st, "conditional outside the grammar")
        self.fail(st, "statement outside the grammar")

    def assert_(self, st, env, out, opaque_ok):
        t = st.test
        neg = False
        if isinstance(t, ast.UnaryOp) and isinstance(t.op, ast.Not):
            neg, t = True, t.operand
        if isinstance(t, ast.Attribute) and isinstance(t.value, ast.Name) and t.value.id == "self":
            if t.attr in self.flagset and neg:
                out.append(("assertClear", t.attr))
                return None
            if t.attr == "IS_GLOBAL_ANALYSIS":
                out.append(("assertScope", not neg))
                return None
        if not neg and isinstance(t, ast.Compare) and len(t.ops) == 1 and isinstance(t.ops[0], ast.In) \
                and isinstance(t.left, ast.Constant) and isinstance(t.left.value, str):
            c = t.comparators[0]
            if isinstance(c, ast.Call) and isinstance(c.func, ast.Attribute) and c.func.attr == "keys" and not c.args \
                    and isinstance(c.func.value, ast.Name) and isinstance(env.get(c.func.value.id), Store):
                out.append(("assertHasKey", env[c.func.value.id].prefix + t.left.value))
                return None
        if not neg and isinstance(t, ast.Compare) and len(t.ops) == 2 and all(isinstance(o, ast.GtE) for o in t.ops):
            try:
                hi, x, lo = self.ex(t.left, env), self.ex(t.comparators[0], env), self.ex(t.comparators[1], env)
                out.append(("assertRange", x, lo, hi))
                return None
            except Unsupported:
                if not opaque_ok:
                    raise
        if opaque_ok:
            out.append(("opaque", src_of(self.lines, st), []))
            return None
        self.fail(st, "assertion outside the grammar")

    def assign(self, st, env, out, opaque_ok, depth):
        tgt = st.targets[0]
        if isinstance(tgt, ast.Attribute) and isinstance(tgt.value, ast.Name) and tgt.value.id == "self":
            if tgt.attr in self.flagset and isinstance(st.value, ast.Constant) and st.value.value is True:
                out.append(("setFlag", tgt.attr))
                return None
            if tgt.attr == "IS_GLOBAL_ANALYSIS" and isinstance(st.value, ast.Constant) and isinstance(st.value.value, bool):
                out.append(("setScope", st.value.value))
                return None
            self.fail(st, "attribute assignment")
        if isinstance(tgt, ast.Name):
            if isinstance(st.value, ast.Dict) and not st.value.keys and tgt.id in STORE_PARAMS:
                if tgt.id != "constants_for_params":
                    self.fail(st, "fresh dictionary")
                env[tgt.id] = Store(STORE_PARAMS[tgt.id])
                out.append(("newDict",))
                return None
            if isinstance(st.value, ast.Constant) and isinstance(st.value.value, bool):
                env[tgt.id] = st.value.value
                return None
            v = self.value(st.value, env, out, opaque_ok, depth)
            if isinstance(v, tuple) and v[0] in ("list", "repeat"):
                if not opaque_ok:
                    self.fail(st, "local list")
                v = OpaqueVal(src_of(self.lines, st))
            if v is None:
                self.fail(st, "helper returns nothing")
            env[tgt.id] = v
            return None
        if isinstance(tgt, ast.Subscript):
            base, keys = self.subscript_chain(tgt)
            if isinstance(base, ast.Name):
                b = env.get(base.id)
                ks = [self.static_str(k, env) for k in keys]
                if isinstance(b, Store):
                    if None in ks or not (1 <= len(ks) <= 2):
                        if opaque_ok:
                            out.append(("opaque", src_of(self.lines, st), self.written_paths([st], env)))
                            return None
                        self.fail(st, "dynamic or too deep key")
                    v = self.value(st.value, env, out, opaque_ok, depth)
                    self.emit_store_write(st, b, "/".join(ks), v, out)
                    return None
                if isinstance(b, SymDict) and len(ks) == 1 and ks[0] is not None:
                    if b.frozen:
                        self.fail(st, "local dictionary changed after it was stored (aliasing)")
                    b.items[ks[0]] = self.ex(st.value, env)
                    return None
        if opaque_ok and isinstance(tgt, ast.Name):
            env[tgt.id] = OpaqueVal(src_of(self.lines, st))
            return None
        self.fail(st, "assignment outside the grammar")

    # -- a whole setter -------------------------------------------------------------------------------------------
    def setter(self, name):
        fn = self.methods[name]
        if fn.args.vararg or fn.args.kwarg or fn.args.kwonlyargs or fn.args.defaults:
            self.fail(fn, "signature")
        params = [a.arg for a in fn.args.args][1:]
        env = {}
        for p in params:
            if p in STORE_PARAMS:
                env[p] = Store(STORE_PARAMS[p])
            elif p == "country_data":
                env[p] = "COUNTRY"
            else:
                self.fail(fn, "parameter %s" % p)
        out = []
        opaque_ok = name in OPAQUE
        ret = self.body(fn.body, env, out, opaque_ok, 0)
        if not isinstance(ret, Store):
            self.fail(fn, "setter does not return the dictionary it fills")
        return {"name": name, "params": params, "body": out, "opaque": opaque_ok, "returns": ret.prefix}

    def entry_setters(self):
        return [n for n in self.methods if n not in NOT_SETTERS and n not in self.called]


# ---------------------------------------------------------------------------------------------------------------------
# the dispatcher
ALTER_FINGERPRINT_NOTE = "alter_scenario_if_known_to_fail: everything except the failing_scenarios literal must have exactly this shape"


class Dispatch:
    def __init__(self, text, setters):
        self.lines = text.split("\n")
        tree = ast.parse(text)
        cls = [n for n in tree.body if isinstance(n, ast.ClassDef) and n.name == "ScenarioRunner"]
        if not cls:
            raise Unsupported("class ScenarioRunner not found")
        self.methods = {n.name: n for n in cls[0].body if isinstance(n, ast.FunctionDef)}
        self.setters = setters

    def fail(self, node, what):
        raise Unsupported("%s at run_scenario.py line %d: %s" % (what, node.lineno, src_of(self.lines, node)))

    # scenario_option_copy["k"]
    def opt_ref(self, node, var="scenario_option_copy"):
        if isinstance(node, ast.Subscript) and isinstance(node.value, ast.Name) and node.value.id == var \
                and isinstance(node.slice, ast.Constant) and isinstance(node.slice.value, str):
            return node.slice.value
        return None

    def is_keys_of(self, node, var):
        return isinstance(node, ast.Call) and isinstance(node.func, ast.Attribute) and node.func.attr == "keys" and not node.args \
            and isinstance(node.func.value, ast.Name) and node.func.value.id == var

    def is_reject(self, stmts):
        """`scenario_is_correct = False` ; `assert scenario_is_correct, msg`"""
        if len(stmts) != 2:
            return False
        a, b = stmts
        return (isinstance(a, ast.Assign) and len(a.targets) == 1 and isinstance(a.targets[0], ast.Name) and a.targets[0].id == "scenario_is_correct"
                and isinstance(a.value, ast.Constant) and a.value.value is False
                and isinstance(b, ast.Assert) and isinstance(b.test, ast.Name) and b.test.id == "scenario_is_correct")

    def cfp_key(self, node):
        if isinstance(node, ast.Subscript) and isinstance(node.value, ast.Name) and node.value.id == "constants_for_params" \
                and isinstance(node.slice, ast.Constant) and isinstance(node.slice.value, str):
            return node.slice.value
        return None

    def actions(self, stmts):
        acts = []
        for st in stmts:
            if isinstance(st, ast.Expr) and isinstance(st.value, ast.Call):
                f = st.value.func
                if isinstance(f, ast.Name) and f.id == "print":
                    continue
                if isinstance(f, ast.Attribute) and f.attr == "exit" and isinstance(f.value, ast.Name) and f.value.id == "sys":
                    acts.append(("exit",))
                    break           # everything after sys.exit() is dead code
            if isinstance(st, ast.Assert) and isinstance(st.test, ast.Compare) and len(st.test.ops) == 1 and isinstance(st.test.ops[0], ast.Is) \
                    and isinstance(st.test.left, ast.Name) and st.test.left.id == "country_data" \
                    and isinstance(st.test.comparators[0], ast.Constant) and st.test.comparators[0].value is None:
                acts.append(("stmt", ("assertNoCountry",)))
                continue
            if isinstance(st, ast.Assign) and len(st.targets) == 1:
                tgt, val = st.targets[0], st.value
                if isinstance(tgt, ast.Name) and tgt.id in ("constants_for_params", "time_consts_for_params") and isinstance(val, ast.Call) \
                        and isinstance(val.func, ast.Attribute) and isinstance(val.func.value, ast.Name) and val.func.value.id == "scenario_loader":
                    nm = val.func.attr
                    info = self.setters.get(nm)
                    if info is None:
                        self.fail(st, "dispatch calls %s, which is not a setter of Scenarios" % nm)
                    argmap = {"constants_for_params": "constants_for_params", "country_data": "country_data", "time_consts_for_params": "time_consts"}
                    if val.keywords or not all(isinstance(a, ast.Name) and a.id in argmap for a in val.args) \
                            or [argmap[a.id] for a in val.args] != info["params"]:
                        self.fail(st, "arguments of %s do not match its parameters %s" % (nm, info["params"]))
                    want = "constants_for_params" if info["returns"] == "" else "time_consts_for_params"
                    if tgt.id != want:
                        self.fail(st, "result of %s bound to the wrong dictionary" % nm)
                    acts.append(("call", nm))
                    continue
                k = self.cfp_key(tgt)
                if k is not None:
                    if isinstance(val, ast.Constant) and isinstance(val.value, str):
                        acts.append(("stmt", ("write", k, ("lit", "str", val.value))))
                        continue
                    if isinstance(val, ast.Subscript) and isinstance(val.value, ast.Name) and val.value.id == "country_data" \
                            and isinstance(val.slice, ast.Constant) and isinstance(val.slice.value, str):
                        acts.append(("stmt", ("write", k, ("cd", val.slice.value))))
                        continue
                    o = self.opt_ref(val)
                    if o is not None:
                        acts.append(("stmt", ("write", k, ("opt", o))))
                        continue
            self.fail(st, "statement of a dispatch branch outside the grammar")
        return acts

    def family(self, st):
        branches, opt = [], None
        node = st
        while True:
            t = node.test
            if not (isinstance(t, ast.Compare) and len(t.ops) == 1 and isinstance(t.ops[0], ast.Eq)
                    and isinstance(t.comparators[0], ast.Constant) and isinstance(t.comparators[0].value, str)):
                self.fail(node, "dispatch test")
            o = self.opt_ref(t.left)
            if o is None or (opt is not None and o != opt):
                self.fail(node, "dispatch test mixes option families")
            opt = o
            branches.append((t.comparators[0].value, self.actions(node.body)))
            if len(node.orelse) == 1 and isinstance(node.orelse[0], ast.If):
                node = node.orelse[0]
                continue
            if self.is_reject(node.orelse):
                default = None
            else:
                default = self.actions(node.orelse)   # unknown values are NOT rejected: theorem C13_unknown_rejected breaks
            break
        vals = [v for v, _ in branches]
        if len(set(vals)) != len(vals):
            self.fail(st, "value tested twice")
        return ("family", opt, branches, default)

    def float_of_opt(self, node):
        if isinstance(node, ast.Call) and isinstance(node.func, ast.Name) and node.func.id in ("float", "int") and len(node.args) == 1:
            return node.func.id, node.args[0]
        return None, None

    def range_assert(self, st, what):
        """assert lo <= <what> <= hi  ->  (lo, hi)"""
        if isinstance(st, ast.Assert) and isinstance(st.test, ast.Compare) and len(st.test.ops) == 2 and all(isinstance(o, ast.LtE) for o in st.test.ops):
            lo, mid, hi = st.test.left, st.test.comparators[0], st.test.comparators[1]
            if what(mid) and all(isinstance(x, ast.Constant) and isinstance(x.value, (int, float)) for x in (lo, hi)):
                return lit_num(lo.value), lit_num(hi.value)
        return None

    def override(self, st):
        # for key in scenario_option_copy.keys(): if "needle" in key: constants_for_params[<key or f"{key}suffix">] = conv(scenario_option_copy[key])
        if isinstance(st, ast.For) and isinstance(st.target, ast.Name) and self.is_keys_of(st.iter, "scenario_option_copy") and not st.orelse \
                and len(st.body) == 1 and isinstance(st.body[0], ast.If) and not st.body[0].orelse:
            kv = st.target.id
            iff = st.body[0]
            t = iff.test
            if isinstance(t, ast.Compare) and len(t.ops) == 1 and isinstance(t.ops[0], ast.In) and isinstance(t.left, ast.Constant) \
                    and isinstance(t.left.value, str) and isinstance(t.comparators[0], ast.Name) and t.comparators[0].id == kv \
                    and len(iff.body) == 1 and isinstance(iff.body[0], ast.Assign) and len(iff.body[0].targets) == 1:
                a = iff.body[0]
                tg = a.targets[0]
                if isinstance(tg, ast.Subscript) and isinstance(tg.value, ast.Name) and tg.value.id == "constants_for_params":
                    sl = tg.slice
                    suffix = None
                    if isinstance(sl, ast.Name) and sl.id == kv:
                        suffix = ""
                    elif isinstance(sl, ast.JoinedStr) and len(sl.values) == 2 and isinstance(sl.values[0], ast.FormattedValue) \
                            and isinstance(sl.values[0].value, ast.Name) and sl.values[0].value.id == kv and sl.values[0].conversion == -1 \
                            and sl.values[0].format_spec is None and isinstance(sl.values[1], ast.Constant):
                        suffix = sl.values[1].value
                    conv, arg = self.float_of_opt(a.value)
                    if suffix is not None and conv and isinstance(arg, ast.Subscript) and isinstance(arg.value, ast.Name) \
                            and arg.value.id == "scenario_option_copy" and isinstance(arg.slice, ast.Name) and arg.slice.id == kv:
                        return ("substr", t.left.value, suffix, conv)
            self.fail(st, "override loop outside the grammar")
        # if "K" in scenario_option_copy.keys(): ...
        if isinstance(st, ast.If) and not st.orelse and isinstance(st.test, ast.Compare) and len(st.test.ops) == 1 \
                and isinstance(st.test.ops[0], ast.In) and isinstance(st.test.left, ast.Constant) and isinstance(st.test.left.value, str) \
                and self.is_keys_of(st.test.comparators[0], "scenario_option_copy"):
            key = st.test.left.value
            b = st.body
            first = b[0] if b else None
            if isinstance(first, ast.Assign) and len(first.targets) == 1:
                conv, arg = self.float_of_opt(first.value)
                if conv == "float" and self.opt_ref(arg) == key:
                    tgt = first.targets[0]
                    k = self.cfp_key(tgt)
                    if k is not None:            # exact override
                        rng = self.range_assert(b[1], lambda m: self.cfp_key(m) == k) if len(b) >= 2 else None
                        if rng is None:
                            self.fail(st, "override without its range assertion")
                        extra = []
                        for s2 in b[2:]:
                            k2 = None
                            if isinstance(s2, ast.Assign) and len(s2.targets) == 1:
                                k2 = self.cfp_key(s2.targets[0])
                            elif isinstance(s2, ast.AugAssign):
                                k2 = self.cfp_key(s2.target)
                            if k2 is None:
                                self.fail(s2, "statement of an override block outside the grammar")
                            extra.append(k2)
                        return ("exact", key, k, rng[0], rng[1], extra)
                    if isinstance(tgt, ast.Name):   # multiplier
                        mv = tgt.id
                        rng = self.range_assert(b[1], lambda m: isinstance(m, ast.Name) and m.id == mv) if len(b) >= 2 else None
                        if rng is None:
                            self.fail(st, "multiplier without its range assertion")

                        def mul_target(s2):
                            if isinstance(s2, ast.AugAssign) and isinstance(s2.op, ast.Mult) and isinstance(s2.value, ast.Name) and s2.value.id == mv:
                                return self.cfp_key(s2.target)
                            return None
                        targets, tries = [], []
                        for s2 in b[2:]:
                            k2 = mul_target(s2)
                            if k2 is not None:
                                targets.append(k2)
                                continue
                            if isinstance(s2, ast.Try) and len(s2.body) == 1 and mul_target(s2.body[0]) is not None and len(s2.handlers) == 1 \
                                    and len(s2.handlers[0].body) == 1 and isinstance(s2.handlers[0].body[0], ast.Pass) \
                                    and not s2.orelse and not s2.finalbody:
                                tries.append(mul_target(s2.body[0]))
                                continue
                            self.fail(s2, "statement of a multiplier block outside the grammar")
                        return ("mult", key, rng[0], rng[1], targets, tries)
            self.fail(st, "override block outside the grammar")
        return None

    def translate(self):
        fn = self.methods.get("set_depending_on_option")
        if fn is None:
            raise Unsupported("set_depending_on_option not found")
        if [a.arg for a in fn.args.args] != ["self", "scenario_option", "country_data"]:
            self.fail(fn, "signature")
        items = []
        consts = {}
        seen_return = False
        for st in fn.body:
            if seen_return:
                self.fail(st, "statement after return")
            if isinstance(st, ast.Expr) and isinstance(st.value, ast.Constant):
                continue
            # local constants / fresh objects
            if isinstance(st, ast.Assign) and len(st.targets) == 1 and isinstance(st.targets[0], ast.Name):
                nm, v = st.targets[0].id, st.value
                if isinstance(v, ast.Constant) and isinstance(v.value, bool):
                    consts[nm] = v.value
                    continue
                if nm == "scenario_loader" and isinstance(v, ast.Call) and isinstance(v.func, ast.Name) and v.func.id == "Scenarios" and not v.args:
                    continue
                if nm == "time_consts_for_params" and isinstance(v, ast.Dict) and not v.keys:
                    continue
            # assert "k" in scenario_option.keys()
            if isinstance(st, ast.Assert) and isinstance(st.test, ast.Compare) and len(st.test.ops) == 1 and isinstance(st.test.ops[0], ast.In) \
                    and isinstance(st.test.left, ast.Constant) and isinstance(st.test.left.value, str) \
                    and self.is_keys_of(st.test.comparators[0], "scenario_option"):
                items.append(("require", st.test.left.value))
                continue
            if isinstance(st, ast.If) and isinstance(st.test, ast.Name) and st.test.id in consts:
                if st.test.id == "ALTER_FAILING_SCENARIO_FLAG" and consts[st.test.id] is True:
                    want = ("If(test=Compare(left=Name(id='country_data', ctx=Load()), ops=[Is()], comparators=[Constant(value=None)]), "
                            "body=[Assign(targets=[Name(id='scenario_option_copy', ctx=Store())], value=Call(func=Attribute(value=Name(id='self', ctx=Load()), "
                            "attr='alter_scenario_if_known_to_fail', ctx=Load()), args=[Name(id='scenario_option', ctx=Load()), Constant(value='WOR')], keywords=[]))], "
                            "orelse=[Assign(targets=[Name(id='scenario_option_copy', ctx=Store())], value=Call(func=Attribute(value=Name(id='self', ctx=Load()), "
                            "attr='alter_scenario_if_known_to_fail', ctx=Load()), args=[Name(id='scenario_option', ctx=Load()), "
                            "Subscript(value=Name(id='country_data', ctx=Load()), slice=Constant(value='iso3'), ctx=Load())], keywords=[]))])")
                    if len(st.body) == 1 and ast.dump(st.body[0]) == want:
                        items.append(("alter",))
                        continue
                    self.fail(st, "the copy-and-alter step changed shape")
                if consts[st.test.id] is False and not st.orelse:
                    continue        # `if PRINT_SCENARIO_OPTIONS:` debugging block, statically off
                self.fail(st, "conditional on a local constant")
            if isinstance(st, ast.If) and self.opt_ref(getattr(st.test, "left", None)) is not None:
                items.append(self.family(st))
                continue
            ov = self.override(st)
            if ov is not None:
                items.append(("override", ov))
                continue
            if isinstance(st, ast.Assign):
                acts = self.actions([st])
                if len(acts) == 1 and acts[0][0] == "stmt":
                    items.append(("stmt", acts[0][1]))
                    continue
            if isinstance(st, ast.Return):
                want = "Tuple(elts=[Name(id='constants_for_params', ctx=Load()), Name(id='time_consts_for_params', ctx=Load()), Name(id='scenario_loader', ctx=Load())], ctx=Load())"
                if st.value is not None and ast.dump(st.value) == want:
                    seen_return = True
                    continue
            self.fail(st, "statement of set_depending_on_option outside the grammar")
        if not seen_return:
            self.fail(fn, "no return")
        if ("alter",) not in items:
            self.fail(fn, "options are not copied before use (alter_scenario_if_known_to_fail / deepcopy missing)")
        k = items.index(("alter",))
        if not all(i[0] == "require" for i in items[:k]) or any(i[0] in ("require", "alter") for i in items[k + 1:]):
            self.fail(fn, "expected shape: presence assertions, then the copy-and-alter step, then the dispatch")
        self.required = [i[1] for i in items[:k]]
        return items[k + 1:]

    def alter_rules(self):
        fn = self.methods.get("alter_scenario_if_known_to_fail")
        if fn is None:
            raise Unsupported("alter_scenario_if_known_to_fail not found")
        body = [s for s in fn.body if not (isinstance(s, ast.Expr) and isinstance(s.value, ast.Constant))]
        first = body[0]
        if not (isinstance(first, ast.Assign) and isinstance(first.targets[0], ast.Name) and first.targets[0].id == "failing_scenarios"):
            self.fail(first, "failing_scenarios literal expected first")
        try:
            raw = ast.literal_eval(first.value)
        except Exception:
            self.fail(first, "failing_scenarios is not a literal")
        fp = hashlib.sha256(("|".join(ast.dump(s) for s in body[1:]) + "|" + ast.dump(fn.args)).encode()).hexdigest()[:16]
        if fp != ALTER_FINGERPRINT:
            self.fail(body[1], "alter_scenario_if_known_to_fail no longer has the shape the model mirrors (fingerprint %s)" % fp)
        rules = []
        for r in raw:
            if not isinstance(r, dict) or not {"country_code", "CORRECTION", "WARNING"} <= set(r) or len(r["CORRECTION"]) != 1:
                self.fail(first, "entry of failing_scenarios")
            conds = [(k, v) for k, v in r.items() if k not in ("country_code", "CORRECTION", "WARNING")]
            if not all(isinstance(v, list) and all(isinstance(x, str) for x in v) for _, v in conds):
                self.fail(first, "entry of failing_scenarios")
            (ck, cv), = r["CORRECTION"].items()
            rules.append((r["country_code"], conds, ck, cv))
        return rules


# sha256 of ast.dump of the body of alter_scenario_if_known_to_fail after the failing_scenarios literal (two deep copies of the
# caller's dictionary, loop over the rules, subset assertion, all-values-match, correction applied to the COPY, copies returned)
ALTER_FINGERPRINT = "5afd32ff2fb7b6f7"


# ---------------------------------------------------------------------------------------------------------------------
# the herd loader's key handling (animal_populations.main) and the head-count columns
def loader_key_function(text):
    """the statement `df_animal_stock_info.loc[country_code, <f(key)>] = value` under `if "_head_start" in key:`.
       returns ("removesuffix" | "strip", needle, argument)"""
    tree = ast.parse(text)
    fn = [n for n in tree.body if isinstance(n, ast.FunctionDef) and n.name == "main"]
    if not fn:
        raise Unsupported("animal_populations.main not found")
    lines = text.split("\n")
    for n in ast.walk(fn[0]):
        if isinstance(n, ast.For) and isinstance(n.iter, ast.Call) and isinstance(n.iter.func, ast.Attribute) and n.iter.func.attr == "items" \
                and isinstance(n.iter.func.value, ast.Name) and n.iter.func.value.id == "constants_inputs":
            if not (isinstance(n.target, ast.Tuple) and len(n.target.elts) == 2 and all(isinstance(e, ast.Name) for e in n.target.elts)):
                break
            kv, vv = n.target.elts[0].id, n.target.elts[1].id
            if len(n.body) == 1 and isinstance(n.body[0], ast.If) and not n.body[0].orelse and len(n.body[0].body) == 1:
                iff = n.body[0]
                t = iff.test
                a = iff.body[0]
                if isinstance(t, ast.Compare) and len(t.ops) == 1 and isinstance(t.ops[0], ast.In) and isinstance(t.left, ast.Constant) \
                        and isinstance(t.comparators[0], ast.Name) and t.comparators[0].id == kv and isinstance(a, ast.Assign) \
                        and isinstance(a.value, ast.Name) and a.value.id == vv and isinstance(a.targets[0], ast.Subscript):
                    sl = a.targets[0].slice
                    tv = a.targets[0].value
                    if isinstance(tv, ast.Attribute) and tv.attr == "loc" and isinstance(tv.value, ast.Name) and tv.value.id == "df_animal_stock_info" \
                            and isinstance(sl, ast.Tuple) and len(sl.elts) == 2 and isinstance(sl.elts[0], ast.Name) and sl.elts[0].id == "country_code":
                        c = sl.elts[1]
                        if isinstance(c, ast.Call) and isinstance(c.func, ast.Attribute) and isinstance(c.func.value, ast.Name) and c.func.value.id == kv \
                                and c.func.attr in ("removesuffix", "strip") and len(c.args) == 1 and isinstance(c.args[0], ast.Constant) \
                                and isinstance(c.args[0].value, str) and not c.keywords:
                            return (c.func.attr, t.left.value, c.args[0].value)
            raise Unsupported("head-count override loop of animal_populations.main outside the grammar at line %d: %s" % (n.lineno, lines[n.lineno - 1].strip()))
    raise Unsupported("head-count override loop (for key, value in constants_inputs.items()) not found in animal_populations.main")


def head_columns(repo):
    p = os.path.join(repo, "data", "no_food_trade", "animal_feed_data", "FAOSTAT_head_and_slaughter.csv")
    with open(p, newline="") as f:
        header = next(csv.reader(f))
    p2 = os.path.join(repo, "data", "no_food_trade", "animal_feed_data", "species_attributes.csv")
    with open(p2, newline="") as f:
        rd = csv.reader(f)
        h2 = next(rd)
        species = [r[0] for r in rd if r and r[0]]
    if h2[0] != "animal":
        raise Unsupported("species_attributes.csv: first column is %r" % h2[0])
    return [c for c in header if "head" in c], [c for c in header if "slaughter" in c], species


# ---------------------------------------------------------------------------------------------------------------------
# Lean emission
def ls(s):
    out = []
    for ch in s:
        if ch == "\\":
            out.append("\\\\")
        elif ch == '"':
            out.append('\\"')
        elif ch == "\n":
            out.append("\\n")
        elif ch == "\t":
            out.append("\\t")
        elif ord(ch) < 32 or ord(ch) > 126:
            out.append("?")
        else:
            out.append(ch)
    return '"' + "".join(out) + '"'


def li(i):
    return str(i) if i >= 0 else "(%d)" % i


def lean_lit(t):
    if t[1] == "num":
        return "(.num %s %s)" % (li(t[2]), li(t[3]))
    if t[1] == "bool":
        return "(.bool %s)" % ("true" if t[2] else "false")
    return "(.str %s)" % ls(t[2])


def lean_ex(e):
    k = e[0]
    if k == "lit":
        return "(.lit %s)" % lean_lit(e)
    if k in ("cd", "const", "opt", "opaque"):
        return "(.%s %s)" % (k, ls(e[1]))
    if k in ("add", "sub", "mul", "div"):
        return "(.%s %s %s)" % (k, lean_ex(e[1]), lean_ex(e[2]))
    if k == "emptyDict":
        return ".emptyDict"
    raise Unsupported("internal: expression %r" % (e,))


def lean_list(xs):
    return "[" + ", ".join(xs) + "]"


def lean_stmt(s):
    k = s[0]
    if k in ("assertClear", "setFlag", "assertHasKey"):
        return ".%s %s" % (k, ls(s[1]))
    if k in ("assertScope", "setScope"):
        return ".%s %s" % (k, "true" if s[1] else "false")
    if k in ("newDict", "assertNoCountry"):
        return "." + k
    if k == "assertRange":
        return ".assertRange %s %s %s" % (lean_ex(s[1]), lean_ex(s[2]), lean_ex(s[3]))
    if k == "write":
        return ".write %s %s" % (ls(s[1]), lean_ex(s[2]))
    if k == "writeList":
        return ".writeList %s %s" % (ls(s[1]), lean_list(lean_ex(x) for x in s[2]))
    if k == "writeRepeat":
        return ".writeRepeat %s %s %s" % (ls(s[1]), lean_ex(s[2]), lean_ex(s[3]))
    if k == "writeIfEq":
        return ".writeIfEq %s %s %s %s" % (lean_ex(s[1]), lean_ex(s[2]), ls(s[3]), lean_ex(s[4]))
    if k == "opaque":
        return ".opaque %s %s" % (ls(s[1]), lean_list(ls(p) for p in s[2]))
    raise Unsupported("internal: statement %r" % (s,))


def lean_action(a):
    if a[0] == "call":
        return ".call %s" % ls(a[1])
    if a[0] == "exit":
        return ".exit"
    return ".stmt (%s)" % lean_stmt(a[1])


def lean_override(o):
    if o[0] == "substr":
        return ".substr %s %s .%s" % (ls(o[1]), ls(o[2]), o[3])
    if o[0] == "exact":
        return ".exact %s %s %s %s %s" % (ls(o[1]), ls(o[2]), lean_lit(o[3]), lean_lit(o[4]), lean_list(ls(x) for x in o[5]))
    return ".mult %s %s %s %s %s" % (ls(o[1]), lean_lit(o[2]), lean_lit(o[3]), lean_list(ls(x) for x in o[4]), lean_list(ls(x) for x in o[5]))


def generate(repo):
    p1 = os.path.join(repo, "src", "scenarios", "scenarios.py")
    p2 = os.path.join(repo, "src", "scenarios", "run_scenario.py")
    p3 = os.path.join(repo, "src", "food_system", "animal_populations.py")
    t1, t2, t3 = open(p1).read(), open(p2).read(), open(p3).read()
    tr = Translator(t1)
    names = tr.entry_setters()
    setters = [tr.setter(n) for n in names]
    by_name = {s["name"]: s for s in setters}
    dp = Dispatch(t2, by_name)
    items = dp.translate()
    rules = dp.alter_rules()
    loader = loader_key_function(t3)
    heads, slaughters, species = head_columns(repo)

    o = ["-- GENERATED on every check run by harness/translators/tr_scenarios.py from /repo/src/scenarios/scenarios.py,",
         "-- /repo/src/scenarios/run_scenario.py, /repo/src/food_system/animal_populations.py (main) and",
         "-- /repo/data/no_food_trade/animal_feed_data/{FAOSTAT_head_and_slaughter,species_attributes}.csv.  Do not edit.",
         "import AllfedModel.Model.ScenarioSyntax",
         "namespace Allfed.Gen.Scenario",
         "open Allfed.Scenario",
         "",
         "/-- flags initialised to False in `Scenarios.__init__` -/",
         "def initFlags : List String := " + lean_list(ls(f) for f in tr.init_flags),
         "/-- flags asserted by `check_all_set` -/",
         "def allFlags : List String := " + lean_list(ls(f) for f in tr.check_flags),
         "/-- methods of `Scenarios` called by other methods (inlined into their callers) -/",
         "def helpers : List String := " + lean_list(ls(n) for n in tr.methods if n in tr.called),
         ""]
    for s in setters:
        o.append("def s_%s : SetterInfo :=" % s["name"])
        o.append("  { name := %s, params := %s, isOpaque := %s, body := [" % (ls(s["name"]), lean_list(ls(p) for p in s["params"]), "true" if s["opaque"] else "false"))
        o.append(",\n".join("      " + lean_stmt(st) for st in s["body"]) + "] }")
        o.append("")
    o.append("def setters : List SetterInfo := [" + ",\n  ".join("s_" + s["name"] for s in setters) + "]")
    o.append("")
    o.append("/-- `assert \"k\" in scenario_option.keys()` at the top of `set_depending_on_option`, in order -/")
    o.append("def requiredOptions : List String := " + lean_list(ls(x) for x in dp.required))
    o.append("/-- `set_depending_on_option` after the presence assertions and the copy-and-alter step, in source order -/")
    o.append("def dispatch : List DispItem := [")
    rows = []
    for it in items:
        if it[0] == "stmt":
            rows.append("  .stmt (%s)" % lean_stmt(it[1]))
        elif it[0] == "override":
            rows.append("  .override (%s)" % lean_override(it[1]))
        else:
            br = ",\n      ".join("{ value := %s, actions := %s }" % (ls(v), lean_list(lean_action(a) for a in acts)) for v, acts in it[2])
            dflt = "none" if it[3] is None else "(some %s)" % lean_list(lean_action(a) for a in it[3])
            rows.append("  .family %s [\n      %s] %s" % (ls(it[1]), br, dflt))
    o.append(",\n".join(rows) + "]")
    o.append("")
    o.append("/-- `failing_scenarios` of `alter_scenario_if_known_to_fail` -/")
    o.append("def failRules : List FailRule := [")
    o.append(",\n".join("  { iso3 := %s, conds := %s, corrKey := %s, corrVal := %s }" % (
        ls(r[0]), lean_list("(%s, %s)" % (ls(k), lean_list(ls(x) for x in v)) for k, v in r[1]), ls(r[2]), ls(r[3])) for r in rules) + "]")
    o.append("")
    o.append("/-- head-count columns of FAOSTAT_head_and_slaughter.csv (the table `animal_populations.main` overrides) -/")
    o.append("def headColumns : List String := " + lean_list(ls(c) for c in heads))
    o.append("def slaughterColumns : List String := " + lean_list(ls(c) for c in slaughters))
    o.append("/-- `animal` column of species_attributes.csv -/")
    o.append("def speciesNames : List String := " + lean_list(ls(c) for c in species))
    o.append("/-- `animal_populations.main`: `if loaderNeedle in key: table[key.<loaderFunction>(loaderArg)] = value` -/")
    o.append("def loaderFunction : String := " + ls(loader[0]))
    o.append("def loaderNeedle : String := " + ls(loader[1]))
    o.append("def loaderArg : String := " + ls(loader[2]))
    o.append("")
    o.append("end Allfed.Gen.Scenario")
    o.append("")
    meta = {"setters": setters, "dispatch": items, "required": dp.required, "rules": rules, "heads": heads, "species": species, "loader": loader,
            "init_flags": tr.init_flags, "check_flags": tr.check_flags, "helpers": [n for n in tr.methods if n in tr.called],
            "files": {"src/scenarios/scenarios.py": t1, "src/scenarios/run_scenario.py": t2, "src/food_system/animal_populations.py": t3}}
    return "\n".join(o), meta


META_CACHE = os.path.join(ROOT, "lean", "AllfedModel", "Gen", "ScenarioTable.meta.pickle")


def last_good_meta():
    """metadata of the table currently on disk (written by the last successful translation); used by the correspondence
    when today's source is outside the grammar, so that the OLD model can still be run against the CHANGED code"""
    import pickle
    with open(META_CACHE, "rb") as f:
        return pickle.load(f)


def run(ctx):
    body, meta = generate(ctx.repo)
    import pickle
    slim = {k: v for k, v in meta.items() if k != "files"}
    blob = pickle.dumps(slim, protocol=4)
    if not os.path.exists(META_CACHE) or open(META_CACHE, "rb").read() != blob:
        os.makedirs(os.path.dirname(META_CACHE), exist_ok=True)
        with open(META_CACHE, "wb") as f:
            f.write(blob)
    old = open(OUT).read() if os.path.exists(OUT) else None
    if old != body:
        os.makedirs(os.path.dirname(OUT), exist_ok=True)
        with open(OUT, "w") as f:
            f.write(body)
        ctx.count("translator:tr_scenarios:rewritten")
    ti = ctx.extra.setdefault("translator_inputs", {})
    for k, v in meta["files"].items():
        ti[k] = hashlib.sha256(v.encode()).hexdigest()[:16]
    ctx.extra["scenario_table"] = {"setters": len(meta["setters"]), "opaque_setters": sum(1 for s in meta["setters"] if s["opaque"]),
                                   "statements": sum(len(s["body"]) for s in meta["setters"]),
                                   "dispatch_families": sum(1 for i in meta["dispatch"] if i[0] == "family"),
                                   "dispatch_values": sum(len(i[2]) for i in meta["dispatch"] if i[0] == "family"),
                                   "overrides": sum(1 for i in meta["dispatch"] if i[0] == "override"),
                                   "head_columns": len(meta["heads"])}
    run.meta = meta
    return meta


run.__name__ = "tr_scenarios"
run.meta = None

if __name__ == "__main__":
    import sys
    print(generate(sys.argv[1] if len(sys.argv) > 1 else "/repo")[0])
