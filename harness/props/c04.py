"""C04 - headline, monthly breakdown and saved tables agree (DESIGN.md §7 C04)."""
import os
import numpy as np
from lib import lpcheck, lpinst, pipeline, wire
from lib.wire import f2b, enc_str, Reader

ID = "C04"
LEVEL = "proof"
DRIVER = "driver_lp"
LEAN_MODULES = ["AllfedModel.Props.C04"]
OBLIGATIONS = ["Allfed.C04." + n for n in [
    "sumPercent_eq_consumed", "headline_eq_min_consumed", "headline_ge_floor", "headline_le_optimum", "headline_within_tolerance",
    "split_adds_up", "contribution_linear", "minOver_le", "minOver_attained",
    "nonhuman_sum_eq_charge", "nonhuman_sum_le_ceiling", "nonhuman_nonneg", "nonhuman_sums_are_totals", "nonhuman_swap_counterexample"]]
LEVEL_TEXT = ("Lean 4 theorems: for every feasible point of the LP the code builds, the sum of the nine per-food percent contributions of a month equals that "
              "month's consumed-kcals variable, so the headline is the minimum consumed; any point satisfying the 0.99995*z floors has headline within 0.005 % of an "
              "optimal z; each contribution is the allocation times a positive constant; the crop split adds up for all inputs. The report model is run against "
              "the real Extractor/Interpreter output and the CSV is read back, for every solved round of the captured runs.")
LEVEL_NOTE = ("Trusted: Lean kernel; the harness; file output is checked by reading the CSV back (pandas round_trip parser), not modelled; that CBC honours the floor "
              "rows is measured per instance, not proved. 'within 0.01 %' is read relative to the optimum (the floor 0.99995 is relative).")
TECHNIQUE = "Lean 4 proof (algebra over the syntactic LP) + correspondence of the reporting model with Extractor/Interpreter + CSV read-back"
RULE = ("every solved round of the captured three-round runs (same presets as C01): 9 per-food series x NMONTHS compared in two units, headline, optimum, CSV; "
        "non-trivial = headline > 0 and at least three foods contribute; distinct = (country, options, round)")
ASSUMPTIONS = ["KCALS_MONTHLY of the optimiser constants equals the conversions' kcals_monthly (checked per instance)",
               "INCLUDE_FAT = INCLUDE_PROTEIN = False"]

FOOD_ATTRS = ["stored_food", "outdoor_crops", "seaweed", "cell_sugar", "scp", "greenhouse", "fish", "meat", "milk"]
CSV_COLS = ["fish", "cell_sugar", "scp", "greenhouse", "seaweed", "milk", "meat", "immediate_outdoor_crops", "new_stored_outdoor_crops", "stored_food"]


def audit_round(ctx, run, k, s, interp, pfm, csv_path):
    case = {"country": run.iso, "options": run.opts, "round": k + 1, "kind": s.kind}
    try:
        inp = lpinst.inp_from_optimizer(s.opt, s.kind)
    except NotImplementedError:
        ctx.count("instance-outside-model")
        return
    enc = lpinst.encode_inp(inp)
    n = inp["nmonths"]
    C = s.opt.consts_for_optimizer
    kd = float(C["KCALS_DAILY"])
    vals = [(nm, v) for nm, v in s.values.items() if v is not None]
    line = "report.series %s %s %d %s" % (f2b(kd), enc, len(vals), " ".join("%s %s" % (enc_str(a), f2b(b)) for a, b in vals))
    rd = Reader(wire.run_driver([line], exe_name="driver_lp")[0])
    head_model = rd.float()
    nm_ = rd.nat()
    months = [rd.floats() for _ in range(nm_)]
    r = interp
    # 1. each contribution = allocation converted to the reporting unit (model vs implementation), both units
    pct_impl = {a: np.asarray(getattr(r, a + ("_kcals_equivalent" if False else "")).kcals, dtype=float) for a in FOOD_ATTRS}
    # the interpreter rounds four of the percent series AFTER computing the headline: compare those with the code's own rounding
    ROUNDED = {"stored_food": 3, "outdoor_crops": 3}
    keq_names = {"stored_food": "stored_food_kcals_equivalent", "seaweed": "seaweed_kcals_equivalent", "cell_sugar": "cell_sugar_kcals_equivalent",
                 "scp": "scp_kcals_equivalent", "greenhouse": "greenhouse_kcals_equivalent", "fish": "fish_kcals_equivalent",
                 "meat": "meat_kcals_equivalent", "milk": "milk_kcals_equivalent"}
    for j, a in enumerate(FOOD_ATTRS):
        mp = np.array([months[m][j] for m in range(n)])
        ip = pct_impl[a]
        if a in ROUNDED:
            ok = np.allclose(np.round(mp, ROUNDED[a]), ip, rtol=0, atol=0.5001 * 10 ** -ROUNDED[a])
        else:
            ok = np.allclose(mp, ip, rtol=1e-9, atol=1e-9)
        if not ok:
            bad = int(np.argmax(np.abs(mp - ip)))
            ctx.disagree("C04:percent-series %s" % a, dict(case, month=bad), float(ip[bad]), float(mp[bad]))
            ctx.violation("contribution-not-allocation:" + a,
                          "%s round %d: reported percent contribution of %s in month %d is %r, the allocation converted is %r" % (
                              run.iso, k + 1, a, bad, float(ip[bad]), float(mp[bad])), dict(case, food=a, month=bad))
        if a in keq_names:
            mk = np.array([months[m][9 + j] for m in range(n)])
            ik = np.asarray(getattr(r, keq_names[a]).kcals, dtype=float)
            if not np.allclose(mk, ik, rtol=1e-9, atol=1e-9):
                bad = int(np.argmax(np.abs(mk - ik)))
                ctx.disagree("C04:kcals-equivalent %s" % a, dict(case, month=bad), float(ik[bad]), float(mk[bad]))
                ctx.violation("contribution-not-allocation-kcals:" + a,
                              "%s round %d: reported kcals-equivalent of %s in month %d is %r, the allocation converted is %r" % (
                                  run.iso, k + 1, a, bad, float(ik[bad]), float(mk[bad])), dict(case, food=a, month=bad))
    # 1b. the feed and biofuel drawn from each resource, as reported, equal the optimiser's allocation of that resource
    #     (percent of the monthly need): the MODEL's `Report.nonhumanMonth` (driver op report.nonhuman; theorems
    #     C04.nonhuman_sum_eq_charge / nonhuman_sum_le_ceiling / nonhuman_nonneg / nonhuman_swap_counterexample)
    NONHUMAN = ["stored_food", "outdoor_crops", "seaweed", "cell_sugar", "scp"]   # order of Report.nonhumanMonth: feed x5, then biofuel x5
    need = inp["billionKcalsNeeded"]
    if need > 0:
        line_nh = "report.nonhuman %s %d %s" % (enc, len(vals), " ".join("%s %s" % (enc_str(a), f2b(b)) for a, b in vals))
        nh = None
        try:
            rd2 = Reader(wire.run_driver([line_nh], exe_name="driver_lp")[0])
            n2 = rd2.nat()
            nh = [rd2.floats() for _ in range(n2)]
            if n2 != n or any(len(row) != 10 for row in nh):
                raise ValueError("shape %d x %s" % (n2, sorted(set(len(row) for row in nh))))
        except Exception as e:  # malformed driver answer: the machinery is broken, not the code
            ctx.disagree("C04:report.nonhuman malformed", case, "n=%d months x 10" % n, repr(e)[:200])
            nh = None
        if nh is not None:
            for j, attr in enumerate(NONHUMAN):
                for off, use in ((0, "feed"), (5, "biofuels")):
                    rep = getattr(r, "%s_%s" % (attr, use), None)
                    if rep is None:
                        ctx.count("nonhuman-series-not-reported:%s_%s" % (attr, use))
                        continue
                    ip = np.asarray(rep.kcals, dtype=float)
                    mp = np.array([nh[m][off + j] for m in range(n)], dtype=float)
                    if ip.shape != mp.shape or not np.allclose(mp, ip, rtol=1e-9, atol=1e-9 * max(1.0, float(np.max(np.abs(mp))) if len(mp) else 1.0)):
                        bad = int(np.argmax(np.abs(mp - ip))) if ip.shape == mp.shape else 0
                        ctx.violation("contribution-not-allocation:%s_%s" % (attr, use),
                                      "%s round %d: reported %s drawn from %s in month %d is %r percent of needs, the optimiser allocated %r" % (
                                          run.iso, k + 1, use, attr, bad, float(ip[bad]) if ip.shape == mp.shape else None, float(mp[bad])), dict(case, food=attr, use=use, month=bad))
                    ctx.count("nonhuman-series-compared")
            # the reported totals are the sums of the reported parts: feed, biofuel (kcals-equivalent units) and both together (percent of needs);
            # in a human-maximising round the model's theorem nonhuman_sum_eq_charge then makes them the round's charge
            tot_model = {"feed": np.array([sum(nh[m][0:5]) for m in range(n)]), "biofuels": np.array([sum(nh[m][5:10]) for m in range(n)])}
            for use in ("feed", "biofuels"):
                rep = getattr(r, "%s_sum_kcals_equivalent" % use, None)
                if rep is None or s.kind != "to_humans":   # the feed round's two totals are deliberately lowered by 20 kcals afterwards (run_round_2)
                    continue
                ip = np.asarray(rep.kcals, dtype=float)
                mp = tot_model[use] / 100.0 * kd
                if ip.shape != mp.shape or not np.allclose(mp, ip, rtol=1e-9, atol=1e-9 * max(1.0, float(np.max(np.abs(mp))))):
                    bad = int(np.argmax(np.abs(mp - ip))) if ip.shape == mp.shape else 0
                    ctx.violation("reported-total-not-allocation:%s_sum" % use, "%s round %d: the reported %s total in month %d is %r kcals per person per day, the optimiser allocated %r" % (
                        run.iso, k + 1, use, bad, float(ip[bad]) if ip.shape == mp.shape else None, float(mp[bad])), dict(case, use=use, month=bad))
            both = getattr(r, "feed_and_biofuels_sum", None)
            if both is not None:
                ip = np.asarray(both.kcals, dtype=float)
                mp = tot_model["feed"] + tot_model["biofuels"]
                if ip.shape != mp.shape or not np.allclose(mp, ip, rtol=1e-9, atol=1e-9 * max(1.0, float(np.max(np.abs(mp))))):
                    bad = int(np.argmax(np.abs(mp - ip))) if ip.shape == mp.shape else 0
                    ctx.violation("reported-total-not-allocation:feed_and_biofuels_sum", "%s round %d: reported feed + biofuel in month %d is %r percent of needs, the optimiser "
                                  "allocated %r" % (run.iso, k + 1, bad, float(ip[bad]) if ip.shape == mp.shape else None, float(mp[bad])), dict(case, month=bad))
            ctx.count("nonhuman-totals-compared")
    # 2. headline = min over months of the sum of the contributions (unrounded: from the kcals-equivalent series, exact units)
    keq_sum = sum(np.asarray(getattr(r, nm).kcals, dtype=float) for nm in keq_names.values()) \
        + np.asarray(r.immediate_outdoor_crops_kcals_equivalent.kcals, dtype=float) \
        + np.asarray(r.new_stored_outdoor_crops_kcals_equivalent.kcals, dtype=float)
    head_from_keq = float(np.min(keq_sum) / kd * 100.0)
    head = float(r.percent_people_fed)
    if not wire.close(head, head_from_keq, 1e-9, 1e-9):
        ctx.violation("headline-not-min-of-sum", "%s round %d: headline %r but the minimum over months of the summed contributions is %r" % (
            run.iso, k + 1, head, head_from_keq), dict(case, headline=head, min_sum=head_from_keq))
    if not wire.close(head, head_model, 1e-9, 1e-9):
        ctx.disagree("C04:headline", case, head, head_model)
    # rounded percent series: the code's own rounding (3 decimals, 1 for immediate crops)
    pct_sum = sum(pct_impl[a] for a in FOOD_ATTRS)
    if abs(float(np.min(pct_sum)) - head) > 0.0005 * 2 + 1e-9:
        ctx.violation("headline-not-min-of-rounded-sum", "%s round %d: headline %r vs min of summed (rounded) percent series %r" % (
            run.iso, k + 1, head, float(np.min(pct_sum))), dict(case))
    # 3. headline within 0.01 % (relative) of the optimiser's own optimum  (human-maximising rounds)
    if s.kind == "to_humans" and pfm is not None:
        rel = abs(head - pfm) / max(abs(pfm), 1e-12)
        ctx.extra["max_headline_gap_rel"] = max(ctx.extra.get("max_headline_gap_rel", 0.0), rel)
        if rel > 1e-4 and abs(head - pfm) > 1e-6:
            ctx.violation("headline-off-optimum", "%s round %d: headline %r differs from the optimiser's optimum %r by %.3g relative (> 0.01 %%)" % (
                run.iso, k + 1, head, pfm, rel), dict(case, headline=head, optimum=pfm))
        cons = np.array([s.values.get("Humans_Fed_Kcals_%d_Variable" % m, np.nan) for m in range(n)], dtype=float)
        if not wire.close(float(np.nanmin(cons)), head, 1e-6, 1e-6):
            ctx.count("headline-vs-min-consumed-variable-differs-beyond-1e-6")
    # 4. crop split adds up
    imm = np.asarray(r.immediate_outdoor_crops_kcals_equivalent.kcals, dtype=float)
    new = np.asarray(r.new_stored_outdoor_crops_kcals_equivalent.kcals, dtype=float)
    crops_keq = np.array([months[m][9 + 1] for m in range(n)])
    if not np.allclose(imm + new, crops_keq, rtol=1e-9, atol=1e-9):
        bad = int(np.argmax(np.abs(imm + new - crops_keq)))
        ctx.violation("split-does-not-add-up", "%s round %d: immediate + new-storage crops = %r, crops eaten = %r in month %d" % (
            run.iso, k + 1, float(imm[bad] + new[bad]), float(crops_keq[bad]), bad), dict(case, month=bad))
    # 5. the table written to disk
    if csv_path and os.path.exists(csv_path):
        import pandas as pd
        df = pd.read_csv(csv_path, float_precision="round_trip")
        for col in CSV_COLS:
            want = np.asarray(getattr(r, col + "_kcals_equivalent").kcals, dtype=float)
            if col not in df or not np.array_equal(df[col].values.astype(float), want):
                ctx.violation("csv-differs:" + col, "%s round %d: column %s of the saved table differs from the returned result" % (run.iso, k + 1, col),
                              dict(case, column=col))
        if len(df) != n:
            ctx.violation("csv-length", "%s round %d: saved table has %d rows for %d months" % (run.iso, k + 1, len(df), n), dict(case))
        ctx.count("csv-read-back")
    else:
        ctx.count("csv-missing")
        ctx.violation("csv-missing", "%s round %d: no table was written for this round" % (run.iso, k + 1), dict(case))
    # input assumption of the model
    from src.food_system.food import Food
    if not wire.close(float(C["KCALS_MONTHLY"]), float(Food.conversions.kcals_monthly), 1e-12, 0):
        ctx.count("kcals-monthly-mismatch")
    nfoods = sum(1 for a in FOOD_ATTRS if float(np.max(pct_impl[a])) > 0)
    ctx.case((run.iso, sorted(run.opts.items()), k), nontrivial=head > 0 and nfoods >= 3,
             sample={"country": run.iso, "round": k + 1, "headline": head, "optimum": pfm, "foods_contributing": nfoods,
                     "options": {a: b for a, b in run.opts.items() if pipeline.BASE_OPTIONS.get(a) != b}})
    ctx.count("rounds-audited:" + s.kind)


def explore(ctx, ps):
    for iso, over in ps:
        run = pipeline.run_scenario(iso, pipeline.options(**over), keep_csv=True)
        if run.error and not run.solves:
            ctx.count("run-error:" + run.error.split(":")[0])
            continue
        for k, (s, it) in enumerate(zip(run.solves, run.interpreted)):
            typ, title, interp, pfm = it
            path = os.path.join("results", title + "_ykcals.csv")
            if s.values and not s.error:
                audit_round(ctx, run, k, s, interp, pfm, path)
        for f in run.csv:
            try:
                os.remove(f)
            except OSError:
                pass
        if ctx.quick and ctx.elapsed() > 150:
            ctx.count("quick-budget-reached")
            break


def split_cases(ctx):
    """the split helper on arbitrary (produced, eaten) pairs, negatives included"""
    from src.optimizer.extract_results import Extractor
    rng = ctx.rng
    n = ctx.budget(300, 5000)
    pairs = [(rng.uniform(-5, 10) * rng.choice([0, 1, 1, 10]), rng.uniform(0, 10) * rng.choice([0, 1, 1, 10])) for _ in range(n)]
    pairs += [(1.0, 1.0), (0.0, 0.0), (-1.0, 0.0), (2.0, 1.0), (1.0, 2.0)]

    class V:
        def __init__(self, v):
            self.varValue = v
    ex = Extractor({"NMONTHS": len(pairs)})
    imm, new = ex.to_monthly_list_outdoor_crops_kcals([V(e) for _, e in pairs], [p for p, _ in pairs], 1.0)
    out = wire.run_driver(["report.split %d %s" % (len(pairs), " ".join("%s %s" % (f2b(p), f2b(e)) for p, e in pairs))], exe_name="driver_lp")[0].split()
    for j, (p, e) in enumerate(pairs):
        mi, mn = wire.b2f(out[2 * j]), wire.b2f(out[2 * j + 1])
        if not (wire.close(mi, imm[j]) and wire.close(mn, new[j])):
            ctx.disagree("C04:split", {"produced": p, "eaten": e}, [imm[j], new[j]], [mi, mn])
        if not wire.close(imm[j] + new[j], e, 1e-12, 1e-12):
            ctx.violation("split-does-not-add-up", "split of eaten=%r with produced=%r gives %r + %r" % (e, p, imm[j], new[j]), {"produced": p, "eaten": e})
        ctx.case(("split", p, e), nontrivial=p < e)
    ctx.count("split-pairs", len(pairs))


def correspondence(ctx):
    split_cases(ctx)
    ps = list(lpcheck.PRESETS_QUICK)
    isos = sorted(pipeline.country_rows())
    for _ in range(ctx.budget(1, 80)):
        ps.append(lpcheck.random_preset(ctx.rng, isos))
    if not ctx.quick:
        ps += [(iso, dict()) for iso in isos]
    explore(ctx, ps)


def search(ctx):
    isos = sorted(pipeline.country_rows())
    explore(ctx, [lpcheck.random_preset(ctx.rng, isos) for _ in range(6)])


def replay(ctx, rep):
    hits = []
    for v in rep.get("violations", []):
        c = v["case"]
        if "country" not in c:
            continue
        n0 = len(ctx.violations)
        explore(ctx, [(c["country"], {a: b for a, b in c["options"].items()})])
        hits += [w for w in ctx.violations[n0:] if w["key"] == v["key"]]
    return bool(hits), hits[:3]
