import AllfedModel.Model.Supply
import AllfedModel.Proofs.Supply
/-!
# C08 — supply series follow the calendar, the disruption schedule and the configured delays

Property theorems only; helper lemmas live in `Proofs/Supply.lean`.
`K` is any linearly ordered field (ℚ, ℝ, …); the horizon `NMONTHS` is arbitrary (no bound other
than the guards the code itself has, which appear as hypotheses).

For every series there is
  * `C08_refines_spec_*` : the code-shaped function of `Model/Supply.lean` (concatenations, slices,
    `linspace`, loops) equals `(List.range NMONTHS).map spec` for the closed-form `spec`; this one
    statement gives "exactly one value per simulated month" (`C08_length_*`) and the documented
    formula pointwise,
  * `C08_nonneg_*`, `C08_homogeneous_*`, and for the delay-then-ramp schedules `C08_ramp_*`.

Which horizons the slicing supports (hypotheses below):
  crops ≤ 120 months (the reduction table has 8 + 8·12 + 16 = 120 entries, `C08_reductions_length`);
  greenhouses ≥ 42 months; grass: whole years, at least two (12 months give 8 values,
  `C08_grass_twelve_months`); feed/biofuel: shut-off month ≤ NMONTHS (otherwise the list is as long as
  the shut-off month, `C08_length_demand_outside`); SCP ≤ 2·delay + 1031; sugar ≤ delay + 1008;
  fish: as many as the percentage list has (192 for the nuclear-winter list).
-/
namespace Allfed.C08
open Allfed Allfed.Supply Allfed.Proofs.Supply

set_option linter.unusedSectionVars false

variable {K : Type} [Field K] [LinearOrder K] [IsStrictOrderedRing K]

/-! ## outdoor crops and greenhouse crops -/

/-- the reduction table of `calculate_monthly_production`: year 1 = months 0…7 (May–December), then
    twelve months per year, year 10 extended to month 119 -/
theorem C08_reductions_spec (y1 : K) (r : Nat → K) (i : Nat) :
    (allMonthsReductions y1 r)[i]? =
      if i < 120 then some (if i < 8 then y1 else r (Nat.min 9 (1 + (i - 8) / 12))) else none :=
  getElem?_allMonthsReductions y1 r i

theorem C08_reductions_length (y1 : K) (r : Nat → K) : (allMonthsReductions y1 r).length = 120 :=
  length_allMonthsReductions y1 r

/-- rotation of the January-based cycle: simulated month `i` reads calendar month `(start − 1 + i) mod 12`
    (start = 5: month 0 is May) -/
theorem C08_calendar (c : CropIn K) (i : Nat) (hl : c.season.length = 12) (hs : 1 ≤ c.startMonth ∧ c.startMonth ≤ 12) :
    (monthsCycle c.startMonth c.baseline c.season).getD (i % 12) 0 = monthSpec c i :=
  cycle_getD c i hl hs

/-- the year-1 correction is the documented closed form (no assertion fires in the well-formed range) -/
theorem C08_year1 (r1 : K) (season : List K) (country : String) (hr : r1 < 101)
    (h0 : 0 ≤ harvestBeforeMay country season) (h1 : harvestBeforeMay country season ≤ 1) :
    year1Ratio r1 season country = .ok (year1Spec r1 season country) :=
  year1Ratio_ok r1 season country hr h0 h1

/-- **refinement, crops and greenhouses.**  `init_outdoor_crops` + `init_greenhouse_params` return, for
    every horizon and every well-formed input, exactly the closed-form series:
    `KCALS_GROWN`, `NO_RELOCATION_KCALS_GROWN`, greenhouse area / fraction / yield / production and
    the outdoor production net of greenhouse land and waste. -/
theorem C08_refines_spec_crops (pow : K → K → K) (hp : PowOK pow) (c : CropIn K) (w : CropWF c) (g : GhIn K)
    (wg : GhWF c.nmonths g) (hrun : c.addOutdoor = true ∨ g.addGreenhouses = true) :
    cropsAndGreenhouses pow c g = .ok
      ⟨(List.range c.nmonths).map (grownSpec pow c), (List.range c.nmonths).map (noRelocSpec c),
       ⟨(List.range c.nmonths).map (ghAreaSpec' g), (List.range c.nmonths).map (ghFractionSpec g),
        (List.range c.nmonths).map (ghYieldSpec pow c g), (List.range c.nmonths).map (ghCropsSpec pow c g)⟩,
       (List.range c.nmonths).map (productionSpec pow c (ghFractionSpec g))⟩ :=
  cropsAndGreenhouses_ok pow hp c w g wg hrun

/-- … and with both switched off everything handed on is zero -/
theorem C08_refines_spec_crops_off (pow : K → K → K) (hp : PowOK pow) (c : CropIn K) (w : CropWF c) (g : GhIn K)
    (wg : GhWF c.nmonths g) (h1 : c.addOutdoor = false) (h2 : g.addGreenhouses = false) :
    cropsAndGreenhouses pow c g = .ok
      ⟨[], [],
       ⟨(List.range c.nmonths).map (ghAreaSpec' g), (List.range c.nmonths).map (ghFractionSpec g),
        (List.range c.nmonths).map (ghYieldSpec pow c g), (List.range c.nmonths).map (ghCropsSpec pow c g)⟩,
       (List.range c.nmonths).map (productionSpec pow c (ghFractionSpec g))⟩ :=
  cropsAndGreenhouses_off pow hp c w g wg h1 h2

/-- exactly `NMONTHS` values, for outdoor crops and for greenhouse crops -/
theorem C08_length_crops (pow : K → K → K) (hp : PowOK pow) (c : CropIn K) (w : CropWF c) (g : GhIn K)
    (wg : GhWF c.nmonths g) (hrun : c.addOutdoor = true ∨ g.addGreenhouses = true) :
    ∃ o, cropsAndGreenhouses pow c g = .ok o ∧ o.production.length = c.nmonths ∧ o.gh.crops.length = c.nmonths ∧
      o.gh.area.length = c.nmonths := by
  refine ⟨_, cropsAndGreenhouses_ok pow hp c w g wg hrun, ?_, ?_, ?_⟩ <;> simp

/-- every month of the outdoor series is non-negative -/
theorem C08_nonneg_crops (pow : K → K → K) (hp : PowOK pow) (c : CropIn K) (w : CropWF c) (g : GhIn K)
    (ht : 0 ≤ ghTotal g) (hm0 : 0 ≤ g.areaMultiplier) (hm1 : g.areaMultiplier ≤ 1) (hw : c.waste ≤ 100) (i : Nat) :
    0 ≤ productionSpec pow c (ghFractionSpec g) i :=
  productionSpec_nonneg pow hp c w _ i (ghFractionSpec_range g i ht hm0 hm1).2 hw

/-- every month of the greenhouse series is non-negative -/
theorem C08_nonneg_greenhouse (pow : K → K → K) (hp : PowOK pow) (c : CropIn K) (w : CropWF c) (g : GhIn K)
    (ht : 0 ≤ ghTotal g) (hm : 0 ≤ g.areaMultiplier) (hw : c.waste ≤ 100) (hwr : g.wasteRetail ≤ 100)
    (hg : -100 ≤ g.gainPct) (i : Nat) : 0 ≤ ghCropsSpec pow c g i :=
  ghCropsSpec_nonneg pow hp c w g i ht hm hw hwr hg

/-- greenhouse area: zero until `delay + 5`, then 36 equal steps, capped at the limit -/
theorem C08_ramp_monotone_capped_greenhouse (delay : Nat) (limit : K) (hl : 0 ≤ limit) (i j : Nat) (hij : i ≤ j) :
    (i < delay + 5 → ghAreaSpec delay limit i = 0) ∧ ghAreaSpec delay limit i ≤ ghAreaSpec delay limit j ∧
      ghAreaSpec delay limit j ≤ limit ∧ (delay + 5 + 36 ≤ j → ghAreaSpec delay limit j = limit) :=
  ⟨ghAreaSpec_zero delay limit i, ghAreaSpec_mono delay limit i j hij hl, ghAreaSpec_le delay limit j hl,
   ghAreaSpec_full delay limit j⟩

/-- the cropland-expansion ramp: 1 until the first harvest, monotone, capped at the configured ratio -/
theorem C08_ramp_monotone_capped_area (N total : Nat) (maxv : K) (hm : 1 ≤ maxv) (i j : Nat) (hij : i ≤ j) :
    (i < N → i < total → rampFn N total maxv i = 1) ∧ rampFn N total maxv i ≤ rampFn N total maxv j ∧
      rampFn N total maxv j ≤ maxv ∧ (total ≤ j → rampFn N total maxv j = maxv) := by
  refine ⟨?_, rampFn_mono N total maxv i j hij hm, rampFn_le_max N total maxv j hm, ?_⟩
  · intro h1 h2; unfold rampFn; rw [if_neg (by omega), if_neg (by omega)]
  · intro h; unfold rampFn; rw [if_pos h]

/-- the array the code builds with its loop is that ramp -/
theorem C08_refines_spec_area_ramp (n N total : Nat) (maxv : K) (h1 : total ≠ N) (h2 : ¬ (N < total ∧ n < total)) :
    areaRamp n N total maxv = .ok ((List.range n).map (rampFn N total maxv)) :=
  areaRamp_ok n N total maxv h1 h2

/-- scaling the crop baseline by `k ≥ 0` scales the outdoor and the greenhouse series by exactly `k` -/
theorem C08_homogeneous_crops (pow : K → K → K) (hp : PowOK pow) (c : CropIn K) (w : CropWF c) (g : GhIn K)
    (wg : GhWF c.nmonths g) (hrun : c.addOutdoor = true ∨ g.addGreenhouses = true) (k : K) (hk : 0 ≤ k) :
    ∃ o o', cropsAndGreenhouses pow c g = .ok o ∧
      cropsAndGreenhouses pow (setBaseline c (k * c.baseline)) g = .ok o' ∧
      o'.production = o.production.map (k * ·) ∧ o'.gh.crops = o.gh.crops.map (k * ·) := by
  refine ⟨_, _, cropsAndGreenhouses_ok pow hp c w g wg hrun,
    cropsAndGreenhouses_ok pow hp (setBaseline c (k * c.baseline)) (cropWF_scale c w k hk) g wg hrun, ?_, ?_⟩
  · exact map_range_scale _ _ k _ (fun i => productionSpec_scale pow c _ k i)
  · exact map_range_scale _ _ k _ (fun i => ghCropsSpec_scale pow c g k i)

/-! ## fish -/

/-- `set_seafood_production`: one value per month of the percentage list, up to `NMONTHS` -/
theorem C08_refines_spec_fish (add : Bool) (n : Nat) (annual wd wr : K) (pct : List K) :
    fishSeries add n annual wd wr pct
      = (List.range (Nat.min n pct.length)).map (fishSpec add annual wd wr fun i => pct.getD i 0) :=
  fishSeries_ok add n annual wd wr pct

theorem C08_length_fish (add : Bool) (n : Nat) (annual wd wr : K) (pct : List K) (h : n ≤ pct.length) :
    (fishSeries add n annual wd wr pct).length = n := by
  rw [fishSeries_ok]; simp [Nat.min_eq_left h]

/-- the nuclear-winter percentage list: 192 values, linear interpolation between yearly values -/
theorem C08_refines_spec_fish_percent : (fishPercentNW : List K) = (List.range 192).map fishPercentNWSpec :=
  fishPercentNW_ok

theorem C08_nonneg_fish (add : Bool) (annual wd wr : K) (pct : Nat → K) (i : Nat) (ha : 0 ≤ annual)
    (hp : 0 ≤ pct i) (hwd : wd ≤ 100) (hwr : wr ≤ 100) : 0 ≤ fishSpec add annual wd wr pct i :=
  fishSpec_nonneg add annual wd wr pct i ha hp hwd hwr

theorem C08_homogeneous_fish (add : Bool) (annual wd wr k : K) (pct : Nat → K) (i : Nat) :
    fishSpec add (k * annual) wd wr pct i = k * fishSpec add annual wd wr pct i :=
  fishSpec_scale add annual wd wr k pct i

/-! ## grass (`human_inedible_feed`) -/

/-- years of 8, 12, …, 12, 16 months; `4000 · ratio(year) · monthly baseline` billion kcals -/
theorem C08_refines_spec_grass (n : Nat) (base : K) (ratios : List K) (w : GrassWF n ratios) :
    grassSeries n base ratios = .ok ((List.range n).map (grassSpec n base ratios)) :=
  grassSeries_ok n base ratios w

theorem C08_length_grass (n : Nat) (base : K) (ratios : List K) (w : GrassWF n ratios) :
    ∃ l, grassSeries n base ratios = .ok l ∧ l.length = n :=
  ⟨_, grassSeries_ok n base ratios w, by simp⟩

/-- outside the supported horizons: a 12-month horizon yields only the eight months of year 1 -/
theorem C08_grass_twelve_months (base : K) (ratio : Nat → K) :
    (grassTons 12 base ratio).length = 8 := by
  rw [grassTons_twelve]; simp

theorem C08_nonneg_grass (n : Nat) (base : K) (ratios : List K) (i : Nat) (hb : 0 ≤ base) (hr : ∀ r ∈ ratios, 0 ≤ r) :
    0 ≤ grassSpec n base ratios i :=
  grassSpec_nonneg n base ratios i hb hr

theorem C08_homogeneous_grass (n : Nat) (base k : K) (ratios : List K) (i : Nat) :
    grassSpec n (k * base) ratios i = k * grassSpec n base ratios i :=
  grassSpec_scale n base k ratios i

/-! ## feed and biofuel demand -/

theorem C08_refines_spec_demand (n d : Nat) (annual : K) (ha : 0 ≤ annual) (hd : d ≤ n) :
    demandSeries n d annual = .ok ((List.range n).map (demandSpec d annual)) :=
  demandSeries_ok n d annual ha hd

theorem C08_length_demand (n d : Nat) (annual : K) (ha : 0 ≤ annual) (hd : d ≤ n) :
    ∃ l, demandSeries n d annual = .ok l ∧ l.length = n :=
  ⟨_, demandSeries_ok n d annual ha hd, by simp⟩

/-- outside `duration ≤ NMONTHS` the list has `duration` entries (`[x]*d + [0]*(n-d)` with a negative count) -/
theorem C08_length_demand_outside (n d : Nat) (annual : K) (l : List K) (h : demandSeries n d annual = .ok l) :
    l.length = d + (n - d) :=
  demandSeries_length n d annual l h

/-- non-negative, and zero from the shut-off month on -/
theorem C08_nonneg_demand (d : Nat) (annual : K) (i : Nat) (ha : 0 ≤ annual) :
    0 ≤ demandSpec d annual i ∧ (d ≤ i → demandSpec d annual i = 0) :=
  ⟨demandSpec_nonneg d annual i ha, demandSpec_zero_after d annual i⟩

theorem C08_homogeneous_demand (d : Nat) (annual k : K) (i : Nat) :
    demandSpec d (k * annual) i = k * demandSpec d annual i :=
  demandSpec_scale d annual k i

/-! ## methane SCP and cellulosic sugar -/

theorem C08_refines_spec_scp (add : Bool) (n d : Nat) (slope gp km fr wd : K) (hn : n ≤ 2 * d + 1031) :
    scpSeries add n d slope gp km fr wd = (List.range n).map (scpSpec add d slope gp km fr wd) :=
  scpSeries_ok add n d slope gp km fr wd hn

theorem C08_length_scp (add : Bool) (n d : Nat) (slope gp km fr wd : K) (hn : n ≤ 2 * d + 1031) :
    (scpSeries add n d slope gp km fr wd).length = n := by
  rw [scpSeries_ok _ _ _ _ _ _ _ _ hn]; simp

/-- SCP = level(i) × a non-negative constant; the level is zero before `2·delay + 12`, monotone, at most 15 % -/
theorem C08_ramp_monotone_capped_scp (d : Nat) (slope gp km fr wd : K) (i j : Nat) (hij : i ≤ j) :
    scpSpec true d slope gp km fr wd i = (scpLevel d i : K) * industrialFactor slope gp km fr wd ∧
      (i < 2 * d + 12 → scpLevel d i = 0) ∧ scpLevel d i ≤ scpLevel d j ∧ scpLevel d j ≤ 15 :=
  ⟨scpSpec_eq d slope gp km fr wd i, scpLevel_zero d i, scpLevel_mono d i j hij, scpLevel_le d j⟩

theorem C08_nonneg_scp (add : Bool) (d : Nat) (slope gp km fr wd : K) (i : Nat) (h1 : 0 ≤ slope) (h2 : 0 ≤ gp)
    (h3 : 0 ≤ km) (h4 : 0 ≤ fr) (h5 : wd ≤ 100) : 0 ≤ scpSpec add d slope gp km fr wd i := by
  cases add
  · rw [scpSpec_off]
  · rw [scpSpec_eq]
    exact mul_nonneg (Nat.cast_nonneg _) (industrialFactor_nonneg slope gp km fr wd h1 h2 h3 h4 h5)

/-- monotone in the month, as a series of numbers -/
theorem C08_monotone_scp (d : Nat) (slope gp km fr wd : K) (i j : Nat) (hij : i ≤ j) (h1 : 0 ≤ slope) (h2 : 0 ≤ gp)
    (h3 : 0 ≤ km) (h4 : 0 ≤ fr) (h5 : wd ≤ 100) :
    scpSpec true d slope gp km fr wd i ≤ scpSpec true d slope gp km fr wd j := by
  rw [scpSpec_eq, scpSpec_eq]
  exact mul_le_mul_of_nonneg_right (by exact_mod_cast scpLevel_mono d i j hij)
    (industrialFactor_nonneg slope gp km fr wd h1 h2 h3 h4 h5)

/-- scaling the country's share of global production scales the series -/
theorem C08_homogeneous_scp (add : Bool) (d : Nat) (slope gp km fr wd k : K) (i : Nat) :
    scpSpec add d slope gp km (k * fr) wd i = k * scpSpec add d slope gp km fr wd i := by
  unfold scpSpec
  generalize (1 - 0.12 : K) = a1; generalize (100.0 : K) = a2; generalize (1e9 : K) = a3
  split_ifs <;> ring

theorem C08_refines_spec_cs (add : Bool) (n d : Nat) (slope gp km fr wd : K) (hn : n ≤ d + 1008) :
    csSeries add n d slope gp km fr wd = (List.range n).map (csSpec add d slope gp km fr wd) :=
  csSeries_ok add n d slope gp km fr wd hn

theorem C08_length_cs (add : Bool) (n d : Nat) (slope gp km fr wd : K) (hn : n ≤ d + 1008) :
    (csSeries add n d slope gp km fr wd).length = n := by
  rw [csSeries_ok _ _ _ _ _ _ _ _ hn]; simp

/-- sugar = level(i) × the same constant; zero before `delay + 5`, monotone, at most 9.5 % -/
theorem C08_ramp_monotone_capped_cs (d : Nat) (slope gp km fr wd : K) (i j : Nat) (hij : i ≤ j) :
    csSpec true d slope gp km fr wd i = csLevel d i * industrialFactor slope gp km fr wd ∧
      (i < d + 5 → (csLevel d i : K) = 0) ∧ (csLevel d i : K) ≤ csLevel d j ∧ (csLevel d j : K) ≤ 9.5 :=
  ⟨csSpec_eq d slope gp km fr wd i, csLevel_zero d i, csLevel_mono d i j hij, csLevel_le d j⟩

theorem C08_nonneg_cs (add : Bool) (d : Nat) (slope gp km fr wd : K) (i : Nat) (h1 : 0 ≤ slope) (h2 : 0 ≤ gp)
    (h3 : 0 ≤ km) (h4 : 0 ≤ fr) (h5 : wd ≤ 100) : 0 ≤ csSpec add d slope gp km fr wd i := by
  cases add
  · rw [csSpec_off]
  · rw [csSpec_eq]
    exact mul_nonneg (csLevel_nonneg d i) (industrialFactor_nonneg slope gp km fr wd h1 h2 h3 h4 h5)

theorem C08_homogeneous_cs (add : Bool) (d : Nat) (slope gp km fr wd k : K) (i : Nat) :
    csSpec add d slope gp km (k * fr) wd i = k * csSpec add d slope gp km fr wd i := by
  unfold csSpec
  generalize (1 - 0.12 : K) = a1; generalize (100.0 : K) = a2; generalize (1e9 : K) = a3
  split_ifs <;> ring

/-! ## seaweed -/

theorem C08_refines_spec_seaweed_area (add : Bool) (n delay : Nat) (newFrac maxFrac : K) :
    seaweedBuiltArea add n delay newFrac maxFrac
      = (List.range n).map (seaweedAreaSpec add delay newFrac maxFrac) :=
  seaweedBuiltArea_ok add n delay newFrac maxFrac

theorem C08_length_seaweed_area (add : Bool) (n delay : Nat) (newFrac maxFrac : K) :
    (seaweedBuiltArea add n delay newFrac maxFrac).length = n := by
  rw [seaweedBuiltArea_ok]; simp

/-- built area = min(maximum, initial + months after the delay × monthly new area):
    constant until the delay has passed, monotone, capped -/
theorem C08_ramp_monotone_capped_seaweed (add : Bool) (delay : Nat) (newFrac maxFrac : K) (hn : 0 ≤ newFrac)
    (i j : Nat) (hij : i ≤ j) :
    seaweedAreaSpec add delay newFrac maxFrac i
        = min (seaweedMaxArea maxFrac) (seaweedRaw (if add then delay else 1000) newFrac i) ∧
      (i ≤ (if add then delay else 1000) → seaweedRaw (if add then delay else 1000) newFrac i = seaweedInitBuilt newFrac) ∧
      seaweedAreaSpec add delay newFrac maxFrac i ≤ seaweedAreaSpec add delay newFrac maxFrac j ∧
      seaweedAreaSpec add delay newFrac maxFrac j ≤ seaweedMaxArea maxFrac := by
  refine ⟨seaweedAreaSpec_eq _ _ _ _ _, seaweedRaw_before _ _ _, ?_, ?_⟩
  · rw [seaweedAreaSpec_eq, seaweedAreaSpec_eq]
    exact min_le_min le_rfl (seaweedRaw_mono _ _ _ _ hij hn)
  · rw [seaweedAreaSpec_eq]; exact min_le_left _ _

theorem C08_nonneg_seaweed_area (add : Bool) (delay : Nat) (newFrac maxFrac : K) (hn : 0 ≤ newFrac) (hm : 0 ≤ maxFrac)
    (i : Nat) : 0 ≤ seaweedAreaSpec add delay newFrac maxFrac i := by
  rw [seaweedAreaSpec_eq]
  apply le_min
  · exact mul_nonneg (by norm_num) hm
  · have h0 : 0 ≤ seaweedInitBuilt newFrac := mul_nonneg (by norm_num) hn
    calc (0 : K) ≤ seaweedInitBuilt newFrac := h0
      _ = seaweedRaw (if add then delay else 1000) newFrac 0 := (seaweedRaw_before _ _ 0 (Nat.zero_le _)).symm
      _ ≤ seaweedRaw (if add then delay else 1000) newFrac i := seaweedRaw_mono _ _ _ _ (Nat.zero_le _) hn

/-- growth factors: the columns in any order give the list sorted by month key, each
    `100·(1 + p/100)^30`; as many entries as columns -/
theorem C08_refines_spec_seaweed_growth (cols sorted : List (Int × K)) (hperm : cols.Perm sorted)
    (hs : sorted.Pairwise (fun a b => a.1 ≤ b.1)) (hinj : ∀ a ∈ sorted, ∀ b ∈ sorted, a.1 = b.1 → a = b) :
    seaweedGrowth cols = sorted.map fun c => 100 * (c.2 / 100 + 1) ^ 30 :=
  seaweedGrowth_ok cols sorted hperm hs hinj

theorem C08_length_seaweed_growth (cols : List (Int × K)) : (seaweedGrowth cols).length = cols.length :=
  seaweedGrowth_length cols

theorem C08_nonneg_seaweed_growth (p : K) (hp : 0 ≤ p) : 100 ≤ growthFactor p := growthFactor_ge p hp

/-! ## initial stored food -/

/-- stock at the end of the month before the start × share used − untouched share of the annual minimum,
    in billion kcals net of distribution waste -/
theorem C08_refines_spec_stored_food (sm : Nat) (stocks : List K) (unt pct wd : K) (h1 : 1 ≤ sm ∧ sm ≤ 12)
    (h2 : stocks.length = 12) (h3 : unt ≤ pct / 100.0)
    (h4 : 0 ≤ stocks.getD ((sm + 10) % 12) 0 * (pct / 100.0) - listMin stocks * unt) :
    storedFood sm stocks unt pct wd = .ok (storedFoodSpec sm stocks unt pct wd) :=
  storedFood_ok sm stocks unt pct wd h1 h2 h3 h4

theorem C08_nonneg_stored_food (sm : Nat) (stocks : List K) (unt pct wd : K)
    (h4 : 0 ≤ stocks.getD ((sm + 10) % 12) 0 * (pct / 100.0) - listMin stocks * unt) (hw : wd ≤ 100) :
    0 ≤ storedFoodSpec sm stocks unt pct wd :=
  storedFoodSpec_nonneg sm stocks unt pct wd h4 hw

theorem C08_homogeneous_stored_food (sm : Nat) (stocks : List K) (unt pct wd k : K) (hk : 0 ≤ k) :
    storedFoodSpec sm (stocks.map (k * ·)) unt pct wd = k * storedFoodSpec sm stocks unt pct wd :=
  storedFoodSpec_scale sm stocks unt pct wd k hk

/-! ## non-vacuity: concrete inputs satisfy the hypotheses -/

/-- the identity satisfies the assumptions made on `x ** e` (so they are consistent);
    `Real.rpow` satisfies them on `[0,1] × (0,1]` as well -/
theorem powOK_id : PowOK (fun (x _ : ℚ) => x) :=
  ⟨fun _ _ _ _ _ _ => le_rfl, fun _ _ _ h _ _ => h, fun _ => rfl⟩

def exampleCrops : CropIn ℚ :=
  { nmonths := 48, startMonth := 5, baseline := 1000, season := List.replicate 12 (1 / 12),
    ratios := [1, 1 / 2, 1 / 4, 1 / 4, 1 / 4, 1 / 2, 1 / 2, 3 / 4, 1, 1], country := "ARG", addOutdoor := true,
    relocation := true, exponent := 4 / 5, ratioArea := 72 / 39, yearsToReach := 3, harvestDuration := 8,
    rotationDelay := 2, waste := 20 }

def exampleGh : GhIn ℚ :=
  { addGreenhouses := true, globalCropArea := 1430000000, cropAreaFraction := 1 / 100, delay := 2,
    areaMultiplier := 19 / 143, gainPct := 44, wasteRetail := 10 }

example : CropWF exampleCrops := by
  constructor <;> decide +kernel

example : GhWF 48 exampleGh := by
  constructor <;> decide +kernel

example : GrassWF 48 ([1, 1 / 2, 1 / 4, 1 / 4] : List ℚ) := by
  constructor <;> decide +kernel

/-- month 0 is May: with all the harvest in May the first month carries the whole year -/
example : (monthsCycle 5 (3898 : ℚ) [0, 0, 0, 0, 1, 0, 0, 0, 0, 0, 0, 0]).getD 0 0 = 3806 * 4000000 / 1000000000 := by
  decide +kernel

example : scpSeries true 20 2 (1 : ℚ) 1 100 1 0 =
    (List.replicate 16 0 ++ List.replicate 4 (2 / (1 - 12 / 100) / 100 * (1 * 100 / 1000000000))) := by
  decide +kernel

end Allfed.C08
