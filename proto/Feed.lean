import Mathlib.Algebra.Order.Field.Basic
import Mathlib.Tactic.Linarith
import Mathlib.Tactic.Positivity
import Mathlib.Tactic.FieldSimp
import Mathlib.Tactic.NormNum
import Mathlib.Tactic.Ring

structure FeedOut (α : Type) where
  grass : α      -- grass left
  feed : α       -- feed left
  delivered : α  -- net energy delivered
  met : Bool     -- requirement fully met

section
variable {α : Type} [Add α] [Sub α] [Mul α] [Div α] [LE α] [LT α] [DecidableLE α] [DecidableLT α] [OfScientific α] [OfNat α 0]

/-- mirror of AnimalSpecies.feed_the_species (energy part) -/
def feedSpecies (need grass feed : α) (rum : Bool) : FeedOut α :=
  if need ≤ 0 then ⟨grass, feed, 0, true⟩ else
  let neG : α := if rum then grass * (0.6 : α) else 0
  let neF : α := feed * (0.8 : α)
  if need ≤ neG then ⟨grass - need / 0.6, feed, need, true⟩
  else
    let need' : α := if 0 < neG then need - neG else need
    let grass' : α := if 0 < neG then 0 else grass
    if need' ≤ neF then ⟨grass', feed - need' / 0.8, need, true⟩
    else ⟨grass', 0, neG + neF, false⟩

/-- feed all species in priority order -/
def feedAll : List (α × Bool) → α → α → List (FeedOut α)
  | [], _, _ => []
  | (need, rum) :: t, grass, feed =>
    let o := feedSpecies need grass feed rum
    o :: feedAll t o.grass o.feed
end

#eval (feedAll [((10.0:Float), true), (5.0, false)] 5 12).map (fun o => (o.grass, o.feed, o.delivered, o.met))

variable {K : Type} [Field K] [LinearOrder K] [IsStrictOrderedRing K]

theorem feedSpecies_bounds (need grass feed : K) (rum : Bool) (hg : 0 ≤ grass) (hf : 0 ≤ feed) :
    let o := feedSpecies need grass feed rum
    0 ≤ o.grass ∧ o.grass ≤ grass ∧ 0 ≤ o.feed ∧ o.feed ≤ feed ∧
    o.delivered ≤ max need 0 ∧
    o.delivered = (0.6:K) * (grass - o.grass) * (if rum then 1 else 0) + (0.8:K) * (feed - o.feed) ∧
    (rum = false → o.grass = grass) := by
  unfold feedSpecies
  cases rum <;> simp only [] <;> norm_num <;> split_ifs <;> simp only [] <;> norm_num at * <;>
    (refine ⟨?_, ?_, ?_, ?_, ?_, ?_⟩ <;> first | linarith | (field_simp; linarith) | (rw [max_eq_left (by linarith)]; linarith) | (rw [max_eq_right (by linarith)]) | nlinarith | skip)
