import AllfedModel.Num.Basic
/-
Coupling of the herd simulation to the optimiser inputs (property C05):
`CalculateFeedAndMeat.get_meat_produced`, `MeatAndDairy.calculate_meat_after_distribution_waste`,
`get_max_slaughter_monthly_after_distribution_waste`, `get_total_milk_bearing_animals`,
`Parameters.calculate_non_meat_and_dairy_from_feed_results`, `MeatAndDairy.get_milk_produced_postwaste`.
-/
namespace Allfed.Coupling
open Allfed

/-- the five accumulators of `get_meat_produced` -/
inductive MeatClass | chicken | pig | small | medium | large
  deriving DecidableEq, Repr, Inhabited

/-- the `if/elif` chain of `get_meat_produced`; `none` = the species falls through every branch
    (its slaughter would silently be dropped) -/
def classOf (animalType animalSize : String) : Option MeatClass :=
  if animalType = "chicken" then some .chicken
  else if animalType = "pig" then some .pig
  else if animalSize = "small" then some .small
  else if animalSize = "medium" then some .medium
  else if animalSize = "large" then some .large
  else none

structure Herd (α : Type) where
  animalType : String
  animalSize : String
  slaughter : List α
  population : List α

structure PerHead (α : Type) where
  chicken : α
  pig : α
  small : α
  medium : α
  large : α

section
variable {α : Type} [Add α] [Sub α] [Mul α] [Div α] [OfNat α 0] [OfNat α 1] [OfScientific α]

def PerHead.get (k : PerHead α) : MeatClass → α
  | .chicken => k.chicken | .pig => k.pig | .small => k.small | .medium => k.medium | .large => k.large

/-- one accumulator as the code computes it: chickens and pigs are *assigned* (`=`), the three size
    classes are *added up* (`+=`), in herd order -/
def accumulate (c : MeatClass) (m : Nat) : List (Herd α) → α → α
  | [], acc => acc
  | h :: t, acc =>
    if classOf h.animalType h.animalSize = some c then
      (match c with
       | .chicken | .pig => accumulate c m t (h.slaughter.getD m 0)
       | _ => accumulate c m t (acc + h.slaughter.getD m 0))
    else accumulate c m t acc

/-- `calculate_meat_after_distribution_waste` for month `m`: kcals after distribution waste -/
def meatMonth (herds : List (Herd α)) (k : PerHead α) (wasteDist : α) (m : Nat) : α :=
  (accumulate .chicken m herds 0 * k.chicken + accumulate .pig m herds 0 * k.pig
    + accumulate .small m herds 0 * k.small + accumulate .medium m herds 0 * k.medium
    + accumulate .large m herds 0 * k.large) * (1 - wasteDist / 100.0)

/-- the specification: every slaughtered animal counts once, at the yield of its class -/
def herdMeat (k : PerHead α) (m : Nat) (h : Herd α) : α :=
  match classOf h.animalType h.animalSize with
  | some c => h.slaughter.getD m 0 * k.get c
  | none => 0

def meatSpec (herds : List (Herd α)) (k : PerHead α) (wasteDist : α) (m : Nat) : α :=
  rsum (herds.map (herdMeat k m)) * (1 - wasteDist / 100.0)

/-- per-head meat yields in billion kcals (`MeatAndDairy.__init__` + `initialize_this_country_animal_kcals`):
    carcass weight (kg) × energy density (kcal/kg) / 1e9; chickens and pigs use the country's own carcass
    weights, the three size classes the documented constants, the large class an optional override -/
def perHeadOf (kgChicken kgPig : α) (kgLargeOverride : Option α) : PerHead α :=
  let kgLarge : α := match kgLargeOverride with | some v => v | none => 269.7
  { chicken := kgChicken * 1525.0 / 1e9,
    pig := 3590.0 * kgPig / 1e9,
    small := 1525.0 * 2.36 / 1e9,
    medium := 3590.0 * 24.6 / 1e9,
    large := 2750.0 * kgLarge / 1e9 }

/-- Python's `"milk" in animal_type` -/
def isMilk (animalType : String) : Bool := strContains animalType "milk"

/-- `get_total_milk_bearing_animals` -/
def milkingHerd (herds : List (Herd α)) (milkFlags : List Bool) (m : Nat) : α :=
  (herds.zip milkFlags).foldl (fun acc p => if p.2 then acc + p.1.population.getD m 0 else acc) 0

/-- milk energy for month `m` (billion kcals), after distribution and retail waste -/
def milkMonth (dairyPop yieldKgPerYear milkKcals wasteDist wasteRetail : α) : α :=
  dairyPop * yieldKgPerYear / 12.0 / 1000.0 * 1e3 * milkKcals / 1e9 * (1 - wasteDist / 100.0) * (1 - wasteRetail / 100.0)

end
end Allfed.Coupling
