#!/usr/bin/env python3
"""Run EVERY quick check against a seeded change without touching /repo (cross-property coverage of a change that sits in the glue):
the patch is applied in its own worktree and each check is pointed at it with VERIF_REPO.
usage: seedall.py <worktree> <ABSOLUTE patch.diff> [-j N] [ID ...]    (one line per check; summary line at the end)"""
import os, subprocess, sys, time
from concurrent.futures import ThreadPoolExecutor

args = sys.argv[1:]
jobs = 3
if "-j" in args:
    i = args.index("-j")
    jobs = int(args[i + 1])
    del args[i:i + 2]
wt, patch, ids = args[0], args[1], args[2:]
root = os.path.dirname(os.path.dirname(os.path.abspath(__file__)))
ids = ids or ["C%02d" % k for k in range(1, 19)]
subprocess.run(["git", "-C", wt, "checkout", "--", "."], check=True)
if subprocess.run(["git", "-C", wt, "apply", patch]).returncode != 0:
    print("PATCH-DOES-NOT-APPLY", patch)
    sys.exit(2)


def one(pid):
    t0 = time.time()
    p = subprocess.run([os.path.join(root, "bin", "check"), pid, "quick"], env=dict(os.environ, VERIF_REPO=wt), capture_output=True, text=True)
    lines = [l.strip() for l in p.stdout.split("\n") if l.startswith(("VIOLATION", "OK ", "INTERNAL", "  what", "  broken", "  disagreement"))]
    return pid, p.returncode, time.time() - t0, lines


try:
    caught, concrete = [], []
    with ThreadPoolExecutor(max_workers=jobs) as ex:
        for pid, rc, secs, lines in ex.map(one, ids):
            print("%s rc=%d %.0fs :: %s" % (pid, rc, secs, " | ".join(l[:200] for l in lines[:3])), flush=True)
            if rc == 1:
                caught.append(pid)
                if not any("no-failing-input-found" in l for l in lines):
                    concrete.append(pid)
    print("SUMMARY caught_by=%s with_failing_input=%s" % (",".join(caught) or "-", ",".join(concrete) or "-"))
finally:
    subprocess.run(["git", "-C", wt, "checkout", "--", "."], check=True)
