import AllfedModel.Model.AllocLP
/-
The physical-feasibility specification of property C01, written from the *supplies* (stocks,
monthly production, slaughter, growth factors, demand) and the reported allocation — not from the
rows of the LP.  One definition serves both readings:
  * at `Float` the driver evaluates every clause on the allocation CBC reported (`physCore`, `physGap`);
  * at an ordered field the theorems of `Props/C01.lean` show that every feasible point of
    `buildLP` satisfies every clause of `physCore`.
Each clause is a quantity that must be `≤ 0` (an *excess*); equalities are two clauses.
-/
namespace Allfed.PhysSpec
open Allfed.LP Allfed.AllocLP

structure Excess (α : Type) where
  clause : String
  month : Nat
  value : α

section
variable {α : Type} [Add α] [Sub α] [Mul α] [Div α] [Neg α] [LE α] [LT α]
  [DecidableLT α] [OfNat α 0] [OfNat α 1] [OfScientific α]

/-- `Σ_{k ≤ m} f k` -/
def cum (f : Nat → α) : Nat → α
  | 0 => f 0
  | m + 1 => cum f m + f (m + 1)

/-- value of a monthly variable; a variable of a resource that is switched off does not exist: 0 -/
def X (x : Var → α) (on : Bool) (k : VK) (m : Nat) : α := if on then x (.mv k m) else 0

/-- eaten by people, grossed up for retail waste `w` (percent) -/
def grossUp (v w : α) : α := v / (1 - w / 100.0)

/-- stored food drawn in month `k` (people grossed up, feed, biofuel) -/
def storedUse (i : Inp α) (x : Var → α) (k : Nat) : α :=
  grossUp (x (.mv .sfHumans k)) i.wStored + x (.mv .sfFeed k) + x (.mv .sfBiofuel k)

def cropUse (i : Inp α) (x : Var → α) (k : Nat) : α :=
  grossUp (x (.mv .cropHumans k)) i.wCrop + x (.mv .cropFeed k) + x (.mv .cropBiofuel k)

def meatUse (i : Inp α) (x : Var → α) (k : Nat) : α := grossUp (x (.mv .meatEaten k)) i.wMeat

def scpUse (i : Inp α) (x : Var → α) (k : Nat) : α :=
  grossUp (x (.mv .scpHumans k)) i.wScp + x (.mv .scpFeed k) + x (.mv .scpBiofuel k)

def csUse (i : Inp α) (x : Var → α) (k : Nat) : α :=
  grossUp (x (.mv .csHumans k)) i.wCs + x (.mv .csFeed k) + x (.mv .csBiofuel k)

/-- human-edible food turned into feed in month `m` (billion kcals) -/
def feedTotal (i : Inp α) (x : Var → α) (m : Nat) : α :=
  X x i.addStored .sfFeed m + X x i.addOutdoor .cropFeed m + X x i.addSeaweed .swFeed m * i.seaweedKcals
    + X x i.addCs .csFeed m + X x i.addScp .scpFeed m

def biofuelTotal (i : Inp α) (x : Var → α) (m : Nat) : α :=
  X x i.addStored .sfBiofuel m + X x i.addOutdoor .cropBiofuel m + X x i.addSeaweed .swBiofuel m * i.seaweedKcals
    + X x i.addCs .csBiofuel m + X x i.addScp .scpBiofuel m

/-- right-hand side of the seaweed ledger for month `m ≥ 1` -/
def seaweedLedger (i : Inp α) (x : Var → α) (m : Nat) : α :=
  x (.mv .swWet (m - 1)) * (1 + at' i.growth m / 100.0)
    - grossUp (x (.mv .swHumans m)) i.wSeaweed - x (.mv .swFeed m) - x (.mv .swBiofuel m)
    - (x (.mv .usedArea m) - x (.mv .usedArea (m - 1))) * i.minDensity * (i.harvestLoss / 100.0)

def ex (c : String) (m : Nat) (v : α) : Excess α := ⟨c, m, v⟩
/-- an equality as two excess clauses -/
def exEq (c : String) (m : Nat) (a b : α) : List (Excess α) := [⟨c ++ ":le", m, a - b⟩, ⟨c ++ ":ge", m, b - a⟩]

def monthVars : List VK :=
  [.sfStart, .sfEnd, .sfHumans, .sfFeed, .sfBiofuel, .scpHumans, .scpFeed, .scpBiofuel, .csHumans, .csFeed, .csBiofuel,
   .meatStart, .meatEnd, .meatEaten, .cropStorage, .cropConsumed, .cropHumans, .cropFeed, .cropBiofuel,
   .swWet, .swHumans, .swFeed, .swBiofuel, .usedArea, .consumedKcals]

/-- clauses of month `m` that every feasible point of the code's LP provably satisfies -/
def physMonth (i : Inp α) (kind : Kind) (x : Var → α) (m : Nat) : List (Excess α) :=
  -- no quantity is negative
  monthVars.map (fun k => ex "nonneg" m (-(x (.mv k m)))) ++
  -- cumulative use of stored food never exceeds the initial stock
  (if i.addStored then [ex "stored-cumulative" m (cum (storedUse i x) m - i.storedInitial)] else []) ++
  -- cumulative use of crops never exceeds what has been harvested so far
  (if i.addOutdoor then [ex "crops-cumulative" m (cum (cropUse i x) m - cum (at' i.cropProd) m)] else []) ++
  -- meat: without storage month by month (hence cumulatively); with storage the total and the monthly cap
  (if i.addMeat then
    (if !i.storeBetweenYears then [ex "meat-monthly" m (meatUse i x m - at' i.slaughtered m)]
     else [ex "meat-total" m (cum (meatUse i x) m - i.meatSummed),
           -- `maxCulled` is the running slaughter total the pipeline hands over (checked per instance against
           -- the cumulative sum of the slaughter series): meat is never eaten before it is slaughtered
           ex "meat-cumulative" m (cum (meatUse i x) m - at' i.maxCulled m)])
   else []) ++
  -- monthly output caps
  (if i.addScp then [ex "scp-monthly" m (scpUse i x m - at' i.scp m)] else []) ++
  (if i.addCs then [ex "sugar-monthly" m (csUse i x m - at' i.cs m)] else []) ++
  -- seaweed ledger and bounds
  (if i.addSeaweed then
    [ex "seaweed-wet-ge-initial" m (i.initialSeaweed - x (.mv .swWet m)),
     ex "seaweed-wet-le-density" m (x (.mv .swWet m) - i.maxDensity * at' i.builtArea m),
     ex "seaweed-area-ge-initial" m (i.initialBuiltArea - x (.mv .usedArea m)),
     ex "seaweed-area-le-built" m (x (.mv .usedArea m) - at' i.builtArea m)] ++
    (if m = 0 then
       -- the farm starts at its initial stock and nothing can be harvested before it has grown
       exEq "seaweed-wet0" 0 (x (.mv .swWet 0)) i.initialSeaweed ++
       [ex "seaweed-harvest0" 0 (x (.mv .swHumans 0) + x (.mv .swFeed 0) + x (.mv .swBiofuel 0))]
     else exEq "seaweed-ledger" m (x (.mv .swWet m)) (seaweedLedger i x m))
   else []) ++
  -- feed and biofuel totals
  (if anyFeedVar i then
    (match kind with
     | .toHumans => exEq "feed-equals-charge" m (feedTotal i x m) (at' i.feed m) ++
                    exEq "biofuel-equals-charge" m (biofuelTotal i x m) (at' i.biofuel m)
     | .toAnimals => [ex "feed-le-ceiling" m (feedTotal i x m - at' i.maxFeed m),
                      ex "biofuel-le-ceiling" m (biofuelTotal i x m - at' i.maxBiofuel m)] ++
                     (if 0 < m then [ex "feed-never-rises" m (feedTotal i x m - feedTotal i x (m - 1))] else []))
   else [])

/-- clauses about the whole horizon -/
def physFinal (i : Inp α) (kind : Kind) (x : Var → α) : List (Excess α) :=
  let l := i.nmonths - 1
  if kind = .toHumans then
    -- harvested crops fully used by the last month
    (if i.addOutdoor then [ex "crops-full-use" l (cum (at' i.cropProd) l - cum (cropUse i x) l)] else []) ++
    -- stored food fully used by the last month (where food may be stored between years)
    (if i.addStored && i.storeBetweenYears then [ex "stored-full-use" l (i.storedInitial - cum (storedUse i x) l)] else [])
  else []

/-- the part of C01 that holds for every feasible point of the LP the code builds -/
def physCore (i : Inp α) (kind : Kind) (x : Var → α) : List (Excess α) :=
  (List.range i.nmonths).flatMap (physMonth i kind x) ++ physFinal i kind x

/-- the clause of C01 the code's rows do NOT enforce (known finding D14): full use of stored food in
    the regimes without storage between years.  (The other former gap, D10 — cumulative meat eaten ≤
    cumulative slaughter with storage — was repaired in /repo and is now a clause of `physCore`;
    `meatVsSlaughter` keeps the statement about the slaughter series itself for the check.) -/
def physGap (i : Inp α) (kind : Kind) (x : Var → α) : List (Excess α) :=
  (if kind = .toHumans && i.addStored && !i.storeBetweenYears then
    [ex "stored-full-use-no-storage" (i.nmonths - 1) (i.storedInitial - cum (storedUse i x) (i.nmonths - 1))]
   else [])

/-- cumulative meat eaten against the cumulative *slaughter series* (what the property literally
    says); equals the `meat-cumulative` clause of `physCore` whenever `maxCulled` is the running
    total of `slaughtered`, which the check verifies per instance -/
def meatVsSlaughter (i : Inp α) (x : Var → α) : List (Excess α) :=
  if i.addMeat && i.storeBetweenYears then
    (List.range i.nmonths).map (fun m => ex "meat-cumulative-vs-slaughter" m (cum (meatUse i x) m - cum (at' i.slaughtered) m))
  else []

/-- residual of a row at `x`: how far it is from holding (≤ 0 ⇔ holds) -/
def rowExcess (x : Var → α) (r : Row α) : List (Excess α) :=
  let a := Aff.eval x r.lhs
  let b := Aff.eval x r.rhs
  match r.rel with
  | .le => [⟨r.name, 0, a - b⟩]
  | .ge => [⟨r.name, 0, b - a⟩]
  | .eq => [⟨r.name ++ ":le", 0, a - b⟩, ⟨r.name ++ ":ge", 0, b - a⟩]

end
end Allfed.PhysSpec
