import AllfedModel.Proofs.Scenario
/-!
# C13 — scenario options mean what they say and are applied exactly once

The tables (`setters`, `dispatch`, `requiredOptions`, `failRules`, `headColumns`, the herd loader's key
function) are *regenerated from the source on every run* (`Gen/ScenarioTable.lean`); `Model/Scenario.lean`
executes them.  Every theorem below is therefore re-checked against what the code says now.  The
theorems about runs hold for **every** sequence of setter calls, every option dictionary, every
country row and every number type `α` (in particular every ordered field and `Float`).
-/
set_option linter.unusedVariables false
set_option linter.unusedSectionVars false

namespace Allfed.C13
open Allfed.Scenario Allfed.Gen.Scenario

/-! ## 1. facts about the generated tables (`decide`) -/

/-- every setter asserts its family flag(s) clear before anything else happens to a flag, sets exactly
    the flag(s) it asserted, and its family is one `check_all_set` asks for -/
theorem C13_table_wellformed : ∀ i ∈ setters, wfSetter i = true := by decide +kernel

def sameSet (a b : List String) : Bool := a.all (fun x => b.contains x) && b.all (fun x => a.contains x)
def disjointB (a b : List String) : Bool := a.all fun x => !b.contains x

/-- the families partition the setters: two setters guard the same flags or have no flag in common -/
theorem C13_families_partition :
    ∀ a ∈ setters, ∀ b ∈ setters, (sameSet a.family b.family || disjointB a.family b.family) = true := by decide +kernel

/-- `__init__` clears exactly the flags `check_all_set` asks for, no flag twice, every flag has a setter,
    and setter names are unique -/
theorem C13_flags_agree :
    sameSet initFlags allFlags = true ∧ nodupB allFlags = true ∧ nodupB initFlags = true ∧
    (allFlags.all fun f => setters.any fun i => i.family.contains f) = true ∧
    nodupB (setters.map (·.name)) = true := by decide +kernel

/-- the setters called by one option family all belong to one and the same flag family, different option
    families use disjoint flag families, and together they cover `check_all_set` -/
def branchCalls (b : Branch) : List String := b.actions.filterMap fun a => match a with | .call n => some n | _ => none
def branchExits (b : Branch) : Bool := b.actions.any fun a => match a with | .exit => true | _ => false
def callFamily (n : String) : List String := match findSetter n with | some i => i.family | none => []
def itemFamilies : List DispItem → List (List String)
  | [] => []
  | .family _ brs _ :: t =>
    (match brs.find? (fun b => !branchExits b) with
     | some b => (branchCalls b).flatMap callFamily
     | none => []) :: itemFamilies t
  | _ :: t => itemFamilies t
def uniformItem : DispItem → Bool
  | .family _ brs d => d.isNone && brs.all fun b =>
      branchExits b || ((branchCalls b).length == 1 && (branchCalls b).all (fun n => (findSetter n).isSome) &&
        (match brs.find? (fun b => !branchExits b) with
         | some b0 => sameSet ((branchCalls b).flatMap callFamily) ((branchCalls b0).flatMap callFamily)
         | none => false))
  | _ => true

theorem C13_dispatch_covers_every_family :
    dispatch.all uniformItem = true ∧ nodupB (itemFamilies dispatch).flatten = true ∧
    sameSet (itemFamilies dispatch).flatten allFlags = true := by decide +kernel

/-- every option family is asserted present up front, and no family has a catch-all branch -/
theorem C13_every_family_required_no_default :
    (dispatch.all fun it => match it with
      | .family o _ d => requiredOptions.contains o && d.isNone
      | _ => true) = true := by decide +kernel

/-- a known-to-fail patch replaces the value of its option only when that value is one of the option's
    accepted values (so it never hides an unknown value) -/
def ruleOK (r : FailRule) : Bool := dispatch.all fun it => match it with
  | .family o brs _ =>
    if o = r.corrKey then
      (match lookupK o r.conds with
       | some vals => vals.all fun x => (brs.find? fun b => b.value == x).isSome
       | none => false)
    else true
  | _ => true

theorem C13_patch_rules_ok : failRules.all ruleOK = true := by decide +kernel

section
variable {α : Type} [Add α] [Sub α] [Mul α] [Div α] [Neg α] [LE α] [LT α] [DecidableLE α] [DecidableLT α]
  [OfNat α 0] [OfNat α 1] [OfScientific α] [BEq α] [PyNum α]

/-! ## 2. exactly once -/

/-- every family flag that `check_all_set` asks for is guarded by exactly one call of the sequence -/
def ExactlyOnce (seq : List SetterInfo) : Prop := ∀ f ∈ allFlags, (fams seq).count f = 1

theorem wf_of_mem (seq : List SetterInfo) (hs : ∀ i ∈ seq, i ∈ setters) : ∀ i ∈ seq, wfSetter i = true :=
  fun i hi => C13_table_wellformed i (hs i hi)

theorem fams_subset (seq : List SetterInfo) (hs : ∀ i ∈ seq, i ∈ setters) : ∀ f ∈ fams seq, f ∈ allFlags := by
  intro f hf
  simp only [fams, List.mem_flatMap] at hf
  obtain ⟨i, hi, hfi⟩ := hf
  exact (wf_unpack i (wf_of_mem seq hs i hi)).2.2.2.2 f hfi

theorem nodup_of_count_le_one {l : List String} (h : ∀ a, l.count a ≤ 1) : l.Nodup := by
  induction l with
  | nil => exact List.nodup_nil
  | cons x t ih =>
    refine List.nodup_cons.mpr ⟨?_, ih fun a => ?_⟩
    · have := h x
      simp only [List.count_cons_self] at this
      exact List.count_eq_zero.mp (by omega)
    · have := h a
      rw [List.count_cons] at this
      omega

theorem count_eq_one_of_nodup {l : List String} (hn : l.Nodup) {a : String} (ha : a ∈ l) : l.count a = 1 := by
  induction l with
  | nil => cases ha
  | cons x t ih =>
    obtain ⟨hx, ht⟩ := List.nodup_cons.mp hn
    rw [List.count_cons]
    by_cases hxa : x = a
    · subst hxa
      simp [List.count_eq_zero.mpr hx]
    · have : a ∈ t := by
        rcases List.mem_cons.mp ha with h | h
        · exact (hxa h.symm).elim
        · exact h
      simp [hxa, ih ht this]

theorem exactlyOnce_nodup (seq : List SetterInfo) (hs : ∀ i ∈ seq, i ∈ setters) (h : ExactlyOnce seq) :
    (fams seq).Nodup := by
  refine nodup_of_count_le_one fun a => ?_
  by_cases ha : a ∈ fams seq
  · exact Nat.le_of_eq (h a (fams_subset seq hs a ha))
  · rw [List.count_eq_zero.mpr ha]; omega

/-- the flags after a successful run are exactly the families of the setters called, none of them twice -/
theorem C13_flags_of_run (opts : Dict α) (cd : Option (Dict α)) (seq : List SetterInfo) (s : ScState α)
    (hs : ∀ i ∈ seq, i ∈ setters) (h : run opts cd ScState.init seq = .ok s) :
    (fams seq).Nodup ∧ ∀ f, f ∈ s.flags ↔ f ∈ fams seq := by
  obtain ⟨hn, _, hm⟩ := run_ok opts cd seq ScState.init s (wf_of_mem seq hs) h
  exact ⟨hn, fun f => by simpa [ScState.init] using hm f⟩

/-- **exactly once, ⇒**: a run that succeeds and passes `check_all_set` called every family exactly once -/
theorem C13_exactly_once_sound (opts : Dict α) (cd : Option (Dict α)) (seq : List SetterInfo) (s : ScState α)
    (hs : ∀ i ∈ seq, i ∈ setters) (h : run opts cd ScState.init seq = .ok s) (hc : checkAllSet s = true) :
    ExactlyOnce seq := by
  obtain ⟨hn, hm⟩ := C13_flags_of_run opts cd seq s hs h
  intro f hf
  simp only [checkAllSet, List.all_eq_true, decide_eq_true_eq] at hc
  exact count_eq_one_of_nodup hn ((hm f).mp (hc f hf))

/-- when every family occurs exactly once the exactly-once discipline never rejects -/
theorem C13_never_flag_error_when_once (opts : Dict α) (cd : Option (Dict α)) (seq : List SetterInfo)
    (hs : ∀ i ∈ seq, i ∈ setters) (h : ExactlyOnce seq) : ∀ f, run opts cd ScState.init seq ≠ .error (.alreadySet f) :=
  run_noFlagErr opts cd seq ScState.init (wf_of_mem seq hs) (exactlyOnce_nodup seq hs h) (by simp [ScState.init])

/-- **exactly once, ⇐**: if every family occurs exactly once, the run either succeeds with all flags set,
    or stops for a reason that is not the flag discipline (a data precondition: wrong scale, a key or
    a country column that is not there) -/
theorem C13_exactly_once_complete (opts : Dict α) (cd : Option (Dict α)) (seq : List SetterInfo)
    (hs : ∀ i ∈ seq, i ∈ setters) (h : ExactlyOnce seq) :
    (∃ s, run opts cd ScState.init seq = .ok s ∧ checkAllSet s = true) ∨
    (∃ e, run opts cd ScState.init seq = .error e ∧ e.isFlagErr = false) := by
  cases hr : run opts cd ScState.init seq with
  | error e =>
    right
    refine ⟨e, rfl, ?_⟩
    cases e <;> simp [Err.isFlagErr]
    rename_i f
    exact C13_never_flag_error_when_once opts cd seq hs h f hr
  | ok s =>
    left
    refine ⟨s, rfl, ?_⟩
    obtain ⟨_, hm⟩ := C13_flags_of_run opts cd seq s hs hr
    simp only [checkAllSet, List.all_eq_true, decide_eq_true_eq]
    intro f hf
    refine (hm f).mpr ?_
    have := h f hf
    exact List.count_pos_iff.mp (by omega)

/-- **exactly once, ⇔**: for every sequence of setters of the table whose data preconditions hold (the run
    can only be stopped by the flag discipline), `run seq` succeeds and `check_all_set` holds **iff** every
    family occurs exactly once -/
theorem C13_exactly_once (opts : Dict α) (cd : Option (Dict α)) (seq : List SetterInfo)
    (hs : ∀ i ∈ seq, i ∈ setters)
    (hdata : ∀ e, run opts cd ScState.init seq = .error e → e.isFlagErr = true) :
    (∃ s, run opts cd ScState.init seq = .ok s ∧ checkAllSet s = true) ↔ ExactlyOnce seq := by
  constructor
  · rintro ⟨s, h, hc⟩
    exact C13_exactly_once_sound opts cd seq s hs h hc
  · intro h
    rcases C13_exactly_once_complete opts cd seq hs h with h | ⟨e, he, hf⟩
    · exact h
    · rw [hdata e he] at hf; cases hf

/-- a second setter of a family that was already applied is rejected, wherever it comes in the sequence -/
theorem C13_twice_rejected (opts : Dict α) (cd : Option (Dict α)) (pre mid post : List SetterInfo) (a b : SetterInfo)
    (hs : ∀ i ∈ pre ++ a :: mid ++ b :: post, i ∈ setters) (f : String) (ha : f ∈ a.family) (hb : f ∈ b.family) :
    ∃ e, run opts cd ScState.init (pre ++ a :: mid ++ b :: post) = .error e := by
  refine run_dup_rejected opts cd _ ScState.init (wf_of_mem _ hs) fun hn => ?_
  have hfam : fams (pre ++ a :: mid ++ b :: post) = fams pre ++ (a.family ++ (fams mid ++ (b.family ++ fams post))) := by
    simp [fams]
  rw [hfam] at hn
  have h2 := (List.nodup_append.mp hn).2.1
  have h3 := (List.nodup_append.mp h2).2.2
  exact h3 f ha f (List.mem_append_right _ (List.mem_append_left _ hb)) rfl

/-! ## 3. the dispatcher -/

/-- a missing option is rejected by the presence assertions, before the options are copied and before
    any setter is chosen or run (the error does not depend on the country row) -/
theorem C13_missing_rejected (opts : Dict α) (cd : Option (Dict α)) (o : String)
    (ho : o ∈ requiredOptions) (hm : lookupK o opts = none) :
    ∃ o', o' ∈ requiredOptions ∧ lookupK o' opts = none ∧
      setDependingOnOption opts cd = .error (.missing o') ∧ dispatchOptions opts cd = .error (.missing o') := by
  obtain ⟨o', h1, h2, h3⟩ := checkRequired_missing opts requiredOptions o ho hm
  exact ⟨o', h1, h2, by simp [setDependingOnOption, h3, bind, Except.bind],
    by simp [dispatchOptions, h3, bind, Except.bind]⟩

theorem lookupK_mem {β : Type} (k : String) (v : β) (l : List (String × β)) (h : lookupK k l = some v) : (k, v) ∈ l := by
  induction l with
  | nil => simp [lookupK] at h
  | cons p t ih =>
    obtain ⟨k', v'⟩ := p
    simp only [lookupK] at h
    split at h
    · rename_i hk; cases h; subst hk; exact List.mem_cons_self
    · exact List.mem_cons_of_mem _ (ih h)

/-- the copy the dispatcher works on still carries the unknown value -/
theorem unknown_survives_patch (iso : String) (opts copy : Dict α) (o : String) (brs : List Branch)
    (d : Option (List Action)) (v : Val α) (hf : .family o brs d ∈ dispatch) (hv : lookupK o opts = some v)
    (hu : pickBranch v brs = none) (hc : alterOptions iso opts failRules = .ok copy) :
    lookupK o copy = some v := by
  rcases alterOptions_cases iso opts copy failRules hc with rfl | ⟨r, hr, hm, _, rfl⟩
  · exact hv
  · by_cases hk : o = r.corrKey
    · exfalso
      have hok := List.all_eq_true.mp C13_patch_rules_ok r hr
      have := List.all_eq_true.mp hok _ hf
      simp only [hk, if_true] at this
      cases hl : lookupK r.corrKey r.conds with
      | none => simp [hl] at this
      | some vals =>
        simp only [hl, List.all_eq_true] at this
        obtain ⟨v0, hv0, hin⟩ := ruleMatches_mem opts r.conds r.corrKey vals hm (lookupK_mem _ _ _ hl)
        rw [← hk, hv] at hv0
        cases hv0
        cases v <;> simp [valIn] at hin
        rename_i x
        have hx := this x hin
        simp [pickBranch] at hu
        rw [List.find?_eq_none.mpr (by simpa using hu)] at hx
        cases hx
    · rw [lookupK_setKey_ne _ _ _ _ hk]; exact hv

/-- an unknown value of any option family is rejected -/
theorem C13_unknown_rejected (opts : Dict α) (cd : Option (Dict α)) (o : String) (brs : List Branch)
    (d : Option (List Action)) (v : Val α) (hf : .family o brs d ∈ dispatch) (hv : lookupK o opts = some v)
    (hu : pickBranch v brs = none) : ∃ e, setDependingOnOption opts cd = .error e := by
  have hd : d = none := by
    have := List.all_eq_true.mp C13_every_family_required_no_default _ hf
    simp only [Bool.and_eq_true, Option.isNone_iff_eq_none] at this
    exact this.2
  subst hd
  unfold setDependingOnOption
  cases h1 : checkRequired opts requiredOptions with
  | error e => exact ⟨e, by simp [bind, Except.bind]⟩
  | ok _ =>
    cases h2 : isoOf cd with
    | error e => exact ⟨e, by simp [bind, Except.bind]⟩
    | ok iso =>
      cases h3 : alterOptions iso opts failRules with
      | error e => exact ⟨e, by simp [bind, Except.bind, h3]⟩
      | ok copy =>
        obtain ⟨e, he⟩ := execItems_unknown copy cd dispatch ScState.init o brs v hf
          (unknown_survives_patch iso opts copy o brs none v hf hv hu h3) hu
        exact ⟨e, by simpa [bind, Except.bind, h3] using he⟩

/-- … and already while the calls are being chosen: no setter has run -/
theorem C13_unknown_rejected_before_any_setter (opts : Dict α) (cd : Option (Dict α)) (o : String) (brs : List Branch)
    (d : Option (List Action)) (v : Val α) (hf : .family o brs d ∈ dispatch) (hv : lookupK o opts = some v)
    (hu : pickBranch v brs = none) : ∃ e, dispatchOptions opts cd = .error e := by
  have hd : d = none := by
    have := List.all_eq_true.mp C13_every_family_required_no_default _ hf
    simp only [Bool.and_eq_true, Option.isNone_iff_eq_none] at this
    exact this.2
  subst hd
  unfold dispatchOptions
  cases h1 : checkRequired opts requiredOptions with
  | error e => exact ⟨e, by simp [bind, Except.bind]⟩
  | ok _ =>
    cases h2 : isoOf cd with
    | error e => exact ⟨e, by simp [bind, Except.bind]⟩
    | ok iso =>
      cases h3 : alterOptions iso opts failRules with
      | error e => exact ⟨e, by simp [bind, Except.bind, h3]⟩
      | ok copy =>
        obtain ⟨e, he⟩ := planItems_unknown copy dispatch o brs v hf
          (unknown_survives_patch iso opts copy o brs none v hf hv hu h3) hu
        exact ⟨e, by simp [bind, Except.bind, he, h3]⟩

/-- the code interleaves choosing and running; deciding everything first (`dispatchOptions`) and running
    afterwards accepts exactly the same option dictionaries with exactly the same result -/
theorem C13_two_phase (opts : Dict α) (cd : Option (Dict α)) (r : ScState α) :
    setDependingOnOption opts cd = .ok r ↔
      ∃ copy p, dispatchOptions opts cd = .ok (copy, p) ∧ execSteps copy cd ScState.init p = .ok r := by
  unfold setDependingOnOption dispatchOptions
  cases h1 : checkRequired opts requiredOptions with
  | error e => simp [bind, Except.bind]
  | ok _ =>
    cases h2 : isoOf cd with
    | error e => simp [bind, Except.bind]
    | ok iso =>
      cases h3 : alterOptions iso opts failRules with
      | error e => simp [bind, Except.bind, h3]
      | ok copy =>
        simp only [bind, Except.bind, h3]
        rw [execItems_two_phase copy cd dispatch ScState.init r]
        constructor
        · rintro ⟨p, hp, he⟩
          exact ⟨copy, p, by simp [hp, pure, Except.pure], he⟩
        · rintro ⟨copy', p, hp, he⟩
          cases hpl : planItems copy dispatch with
          | error e => simp [hpl] at hp
          | ok p' =>
            simp [hpl, pure, Except.pure] at hp
            obtain ⟨rfl, rfl⟩ := hp
            exact ⟨p', rfl, he⟩

/-- the known-to-fail patch works on a copy and changes at most the one key its rule names -/
theorem C13_patch_frame (iso : String) (opts copy : Dict α) (h : alterOptions iso opts failRules = .ok copy) :
    copy = opts ∨ ∃ r ∈ failRules, ruleMatches opts r.conds = true ∧ iso = r.iso3 ∧
      ∀ k, k ≠ r.corrKey → lookupK k copy = lookupK k opts := by
  rcases alterOptions_cases iso opts copy failRules h with h | ⟨r, hr, hm, hi, rfl⟩
  · exact Or.inl h
  · exact Or.inr ⟨r, hr, hm, hi, fun k hk => lookupK_setKey_ne _ _ _ _ hk⟩

/-! ## 4. numeric overrides -/

/-- each numeric override changes only the key(s) it names: the flags, the scale and every other constant
    keep their value -/
theorem C13_frame (opts : Dict α) (s s' : ScState α) (ov : Override) (h : applyOverride opts s ov = .ok s') :
    s'.flags = s.flags ∧ s'.scope = s.scope ∧
      ∀ k, touches (ov.names opts) k = false → lookupK k s'.consts = lookupK k s.consts :=
  applyOverride_frame opts s s' ov h

/-- an override whose option is not given does nothing -/
theorem C13_frame_absent (opts : Dict α) (s : ScState α) (key target : String) (lo hi : Lit) (extra targets tries : List String) :
    (lookupK key opts = none → applyOverride opts s (.exact key target lo hi extra) = .ok s) ∧
    (lookupK key opts = none → applyOverride opts s (.mult key lo hi targets tries) = .ok s) :=
  ⟨fun h => applyOverride_absent opts s (.exact key target lo hi extra) h,
   fun h => applyOverride_absent opts s (.mult key lo hi targets tries) h⟩

/-- an accepted single-key override stores the converted value, within its documented range, under its key -/
theorem C13_override_sets_named_key (opts : Dict α) (s s' : ScState α) (key : String) (lo hi : Lit) (v : Val α)
    (hv : lookupK key opts = some v) (h : applyOverride opts s (.exact key key lo hi []) = .ok s') :
    ∃ x, convVal .float v = .ok x ∧ inRange lo hi x = true ∧ lookupK key s'.consts = some (.num x) :=
  applyOverride_exact_sets opts s s' key key lo hi v hv h

/-- a head-count option `k` (any key containing the needle) stores `int(value)` under `k ++ suffix` -/
theorem C13_head_override_writes (s : ScState α) (needle suffix k : String) (v : Val α) (hk : hasSub k needle = true) :
    applyOverride [(k, v)] s (.substr needle suffix .int) =
      (convVal .int v >>= fun x => .ok { s with consts := writeKey (k ++ suffix) (.num x) s.consts }) := by
  simp only [applyOverride, substrWrites, hk, if_true]
  cases convVal Conv.int v <;> rfl

end

/-! ## 5. the head-count override key: option → constants → column of the head-count table -/

/-- for every head-count column of the shipped table: the option of that name is taken up by the dispatcher
    under `<column>_start`, and the herd loader maps that key back to exactly that column -/
def headOK (col : String) : Bool :=
  headConstKey col == some (col ++ "_start") && loaderColumn (col ++ "_start") == some col

theorem head_part1 : (headColumns.take 7).all headOK = true := by decide +kernel
theorem head_part2 : ((headColumns.drop 7).take 7).all headOK = true := by decide +kernel
theorem head_part3 : (headColumns.drop 14).all headOK = true := by decide +kernel

theorem C13_head_override_name :
    ∀ col ∈ headColumns, headConstKey col = some (col ++ "_start") ∧ loaderColumn (col ++ "_start") = some col := by
  intro col hc
  have hsplit : headColumns = headColumns.take 7 ++ ((headColumns.drop 7).take 7 ++ headColumns.drop 14) := by
    decide +kernel
  rw [hsplit] at hc
  have : headOK col = true := by
    rcases List.mem_append.mp hc with h | h
    · exact List.all_eq_true.mp head_part1 col h
    · rcases List.mem_append.mp h with h | h
      · exact List.all_eq_true.mp head_part2 col h
      · exact List.all_eq_true.mp head_part3 col h
  simpa [headOK] using this

/-- the same for every present or future species: any column name ending in `_head` -/
theorem C13_head_override_name_general (p : String) :
    loaderColumn (p ++ "_head" ++ "_start") = some (p ++ "_head") := by
  have h1 : loaderNeedle = "_head_start" := by decide +kernel
  have h2 : (loaderFunction == "removesuffix") = true := by decide +kernel
  have h3 : loaderArg = "_start" := by decide +kernel
  have hl : ("_head" ++ "_start" : String) = "_head_start" := by decide +kernel
  have e : p ++ "_head" ++ "_start" = p ++ "_head_start" ++ "" := by
    rw [String.append_assoc, hl, String.append_empty]
  have hs : hasSub (p ++ "_head" ++ "_start") "_head_start" = true := by
    rw [e]; exact hasSub_append p "_head_start" ""
  unfold loaderColumn
  rw [h1, h2, h3, if_pos hs, if_pos rfl, removeSuffix_append]

/-- nothing but the override writes a key the herd loader would pick up, and the species table, the
    head-count columns and the slaughter columns fit together -/
def noLoaderKey (i : SetterInfo) : Bool := i.writes.all fun p => !hasSub p loaderNeedle
theorem nokey_part1 : (setters.take 1).all noLoaderKey = true := by decide +kernel
theorem nokey_part2 : ((setters.drop 1).take 1).all noLoaderKey = true := by decide +kernel
theorem nokey_part3 : ((setters.drop 2).take 28).all noLoaderKey = true := by decide +kernel
theorem nokey_part4 : (setters.drop 30).all noLoaderKey = true := by decide +kernel

theorem C13_head_keys_only_from_override :
    (∀ i ∈ setters, ∀ p ∈ i.writes, hasSub p loaderNeedle = false) ∧
    (dispatchStmts dispatch).all (fun st => st.writes.all fun p => !hasSub p loaderNeedle) = true ∧
    headColumns = speciesNames.map (· ++ "_head") := by
  refine ⟨?_, by decide +kernel, by decide +kernel⟩
  intro i hi p hp
  have hsplit : setters = setters.take 1 ++ ((setters.drop 1).take 1 ++ ((setters.drop 2).take 28 ++ setters.drop 30)) := by
    decide +kernel
  rw [hsplit] at hi
  have : noLoaderKey i = true := by
    rcases List.mem_append.mp hi with h | h
    · exact List.all_eq_true.mp nokey_part1 i h
    · rcases List.mem_append.mp h with h | h
      · exact List.all_eq_true.mp nokey_part2 i h
      · rcases List.mem_append.mp h with h | h
        · exact List.all_eq_true.mp nokey_part3 i h
        · exact List.all_eq_true.mp nokey_part4 i h
  simpa using List.all_eq_true.mp this p hp

/-- **the defect that was repaired (D4)**: Python's `key.strip("_start")` strips *characters*; for three
    species it does not give the column back -/
theorem C13_strip_counterexample :
    pyStrip "_start" "rabbit_head_start" = "bbit_head" ∧ pyStrip "_start" "turkey_head_start" = "urkey_head" ∧
    pyStrip "_start" "asses_head_start" = "es_head" ∧ removeSuffix "rabbit_head_start" "_start" = "rabbit_head" := by
  decide +kernel

theorem C13_strip_mangles_exactly :
    headColumns.filter (fun col => pyStrip "_start" (col ++ "_start") != col) = ["rabbit_head", "turkey_head", "asses_head"] := by
  decide +kernel

/-! ## 6. the options mean what they say: generated tables = hand-written specification

Transcribed from `scenarios/README.md` ("Allowed Values") and the setters' docstrings / comments:
shut-off months and the percent fed before non-human consumption, waste percentages, intake caps,
nutrition profiles, stock regimes, seasonality, grass and crop ratios, which `ADD_*` switches and delays
each resilient-food set turns on.  A changed constant, a forgotten assignment, an extra assignment or a
branch calling another setter makes `decide` fail. -/

abbrev n (i : Int) : Ex := .lit (.num i 0)
/-- the decimal `m·10^e` -/
abbrev d (m e : Int) : Ex := .lit (.num m e)
abbrev b (x : Bool) : Ex := .lit (.bool x)
abbrev s (x : String) : Ex := .lit (.str x)
abbrev cd (x : String) : Ex := .cd x
abbrev c (x : String) : Ex := .const x
abbrev dict : Ex := .emptyDict

def sp_init_global_food_system_properties : Spec :=
  { name := "init_global_food_system_properties", params := [], family := ["SCALE_SET", "GENERIC_INITIALIZED_SET"], scope := none, setsScope := some true, needs := [],
    writes := [
      ("GLOBAL_POP", .ex (n 7723713182)),
      ("INITIAL_GLOBAL_CROP_AREA", .ex (n 1430000000)),
      ("DELAY", .ex (dict)),
      ("INITIAL_HARVEST_DURATION_IN_MONTHS", .ex (n 8)),
      ("DELAY/ROTATION_CHANGE_IN_MONTHS", .ex (n 2)),
      ("ADD_FISH", .ex (b true)),
      ("POP", .ex (n 7723713182)),
      ("BASELINE_CROP_KCALS", .ex (n 3898000000)),
      ("BASELINE_CROP_FAT", .ex (n 322000000)),
      ("BASELINE_CROP_PROTEIN", .ex (n 350000000)),
      ("BIOFUEL_KCALS", .ex (n 623000000)),
      ("BIOFUEL_FAT", .ex (n 124000000)),
      ("BIOFUEL_PROTEIN", .ex (n 32000000)),
      ("FEED_KCALS", .ex (n 1447960000)),
      ("FEED_FAT", .ex (n 60000000)),
      ("FEED_PROTEIN", .ex (n 147000000)),
      ("HUMAN_INEDIBLE_FEED_BASELINE_MONTHLY", .ex (.div (.mul (n 4206) (n 1000000)) (n 12))),
      ("END_OF_MONTH_STOCKS", .ex (dict)),
      ("END_OF_MONTH_STOCKS/JAN", .ex (.mul (n 1960922000) (d 1015 (-3)))),
      ("END_OF_MONTH_STOCKS/FEB", .ex (.mul (n 1784277000) (d 1015 (-3)))),
      ("END_OF_MONTH_STOCKS/MAR", .ex (.mul (n 1624673000) (d 1015 (-3)))),
      ("END_OF_MONTH_STOCKS/APR", .ex (.mul (n 1492822000) (d 1015 (-3)))),
      ("END_OF_MONTH_STOCKS/MAY", .ex (.mul (n 1359236000) (d 1015 (-3)))),
      ("END_OF_MONTH_STOCKS/JUN", .ex (.mul (n 1245351000) (d 1015 (-3)))),
      ("END_OF_MONTH_STOCKS/JUL", .ex (.mul (n 1246485000) (d 1015 (-3)))),
      ("END_OF_MONTH_STOCKS/AUG", .ex (.mul (n 1140824000) (d 1015 (-3)))),
      ("END_OF_MONTH_STOCKS/SEP", .ex (.mul (n 1196499000) (d 1015 (-3)))),
      ("END_OF_MONTH_STOCKS/OCT", .ex (.mul (n 1487030000) (d 1015 (-3)))),
      ("END_OF_MONTH_STOCKS/NOV", .ex (.mul (n 1642406000) (d 1015 (-3)))),
      ("END_OF_MONTH_STOCKS/DEC", .ex (.mul (n 1813862000) (d 1015 (-3)))),
      ("SEAWEED_GROWTH_PER_DAY", .ex (dict)),
      ("INITIAL_MILK_CATTLE", .ex (n 264000000)),
      ("INIT_SMALL_ANIMALS", .ex (n 28200000000)),
      ("INIT_MEDIUM_ANIMALS", .ex (n 3200000000)),
      ("INIT_LARGE_ANIMALS_WITH_MILK_COWS", .ex (n 1900000000)),
      ("FISH_DRY_CALORIC_ANNUAL", .ex (n 27500000)),
      ("FISH_FAT_TONS_ANNUAL", .ex (n 4000000)),
      ("FISH_PROTEIN_TONS_ANNUAL", .ex (n 17000000)),
      ("TONS_MILK_ANNUAL", .ex (n 879000000)),
      ("TONS_CHICKEN_AND_PORK_ANNUAL", .ex (n 250000000)),
      ("TONS_BEEF_ANNUAL", .ex (n 74200000)),
      ("SCP_GLOBAL_PRODUCTION_FRACTION", .ex (n 1)),
      ("CS_GLOBAL_PRODUCTION_FRACTION", .ex (n 1)),
      ("SEAWEED_NEW_AREA_FRACTION", .ex (n 1)),
      ("SEAWEED_MAX_AREA_FRACTION", .ex (n 1)),
      ("ROTATION_IMPROVEMENTS", .ex (dict)),
      ("ROTATION_IMPROVEMENTS/POWER_LAW_IMPROVEMENT", .ex (d 796 (-3))),
      ("INITIAL_SEAWEED_FRACTION", .ex (n 1)),
      ("INITIAL_BUILT_SEAWEED_FRACTION", .ex (n 1)),
      ("INITIAL_CROP_AREA_FRACTION", .ex (n 1)),
      ("MILK_YIELD_KG_PER_MILK_BEARING_ANIMAL_PER_YEAR", .ex (d 10996 (-1))),
      ("KG_MEAT_PER_PIG", .ex (n 86)),
      ("KG_MEAT_PER_CHICKEN", .ex (d 165 (-2))),
      ("COUNTRY_CODE", .ex (s "WOR"))] }

def sp_set_immediate_shutoff : Spec :=
  { name := "set_immediate_shutoff", params := ["constants_for_params"], family := ["NONHUMAN_CONSUMPTION_SET"], scope := none, setsScope := none, needs := [],
    writes := [
      ("DELAY/FEED_SHUTOFF_MONTHS", .ex (n 0)),
      ("DELAY/BIOFUEL_SHUTOFF_MONTHS", .ex (n 0)),
      ("MINIMUM_PERCENT_FED_BEFORE_NONHUMAN_CONSUMPTION_ALLOWED", .ex (n 100))] }

def sp_set_one_month_delayed_shutoff : Spec :=
  { name := "set_one_month_delayed_shutoff", params := ["constants_for_params"], family := ["NONHUMAN_CONSUMPTION_SET"], scope := none, setsScope := none, needs := [],
    writes := [
      ("DELAY/FEED_SHUTOFF_MONTHS", .ex (n 1)),
      ("DELAY/BIOFUEL_SHUTOFF_MONTHS", .ex (n 1)),
      ("MINIMUM_PERCENT_FED_BEFORE_NONHUMAN_CONSUMPTION_ALLOWED", .ex (n 100))] }

def sp_set_short_delayed_shutoff : Spec :=
  { name := "set_short_delayed_shutoff", params := ["constants_for_params"], family := ["NONHUMAN_CONSUMPTION_SET"], scope := none, setsScope := none, needs := [],
    writes := [
      ("DELAY/FEED_SHUTOFF_MONTHS", .ex (n 2)),
      ("DELAY/BIOFUEL_SHUTOFF_MONTHS", .ex (n 1)),
      ("MINIMUM_PERCENT_FED_BEFORE_NONHUMAN_CONSUMPTION_ALLOWED", .ex (n 100))] }

def sp_set_long_delayed_shutoff : Spec :=
  { name := "set_long_delayed_shutoff", params := ["constants_for_params"], family := ["NONHUMAN_CONSUMPTION_SET"], scope := none, setsScope := none, needs := [],
    writes := [
      ("DELAY/FEED_SHUTOFF_MONTHS", .ex (n 3)),
      ("DELAY/BIOFUEL_SHUTOFF_MONTHS", .ex (n 2)),
      ("MINIMUM_PERCENT_FED_BEFORE_NONHUMAN_CONSUMPTION_ALLOWED", .ex (n 100))] }

def sp_set_continued_feed_biofuels : Spec :=
  { name := "set_continued_feed_biofuels", params := ["constants_for_params"], family := ["NONHUMAN_CONSUMPTION_SET"], scope := none, setsScope := none, needs := ["STORE_FOOD_BETWEEN_YEARS"],
    writes := [
      ("DELAY/FEED_SHUTOFF_MONTHS", .ex (c "NMONTHS")),
      ("DELAY/BIOFUEL_SHUTOFF_MONTHS", .ex (c "NMONTHS")),
      ("MINIMUM_PERCENT_FED_BEFORE_NONHUMAN_CONSUMPTION_ALLOWED", .ex (n 100))] }

def sp_set_continued_after_10_percent_fed : Spec :=
  { name := "set_continued_after_10_percent_fed", params := ["constants_for_params"], family := ["NONHUMAN_CONSUMPTION_SET"], scope := none, setsScope := none, needs := ["STORE_FOOD_BETWEEN_YEARS"],
    writes := [
      ("DELAY/FEED_SHUTOFF_MONTHS", .ex (c "NMONTHS")),
      ("DELAY/BIOFUEL_SHUTOFF_MONTHS", .ex (c "NMONTHS")),
      ("MINIMUM_PERCENT_FED_BEFORE_NONHUMAN_CONSUMPTION_ALLOWED", .ex (n 10))] }

def sp_set_long_delayed_shutoff_after_10_percent_fed : Spec :=
  { name := "set_long_delayed_shutoff_after_10_percent_fed", params := ["constants_for_params"], family := ["NONHUMAN_CONSUMPTION_SET"], scope := none, setsScope := none, needs := ["STORE_FOOD_BETWEEN_YEARS"],
    writes := [
      ("DELAY/FEED_SHUTOFF_MONTHS", .ex (n 12)),
      ("DELAY/BIOFUEL_SHUTOFF_MONTHS", .ex (n 6)),
      ("MINIMUM_PERCENT_FED_BEFORE_NONHUMAN_CONSUMPTION_ALLOWED", .ex (n 10))] }

def sp_set_breeding_to_greatly_reduced : Spec :=
  { name := "set_breeding_to_greatly_reduced", params := ["constants_for_params"], family := ["MEAT_STRATEGY_SET"], scope := none, setsScope := none, needs := [],
    writes := [
      ("BREEDING_STRATEGY", .ex (s "reduced"))] }

def sp_set_to_baseline_breeding : Spec :=
  { name := "set_to_baseline_breeding", params := ["constants_for_params"], family := ["MEAT_STRATEGY_SET"], scope := none, setsScope := none, needs := [],
    writes := [
      ("BREEDING_STRATEGY", .ex (s "baseline"))] }

def sp_set_to_feed_only_ruminants : Spec :=
  { name := "set_to_feed_only_ruminants", params := ["constants_for_params"], family := ["MEAT_STRATEGY_SET"], scope := none, setsScope := none, needs := [],
    writes := [
      ("BREEDING_STRATEGY", .ex (s "feed_only_ruminants"))] }

def sp_set_waste_to_zero : Spec :=
  { name := "set_waste_to_zero", params := ["constants_for_params"], family := ["WASTE_SET"], scope := none, setsScope := none, needs := [],
    writes := [
      ("WASTE_DISTRIBUTION", .ex (dict)),
      ("WASTE_DISTRIBUTION/SUGAR", .ex (n 0)),
      ("WASTE_DISTRIBUTION/MEAT", .ex (n 0)),
      ("WASTE_DISTRIBUTION/MILK", .ex (n 0)),
      ("WASTE_DISTRIBUTION/SEAFOOD", .ex (n 0)),
      ("WASTE_DISTRIBUTION/CROPS", .ex (n 0)),
      ("WASTE_DISTRIBUTION/SEAWEED", .ex (n 0)),
      ("WASTE_RETAIL", .ex (n 0))] }

def sp_set_global_waste_to_tripled_prices : Spec :=
  { name := "set_global_waste_to_tripled_prices", params := ["constants_for_params"], family := ["WASTE_SET"], scope := some true, setsScope := none, needs := [],
    writes := [
      ("WASTE_DISTRIBUTION", .ex (dict)),
      ("WASTE_DISTRIBUTION/SUGAR", .ex (d 9 (-2))),
      ("WASTE_DISTRIBUTION/CROPS", .ex (d 496 (-2))),
      ("WASTE_DISTRIBUTION/MEAT", .ex (d 8 (-1))),
      ("WASTE_DISTRIBUTION/MILK", .ex (d 212 (-2))),
      ("WASTE_DISTRIBUTION/SEAFOOD", .ex (d 17 (-2))),
      ("WASTE_DISTRIBUTION/SEAWEED", .ex (d 17 (-2))),
      ("WASTE_RETAIL", .ex (d 608 (-2)))] }

def sp_set_global_waste_to_doubled_prices : Spec :=
  { name := "set_global_waste_to_doubled_prices", params := ["constants_for_params"], family := ["WASTE_SET"], scope := some true, setsScope := none, needs := [],
    writes := [
      ("WASTE_DISTRIBUTION", .ex (dict)),
      ("WASTE_DISTRIBUTION/SUGAR", .ex (d 9 (-2))),
      ("WASTE_DISTRIBUTION/CROPS", .ex (d 496 (-2))),
      ("WASTE_DISTRIBUTION/MEAT", .ex (d 8 (-1))),
      ("WASTE_DISTRIBUTION/MILK", .ex (d 212 (-2))),
      ("WASTE_DISTRIBUTION/SEAFOOD", .ex (d 17 (-2))),
      ("WASTE_DISTRIBUTION/SEAWEED", .ex (d 17 (-2))),
      ("WASTE_RETAIL", .ex (d 106 (-1)))] }

def sp_set_global_waste_to_baseline_prices : Spec :=
  { name := "set_global_waste_to_baseline_prices", params := ["constants_for_params"], family := ["WASTE_SET"], scope := some true, setsScope := none, needs := [],
    writes := [
      ("WASTE_DISTRIBUTION", .ex (dict)),
      ("WASTE_DISTRIBUTION/SUGAR", .ex (d 9 (-2))),
      ("WASTE_DISTRIBUTION/CROPS", .ex (d 496 (-2))),
      ("WASTE_DISTRIBUTION/MEAT", .ex (d 8 (-1))),
      ("WASTE_DISTRIBUTION/MILK", .ex (d 212 (-2))),
      ("WASTE_DISTRIBUTION/SEAFOOD", .ex (d 17 (-2))),
      ("WASTE_DISTRIBUTION/SEAWEED", .ex (d 17 (-2))),
      ("WASTE_RETAIL", .ex (d 2498 (-2)))] }

def sp_set_country_waste_to_tripled_prices : Spec :=
  { name := "set_country_waste_to_tripled_prices", params := ["constants_for_params", "country_data"], family := ["WASTE_SET"], scope := some false, setsScope := none, needs := [],
    writes := [
      ("WASTE_DISTRIBUTION", .ex (dict)),
      ("WASTE_DISTRIBUTION/SUGAR", .ex (.mul (cd "distribution_loss_sugar") (n 100))),
      ("WASTE_DISTRIBUTION/CROPS", .ex (.mul (cd "distribution_loss_crops") (n 100))),
      ("WASTE_DISTRIBUTION/MEAT", .ex (.mul (cd "distribution_loss_meat") (n 100))),
      ("WASTE_DISTRIBUTION/MILK", .ex (.mul (cd "distribution_loss_dairy") (n 100))),
      ("WASTE_DISTRIBUTION/SEAFOOD", .ex (.mul (cd "distribution_loss_seafood") (n 100))),
      ("WASTE_DISTRIBUTION/SEAWEED", .ex (.mul (cd "distribution_loss_seafood") (n 100))),
      ("WASTE_RETAIL", .ex (.mul (cd "retail_waste_price_triple") (n 100)))] }

def sp_set_country_waste_to_doubled_prices : Spec :=
  { name := "set_country_waste_to_doubled_prices", params := ["constants_for_params", "country_data"], family := ["WASTE_SET"], scope := some false, setsScope := none, needs := [],
    writes := [
      ("WASTE_DISTRIBUTION", .ex (dict)),
      ("WASTE_DISTRIBUTION/SUGAR", .ex (.mul (cd "distribution_loss_sugar") (n 100))),
      ("WASTE_DISTRIBUTION/CROPS", .ex (.mul (cd "distribution_loss_crops") (n 100))),
      ("WASTE_DISTRIBUTION/MEAT", .ex (.mul (cd "distribution_loss_meat") (n 100))),
      ("WASTE_DISTRIBUTION/MILK", .ex (.mul (cd "distribution_loss_dairy") (n 100))),
      ("WASTE_DISTRIBUTION/SEAFOOD", .ex (.mul (cd "distribution_loss_seafood") (n 100))),
      ("WASTE_DISTRIBUTION/SEAWEED", .ex (.mul (cd "distribution_loss_seafood") (n 100))),
      ("WASTE_RETAIL", .ex (.mul (cd "retail_waste_price_double") (n 100)))] }

def sp_set_country_waste_to_baseline_prices : Spec :=
  { name := "set_country_waste_to_baseline_prices", params := ["constants_for_params", "country_data"], family := ["WASTE_SET"], scope := some false, setsScope := none, needs := [],
    writes := [
      ("WASTE_DISTRIBUTION", .ex (dict)),
      ("WASTE_DISTRIBUTION/SUGAR", .ex (.mul (cd "distribution_loss_sugar") (n 100))),
      ("WASTE_DISTRIBUTION/CROPS", .ex (.mul (cd "distribution_loss_crops") (n 100))),
      ("WASTE_DISTRIBUTION/MEAT", .ex (.mul (cd "distribution_loss_meat") (n 100))),
      ("WASTE_DISTRIBUTION/MILK", .ex (.mul (cd "distribution_loss_dairy") (n 100))),
      ("WASTE_DISTRIBUTION/SEAFOOD", .ex (.mul (cd "distribution_loss_seafood") (n 100))),
      ("WASTE_DISTRIBUTION/SEAWEED", .ex (.mul (cd "distribution_loss_seafood") (n 100))),
      ("WASTE_RETAIL", .ex (.mul (cd "retail_waste_baseline") (n 100)))] }

def sp_set_baseline_nutrition_profile : Spec :=
  { name := "set_baseline_nutrition_profile", params := ["constants_for_params"], family := ["NUTRITION_PROFILE_SET"], scope := none, setsScope := none, needs := [],
    writes := [
      ("NUTRITION", .ex (dict)),
      ("NUTRITION/KCALS_DAILY", .ex (n 2100)),
      ("NUTRITION/FAT_DAILY", .ex (d 617 (-1))),
      ("NUTRITION/PROTEIN_DAILY", .ex (d 595 (-1)))] }

def sp_set_catastrophe_nutrition_profile : Spec :=
  { name := "set_catastrophe_nutrition_profile", params := ["constants_for_params"], family := ["NUTRITION_PROFILE_SET"], scope := none, setsScope := none, needs := [],
    writes := [
      ("NUTRITION", .ex (dict)),
      ("NUTRITION/KCALS_DAILY", .ex (n 2100)),
      ("NUTRITION/FAT_DAILY", .ex (n 47)),
      ("NUTRITION/PROTEIN_DAILY", .ex (n 51))] }

def sp_set_intake_constraints_to_enabled : Spec :=
  { name := "set_intake_constraints_to_enabled", params := ["constants_for_params"], family := ["INTAKE_CONSTRAINTS_SET"], scope := none, setsScope := none, needs := [],
    writes := [
      ("MAX_SEAWEED_AS_PERCENT_KCALS_HUMANS", .ex (n 10)),
      ("MAX_CELLULOSIC_SUGAR_AS_PERCENT_KCALS_HUMANS", .ex (n 40)),
      ("MAX_METHANE_SCP_AS_PERCENT_KCALS_HUMANS", .ex (n 50)),
      ("MAX_SEAWEED_AS_PERCENT_KCALS_FEED", .ex (n 10)),
      ("MAX_CELLULOSIC_SUGAR_AS_PERCENT_KCALS_FEED", .ex (n 10)),
      ("MAX_METHANE_SCP_AS_PERCENT_KCALS_FEED", .ex (n 43)),
      ("MAX_SEAWEED_AS_PERCENT_KCALS_BIOFUEL", .ex (n 10)),
      ("MAX_CELLULOSIC_SUGAR_AS_PERCENT_KCALS_BIOFUEL", .ex (n 100)),
      ("MAX_METHANE_SCP_AS_PERCENT_KCALS_BIOFUEL", .ex (n 100))] }

def sp_set_intake_constraints_to_disabled_for_humans : Spec :=
  { name := "set_intake_constraints_to_disabled_for_humans", params := ["constants_for_params"], family := ["INTAKE_CONSTRAINTS_SET"], scope := none, setsScope := none, needs := [],
    writes := [
      ("MAX_SEAWEED_AS_PERCENT_KCALS_HUMANS", .ex (n 100)),
      ("MAX_CELLULOSIC_SUGAR_AS_PERCENT_KCALS_HUMANS", .ex (n 100)),
      ("MAX_METHANE_SCP_AS_PERCENT_KCALS_HUMANS", .ex (n 100)),
      ("MAX_SEAWEED_AS_PERCENT_KCALS_FEED", .ex (n 10)),
      ("MAX_CELLULOSIC_SUGAR_AS_PERCENT_KCALS_FEED", .ex (n 10)),
      ("MAX_METHANE_SCP_AS_PERCENT_KCALS_FEED", .ex (n 43)),
      ("MAX_SEAWEED_AS_PERCENT_KCALS_BIOFUEL", .ex (n 10)),
      ("MAX_CELLULOSIC_SUGAR_AS_PERCENT_KCALS_BIOFUEL", .ex (n 100)),
      ("MAX_METHANE_SCP_AS_PERCENT_KCALS_BIOFUEL", .ex (n 100))] }

def sp_set_no_stored_food : Spec :=
  { name := "set_no_stored_food", params := ["constants_for_params"], family := ["STORED_FOOD_SET"], scope := none, setsScope := none, needs := [],
    writes := [
      ("STORE_FOOD_BETWEEN_YEARS", .ex (b true)),
      ("PERCENT_STORED_FOOD_TO_USE", .ex (n 0)),
      ("ADD_STORED_FOOD", .ex (b false))] }

def sp_set_baseline_stored_food : Spec :=
  { name := "set_baseline_stored_food", params := ["constants_for_params"], family := ["STORED_FOOD_SET"], scope := none, setsScope := none, needs := [],
    writes := [
      ("STORE_FOOD_BETWEEN_YEARS", .ex (b true)),
      ("PERCENT_STORED_FOOD_TO_USE", .ex (n 100)),
      ("ADD_STORED_FOOD", .ex (b true))] }

def sp_set_stored_food_buffer_zero : Spec :=
  { name := "set_stored_food_buffer_zero", params := ["constants_for_params"], family := ["STORED_FOOD_END_SIM_SET"], scope := none, setsScope := none, needs := [],
    writes := [
      ("STORE_FOOD_BETWEEN_YEARS", .ex (b true)),
      ("RATIO_STOCKS_UNTOUCHED", .ex (n 0))] }

def sp_set_no_stored_food_between_years : Spec :=
  { name := "set_no_stored_food_between_years", params := ["constants_for_params"], family := ["STORED_FOOD_END_SIM_SET"], scope := none, setsScope := none, needs := [],
    writes := [
      ("STORE_FOOD_BETWEEN_YEARS", .ex (b false)),
      ("RATIO_STOCKS_UNTOUCHED", .ex (n 0))] }

def sp_set_stored_food_buffer_as_baseline : Spec :=
  { name := "set_stored_food_buffer_as_baseline", params := ["constants_for_params"], family := ["STORED_FOOD_END_SIM_SET"], scope := none, setsScope := none, needs := [],
    writes := [
      ("STORE_FOOD_BETWEEN_YEARS", .ex (b true)),
      ("RATIO_STOCKS_UNTOUCHED", .ex (n 1))] }

def sp_set_stored_food_buffer_as_baseline_and_no_stored_between_years : Spec :=
  { name := "set_stored_food_buffer_as_baseline_and_no_stored_between_years", params := ["constants_for_params"], family := ["STORED_FOOD_END_SIM_SET"], scope := none, setsScope := none, needs := [],
    writes := [
      ("STORE_FOOD_BETWEEN_YEARS", .ex (b false)),
      ("RATIO_STOCKS_UNTOUCHED", .ex (n 1))] }

def sp_set_no_seasonality : Spec :=
  { name := "set_no_seasonality", params := ["constants_for_params"], family := ["SEASONALITY_SET"], scope := none, setsScope := none, needs := [],
    writes := [
      ("SEASONALITY", .list [.div (n 1) (n 12), .div (n 1) (n 12), .div (n 1) (n 12), .div (n 1) (n 12), .div (n 1) (n 12), .div (n 1) (n 12), .div (n 1) (n 12), .div (n 1) (n 12), .div (n 1) (n 12), .div (n 1) (n 12), .div (n 1) (n 12), .div (n 1) (n 12)])] }

def sp_set_global_seasonality_baseline : Spec :=
  { name := "set_global_seasonality_baseline", params := ["constants_for_params"], family := ["SEASONALITY_SET"], scope := some true, setsScope := none, needs := [],
    writes := [
      ("SEASONALITY", .list [d 1121 (-4), d 178 (-4), d 241 (-4), d 344 (-4), d 338 (-4), d 411 (-4), d 882 (-4), d 791 (-4), d 1042 (-4), d 1911 (-4), d 1377 (-4), d 1365 (-4)])] }

def sp_set_global_seasonality_nuclear_winter : Spec :=
  { name := "set_global_seasonality_nuclear_winter", params := ["constants_for_params"], family := ["SEASONALITY_SET"], scope := some true, setsScope := none, needs := [],
    writes := [
      ("SEASONALITY", .list [d 1564 (-4), d 461 (-4), d 65 (-3), d 1017 (-4), d 772 (-4), d 785 (-4), d 667 (-4), d 256 (-4), d 163 (-4), d 1254 (-4), d 1183 (-4), d 1228 (-4)])] }

def sp_set_grasses_baseline : Spec :=
  { name := "set_grasses_baseline", params := ["constants_for_params"], family := ["GRASSES_SET"], scope := none, setsScope := none, needs := [],
    writes := [
      ("RATIO_GRASSES_YEAR1", .ex (n 1)),
      ("RATIO_GRASSES_YEAR2", .ex (n 1)),
      ("RATIO_GRASSES_YEAR3", .ex (n 1)),
      ("RATIO_GRASSES_YEAR4", .ex (n 1)),
      ("RATIO_GRASSES_YEAR5", .ex (n 1)),
      ("RATIO_GRASSES_YEAR6", .ex (n 1)),
      ("RATIO_GRASSES_YEAR7", .ex (n 1)),
      ("RATIO_GRASSES_YEAR8", .ex (n 1)),
      ("RATIO_GRASSES_YEAR9", .ex (n 1)),
      ("RATIO_GRASSES_YEAR10", .ex (n 1))] }

def sp_set_global_grasses_nuclear_winter : Spec :=
  { name := "set_global_grasses_nuclear_winter", params := ["constants_for_params"], family := ["GRASSES_SET"], scope := some true, setsScope := none, needs := [],
    writes := [
      ("RATIO_GRASSES_YEAR1", .ex (d 72 (-2))),
      ("RATIO_GRASSES_YEAR2", .ex (d 24 (-2))),
      ("RATIO_GRASSES_YEAR3", .ex (d 16 (-2))),
      ("RATIO_GRASSES_YEAR4", .ex (d 13 (-2))),
      ("RATIO_GRASSES_YEAR5", .ex (d 125 (-3))),
      ("RATIO_GRASSES_YEAR6", .ex (d 15 (-2))),
      ("RATIO_GRASSES_YEAR7", .ex (d 17 (-2))),
      ("RATIO_GRASSES_YEAR8", .ex (d 23 (-2))),
      ("RATIO_GRASSES_YEAR9", .ex (d 32 (-2))),
      ("RATIO_GRASSES_YEAR10", .ex (d 41 (-2)))] }

def sp_set_country_grasses_nuclear_winter : Spec :=
  { name := "set_country_grasses_nuclear_winter", params := ["constants_for_params", "country_data"], family := ["GRASSES_SET"], scope := some false, setsScope := none, needs := [],
    writes := [
      ("RATIO_GRASSES_YEAR1", .ex (.add (n 1) (cd "grasses_reduction_year1"))),
      ("RATIO_GRASSES_YEAR2", .ex (.add (n 1) (cd "grasses_reduction_year2"))),
      ("RATIO_GRASSES_YEAR3", .ex (.add (n 1) (cd "grasses_reduction_year3"))),
      ("RATIO_GRASSES_YEAR4", .ex (.add (n 1) (cd "grasses_reduction_year4"))),
      ("RATIO_GRASSES_YEAR5", .ex (.add (n 1) (cd "grasses_reduction_year5"))),
      ("RATIO_GRASSES_YEAR6", .ex (.add (n 1) (cd "grasses_reduction_year6"))),
      ("RATIO_GRASSES_YEAR7", .ex (.add (n 1) (cd "grasses_reduction_year7"))),
      ("RATIO_GRASSES_YEAR8", .ex (.add (n 1) (cd "grasses_reduction_year8"))),
      ("RATIO_GRASSES_YEAR9", .ex (.add (n 1) (cd "grasses_reduction_year9"))),
      ("RATIO_GRASSES_YEAR10", .ex (.add (n 1) (cd "grasses_reduction_year10")))] }

def sp_set_country_grasses_to_zero : Spec :=
  { name := "set_country_grasses_to_zero", params := ["constants_for_params"], family := ["GRASSES_SET"], scope := some false, setsScope := none, needs := [],
    writes := [
      ("RATIO_GRASSES_YEAR1", .ex (n 0)),
      ("RATIO_GRASSES_YEAR2", .ex (n 0)),
      ("RATIO_GRASSES_YEAR3", .ex (n 0)),
      ("RATIO_GRASSES_YEAR4", .ex (n 0)),
      ("RATIO_GRASSES_YEAR5", .ex (n 0)),
      ("RATIO_GRASSES_YEAR6", .ex (n 0)),
      ("RATIO_GRASSES_YEAR7", .ex (n 0)),
      ("RATIO_GRASSES_YEAR8", .ex (n 0)),
      ("RATIO_GRASSES_YEAR9", .ex (n 0)),
      ("RATIO_GRASSES_YEAR10", .ex (n 0))] }

def sp_set_fish_zero : Spec :=
  { name := "set_fish_zero", params := ["constants_for_params", "time_consts"], family := ["FISH_SET"], scope := none, setsScope := none, needs := [],
    writes := [
      ("time_consts:FISH_PERCENT_MONTHLY", .rep (n 0) (c "NMONTHS"))] }

def sp_set_fish_baseline : Spec :=
  { name := "set_fish_baseline", params := ["constants_for_params", "time_consts"], family := ["FISH_SET"], scope := none, setsScope := none, needs := [],
    writes := [
      ("time_consts:FISH_PERCENT_MONTHLY", .rep (n 100) (c "NMONTHS"))] }

def sp_set_disruption_to_crops_to_zero : Spec :=
  { name := "set_disruption_to_crops_to_zero", params := ["constants_for_params"], family := ["DISRUPTION_SET"], scope := none, setsScope := none, needs := [],
    writes := [
      ("ADD_OUTDOOR_GROWING", .ex (b true)),
      ("RATIO_CROPS_YEAR1", .ex (n 1)),
      ("RATIO_CROPS_YEAR2", .ex (n 1)),
      ("RATIO_CROPS_YEAR3", .ex (n 1)),
      ("RATIO_CROPS_YEAR4", .ex (n 1)),
      ("RATIO_CROPS_YEAR5", .ex (n 1)),
      ("RATIO_CROPS_YEAR6", .ex (n 1)),
      ("RATIO_CROPS_YEAR7", .ex (n 1)),
      ("RATIO_CROPS_YEAR8", .ex (n 1)),
      ("RATIO_CROPS_YEAR9", .ex (n 1)),
      ("RATIO_CROPS_YEAR10", .ex (n 1))] }

def sp_set_nuclear_winter_global_disruption_to_crops : Spec :=
  { name := "set_nuclear_winter_global_disruption_to_crops", params := ["constants_for_params"], family := ["DISRUPTION_SET"], scope := some true, setsScope := none, needs := [],
    writes := [
      ("ADD_OUTDOOR_GROWING", .ex (b true)),
      ("RATIO_CROPS_YEAR1", .ex (.sub (n 1) (d 53 (-2)))),
      ("RATIO_CROPS_YEAR2", .ex (.sub (n 1) (d 82 (-2)))),
      ("RATIO_CROPS_YEAR3", .ex (.sub (n 1) (d 89 (-2)))),
      ("RATIO_CROPS_YEAR4", .ex (.sub (n 1) (d 88 (-2)))),
      ("RATIO_CROPS_YEAR5", .ex (.sub (n 1) (d 84 (-2)))),
      ("RATIO_CROPS_YEAR6", .ex (.sub (n 1) (d 76 (-2)))),
      ("RATIO_CROPS_YEAR7", .ex (.sub (n 1) (d 65 (-2)))),
      ("RATIO_CROPS_YEAR8", .ex (.sub (n 1) (d 5 (-1)))),
      ("RATIO_CROPS_YEAR9", .ex (.sub (n 1) (d 33 (-2)))),
      ("RATIO_CROPS_YEAR10", .ex (.sub (n 1) (d 17 (-2)))),
      ("RATIO_CROPS_YEAR11", .ex (.sub (n 1) (d 8 (-2))))] }

def sp_set_nuclear_winter_country_disruption_to_crops : Spec :=
  { name := "set_nuclear_winter_country_disruption_to_crops", params := ["constants_for_params", "country_data"], family := ["DISRUPTION_SET"], scope := some false, setsScope := none, needs := [],
    writes := [
      ("ADD_OUTDOOR_GROWING", .ex (b true)),
      ("RATIO_CROPS_YEAR1", .ex (.add (n 1) (cd "crop_reduction_year1"))),
      ("RATIO_CROPS_YEAR2", .ex (.add (n 1) (cd "crop_reduction_year2"))),
      ("RATIO_CROPS_YEAR3", .ex (.add (n 1) (cd "crop_reduction_year3"))),
      ("RATIO_CROPS_YEAR4", .ex (.add (n 1) (cd "crop_reduction_year4"))),
      ("RATIO_CROPS_YEAR5", .ex (.add (n 1) (cd "crop_reduction_year5"))),
      ("RATIO_CROPS_YEAR6", .ex (.add (n 1) (cd "crop_reduction_year6"))),
      ("RATIO_CROPS_YEAR7", .ex (.add (n 1) (cd "crop_reduction_year7"))),
      ("RATIO_CROPS_YEAR8", .ex (.add (n 1) (cd "crop_reduction_year8"))),
      ("RATIO_CROPS_YEAR9", .ex (.add (n 1) (cd "crop_reduction_year9"))),
      ("RATIO_CROPS_YEAR10", .ex (.add (n 1) (cd "crop_reduction_year10"))),
      ("RATIO_CROPS_YEAR11", .ex (.add (n 1) (cd "crop_reduction_year10")))] }

def sp_set_zero_crops : Spec :=
  { name := "set_zero_crops", params := ["constants_for_params"], family := ["DISRUPTION_SET"], scope := none, setsScope := none, needs := [],
    writes := [
      ("ADD_OUTDOOR_GROWING", .ex (b false)),
      ("RATIO_OF_CROP_YIELDS_FROM_VERY_BEGINNING", .ex (n 0)),
      ("RATIO_CROPS_YEAR1", .ex (n 0)),
      ("RATIO_CROPS_YEAR2", .ex (n 0)),
      ("RATIO_CROPS_YEAR3", .ex (n 0)),
      ("RATIO_CROPS_YEAR4", .ex (n 0)),
      ("RATIO_CROPS_YEAR5", .ex (n 0)),
      ("RATIO_CROPS_YEAR6", .ex (n 0)),
      ("RATIO_CROPS_YEAR7", .ex (n 0)),
      ("RATIO_CROPS_YEAR8", .ex (n 0)),
      ("RATIO_CROPS_YEAR9", .ex (n 0)),
      ("RATIO_CROPS_YEAR10", .ex (n 0)),
      ("RATIO_CROPS_YEAR11", .ex (n 0))] }

def sp_include_protein : Spec :=
  { name := "include_protein", params := ["constants_for_params"], family := ["PROTEIN_SET"], scope := none, setsScope := none, needs := [],
    writes := [
      ("INCLUDE_PROTEIN", .ex (b true))] }

def sp_dont_include_protein : Spec :=
  { name := "dont_include_protein", params := ["constants_for_params"], family := ["PROTEIN_SET"], scope := none, setsScope := none, needs := [],
    writes := [
      ("INCLUDE_PROTEIN", .ex (b false))] }

def sp_include_fat : Spec :=
  { name := "include_fat", params := ["constants_for_params"], family := ["FAT_SET"], scope := none, setsScope := none, needs := [],
    writes := [
      ("INCLUDE_FAT", .ex (b true))] }

def sp_dont_include_fat : Spec :=
  { name := "dont_include_fat", params := ["constants_for_params"], family := ["FAT_SET"], scope := none, setsScope := none, needs := [],
    writes := [
      ("INCLUDE_FAT", .ex (b false))] }

def sp_get_all_resilient_foods_scenario : Spec :=
  { name := "get_all_resilient_foods_scenario", params := ["constants_for_params"], family := ["SCENARIO_SET"], scope := none, setsScope := none, needs := [],
    writes := [
      ("OG_USE_BETTER_ROTATION", .ex (b true)),
      ("ROTATION_IMPROVEMENTS/FAT_RATIO", .ex (d 1647 (-3))),
      ("ROTATION_IMPROVEMENTS/PROTEIN_RATIO", .ex (d 1108 (-3))),
      ("RATIO_INCREASED_CROP_AREA", .ex (n 1)),
      ("DELAY/INDUSTRIAL_FOODS_MONTHS", .ex (n 2)),
      ("INDUSTRIAL_FOODS_SLOPE_MULTIPLIER", .ex (n 1)),
      ("ADD_METHANE_SCP", .ex (b true)),
      ("DELAY/INDUSTRIAL_FOODS_MONTHS", .ex (n 2)),
      ("INDUSTRIAL_FOODS_SLOPE_MULTIPLIER", .ex (n 1)),
      ("ADD_CELLULOSIC_SUGAR", .ex (b true)),
      ("GREENHOUSE_GAIN_PCT", .ex (n 44)),
      ("DELAY/GREENHOUSE_MONTHS", .ex (n 2)),
      ("GREENHOUSE_AREA_MULTIPLIER", .ex (.div (n 190000000) (c "INITIAL_GLOBAL_CROP_AREA"))),
      ("ADD_GREENHOUSES", .ex (b true)),
      ("ADD_SEAWEED", .ex (b true)),
      ("DELAY/SEAWEED_MONTHS", .ex (n 1))] }

def sp_get_all_resilient_foods_and_more_area_scenario : Spec :=
  { name := "get_all_resilient_foods_and_more_area_scenario", params := ["constants_for_params"], family := ["SCENARIO_SET"], scope := none, setsScope := none, needs := [],
    writes := [
      ("OG_USE_BETTER_ROTATION", .ex (b true)),
      ("ROTATION_IMPROVEMENTS/FAT_RATIO", .ex (d 1647 (-3))),
      ("ROTATION_IMPROVEMENTS/PROTEIN_RATIO", .ex (d 1108 (-3))),
      ("RATIO_INCREASED_CROP_AREA", .ex (.div (n 72) (n 39))),
      ("NUMBER_YEARS_TAKES_TO_REACH_INCREASED_AREA", .ex (n 3)),
      ("DELAY/INDUSTRIAL_FOODS_MONTHS", .ex (n 2)),
      ("INDUSTRIAL_FOODS_SLOPE_MULTIPLIER", .ex (n 1)),
      ("ADD_METHANE_SCP", .ex (b true)),
      ("DELAY/INDUSTRIAL_FOODS_MONTHS", .ex (n 2)),
      ("INDUSTRIAL_FOODS_SLOPE_MULTIPLIER", .ex (n 1)),
      ("ADD_CELLULOSIC_SUGAR", .ex (b true)),
      ("GREENHOUSE_GAIN_PCT", .ex (n 44)),
      ("DELAY/GREENHOUSE_MONTHS", .ex (n 2)),
      ("GREENHOUSE_AREA_MULTIPLIER", .ex (.div (n 190000000) (c "INITIAL_GLOBAL_CROP_AREA"))),
      ("ADD_GREENHOUSES", .ex (b true)),
      ("ADD_SEAWEED", .ex (b true)),
      ("DELAY/SEAWEED_MONTHS", .ex (n 1))] }

def sp_get_seaweed_scenario : Spec :=
  { name := "get_seaweed_scenario", params := ["constants_for_params"], family := ["SCENARIO_SET"], scope := none, setsScope := none, needs := [],
    writes := [
      ("INDUSTRIAL_FOODS_SLOPE_MULTIPLIER", .ex (n 0)),
      ("OG_USE_BETTER_ROTATION", .ex (b false)),
      ("ADD_CELLULOSIC_SUGAR", .ex (b false)),
      ("ADD_GREENHOUSES", .ex (b false)),
      ("ADD_METHANE_SCP", .ex (b false)),
      ("RATIO_INCREASED_CROP_AREA", .ex (n 1)),
      ("ADD_SEAWEED", .ex (b true)),
      ("DELAY/SEAWEED_MONTHS", .ex (n 1))] }

def sp_get_methane_scp_scenario : Spec :=
  { name := "get_methane_scp_scenario", params := ["constants_for_params"], family := ["SCENARIO_SET"], scope := none, setsScope := none, needs := [],
    writes := [
      ("OG_USE_BETTER_ROTATION", .ex (b false)),
      ("ADD_CELLULOSIC_SUGAR", .ex (b false)),
      ("ADD_GREENHOUSES", .ex (b false)),
      ("ADD_SEAWEED", .ex (b false)),
      ("RATIO_INCREASED_CROP_AREA", .ex (n 1)),
      ("DELAY/INDUSTRIAL_FOODS_MONTHS", .ex (n 2)),
      ("INDUSTRIAL_FOODS_SLOPE_MULTIPLIER", .ex (n 1)),
      ("ADD_METHANE_SCP", .ex (b true))] }

def sp_get_cellulosic_sugar_scenario : Spec :=
  { name := "get_cellulosic_sugar_scenario", params := ["constants_for_params"], family := ["SCENARIO_SET"], scope := none, setsScope := none, needs := [],
    writes := [
      ("OG_USE_BETTER_ROTATION", .ex (b false)),
      ("ADD_METHANE_SCP", .ex (b false)),
      ("ADD_GREENHOUSES", .ex (b false)),
      ("ADD_SEAWEED", .ex (b false)),
      ("RATIO_INCREASED_CROP_AREA", .ex (n 1)),
      ("DELAY/INDUSTRIAL_FOODS_MONTHS", .ex (n 2)),
      ("INDUSTRIAL_FOODS_SLOPE_MULTIPLIER", .ex (n 1)),
      ("ADD_CELLULOSIC_SUGAR", .ex (b true))] }

def sp_get_industrial_foods_scenario : Spec :=
  { name := "get_industrial_foods_scenario", params := ["constants_for_params"], family := ["SCENARIO_SET"], scope := none, setsScope := none, needs := [],
    writes := [
      ("OG_USE_BETTER_ROTATION", .ex (b false)),
      ("ADD_GREENHOUSES", .ex (b false)),
      ("ADD_SEAWEED", .ex (b false)),
      ("RATIO_INCREASED_CROP_AREA", .ex (n 1)),
      ("DELAY/INDUSTRIAL_FOODS_MONTHS", .ex (n 2)),
      ("INDUSTRIAL_FOODS_SLOPE_MULTIPLIER", .ex (n 1)),
      ("ADD_METHANE_SCP", .ex (b true)),
      ("DELAY/INDUSTRIAL_FOODS_MONTHS", .ex (n 2)),
      ("INDUSTRIAL_FOODS_SLOPE_MULTIPLIER", .ex (n 1)),
      ("ADD_CELLULOSIC_SUGAR", .ex (b true))] }

def sp_get_relocated_crops_scenario : Spec :=
  { name := "get_relocated_crops_scenario", params := ["constants_for_params"], family := ["SCENARIO_SET"], scope := none, setsScope := none, needs := [],
    writes := [
      ("INDUSTRIAL_FOODS_SLOPE_MULTIPLIER", .ex (n 0)),
      ("ADD_CELLULOSIC_SUGAR", .ex (b false)),
      ("ADD_GREENHOUSES", .ex (b false)),
      ("ADD_METHANE_SCP", .ex (b false)),
      ("ADD_SEAWEED", .ex (b false)),
      ("OG_USE_BETTER_ROTATION", .ex (b true)),
      ("ROTATION_IMPROVEMENTS/FAT_RATIO", .ex (d 1647 (-3))),
      ("ROTATION_IMPROVEMENTS/PROTEIN_RATIO", .ex (d 1108 (-3))),
      ("RATIO_INCREASED_CROP_AREA", .ex (n 1))] }

def sp_get_greenhouse_scenario : Spec :=
  { name := "get_greenhouse_scenario", params := ["constants_for_params"], family := ["SCENARIO_SET"], scope := none, setsScope := none, needs := [],
    writes := [
      ("INDUSTRIAL_FOODS_SLOPE_MULTIPLIER", .ex (n 0)),
      ("RATIO_INCREASED_CROP_AREA", .ex (n 1)),
      ("OG_USE_BETTER_ROTATION", .ex (b false)),
      ("ADD_CELLULOSIC_SUGAR", .ex (b false)),
      ("ADD_METHANE_SCP", .ex (b false)),
      ("ADD_SEAWEED", .ex (b false)),
      ("GREENHOUSE_GAIN_PCT", .ex (n 44)),
      ("DELAY/GREENHOUSE_MONTHS", .ex (n 2)),
      ("GREENHOUSE_AREA_MULTIPLIER", .ex (.div (n 190000000) (c "INITIAL_GLOBAL_CROP_AREA"))),
      ("ADD_GREENHOUSES", .ex (b true))] }

def sp_get_no_resilient_food_scenario : Spec :=
  { name := "get_no_resilient_food_scenario", params := ["constants_for_params"], family := ["SCENARIO_SET"], scope := none, setsScope := none, needs := [],
    writes := [
      ("INDUSTRIAL_FOODS_SLOPE_MULTIPLIER", .ex (n 0)),
      ("RATIO_INCREASED_CROP_AREA", .ex (n 1)),
      ("OG_USE_BETTER_ROTATION", .ex (b false)),
      ("ADD_CELLULOSIC_SUGAR", .ex (b false)),
      ("ADD_GREENHOUSES", .ex (b false)),
      ("ADD_METHANE_SCP", .ex (b false)),
      ("ADD_SEAWEED", .ex (b false))] }

def sp_cull_animals : Spec :=
  { name := "cull_animals", params := ["constants_for_params"], family := ["CULLING_PARAM_SET"], scope := none, setsScope := none, needs := [],
    writes := [
      ("ADD_MEAT", .ex (b true)),
      ("ADD_MILK", .ex (b true))] }

def sp_dont_cull_animals : Spec :=
  { name := "dont_cull_animals", params := ["constants_for_params"], family := ["CULLING_PARAM_SET"], scope := none, setsScope := none, needs := [],
    writes := [
      ("ADD_MEAT", .ex (b false)),
      ("ADD_MILK", .ex (b false))] }

def specTable : List Spec := [sp_init_global_food_system_properties, sp_set_immediate_shutoff, sp_set_one_month_delayed_shutoff, sp_set_short_delayed_shutoff, sp_set_long_delayed_shutoff, sp_set_continued_feed_biofuels, sp_set_continued_after_10_percent_fed, sp_set_long_delayed_shutoff_after_10_percent_fed, sp_set_breeding_to_greatly_reduced, sp_set_to_baseline_breeding, sp_set_to_feed_only_ruminants, sp_set_waste_to_zero, sp_set_global_waste_to_tripled_prices, sp_set_global_waste_to_doubled_prices, sp_set_global_waste_to_baseline_prices, sp_set_country_waste_to_tripled_prices, sp_set_country_waste_to_doubled_prices, sp_set_country_waste_to_baseline_prices, sp_set_baseline_nutrition_profile, sp_set_catastrophe_nutrition_profile, sp_set_intake_constraints_to_enabled, sp_set_intake_constraints_to_disabled_for_humans, sp_set_no_stored_food, sp_set_baseline_stored_food, sp_set_stored_food_buffer_zero, sp_set_no_stored_food_between_years, sp_set_stored_food_buffer_as_baseline, sp_set_stored_food_buffer_as_baseline_and_no_stored_between_years, sp_set_no_seasonality, sp_set_global_seasonality_baseline, sp_set_global_seasonality_nuclear_winter, sp_set_grasses_baseline, sp_set_global_grasses_nuclear_winter, sp_set_country_grasses_nuclear_winter, sp_set_country_grasses_to_zero, sp_set_fish_zero, sp_set_fish_baseline, sp_set_disruption_to_crops_to_zero, sp_set_nuclear_winter_global_disruption_to_crops, sp_set_nuclear_winter_country_disruption_to_crops, sp_set_zero_crops, sp_include_protein, sp_dont_include_protein, sp_include_fat, sp_dont_include_fat, sp_get_all_resilient_foods_scenario, sp_get_all_resilient_foods_and_more_area_scenario, sp_get_seaweed_scenario, sp_get_methane_scp_scenario, sp_get_cellulosic_sugar_scenario, sp_get_industrial_foods_scenario, sp_get_relocated_crops_scenario, sp_get_greenhouse_scenario, sp_get_no_resilient_food_scenario, sp_cull_animals, sp_dont_cull_animals]

theorem sp_init_global_food_system_properties_meets : meetsExcept "SEAWEED_GROWTH_PER_DAY" 120 sp_init_global_food_system_properties = true := by decide +kernel
theorem sp_set_immediate_shutoff_meets : meets sp_set_immediate_shutoff = true := by decide +kernel
theorem sp_set_one_month_delayed_shutoff_meets : meets sp_set_one_month_delayed_shutoff = true := by decide +kernel
theorem sp_set_short_delayed_shutoff_meets : meets sp_set_short_delayed_shutoff = true := by decide +kernel
theorem sp_set_long_delayed_shutoff_meets : meets sp_set_long_delayed_shutoff = true := by decide +kernel
theorem sp_set_continued_feed_biofuels_meets : meets sp_set_continued_feed_biofuels = true := by decide +kernel
theorem sp_set_continued_after_10_percent_fed_meets : meets sp_set_continued_after_10_percent_fed = true := by decide +kernel
theorem sp_set_long_delayed_shutoff_after_10_percent_fed_meets : meets sp_set_long_delayed_shutoff_after_10_percent_fed = true := by decide +kernel
theorem sp_set_breeding_to_greatly_reduced_meets : meets sp_set_breeding_to_greatly_reduced = true := by decide +kernel
theorem sp_set_to_baseline_breeding_meets : meets sp_set_to_baseline_breeding = true := by decide +kernel
theorem sp_set_to_feed_only_ruminants_meets : meets sp_set_to_feed_only_ruminants = true := by decide +kernel
theorem sp_set_waste_to_zero_meets : meets sp_set_waste_to_zero = true := by decide +kernel
theorem sp_set_global_waste_to_tripled_prices_meets : meets sp_set_global_waste_to_tripled_prices = true := by decide +kernel
theorem sp_set_global_waste_to_doubled_prices_meets : meets sp_set_global_waste_to_doubled_prices = true := by decide +kernel
theorem sp_set_global_waste_to_baseline_prices_meets : meets sp_set_global_waste_to_baseline_prices = true := by decide +kernel
theorem sp_set_country_waste_to_tripled_prices_meets : meets sp_set_country_waste_to_tripled_prices = true := by decide +kernel
theorem sp_set_country_waste_to_doubled_prices_meets : meets sp_set_country_waste_to_doubled_prices = true := by decide +kernel
theorem sp_set_country_waste_to_baseline_prices_meets : meets sp_set_country_waste_to_baseline_prices = true := by decide +kernel
theorem sp_set_baseline_nutrition_profile_meets : meets sp_set_baseline_nutrition_profile = true := by decide +kernel
theorem sp_set_catastrophe_nutrition_profile_meets : meets sp_set_catastrophe_nutrition_profile = true := by decide +kernel
theorem sp_set_intake_constraints_to_enabled_meets : meets sp_set_intake_constraints_to_enabled = true := by decide +kernel
theorem sp_set_intake_constraints_to_disabled_for_humans_meets : meets sp_set_intake_constraints_to_disabled_for_humans = true := by decide +kernel
theorem sp_set_no_stored_food_meets : meets sp_set_no_stored_food = true := by decide +kernel
theorem sp_set_baseline_stored_food_meets : meets sp_set_baseline_stored_food = true := by decide +kernel
theorem sp_set_stored_food_buffer_zero_meets : meets sp_set_stored_food_buffer_zero = true := by decide +kernel
theorem sp_set_no_stored_food_between_years_meets : meets sp_set_no_stored_food_between_years = true := by decide +kernel
theorem sp_set_stored_food_buffer_as_baseline_meets : meets sp_set_stored_food_buffer_as_baseline = true := by decide +kernel
theorem sp_set_stored_food_buffer_as_baseline_and_no_stored_between_years_meets : meets sp_set_stored_food_buffer_as_baseline_and_no_stored_between_years = true := by decide +kernel
theorem sp_set_no_seasonality_meets : meets sp_set_no_seasonality = true := by decide +kernel
theorem sp_set_global_seasonality_baseline_meets : meets sp_set_global_seasonality_baseline = true := by decide +kernel
theorem sp_set_global_seasonality_nuclear_winter_meets : meets sp_set_global_seasonality_nuclear_winter = true := by decide +kernel
theorem sp_set_grasses_baseline_meets : meets sp_set_grasses_baseline = true := by decide +kernel
theorem sp_set_global_grasses_nuclear_winter_meets : meets sp_set_global_grasses_nuclear_winter = true := by decide +kernel
theorem sp_set_country_grasses_nuclear_winter_meets : meets sp_set_country_grasses_nuclear_winter = true := by decide +kernel
theorem sp_set_country_grasses_to_zero_meets : meets sp_set_country_grasses_to_zero = true := by decide +kernel
theorem sp_set_fish_zero_meets : meets sp_set_fish_zero = true := by decide +kernel
theorem sp_set_fish_baseline_meets : meets sp_set_fish_baseline = true := by decide +kernel
theorem sp_set_disruption_to_crops_to_zero_meets : meets sp_set_disruption_to_crops_to_zero = true := by decide +kernel
theorem sp_set_nuclear_winter_global_disruption_to_crops_meets : meets sp_set_nuclear_winter_global_disruption_to_crops = true := by decide +kernel
theorem sp_set_nuclear_winter_country_disruption_to_crops_meets : meets sp_set_nuclear_winter_country_disruption_to_crops = true := by decide +kernel
theorem sp_set_zero_crops_meets : meets sp_set_zero_crops = true := by decide +kernel
theorem sp_include_protein_meets : meets sp_include_protein = true := by decide +kernel
theorem sp_dont_include_protein_meets : meets sp_dont_include_protein = true := by decide +kernel
theorem sp_include_fat_meets : meets sp_include_fat = true := by decide +kernel
theorem sp_dont_include_fat_meets : meets sp_dont_include_fat = true := by decide +kernel
theorem sp_get_all_resilient_foods_scenario_meets : meets sp_get_all_resilient_foods_scenario = true := by decide +kernel
theorem sp_get_all_resilient_foods_and_more_area_scenario_meets : meets sp_get_all_resilient_foods_and_more_area_scenario = true := by decide +kernel
theorem sp_get_seaweed_scenario_meets : meets sp_get_seaweed_scenario = true := by decide +kernel
theorem sp_get_methane_scp_scenario_meets : meets sp_get_methane_scp_scenario = true := by decide +kernel
theorem sp_get_cellulosic_sugar_scenario_meets : meets sp_get_cellulosic_sugar_scenario = true := by decide +kernel
theorem sp_get_industrial_foods_scenario_meets : meets sp_get_industrial_foods_scenario = true := by decide +kernel
theorem sp_get_relocated_crops_scenario_meets : meets sp_get_relocated_crops_scenario = true := by decide +kernel
theorem sp_get_greenhouse_scenario_meets : meets sp_get_greenhouse_scenario = true := by decide +kernel
theorem sp_get_no_resilient_food_scenario_meets : meets sp_get_no_resilient_food_scenario = true := by decide +kernel
theorem sp_cull_animals_meets : meets sp_cull_animals = true := by decide +kernel
theorem sp_dont_cull_animals_meets : meets sp_dont_cull_animals = true := by decide +kernel

/-- every literal-valued setter (all but the three allow-listed numpy/country-row ones) does exactly what
    the specification says (for the global initialiser: every key but the 120-entry seaweed growth table,
    whose size is checked) -/
theorem C13_means_what_it_says :
    meetsExcept "SEAWEED_GROWTH_PER_DAY" 120 sp_init_global_food_system_properties = true ∧
    ∀ sp ∈ specTable.drop 1, meets sp = true := by
  refine ⟨sp_init_global_food_system_properties_meets, ?_⟩
  intro sp hsp
  simp only [specTable, List.drop_succ_cons, List.drop_zero, List.mem_cons, List.mem_nil_iff, or_false] at hsp
  rcases hsp with rfl | rfl | rfl | rfl | rfl | rfl | rfl | rfl | rfl | rfl | rfl | rfl | rfl | rfl | rfl | rfl | rfl | rfl | rfl | rfl | rfl | rfl | rfl | rfl | rfl | rfl | rfl | rfl | rfl | rfl | rfl | rfl | rfl | rfl | rfl | rfl | rfl | rfl | rfl | rfl | rfl | rfl | rfl | rfl | rfl | rfl | rfl | rfl | rfl | rfl | rfl | rfl | rfl | rfl | rfl
  · exact sp_set_immediate_shutoff_meets
  · exact sp_set_one_month_delayed_shutoff_meets
  · exact sp_set_short_delayed_shutoff_meets
  · exact sp_set_long_delayed_shutoff_meets
  · exact sp_set_continued_feed_biofuels_meets
  · exact sp_set_continued_after_10_percent_fed_meets
  · exact sp_set_long_delayed_shutoff_after_10_percent_fed_meets
  · exact sp_set_breeding_to_greatly_reduced_meets
  · exact sp_set_to_baseline_breeding_meets
  · exact sp_set_to_feed_only_ruminants_meets
  · exact sp_set_waste_to_zero_meets
  · exact sp_set_global_waste_to_tripled_prices_meets
  · exact sp_set_global_waste_to_doubled_prices_meets
  · exact sp_set_global_waste_to_baseline_prices_meets
  · exact sp_set_country_waste_to_tripled_prices_meets
  · exact sp_set_country_waste_to_doubled_prices_meets
  · exact sp_set_country_waste_to_baseline_prices_meets
  · exact sp_set_baseline_nutrition_profile_meets
  · exact sp_set_catastrophe_nutrition_profile_meets
  · exact sp_set_intake_constraints_to_enabled_meets
  · exact sp_set_intake_constraints_to_disabled_for_humans_meets
  · exact sp_set_no_stored_food_meets
  · exact sp_set_baseline_stored_food_meets
  · exact sp_set_stored_food_buffer_zero_meets
  · exact sp_set_no_stored_food_between_years_meets
  · exact sp_set_stored_food_buffer_as_baseline_meets
  · exact sp_set_stored_food_buffer_as_baseline_and_no_stored_between_years_meets
  · exact sp_set_no_seasonality_meets
  · exact sp_set_global_seasonality_baseline_meets
  · exact sp_set_global_seasonality_nuclear_winter_meets
  · exact sp_set_grasses_baseline_meets
  · exact sp_set_global_grasses_nuclear_winter_meets
  · exact sp_set_country_grasses_nuclear_winter_meets
  · exact sp_set_country_grasses_to_zero_meets
  · exact sp_set_fish_zero_meets
  · exact sp_set_fish_baseline_meets
  · exact sp_set_disruption_to_crops_to_zero_meets
  · exact sp_set_nuclear_winter_global_disruption_to_crops_meets
  · exact sp_set_nuclear_winter_country_disruption_to_crops_meets
  · exact sp_set_zero_crops_meets
  · exact sp_include_protein_meets
  · exact sp_dont_include_protein_meets
  · exact sp_include_fat_meets
  · exact sp_dont_include_fat_meets
  · exact sp_get_all_resilient_foods_scenario_meets
  · exact sp_get_all_resilient_foods_and_more_area_scenario_meets
  · exact sp_get_seaweed_scenario_meets
  · exact sp_get_methane_scp_scenario_meets
  · exact sp_get_cellulosic_sugar_scenario_meets
  · exact sp_get_industrial_foods_scenario_meets
  · exact sp_get_relocated_crops_scenario_meets
  · exact sp_get_greenhouse_scenario_meets
  · exact sp_get_no_resilient_food_scenario_meets
  · exact sp_cull_animals_meets
  · exact sp_dont_cull_animals_meets

/-- the specification covers every setter of the table except the allow-listed opaque ones -/
theorem C13_spec_covers_table :
    (setters.filter fun i => !i.isOpaque).map (·.name) = specTable.map (·.name) ∧
    (setters.filter fun i => i.isOpaque).map (·.name) =
      ["init_country_food_system_properties", "set_country_seasonality", "set_fish_nuclear_winter_reduction"] := by
  decide +kernel

/-- README "Allowed Values" + the dispatcher's own messages: option family ↦ value ↦ setter.
    (`protein`/`fat: required` print that they do not work in this version and exit.) -/
def specDispatch : List (String × List (String × List String)) := [
  ("scale", [("global", ["init_global_food_system_properties"]), ("country", ["init_country_food_system_properties"])]),
  ("stored_food", [("zero", ["set_no_stored_food"]), ("baseline", ["set_baseline_stored_food"])]),
  ("ratio_stocks_untouched", [("zero", ["set_stored_food_buffer_zero"]), ("no_stored_between_years", ["set_no_stored_food_between_years"]),
    ("baseline", ["set_stored_food_buffer_as_baseline"]),
    ("baseline_no_stored_between_years", ["set_stored_food_buffer_as_baseline_and_no_stored_between_years"])]),
  ("shutoff", [("immediate", ["set_immediate_shutoff"]), ("one_month_delayed_shutoff", ["set_one_month_delayed_shutoff"]),
    ("short_delayed_shutoff", ["set_short_delayed_shutoff"]), ("long_delayed_shutoff", ["set_long_delayed_shutoff"]),
    ("continued", ["set_continued_feed_biofuels"]), ("continued_after_10_percent_fed", ["set_continued_after_10_percent_fed"]),
    ("long_delayed_shutoff_after_10_percent_fed", ["set_long_delayed_shutoff_after_10_percent_fed"])]),
  ("waste", [("zero", ["set_waste_to_zero"]), ("tripled_prices_in_country", ["set_country_waste_to_tripled_prices"]),
    ("doubled_prices_in_country", ["set_country_waste_to_doubled_prices"]), ("baseline_in_country", ["set_country_waste_to_baseline_prices"]),
    ("tripled_prices_globally", ["set_global_waste_to_tripled_prices"]), ("doubled_prices_globally", ["set_global_waste_to_doubled_prices"]),
    ("baseline_globally", ["set_global_waste_to_baseline_prices"])]),
  ("nutrition", [("baseline", ["set_baseline_nutrition_profile"]), ("catastrophe", ["set_catastrophe_nutrition_profile"])]),
  ("intake_constraints", [("enabled", ["set_intake_constraints_to_enabled"]), ("disabled_for_humans", ["set_intake_constraints_to_disabled_for_humans"])]),
  ("seasonality", [("no_seasonality", ["set_no_seasonality"]), ("country", ["set_country_seasonality"]),
    ("baseline_globally", ["set_global_seasonality_baseline"]), ("nuclear_winter_globally", ["set_global_seasonality_nuclear_winter"])]),
  ("grasses", [("baseline", ["set_grasses_baseline"]), ("global_nuclear_winter", ["set_global_grasses_nuclear_winter"]),
    ("country_nuclear_winter", ["set_country_grasses_nuclear_winter"]), ("all_crops_die_instantly", ["set_country_grasses_to_zero"])]),
  ("fish", [("zero", ["set_fish_zero"]), ("nuclear_winter", ["set_fish_nuclear_winter_reduction"]), ("baseline", ["set_fish_baseline"])]),
  ("crop_disruption", [("zero", ["set_disruption_to_crops_to_zero"]), ("global_nuclear_winter", ["set_nuclear_winter_global_disruption_to_crops"]),
    ("country_nuclear_winter", ["set_nuclear_winter_country_disruption_to_crops"]), ("all_crops_die_instantly", ["set_zero_crops"])]),
  ("protein", [("required", ["<exit>"]), ("not_required", ["dont_include_protein"])]),
  ("fat", [("required", ["<exit>"]), ("not_required", ["dont_include_fat"])]),
  ("cull", [("do_eat_culled", ["cull_animals"]), ("dont_eat_culled", ["dont_cull_animals"])]),
  ("scenario", [("all_resilient_foods", ["get_all_resilient_foods_scenario"]),
    ("all_resilient_foods_and_more_area", ["get_all_resilient_foods_and_more_area_scenario"]),
    ("no_resilient_foods", ["get_no_resilient_food_scenario"]), ("seaweed", ["get_seaweed_scenario"]),
    ("methane_scp", ["get_methane_scp_scenario"]), ("cellulosic_sugar", ["get_cellulosic_sugar_scenario"]),
    ("relocated_crops", ["get_relocated_crops_scenario"]), ("greenhouse", ["get_greenhouse_scenario"]),
    ("industrial_foods", ["get_industrial_foods_scenario"])]),
  ("meat_strategy", [("reduce_breeding", ["set_breeding_to_greatly_reduced"]), ("baseline_breeding", ["set_to_baseline_breeding"]),
    ("feed_only_ruminants", ["set_to_feed_only_ruminants"])])]

/-- every option value calls the setter that bears its name in the documentation, in the documented order
    of families, and the dispatcher itself writes only the country code and the number of months -/
theorem C13_dispatch_means_what_it_says :
    dispatchSummary dispatch = specDispatch ∧
    dispatchStmts dispatch = [.assertNoCountry, .write "COUNTRY_CODE" (s "WOR"), .write "COUNTRY_CODE" (cd "iso3"),
      .write "NMONTHS" (.opt "NMONTHS")] ∧
    requiredOptions = ["scale", "stored_food", "ratio_stocks_untouched", "shutoff", "waste", "nutrition", "intake_constraints",
      "seasonality", "grasses", "fish", "crop_disruption", "protein", "fat", "cull", "scenario", "meat_strategy"] := by
  decide +kernel

def ratioKeys (pfx : String) : List String := (List.range 10).map fun i => pfx ++ toString (i + 1)

/-- the optional numeric overrides of the property statement: starting head count of any species,
    meat per large animal, minimum percent fed before feed, share of stocks left untouched, crop and grass
    production multipliers — and what each one names -/
def specOverrides : List Override := [
  .substr "_head" "_start" .int,
  .substr "kg_meat_per_large_animal" "" .float,
  .exact "MINIMUM_PERCENT_FED_BEFORE_NONHUMAN_CONSUMPTION_ALLOWED" "MINIMUM_PERCENT_FED_BEFORE_NONHUMAN_CONSUMPTION_ALLOWED" (.num 0 0) (.num 100 0) [],
  .exact "RATIO_STOCKS_UNTOUCHED" "RATIO_STOCKS_UNTOUCHED" (.num 0 0) (.num 1 0) [],
  .mult "CROP_PRODUCTION_MULTIPLIER" (.num 0 0) (.num 10 0)
    ["RATIO_CROPS_YEAR1", "RATIO_CROPS_YEAR2", "RATIO_CROPS_YEAR3", "RATIO_CROPS_YEAR4", "RATIO_CROPS_YEAR5", "RATIO_CROPS_YEAR6",
     "RATIO_CROPS_YEAR7", "RATIO_CROPS_YEAR8", "RATIO_CROPS_YEAR9", "RATIO_CROPS_YEAR10"] ["RATIO_CROPS_YEAR11"],
  .mult "GRASSES_PRODUCTION_MULTIPLIER" (.num 0 0) (.num 10 0)
    ["RATIO_GRASSES_YEAR1", "RATIO_GRASSES_YEAR2", "RATIO_GRASSES_YEAR3", "RATIO_GRASSES_YEAR4", "RATIO_GRASSES_YEAR5", "RATIO_GRASSES_YEAR6",
     "RATIO_GRASSES_YEAR7", "RATIO_GRASSES_YEAR8", "RATIO_GRASSES_YEAR9", "RATIO_GRASSES_YEAR10"] ["RATIO_GRASSES_YEAR11"]]

theorem C13_overrides_spec : overridesOf dispatch = specOverrides := by decide +kernel

/-- the SLV / ALB / ECU patches of `alter_scenario_if_known_to_fail`, as its docstring and warnings say:
    they only ever turn `shutoff` into `immediate` -/
theorem C13_patches_only_shutoff :
    (failRules.all fun r => r.corrKey == "shutoff" && r.corrVal == "immediate" &&
      ["SLV", "ALB", "ECU"].contains r.iso3) = true := by decide +kernel

/-! ## 7. non-vacuity -/

/-- a sequence in which every family occurs exactly once (the hypothesis of `C13_exactly_once`) -/
example : ExactlyOnce [s_init_global_food_system_properties, s_set_baseline_stored_food, s_set_stored_food_buffer_zero,
    s_set_immediate_shutoff, s_set_waste_to_zero, s_set_baseline_nutrition_profile, s_set_intake_constraints_to_enabled,
    s_set_no_seasonality, s_set_grasses_baseline, s_set_fish_baseline, s_set_disruption_to_crops_to_zero,
    s_dont_include_protein, s_dont_include_fat, s_cull_animals, s_get_no_resilient_food_scenario,
    s_set_to_baseline_breeding] := by
  unfold ExactlyOnce
  decide +kernel

/-- two setters of one family (the hypothesis of `C13_twice_rejected`) -/
example : "WASTE_SET" ∈ s_set_waste_to_zero.family ∧ "WASTE_SET" ∈ s_set_global_waste_to_doubled_prices.family := by
  decide +kernel

/-- an unknown value (the hypothesis of `C13_unknown_rejected`): README's `no_stored_food_between_years` is
    not a value the dispatcher knows (the code says `no_stored_between_years`) -/
example : ∃ brs d, DispItem.family "ratio_stocks_untouched" brs d ∈ dispatch ∧
    pickBranch (.str "no_stored_food_between_years" : Val Unit) brs = none := by
  refine ⟨_, _, List.mem_of_elem_eq_true (a := DispItem.family "ratio_stocks_untouched" [
      { value := "zero", actions := [.call "set_stored_food_buffer_zero"] },
      { value := "no_stored_between_years", actions := [.call "set_no_stored_food_between_years"] },
      { value := "baseline", actions := [.call "set_stored_food_buffer_as_baseline"] },
      { value := "baseline_no_stored_between_years", actions := [.call "set_stored_food_buffer_as_baseline_and_no_stored_between_years"] }] none)
      (by decide +kernel), by decide +kernel⟩

end Allfed.C13
