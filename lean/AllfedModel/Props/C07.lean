import AllfedModel.Model.Herd
import AllfedModel.Proofs.Herd
/-!
# C07 — herd feeding accounts for energy and starvation consistently

Property theorems only; helper lemmas live in `Proofs/Herd.lean`.
`K` is any linearly ordered field; requirements, supplies, herd sizes and species lists are arbitrary.
`rnd` is Python's `round`: an arbitrary function, assumed only to satisfy `|rnd x - x| ≤ 1/2`
where the count of animals fed is concerned (monotonicity is not needed: the code caps the count
at the herd size).

The model (`Model/Herd.lean`) mirrors `AnimalSpecies.feed_the_species` AFTER the `fix:` commit
for D3/D12; the formula before the fix is kept as `fedUnfixed` and refuted at the end.
-/
namespace Allfed.C07
open Allfed Allfed.Herd Allfed.HerdProofs

variable {K : Type} [Field K] [LinearOrder K] [IsStrictOrderedRing K]

/-! ## one species (`feed_the_species`) -/

/-- no more grass and no more feed is used than was offered (and none is created) -/
theorem C07_no_overuse (rnd : K → K) (eG eF need pop g f : K) (rum : Bool)
    (heG : 0 < eG) (heF : 0 < eF) (hn : 0 ≤ need) (hg : 0 ≤ g) (hf : 0 ≤ f) :
    0 ≤ (feedSpecies rnd eG eF need pop g f rum).grass ∧ (feedSpecies rnd eG eF need pop g f rum).grass ≤ g ∧
    0 ≤ (feedSpecies rnd eG eF need pop g f rum).feed ∧ (feedSpecies rnd eG eF need pop g f rum).feed ≤ f := by
  obtain ⟨-, -, h1, h2, h3, h4, -⟩ := feedSpecies_energy rnd eG eF need pop g f rum heG heF hn hg hf _ rfl
  exact ⟨h1, h2, h3, h4⟩

/-- the net energy delivered (efficiency × gross energy eaten) never exceeds the requirement -/
theorem C07_no_overdelivery (rnd : K → K) (eG eF need pop g f : K) (rum : Bool)
    (heG : 0 < eG) (heF : 0 < eF) (hn : 0 ≤ need) (hg : 0 ≤ g) (hf : 0 ≤ f) :
    eG * (g - (feedSpecies rnd eG eF need pop g f rum).grass) +
      eF * (f - (feedSpecies rnd eG eF need pop g f rum).feed) ≤ need := by
  obtain ⟨-, -, -, -, -, -, hb, hb0, -⟩ := feedSpecies_energy rnd eG eF need pop g f rum heG heF hn hg hf _ rfl
  linarith

/-- the same with the efficiencies the code uses: `0.6 · grass eaten + 0.8 · feed eaten ≤ need` -/
theorem C07_no_overdelivery_06_08 (rnd : K → K) (need pop g f : K) (rum : Bool)
    (hn : 0 ≤ need) (hg : 0 ≤ g) (hf : 0 ≤ f) :
    0.6 * (g - (feedSpecies rnd 0.6 0.8 need pop g f rum).grass) +
      0.8 * (f - (feedSpecies rnd 0.6 0.8 need pop g f rum).feed) ≤ need :=
  C07_no_overdelivery rnd 0.6 0.8 need pop g f rum (by norm_num) (by norm_num) hn hg hf

/-- the energy still owed is exactly the requirement minus what was delivered, and is not negative -/
theorem C07_energy_balance (rnd : K → K) (eG eF need pop g f : K) (rum : Bool)
    (heG : 0 < eG) (heF : 0 < eF) (hn : 0 ≤ need) (hg : 0 ≤ g) (hf : 0 ≤ f) :
    (feedSpecies rnd eG eF need pop g f rum).balance =
      need - (eG * (g - (feedSpecies rnd eG eF need pop g f rum).grass) +
        eF * (f - (feedSpecies rnd eG eF need pop g f rum).feed)) ∧
    0 ≤ (feedSpecies rnd eG eF need pop g f rum).balance := by
  obtain ⟨-, -, -, -, -, -, hb, hb0, -⟩ := feedSpecies_energy rnd eG eF need pop g f rum heG heF hn hg hf _ rfl
  exact ⟨hb, hb0⟩

/-- grass goes to ruminants only -/
theorem C07_grass_ruminants_only (rnd : K → K) (eG eF need pop g f : K)
    (heG : 0 < eG) (heF : 0 < eF) (hn : 0 ≤ need) (hg : 0 ≤ g) (hf : 0 ≤ f) :
    (feedSpecies rnd eG eF need pop g f false).grass = g := by
  obtain ⟨-, -, -, -, -, -, -, -, h, -⟩ := feedSpecies_energy rnd eG eF need pop g f false heG heF hn hg hf _ rfl
  exact h rfl

/-- the count of animals fed: never more than the herd; the whole herd when the requirement is met;
    otherwise the herd scaled by the delivered fraction `(need − still owed)/need`, to within half an
    animal (the code rounds to whole animals); the starving count `pop − fed` is never negative -/
theorem C07_fed_count (rnd : K → K) (hr : ∀ x, |rnd x - x| ≤ 1 / 2) (eG eF need pop g f : K) (rum : Bool)
    (heG : 0 < eG) (heF : 0 < eF) (hn : 0 ≤ need) (hg : 0 ≤ g) (hf : 0 ≤ f) (hp : 0 ≤ pop) :
    (feedSpecies rnd eG eF need pop g f rum).fed ≤ pop ∧
    ((feedSpecies rnd eG eF need pop g f rum).balance = 0 → (feedSpecies rnd eG eF need pop g f rum).fed = pop) ∧
    ((feedSpecies rnd eG eF need pop g f rum).balance ≠ 0 →
      |(feedSpecies rnd eG eF need pop g f rum).fed -
        pop * ((need - (feedSpecies rnd eG eF need pop g f rum).balance) / need)| ≤ 1 / 2) ∧
    0 ≤ pop - (feedSpecies rnd eG eF need pop g f rum).fed :=
  feedSpecies_fed rnd eG eF need pop g f rum hr heG heF hn hg hf hp _ rfl

/-! ## the feeding loop (`feed_animals`): species served in list order -/

/-- every species of the list is served by `feed_the_species` on exactly what its predecessors
    left, and that is non-negative and within the month's supplies — so all the single-species
    theorems above hold for every species of every list -/
theorem C07_all_each (rnd : K → K) (reqs : List (FeedReq K)) (g f : K)
    (hok : ∀ r ∈ reqs, 0 < r.effG ∧ 0 < r.effF ∧ 0 ≤ r.need) (hg : 0 ≤ g) (hf : 0 ≤ f) :
    List.Forall₂ (fun r o =>
      o = feedSpecies rnd r.effG r.effF r.need r.pop o.grassIn o.feedIn r.rum ∧
      0 ≤ o.grassIn ∧ o.grassIn ≤ g ∧ 0 ≤ o.feedIn ∧ o.feedIn ≤ f) reqs (feedAll rnd reqs g f).1 :=
  (feedAll_spec rnd reqs g f hok hg hf).1

/-- the whole list uses no more than was supplied; what it used is what the species ate -/
theorem C07_all_no_overuse (rnd : K → K) (reqs : List (FeedReq K)) (g f : K)
    (hok : ∀ r ∈ reqs, 0 < r.effG ∧ 0 < r.effF ∧ 0 ≤ r.need) (hg : 0 ≤ g) (hf : 0 ≤ f) :
    0 ≤ (feedAll rnd reqs g f).2.1 ∧ (feedAll rnd reqs g f).2.1 ≤ g ∧
    0 ≤ (feedAll rnd reqs g f).2.2 ∧ (feedAll rnd reqs g f).2.2 ≤ f ∧
    g - (feedAll rnd reqs g f).2.1 = ((feedAll rnd reqs g f).1.map (fun o => o.grassIn - o.grass)).sum ∧
    f - (feedAll rnd reqs g f).2.2 = ((feedAll rnd reqs g f).1.map (fun o => o.feedIn - o.feed)).sum := by
  obtain ⟨-, h1, h2, h3, h4⟩ := feedAll_spec rnd reqs g f hok hg hf
  exact ⟨h1, h2, h3, h4, (feedAll_sum rnd reqs g f).1, (feedAll_sum rnd reqs g f).2⟩

/-- strict priority: if species `j`, served after species `i`, eats any feed then `i`'s requirement
    is fully met; if `j` eats any grass then `i`'s requirement is fully met or `i` is not a ruminant -/
theorem C07_priority (rnd : K → K) (reqs : List (FeedReq K)) (g f : K)
    (hok : ∀ r ∈ reqs, 0 < r.effG ∧ 0 < r.effF ∧ 0 ≤ r.need) (hg : 0 ≤ g) (hf : 0 ≤ f)
    (i j : Nat) (hij : i < j) (ri : FeedReq K) (oi oj : FeedOut K)
    (hri : reqs[i]? = some ri) (hoi : (feedAll rnd reqs g f).1[i]? = some oi)
    (hoj : (feedAll rnd reqs g f).1[j]? = some oj) :
    (0 < oj.feedIn - oj.feed → oi.balance = 0) ∧
    (0 < oj.grassIn - oj.grass → oi.balance = 0 ∨ ri.rum = false) :=
  feedAll_priority rnd reqs g f hok hg hf i j hij ri oi oj hri hoi hoj

/-! ## inside `main()`: every month of every run -/

/-- in every month the feeding records of the herds are `feed_animals` on the herds' requirements
    (`nePerHead · population`) in list order, the month's `feed_used` / `grass_used` lie between 0
    and the supply, and each herd's starving count is `population − fed ≥ 0` -/
theorem C07_month_no_overuse (cn : Country K) (hcn : CountryOK cn) (rnd : K → K) (first : Bool) (month : K)
    (herds : List (Herd K)) (hh : ∀ h ∈ herds, HerdOK h) (feed grass : K) (hf : 0 ≤ feed) (hg : 0 ≤ grass)
    (r : MonthRec K) (herds' : List (Herd K))
    (h : monthStep cn rnd first month herds feed grass = .ok (r, herds')) :
    r.recs.map (fun d => d.c.b.a.fo) = (feedAll rnd (herds.map feedReqOf) grass feed).1 ∧
    0 ≤ r.feedUsed ∧ r.feedUsed ≤ feed ∧ 0 ≤ r.grassUsed ∧ r.grassUsed ≤ grass ∧
    (∀ d ∈ r.recs, d.c.b.a.starvingPre = d.c.b.a.h.st.pop - d.c.b.a.fo.fed) := by
  have hm := monthStep_spec cn hcn rnd first month herds hh feed grass r herds' h
  have hok : ∀ q ∈ herds.map feedReqOf, ReqOK q := by
    intro q hq
    obtain ⟨x, hx, rfl⟩ := List.mem_map.mp hq
    have := hh x hx
    exact ⟨this.sp.effG, this.sp.effF, mul_nonneg this.sp.ne this.pop⟩
  obtain ⟨-, h1, h2, h3, h4⟩ := feedAll_spec rnd (herds.map feedReqOf) grass feed hok hg hf
  refine ⟨hm.feeding, ?_, ?_, ?_, ?_, hm.starving⟩
  · rw [hm.usedFeed]; linarith
  · rw [hm.usedFeed]; linarith
  · rw [hm.usedGrass]; linarith
  · rw [hm.usedGrass]; linarith

/-! ## the priority order (`get_optimal_next_animal_to_feed`, `sorted(..., reverse=True)`) -/

/-- the serving order is a permutation of the species … -/
theorem C07_sort_perm {β : Type} (key : β → K) (l : List β) : (sortDesc key l).Perm l :=
  sortDesc_perm key l

/-- … in descending order of the key (net kcals gained per slaughter hour, `priorityKey`) -/
theorem C07_sort_sorted {β : Type} (key : β → K) (l : List β) :
    (sortDesc key l).Pairwise (fun a b => key b ≤ key a) :=
  sortDesc_sorted key l

/-! ## the formula before the fix (D3), kept on record

`population_fed = round(NE_provided / NE_balance_after_feeding · population)`: the fraction of the
requirement that is STILL OWED, not of the requirement.  With 90 % of the requirement supplied it
counts nine times the herd as fed, whatever `round` does within half an animal. -/

theorem C07_fed_count_unfixed_counterexample (rnd : ℚ → ℚ) (hr : ∀ x, |rnd x - x| ≤ 1 / 2) :
    (1000 : ℚ) < fedUnfixed rnd 1 1000 (9 / 10) := by
  unfold fedUnfixed
  have h := hr ((9 / 10) / (1 - 9 / 10) * 1000)
  rw [abs_le] at h
  have e : ((9 : ℚ) / 10) / (1 - 9 / 10) * 1000 = 9000 := by norm_num
  rw [e] at h ⊢
  linarith [h.1]

/-- … so the starving count `population − fed` was negative -/
theorem C07_starving_unfixed_counterexample (rnd : ℚ → ℚ) (hr : ∀ x, |rnd x - x| ≤ 1 / 2) :
    (1000 : ℚ) - fedUnfixed rnd 1 1000 (9 / 10) < 0 := by
  have := C07_fed_count_unfixed_counterexample rnd hr
  linarith

/-! ## non-vacuity: concrete instances (ℚ, `round` = identity on these values) -/

-- a ruminant herd of 1000 needing 1 unit: 1 unit of grass (0.6 net) and 0.25 of feed (0.2 net): 80 % fed
example : (feedSpecies (fun x => x) (0.6 : ℚ) 0.8 1 1000 1 (1 / 4) true).fed = 800 := by decide +kernel
example : (feedSpecies (fun x => x) (0.6 : ℚ) 0.8 1 1000 1 (1 / 4) true).balance = 1 / 5 := by decide +kernel
-- the same supplies offered to a non-ruminant: the grass is untouched, 20 % fed
example : (feedSpecies (fun x => x) (0.6 : ℚ) 0.8 1 1000 1 (1 / 4) false).grass = 1 := by decide +kernel
example : (feedSpecies (fun x => x) (0.6 : ℚ) 0.8 1 1000 1 (1 / 4) false).fed = 200 := by decide +kernel
-- exactly enough grass: everything met, nothing else touched
example : (feedSpecies (fun x => x) (0.6 : ℚ) 0.8 3 1000 5 7 true).grass = 0 ∧
    (feedSpecies (fun x => x) (0.6 : ℚ) 0.8 3 1000 5 7 true).feed = 7 ∧
    (feedSpecies (fun x => x) (0.6 : ℚ) 0.8 3 1000 5 7 true).fed = 1000 := by decide +kernel
-- two species, feed for the first only: the second (served later) gets nothing and the first is met
example : ((feedAll (fun x => x) [⟨(0.6 : ℚ), 0.8, 4, 10, false⟩, ⟨0.6, 0.8, 4, 10, false⟩] 0 5).1.map (·.fed)) = [10, 0] := by
  decide +kernel
example : sortDesc (fun (p : String × ℚ) => p.2) [("a", 2), ("b", 3), ("c", 2)] = [("b", 3), ("a", 2), ("c", 2)] := by
  decide +kernel

end Allfed.C07
