import AllfedModel.Model.ImportAvg
import AllfedModel.Model.CountryTable
import Driver.Wire
open Wire Allfed Allfed.ImportAvg

namespace Ops.ImportAvg

instance : NatCast Float := ⟨Float.ofNat⟩

def errName : AvgErr → String
  | .lengthMismatch => "length" | .weightSum => "weight-sum" | .weightRange => "weight-range"
  | .renormCheck => "renorm" | .empty => "empty" | .evenSum => "even-sum"

def outRes : Except AvgErr Float → String
  | .ok v => "ok " ++ outF v
  | .error e => "err " ++ errName e

/-- avg.weighted <percentages> <weights> -/
def weightedOp : P String := do
  let ps ← floats; let ws ← floats
  pure (outRes (weightedAverage ps ws))

/-- avg.even <percentages> -/
def evenOp : P String := do
  let ps ← floats
  pure (outRes (averagePercentages ps))

/-- avg.impossible <p> -/
def impossibleOp : P String := do
  let p ← float
  pure (outB (impossible p))

def kindName : Allfed.CountryTable.Kind → String
  | .pop => "pop" | .qty => "qty" | .frac => "frac" | .season => "season" | .cropReduc => "cropReduc"
  | .grassReduc => "grassReduc" | .growth => "growth" | .free => "free"

/-- table.spec -> the expected numeric columns and their groups (so that the harness' oracle uses the Lean spec) -/
def specOp : P String := do
  pure (outL encodeStr (Allfed.CountryTable.spec.map Prod.fst) ++ " " ++
        outL encodeStr (Allfed.CountryTable.spec.map (fun x => kindName x.2)))

def ops : List (String × P String) :=
  [("avg.weighted", weightedOp), ("avg.even", evenOp), ("avg.impossible", impossibleOp), ("table.spec", specOp)]

end Ops.ImportAvg
