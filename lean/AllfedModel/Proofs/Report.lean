import AllfedModel.Model.Report
import AllfedModel.Proofs.LP
import Mathlib.Tactic.LinearCombination
/-!
# Reporting (property C04): headline, monthly breakdown, optimum

On top of `Proofs/LP.lean`: the nine per-food percent series add up to the month's
`Humans_Fed_Kcals` variable, the headline is the smallest of them, the tie-breaking solves keep
it above their floor, and it never exceeds the optimum of the first solve.
-/
namespace Allfed.Proofs.Report
open Allfed Allfed.LP Allfed.AllocLP Allfed.PhysSpec Allfed.Report Allfed.Proofs.LP

set_option linter.unusedSectionVars false
set_option linter.unusedVariables false

variable {K : Type} [Field K] [LinearOrder K] [IsStrictOrderedRing K]

/-! ## `minOver` -/

theorem pmin_eq_min (a b : K) : pmin a b = min a b := by
  unfold pmin
  split_ifs with h
  · exact (min_eq_right h.le).symm
  · exact (min_eq_left (not_lt.mp h)).symm

theorem minOver_one (f : Nat → K) : minOver f 1 = f 0 := rfl

theorem minOver_succ_succ (f : Nat → K) (n : Nat) :
    minOver f (n + 2) = min (minOver f (n + 1)) (f (n + 1)) := by
  rw [← pmin_eq_min]; rfl

theorem minOver_le (f : Nat → K) (n m : Nat) (hm : m < n) : minOver f n ≤ f m := by
  obtain ⟨n, rfl⟩ : ∃ n', n = n' + 1 := ⟨n - 1, by omega⟩
  induction n with
  | zero => obtain rfl : m = 0 := by omega
            exact le_rfl
  | succ n ih =>
    rw [minOver_succ_succ]
    rcases Nat.lt_or_ge m (n + 1) with hlt | hge
    · exact le_trans (min_le_left _ _) (ih hlt)
    · obtain rfl : m = n + 1 := by omega
      exact min_le_right _ _

theorem minOver_attained (f : Nat → K) (n : Nat) (hn : 0 < n) : ∃ m, m < n ∧ minOver f n = f m := by
  obtain ⟨n, rfl⟩ : ∃ n', n = n' + 1 := ⟨n - 1, by omega⟩
  induction n with
  | zero => exact ⟨0, by omega, rfl⟩
  | succ n ih =>
    obtain ⟨m, hm, hmin⟩ := ih (by omega)
    rw [minOver_succ_succ]
    rcases le_total (minOver f (n + 1)) (f (n + 1)) with hle | hle
    · exact ⟨m, by omega, by rw [min_eq_left hle, hmin]⟩
    · exact ⟨n + 1, by omega, min_eq_right hle⟩

/-- `minOver` only looks at the months `< n` -/
theorem minOver_congr (f g : Nat → K) (n : Nat) (hn : 0 < n) (h : ∀ m, m < n → f m = g m) :
    minOver f n = minOver g n := by
  obtain ⟨n, rfl⟩ : ∃ n', n = n' + 1 := ⟨n - 1, by omega⟩
  induction n with
  | zero => exact h 0 (by omega)
  | succ n ih =>
    rw [minOver_succ_succ, minOver_succ_succ, ih (by omega) (fun m hm => h m (by omega)),
      h (n + 1) (by omega)]

/-- a lower bound of every month is a lower bound of the minimum -/
theorem le_minOver (f : Nat → K) (n : Nat) (hn : 0 < n) (c : K) (h : ∀ m, m < n → c ≤ f m) :
    c ≤ minOver f n := by
  obtain ⟨m, hm, hmin⟩ := minOver_attained f n hn
  rw [hmin]; exact h m hm

/-! ## contributions -/

/-- billions fed → percent fed is multiplication by `kcals_monthly · 100 / billion_kcals_needed` -/
theorem toPercent_eq (i : Inp K) (b : K) :
    toPercent i b = i.kcalsMonthly * (100 / i.billionKcalsNeeded) * b := by
  unfold toPercent
  rw [one_div_one_div, sci_100]

theorem contribution_linear (i : Inp K) (ratio v : K) (hkm : i.kcalsMonthly ≠ 0) :
    toPercent i (billionsFed i ratio v) = v * (ratio * 100 / i.billionKcalsNeeded) := by
  rw [toPercent_eq]
  unfold billionsFed
  have h : i.kcalsMonthly * i.kcalsMonthly⁻¹ = 1 := mul_inv_cancel₀ hkm
  linear_combination (v * ratio * 100 / i.billionKcalsNeeded) * h

theorem valIf_eq_X (x : Var → K) (on : Bool) (k : VK) (m : Nat) : valIf x on k m = X x on k m := rfl

/-- the nine contributions add up to the percentage the LP computes from `humanSum` -/
theorem sumPercent_eq_humanTotal (i : Inp K) (x : Var → K) (hkm : i.kcalsMonthly ≠ 0) (m : Nat) :
    sumPercent i x m = humanTotal i x m / i.billionKcalsNeeded * 100 := by
  have h : i.kcalsMonthly * i.kcalsMonthly⁻¹ = 1 := mul_inv_cancel₀ hkm
  unfold sumPercent foodsPercent foodsBillions lsum humanTotal billionsFed
  simp only [List.map_cons, List.map_nil, List.foldl_cons, List.foldl_nil, toPercent_eq,
    valIf_eq_X]
  linear_combination
    ((X x i.addStored .sfHumans m + X x i.addOutdoor .cropHumans m
      + X x i.addSeaweed .swHumans m * i.seaweedKcals + at' i.milk m + X x i.addMeat .meatEaten m
      + X x i.addCs .csHumans m + X x i.addScp .scpHumans m + at' i.greenhouse m + at' i.fish m)
      * 100 / i.billionKcalsNeeded) * h

theorem sumPercent_eq_consumed (i : Inp K) (x : Var → K) (h : Feasible (buildLP i .toHumans) x)
    (hkm : i.kcalsMonthly ≠ 0) (m : Nat) (hm : m < i.nmonths) :
    sumPercent i x m = x (.mv .consumedKcals m) := by
  rw [sumPercent_eq_humanTotal i x hkm, kcals_fed h hm, eval_humanSum']

/-! ## the headline -/

theorem headline_eq_min_consumed (i : Inp K) (x : Var → K) (h : Feasible (buildLP i .toHumans) x)
    (hkm : i.kcalsMonthly ≠ 0) (hN : 0 < i.nmonths) :
    headline i x = minOver (fun m => x (.mv .consumedKcals m)) i.nmonths :=
  minOver_congr _ _ _ hN (fun m hm => sumPercent_eq_consumed i x h hkm m hm)

/-- the floor rows of the tie-breaking solves (human-maximising round) -/
theorem floorRows_toHumans_iff (i : Inp K) (x : Var → K) (z : K) :
    (∀ r ∈ floorRows i .toHumans z, r.holds x) ↔
      ∀ m, m < i.nmonths → z * 0.99995 ≤ x (.mv .consumedKcals m) := by
  unfold floorRows
  constructor
  · intro h m hm
    have H := h _ (List.mem_map.mpr ⟨m, List.mem_range.mpr hm, rfl⟩)
    simpa only [holds_le, eval_mv, eval_k] using H
  · intro h r hr
    obtain ⟨m, hm, rfl⟩ := List.mem_map.mp hr
    simpa only [holds_le, eval_mv, eval_k] using h m (List.mem_range.mp hm)

theorem headline_ge_floor (i : Inp K) (x : Var → K) (z : K)
    (h : Feasible (buildLP i .toHumans ++ floorRows i .toHumans z) x)
    (hkm : i.kcalsMonthly ≠ 0) (hN : 0 < i.nmonths) :
    z * 0.99995 ≤ headline i x := by
  obtain ⟨hf, hfl⟩ := (feasible_append_iff _ _ _).mp h
  rw [headline_eq_min_consumed i x hf hkm hN]
  exact le_minOver _ _ hN _ ((floorRows_toHumans_iff i x z).mp hfl)

/-- the headline of a feasible point is a non-negative number -/
theorem headline_nonneg (i : Inp K) (x : Var → K) (h : Feasible (buildLP i .toHumans) x)
    (hkm : i.kcalsMonthly ≠ 0) (hN : 0 < i.nmonths) : 0 ≤ headline i x := by
  rw [headline_eq_min_consumed i x h hkm hN]
  exact le_minOver _ _ hN _ (fun m _ => h.2 _)

/-- replacing the objective variable by the headline keeps the point feasible -/
theorem headline_point_feasible (i : Inp K) (x : Var → K) (h : Feasible (buildLP i .toHumans) x)
    (hkm : i.kcalsMonthly ≠ 0) (hN : 0 < i.nmonths) :
    Feasible (buildLP i .toHumans) (fun v => if v = .objective then headline i x else x v) := by
  rw [feasible_toHumans_iff] at h ⊢
  have hf := feasible_toHumans_iff.mpr h
  refine h.of_agree (fun k m => by simp only [reduceCtorEq, if_false]) ?_ ?_ ?_
  · simp only [if_true]; exact headline_nonneg i x hf hkm hN
  · simp only [reduceCtorEq, if_false]; exact h.nonneg _
  · intro m hm
    simp only [if_true]
    rw [headline_eq_min_consumed i x hf hkm hN]
    exact minOver_le _ _ _ hm

theorem headline_le_optimum (i : Inp K) (x : Var → K) (zopt : K)
    (hopt : ∀ x', Feasible (buildLP i .toHumans) x' → x' .objective ≤ zopt)
    (h : Feasible (buildLP i .toHumans) x) (hkm : i.kcalsMonthly ≠ 0) (hN : 0 < i.nmonths) :
    headline i x ≤ zopt := by
  have := hopt _ (headline_point_feasible i x h hkm hN)
  simpa only [if_true] using this

theorem headline_within_tolerance (i : Inp K) (x : Var → K) (zopt : K)
    (hopt : ∀ x', Feasible (buildLP i .toHumans) x' → x' .objective ≤ zopt)
    (h : Feasible (buildLP i .toHumans ++ floorRows i .toHumans zopt) x)
    (hkm : i.kcalsMonthly ≠ 0) (hN : 0 < i.nmonths) (hz : 0 ≤ zopt) :
    |headline i x - zopt| ≤ 0.0001 * zopt := by
  have h1 := headline_ge_floor i x zopt h hkm hN
  have h2 := headline_le_optimum i x zopt hopt (extra_rows_preserve _ _ x h) hkm hN
  have e1 : (0.99995 : K) = 99995 / 100000 := by norm_num
  have e2 : (0.0001 : K) = 1 / 10000 := by norm_num
  rw [e1] at h1
  rw [e2, abs_le]
  constructor <;> linarith

/-! ## crops eaten immediately / from new storage -/

theorem split_adds_up (produced eaten : K) :
    (splitCrops produced eaten).1 + (splitCrops produced eaten).2 = eaten := by
  unfold splitCrops
  split_ifs
  · show produced + (eaten - produced) = eaten
    ring
  · show eaten + 0 = eaten
    ring

/-! ## feed and biofuel drawn from each resource -/

theorem pctOfNeed_eq (i : Inp K) (ratio v : K) :
    pctOfNeed i ratio v = v * ratio / i.billionKcalsNeeded * 100 := by
  unfold pctOfNeed; rw [sci_100]

/-- the five feed entries add up to the feed total of the LP, in percent of need -/
theorem nonhuman_feed_sum (i : Inp K) (x : Var → K) (m : Nat) :
    ((nonhumanMonth i x m).take 5).sum = feedTotal i x m / i.billionKcalsNeeded * 100 := by
  unfold nonhumanMonth feedTotal
  simp only [List.take_succ_cons, List.take_zero, List.sum_cons, List.sum_nil, pctOfNeed_eq,
    valIf_eq_X]
  ring

theorem nonhuman_biofuel_sum (i : Inp K) (x : Var → K) (m : Nat) :
    ((nonhumanMonth i x m).drop 5).sum = biofuelTotal i x m / i.billionKcalsNeeded * 100 := by
  unfold nonhumanMonth biofuelTotal
  simp only [List.drop_succ_cons, List.drop_zero, List.sum_cons, List.sum_nil, pctOfNeed_eq,
    valIf_eq_X]
  ring

theorem nonhuman_sum_eq_charge (i : Inp K) (x : Var → K) (h : Feasible (buildLP i .toHumans) x)
    (hany : anyFeedVar i = true) (m : Nat) (hm : m < i.nmonths) :
    ((nonhumanMonth i x m).take 5).sum = at' i.feed m / i.billionKcalsNeeded * 100 ∧
    ((nonhumanMonth i x m).drop 5).sum = at' i.biofuel m / i.billionKcalsNeeded * 100 := by
  obtain ⟨h1, h2⟩ := feed_biofuel_eq_charge h hany hm
  rw [nonhuman_feed_sum, nonhuman_biofuel_sum, h1, h2]
  exact ⟨rfl, rfl⟩

theorem nonhuman_sum_le_ceiling (i : Inp K) (x : Var → K) (h : Feasible (buildLP i .toAnimals) x)
    (hany : anyFeedVar i = true) (hb : 0 ≤ i.billionKcalsNeeded) (m : Nat) (hm : m < i.nmonths) :
    ((nonhumanMonth i x m).take 5).sum ≤ at' i.maxFeed m / i.billionKcalsNeeded * 100 ∧
    ((nonhumanMonth i x m).drop 5).sum ≤ at' i.maxBiofuel m / i.billionKcalsNeeded * 100 := by
  obtain ⟨h1, h2⟩ := feed_biofuel_le_ceiling h hany hm
  rw [nonhuman_feed_sum, nonhuman_biofuel_sum]
  exact ⟨mul_le_mul_of_nonneg_right (div_le_div_of_nonneg_right h1 hb) (by norm_num),
    mul_le_mul_of_nonneg_right (div_le_div_of_nonneg_right h2 hb) (by norm_num)⟩

theorem nonhuman_nonneg (i : Inp K) (x : Var → K) (hx : ∀ v, 0 ≤ x v)
    (hb : 0 ≤ i.billionKcalsNeeded) (hkc : 0 ≤ i.seaweedKcals) (m : Nat) :
    ∀ e ∈ nonhumanMonth i x m, 0 ≤ e := by
  have hv : ∀ (on : Bool) (k : VK), 0 ≤ valIf x on k m := by
    intro on k; unfold valIf; split_ifs
    · exact hx _
    · exact le_rfl
  have hp : ∀ (r v : K), 0 ≤ r → 0 ≤ v → 0 ≤ pctOfNeed i r v := by
    intro r v hr hv'
    rw [pctOfNeed_eq]
    exact mul_nonneg (div_nonneg (mul_nonneg hv' hr) hb) (by norm_num)
  intro e he
  unfold nonhumanMonth at he
  simp only [List.mem_cons, List.not_mem_nil, or_false] at he
  rcases he with rfl | rfl | rfl | rfl | rfl | rfl | rfl | rfl | rfl | rfl
  all_goals first
    | exact hp _ _ zero_le_one (hv _ _)
    | exact hp _ _ hkc (hv _ _)

/-- a one-month instance with SCP only, one unit of it fed to animals -/
def scpOnlyInst : Inp ℚ := { emptyInst with nmonths := 1, addScp := true, addCs := true }

def scpOnlyX : Var → ℚ
  | .mv .scpFeed _ => 1
  | _ => 0

/-- the sugar and SCP entries are distinguishable: a point at which exchanging them changes what
    is reported (SCP and sugar both on, 1 unit of SCP and no sugar fed to animals) -/
theorem nonhuman_swap_counterexample :
    ∃ (i : Inp ℚ) (x : Var → ℚ) (m : Nat), m < i.nmonths ∧ (∀ v, 0 ≤ x v) ∧
      swapSugarScp (nonhumanMonth i x m) ≠ nonhumanMonth i x m := by
  refine ⟨scpOnlyInst, scpOnlyX, 0, by decide, ?_, by decide +kernel⟩
  intro v
  cases v with
  | mv k m => cases k <;> first | exact le_rfl | exact zero_le_one
  | objective => exact le_rfl
  | objectiveBest => exact le_rfl

end Allfed.Proofs.Report
