import AllfedModel.Model.AllocLP
import AllfedModel.Model.PhysSpec
/-
Optimality certificates (property C02).  CBC and HiGHS are not trusted: for a captured instance a
vector of row multipliers `y` (any numbers — e.g. HiGHS' dual values) is turned by `dualBound`
into an upper bound on the objective variable that is valid for *every* feasible point
(weak duality, with the part of the reduced costs that has the wrong sign absorbed by proved
upper bounds of the variables).  `dualBound` is evaluated by the driver in exact rational
arithmetic; its soundness is `Props/C02.lean: dualBound_sound`.
-/
namespace Allfed.Certificate
open Allfed.LP Allfed.AllocLP

section
variable {α : Type} [Add α] [Sub α] [Mul α] [Div α] [Neg α] [LE α] [LT α]
  [DecidableLE α] [DecidableLT α] [OfNat α 0] [OfNat α 1] [OfScientific α]

/-- a multiplier has the right sign for its row: for `lhs ≤ rhs` it must be `≥ 0`, for `≥` it must be `≤ 0` -/
def signOK : Rel → α → Bool
  | .le, y => decide (0 ≤ y)
  | .eq, _ => true
  | .ge, y => decide (y ≤ 0)

/-- `Σ_i y_i · (lhs_i − rhs_i)` as one (un-normalised) affine expression; rows and multipliers are
    aligned by position, missing multipliers count as 0 -/
def combo : List (Row α) → List α → Aff α
  | [], _ => Aff.k 0
  | _ :: _, [] => Aff.k 0
  | r :: rs, y :: ys => Aff.smul y r.normal + combo rs ys

def allSignsOK : List (Row α) → List α → Bool
  | [], _ => true
  | _ :: _, [] => true
  | r :: rs, y :: ys => signOK r.rel y && allSignsOK rs ys

/-- an injective-enough numbering used only to bring equal variables next to each other -/
def vkCode : VK → Nat
  | .sfStart => 0 | .sfEnd => 1 | .sfHumans => 2 | .sfFeed => 3 | .sfBiofuel => 4
  | .scpHumans => 5 | .scpFeed => 6 | .scpBiofuel => 7 | .csHumans => 8 | .csFeed => 9 | .csBiofuel => 10
  | .meatStart => 11 | .meatEnd => 12 | .meatEaten => 13
  | .cropStorage => 14 | .cropConsumed => 15 | .cropHumans => 16 | .cropFeed => 17 | .cropBiofuel => 18
  | .swWet => 19 | .swHumans => 20 | .swFeed => 21 | .swBiofuel => 22 | .usedArea => 23 | .consumedKcals => 24

def varCode : Var → Nat
  | .objective => 0
  | .objectiveBest => 1
  | .mv k m => 2 + 25 * m + vkCode k

/-- insert a term into a list kept sorted by variable code, adding the coefficient to the term
    that already carries the same variable (structural recursion, so that the kernel can evaluate
    the checker on small instances: `List.mergeSort` is defined by well-founded recursion and
    does not reduce under `decide +kernel`) -/
def insertTerm (v : Var) (c : α) : List (Var × α) → List (Var × α)
  | [] => [(v, c)]
  | (w, d) :: t =>
    if v = w then (w, d + c) :: t
    else if varCode v ≤ varCode w then (v, c) :: (w, d) :: t
    else (w, d) :: insertTerm v c t

/-- sort by variable code and merge equal variables: a normal form with the same value at every
    point (at most one term per variable, since `varCode` is injective on the variables of a month
    grid) -/
def normalise (l : List (Var × α)) : List (Var × α) :=
  l.foldl (fun acc p => insertTerm p.1 p.2 acc) []

/-- `Σ_j max(0, r_j) · U_j` over the residual terms; `none` if a positive residual sits on a
    variable without a known upper bound -/
def absorb (ub : Var → Option α) : List (Var × α) → Option α
  | [] => some 0
  | (v, r) :: t =>
    match absorb ub t with
    | none => none
    | some rest =>
      if r ≤ 0 then some rest
      else match ub v with
        | some u => some (r * u + rest)
        | none => none

/-- upper bound on `x .objective` over all feasible `x` of `rows` with `x ≤ ub`:
    objective − Σ y_i·(lhs_i − rhs_i) = Σ_j r_j x_j − c₀, so objective ≤ Σ_j r_j⁺ U_j − c₀ -/
def dualBound (rows : List (Row α)) (y : List α) (ub : Var → Option α) : Option α :=
  if !allSignsOK rows y then none else
  let c := combo rows y
  let resid := normalise ((Var.objective, 1) :: (Aff.neg c).terms)
  match absorb ub resid with
  | none => none
  | some s => some (s - c.const)

/-! ### upper bounds of the variables of `buildLP` (valid for every feasible point) -/

/-- total of a supply series over the horizon -/
def total (l : List α) (n : Nat) : α := (List.range n).foldl (fun acc m => acc + at' l m) 0

/-- what can be harvested from the seaweed farm in month `m ≥ 1` at most (wet tonnes): last
    month's biomass at the density ceiling, grown, plus the loss term of a shrinking farm.
    From the ledger `wet m = wet(m−1)·(1+g) − humans/(1−w) − feed − biofuel − (area m − area(m−1))·minD·hl`
    with `wet m ≥ 0`, `area m ≥ 0`, `wet(m−1) ≤ maxD·built(m−1)`, `area(m−1) ≤ built(m−1)`. -/
def swCap (i : Inp α) (m : Nat) : α :=
  i.maxDensity * at' i.builtArea (m - 1) * (1 + at' i.growth m / 100.0)
    + at' i.builtArea (m - 1) * i.minDensity * (i.harvestLoss / 100.0)

/-- bound of the monthly variable `k` of month `m < nmonths`, valid at every feasible point of
    `buildLP i kind` (either kind) under `WellFormed i`; `none` where no bound is proved:
    * variables of a resource that is switched off (they occur in no row, only `0 ≤ x v` holds);
    * stored-food stock variables with no `Stored_Food_Eaten` row behind them (without storage
      between years: `Stored_Food_End_m` for `m > 12`, `Stored_Food_Start_m` for `m > 13`);
    * meat stock variables without storage between years;
    * `Humans_Fed_Kcals` (it exists only in human-maximising rounds: see `consumedCap`). -/
def capOf (i : Inp α) (k : VK) (m : Nat) : Option α :=
  match k with
  | .sfStart =>
    if i.addStored && (i.storeBetweenYears || decide (m ≤ 13)) then some i.storedInitial else none
  | .sfEnd =>
    if i.addStored && (i.storeBetweenYears || decide (m ≤ 12)) then some i.storedInitial else none
  | .sfHumans | .sfFeed | .sfBiofuel =>
    if !i.addStored then none
    else if i.storeBetweenYears || decide (m ≤ 12) then some i.storedInitial else some 0
  | .cropStorage | .cropConsumed | .cropFeed | .cropBiofuel | .cropHumans =>
    if i.addOutdoor then some (total i.cropProd (m + 1)) else none
  | .meatStart | .meatEnd => if i.addMeat && i.storeBetweenYears then some i.meatSummed else none
  | .meatEaten =>
    if !i.addMeat then none
    else if i.storeBetweenYears then some i.meatSummed else some (at' i.slaughtered m)
  | .scpHumans | .scpFeed | .scpBiofuel => if i.addScp then some (at' i.scp m) else none
  | .csHumans | .csFeed | .csBiofuel => if i.addCs then some (at' i.cs m) else none
  | .swWet => if i.addSeaweed then some (i.maxDensity * at' i.builtArea m) else none
  | .usedArea => if i.addSeaweed then some (at' i.builtArea m) else none
  | .swHumans | .swFeed | .swBiofuel =>
    if !i.addSeaweed then none else if m = 0 then some 0 else some (swCap i m)
  | .consumedKcals => none

/-- bound of what `humanSum` reads for a resource: the variable's bound if the resource is on,
    the literal `0` of `varIf` otherwise -/
def capH (i : Inp α) (on : Bool) (k : VK) (m : Nat) : Option α := if on then capOf i k m else some 0

/-- bound of `Humans_Fed_Kcals_m` in a human-maximising round (`Kcals_Fed_Month_m`: the variable
    equals `humanSum / billion_kcals_needed · 100`): the bounds of the human variables, plus milk,
    greenhouse and fish; needs a positive requirement; `none` if a needed bound is missing -/
def consumedCap (i : Inp α) (m : Nat) : Option α :=
  if 0 < i.billionKcalsNeeded then
    match capH i i.addStored .sfHumans m, capH i i.addOutdoor .cropHumans m,
          capH i i.addSeaweed .swHumans m, capH i i.addMeat .meatEaten m,
          capH i i.addCs .csHumans m, capH i i.addScp .scpHumans m with
    | some a, some b, some c, some d, some e, some f =>
      some ((a + b + c * i.seaweedKcals + at' i.milk m + d + e + f + at' i.greenhouse m + at' i.fish m)
              / i.billionKcalsNeeded * 100.0)
    | _, _, _, _, _, _ => none
  else none

/-- upper bound of a variable, valid at every feasible point of `buildLP i kind` under
    `WellFormed i` (`Props/C02.lean: ubOf_valid`); `none` where no bound is proved (see `capOf`;
    months outside the horizon; `TO_HUMANS_OBJECTIVE`).
    `Objective_To_Optimize`: a human-maximising round has `objective ≤ Humans_Fed_Kcals_0`; the
    feed-maximising round has `objective ≤ 2/3·Σ feed + Σ biofuel / 3` with every month's feed and
    biofuel under its ceiling (all sums are the float `0` when no resource contributes a variable). -/
def ubOf (i : Inp α) (kind : Kind) : Var → Option α
  | .objectiveBest => none
  | .objective =>
    (match kind with
     | .toHumans => if 0 < i.nmonths then consumedCap i 0 else none
     | .toAnimals =>
       if anyFeedVar i then
         some (2.0 / 3.0 * total i.maxFeed i.nmonths + total i.maxBiofuel i.nmonths / 3.0)
       else some 0)
  | .mv k m =>
    if i.nmonths ≤ m then none else
    match k with
    | .consumedKcals =>
      (match kind with
       | .toHumans => consumedCap i m
       | .toAnimals => none)      -- the variable occurs in no row of a feed-maximising round
    | k => capOf i k m

/-- what `ubOf` needs of the inputs: wastes in `[0, 100)` (so that people never receive more than
    is drawn), crops and stock non-negative, and for the seaweed bounds non-negative minimum
    density, harvest loss and energy content, growth not below −100 %.
    Monthly series are constrained on the horizon only. -/
def WellFormed (i : Inp α) : Prop :=
  (0 ≤ i.wStored ∧ i.wStored < 100.0) ∧ (0 ≤ i.wCrop ∧ i.wCrop < 100.0) ∧ (0 ≤ i.wMeat ∧ i.wMeat < 100.0) ∧
  (0 ≤ i.wScp ∧ i.wScp < 100.0) ∧ (0 ≤ i.wCs ∧ i.wCs < 100.0) ∧ (0 ≤ i.wSeaweed ∧ i.wSeaweed < 100.0) ∧
  (∀ m, m < i.nmonths → 0 ≤ at' i.cropProd m) ∧ 0 ≤ i.storedInitial ∧
  0 ≤ i.minDensity ∧ 0 ≤ i.harvestLoss ∧ 0 ≤ i.seaweedKcals ∧
  (∀ m, m < i.nmonths → -100.0 ≤ at' i.growth m)

/-- `WellFormed` as a Boolean (`Proofs/Certificate.lean: wellFormedB_iff`); the driver evaluates it
    on the exact rational values of the inputs -/
def wellFormedB (i : Inp α) : Bool :=
  let w (x : α) : Bool := decide (0 ≤ x) && decide (x < 100.0)
  w i.wStored && w i.wCrop && w i.wMeat && w i.wScp && w i.wCs && w i.wSeaweed &&
  ((List.range i.nmonths).all fun m => decide (0 ≤ at' i.cropProd m)) && decide (0 ≤ i.storedInitial) &&
  decide (0 ≤ i.minDensity) && decide (0 ≤ i.harvestLoss) && decide (0 ≤ i.seaweedKcals) &&
  ((List.range i.nmonths).all fun m => decide (-100.0 ≤ at' i.growth m))

end
end Allfed.Certificate
