import AllfedModel.Model.AllocLP
/-
Reporting (property C04): `Extractor` / `Interpreter` of /repo/src/optimizer.
Every per-food contribution is the optimiser's allocation times a positive constant:
  billions fed = value · ratio / KCALS_MONTHLY           (extract_generic_results, to_monthly_list)
  percent fed  = billions fed · (1 / (1/kcals_monthly)) · (100 / billion_kcals_needed)   (in_units_percent_fed)
  kcals equiv. = billions fed · (1 / (1/kcals_monthly)) · ((1/kcals_monthly) · (1e9/population · kcals_daily))
The headline is the minimum over months of the sum of the nine percent series.
-/
namespace Allfed.Report
open Allfed.LP Allfed.AllocLP

section
variable {α : Type} [Add α] [Sub α] [Mul α] [Div α] [Neg α] [LE α] [LT α]
  [DecidableLE α] [DecidableLT α] [OfNat α 0] [OfNat α 1] [OfScientific α]

/-- `val * (ratio / KCALS_MONTHLY)` -/
def billionsFed (i : Inp α) (ratio v : α) : α := v * (ratio / i.kcalsMonthly)

/-- billions fed → percent fed (`get_conversion`: `1 / from * to`, then `conversion * value`) -/
def toPercent (i : Inp α) (b : α) : α := 1 / (1 / i.kcalsMonthly) * (100.0 / i.billionKcalsNeeded) * b

/-- billions fed → kcals per person per day -/
def toKcalsEquiv (i : Inp α) (kcalsDaily b : α) : α :=
  1 / (1 / i.kcalsMonthly) * (1 / i.kcalsMonthly * (1e9 / i.pop * kcalsDaily)) * b

/-- value of an LP variable, or the literal `0` when its resource is switched off -/
def valIf (x : Var → α) (on : Bool) (k : VK) (m : Nat) : α := if on then x (.mv k m) else 0

/-- the nine per-food series in billions fed, for month `m` (order: stored food, outdoor crops,
    seaweed, cellulosic sugar, SCP, greenhouse, fish, meat, milk — the order of
    `get_sum_by_adding_to_humans`) -/
def foodsBillions (i : Inp α) (x : Var → α) (m : Nat) : List α :=
  [ billionsFed i 1 (valIf x i.addStored .sfHumans m),
    billionsFed i 1 (valIf x i.addOutdoor .cropHumans m),
    billionsFed i i.seaweedKcals (valIf x i.addSeaweed .swHumans m),
    billionsFed i 1 (valIf x i.addCs .csHumans m),
    billionsFed i 1 (valIf x i.addScp .scpHumans m),
    1 / i.kcalsMonthly * at' i.greenhouse m,
    1 / i.kcalsMonthly * at' i.fish m,
    valIf x i.addMeat .meatEaten m * (1 / i.kcalsMonthly),
    at' i.milk m / i.kcalsMonthly ]

def foodsPercent (i : Inp α) (x : Var → α) (m : Nat) : List α := (foodsBillions i x m).map (toPercent i)

/-- left-to-right sum as `Food.__add__` chains do -/
def sumPercent (i : Inp α) (x : Var → α) (m : Nat) : α := lsum (foodsPercent i x m)

/-- minimum over months `0 … n-1` (Python `min` over the array) -/
def minOver (f : Nat → α) : Nat → α
  | 0 => f 0
  | 1 => f 0
  | n + 2 => pmin (minOver f (n + 1)) (f (n + 1))

def headline (i : Inp α) (x : Var → α) : α := minOver (sumPercent i x) i.nmonths

/-- `to_monthly_list_outdoor_crops_kcals`: crops eaten immediately / from new storage -/
def splitCrops (produced eaten : α) : α × α :=
  if produced ≤ eaten then (produced, eaten - produced) else (eaten, 0)

/-! ### feed and biofuel drawn from each resource (`…_feed`, `…_biofuels` of the interpreter) -/

/-- an allocation (billion kcals; seaweed: tonnes times `ratio = seaweedKcals`) in percent of the
    monthly need -/
def pctOfNeed (i : Inp α) (ratio v : α) : α := v * ratio / i.billionKcalsNeeded * 100.0

/-- the ten reported numbers of month `m`: feed drawn from stored food, outdoor crops, seaweed,
    cellulosic sugar, SCP, then biofuel in the same order; 0 for a resource that is switched off -/
def nonhumanMonth (i : Inp α) (x : Var → α) (m : Nat) : List α :=
  [ pctOfNeed i 1 (valIf x i.addStored .sfFeed m),
    pctOfNeed i 1 (valIf x i.addOutdoor .cropFeed m),
    pctOfNeed i i.seaweedKcals (valIf x i.addSeaweed .swFeed m),
    pctOfNeed i 1 (valIf x i.addCs .csFeed m),
    pctOfNeed i 1 (valIf x i.addScp .scpFeed m),
    pctOfNeed i 1 (valIf x i.addStored .sfBiofuel m),
    pctOfNeed i 1 (valIf x i.addOutdoor .cropBiofuel m),
    pctOfNeed i i.seaweedKcals (valIf x i.addSeaweed .swBiofuel m),
    pctOfNeed i 1 (valIf x i.addCs .csBiofuel m),
    pctOfNeed i 1 (valIf x i.addScp .scpBiofuel m) ]

/-- one row per month of the horizon -/
def nonhumanSeries (i : Inp α) (x : Var → α) : List (List α) :=
  (List.range i.nmonths).map (nonhumanMonth i x)

/-- the same ten numbers with the sugar and SCP entries exchanged (feed: 3 ↔ 4, biofuel: 8 ↔ 9):
    what a call site with swapped arguments would report -/
def swapSugarScp : List α → List α
  | [a, b, c, d, e, f, g, h, j, k] => [a, b, c, e, d, f, g, h, k, j]
  | l => l

end
end Allfed.Report
