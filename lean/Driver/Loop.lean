import Driver.Wire
/-
Generic line-protocol loop.  Each subsystem has its own small executable
(`Driver/Main<Group>.lean`, `lean_exe driver_<group>` in lakefile.toml) so that a
model file that stops compiling takes down only the checks that use it.
-/
open Wire

def answerWith (allOps : List (String × P String)) (line : String) : String :=
  match (line.splitOn " ").filter (· ≠ "") with
  | [] => "err empty"
  | op :: args =>
    match allOps.lookup op with
    | none => s!"err unknown-op {op}"
    | some p =>
      match Wire.run p args with
      | .ok s => s
      | .error e => "err " ++ encodeStr e

partial def loopWith (allOps : List (String × P String)) (h : IO.FS.Stream) (out : IO.FS.Stream) : IO Unit := do
  let line ← h.getLine
  if line.isEmpty then return ()
  out.putStrLn (answerWith allOps line.trimAscii.toString)
  loopWith allOps h out

def runDriver (allOps : List (String × P String)) : IO Unit := do
  let i ← IO.getStdin
  let o ← IO.getStdout
  loopWith allOps i o
  o.flush
