#!/venv/bin/python
"""bin/check <ID> <quick|thorough> [--replay <path>]      (DESIGN.md §5)

exit 0  the property held on everything explored (KNOWN-FINDING lines may be printed)
exit 1  `VIOLATION property=<id> replay=<path>[ no-failing-input-found]` was printed
exit 2  the machinery itself failed (timeout, internal error) - never a verdict
"""
import hashlib, importlib, json, os, random, sys, time, traceback
from collections import Counter

ROOT = os.environ.get("VERIF_ROOT") or os.path.dirname(os.path.dirname(os.path.abspath(__file__)))
os.environ["VERIF_ROOT"] = ROOT
sys.path.insert(0, os.path.join(ROOT, "harness"))

from lib import leanbuild, scratch, wire  # noqa: E402

TRUSTED_BASE = [
    "Lean 4.33 kernel; axioms allowed in property theorems: propext, Classical.choice, Quot.sound (audited by #print axioms on every run)",
    "Lean compiler/runtime for executing the model driver (lean/Driver) at Float",
    "this harness (Python): scratch copy of /repo's working tree, generators, comparator with rel/abs tolerance 1e-9",
    "modelled, not verified: IEEE-754 rounding (theorems are over exact ordered fields), numpy summation order, CPython",
]


class Ctx:
    def __init__(self, pid, tier, seed):
        self.pid, self.tier, self.seed = pid, tier, seed
        self.rng = random.Random(int(hashlib.sha256(("%s/%s" % (pid, seed)).encode()).hexdigest()[:16], 16))
        self.stats = Counter()
        self.samples = []
        self.violations = []      # property oracle failed on the implementation: dict(key, what, case)
        self.disagreements = []   # model vs implementation differ: dict(name, case, impl, model)
        self.broken = []          # proof obligations / translator / build that no longer check
        self.notes = []
        self.distinct = set()
        self.evaluations = 0
        self.extra = {}
        self.repo = None
        self.t0 = time.time()
        self.quick = tier == "quick"
        self.driver = "driver"

    # -- bookkeeping -------------------------------------------------------------
    def count(self, name, n=1):
        self.stats[name] += n

    def case(self, sig, nontrivial=True, sample=None):
        """register one explored case; `sig` identifies it for the distinct count"""
        self.evaluations += 1
        if nontrivial:
            self.distinct.add(hashlib.md5(repr(sig).encode()).hexdigest())
        if sample is not None and len(self.samples) < 6:
            self.samples.append(sample)

    def violation(self, key, what, case):
        self.violations.append({"key": key, "what": what, "case": case})

    def disagree(self, name, case, impl, model):
        self.disagreements.append({"name": name, "case": case, "impl": impl, "model": model})

    def break_(self, name, detail):
        self.broken.append({"name": name, "detail": detail})

    def quiet(self):
        """silence the implementation's prints while it is being driven"""
        import contextlib, io
        return contextlib.redirect_stdout(io.StringIO())

    def lean(self, lines):
        return wire.run_driver(lines, exe_name=self.driver)

    def elapsed(self):
        """seconds since the correspondence started (the build is not counted against a tier's budget)"""
        return time.time() - getattr(self, "t_corr", self.t0)

    def wall(self):
        return time.time() - self.t0

    def budget(self, quick, thorough):
        return quick if self.quick else thorough


def np_default(o):
    try:
        import numpy as np
        if isinstance(o, np.ndarray):
            return o.tolist()
        if isinstance(o, (np.floating,)):
            return float(o)
        if isinstance(o, (np.integer,)):
            return int(o)
        if isinstance(o, (np.bool_,)):
            return bool(o)
    except Exception:
        pass
    return repr(o)


def load_findings(pid):
    p = os.path.join(ROOT, "known_findings.json")
    if not os.path.exists(p):
        return []
    return [e for e in json.load(open(p)) if e.get("property") == pid]


def write_replay(pid, payload):
    os.makedirs(os.path.join(ROOT, "replays"), exist_ok=True)
    body = json.dumps(payload, indent=1, default=np_default, sort_keys=True)
    h = hashlib.sha256(body.encode()).hexdigest()[:12]
    path = os.path.join(ROOT, "replays", "%s-%s.json" % (pid, h))
    with open(path, "w") as f:
        f.write(body)
    return os.path.relpath(path, ROOT)


def write_evidence(mod, ctx, obligations, discharged, audit, checker_cmd, nviol, known_lines):
    level = getattr(mod, "LEVEL", "proof")
    cov = {
        "obligations": len(obligations),
        "discharged": len(discharged),
        "obligation_names": obligations,
        "undischarged": [o for o in obligations if o not in discharged],
        "axioms": {k: v.get("axioms") for k, v in audit.items()},
        "checker_cmd": checker_cmd,
        "trusted_base": TRUSTED_BASE + list(getattr(mod, "TRUSTED", [])),
        "evaluations": ctx.evaluations,
        "distinct_nontrivial": len(ctx.distinct),
        "rule": getattr(mod, "RULE", ""),
        "samples": ctx.samples[:6] if ctx.samples else [{"obligations": obligations[:5]}],
        "distribution": dict(ctx.stats),
        "disagreements_model_vs_impl": len(ctx.disagreements),
        "broken": ctx.broken,
        "known_findings_reported": known_lines,
        "explanation": getattr(mod, "EXPLANATION", ""),
        "exhaustive": False,
    }
    cov.update(ctx.extra)
    if not discharged:  # schema: a proof-level file needs discharged >= 1; report the counts under other names
        cov['obligations_total'] = cov.pop('obligations')
        cov['discharged_total'] = cov.pop('discharged')
        cov['evaluations'] = max(1, cov['evaluations'])
    ev = {
        "property_id": ctx.pid, "tier": ctx.tier, "seed": ctx.seed, "level": level,
        "coverage": cov,
        "assumptions": list(getattr(mod, "ASSUMPTIONS", [])) + ctx.notes,
        "wall_s": round(ctx.wall(), 2),
        "violations": nviol,
    }
    # evidence/ describes runs against /repo itself; a run pointed at another tree (VERIF_REPO: seeded changes, experiments) writes elsewhere
    edir = "evidence" if os.environ.get("VERIF_REPO", "/repo").rstrip("/") == "/repo" else "evidence_other_tree"
    os.makedirs(os.path.join(ROOT, edir), exist_ok=True)
    with open(os.path.join(ROOT, edir, "%s.json" % ctx.pid), "w") as f:
        json.dump(ev, f, indent=1, default=np_default)


def main(argv):
    if len(argv) < 2:
        print(__doc__)
        return 2
    pid = argv[0].upper()
    tier = argv[1] if argv[1] in ("quick", "thorough") else os.environ.get("VERIF_TIER", "quick")
    replay = None
    if "--replay" in argv:
        replay = argv[argv.index("--replay") + 1]
    seed = int(os.environ.get("VERIF_SEED", "0") or 0)
    mod = importlib.import_module("props.%s" % pid.lower())
    ctx = Ctx(pid, tier, seed)

    # 1. scratch copy of the working tree, real modules imported from there
    ctx.repo = scratch.make_scratch("allfed-verif-%s" % pid.lower())
    scratch.enter(ctx.repo)

    ctx.driver = getattr(mod, "DRIVER", None) or "driver"
    if replay:
        rep = json.load(open(replay if os.path.isabs(replay) else os.path.join(ROOT, replay)))
        ok, detail = mod.replay(ctx, rep)
        print(("REPRODUCED " if ok else "NOT-REPRODUCED ") + json.dumps(detail, default=np_default)[:2000])
        return 1 if ok else 0

    # 2. translators (model regenerated from source), then build of this property's modules; one critical section on the Lake project
    #    up to the audit (a concurrent check of another tree must not swap generated tables in between)
    lake_lock = leanbuild.Lock()
    lake_lock.__enter__()
    for tr in getattr(mod, "TRANSLATORS", []):
        try:
            tr(ctx)
        except Exception as e:  # construct outside the translator's grammar = broken tie
            ctx.break_("translator:%s" % getattr(tr, "__name__", "?"), "%s: %s" % (type(e).__name__, e))
    modules = list(getattr(mod, "LEAN_MODULES", []))
    ctx.driver = getattr(mod, "DRIVER", None)
    drv = [ctx.driver] if ctx.driver else []
    # the model driver is rebuilt from the current sources by lake (never a stale model: a failed build means no driver) and
    # this run executes a private copy of it, so concurrent checks relinking the same target cannot disturb it
    private = os.path.join(ctx.repo, ".verif_driver_" + (ctx.driver or "none"))
    ok, log, secs = leanbuild.build(modules + drv, copy_exe=(ctx.driver, private) if ctx.driver else None)
    driver_ok = True
    if not ok and drv:
        okd, _, _ = leanbuild.build(drv, copy_exe=(ctx.driver, private))  # the proofs may be broken while the executable model still builds
        driver_ok = okd
    if ctx.driver and driver_ok:
        wire.DRIVER_COPIES[ctx.driver] = private
    ctx.extra["lake_build_s"] = round(secs, 1)
    if not ok:
        errs = [l for l in log.split("\n") if "error" in l.lower()][:20]
        ctx.break_("lake build " + " ".join(modules), "\n".join(errs) or log[-1500:])
        # which modules still build on their own?  (so that obligations elsewhere stay discharged)
    # 3. axiom audit + forbidden words
    obligations = list(getattr(mod, "OBLIGATIONS", []))
    audit = {}
    built_modules = []
    for m in modules:
        okm, _, _ = leanbuild.build([m]) if not ok else (True, "", 0)
        if okm:
            built_modules.append(m)
    if built_modules:
        audit = leanbuild.audit(built_modules, obligations)
    discharged = [o for o in obligations if audit.get(o, {}).get("ok")]
    for o in obligations:
        if o not in discharged:
            ctx.break_("theorem:" + o, audit.get(o, {}).get("error") or "module did not build")
    if tier == "thorough" and built_modules:
        # independent re-check of the compiled property modules (and the proof modules they name) by leanchecker
        extra = list(getattr(mod, "LEANCHECK_MODULES", []))
        rc_, out_, secs_ = leanbuild.leanchecker(built_modules + extra)
        ctx.extra["leanchecker"] = {"modules": built_modules + extra, "rc": rc_, "seconds": round(secs_, 1)}
        if rc_ != 0:
            ctx.break_("leanchecker", out_[-600:])
    hits = leanbuild.forbidden_words()
    if hits:
        ctx.break_("forbidden-words", json.dumps(hits[:10]))
    lake_lock.__exit__()
    checker_cmd = "cd lean && lake build %s && lake env lean <#print axioms of %d theorems>" % (" ".join(modules), len(obligations))

    # 4./5. correspondence + executable property oracle on the implementation
    if driver_ok:
        ctx.t_corr = time.time()
        try:
            mod.correspondence(ctx)
        except Exception as e:
            tb = traceback.format_exc()
            ctx.break_("correspondence-crashed", "%s: %s\n%s" % (type(e).__name__, e, tb[-1500:]))
    else:
        ctx.break_("driver", "model driver did not build")

    # 6./7. verdict
    findings = load_findings(pid)
    open_keys = {e["key"]: e for e in findings if e.get("status") == "open"}
    known_lines = []
    new_viol = [v for v in ctx.violations if v["key"] not in open_keys]
    tie_broken = bool(ctx.broken or ctx.disagreements)
    if not new_viol and tie_broken and hasattr(mod, "search"):
        try:
            mod.search(ctx)
        except Exception as e:
            ctx.notes.append("search crashed: %s: %s" % (type(e).__name__, e))
        new_viol = [v for v in ctx.violations if v["key"] not in open_keys]

    seen_known = Counter(v["key"] for v in ctx.violations if v["key"] in open_keys)
    for k, e in open_keys.items():
        line = "KNOWN-FINDING: property=%s %s [%s] (%s; observed %d time(s) in this run)" % (
            pid, e.get("what", k), k, e.get("site", ""), seen_known.get(k, 0))
        known_lines.append(line)

    rc = 0
    if new_viol:
        payload = {"property": pid, "tier": tier, "seed": seed, "kind": "failing-input",
                   "violations": new_viol[:5], "n_violations": len(new_viol),
                   "all_violation_keys": [[v["key"], v["what"][:200]] for v in new_viol[:200]],
                   "broken": ctx.broken, "disagreements": ctx.disagreements[:3],
                   "rerun": "bin/check %s --replay <this file>" % pid}
        path = write_replay(pid, payload)
        for l in known_lines:
            print(l)
        print("VIOLATION property=%s replay=%s" % (pid, path))
        print("  what: %s" % new_viol[0]["what"])
        rc = 1
    elif tie_broken:
        payload = {"property": pid, "tier": tier, "seed": seed, "kind": "no-failing-input-found",
                   "broken": ctx.broken, "disagreements": ctx.disagreements[:5],
                   "n_disagreements": len(ctx.disagreements),
                   "explored": {"evaluations": ctx.evaluations, "distinct": len(ctx.distinct)}}
        path = write_replay(pid, payload)
        for l in known_lines:
            print(l)
        for b in ctx.broken[:5]:
            print("  broken: %s: %s" % (b["name"], str(b["detail"])[:300].replace("\n", " | ")))
        for d in ctx.disagreements[:3]:
            print("  disagreement: %s impl=%s model=%s" % (d["name"], str(d["impl"])[:200], str(d["model"])[:200]))
        print("VIOLATION property=%s replay=%s no-failing-input-found" % (pid, path))
        rc = 1
    else:
        for l in known_lines:
            print(l)
        print("OK property=%s tier=%s seed=%d obligations=%d/%d cases=%d distinct=%d wall=%.1fs" % (
            pid, tier, seed, len(discharged), len(obligations), ctx.evaluations, len(ctx.distinct), ctx.wall()))
    write_evidence(mod, ctx, obligations, discharged, audit, checker_cmd,
                   len(new_viol) + (1 if (tie_broken and not new_viol) else 0), known_lines)
    return rc


if __name__ == "__main__":
    try:
        rc = main(sys.argv[1:])
    except SystemExit:
        raise
    except BaseException as e:
        traceback.print_exc()
        print("INTERNAL-ERROR %s: %s" % (type(e).__name__, e))
        rc = 2
    sys.stdout.flush()
    scratch.cleanup()
    if os.environ.get("VERIF_COVERAGE"):   # measuring which lines of /repo the checks execute (DESIGN.md §13.8): let the interpreter exit normally so that the tracer can save
        sys.exit(rc)
    os._exit(rc)
