"""Line protocol to the Lean driver (see lean/Driver/Wire.lean)."""
import os, struct, subprocess, math

ROOT = os.environ.get("VERIF_ROOT", "/verif")
LEAN = os.path.join(ROOT, "lean")


def f2b(x):
    return str(struct.unpack("<Q", struct.pack("<d", float(x)))[0])


def b2f(s):
    return struct.unpack("<d", struct.pack("<Q", int(s)))[0]


def fl(xs):
    xs = list(xs)
    return " ".join([str(len(xs))] + [f2b(x) for x in xs])


def nl(xs):
    xs = list(xs)
    return " ".join([str(len(xs))] + [str(int(x)) for x in xs])


def enc_str(s):
    if s == "":
        return "%"
    out = []
    for ch in s:
        if ch.isascii() and (ch.isalnum() or ch in "_-."):
            out.append(ch)
        elif ord(ch) < 256:
            out.append("%%%02x" % ord(ch))
        else:
            out.append(ch)
    return "".join(out)


def dec_str(t):
    if t == "%":
        return ""
    out = []
    i = 0
    while i < len(t):
        if t[i] == "%":
            out.append(chr(int(t[i + 1:i + 3], 16)))
            i += 3
        else:
            out.append(t[i])
            i += 1
    return "".join(out)


def sl(xs):
    xs = list(xs)
    return " ".join([str(len(xs))] + [enc_str(x) for x in xs])


class Reader:
    """Token reader for one answer line."""

    def __init__(self, line):
        self.t = line.split()
        self.i = 0

    def tok(self):
        v = self.t[self.i]
        self.i += 1
        return v

    def peek(self):
        return self.t[self.i] if self.i < len(self.t) else None

    def nat(self):
        return int(self.tok())

    def float(self):
        return b2f(self.tok())

    def bool(self):
        return self.tok() != "0"

    def str(self):
        return dec_str(self.tok())

    def floats(self):
        n = self.nat()
        return [self.float() for _ in range(n)]

    def nats(self):
        n = self.nat()
        return [self.nat() for _ in range(n)]

    def strs(self):
        n = self.nat()
        return [self.str() for _ in range(n)]

    def done(self):
        return self.i >= len(self.t)


def run_driver(lines, timeout=1800, exe_name="driver_handoff"):
    """Send request lines to the model driver, return answer lines (same count)."""
    exe = DRIVER_COPIES.get(exe_name) or os.path.join(LEAN, ".lake", "build", "bin", exe_name)
    data = "\n".join(lines) + "\n"
    if not os.path.exists(exe):
        raise RuntimeError("model driver %s is not built" % exe_name)
    cmd = [exe]
    p = subprocess.run(cmd, input=data, capture_output=True, text=True, cwd=LEAN, timeout=timeout)
    if p.returncode != 0:
        raise RuntimeError("driver failed: rc=%s stderr=%s" % (p.returncode, p.stderr[-2000:]))
    out = p.stdout.split("\n")
    if out and out[-1] == "":
        out.pop()
    if len(out) != len(lines):
        raise RuntimeError("driver answered %d lines for %d requests; stderr=%s" % (len(out), len(lines), p.stderr[-2000:]))
    return out


# private copies of driver executables made by vcheck after the build (name -> path)
DRIVER_COPIES = {}


def close(a, b, rel=1e-9, abs_=1e-9):
    """tolerance comparison of §3 of DESIGN.md"""
    if a == b:
        return True
    if isinstance(a, float) and isinstance(b, float) and math.isnan(a) and math.isnan(b):
        return True
    try:
        return abs(a - b) <= max(abs_, rel * max(abs(a), abs(b)))
    except TypeError:
        return False


def close_list(a, b, rel=1e-9, abs_=1e-9):
    return len(a) == len(b) and all(close(x, y, rel, abs_) for x, y in zip(a, b))
