"""LP instances: optimiser inputs -> model `Inp` (lean/AllfedModel/Model/AllocLP.lean), row comparison."""
import numpy as np
from lib.wire import f2b, fl, Reader

FOODS6 = ["seaweed", "outdoor_crops", "stored_food", "meat", "methane_scp", "cellulosic_sugar"]


def _series(x, n):
    a = np.asarray(x, dtype=float).ravel()
    return [float(v) for v in a[:n]]


def inp_from_optimizer(opt, kind):
    """the numbers `Optimizer` reads while building the model, as a dict in the model's field names"""
    C, T = opt.consts_for_optimizer, opt.time_consts
    n = int(C["NMONTHS"])
    I = C["inputs"]
    if I.get("INCLUDE_FAT") or I.get("INCLUDE_PROTEIN"):
        raise NotImplementedError("fat/protein-constrained instances are outside the model (documented options switch them off)")
    z = [0.0] * n
    d = dict(
        nmonths=n,
        addSeaweed=bool(C["ADD_SEAWEED"]), addOutdoor=bool(C["ADD_OUTDOOR_GROWING"]), addStored=bool(C["ADD_STORED_FOOD"]),
        addMeat=bool(C["ADD_MEAT"]), addScp=bool(C["ADD_METHANE_SCP"]), addCs=bool(C["ADD_CELLULOSIC_SUGAR"]),
        storeBetweenYears=bool(C["STORE_FOOD_BETWEEN_YEARS"]),
        pop=float(C["POP"]), kcalsMonthly=float(C["KCALS_MONTHLY"]), billionKcalsNeeded=float(C["BILLION_KCALS_NEEDED"]),
        seaweedKcals=float(C["SEAWEED_KCALS"]), initialSeaweed=float(C.get("INITIAL_SEAWEED", 0.0)),
        maxDensity=float(C.get("MAXIMUM_DENSITY", 0.0)), minDensity=float(C.get("MINIMUM_DENSITY", 0.0)),
        harvestLoss=float(C.get("HARVEST_LOSS", 0.0)), initialBuiltArea=float(C.get("INITIAL_BUILT_SEAWEED_AREA", 0.0)),
        wSeaweed=float(C.get("SEAWEED_WASTE_RETAIL", 0.0)), wStored=float(C.get("STORED_FOOD_WASTE_RETAIL", 0.0)),
        wMeat=float(C.get("MEAT_WASTE_RETAIL", 0.0)), wCrop=float(C.get("CROP_WASTE_RETAIL", 0.0)),
        wScp=float(C.get("SCP_RETAIL_WASTE", 0.0)), wCs=float(C.get("CELL_SUGAR_RETAIL_WASTE", 0.0)),
        storedInitial=float(np.asarray(C["stored_food"].initial_available.kcals)) if C["ADD_STORED_FOOD"] else 0.0,
        meatSummed=float(C.get("meat_summed_consumption", 0.0)),
        builtArea=_series(T["built_area"], n), growth=_series(T["growth_rates_monthly"], n),
        cropProd=_series(T["outdoor_crops"].production.kcals, n),
        maxCulled=_series(T["max_consumed_culled_kcals_each_month"], n),
        slaughtered=_series(T["each_month_meat_slaughtered"].kcals, n),
        scp=_series(T["methane_scp"].kcals, n), cs=_series(T["cellulosic_sugar"].kcals, n),
        milk=_series(T["milk_kcals"], n), greenhouse=_series(T["greenhouse_crops"].kcals, n),
        fish=_series(T["fish"].to_humans.kcals, n),
        feed=_series(T["feed"].kcals, n), biofuel=_series(T["biofuel"].kcals, n),
        maxFeed=_series(T["max_feed_that_could_be_used"].kcals, n) if kind == "to_animals" else z,
        maxBiofuel=_series(T["max_biofuel_that_could_be_used"].kcals, n) if kind == "to_animals" else z,
    )
    for nm, key in (("Sw", "SEAWEED"), ("Scp", "METHANE_SCP"), ("Cs", "CELLULOSIC_SUGAR")):
        for t, tag in (("H", "HUMANS"), ("F", "FEED"), ("B", "BIOFUEL")):
            d["lim" + nm + t] = float(I.get("MAX_%s_AS_PERCENT_KCALS_%s" % (key, tag), 0.0))
    mh = T.get("min_human_food_consumption") if kind == "to_animals" else None
    for nm, food in zip(["minSeaweed", "minCrops", "minStored", "minMeat", "minScp", "minCs"], FOODS6):
        if mh is not None:
            conv = mh[food].in_units_bil_kcals_thou_tons_thou_tons_per_month()
            d[nm] = [float(conv[m].kcals) for m in range(n)]
        else:
            d[nm] = z
    return d


FIELDS = [
    ("nmonths", "n"), ("addSeaweed", "b"), ("addOutdoor", "b"), ("addStored", "b"), ("addMeat", "b"), ("addScp", "b"), ("addCs", "b"),
    ("storeBetweenYears", "b"), ("pop", "f"), ("kcalsMonthly", "f"), ("billionKcalsNeeded", "f"), ("seaweedKcals", "f"),
    ("initialSeaweed", "f"), ("maxDensity", "f"), ("minDensity", "f"), ("harvestLoss", "f"), ("initialBuiltArea", "f"),
    ("wSeaweed", "f"), ("wStored", "f"), ("wMeat", "f"), ("wCrop", "f"), ("wScp", "f"), ("wCs", "f"), ("storedInitial", "f"),
    ("meatSummed", "f"), ("builtArea", "l"), ("growth", "l"), ("cropProd", "l"), ("maxCulled", "l"), ("slaughtered", "l"),
    ("scp", "l"), ("cs", "l"), ("milk", "l"), ("greenhouse", "l"), ("fish", "l"), ("feed", "l"), ("biofuel", "l"),
    ("maxFeed", "l"), ("maxBiofuel", "l"), ("limSwH", "f"), ("limSwF", "f"), ("limSwB", "f"), ("limScpH", "f"), ("limScpF", "f"),
    ("limScpB", "f"), ("limCsH", "f"), ("limCsF", "f"), ("limCsB", "f"), ("minSeaweed", "l"), ("minCrops", "l"),
    ("minStored", "l"), ("minMeat", "l"), ("minScp", "l"), ("minCs", "l")]


def encode_inp(d):
    out = []
    for name, ty in FIELDS:
        v = d[name]
        if ty == "n":
            out.append(str(int(v)))
        elif ty == "b":
            out.append("1" if v else "0")
        elif ty == "f":
            out.append(f2b(v))
        else:
            out.append(fl(v))
    return " ".join(out)


def parse_rows(line):
    """answer of lp.rows / lp.floor -> {name: (coef dict, rel, const)} in the form  Σ coef·x + const  rel  0"""
    rd = Reader(line)
    n = rd.nat()
    rows = {}
    dup = []
    for _ in range(n):
        name = rd.str()
        rel = rd.tok()
        k = rd.nat()
        co = {}
        for _ in range(k):
            v = rd.str()
            c = rd.float()
            co[v] = co.get(v, 0.0) + c
        const = rd.float()
        if name in rows:
            dup.append(name)
        rows[name] = (co, rel, const)
    return rows, dup


def normalise(co, rel, const):
    """to '<=' or '==' form with zero coefficients dropped"""
    co = {v: c for v, c in co.items() if c != 0.0}
    if rel in ("ge", 1):
        return ({v: -c for v, c in co.items()}, "le", -const)
    if rel in ("le", -1):
        return (co, "le", const)
    return (co, "eq", const)


def rows_differ(model_row, pulp_row, rel_tol=1e-9):
    """None if the two rows are the same constraint, else a short description"""
    mc, mr, mk = normalise(*model_row)
    pc, pr, pk = normalise(*pulp_row)
    if mr != pr:
        return "sense %s vs %s" % (mr, pr)
    scale = max([abs(c) for c in list(mc.values()) + list(pc.values())] + [abs(mk), abs(pk), 1e-300])

    def same(a, b):
        return abs(a - b) <= rel_tol * max(abs(a), abs(b)) + 1e-12 * scale
    # an equality may legitimately be written with the opposite sign
    for sign in ((1.0,) if mr == "le" else (1.0, -1.0)):
        ok = set(mc) == set(pc) and all(same(sign * mc[v], pc[v]) for v in mc) and same(sign * mk, pk)
        if ok:
            return None
    if set(mc) != set(pc):
        return "variables differ: only-model=%s only-code=%s" % (sorted(set(mc) - set(pc))[:4], sorted(set(pc) - set(mc))[:4])
    bad = [(v, mc[v], pc[v]) for v in mc if not same(mc[v], pc[v])]
    if bad:
        return "coefficient of %s: model %r code %r" % bad[0]
    return "constant: model %r code %r" % (mk, pk)


def compare_rowsets(model_rows, pulp_rows):
    """list of (row name, what) for every difference, both directions"""
    diffs = []
    for n in pulp_rows:
        if n not in model_rows:
            diffs.append((n, "row built by the code but not by the model"))
    for n in model_rows:
        if n not in pulp_rows:
            diffs.append((n, "row built by the model but not by the code"))
    for n in model_rows:
        if n in pulp_rows:
            d = rows_differ(model_rows[n], pulp_rows[n])
            if d:
                diffs.append((n, d))
    return diffs
