import AllfedModel.Model.Handoff
import AllfedModel.Proofs.Handoff
/-!
# C18 — hand-offs between rounds preserve totals, bounds and priorities

Property theorems only; helper lemmas live in `Proofs/Handoff.lean`.
`K` is any linearly ordered field (so ℚ and ℝ in particular); lists have arbitrary length.
-/
namespace Allfed.C18
open Allfed Allfed.Handoff

variable {K : Type} [Field K] [LinearOrder K] [IsStrictOrderedRing K]

/-! ## minimum human consumption (`calculate_human_consumption_for_min_needs`) -/

/-- each month's minimum consumption adds up to exactly `min(cap, what was eaten)` -/
theorem fillMonth_sum (cap : K) (foods : List K) (hc : 0 ≤ cap) (hf : ∀ f ∈ foods, 0 ≤ f) :
    (fillMonth cap foods).sum = min cap foods.sum :=
  Proofs.fillMonth_sum cap foods hc hf

/-- … never exceeds, food by food, what people ate in the no-feed round -/
theorem fillMonth_le (cap : K) (foods : List K) (hc : 0 ≤ cap) (hf : ∀ f ∈ foods, 0 ≤ f) :
    List.Forall₂ (· ≤ ·) (fillMonth cap foods) foods :=
  Proofs.fillMonth_le cap foods hc hf

theorem fillMonth_nonneg (cap : K) (foods : List K) (hc : 0 ≤ cap) (hf : ∀ f ∈ foods, 0 ≤ f) :
    ∀ c ∈ fillMonth cap foods, 0 ≤ c :=
  Proofs.fillMonth_nonneg cap foods hc hf

/-- priority order: a later food is drawn on only if every earlier food is used in full -/
theorem fillMonth_priority (cap : K) (foods : List K) (hc : 0 ≤ cap) (hf : ∀ f ∈ foods, 0 ≤ f)
    (i j : Nat) (hij : i < j) (hj : j < foods.length) (hpos : 0 < (fillMonth cap foods).getD j 0) :
    (fillMonth cap foods).getD i 0 = foods.getD i 0 :=
  Proofs.fillMonth_priority cap foods hc hf i j hij hj hpos

/-- the ceiling is `KCALS_DAILY · min(p1, T) / 100` -/
theorem dailyMax_eq_min (kd p1 T : K) : dailyMax kd p1 T = kd * (min p1 T / 100) :=
  Proofs.dailyMax_eq_min kd p1 T

/-- with `p1` the worst month of round 1 (so every month ate at least `p1`), every month of the
    hand-off adds up to exactly `KCALS_DAILY · min(p1, T)/100` -/
theorem minNeeds_month_sum_eq_cap (kd p1 T : K) (months : List (List K)) (hkd : 0 ≤ kd) (hp : 0 ≤ p1) (hT : 0 ≤ T)
    (hf : ∀ row ∈ months, ∀ f ∈ row, 0 ≤ f)
    (hworst : ∀ row ∈ months, kd * (p1 / 100) ≤ row.sum) :
    ∀ out ∈ minNeeds (dailyMax kd p1 T) months, out.sum = kd * (min p1 T / 100) :=
  Proofs.minNeeds_month_sum_eq_cap kd p1 T months hkd hp hT hf hworst

/-! ## re-timing of meat (`fill_negatives_with_positives`, `get_second_round_kcals_with_redistributed_meat`) -/

theorem fillNeg_length (arr : List K) : (fillNeg arr).length = arr.length :=
  Proofs.fillNeg_length arr

theorem fillNeg_sum (arr : List K) : (fillNeg arr).sum = arr.sum :=
  Proofs.fillNeg_sum arr

/-- if the total is non-negative, the back-fill leaves no negative month -/
theorem fillNeg_nonneg (arr : List K) (h : 0 ≤ arr.sum) : ∀ x ∈ fillNeg arr, 0 ≤ x :=
  Proofs.fillNeg_nonneg arr h

/-- the documented `None`: exactly when round 1 has more meat in total -/
theorem redistribute_none_iff (r1 r2 : List K) : redistribute r1 r2 = none ↔ r2.sum < r1.sum :=
  Proofs.redistribute_none_iff r1 r2

theorem redistribute_total (r1 r2 out : List K) (hl : r1.length = r2.length)
    (h : redistribute r1 r2 = some out) : out.sum = r2.sum :=
  Proofs.redistribute_total r1 r2 out hl h

/-- every month at or above the no-feed level -/
theorem redistribute_ge_round1 (r1 r2 out : List K) (hl : r1.length = r2.length)
    (h : redistribute r1 r2 = some out) : List.Forall₂ (· ≤ ·) r1 out :=
  Proofs.redistribute_ge_round1 r1 r2 out hl h

theorem redistribute_nonneg (r1 r2 out : List K) (hl : r1.length = r2.length) (h1 : ∀ x ∈ r1, 0 ≤ x)
    (h : redistribute r1 r2 = some out) : ∀ x ∈ out, 0 ≤ x :=
  Proofs.redistribute_nonneg r1 r2 out hl h1 h

/-! ## final feed/biofuel adjustment (`increase_biofuels_then_feed`, after the `fix:` commit for D13) -/

/-- never lowers either quantity — for *arbitrary* inputs -/
theorem bump_never_lowers (b f inc mb mf av : K) :
    b ≤ (bump1 b f inc mb mf av).1 ∧ f ≤ (bump1 b f inc mb mf av).2 :=
  Proofs.bump_never_lowers b f inc mb mf av

/-- never raises one above its ceiling — for *arbitrary* inputs: biofuel is either unchanged or
    ends at most at its ceiling; feed ends at most `1e-9` (the code's own regulariser, i.e. one
    kilocalorie) above the larger of its input value and its ceiling.

    STATEMENT CORRECTED.  The first draft had `(bump1 …).2 = f ∨ (bump1 …).2 ≤ mf + 1e-9` for feed.
    That is false: when feed has no head-room (`f ≥ mf`, so its potential increase is clamped to 0)
    but biofuel has some, the proportional split still hands feed the share
    `allowed · 1e-9 / (pb + 1e-9) > 0`.  Witness (checked below): `b = 2, f = 10, inc = 1, mb = 3,
    mf = 5, av = 100` gives feed `10 + 1e-9/(1 + 1e-9)`, which is neither `= 10` nor `≤ 5 + 1e-9`.
    The leak is always `< 1e-9`, hence `≤ f + 1e-9` in place of `= f`. -/
theorem bump_within_ceiling (b f inc mb mf av : K) :
    ((bump1 b f inc mb mf av).1 = b ∨ (bump1 b f inc mb mf av).1 ≤ mb) ∧
    ((bump1 b f inc mb mf av).2 ≤ f + 1e-9 ∨ (bump1 b f inc mb mf av).2 ≤ mf + 1e-9) :=
  Proofs.bump_within_ceiling b f inc mb mf av

/-- the counter-example to the first draft of `bump_within_ceiling` (feed conjunct) -/
theorem bump_feed_leak_witness :
    ¬ ((bump1 (2 : ℚ) 10 1 3 5 100).2 = 10 ∨ (bump1 (2 : ℚ) 10 1 3 5 100).2 ≤ 5 + 1e-9) := by
  decide +kernel

/-- the form of the design document: inputs at or below their ceilings stay there (feed: `+1e-9`) -/
theorem bump_within_ceiling_of_le (b f inc mb mf av : K) :
    (b ≤ mb → (bump1 b f inc mb mf av).1 ≤ mb) ∧
    (f ≤ mf → (bump1 b f inc mb mf av).2 ≤ mf + 1e-9) :=
  Proofs.bump_within_ceiling_of_le b f inc mb mf av

/-- the helper as it was before the `fix:` commit (no clamp of the potential increases) -/
def bump1_unfixed (biofuel feed increase maxB maxF avail : K) : K × K :=
  let pb := min (biofuel + increase) maxB - biofuel
  let pf := min (feed + increase) maxF - feed
  let tot := pb + pf
  let allowed := if tot + biofuel + feed ≤ avail then tot else avail - biofuel - feed
  let prop := pb / (tot + 1e-9)
  let ab := allowed * prop
  let af := allowed - ab
  (biofuel + max 0 ab, feed + max 0 af)

/-- D13 (fixed): the unclamped helper raised biofuel above its ceiling (2 → 4 with ceiling 3)
    when feed was already above its own ceiling; witness kept so a regression is recognisable.

    STATEMENT CORRECTED.  The first draft used `feed = 6 + 1e-9`.  In exact arithmetic that makes
    `tot + 1e-9 = 0` exactly, and since `x / 0 = 0` in Lean the first component is exactly `2`
    (checked below), so `3 < …` was false over ℚ; the floating-point overshoot on that input is a
    rounding artefact of the same division by ≈ 0.  With `feed = 6 + 2e-9` the divisor is `-1e-9`,
    `prop = -10⁹`, `allowed = -2e-9`, so biofuel receives `+2` and ends at `4 > 3`.
    (Proved here rather than in `Proofs/Handoff.lean` because `bump1_unfixed` is defined here.) -/
theorem bump_above_ceiling_counterexample :
    (3 : ℚ) < (bump1_unfixed (2 : ℚ) (6 + 2e-9) 1 3 5 100).1 := by
  decide +kernel

/-- the first-draft witness: exact arithmetic divides by exactly 0 and biofuel stays at 2 -/
example : (bump1_unfixed (2 : ℚ) (6 + 1e-9) 1 3 5 100).1 = 2 := by decide +kernel

/-! ## non-vacuity -/
example : fillMonth (10 : ℚ) [4, 7, 5] = [4, 6, 0] := by decide +kernel
example : fillNeg ([-3, 1, -1, 5] : List ℚ) = [0, 1, 0, 1] := by decide +kernel
example : redistribute ([3, 1, 0] : List ℚ) [1, 1, 4] = some [3, 1, 2] := by decide +kernel

/-! ## the third round's "potential increase" and the whole final adjustment

`Handoff.thirdRoundIncrease u const m1 m3` is the rule of thumb of `compute_parameters_third_round`:
per month half of the extra meat of round 3 over round 1 (billion kcals), converted to kcals per
person per day (`u`), minus `const` (`Handoff.nzlConst`: 100 for New Zealand, 20 otherwise),
negatives clipped to zero, converted back.  `Handoff.bumpAll` is `increase_biofuels_then_feed` on
the monthly arrays. -/

theorem increase_length (u c : K) (m1 m3 : List K) :
    (thirdRoundIncrease u c m1 m3).length = min m1.length m3.length :=
  Proofs.increase_length u c m1 m3

theorem increase_nonneg (u c : K) (m1 m3 : List K) (hu : 0 < u) :
    ∀ e ∈ thirdRoundIncrease u c m1 m3, 0 ≤ e :=
  Proofs.increase_nonneg u c m1 m3 hu

/-- never more than half of the extra meat (and nothing where there is no extra meat) -/
theorem increase_le_half_extra (u c : K) (m1 m3 : List K) (hu : 0 < u) (hc : 0 ≤ c) (k : Nat) :
    (thirdRoundIncrease u c m1 m3).getD k 0 ≤ max 0 ((m3.getD k 0 - m1.getD k 0) / 2) :=
  Proofs.increase_le_half_extra u c m1 m3 hu hc k

/-- clipped to zero exactly where half of the extra meat is worth at most `const` kcals per person
    per day -/
theorem increase_zero_iff (u c : K) (m1 m3 : List K) (hu : 0 < u) (k : Nat)
    (hk : k < (thirdRoundIncrease u c m1 m3).length) :
    (thirdRoundIncrease u c m1 m3).getD k 0 = 0 ↔ (m3.getD k 0 - m1.getD k 0) / 2 * u ≤ c :=
  Proofs.increase_zero_iff u c m1 m3 hu k hk

/-- the closed form of one month -/
theorem increase1_eq (u c a b : K) (hu : 0 < u) :
    increase1 u c a b = max 0 (u * ((b - a) / 2) - c) / u :=
  Proofs.increase1_eq u c a b hu

/-- the whole pipeline of the final adjustment, for all list lengths and all inputs: no month's
    biofuel or feed is lowered; biofuel ends at most at the larger of its input and its demand,
    feed at most `1e-9` above the larger of its input and its demand -/
theorem final_charge_never_lowers_and_within_demand (u c : K) (m1 m3 b f mb mf av : List K) (k : Nat)
    (hk : k < (bumpAll b f (thirdRoundIncrease u c m1 m3) mb mf av).length) :
    b.getD k 0 ≤ ((bumpAll b f (thirdRoundIncrease u c m1 m3) mb mf av).getD k (0, 0)).1 ∧
    f.getD k 0 ≤ ((bumpAll b f (thirdRoundIncrease u c m1 m3) mb mf av).getD k (0, 0)).2 ∧
    ((bumpAll b f (thirdRoundIncrease u c m1 m3) mb mf av).getD k (0, 0)).1
      ≤ max (b.getD k 0) (mb.getD k 0) ∧
    ((bumpAll b f (thirdRoundIncrease u c m1 m3) mb mf av).getD k (0, 0)).2
      ≤ max (f.getD k 0) (mf.getD k 0) + 1e-9 :=
  Proofs.final_charge_never_lowers_and_within_demand u c m1 m3 b f mb mf av k hk

/-- non-vacuity: a month where the increase is positive (extra meat 100 → 40) and one where it is
    clipped (extra meat 10 → 0), and the pipeline on them -/
example : thirdRoundIncrease (2 : ℚ) 20 [0, 0] [100, 10] = [40, 0] ∧
    (bumpAll [1, 1] [5, 5] (thirdRoundIncrease (2 : ℚ) 20 [0, 0] [100, 10]) [3, 3] [6, 6] [100, 100]).length = 2 ∧
    (nzlConst "NZL" : ℚ) = 100 ∧ (nzlConst "ARG" : ℚ) = 20 := by
  refine ⟨by decide +kernel, by decide +kernel, ?_, ?_⟩
  · norm_num [nzlConst]
  · have h : ¬ ("ARG" = "NZL") := by decide
    norm_num [nzlConst, h]

end Allfed.C18
