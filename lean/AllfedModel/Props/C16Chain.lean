import AllfedModel.Model.AllocSpec
import AllfedModel.Model.Certificate
import AllfedModel.Model.Handoff
import AllfedModel.Proofs.Round2
/-!
# C16, the chain C18 → C16: after the hand-off the feed-maximising round is feasible

`Handoff.minNeeds` (the model of `calculate_human_consumption_for_min_needs`, property C18) turns
the monthly human consumption of round 1 — nine foods in priority order: fish, meat, dairy,
greenhouse, outdoor crops, stored food, SCP, cellulosic sugar, seaweed — into the minimum
consumption of round 2.  C18 proves, on lists, that every entry of the result lies between 0 and
the corresponding entry of the input.  Here this is carried over to the `at'`/`getD` shape of the
LP inputs and combined with `C16.round2_feasible_of_round1`.

Units: the hand-off works in kcals per person per day, the LP in billion kcals (seaweed in tonnes,
times `seaweedKcals`).  The conversion is one positive factor `u`; that the six series `i.min…`
are (times `u`) the components of the hand-off's result is the hypothesis `MinsFromHandoff`
(`Model/AllocSpec.lean`), which the harness can check per instance — it is how the pipeline
builds the inputs of round 2.
-/
namespace Allfed.C16
open Allfed.LP Allfed.AllocLP Allfed.Certificate Allfed.AllocSpec Allfed.Handoff

variable {K : Type} [Field K] [LinearOrder K] [IsStrictOrderedRing K]

/-- the `List`/`Forall₂` → `getD` bridge -/
theorem getD_le_of_forall₂ {a b : List K} (h : List.Forall₂ (· ≤ ·) a b) (k : Nat) :
    a.getD k 0 ≤ b.getD k 0 :=
  Proofs.Round2.getD_le_of_forall₂ h k

/-- every entry of the hand-off's result is between 0 and the entry of round 1 it came from
    (ceiling `cap ≥ 0`, non-negative consumption) -/
theorem handoffEntry_bounds (i : Inp K) (x : Var → K) (u cap : K) (m k : Nat) (hm : m < i.nmonths)
    (hcap : 0 ≤ cap) (hrow : ∀ f ∈ humanRow i x u m, 0 ≤ f) :
    0 ≤ handoffEntry i x u cap m k ∧ handoffEntry i x u cap m k ≤ (humanRow i x u m).getD k 0 :=
  Proofs.Round2.handoffEntry_bounds i x u cap m k hm hcap hrow

/-- the minimum-consumption series the hand-off produces satisfy `PinsWithin` -/
theorem pinsWithin_of_handoff (i : Inp K) (x₁ : Var → K) (u cap : K) (hu : 0 < u) (hcap : 0 ≤ cap)
    (hx : ∀ v, 0 ≤ x₁ v) (hkc : 0 ≤ i.seaweedKcals)
    (hconst : ∀ m, m < i.nmonths → 0 ≤ at' i.fish m ∧ 0 ≤ at' i.milk m ∧ 0 ≤ at' i.greenhouse m)
    (hmins : MinsFromHandoff i x₁ u cap) : PinsWithin i x₁ :=
  Proofs.Round2.pinsWithin_of_handoff i x₁ u cap hu hcap hx hkc hconst hmins

/-- if `x₁` is feasible for the human-maximising LP and the six minimum-consumption series of `i`
    are what `Handoff.minNeeds` returns for the monthly human consumption of `x₁` (ceiling
    `cap ≥ 0`, conversion factor `u > 0`), then — with well-formed inputs, non-negative fish, milk
    and greenhouse output and non-negative feed and biofuel ceilings — the feed-maximising LP has a
    feasible point -/
theorem round2_feasible_after_handoff (i : Inp K) (x₁ : Var → K) (u cap : K) (hu : 0 < u)
    (hcap : 0 ≤ cap) (hw : WellFormed i)
    (hceil : anyFeedVar i = true → ∀ m, m < i.nmonths → 0 ≤ at' i.maxFeed m ∧ 0 ≤ at' i.maxBiofuel m)
    (hconst : ∀ m, m < i.nmonths → 0 ≤ at' i.fish m ∧ 0 ≤ at' i.milk m ∧ 0 ≤ at' i.greenhouse m)
    (h₁ : Feasible (buildLP i .toHumans) x₁) (hmins : MinsFromHandoff i x₁ u cap) :
    ∃ x, Feasible (buildLP i .toAnimals) x :=
  Proofs.Round2.round2_feasible_after_handoff i x₁ u cap hu hcap hw hceil hconst h₁ hmins

/-- … in particular for the ceiling the code computes, `dailyMax KCALS_DAILY p₁ T` with a
    non-negative threshold `T`, daily requirement and round-1 percentage `p₁` -/
theorem round2_feasible_after_handoff_dailyMax (i : Inp K) (x₁ : Var → K) (u kd p1 T : K)
    (hu : 0 < u) (hkd : 0 ≤ kd) (hp : 0 ≤ p1) (hT : 0 ≤ T) (hw : WellFormed i)
    (hceil : anyFeedVar i = true → ∀ m, m < i.nmonths → 0 ≤ at' i.maxFeed m ∧ 0 ≤ at' i.maxBiofuel m)
    (hconst : ∀ m, m < i.nmonths → 0 ≤ at' i.fish m ∧ 0 ≤ at' i.milk m ∧ 0 ≤ at' i.greenhouse m)
    (h₁ : Feasible (buildLP i .toHumans) x₁)
    (hmins : MinsFromHandoff i x₁ u (dailyMax kd p1 T)) :
    ∃ x, Feasible (buildLP i .toAnimals) x :=
  round2_feasible_after_handoff i x₁ u _ hu (Proofs.Round2.dailyMax_nonneg kd p1 T hkd hp hT)
    hw hceil hconst h₁ hmins

/-- non-vacuity: for the seaweed instance of `round2_seaweed_pin_infeasible_before_fix`, with the
    ceiling 1/2 and unit 1, the hand-off of its round-1 point returns exactly the instance's
    minimum-consumption series -/
example : MinsFromHandoff Proofs.Round2.swInst Proofs.Round2.swX 1 (1 / 2) where
  meat := fun h => absurd h (by decide)
  crops := fun h => absurd h (by decide)
  stored := fun h => absurd h (by decide)
  scp := fun h => absurd h (by decide)
  cs := fun h => absurd h (by decide)
  seaweed := by
    intro _ m hm
    have hm' : m < 2 := hm
    obtain rfl | rfl : m = 0 ∨ m = 1 := by omega
    · decide +kernel
    · decide +kernel

end Allfed.C16
