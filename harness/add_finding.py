#!/usr/bin/env python3
"""add or update an entry of /verif/known_findings.json under a lock (never called by a check run).
usage: add_finding.py '<json object with property,status(open|fixed),key,site,what[,commit,witness]>'"""
import fcntl, json, os, sys
ROOT = os.path.dirname(os.path.dirname(os.path.abspath(__file__)))
p = os.path.join(ROOT, "known_findings.json")
e = json.loads(sys.argv[1])
for k in ("property", "status", "key", "site", "what"):
    assert k in e, "missing " + k
with open(p + ".lock", "w") as lk:
    fcntl.flock(lk, fcntl.LOCK_EX)
    data = json.load(open(p)) if os.path.exists(p) else []
    data = [d for d in data if not (d["property"] == e["property"] and d["key"] == e["key"])]
    data.append(e)
    data.sort(key=lambda d: (d["property"], d["key"]))
    json.dump(data, open(p, "w"), indent=1)
print("ok", len(data))
