import AllfedModel.Model.RunState
/-!
# C14 — a run's result depends only on its own inputs

What is proved: if every run begins by writing its own settings into the process-wide cell
(`Food.conversions`) — which the check verifies on the event trace of every real run — then what a
run reads from that cell is the same after **any** history of other runs, in any order, as when
it is executed alone in a fresh process.  State other than this cell (module tables, PuLP name
counters, CBC temp files) is outside the model: it is covered only by the bit-for-bit
differential runs of the check, so the property is labelled *partial*.
-/
namespace Allfed.C14
open Allfed.RunState

variable {σ : Type}

/-- a run that starts with a write observes the same values whatever the global state was -/
theorem write_before_read (g g' : Option σ) (s : σ) (evs : List (Ev σ)) :
    (exec g (.write s :: evs)).2 = (exec g' (.write s :: evs)).2 := by
  simp [exec]

theorem exec_independent (g g' : Option σ) (r : List (Ev σ)) (h : startsWithWrite r = true) :
    (exec g r).2 = (exec g' r).2 := by
  cases r with
  | nil => simp [startsWithWrite] at h
  | cons e t =>
    cases e with
    | write s => exact write_before_read g g' s t
    | read => simp [startsWithWrite] at h

/-- observations of the run at position `k` of a history -/
def obsAt (g : Option σ) (h : List (List (Ev σ))) (k : Nat) : Option (List (Option σ)) := (execHistory g h)[k]?

/-- every run of a history of well-shaped runs observes exactly what it observes alone in a fresh
    process (`none` global state), whatever ran before it and whatever runs after it -/
theorem history_independent (g : Option σ) (before after : List (List (Ev σ))) (r : List (Ev σ))
    (h : startsWithWrite r = true) :
    obsAt g (before ++ r :: after) before.length = some (exec none r).2 := by
  induction before generalizing g with
  | nil => simp [obsAt, execHistory, exec_independent g none r h]
  | cons b bs ih =>
    simp only [List.cons_append, List.length_cons, obsAt, execHistory]
    simpa [obsAt] using ih (exec g b).1

/-- … in particular the order of the other runs does not matter -/
theorem order_independent (g g' : Option σ) (b1 a1 b2 a2 : List (List (Ev σ))) (r : List (Ev σ))
    (h : startsWithWrite r = true) :
    obsAt g (b1 ++ r :: a1) b1.length = obsAt g' (b2 ++ r :: a2) b2.length := by
  rw [history_independent g b1 a1 r h, history_independent g' b2 a2 r h]

/-- the hypothesis is needed: a run that reads first sees the previous run's settings -/
theorem read_before_write_counterexample :
    (exec (some 1) ([.read, .write 2] : List (Ev Nat))).2 ≠ (exec none ([.read, .write 2] : List (Ev Nat))).2 := by
  decide

example : obsAt (none : Option Nat) ([[.write 1, .read], [.write 2, .read, .read]]) 1 = some [some 2, some 2] := by
  decide

end Allfed.C14
