import AllfedModel.Model.AllocLP
import AllfedModel.Model.Certificate
import AllfedModel.Proofs.Completion
import AllfedModel.Model.AllocSpec
import AllfedModel.Proofs.Round2
/-!
# C16 — every country completes under every documented preset

The property itself is decided by executing the grid (harness/props/c16.py).  What a theorem can
add: the LP of a round that charges no feed and no biofuel (round 1, and round 3 when round 2 was
skipped or found nothing) always has a feasible point and a bounded objective when no seaweed is
farmed, for every well-formed input — so a failure of such a round can only be numerical.
With seaweed the statement is false in general (biomass that may neither be harvested beyond the
human intake cap nor exceed the density ceiling), which is why it is excluded here.
-/
namespace Allfed.C16
open Allfed.LP Allfed.AllocLP Allfed.Certificate Allfed.AllocSpec

variable {K : Type} [Field K] [LinearOrder K] [IsStrictOrderedRing K]

/-- inputs of a zero-charge human round as the pipeline produces them -/
structure ZeroChargeInput (i : Inp K) : Prop where
  months : 2 ≤ i.nmonths
  noSeaweed : i.addSeaweed = false
  wf : WellFormed i
  need : 0 < i.billionKcalsNeeded
  feed0 : ∀ m, at' i.feed m = 0
  biofuel0 : ∀ m, at' i.biofuel m = 0
  supplies : (∀ m, 0 ≤ at' i.milk m) ∧ (∀ m, 0 ≤ at' i.greenhouse m) ∧ (∀ m, 0 ≤ at' i.fish m) ∧
             (∀ m, 0 ≤ at' i.scp m) ∧ (∀ m, 0 ≤ at' i.cs m) ∧ (∀ m, 0 ≤ at' i.slaughtered m) ∧
             (∀ m, 0 ≤ at' i.maxCulled m) ∧ 0 ≤ i.meatSummed
  /-- only the human intake limits matter: the feed and biofuel caps `lim·charge` are `lim·0`
      whatever the sign of the limit (the four `…F/…B` conjuncts of the first version were
      superfluous and have been dropped) -/
  limits : 0 ≤ i.limScpH ∧ 0 ≤ i.limCsH
  population : 0 ≤ i.pop ∧ 0 ≤ i.kcalsMonthly

/-- feasibility: eat the stock in month 0 and every harvest in the month it appears
    (`months` is not needed for this half; `WellFormed` is used for `wStored, wCrop < 100`,
    `0 ≤ storedInitial`, `0 ≤ cropProd m` on the horizon) -/
theorem zero_charge_feasible_no_seaweed (i : Inp K) (h : ZeroChargeInput i) :
    ∃ x, Feasible (buildLP i .toHumans) x :=
  Proofs.Completion.zero_charge_feasible_no_seaweed i h.noSeaweed h.wf h.need h.feed0 h.biofuel0
    h.supplies h.limits h.population

/-- boundedness: the objective never exceeds month 0's supply relative to need -/
theorem objective_bounded (i : Inp K) (h : ZeroChargeInput i) (x : Var → K) (hx : Feasible (buildLP i .toHumans) x) :
    x .objective ≤
      (i.storedInitial + at' i.cropProd 0 + at' i.milk 0 + (if i.storeBetweenYears then i.meatSummed else at' i.slaughtered 0)
        + at' i.cs 0 + at' i.scp 0 + at' i.greenhouse 0 + at' i.fish 0) / i.billionKcalsNeeded * 100 :=
  Proofs.Completion.objective_bounded i h.months h.noSeaweed h.wf h.need h.supplies x hx

/-! ## the feed-maximising round after a human-maximising round

Round 2 pins what people eat of every food to the result of round 1.  For seaweed an *upper* pin
can make the LP infeasible: seaweed that has grown must be harvested (equality ledger, density
ceiling, no disposal) and the feed/biofuel share caps may absorb nothing.  Since the repair the row
`Seaweed_Max_Requirement` is no longer added (`buildLP` pins seaweed from below only;
`buildLPBeforeSeaweedFix` is the former programme). -/

/-- before the fix: a well-formed two-month instance (1 t of seaweed on 1 km² at the density
    ceiling, doubling in month 1, no feed or biofuel allowed), a feasible point of its
    human-maximising round, minimum consumption between 0 and what that point ate — every
    hypothesis of `round2_feasible_of_round1` — for which the former feed-maximising LP has NO
    feasible point, while today's has one -/
theorem round2_seaweed_pin_infeasible_before_fix :
    ∃ (i : Inp ℚ) (x₁ : Var → ℚ), WellFormed i ∧
      (anyFeedVar i = true → ∀ m, m < i.nmonths → 0 ≤ at' i.maxFeed m ∧ 0 ≤ at' i.maxBiofuel m) ∧
      Feasible (buildLP i .toHumans) x₁ ∧ PinsWithin i x₁ ∧
      (∀ x, ¬ Feasible (buildLPBeforeSeaweedFix i .toAnimals) x) ∧
      ∃ x, Feasible (buildLP i .toAnimals) x :=
  Proofs.Round2.round2_seaweed_pin_infeasible_before_fix

/-- today's formulation: if `x₁` is feasible for the human-maximising LP (any charge) and the
    minimum-consumption series lie between 0 and what `x₁` gives people of each of the six pinned
    foods (`PinsWithin`: months of the horizon, resources that are on, seaweed in kcals), the inputs
    are well-formed and the feed and biofuel ceilings are non-negative, then the feed-maximising LP
    has a feasible point (people get exactly the minimum of every food but seaweed, the seaweed
    farm runs as in `x₁` with the whole harvest going to people, nothing is fed or burnt; the stock
    variables follow from their ledgers) -/
theorem round2_feasible_of_round1 (i : Inp K) (x₁ : Var → K) (hw : WellFormed i)
    (hceil : anyFeedVar i = true → ∀ m, m < i.nmonths → 0 ≤ at' i.maxFeed m ∧ 0 ≤ at' i.maxBiofuel m)
    (h₁ : Feasible (buildLP i .toHumans) x₁) (hp : PinsWithin i x₁) :
    ∃ x, Feasible (buildLP i .toAnimals) x :=
  Proofs.Round2.round2_feasible_of_round1 i x₁ hw hceil h₁ hp

/-- non-vacuity: the instance of the counter-example satisfies every hypothesis -/
example : ∃ (i : Inp ℚ) (x₁ : Var → ℚ), WellFormed i ∧
    (anyFeedVar i = true → ∀ m, m < i.nmonths → 0 ≤ at' i.maxFeed m ∧ 0 ≤ at' i.maxBiofuel m) ∧
    Feasible (buildLP i .toHumans) x₁ ∧ PinsWithin i x₁ ∧ i.addSeaweed = true :=
  ⟨Proofs.Round2.swInst, Proofs.Round2.swX, Proofs.Round2.swInst_wellFormed,
    Proofs.Round2.swInst_ceilings, Proofs.Round2.swX_feasible, Proofs.Round2.swInst_pins, rfl⟩

end Allfed.C16
