import AllfedModel.Num.Basic
/-
Model of the percentage-averaging helper of `src/utilities/import_utilities.py` (property C17):
  * `ImportUtilities.weighted_average_percentages(percentages, weights)` -> `weightedAverage`
  * `ImportUtilities.average_percentages(percentages)`                   -> `averagePercentages`
Written the way the code is written (same tests in the same order, same accumulators), generic in
the number type.  Every `assert` of the code is an explicit `Except` error, never a silent default.

What the code treats as an impossible ("non-possible") percentage: `percentage > 1e5 or percentage < -100`
— so exactly -100 and exactly 1e5 are valid.  The result is `mean_value / (1 - rejected_weight)`;
the weight of the valid entries is only used for a 1e-4 consistency assertion.  The sentinel 9.37e36
is returned when no entry is valid, when `1 - rejected_weight == 0` or when the valid weight is 0.
-/
namespace Allfed.ImportAvg
open Allfed

inductive AvgErr where
  | lengthMismatch   -- `assert len(percentages) == len(weights)`
  | weightSum        -- `assert sum(weights) <= 1.00001 and sum(weights) > 0.99999`
  | weightRange      -- `assert 0 <= weight <= 1`
  | renormCheck      -- `assert non_rejected/renormalization >= 0.9999 and … <= 1.0001`
  | empty            -- `1 / array_length` with an empty list (ZeroDivisionError) in `average_percentages`
  | evenSum          -- `assert round(sum(even_weightings), 8) == 1`
  deriving DecidableEq, Repr

section
variable {α : Type} [Add α] [Sub α] [Mul α] [Div α] [Neg α] [LE α] [LT α]
  [DecidableLE α] [DecidableLT α] [OfNat α 0] [OfNat α 1] [OfScientific α]

/-- the value that denotes "nothing" -/
def sentinel : α := 9.37e36

/-- `percentage > 1e5 or percentage < -100` -/
def impossible (p : α) : Bool := decide ((1e5 : α) < p) || decide (p < -(100.0 : α))

/-- the accumulators `(N_valid_percentages, mean_value, rejected_weighting_sum, non_rejected_weighting_sum)` -/
structure Acc (α : Type) where
  nValid : Nat
  mean : α
  rejected : α
  nonRejected : α

/-- the `for i in range(0, len(percentages))` loop -/
def loop : List α → List α → Acc α → Except AvgErr (Acc α)
  | p :: ps, w :: ws, a =>
    if ¬ (0 ≤ w ∧ w ≤ 1) then .error .weightRange
    else if impossible p then loop ps ws { a with rejected := a.rejected + w }
    else loop ps ws { a with nValid := a.nValid + 1, mean := a.mean + p * w, nonRejected := a.nonRejected + w }
  | _, _, a => .ok a

/-- what follows the loop -/
def finish (a : Acc α) : Except AvgErr α :=
  if a.nValid = 0 then .ok sentinel
  else
    let renorm : α := 1 - a.rejected
    -- `renormalization == 0 or non_rejected_weighting_sum == 0` (second test added by the `fix:` commit for C17:
    -- in floating point the rejected weights may add up to 1 only approximately)
    if (renorm ≤ 0 ∧ 0 ≤ renorm) ∨ (a.nonRejected ≤ 0 ∧ 0 ≤ a.nonRejected) then .ok sentinel
    else if ¬ ((0.9999 : α) ≤ a.nonRejected / renorm ∧ a.nonRejected / renorm ≤ (1.0001 : α)) then .error .renormCheck
    else .ok (a.mean / renorm)

/-- `ImportUtilities.weighted_average_percentages` -/
def weightedAverage (ps ws : List α) : Except AvgErr α :=
  if ps.length ≠ ws.length then .error .lengthMismatch
  else if ¬ (lsum ws ≤ (1.00001 : α) ∧ (0.99999 : α) < lsum ws) then .error .weightSum
  else match loop ps ws { nValid := 0, mean := 0, rejected := 0, nonRejected := 0 } with
    | .error e => .error e
    | .ok a => finish a

/-- `ImportUtilities.average_percentages`: even weights `[1 / n] * n`
    (`round(sum, 8) == 1` is modelled as `0.999999995 ≤ sum ≤ 1.000000005`) -/
def averagePercentages [NatCast α] (ps : List α) : Except AvgErr α :=
  if ps.length = 0 then .error .empty
  else
    let even : List α := List.replicate ps.length (1 / (ps.length : α))
    if ¬ ((0.999999995 : α) ≤ lsum even ∧ lsum even ≤ (1.000000005 : α)) then .error .evenSum
    else weightedAverage ps even

/-! ### the specification side: sums over the entries the code treats as valid -/

/-- the `(percentage, weight)` pairs whose percentage is not impossible -/
def validPairs (ps ws : List α) : List (α × α) := (ps.zip ws).filter (fun x => !impossible x.1)

end
end Allfed.ImportAvg
