/-
Specification of the combined country table `data/no_food_trade/computer_readable_combined.csv`
(property C17) and an exact-decimal checker for one row.  No Mathlib import; integers only, so the
per-row `decide +kernel` theorems of `Gen/CountryTable.lean` are cheap.

A numeric cell is an exact decimal `(m, e)` standing for `m · 10^e` (parsed from the CSV text by
`harness/translators/tr_country.py`, never through a float).

Column groups (where each range comes from):
  * `pop`        population: `10 000 < v < 10^10`                      (`verify_country_data`)
  * `qty`        quantities `0 ≤ v`: production, head counts, feed, biofuel, crops, stocks, pulp, crop
                 area, yields, aquaculture, baseline grass            (`verify_country_data`; `aq_*` read as annual tonnes)
  * `frac`       fractions `0 ≤ v ≤ 1`: distribution losses, retail waste (`verify_country_data`), the shares
                 asserted in `Scenarios.init_country_food_system_properties` (`percent_of_global_*`,
                 `*_area_fraction`, `initial_*_fraction`), `fraction_crop_area`, and the relocation exponent
                 `power_law_improvement` (C09 needs `0 < e ≤ 1`)
  * `season`     the twelve seasonality shares: each in `[0, 1]`, together within `1e-6` of 1
  * `grassReduc` `grasses_reduction_year*`: `-1 ≤ v`                   (`verify_country_data`, exact)
  * `cropReduc`  `crop_reduction_year*`: `-1 - 1e-8 ≤ v` — the tolerance `verify_country_data` itself applies
                 before clamping to -1: the shipped table holds 36 cells equal to `-1.0000000000000002`, one
                 unit in the last place below -1, produced by the floating-point mean of several `-100 %`
                 entries in `weighted_average_percentages` (see `Props/C17.lean`, `C17_crop_reduction_ulp_witness`)
  * `growth`     `seaweed_growth_per_day_*`, a daily change in percent: `-100 ≤ v` (`Seaweed.get_growth_rates`
                 uses `(v/100 + 1)^30` as a mass multiplier; a change below -100 % has no meaning)
  * `free`       no range derivable from code or docs, only "present and a finite decimal" is enforced (by the
                 translator): `capex_dollar` and `include_greenhouse` (never read by the model)
-/
namespace Allfed.CountryTable

/-- exact decimal `m · 10^e` -/
abbrev Dec := Int × Int

/-- both mantissas scaled to the smaller of the two exponents -/
def Dec.scale (a b : Dec) : Int × Int :=
  let e := min a.2 b.2
  (a.1 * 10 ^ (a.2 - e).toNat, b.1 * 10 ^ (b.2 - e).toNat)

def Dec.le (a b : Dec) : Bool := decide ((Dec.scale a b).1 ≤ (Dec.scale a b).2)
def Dec.lt (a b : Dec) : Bool := decide ((Dec.scale a b).1 < (Dec.scale a b).2)
def Dec.add (a b : Dec) : Dec := ((Dec.scale a b).1 + (Dec.scale a b).2, min a.2 b.2)
def Dec.sum (l : List Dec) : Dec := l.foldr Dec.add (0, 0)

/-- constructors used by the generated table: `pn 123 4` = `123 · 10^-4`, `np 5 0` = `-5`, … -/
def pp (m e : Nat) : Dec := (Int.ofNat m, Int.ofNat e)
def pn (m e : Nat) : Dec := (Int.ofNat m, -Int.ofNat e)
def np (m e : Nat) : Dec := (-Int.ofNat m, Int.ofNat e)
def nn (m e : Nat) : Dec := (-Int.ofNat m, -Int.ofNat e)

inductive Kind where
  | pop | qty | frac | season | cropReduc | grassReduc | growth | free
  deriving DecidableEq, Repr

/-- one row: the two text columns and the numeric cells in header order -/
structure Row where
  iso3 : String
  name : String
  cells : List Dec

/-- the expected numeric columns, in order, with their group -/
def spec : List (String × Kind) :=
  [
   ("population", .pop), ("aq_kcals", .qty), ("aq_fat", .qty), ("aq_protein", .qty),
   ("grasses_baseline", .qty), ("dairy", .qty), ("chicken", .qty), ("pork", .qty),
   ("beef", .qty), ("small_animals", .qty), ("medium_animals", .qty), ("large_animals", .qty),
   ("dairy_cows", .qty), ("biofuel_kcals", .qty), ("biofuel_fat", .qty), ("biofuel_protein", .qty),
   ("feed_kcals", .qty), ("feed_fat", .qty), ("feed_protein", .qty), ("crop_kcals", .qty),
   ("crop_fat", .qty), ("crop_protein", .qty), ("crop_reduction_year1", .cropReduc), ("crop_reduction_year2", .cropReduc),
   ("crop_reduction_year3", .cropReduc), ("crop_reduction_year4", .cropReduc), ("crop_reduction_year5", .cropReduc), ("crop_reduction_year6", .cropReduc),
   ("crop_reduction_year7", .cropReduc), ("crop_reduction_year8", .cropReduc), ("crop_reduction_year9", .cropReduc), ("crop_reduction_year10", .cropReduc),
   ("grasses_reduction_year1", .grassReduc), ("grasses_reduction_year2", .grassReduc), ("grasses_reduction_year3", .grassReduc), ("grasses_reduction_year4", .grassReduc),
   ("grasses_reduction_year5", .grassReduc), ("grasses_reduction_year6", .grassReduc), ("grasses_reduction_year7", .grassReduc), ("grasses_reduction_year8", .grassReduc),
   ("grasses_reduction_year9", .grassReduc), ("grasses_reduction_year10", .grassReduc), ("seasonality_m1", .season), ("seasonality_m2", .season),
   ("seasonality_m3", .season), ("seasonality_m4", .season), ("seasonality_m5", .season), ("seasonality_m6", .season),
   ("seasonality_m7", .season), ("seasonality_m8", .season), ("seasonality_m9", .season), ("seasonality_m10", .season),
   ("seasonality_m11", .season), ("seasonality_m12", .season), ("stocks_kcals_jan", .qty), ("stocks_kcals_feb", .qty),
   ("stocks_kcals_mar", .qty), ("stocks_kcals_apr", .qty), ("stocks_kcals_may", .qty), ("stocks_kcals_jun", .qty),
   ("stocks_kcals_jul", .qty), ("stocks_kcals_aug", .qty), ("stocks_kcals_sep", .qty), ("stocks_kcals_oct", .qty),
   ("stocks_kcals_nov", .qty), ("stocks_kcals_dec", .qty), ("distribution_loss_crops", .frac), ("distribution_loss_sugar", .frac),
   ("distribution_loss_meat", .frac), ("distribution_loss_dairy", .frac), ("distribution_loss_seafood", .frac), ("retail_waste_baseline", .frac),
   ("retail_waste_price_double", .frac), ("retail_waste_price_triple", .frac), ("wood_pulp_tonnes", .qty), ("percent_of_global_production", .frac),
   ("capex_dollar", .free), ("percent_of_global_capex", .frac), ("crop_area_1000ha", .qty), ("include_greenhouse", .free),
   ("fraction_crop_area", .frac), ("max_area_fraction", .frac), ("new_area_fraction", .frac), ("initial_built_fraction", .frac),
   ("initial_seaweed_fraction", .frac), ("seaweed_growth_per_day_-3", .growth), ("seaweed_growth_per_day_-2", .growth), ("seaweed_growth_per_day_-1", .growth),
   ("seaweed_growth_per_day_0", .growth), ("seaweed_growth_per_day_1", .growth), ("seaweed_growth_per_day_2", .growth), ("seaweed_growth_per_day_3", .growth),
   ("seaweed_growth_per_day_4", .growth), ("seaweed_growth_per_day_5", .growth), ("seaweed_growth_per_day_6", .growth), ("seaweed_growth_per_day_7", .growth),
   ("seaweed_growth_per_day_8", .growth), ("seaweed_growth_per_day_9", .growth), ("seaweed_growth_per_day_10", .growth), ("seaweed_growth_per_day_11", .growth),
   ("seaweed_growth_per_day_12", .growth), ("seaweed_growth_per_day_13", .growth), ("seaweed_growth_per_day_14", .growth), ("seaweed_growth_per_day_15", .growth),
   ("seaweed_growth_per_day_16", .growth), ("seaweed_growth_per_day_17", .growth), ("seaweed_growth_per_day_18", .growth), ("seaweed_growth_per_day_19", .growth),
   ("seaweed_growth_per_day_20", .growth), ("seaweed_growth_per_day_21", .growth), ("seaweed_growth_per_day_22", .growth), ("seaweed_growth_per_day_23", .growth),
   ("seaweed_growth_per_day_24", .growth), ("seaweed_growth_per_day_25", .growth), ("seaweed_growth_per_day_26", .growth), ("seaweed_growth_per_day_27", .growth),
   ("seaweed_growth_per_day_28", .growth), ("seaweed_growth_per_day_29", .growth), ("seaweed_growth_per_day_30", .growth), ("seaweed_growth_per_day_31", .growth),
   ("seaweed_growth_per_day_32", .growth), ("seaweed_growth_per_day_33", .growth), ("seaweed_growth_per_day_34", .growth), ("seaweed_growth_per_day_35", .growth),
   ("seaweed_growth_per_day_36", .growth), ("seaweed_growth_per_day_37", .growth), ("seaweed_growth_per_day_38", .growth), ("seaweed_growth_per_day_39", .growth),
   ("seaweed_growth_per_day_40", .growth), ("seaweed_growth_per_day_41", .growth), ("seaweed_growth_per_day_42", .growth), ("seaweed_growth_per_day_43", .growth),
   ("seaweed_growth_per_day_44", .growth), ("seaweed_growth_per_day_45", .growth), ("seaweed_growth_per_day_46", .growth), ("seaweed_growth_per_day_47", .growth),
   ("seaweed_growth_per_day_48", .growth), ("seaweed_growth_per_day_49", .growth), ("seaweed_growth_per_day_50", .growth), ("seaweed_growth_per_day_51", .growth),
   ("seaweed_growth_per_day_52", .growth), ("seaweed_growth_per_day_53", .growth), ("seaweed_growth_per_day_54", .growth), ("seaweed_growth_per_day_55", .growth),
   ("seaweed_growth_per_day_56", .growth), ("seaweed_growth_per_day_57", .growth), ("seaweed_growth_per_day_58", .growth), ("seaweed_growth_per_day_59", .growth),
   ("seaweed_growth_per_day_60", .growth), ("seaweed_growth_per_day_61", .growth), ("seaweed_growth_per_day_62", .growth), ("seaweed_growth_per_day_63", .growth),
   ("seaweed_growth_per_day_64", .growth), ("seaweed_growth_per_day_65", .growth), ("seaweed_growth_per_day_66", .growth), ("seaweed_growth_per_day_67", .growth),
   ("seaweed_growth_per_day_68", .growth), ("seaweed_growth_per_day_69", .growth), ("seaweed_growth_per_day_70", .growth), ("seaweed_growth_per_day_71", .growth),
   ("seaweed_growth_per_day_72", .growth), ("seaweed_growth_per_day_73", .growth), ("seaweed_growth_per_day_74", .growth), ("seaweed_growth_per_day_75", .growth),
   ("seaweed_growth_per_day_76", .growth), ("seaweed_growth_per_day_77", .growth), ("seaweed_growth_per_day_78", .growth), ("seaweed_growth_per_day_79", .growth),
   ("seaweed_growth_per_day_80", .growth), ("seaweed_growth_per_day_81", .growth), ("seaweed_growth_per_day_82", .growth), ("seaweed_growth_per_day_83", .growth),
   ("seaweed_growth_per_day_84", .growth), ("seaweed_growth_per_day_85", .growth), ("seaweed_growth_per_day_86", .growth), ("seaweed_growth_per_day_87", .growth),
   ("seaweed_growth_per_day_88", .growth), ("seaweed_growth_per_day_89", .growth), ("seaweed_growth_per_day_90", .growth), ("seaweed_growth_per_day_91", .growth),
   ("seaweed_growth_per_day_92", .growth), ("seaweed_growth_per_day_93", .growth), ("seaweed_growth_per_day_94", .growth), ("seaweed_growth_per_day_95", .growth),
   ("seaweed_growth_per_day_96", .growth), ("seaweed_growth_per_day_97", .growth), ("seaweed_growth_per_day_98", .growth), ("seaweed_growth_per_day_99", .growth),
   ("seaweed_growth_per_day_100", .growth), ("seaweed_growth_per_day_101", .growth), ("seaweed_growth_per_day_102", .growth), ("seaweed_growth_per_day_103", .growth),
   ("seaweed_growth_per_day_104", .growth), ("seaweed_growth_per_day_105", .growth), ("seaweed_growth_per_day_106", .growth), ("seaweed_growth_per_day_107", .growth),
   ("seaweed_growth_per_day_108", .growth), ("seaweed_growth_per_day_109", .growth), ("seaweed_growth_per_day_110", .growth), ("seaweed_growth_per_day_111", .growth),
   ("seaweed_growth_per_day_112", .growth), ("seaweed_growth_per_day_113", .growth), ("seaweed_growth_per_day_114", .growth), ("seaweed_growth_per_day_115", .growth),
   ("seaweed_growth_per_day_116", .growth), ("power_law_improvement", .frac), ("milk_yield_kg_per_milk_bearing_animal_per_year", .qty), ("kg_meat_per_pig", .qty),
   ("kg_meat_per_chicken", .qty)
  ]

def kinds : List Kind := spec.map Prod.snd

/-- the executable statement for one cell -/
def cellOk : Kind → Dec → Bool
  | .pop, v => Dec.lt (1, 4) v && Dec.lt v (1, 10)
  | .qty, v => Dec.le (0, 0) v
  | .frac, v => Dec.le (0, 0) v && Dec.le v (1, 0)
  | .season, v => Dec.le (0, 0) v && Dec.le v (1, 0)
  | .cropReduc, v => Dec.le (-100000001, -8) v
  | .grassReduc, v => Dec.le (-1, 0) v
  | .growth, v => Dec.le (-100, 0) v
  | .free, _ => true

/-- every cell against the kind of its column; the two lists must have the same length -/
def cellsOk : List Kind → List Dec → Bool
  | [], [] => true
  | k :: ks, c :: cs => cellOk k c && cellsOk ks cs
  | _, _ => false

/-- the cells of the `season` columns -/
def seasonCells : List Kind → List Dec → List Dec
  | k :: ks, c :: cs => if k = Kind.season then c :: seasonCells ks cs else seasonCells ks cs
  | _, _ => []

/-- `|Σ seasonality − 1| ≤ 1e-6` -/
def seasonOk (cells : List Dec) : Bool :=
  let s := Dec.sum (seasonCells kinds cells)
  Dec.le (999999, -6) s && Dec.le s (1000001, -6)

/-- the executable statement for one row -/
def rowOk (r : Row) : Bool :=
  r.iso3 != "" && r.name != "" && cellsOk kinds r.cells && seasonOk r.cells

end Allfed.CountryTable
