"""C03 - humans come before animal feed and biofuel (DESIGN.md §7 C03)."""
import numpy as np
from lib import lpcheck, lpinst, pipeline, wire
from lib.wire import f2b, fl, enc_str, Reader

ID = "C03"
LEVEL = "proof"
DRIVER = "driver_lp"
LEAN_MODULES = ["AllfedModel.Props.C03"]
OBLIGATIONS = ["Allfed.C03." + n for n in [
    "demand_schedule", "demand_zero_after_shutoff", "human_round_within_schedule", "round1_draws_nothing", "feed_round_within_schedule",
    "round2_monotone", "zero_where_bound_zero", "final_charge_within_demand", "relOK_spec"]]
LEVEL_TEXT = ("partial. Lean 4 theorems for all inputs: in every round and month the feed and biofuel drawn by any feasible point stay within the demand schedule and are zero from "
              "the shut-off month on (given each round's charge/ceilings, which the check compares with the schedule on every run); the feed round never raises feed; the final charge is "
              "bumped within demand (C18). The two inter-round relations (final < T => essentially no feed/biofuel and final >= round 1; round 1 >= T => final >= T) are statements about "
              "optimal solutions of three coupled LPs: they are evaluated by the Lean predicate relOK on every three-round run of the grid with thresholds T in {0,10,50,100} - monitored, not proved.")
LEVEL_NOTE = ("Trusted: Lean kernel; harness capture of rounds; tolerances: 'essentially no' = 0.1 % of the monthly requirement, 'not lower' = 0.01 percentage points (or 2e-4 relative), the demand "
              "comparison uses rel 1e-6 + the bump's 1e-9. The inter-round relations are search over a finite grid, not a theorem (partial).")
TECHNIQUE = "Lean 4 proof for the schedule clauses + Lean-evaluated relation monitored on real three-round runs"
RULE = ("three-round runs of real countries x option sets x thresholds T; each run contributes its three rounds' monthly feed/biofuel totals (from the reported LP values) compared "
        "with the demand schedule, and one evaluation of the inter-round relations; non-trivial = a feed or biofuel demand exists and round 2 was run; distinct = (country, options, T)")
ASSUMPTIONS = ["seaweed kcals per tonne non-negative", "feed/biofuel demand series taken from compute_parameters_first_round (positions 4 and 5 of its return value)"]

TOL_P = 0.01
TOL_F = 0.001


def drawn_totals(s, inp):
    enc = lpinst.encode_inp(inp)
    vals = [(n, v) for n, v in s.values.items() if v is not None]
    line = "rounds.totals %s %d %s" % (enc, len(vals), " ".join("%s %s" % (enc_str(a), f2b(b)) for a, b in vals))
    rd = Reader(wire.run_driver([line], exe_name=DRIVER)[0])
    return np.array(rd.floats()), np.array(rd.floats())


def audit_run(ctx, run, T_over):
    if "first" not in run.params or not run.solves:
        return
    first = run.params["first"]
    feed_demand = np.asarray(first[4].in_units_bil_kcals_thou_tons_thou_tons_per_month().kcals, dtype=float)
    bio_demand = np.asarray(first[5].in_units_bil_kcals_thou_tons_thou_tons_per_month().kcals, dtype=float)
    ci = run.constants_for_params
    n = int(ci["NMONTHS"])
    T = float(ci["MINIMUM_PERCENT_FED_BEFORE_NONHUMAN_CONSUMPTION_ALLOWED"])
    fshut = int(ci["DELAY"]["FEED_SHUTOFF_MONTHS"])
    bshut = int(ci["DELAY"]["BIOFUEL_SHUTOFF_MONTHS"])
    case0 = {"country": run.iso, "options": run.opts, "T": T}
    # the schedule itself (model vs implementation)
    mo_f = float(feed_demand[0]) if fshut > 0 else 0.0
    mo_b = float(bio_demand[0]) if bshut > 0 else 0.0
    o = wire.run_driver(["rounds.demand %s %d %d" % (f2b(mo_f), min(fshut, n), n), "rounds.demand %s %d %d" % (f2b(mo_b), min(bshut, n), n)], exe_name=DRIVER)
    if not (wire.close_list(Reader(o[0]).floats(), list(feed_demand)) and wire.close_list(Reader(o[1]).floats(), list(bio_demand))):
        ctx.disagree("C03:demand-schedule", case0, [list(feed_demand[:3]), fshut], Reader(o[0]).floats()[:3])
    if fshut < n and np.any(feed_demand[fshut:] != 0) or bshut < n and np.any(bio_demand[bshut:] != 0):
        ctx.violation("demand-nonzero-after-shutoff", "%s: demand schedule is not zero from the shut-off month on" % run.iso, case0)
    need = float(run.solves[0].opt.consts_for_optimizer["BILLION_KCALS_NEEDED"])
    totals = []
    for k, s in enumerate(run.solves):
        if not s.values or s.error:
            continue
        try:
            inp = lpinst.inp_from_optimizer(s.opt, s.kind)
        except NotImplementedError:
            continue
        ft, bt = drawn_totals(s, inp)
        totals.append((k, s, ft, bt))
        case = dict(case0, round=k + 1, kind=s.kind)
        tol = 1e-6 * np.maximum(1.0, np.maximum(feed_demand, bio_demand)) + 1e-4 * need * 1e-2
        over_f = ft - feed_demand
        over_b = bt - bio_demand
        if np.any(over_f > tol):
            m = int(np.argmax(over_f))
            ctx.violation("feed-above-demand", "%s round %d: feed drawn in month %d is %r, demand %r" % (run.iso, k + 1, m, float(ft[m]), float(feed_demand[m])), dict(case, month=m))
        if np.any(over_b > tol):
            m = int(np.argmax(over_b))
            ctx.violation("biofuel-above-demand", "%s round %d: biofuel drawn in month %d is %r, demand %r" % (run.iso, k + 1, m, float(bt[m]), float(bio_demand[m])), dict(case, month=m))
        # the hypotheses of the theorems, per instance: charge / ceilings within the schedule
        if s.kind == "to_humans":
            ch_f, ch_b = np.array(inp["feed"]), np.array(inp["biofuel"])
        else:
            ch_f, ch_b = np.array(inp["maxFeed"]), np.array(inp["maxBiofuel"])
        if np.any(ch_f > feed_demand + tol) or np.any(ch_b > bio_demand + tol):
            m = int(np.argmax(np.maximum(ch_f - feed_demand, ch_b - bio_demand)))
            ctx.violation("charge-above-demand", "%s round %d: the round is charged/capped above the demand schedule in month %d (feed %r vs %r, biofuel %r vs %r)" % (
                run.iso, k + 1, m, float(ch_f[m]), float(feed_demand[m]), float(ch_b[m]), float(bio_demand[m])), dict(case, month=m))
        ctx.count("round-schedules-checked")
    # inter-round relations
    if len(run.interpreted) >= 3 and run.result is not None:
        p1 = float(run.interpreted[0][2].percent_people_fed)
        p3 = float(run.result.percent_people_fed)
        last = totals[-1] if totals else None
        drawn = float(np.max(last[2] + last[3])) if last else 0.0
        tolp = max(TOL_P, 2e-4 * max(p1, p3))
        ok = wire.run_driver(["rounds.rel %s" % " ".join(f2b(v) for v in (T, p1, p3, drawn, need, tolp, TOL_F))], exe_name=DRIVER)[0] == "1"
        ctx.count("relations-evaluated")
        ctx.count("relation-branch:" + ("starving" if p3 < T - tolp else "fed") + ("/round1-reaches-T" if p1 >= T else "/round1-below-T"))
        if not ok:
            regime = "no-storage-between-years" if not bool(run.solves[0].opt.consts_for_optimizer["STORE_FOOD_BETWEEN_YEARS"]) else "storage-between-years"
            det = dict(case0, p1=p1, p3=p3, drawn=drawn, need=need, regime=regime)
            if p3 < T - tolp and drawn > TOL_F * need:
                ctx.violation("feed-while-below-threshold:" + regime,
                              "%s: final %.4f %% < T=%g %% but %.4g billion kcals (%.3g %% of the monthly requirement) are drawn for feed/biofuel in some month (%s)" % (
                                  run.iso, p3, T, drawn, 100 * drawn / need, regime), det)
            if p3 < T - tolp and p3 < p1 - tolp:
                ctx.violation("final-below-no-feed-round", "%s: final %.4f %% is lower than the no-feed round's %.4f %%" % (run.iso, p3, p1), det)
            if p1 >= T and p3 < T - tolp:
                ctx.violation("final-below-threshold-although-round1-reaches-it",
                              "%s: the no-feed round reaches T=%g %% (%.4f %%) but the final result is %.4f %%" % (run.iso, T, p1, p3), det)
        ctx.case((run.iso, sorted(run.opts.items()), T), nontrivial=float(np.max(feed_demand + bio_demand)) > 0,
                 sample={"country": run.iso, "T": T, "p1": p1, "p3": p3, "max_drawn": drawn, "need": need,
                         "options": {a: b for a, b in run.opts.items() if pipeline.BASE_OPTIONS.get(a) != b}})
    else:
        ctx.count("runs-without-three-rounds")
        if run.result is not None:
            ctx.case((run.iso, sorted(run.opts.items()), T), nontrivial=False)


def presets(ctx):
    ps = []
    base = [("ARG", {}), ("USA", dict(scenario="no_resilient_foods", shutoff="continued")), ("JPN", dict(shutoff="continued")),
            ("IND", dict(scenario="industrial_foods", shutoff="short_delayed_shutoff")), ("DJI", dict(shutoff="continued_after_10_percent_fed")),
            # shut-off at month 0; the two strategies that keep herds going, in a country that ends below the threshold
            ("ARG", dict(shutoff="immediate", NMONTHS=48)), ("USA", dict(scenario="no_resilient_foods", meat_strategy="baseline_breeding", NMONTHS=72)),
            ("USA", dict(scenario="no_resilient_foods", meat_strategy="feed_only_ruminants", NMONTHS=72)),
            # a country whose no-feed round stays just below a threshold other than 100 (the *_after_10_percent_fed schedules)
            ("JPN", dict(scenario="no_resilient_foods", shutoff="continued_after_10_percent_fed", NMONTHS=48)),
            ("TWN", dict(scenario="no_resilient_foods", shutoff="long_delayed_shutoff_after_10_percent_fed", NMONTHS=48)),
            ("WOR", dict(scale="global", NMONTHS=72)),
            # a country whose no-feed round clears a threshold below 100 while the feed demand is large enough to eat into the human share
            # (the clause "round 1 reaches T => the final result stays at or above T" is only exercised there; W11d-1)
            ("ESP", dict(scenario="no_resilient_foods", shutoff="continued_after_10_percent_fed"))]
    Ts = [None, 0, 10, 50, 100, None, None, None, None, None, None]
    for j, (iso, o) in enumerate(base):
        t = Ts[j % len(Ts)]
        o = dict(o)
        if t is not None:
            o["MINIMUM_PERCENT_FED_BEFORE_NONHUMAN_CONSUMPTION_ALLOWED"] = t
        ps.append((iso, o))
    isos = sorted(pipeline.country_rows())
    for _ in range(ctx.budget(3, 150)):
        iso, o = lpcheck.random_preset(ctx.rng, isos)
        if ctx.rng.random() < 0.6:
            o["MINIMUM_PERCENT_FED_BEFORE_NONHUMAN_CONSUMPTION_ALLOWED"] = ctx.rng.choice([0, 10, 50, 100, ctx.rng.randint(0, 100)])
        ps.append((iso, o))
    if not ctx.quick:
        for t in (100, 10):
            ps += [(iso, {"MINIMUM_PERCENT_FED_BEFORE_NONHUMAN_CONSUMPTION_ALLOWED": t, "shutoff": "continued"}) for iso in isos[::2]]
    return ps


def explore(ctx, ps):
    for iso, over in ps:
        run = pipeline.run_scenario(iso, pipeline.options(**over))
        if run.error:
            ctx.count("run-error:" + run.error.split(":")[0])
            if not run.solves:
                continue
        audit_run(ctx, run, over.get("MINIMUM_PERCENT_FED_BEFORE_NONHUMAN_CONSUMPTION_ALLOWED"))
        if ctx.quick and ctx.elapsed() > 150:
            ctx.count("quick-budget-reached")
            break


def correspondence(ctx):
    explore(ctx, presets(ctx))


def search(ctx):
    isos = sorted(pipeline.country_rows())
    ps = []
    for _ in range(10):
        iso, o = lpcheck.random_preset(ctx.rng, isos)
        o["MINIMUM_PERCENT_FED_BEFORE_NONHUMAN_CONSUMPTION_ALLOWED"] = ctx.rng.choice([0, 10, 50, 100])
        ps.append((iso, o))
    explore(ctx, ps)


def replay(ctx, rep):
    hits = []
    for v in rep.get("violations", []):
        c = v["case"]
        n0 = len(ctx.violations)
        explore(ctx, [(c["country"], dict(c["options"]))])
        hits += [w for w in ctx.violations[n0:] if w["key"] == v["key"]]
    return bool(hits), hits[:3]
