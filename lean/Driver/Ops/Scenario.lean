import AllfedModel.Model.ScenarioSpec
import Driver.Wire
open Wire Allfed.Scenario Allfed.Gen.Scenario

namespace Ops.Scenario

/-! the three parameter operations at `Float` -/

def digitsVal (cs : List Char) : Option Nat :=
  if cs.isEmpty || !cs.all Char.isDigit then none
  else some (cs.foldl (fun n c => n * 10 + (c.toNat - '0'.toNat)) 0)

/-- a plain decimal `[+-]ddd[.ddd][e[+-]dd]` (what the harness sends as numeric strings) -/
def parseFloat? (s : String) : Option Float :=
  let cs := s.trimAscii.toString.toList
  let (neg, cs) := match cs with
    | '-' :: t => (true, t)
    | '+' :: t => (false, t)
    | _ => (false, cs)
  let (mant, ex) := (cs.takeWhile (fun c => c != 'e' && c != 'E'), (cs.dropWhile (fun c => c != 'e' && c != 'E')).drop 1)
  let hasE := cs.any (fun c => c == 'e' || c == 'E')
  let ip := mant.takeWhile (· != '.')
  let fp := (mant.dropWhile (· != '.')).drop 1
  let e10 : Option Int :=
    if !hasE then some 0
    else match ex with
      | '-' :: t => (digitsVal t).map (fun n => - (n : Int))
      | '+' :: t => (digitsVal t).map (fun n => (n : Int))
      | t => (digitsVal t).map (fun n => (n : Int))
  match digitsVal (ip ++ fp), e10 with
  | some m, some e =>
    if ip.isEmpty && fp.isEmpty then none else
    let e' : Int := e - fp.length
    let x : Float := OfScientific.ofScientific m (decide (e' < 0)) e'.natAbs
    some (if neg then -x else x)
  | _, _ => none

instance : PyNum Float where
  toNat? x := if x == x.floor && x >= 0 && x < 1e15 then some x.toUInt64.toNat else none
  trunc x := if x < 0 then x.ceil else x.floor
  parse? := parseFloat?

/-! wire -/

def valP : P (Val Float) := do
  let t ← tok
  match t with
  | "n" => do let x ← float; pure (.num x)
  | "s" => do let s ← str; pure (.str s)
  | "b" => do let b ← bool; pure (.bool b)
  | _ => throw s!"wire: bad value tag {t}"

def dictP : P (Dict Float) := list (do let k ← str; let v ← valP; pure (k, v))

def cdP : P (Option (Dict Float)) := do
  let has ← bool
  if has then do let d ← dictP; pure (some d) else pure none

def outVal : Val Float → String
  | .num x => "n " ++ outF x
  | .bool b => "b " ++ outB b
  | .str s => "s " ++ encodeStr s
  | .dict => "d"
  | .list l => "l " ++ outFs l
  | .opaque => "o"

def outErr : Err → String
  | .alreadySet f => "assert:alreadySet:" ++ encodeStr f
  | .missing o => "assert:missing:" ++ encodeStr o
  | .unknownValue o => "assert:unknown:" ++ encodeStr o
  | .assert_ => "assert"
  | .key => "key"
  | .attr => "attr"
  | .type => "type"
  | .zerodiv => "zerodiv"
  | .value => "value"
  | .exit => "exit"
  | .unknownSetter n => "internal:" ++ encodeStr n

def outState (s : ScState Float) : String :=
  let scope := match s.scope with | none => "-" | some true => "1" | some false => "0"
  s!"{outL encodeStr s.flags} {scope} {outB (checkAllSet s)} " ++
    outL (fun p => encodeStr p.1 ++ " " ++ outVal p.2) s.consts

inductive SeqOp
  | call (n : String)
  | put (path : String) (v : Val Float)

def seqOpP : P SeqOp := do
  let t ← tok
  match t with
  | "c" => do let n ← str; pure (.call n)
  | "w" => do let p ← str; let v ← valP; pure (.put p v)
  | _ => throw s!"wire: bad op tag {t}"

def runSeq (find : String → Option SetterInfo) (opts : Dict Float) (cd : Option (Dict Float)) :
    Nat → ScState Float → List SeqOp → String
  | _, s, [] => "ok " ++ outState s
  | i, s, .call n :: t =>
    match find n with
    | none => s!"err internal {i}"
    | some info =>
      match applySetter opts cd s info with
      | .ok s' => runSeq find opts cd (i + 1) s' t
      | .error e => s!"err {outErr e} {i}"
  | i, s, .put p v :: t =>
    match storeWrite p v s.consts with
    | .ok c => runSeq find opts cd (i + 1) { s with consts := c } t
    | .error e => s!"err {outErr e} {i}"

/-- scen.seq <cd> <opts> <ops> : a sequence of real setter calls (and harness writes) on one fresh object -/
def seqOp : P String := do
  let cd ← cdP; let opts ← dictP; let ops ← list seqOpP
  pure (runSeq findSetter opts cd 0 ScState.init ops)

/-- scen.seqspec … : the same sequence, but every setter that has a row in the hand-written specification
    is executed FROM THAT ROW (the documentation run as a program); the others from the generated table -/
def seqSpecOp : P String := do
  let cd ← cdP; let opts ← dictP; let ops ← list seqOpP
  pure (runSeq (fun n => match findSpec n with | some i => some i | none => findSetter n) opts cd 0 ScState.init ops)

/-- scen.specdispatch : the hand-written option family ↦ value ↦ setters table -/
def specDispatchOp : P String := pure (outL (fun fam =>
  encodeStr fam.1 ++ " " ++ outL (fun v => encodeStr v.1 ++ " " ++ outL encodeStr v.2) fam.2) specDispatch)

/-- scen.specnames : setters that have a specification row -/
def specNamesOp : P String := pure (outL encodeStr (specTable.map (·.name)))

/-- scen.dispatch <cd> <opts> : set_depending_on_option, interleaved as the code runs it, and in two phases -/
def dispatchOp : P String := do
  let cd ← cdP; let opts ← dictP
  let a := match setDependingOnOption opts cd with
    | .ok s => "ok " ++ outState s
    | .error e => "err " ++ outErr e
  let b := match dispatchOptions opts cd with
    | .ok (copy, p) =>
      (match execSteps copy cd ScState.init p with
       | .ok s => "ok " ++ outState s
       | .error e => "err " ++ outErr e) ++ " | " ++ outL encodeStr (planSetters p)
    | .error e => "err " ++ outErr e ++ " | 0"
  pure (a ++ " | " ++ b)

/-- scen.info : names, parameters, families, opacity of the generated setters; flags; helpers -/
def infoOp : P String := do
  let rows := setters.map fun i =>
    s!"{encodeStr i.name} {outL encodeStr i.params} {outL encodeStr i.family} {outL encodeStr (setsOf i.body)} {outB i.isOpaque} {outL encodeStr i.writes}"
  pure (s!"{outL encodeStr initFlags} {outL encodeStr allFlags} {outL encodeStr helpers} {setters.length} " ++ " ".intercalate rows)

/-- scen.loader <constants key> : column of the head-count table animal_populations.main writes -/
def loaderOp : P String := do
  let k ← str
  pure (match loaderColumn k with | some c => "some " ++ encodeStr c | none => "none")

/-- scen.headkey <option key> : the constants key the dispatcher writes for it -/
def headKeyOp : P String := do
  let k ← str
  pure (match headConstKey k with | some c => "some " ++ encodeStr c | none => "none")

/-- scen.strip <chars> <s> : Python str.strip(chars) -/
def stripOp : P String := do
  let c ← str; let s ← str
  pure (encodeStr (pyStrip c s))

def ops : List (String × P String) :=
  [("scen.seq", seqOp), ("scen.seqspec", seqSpecOp), ("scen.specnames", specNamesOp), ("scen.specdispatch", specDispatchOp), ("scen.dispatch", dispatchOp), ("scen.info", infoOp), ("scen.loader", loaderOp),
   ("scen.headkey", headKeyOp), ("scen.strip", stripOp)]

end Ops.Scenario
