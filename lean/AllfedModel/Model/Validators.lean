import AllfedModel.Num.Basic
import AllfedModel.Model.LP
/-
Model of the built-in validation checks, `/repo/src/optimizer/validate_results.py` (class `Validator`),
which property C16 requires to pass on every run.

Every numeric validator is a total function into `Outcome`:
  * `pass`    the check ran and no assertion failed,
  * `skipped` an early `return` (or an `if` that is not taken): nothing was tested,
  * `warned`  the code only `print`s an error text, it does not raise,
  * `raised`  an `assert` fails (AssertionError).
The formulas, tolerances (the `epsilon` defaults are the parameters `eps…` here; the harness passes the
defaults and other values), order of operations and month ranges are the code's.  What the code DOES
is modelled, also where that is surprising (see the comments marked ODD).

Number type: generic, as everywhere in `Model/*`.  Three Python/numpy operations have no counterpart in
a plain ordered number type and are expressed by what they are used for:
  * `x == 0`                     → `isZero x := x ≤ 0 ∧ 0 ≤ x`   (false for NaN at `Float`, as in Python)
  * `np.isnan(x)`                → `¬ (x ≤ x)`                    (true exactly for NaN at `Float`; never in an ordered field:
                                                                   NaN itself is NOT expressible over a field, only its absence)
  * `np.round(x, 6) >= 0`        → `-0.5 ≤ x * 1e6`               (numpy rounds by `rint(x·10⁶)/10⁶`, half to even: `rint y ≥ 0 ⇔ y ≥ −0.5`)
  * `round(d, 0) == 0` / `< 5`   → `−0.5 ≤ d ≤ 0.5` / `d ≤ 4.5`   (Python rounds half to even: `round(±0.5) = ±0`, `round(4.5) = 4`)
  * `x / 0` (numpy: ±inf or NaN, a warning, no exception) → the comparison that follows is decided explicitly
    (`divLe`), never by a silent default.
Not modelled: the label checks (`ensure_all_time_constants_units_are_billion_kcals`, the unit
assertions inside `Food.__add__/__sub__`: C11's subject), printing, and `Food.validate_if_list`
(list shapes; the model's lists have the shape by construction, unequal lengths are `raised`).
-/
namespace Allfed.Validators
open Allfed Allfed.LP

inductive Outcome
  | pass | skipped | warned | raised
  deriving DecidableEq, Repr, Inhabited

namespace Outcome
def ofBool (b : Bool) : Outcome := if b then .pass else .raised
/-- the call returns normally (no AssertionError) -/
def ok : Outcome → Bool
  | .raised => false
  | _ => true
def name : Outcome → String
  | .pass => "pass" | .skipped => "skipped" | .warned => "warned" | .raised => "raised"
end Outcome

/-- kcals / fat / protein series of one `Food` -/
structure Nutr (α : Type) where
  kcals : List α
  fat : List α
  protein : List α

/-- `Food.conversions.include_fat / include_protein` (`exclude_* = not include_*`) -/
structure Flags where
  includeFat : Bool
  includeProtein : Bool
  deriving DecidableEq, Repr, Inhabited

/-- the eleven per-food series of `interpreted_results` the first three validators look at -/
structure Foods (α : Type) where
  storedFood : Nutr α
  outdoorCrops : Nutr α
  seaweed : Nutr α
  cellSugar : Nutr α
  scp : Nutr α
  greenhouse : Nutr α
  fish : Nutr α
  meat : Nutr α
  milk : Nutr α
  immediate : Nutr α
  newStored : Nutr α

section
variable {α : Type} [Add α] [Sub α] [Mul α] [Div α] [Neg α] [LE α] [LT α]
  [DecidableLE α] [DecidableLT α] [OfNat α 0] [OfNat α 1] [OfScientific α]

/-- Python's `x == 0` -/
def isZero (v : α) : Bool := decide (v ≤ 0) && decide (0 ≤ v)
/-- `abs(x)` -/
def absv (v : α) : α := if v < 0 then -v else v
/-- `not np.isnan(x)` -/
def notNan (v : α) : Bool := decide (v ≤ v)

/-- numpy's `(a / b) <= c` for an array division: for `b ≠ 0` the quotient is compared; for `b = 0` numpy yields
    `-inf` (`a < 0`: the comparison holds), `+inf` or NaN (`a ≥ 0` or NaN: it fails) — no exception -/
def divLe (a b c : α) : Bool := if isZero b then decide (a < 0) else decide (a / b ≤ c)

/-! ## `validate_results`: the three per-food sweeps and the headline check -/

/-- `(np.array(l) >= -threshold).all()` -/
def allGe (thr : α) (l : List α) : Bool := l.all fun v => decide (-thr ≤ v)

/-- `(np.round(l, 6) >= 0).all()`, i.e. `(np.round(l, 6) >= -0).all()` -/
def allRounded6Ge0 (l : List α) : Bool := l.all fun v => decide (-0.5 ≤ v * 1e6)

/-- `Food.all_greater_than_or_equal_to_zero` with the per-list test `p` -/
def foodAll (fl : Flags) (p : List α → Bool) (f : Nutr α) : Bool :=
  p f.kcals && (p f.fat || !fl.includeFat) && (p f.protein || !fl.includeProtein)

/-- `ensure_all_greater_than_or_equal_to_zero`.
    ODD: only seven of the eleven series are tested (stored food, outdoor crops, seaweed are not; the
    test of `immediate_outdoor_crops` is commented out in the source), with three different
    tolerances: `1e-6` (sugar, SCP), rounding to 6 decimals (greenhouse, meat: `≥ −5·10⁻⁷`), none (fish, milk, new stored). -/
def ensureAllGe0 (fl : Flags) (r : Foods α) : Outcome :=
  .ofBool (foodAll fl (allGe 1e-6) r.cellSugar &&
           foodAll fl (allGe 1e-6) r.scp &&
           foodAll fl allRounded6Ge0 r.greenhouse &&
           foodAll fl (allGe 0) r.fish &&
           foodAll fl allRounded6Ge0 r.meat &&
           foodAll fl (allGe 0) r.milk &&
           foodAll fl (allGe 0) r.newStored)

def nutrNoNan (f : Nutr α) : Bool := f.kcals.all notNan && f.fat.all notNan && f.protein.all notNan

/-- `ensure_never_nan`: all eleven series, all three nutrients (whatever the include flags are:
    `if self.is_list_monthly:` tests the bound method, which is always true) -/
def ensureNeverNan (r : Foods α) : Outcome :=
  .ofBool (nutrNoNan r.storedFood && nutrNoNan r.outdoorCrops && nutrNoNan r.seaweed && nutrNoNan r.cellSugar &&
           nutrNoNan r.scp && nutrNoNan r.greenhouse && nutrNoNan r.fish && nutrNoNan r.meat && nutrNoNan r.milk &&
           nutrNoNan r.immediate && nutrNoNan r.newStored)

/-- `(np.where(kcals == 0, other, 0) == 0).all()`; unequal lengths cannot be broadcast: `false` -/
def zeroWhereZero : List α → List α → Bool
  | [], [] => true
  | k :: ks, o :: os => (!isZero k || isZero o) && zeroWhereZero ks os
  | _, _ => false

/-- `Food.make_sure_fat_protein_zero_if_kcals_is_zero` (monthly branch).
    ODD: with fat and protein switched off (the only setting the documented options produce) nothing is tested. -/
def foodZeroKcals (fl : Flags) (f : Nutr α) : Bool :=
  (!fl.includeFat || zeroWhereZero f.kcals f.fat) && (!fl.includeProtein || zeroWhereZero f.kcals f.protein)

/-- `ensure_zero_kcals_have_zero_fat_and_protein`: eight series (not stored food, outdoor crops, seaweed) -/
def ensureZeroKcals (fl : Flags) (r : Foods α) : Outcome :=
  .ofBool (foodZeroKcals fl r.cellSugar && foodZeroKcals fl r.scp && foodZeroKcals fl r.greenhouse && foodZeroKcals fl r.fish &&
           foodZeroKcals fl r.meat && foodZeroKcals fl r.milk && foodZeroKcals fl r.immediate && foodZeroKcals fl r.newStored)

/-- the five small countries with their own branch -/
def smallCountry (code : String) : Bool :=
  code == "EST" || code == "LUX" || code == "CYP" || code == "GUY" || code == "SWT"

/-- `ensure_optimizer_returns_same_as_sum_nutrients`: `difference = round(optimum − headline, 0)`;
    `difference == 0` (half-to-even: `|optimum − headline| ≤ 0.5` percentage POINTS, an absolute tolerance), and for the five
    small countries `difference < 5`.
    ODD: the small-country branch has no `abs`: any headline ABOVE the optimum passes there; the arguments
    `INCLUDE_FAT / INCLUDE_PROTEIN` are unused. -/
def optimizerSameAsSum (optimum headline : α) (code : String) : Outcome :=
  let d := optimum - headline
  if smallCountry code then .ofBool (decide (d ≤ 4.5))
  else .ofBool (decide (-0.5 ≤ d) && decide (d ≤ 0.5))

/-- the `WARNING` print of the small-country branch (`abs(…) > 1`), not a verdict -/
def optimizerSameAsSumWarns (optimum headline : α) (code : String) : Bool :=
  smallCountry code && decide (1 < absv (optimum - headline))

/-! ## `check_constraints_satisfied`

The code takes `str(constraint)` — PuLP prints `Σ coef·var  rel  −constant` — splits it at the relation,
substitutes the reported values and `eval`s both sides: `var_val` (the variable terms) and `eq_val` (the
number on the right).  `Row.normal` is that form.  Tolerance: the literal `1`, absolute, in the row's own unit;
`<` for equalities, `≤` for inequalities.  Rows named in `maximize_constraints` are skipped.
ODD: (1) the substitution is textual (`str.replace` over `model.variables()` in name order), so a variable whose
name is a prefix of another's (`x_1`, `x_10`) corrupts the expression — not reachable with the optimiser's names,
which all end in `_Variable`; the model evaluates the row as written.  (2) a model without rows ends in
`max([])`: ValueError (`none` here).  (3) the function is dead code: `CHECK_CONSTRAINTS_FLAG = False`. -/

def checkRow (tol : α) (x : Var → α) (r : Row α) : Bool :=
  let n := r.normal
  let varVal := Aff.sumTerms x n.terms
  let eqVal := -n.const
  match r.rel with
  | .eq => decide (absv (eqVal - varVal) < tol)
  | .le => decide (varVal - eqVal ≤ tol)
  | .ge => decide (eqVal - varVal ≤ tol)

/-- `none` = the ValueError of an empty model -/
def checkConstraints (tol : α) (skip : List String) (rows : List (Row α)) (x : Var → α) : Option Outcome :=
  if rows.isEmpty then none
  else some (.ofBool (rows.all fun r => skip.contains r.name || checkRow tol x r))

/-! ## herd dictionaries (`meat_dictionary`: key ↦ monthly series) -/

/-- `population_series[population_series < 1] = 0` -/
def floorBelowOne (v : α) : α := if v < 1 then 0 else v

/-- one `population` series of `assert_population_not_increasing`:
    `relative_changes[i] = (s'[i+1] − s'[i]) / prev[i] ≤ epsilon` with `s' = s` floored below one head and
    `prev[i] = s[i]` (NOT floored: the copy is taken before), zeros replaced by `epsilon`.
    ODD: a herd between 0 and 1 head is a divisor although its own value counts as 0; a negative head count flips the test. -/
def popSeriesOK (eps : α) : List α → Bool
  | a :: b :: t =>
    let prev := if isZero a then eps else a
    divLe (floorBelowOne b - floorBelowOne a) prev eps && popSeriesOK eps (b :: t)
  | _ => true

/-- `assert_population_not_increasing` (never called by the pipeline) -/
def populationNotIncreasing (eps : α) (dict : List (String × List α)) : Outcome :=
  .ofBool (dict.all fun kv => !strContains kv.1 "population" || popSeriesOK eps kv.2)

/-- the loop of `assert_round2_meat_and_population_greater_than_round1` over the keys of the first dictionary;
    `none` = KeyError (key missing in the second dictionary) -/
def round2Loop (eps small : α) (d2 : List (String × List α)) : List (String × List α) → Option Bool
  | [] => some true
  | (k, s1) :: t =>
    match d2.lookup k with
    | none => none
    | some s2 =>
      let tested := strContains k "population" || !strContains k "milk"
      if !tested || decide (lsum s2 < small) || decide (lsum s1 * (1 - eps) ≤ lsum s2) then round2Loop eps small d2 t
      else some false

/-- `assert_round2_meat_and_population_greater_than_round1` (never called by the pipeline): for every key of the
    first dictionary that is a population or is not milk: `Σ round2 ≥ Σ round1 · (1 − ε)` unless `Σ round2 < small_number`. -/
def round2GreaterThanRound1 (eps small : α) (d1 d2 : List (String × List α)) : Option Outcome :=
  (round2Loop eps small d2 d1).map Outcome.ofBool

/-- `assert_meat_dairy_doesnt_decrease_round_2`.
    ODD: `milk_kcals_round1` stands on BOTH sides; `milk_kcals_round2` is never read. -/
def meatDairyNotDecreasing (eps : α) (meat1 meat2 milk1 _milk2 : List α) : Outcome :=
  .ofBool (decide ((lsum meat1 + lsum milk1) * (1 - eps) ≤ lsum meat2 + lsum milk1))

/-! ## round 2 hand-off (`calculate_human_consumption_for_min_needs` calls these two) -/

/-- `verify_minimum_food_consumption_sum_round2`; `months` holds, per month, the nine foods in dictionary order
    (the code adds the nine `Food`s left to right, i.e. month by month the same sum);
    `target = kcals_daily` of the conversions — per person per day, the unit of the series. -/
def minConsumptionSum (fl : Flags) (eps kcalsDaily : α) (months : List (List α)) : Outcome :=
  if fl.includeProtein || fl.includeFat then .skipped
  else .ofBool (months.all fun row => decide (lsum row ≤ kcalsDaily * (1 + eps)))

/-- one month of `verify_food_usage_priorities_round2`: the nine `(used, available)` pairs in priority order,
    `prev` the last percentage that was not skipped (100 at the start) -/
def prioMonth (eps : α) : α → List (α × α) → Bool
  | _, [] => true
  | prev, (used, avail) :: t =>
    if avail ≤ eps then prioMonth eps prev t
    else if isZero avail then
      -- only reachable for ε < 0: numpy's `100·used / 0` is −inf (skipped), +inf or NaN (the assertion fails)
      (if used < 0 then prioMonth eps prev t else false)
    else
      let pct := 100.0 * used / avail
      if pct ≤ eps then prioMonth eps prev t
      else if pct ≤ prev * (1 + eps) then prioMonth eps pct t else false

/-- `verify_food_usage_priorities_round2`; one list of nine pairs per month -/
def usagePriorities (fl : Flags) (eps : α) (months : List (List (α × α))) : Outcome :=
  if fl.includeProtein || fl.includeFat then .skipped
  else .ofBool (months.all (prioMonth eps 100.0))

/-! ## relations between rounds -/

/-- elementwise left-to-right sum of series of equal length (`a + b + c + …` on arrays) -/
def sumSeries : List (List α) → List α
  | [] => []
  | s :: t => t.foldl (fun acc u => List.zipWith (· + ·) acc u) s

/-- `assert_fewer_calories_round2_than_round3` (never called by the pipeline).
    `fl` are the flags of ROUND 3; `feed2 biofuel2` the round-2 `feed_sum/biofuels_sum_kcals_equivalent`;
    `foods2` the EIGHT round-2 series (fish, sugar, SCP, greenhouse, seaweed, immediate crops, new stored crops, stored food —
    no meat, no milk), `foods3` the TEN round-3 series (… seaweed, milk, meat, immediate …): each month
    `total3 ≥ total2·(1 − ε) − absε`. -/
def fewerCaloriesRound2 (fl : Flags) (eps absEps : α) (feed2 biofuel2 : List α) (foods2 foods3 : List (List α)) : Outcome :=
  if fl.includeProtein || fl.includeFat then .skipped
  else if feed2.all isZero && biofuel2.all isZero then .skipped
  else
    let t2 := sumSeries foods2
    let t3 := sumSeries foods3
    -- `for i, total in enumerate(total3): … total2[i]`: an IndexError if round 2 is shorter — `raised`
    if t2.length < t3.length then .raised
    else .ofBool ((List.zipWith (fun a3 a2 => decide (a2 * (1 - eps) - absEps ≤ a3)) t3 t2).all id)

/-- `Food.in_units_bil_kcals_thou_tons_thou_tons_per_month` on a kcals value whose unit has the multiplier `mult`
    (`100 / billion_kcals_needed` for "percent people fed"): `(1 / mult * 1) * v` -/
def toBillionKcals (mult v : α) : α := 1 / mult * 1 * v

/-- `assert_feed_used_below_feed_demand` / `assert_biofuels_used_below_biofuels_demand` (identical bodies):
    `sources` = the series of `sum_feed_sources` that exist (`hasattr`), in its order; `none` = no source: the
    helper returns `None` and the next attribute access raises AttributeError.
    Test: `demand − toBillion(total)·(1 − ε) > −1e-6` every month: relative ε AND an absolute, strict `1e-6`. -/
def usedBelowDemand (fl : Flags) (eps mult : α) (demand : List α) (sources : List (List α)) : Option Outcome :=
  if fl.includeProtein || fl.includeFat then some .skipped
  else if sources.isEmpty then none
  else
    let total := sumSeries sources
    if total.length ≠ demand.length then some .raised
    else some (.ofBool ((List.zipWith (fun d t => decide (-1e-6 < d - toBillionKcals mult t * (1 - eps))) demand total).all id))

/-- `assert_feed_used_round3_below_feed_used_round2` (never called by the pipeline): `total2 − total3 > −ε`,
    an ABSOLUTE ε in the series' own unit (percent people fed), strict. -/
def feedRound3BelowRound2 (fl : Flags) (eps : α) (sources2 sources3 : List (List α)) : Option Outcome :=
  if fl.includeProtein || fl.includeFat then some .skipped
  else if sources2.isEmpty then some .skipped
  else if sources3.isEmpty then none
  else
    let t2 := sumSeries sources2
    let t3 := sumSeries sources3
    if t2.length ≠ t3.length then some .raised
    else some (.ofBool ((List.zipWith (fun a2 a3 => decide (-eps < a2 - a3)) t2 t3).all id))

/-- `np.allclose(np.zeros(n), b, atol=0.1)` (`rtol = 1e-5` by default): `|0 − bᵢ| ≤ atol + rtol·|bᵢ|` -/
def allCloseZero (atol : α) (b : List α) : Bool := b.all fun v => decide (absv (0 - v) ≤ atol + 1e-5 * absv v)

/-- `assert_feed_and_biofuel_used_is_zero_if_humans_are_starving` (never called by the pipeline; not a
    `@staticmethod`, so it only works when called on the class).
    ODD: despite its name it asserts nothing about feed: the only `assert` is `assert False` when fat or protein
    is required; otherwise a failed test is PRINTED (`warned`).  The parameter `epsilon` is unused. -/
def feedZeroIfStarving (fl : Flags) (percentFed : α) (biofuels feeds : List (List α)) : Outcome :=
  if fl.includeProtein || fl.includeFat then .raised
  else if percentFed < 99.9 then
    let total := List.zipWith (· + ·) (sumSeries biofuels) (sumSeries feeds)
    if allCloseZero 0.1 total then .pass else .warned
  else .skipped

/-- `assert_round3_percent_fed_not_lower_than_round1`.
    ODD: despite its name it never raises: the `assert` is inside the printed text. -/
def round3NotLowerThanRound1 (minPercent p1 p3 eps : α) : Outcome :=
  if p3 ≤ minPercent - 0.1 then (if p1 ≤ p3 + eps then .pass else .warned)
  else .skipped

/-! ## the default tolerances of the signatures

The harness calls the real validators both with explicit tolerances and without (as the pipeline does); in the second
case the model is given THESE values, so a changed default in the code shows up as a difference. -/

/-- `(method.parameter, default)`; `check_constraints_satisfied.tolerance` is the literal `1` of its three asserts -/
def defaults : List (String × α) :=
  [ ("assert_population_not_increasing.epsilon", 1e-1),
    ("assert_round2_meat_and_population_greater_than_round1.epsilon", 1e-2),
    ("assert_round2_meat_and_population_greater_than_round1.small_number", 100.0),
    ("verify_minimum_food_consumption_sum_round2.epsilon", 1e-4),
    ("verify_food_usage_priorities_round2.epsilon", 1e-4),
    ("assert_meat_dairy_doesnt_decrease_round_2.epsilon", 1e-2),
    ("assert_fewer_calories_round2_than_round3.epsilon", 1e-1),
    ("assert_fewer_calories_round2_than_round3.absepsilon", 1e-1),
    ("assert_feed_used_below_feed_demand.epsilon", 1e-4),
    ("assert_biofuels_used_below_biofuels_demand.epsilon", 1e-4),
    ("assert_feed_used_round3_below_feed_used_round2.epsilon", 1e-4),
    ("assert_round3_percent_fed_not_lower_than_round1.epsilon", 1),
    ("check_constraints_satisfied.tolerance", 1) ]

end
end Allfed.Validators
