import sys, os, io, contextlib
os.chdir('/repo'); sys.path.insert(0,'/repo')
import matplotlib; matplotlib.use('Agg')
import numpy as np, pandas as pd, warnings
warnings.filterwarnings('ignore')
from src.scenarios.run_scenario import ScenarioRunner
cap=[]
_io=ScenarioRunner.interpret_optimizer_results
def io_(self,c,model,variables,tc,interp,pfm,optimization_type,title='U'):
    r=_io(self,c,model,variables,tc,interp,pfm,optimization_type,title); cap.append((optimization_type,pfm,r.percent_people_fed)); return r
ScenarioRunner.interpret_optimizer_results=io_
tab=pd.read_csv('/repo/data/no_food_trade/computer_readable_combined.csv')
rows={r['iso3']:r for _,r in tab.iterrows()}
base=dict(scale='country',seasonality='country',grasses='country_nuclear_winter',crop_disruption='country_nuclear_winter',
 scenario='all_resilient_foods',fish='nuclear_winter',waste='baseline_in_country',nutrition='catastrophe',intake_constraints='enabled',
 stored_food='baseline',ratio_stocks_untouched='zero',shutoff='long_delayed_shutoff',cull='do_eat_culled',fat='not_required',protein='not_required',meat_strategy='reduce_breeding',NMONTHS=120)
for kv in sys.argv[2:]:
    k,v=kv.split('='); base[k]=v
isos=list(rows) if sys.argv[1]=='ALL' else sys.argv[1].split(',')
for iso in isos:
    cap.clear(); row=rows[iso]; sr=ScenarioRunner()
    try:
        with contextlib.redirect_stdout(io.StringIO()) as so:
            c,tc,sl=sr.set_depending_on_option(base,country_data=row)
            res=sr.run_and_analyze_scenario(c,tc,sl,False,False,'',row,False,row['country'],iso,title='scratch_'+iso)
    except BaseException as e:
        print(iso,'EXC',type(e).__name__,str(e)[:300].replace('\n',' ')); continue
    bad=[(t,round(o,4),round(h,4)) for t,o,h in cap if t=='to_humans' and abs(o-h)>1e-4*max(1,abs(o))]
    print(iso, 'OK' if not bad else bad, flush=True)
