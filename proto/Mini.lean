import Mathlib.Algebra.Order.Field.Basic
import Mathlib.Tactic.Linarith
import Mathlib.Tactic.Ring
import Mathlib.Algebra.BigOperators.Group.List.Basic
import Mathlib.Algebra.BigOperators.Group.Finset.Basic
import Mathlib.Algebra.BigOperators.Intervals

inductive Var | sfStart (m : Nat) | sfEnd (m : Nat) | sfUse (m : Nat)
deriving DecidableEq, Repr

inductive Rel | le | eq | ge deriving DecidableEq, Repr

structure Row (α : Type) where
  name : String
  form : List (Var × α)
  rel : Rel
  rhs : α

section
variable {α : Type} [Add α] [Sub α] [Mul α] [Neg α] [LE α] [OfNat α 0] [OfNat α 1]

def evalLF (x : Var → α) (l : List (Var × α)) : α := l.foldr (fun p acc => p.2 * x p.1 + acc) 0

def Row.holds (x : Var → α) (r : Row α) : Prop :=
  match r.rel with
  | .le => evalLF x r.form ≤ r.rhs
  | .eq => evalLF x r.form = r.rhs
  | .ge => r.rhs ≤ evalLF x r.form

/-- rows for month m -/
def sfRows (S : α) (m : Nat) : List (Row α) :=
  (if m = 0 then [⟨s!"start_{m}", [(Var.sfStart 0, 1)], .eq, S⟩]
   else [⟨s!"start_{m}", [(Var.sfStart m, 1), (Var.sfEnd (m-1), -1)], .eq, 0⟩]) ++
  [⟨s!"eaten_{m}", [(Var.sfEnd m, 1), (Var.sfStart m, -1), (Var.sfUse m, 1)], .eq, 0⟩]

def buildLP (S : α) (N : Nat) : List (Row α) := (List.range N).flatMap (sfRows S)

def Feasible (rows : List (Row α)) (x : Var → α) : Prop :=
  (∀ r ∈ rows, r.holds x) ∧ ∀ v, 0 ≤ x v
end

section
variable {K : Type} [Field K] [LinearOrder K] [IsStrictOrderedRing K]

theorem mem_build {S : K} {N m : Nat} (hm : m < N) {r : Row K} (hr : r ∈ sfRows S m) : r ∈ buildLP S N := by
  unfold buildLP
  exact List.mem_flatMap.mpr ⟨m, List.mem_range.mpr hm, hr⟩

theorem end_eq (S : K) (N : Nat) (x : Var → K) (h : Feasible (buildLP S N) x) :
    ∀ m, m < N → x (Var.sfEnd m) = S - ∑ k ∈ Finset.range (m+1), x (Var.sfUse k) := by
  intro m
  induction m with
  | zero =>
    intro hm
    have h1 := h.1 _ (mem_build hm (r := ⟨s!"start_{0}", [(Var.sfStart 0, 1)], .eq, S⟩) (by simp [sfRows]))
    have h2 := h.1 _ (mem_build hm (r := ⟨s!"eaten_{0}", [(Var.sfEnd 0, 1), (Var.sfStart 0, -1), (Var.sfUse 0, 1)], .eq, 0⟩) (by simp [sfRows]))
    simp [Row.holds, evalLF] at h1 h2
    simp
    linarith
  | succ n ih =>
    intro hm
    have ihn := ih (by omega)
    have h1 := h.1 _ (mem_build hm (r := ⟨s!"start_{n+1}", [(Var.sfStart (n+1), 1), (Var.sfEnd (n+1-1), -1)], .eq, 0⟩) (by simp [sfRows]))
    have h2 := h.1 _ (mem_build hm (r := ⟨s!"eaten_{n+1}", [(Var.sfEnd (n+1), 1), (Var.sfStart (n+1), -1), (Var.sfUse (n+1), 1)], .eq, 0⟩) (by simp [sfRows]))
    simp [Row.holds, evalLF] at h1 h2
    rw [Finset.sum_range_succ]
    linarith

theorem cumulative_use_le (S : K) (N : Nat) (x : Var → K) (h : Feasible (buildLP S N) x) (m : Nat) (hm : m < N) :
    ∑ k ∈ Finset.range (m+1), x (Var.sfUse k) ≤ S := by
  have := end_eq S N x h m hm
  have hn := h.2 (Var.sfEnd m)
  linarith
end

#print axioms cumulative_use_le
#eval (buildLP (5.0 : Float) 2).map (fun r => (r.name, r.form.map (fun p => (repr p.1, p.2)), repr r.rel, r.rhs))
