import Driver.Loop
import Driver.Ops.Supply
def main : IO Unit := runDriver Ops.Supply.ops
