import AllfedModel.Model.AllocLP
import AllfedModel.Model.Certificate
import AllfedModel.Proofs.Completion
/-!
# C16 — every country completes under every documented preset

The property itself is decided by executing the grid (harness/props/c16.py).  What a theorem can
add: the LP of a round that charges no feed and no biofuel (round 1, and round 3 when round 2 was
skipped or found nothing) always has a feasible point and a bounded objective when no seaweed is
farmed, for every well-formed input — so a failure of such a round can only be numerical.
With seaweed the statement is false in general (biomass that may neither be harvested beyond the
human intake cap nor exceed the density ceiling), which is why it is excluded here.
-/
namespace Allfed.C16
open Allfed.LP Allfed.AllocLP Allfed.Certificate

variable {K : Type} [Field K] [LinearOrder K] [IsStrictOrderedRing K]

/-- inputs of a zero-charge human round as the pipeline produces them -/
structure ZeroChargeInput (i : Inp K) : Prop where
  months : 2 ≤ i.nmonths
  noSeaweed : i.addSeaweed = false
  wf : WellFormed i
  need : 0 < i.billionKcalsNeeded
  feed0 : ∀ m, at' i.feed m = 0
  biofuel0 : ∀ m, at' i.biofuel m = 0
  supplies : (∀ m, 0 ≤ at' i.milk m) ∧ (∀ m, 0 ≤ at' i.greenhouse m) ∧ (∀ m, 0 ≤ at' i.fish m) ∧
             (∀ m, 0 ≤ at' i.scp m) ∧ (∀ m, 0 ≤ at' i.cs m) ∧ (∀ m, 0 ≤ at' i.slaughtered m) ∧
             (∀ m, 0 ≤ at' i.maxCulled m) ∧ 0 ≤ i.meatSummed
  /-- only the human intake limits matter: the feed and biofuel caps `lim·charge` are `lim·0`
      whatever the sign of the limit (the four `…F/…B` conjuncts of the first version were
      superfluous and have been dropped) -/
  limits : 0 ≤ i.limScpH ∧ 0 ≤ i.limCsH
  population : 0 ≤ i.pop ∧ 0 ≤ i.kcalsMonthly

/-- feasibility: eat the stock in month 0 and every harvest in the month it appears
    (`months` is not needed for this half; `WellFormed` is used for `wStored, wCrop < 100`,
    `0 ≤ storedInitial`, `0 ≤ cropProd m` on the horizon) -/
theorem zero_charge_feasible_no_seaweed (i : Inp K) (h : ZeroChargeInput i) :
    ∃ x, Feasible (buildLP i .toHumans) x :=
  Proofs.Completion.zero_charge_feasible_no_seaweed i h.noSeaweed h.wf h.need h.feed0 h.biofuel0
    h.supplies h.limits h.population

/-- boundedness: the objective never exceeds month 0's supply relative to need -/
theorem objective_bounded (i : Inp K) (h : ZeroChargeInput i) (x : Var → K) (hx : Feasible (buildLP i .toHumans) x) :
    x .objective ≤
      (i.storedInitial + at' i.cropProd 0 + at' i.milk 0 + (if i.storeBetweenYears then i.meatSummed else at' i.slaughtered 0)
        + at' i.cs 0 + at' i.scp 0 + at' i.greenhouse 0 + at' i.fish 0) / i.billionKcalsNeeded * 100 :=
  Proofs.Completion.objective_bounded i h.months h.noSeaweed h.wf h.need h.supplies x hx

end Allfed.C16
