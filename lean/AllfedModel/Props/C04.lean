import AllfedModel.Model.Report
namespace Allfed.C04
end Allfed.C04
