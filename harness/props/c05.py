"""C05 - meat and milk offered to the optimiser match the simulated herds and feed (DESIGN.md §7 C05)."""
import numpy as np
from lib import lpcheck, pipeline, wire
from lib.wire import f2b, fl, enc_str, Reader

ID = "C05"
LEVEL = "proof"
DRIVER = "driver_coupling"
LEAN_MODULES = ["AllfedModel.Props.C05"]
from translators import tr_species
TRANSLATORS = [tr_species.run]
OBLIGATIONS = ["Allfed.C05." + n for n in [
    "accumulate_size_class", "accumulate_assigned_class", "spec_split", "meatMonth_eq_spec", "meatSpec_nonneg",
    "milkMonth_linear", "round2_total_preserved", "charge_ge_eaten", "classOf_total_on_table", "perHead_pos", "perHead_override_frame"]]
LEVEL_TEXT = ("Lean 4 theorems: the five slaughter accumulators of the code equal the per-species sum at each class's per-head yield (every species counted once, "
              "given at most one chicken-type and one pig-type species and every species having a size class - decided over the species table), meat and milk are linear in "
              "slaughter counts / herd size with the stated waste factors, re-timing preserves the round-2 total (C18), the final feed charge is never below what the herds ate (C18 bump). "
              "The model is run against the herd objects and time_consts captured from every round of real three-round runs.")
LEVEL_NOTE = ("Trusted: Lean kernel; the harness capturing CalculateFeedAndMeat instances and the dictionaries handed to each Optimizer; floats compared at rel 1e-9. "
              "The herd simulation itself is the subject of C06/C07.")
TECHNIQUE = "Lean 4 proof (list induction) + correspondence on captured herd objects and optimiser inputs of real runs"
RULE = ("every round of the captured three-round runs: monthly meat and milk series handed to the optimiser vs the model applied to that round's herd lists; "
        "feed charged vs feed eaten; grass used vs available; non-trivial = some slaughter and a milking herd present; distinct = (country, options, round)")
ASSUMPTIONS = ["species types are distinct and each has animal size small/medium/large (checked on the species of every captured herd)"]


def herd_tokens(animals, n):
    toks = [str(len(animals))]
    for a in animals:
        toks += [enc_str(a.animal_type), enc_str(str(a.animal_size)), fl(np.asarray(a.slaughter, dtype=float)[:n]),
                 fl(np.asarray(a.population, dtype=float)[:n])]
    return " ".join(toks)


def audit_run(ctx, run):
    from src.food_system.meat_and_dairy import MeatAndDairy
    if not run.herds or not run.solves:
        return
    ci = run.constants_for_params
    n = int(ci["NMONTHS"])
    mad = MeatAndDairy(ci)
    mad.initialize_this_country_animal_kcals(ci)
    k = mad.kcals_per_head_meat_dict
    kimpl = [k["KCALS_PER_CHICKEN"], k["KCALS_PER_PIG"], k["KCALS_PER_SMALL_ANIMAL"], k["KCALS_PER_MEDIUM_ANIMAL"], k["KCALS_PER_LARGE_ANIMAL"]]
    # the per-head yields from the run's OWN inputs, computed by the model (not by the code under test)
    ov = run.opts.get("kg_meat_per_large_animal")
    o = wire.run_driver(["coupling.perhead %s %s %d %s" % (f2b(ci["KG_MEAT_PER_CHICKEN"]), f2b(ci["KG_MEAT_PER_PIG"]), 1 if ov is not None else 0,
                                                          f2b(float(ov) if ov is not None else 0.0))], exe_name=DRIVER)[0]
    kvals = Reader(o).floats()
    case_k = {"country": run.iso, "options": run.opts}
    if not wire.close_list(kvals, [float(v) for v in kimpl], 1e-12, 0):
        ctx.disagree("C05:per-head-yields", case_k, [float(v) for v in kimpl], kvals)
        ctx.violation("per-head-yield", "%s: per-head meat yields used (%r) are not carcass weight x energy density of this run's own inputs (%r)" % (
            run.iso, [float(v) for v in kimpl], kvals), case_k)
    # every herd of the run must be simulated under the configured breeding strategy
    for h, a, kw in run.herds:
        sc = kw.get("scenario", a[3] if len(a) > 3 else None)
        if sc != ci["BREEDING_STRATEGY"]:
            ctx.violation("herd-strategy-mismatch", "%s: a herd of this run is simulated under strategy %r, the configured one is %r" % (
                run.iso, sc, ci["BREEDING_STRATEGY"]), dict(case_k, herd_index=[x[0] for x in run.herds].index(h)))
    # which herd object a solve's meat and milk come from.  Construction order of the herds: round 1 (zero feed); round 2 (demand
    # as feed), built before round 2 may abort; the final round builds its own herd only when round 2 produced results, otherwise
    # it re-uses the round-1 herd (compute_parameters_third_round: `time_consts_round2 is None`)
    herd_of_round = {}
    hs = [h for h, a, kw in run.herds]
    kinds = [s_.kind for s_ in run.solves]
    round2_ran = "to_animals" in kinds
    for j, knd in enumerate(kinds):
        if knd == "to_animals":
            herd_of_round[j] = hs[1] if len(hs) >= 2 else None
        elif j == 0 and (len(kinds) > 1 or "second" in run.params or "third" not in run.params):
            herd_of_round[j] = hs[0]
        else:  # the final human-maximising round
            herd_of_round[j] = hs[2] if (round2_ran and len(hs) >= 3) else hs[0]
    third_only = len(run.solves) == 1 and "third" in run.params
    for r_idx, s in enumerate(run.solves):
        herd = herd_of_round.get(r_idx)
        if herd is None:
            continue
        T = s.opt.time_consts
        final = s.kind == "to_humans" and r_idx == len(run.solves) - 1 and (r_idx > 0 or third_only)
        case = {"country": run.iso, "options": run.opts, "round": (3 if final else r_idx + 1), "kind": s.kind}
        animals = list(herd.all_animals)
        lines = ["coupling.meat %d %s %s %s" % (n, " ".join(f2b(x) for x in kvals), f2b(mad.MEAT_WASTE_DISTRIBUTION), herd_tokens(animals, n)),
                 "coupling.milk %d %s %s %s %s %s" % (n, f2b(ci["MILK_YIELD_KG_PER_MILK_BEARING_ANIMAL_PER_YEAR"]), f2b(mad.MILK_KCALS),
                                                     f2b(mad.MILK_WASTE_DISTRIBUTION), f2b(mad.MILK_WASTE_RETAIL), herd_tokens(animals, n))]
        o = wire.run_driver(lines, exe_name=DRIVER)
        rd = Reader(o[0])
        meat_code, meat_spec, cls = rd.floats(), rd.floats(), rd.strs()
        rd = Reader(o[1])
        milk_model, pop_model = rd.floats(), rd.floats()
        meat_impl = np.asarray(T["each_month_meat_slaughtered"].kcals, dtype=float)
        milk_impl = np.asarray(T["milk_kcals"], dtype=float)
        scale = max(1.0, float(np.max(np.abs(meat_impl))))
        # species classes
        types = [a.animal_type for a in animals]
        if len(set(types)) != len(types) or "9" in cls:
            ctx.violation("species-class", "%s: a species falls through every slaughter class or a type is duplicated: %s" % (run.iso, list(zip(types, cls))), case)
        if s.kind == "to_humans":
            # month by month
            if not np.allclose(meat_code, meat_impl, rtol=1e-9, atol=1e-9 * scale):
                m = int(np.argmax(np.abs(np.array(meat_code) - meat_impl)))
                ctx.disagree("C05:meat-series", dict(case, month=m), float(meat_impl[m]), meat_code[m])
            if not np.allclose(meat_spec, meat_impl, rtol=1e-9, atol=1e-9 * scale):
                m = int(np.argmax(np.abs(np.array(meat_spec) - meat_impl)))
                ctx.violation("meat-not-herd-slaughter", "%s round %d: meat offered in month %d is %r, herd slaughter x yields x (1-waste) is %r" % (
                    run.iso, case["round"], m, float(meat_impl[m]), meat_spec[m]), dict(case, month=m))
        else:
            # feed-maximising round: total over the horizon (slaughter is re-timed)
            if not wire.close(float(np.sum(meat_spec)), float(np.sum(meat_impl)), 1e-9, 1e-9 * scale * n):
                ctx.violation("meat-total-not-herd-slaughter", "%s round 2: total meat offered %r, herd slaughter total %r" % (
                    run.iso, float(np.sum(meat_impl)), float(np.sum(meat_spec))), case)
            if float(np.min(meat_impl)) < -1e-9 * scale:
                ctx.violation("meat-negative-after-retiming", "%s round 2: re-timed meat negative" % run.iso, case)
        add_milk = bool(ci["ADD_MILK"])
        want_milk = np.array(milk_model) if add_milk else np.zeros(n)
        if not np.allclose(want_milk, milk_impl, rtol=1e-9, atol=1e-12):
            m = int(np.argmax(np.abs(want_milk - milk_impl)))
            ctx.disagree("C05:milk-series", dict(case, month=m), float(milk_impl[m]), float(want_milk[m]))
            ctx.violation("milk-not-milking-herd", "%s round %d: milk offered in month %d is %r, milking herd x yield x (1-waste) is %r" % (
                run.iso, case["round"], m, float(milk_impl[m]), float(want_milk[m])), dict(case, month=m))
        # total offered to the LP as meat stock = sum of the monthly series (storage regime)
        C = s.opt.consts_for_optimizer
        if not wire.close(float(C["meat_summed_consumption"]), float(np.sum(meat_impl)), 1e-9, 1e-9 * scale * n):
            ctx.violation("meat-total-differs-from-series", "%s round %d: meat_summed_consumption %r but the monthly series sums to %r" % (
                run.iso, case["round"], float(C["meat_summed_consumption"]), float(np.sum(meat_impl))), case)
        # ... and the running total the LP caps cumulative meat eating with = the cumulative sum of that same monthly series
        running = np.asarray(T["max_consumed_culled_kcals_each_month"], dtype=float)[:n]
        cum = np.cumsum(meat_impl[:n])
        if running.shape != cum.shape or not np.allclose(running, cum, rtol=1e-9, atol=1e-9 * scale * n):
            m = int(np.argmax(np.abs(running - cum))) if running.shape == cum.shape else 0
            ctx.violation("meat-running-total-differs-from-series", "%s round %d: the running total of meat handed to the optimiser is %r in month %d, the monthly series it is "
                          "handed adds up to %r by then" % (run.iso, case["round"], float(running[m]), m, float(cum[m])), dict(case, month=m))
        # feed and grass
        feed_charged = np.asarray(T["feed"].kcals, dtype=float)
        feed_eaten = np.asarray(herd.feed_used.kcals if hasattr(herd.feed_used, "kcals") else herd.feed_used, dtype=float)[:n]
        grass_used = np.asarray(herd.grass_used.kcals if hasattr(herd.grass_used, "kcals") else herd.grass_used, dtype=float)[:n]
        grass_av = np.asarray(mad.human_inedible_feed.kcals, dtype=float)[:n]
        fscale = max(1.0, float(np.max(feed_eaten)) if len(feed_eaten) else 1.0)
        if s.kind == "to_humans" and len(feed_eaten) == n:
            if np.any(feed_charged < feed_eaten - 1e-9 * fscale):
                m = int(np.argmax(feed_eaten - feed_charged))
                ctx.violation("charge-below-eaten", "%s round %d: feed charged %r in month %d is less than the herds ate (%r)" % (
                    run.iso, case["round"], float(feed_charged[m]), m, float(feed_eaten[m])), dict(case, month=m))
            if not feed_charged.any() and feed_eaten.any():
                ctx.violation("zero-charge-but-herds-fed", "%s round %d charges no feed but its herds ate feed" % (run.iso, case["round"]), case)
        if len(grass_used) == n and np.any(grass_used > grass_av + 1e-9 * max(1.0, float(np.max(grass_av)))):
            m = int(np.argmax(grass_used - grass_av))
            ctx.violation("grass-overused", "%s round %d: herds ate %r of grass in month %d, %r available" % (
                run.iso, case["round"], float(grass_used[m]), m, float(grass_av[m])), dict(case, month=m))
        ctx.case((run.iso, sorted(run.opts.items()), r_idx), nontrivial=float(np.sum(meat_impl)) > 0 and float(np.sum(pop_model)) > 0,
                 sample={"country": run.iso, "round": case["round"], "species": types, "classes": cls, "meat_total": float(np.sum(meat_impl)),
                         "milk_month0": float(milk_impl[0]), "feed_charged_total": float(np.sum(feed_charged)), "feed_eaten_total": float(np.sum(feed_eaten))})
        ctx.count("rounds:" + s.kind)
        ctx.count("species-per-herd", len(animals))


def explore(ctx, ps):
    for iso, over in ps:
        run = pipeline.run_scenario(iso, pipeline.options(**over))
        if run.error and not run.solves:
            ctx.count("run-error:" + run.error.split(":")[0])
            continue
        audit_run(ctx, run)
        if ctx.quick and ctx.elapsed() > 150:
            ctx.count("quick-budget-reached")
            break


def correspondence(ctx):
    ps = list(lpcheck.PRESETS_QUICK) + [("IND", dict(meat_strategy="feed_only_ruminants")), ("NZL", dict(cull="dont_eat_culled")),
                                        # pastoral herds; an override of the large-animal carcass weight followed by a run without it
                                        ("MNG", dict(NMONTHS=48)), ("USA", dict(NMONTHS=48, kg_meat_per_large_animal=150, meat_strategy="baseline_breeding")),
                                        ("USA", dict(NMONTHS=48, meat_strategy="baseline_breeding")), ("KEN", dict(NMONTHS=48)),
                                        # herds in which a species that has its own meat yield (chicken, pig) is absent while others of its size class are present
                                        ("GRC", dict(NMONTHS=48)), ("USA", dict(NMONTHS=48, pig_head=0)), ("ARG", dict(NMONTHS=48, chicken_head=0)),
                                        # present-day climate, breeding reduced, feed shut off late: the re-timing of meat between the no-feed and the fed herd really moves meat
                                        ("MDG", dict(grasses="baseline", crop_disruption="zero", fish="baseline", scenario="no_resilient_foods", nutrition="baseline",
                                                     ratio_stocks_untouched="baseline", shutoff="short_delayed_shutoff")),
                                        ("AFG", dict(grasses="baseline", crop_disruption="zero", fish="baseline", scenario="no_resilient_foods", nutrition="baseline",
                                                     ratio_stocks_untouched="baseline", shutoff="long_delayed_shutoff", NMONTHS=72))]
    isos = sorted(pipeline.country_rows())
    for _ in range(ctx.budget(2, 60)):
        ps.append(lpcheck.random_preset(ctx.rng, isos))
    if not ctx.quick:
        ps += [(iso, dict()) for iso in isos]
    explore(ctx, ps)


def search(ctx):
    isos = sorted(pipeline.country_rows())
    explore(ctx, [lpcheck.random_preset(ctx.rng, isos) for _ in range(8)])


def replay(ctx, rep):
    hits = []
    for v in rep.get("violations", []):
        c = v["case"]
        n0 = len(ctx.violations)
        explore(ctx, [(c["country"], dict(c["options"]))])
        hits += [w for w in ctx.violations[n0:] if w["key"] == v["key"]]
    return bool(hits), hits[:3]
